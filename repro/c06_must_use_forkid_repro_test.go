package interpreter_test

import (
	"testing"

	"github.com/libsv/go-bk/bec"
	"github.com/libsv/go-bt/v2"
	"github.com/libsv/go-bt/v2/bscript"
	"github.com/libsv/go-bt/v2/bscript/interpreter"
	"github.com/libsv/go-bt/v2/bscript/interpreter/errs"
	"github.com/libsv/go-bt/v2/sighash"
)

// With SIGHASH_FORKID enabled a signature whose hash type lacks the FORKID bit must be a hard
// failure (the node: SCRIPT_ERR_MUST_USE_FORKID) - otherwise pre-fork signatures replay.
func TestC06LegacySignatureUnderForkID(t *testing.T) {
	priv, _ := bec.NewPrivateKey(bec.S256())
	lock, _ := bscript.NewP2PKHFromPubKeyBytes(priv.PubKey().SerialiseCompressed())
	tx := bt.NewTx()
	_ = tx.From("07912972e42095fe58daaf09161c5a5da57be47c2054dc2aaa52b30fefa1940b", 0, lock.String(), 5000)
	_ = tx.PayToAddress("1C8bzHM8XFBHZ2ZZVvFy2NSoAZbwCXAicL", 4000)
	sh, err := tx.CalcInputSignatureHash(0, sighash.All) // legacy digest, no FORKID bit
	if err != nil {
		t.Fatal(err)
	}
	sig, _ := priv.Sign(sh)
	unlock, _ := bscript.NewP2PKHUnlockingScript(priv.PubKey().SerialiseCompressed(), sig.Serialise(), sighash.All)
	tx.Inputs[0].UnlockingScript = unlock
	err = interpreter.NewEngine().Execute(
		interpreter.WithTx(tx, 0, &bt.Output{LockingScript: lock, Satoshis: 5000}),
		interpreter.WithForkID(),
		interpreter.WithAfterGenesis(),
	)
	if err == nil {
		t.Fatalf("a signature without the FORKID bit was accepted although SIGHASH_FORKID is enabled")
	}
	if !errs.IsErrorCode(err, errs.ErrIllegalForkID) {
		t.Fatalf("expected a fork-id error, got %v", err)
	}
}
