package bscript_test

// Demonstration for the C14 defects repaired by a "fix:" commit: every byte string must be
// classifiable without a panic. Copy into /repo/bscript and run
//   go test -vet=off -count=1 -run TestReproC14 ./bscript/

import (
	"encoding/hex"
	"testing"

	"github.com/libsv/go-bt/v2/bscript"
)

func TestReproC14(t *testing.T) {
	for _, h := range []string{
		"21" + "02" + "0000000000000000000000000000000000000000000000000000000000000000" + "4c00", // <key> <empty push>
		"4c00" + "51" + "51" + "ae",                                                                   // <empty> 1 1 CHECKMULTISIG
		"4c004c004c004c004c004c004c004c004c004c004c004c004c00",                                       // 13 empty parts
		"76a9" + "00" + "88ac" + "0063" + "036f7264" + "51" + "0100" + "00" + "0100" + "68",           // inscription with a 16..24 byte script
		"76a9" + "00" + "88ac" + "0063" + "016f" + "51" + "0100" + "00" + "0100" + "68",                // parts[7] shorter than 3
	} {
		b, _ := hex.DecodeString(h)
		s := bscript.NewFromBytes(b)
		func() {
			defer func() {
				if r := recover(); r != nil {
					t.Errorf("%s: panicked: %v", h, r)
				}
			}()
			_ = s.ScriptType()
			_ = s.IsP2PK()
			_ = s.IsMultiSigOut()
			_ = s.IsP2PKHInscription()
			_, _ = s.ParseInscription()
			_, _ = s.ToASM()
			_, _ = s.Addresses()
		}()
	}
}
