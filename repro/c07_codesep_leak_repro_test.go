package interpreter_test

import (
	"testing"

	"github.com/libsv/go-bk/bec"
	"github.com/libsv/go-bt/v2"
	"github.com/libsv/go-bt/v2/bscript"
	"github.com/libsv/go-bt/v2/bscript/interpreter"
)

func TestC07CodeSepLeaksAcrossEarlyReturn(t *testing.T) {
	defer func() {
		if r := recover(); r != nil {
			t.Fatalf("interpreter panicked: %v", r)
		}
	}()
	unlock := &bscript.Script{}
	priv, _ := bec.NewPrivateKey(bec.S256())
	sig, _ := priv.Sign(make([]byte, 32))
	_ = unlock.AppendPushData(append(sig.Serialise(), 0x41))
	_ = unlock.AppendOpcodes(bscript.OpNOP, bscript.OpNOP, bscript.OpNOP, bscript.OpCODESEPARATOR, bscript.OpRETURN)
	lock := &bscript.Script{}
	_ = lock.AppendPushData(priv.PubKey().SerialiseCompressed())
	_ = lock.AppendOpcodes(bscript.OpCHECKSIG)
	tx := bt.NewTx()
	_ = tx.From("07912972e42095fe58daaf09161c5a5da57be47c2054dc2aaa52b30fefa1940b", 0, lock.String(), 5000)
	_ = tx.PayToAddress("1C8bzHM8XFBHZ2ZZVvFy2NSoAZbwCXAicL", 4000)
	tx.Inputs[0].UnlockingScript = unlock
	err := interpreter.NewEngine().Execute(
		interpreter.WithTx(tx, 0, &bt.Output{LockingScript: lock, Satoshis: 5000}),
		interpreter.WithForkID(),
		interpreter.WithAfterGenesis(),
	)
	t.Logf("err=%v", err)
}
