package interpreter_test

// Demonstration for the C05 defect repaired by a "fix:" commit: after genesis a stack index or
// key count of 2^64+k wrapped to k. Copy into /repo/bscript/interpreter and run
//   go test -vet=off -count=1 -run TestReproC05 ./bscript/interpreter/

import (
	"testing"

	"github.com/libsv/go-bt/v2/bscript"
	"github.com/libsv/go-bt/v2/bscript/interpreter"
)

func TestReproC05(t *testing.T) {
	// OP_1 OP_1 <2^64 as 9 bytes> OP_PICK : index 2^64 must be an invalid stack operation, not index 0
	ls, _ := bscript.NewFromHexString("5151" + "09" + "000000000000000001" + "79")
	us, _ := bscript.NewFromHexString("51")
	err := interpreter.NewEngine().Execute(interpreter.WithScripts(ls, us), interpreter.WithAfterGenesis())
	if err == nil {
		t.Fatal("PICK with index 2^64 succeeded (index wrapped to 0)")
	}
}
