package bt_test

import (
	"testing"

	"github.com/libsv/go-bt/v2"
	"github.com/libsv/go-bt/v2/bscript"
)

func mkTx(t *testing.T, nOut int, in uint64) *bt.Tx {
	tx := bt.NewTx()
	if err := tx.From("07912972e42095fe58daaf09161c5a5da57be47c2054dc2aaa52b30fefa1940b", 0, "76a914af2590a45ae401651fdbdf59a76ad43d1862534088ac", in); err != nil {
		t.Fatal(err)
	}
	for i := 0; i < nOut; i++ {
		if err := tx.PayToAddress("1C8bzHM8XFBHZ2ZZVvFy2NSoAZbwCXAicL", 1000); err != nil {
			t.Fatal(err)
		}
	}
	return tx
}

func quote(sat, bytes int) *bt.FeeQuote {
	fq := bt.NewFeeQuote()
	fq.AddQuote(bt.FeeTypeStandard, &bt.Fee{FeeType: bt.FeeTypeStandard, MiningFee: bt.FeeUnit{Satoshis: sat, Bytes: bytes}, RelayFee: bt.FeeUnit{Satoshis: sat, Bytes: bytes}})
	fq.AddQuote(bt.FeeTypeData, &bt.Fee{FeeType: bt.FeeTypeData, MiningFee: bt.FeeUnit{Satoshis: sat, Bytes: bytes}, RelayFee: bt.FeeUnit{Satoshis: sat, Bytes: bytes}})
	return fq
}

func TestC10VarintBoundary(t *testing.T) {
	tx := mkTx(t, 252, 100000000)
	fq := quote(5, 1)
	if err := tx.ChangeToAddress("1C8bzHM8XFBHZ2ZZVvFy2NSoAZbwCXAicL", fq); err != nil {
		t.Fatal(err)
	}
	if len(tx.Outputs) != 253 {
		t.Fatalf("outputs %d", len(tx.Outputs))
	}
	ok, err := tx.EstimateIsFeePaidEnough(fq)
	fees, _ := tx.EstimateFeesPaid(fq)
	t.Logf("paid=%d required=%d", tx.TotalInputSatoshis()-tx.TotalOutputSatoshis(), fees.TotalFeePaid)
	if err != nil || !ok {
		t.Fatalf("fee not enough after change: ok=%v err=%v", ok, err)
	}
}

func TestC10LongScript(t *testing.T) {
	tx := mkTx(t, 1, 100000000)
	fq := quote(1, 1)
	s := bscript.Script(make([]byte, 0))
	for i := 0; i < 300; i++ {
		s = append(s, bscript.OpNOP)
	}
	s = append(s, bscript.OpTRUE)
	if err := tx.Change(&s, fq); err != nil {
		t.Fatal(err)
	}
	ok, err := tx.EstimateIsFeePaidEnough(fq)
	fees, _ := tx.EstimateFeesPaid(fq)
	t.Logf("paid=%d required=%d", tx.TotalInputSatoshis()-tx.TotalOutputSatoshis(), fees.TotalFeePaid)
	if err != nil || !ok {
		t.Fatalf("fee not enough after change: ok=%v err=%v", ok, err)
	}
}
