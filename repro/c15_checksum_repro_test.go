package bscript_test

// Demonstration of the recorded, unrepaired C15 finding: NewAddressFromString /
// NewP2PKHFromAddress accept an address whose Base58Check checksum is wrong, while
// ValidateAddress rejects it. (The pinned tests TestTx_OutputIdx and
// TestNewAddressFromString/unsupported_address rely on such addresses being accepted, so the
// defect cannot be repaired without editing the suite.) Copy into /repo/bscript and run
//   go test -vet=off -count=1 -run TestReproC15 ./bscript/   — it FAILS on the current tree.

import (
	"testing"

	"github.com/libsv/go-bt/v2/bscript"
)

func TestReproC15(t *testing.T) {
	good, _ := bscript.NewAddressFromPublicKeyHash(make([]byte, 20), true)
	addr := []byte(good.AddressString)
	// flip the last character to another Base58 digit
	if addr[len(addr)-1] == '2' {
		addr[len(addr)-1] = '3'
	} else {
		addr[len(addr)-1] = '2'
	}
	typo := string(addr)
	if ok, _ := bscript.ValidateAddress(typo); ok {
		t.Skip("typo happened to validate")
	}
	if _, err := bscript.NewP2PKHFromAddress(typo); err == nil {
		t.Fatalf("address %q has a wrong checksum (ValidateAddress rejects it) but NewP2PKHFromAddress built a locking script from it", typo)
	}
}
