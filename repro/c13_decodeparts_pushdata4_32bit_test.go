package bscript

// Repro for repo fix 521827e (run with GOARCH=386): before the fix DecodeParts panicked with
// "slice bounds out of range [:-1]" on this six byte input, because the OP_PUSHDATA4 length
// 0xffffffff converts to -1 where int is 32 bits wide and -1 passes `len(b) < l`.
// Copy into bscript/ and run:  GOARCH=386 go test -run TestDecodePartsPushdata4Huge ./bscript/

import "testing"

func TestDecodePartsPushdata4Huge(t *testing.T) {
	defer func() {
		if r := recover(); r != nil {
			t.Fatalf("panic: %v", r)
		}
	}()
	if _, err := DecodeParts([]byte{0x4e, 0xff, 0xff, 0xff, 0xff, 0x00}); err == nil {
		t.Fatal("expected ErrDataTooSmall")
	}
}
