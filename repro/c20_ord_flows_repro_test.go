package ord_test

import (
	"context"
	"encoding/hex"
	"testing"

	"github.com/libsv/go-bk/wif"
	"github.com/libsv/go-bt/v2"
	"github.com/libsv/go-bt/v2/bscript"
	"github.com/libsv/go-bt/v2/bscript/interpreter"
	"github.com/libsv/go-bt/v2/ord"
	"github.com/libsv/go-bt/v2/unlocker"
)

func quote(sat, bytes int) *bt.FeeQuote {
	fq := bt.NewFeeQuote()
	fq.AddQuote(bt.FeeTypeStandard, &bt.Fee{FeeType: bt.FeeTypeStandard, MiningFee: bt.FeeUnit{Satoshis: sat, Bytes: bytes}, RelayFee: bt.FeeUnit{Satoshis: sat, Bytes: bytes}})
	fq.AddQuote(bt.FeeTypeData, &bt.Fee{FeeType: bt.FeeTypeData, MiningFee: bt.FeeUnit{Satoshis: sat, Bytes: bytes}, RelayFee: bt.FeeUnit{Satoshis: sat, Bytes: bytes}})
	return fq
}

func txid(s string) []byte { b, _ := hex.DecodeString(s); return b }

type party struct {
	script   *bscript.Script
	unlocker bt.Unlocker
}

func mkParty(w string) party {
	k, _ := wif.DecodeWIF(w)
	addr, _ := bscript.NewAddressFromPublicKeyString(hex.EncodeToString(k.SerialisePubKey()), true)
	s, _ := bscript.NewP2PKHFromAddress(addr.AddressString)
	g := unlocker.Getter{PrivateKey: k.PrivKey}
	u, _ := g.Unlocker(context.Background(), s)
	return party{s, u}
}

func verifyAll(t *testing.T, tx *bt.Tx, spent []*bt.Output) {
	for i := range tx.Inputs {
		err := interpreter.NewEngine().Execute(interpreter.WithTx(tx, i, spent[i]), interpreter.WithForkID(), interpreter.WithAfterGenesis())
		if err != nil {
			t.Errorf("input %d rejected: %v", i, err)
		}
	}
}

func TestC20BidFlowLongSellerScript(t *testing.T) {
	buyer := mkParty("L42PyNwEKE4XRaa8PzPh7JZurSAWJmx49nbVfaXYuiQg3RCubwn7")
	seller := mkParty("KwQq67d4Jds3wxs3kQHB8PPwaoaBQfNKkzAacZeMesb7zXojVYpj")
	fq := quote(1, 1)
	us := []*bt.UTXO{
		{TxID: txid("e3e0c0b46826ae1cd8932daf70b280d686104cdd5c685dbe6bed823e437f9040"), Vout: 0, LockingScript: buyer.script, Satoshis: 9000, Unlocker: &buyer.unlocker},
		{TxID: txid("44ab22c6996ce2dee4829fa171dd2543f16bd35b7373aa446b3060bdbf43b588"), Vout: 0, LockingScript: buyer.script, Satoshis: 5000, Unlocker: &buyer.unlocker},
	}
	ordUTXO := &bt.UTXO{TxID: txid("75e24ffd0161f094a5e419dba42684c69faeacbeb805a1d9afdb29f6f4ac81ad"), Vout: 0, LockingScript: seller.script, Satoshis: 1}
	pstx, err := ord.MakeBidToBuy1SatOrdinal(context.Background(), &ord.MakeBidArgs{
		BidAmount: 500, OrdinalTxID: ordUTXO.TxIDStr(), OrdinalVOut: 0, BidderUTXOs: us,
		BuyerReceiveOrdinalScript: buyer.script, DummyOutputScript: buyer.script, ChangeScript: buyer.script, FQ: fq,
	})
	if err != nil {
		t.Fatal(err)
	}
	long := append(bscript.Script{}, *seller.script...)
	for i := 0; i < 90; i++ {
		long = append(long, bscript.OpNOP)
	}
	tx, err := ord.AcceptBidToBuy1SatOrdinal(context.Background(), &ord.ValidateBidArgs{BidAmount: 500, ExpectedFQ: fq, OrdinalUTXO: ordUTXO},
		&ord.AcceptBidArgs{PSTx: pstx, SellerReceiveScript: &long, OrdinalUnlocker: seller.unlocker})
	if err != nil {
		t.Logf("accept refused: %v (acceptable: no transaction is produced)", err)
		return
	}
	spent := []*bt.Output{{LockingScript: buyer.script, Satoshis: 9000}, {LockingScript: seller.script, Satoshis: 1}, {LockingScript: buyer.script, Satoshis: 5000}}
	verifyAll(t, tx, spent)
	ok, err := tx.IsFeePaidEnough(fq)
	fees, _ := tx.EstimateFeesPaid(fq)
	t.Logf("size=%d paid=%d required=%d", tx.Size(), tx.TotalInputSatoshis()-tx.TotalOutputSatoshis(), fees.TotalFeePaid)
	if err != nil || !ok {
		t.Errorf("completed bid transaction does not pay the quoted fee: ok=%v err=%v", ok, err)
	}
}

func TestC20ListingFlow(t *testing.T) {
	buyer := mkParty("L42PyNwEKE4XRaa8PzPh7JZurSAWJmx49nbVfaXYuiQg3RCubwn7")
	seller := mkParty("KwQq67d4Jds3wxs3kQHB8PPwaoaBQfNKkzAacZeMesb7zXojVYpj")
	fq := quote(1, 1)
	ordUTXO := &bt.UTXO{TxID: txid("75e24ffd0161f094a5e419dba42684c69faeacbeb805a1d9afdb29f6f4ac81ad"), Vout: 0, LockingScript: seller.script, Satoshis: 1}
	pstx, err := ord.ListOrdinalForSale(context.Background(), &ord.ListOrdinalArgs{SellerReceiveOutput: &bt.Output{LockingScript: seller.script, Satoshis: 1000}, OrdinalUTXO: ordUTXO, OrdinalUnlocker: seller.unlocker})
	if err != nil {
		t.Fatal(err)
	}
	us := []*bt.UTXO{
		{TxID: txid("44ab22c6996ce2dee4829fa171dd2543f16bd35b7373aa446b3060bdbf43b588"), Vout: 0, LockingScript: buyer.script, Satoshis: 500, Unlocker: &buyer.unlocker},
		{TxID: txid("e3e0c0b46826ae1cd8932daf70b280d686104cdd5c685dbe6bed823e437f9040"), Vout: 0, LockingScript: buyer.script, Satoshis: 9000, Unlocker: &buyer.unlocker},
		{TxID: txid("e3e0c0b46826ae1cd8932daf70b280d686104cdd5c685dbe6bed823e437f9041"), Vout: 1, LockingScript: buyer.script, Satoshis: 700, Unlocker: &buyer.unlocker},
	}
	tx, err := ord.AcceptOrdinalSaleListing(context.Background(), &ord.ValidateListingArgs{ListedOrdinalUTXO: ordUTXO},
		&ord.AcceptListingArgs{PSTx: pstx, UTXOs: us, BuyerReceiveOrdinalScript: buyer.script, DummyOutputScript: buyer.script, ChangeScript: buyer.script, FQ: fq})
	if err != nil {
		t.Fatalf("accept: %v", err)
	}
	var spent []*bt.Output
	for _, in := range tx.Inputs {
		spent = append(spent, &bt.Output{LockingScript: in.PreviousTxScript, Satoshis: in.PreviousTxSatoshis})
	}
	verifyAll(t, tx, spent)
	ok, err := tx.IsFeePaidEnough(fq)
	t.Logf("inputs=%d outputs=%d paid=%d", len(tx.Inputs), len(tx.Outputs), tx.TotalInputSatoshis()-tx.TotalOutputSatoshis())
	if err != nil || !ok {
		t.Errorf("completed sale does not pay the quoted fee: ok=%v err=%v", ok, err)
	}
	if tx.Outputs[1].Satoshis != 1000 || !tx.Outputs[1].LockingScript.Equals(seller.script) {
		t.Errorf("seller output changed")
	}
}
