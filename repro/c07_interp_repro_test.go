package interpreter_test

// Demonstrations for the C07/C08 defects repaired by "fix:" commits. Copy into
// /repo/bscript/interpreter/ (or a scratch worktree) and run
//   go test -vet=off -count=1 -run TestRepro ./bscript/interpreter/
// Before the fixes each sub-test panics (or changes caller data); after them all pass.

import (
	"bytes"
	"testing"

	"github.com/libsv/go-bt/v2"
	"github.com/libsv/go-bt/v2/bscript"
	"github.com/libsv/go-bt/v2/bscript/interpreter"
	"github.com/libsv/go-bt/v2/bscript/interpreter/scriptflag"
)

func run(t *testing.T, name string, f func() error) {
	t.Run(name, func(t *testing.T) {
		defer func() {
			if r := recover(); r != nil {
				t.Fatalf("panicked: %v", r)
			}
		}()
		_ = f()
	})
}

func mustASM(t *testing.T, s string) *bscript.Script {
	sc, err := bscript.NewFromASM(s)
	if err != nil {
		t.Fatal(err)
	}
	return sc
}

func TestReproC07(t *testing.T) {
	e := interpreter.NewEngine()
	one := mustASM(t, "OP_1")
	run(t, "LSHIFT empty operand", func() error {
		return e.Execute(interpreter.WithScripts(mustASM(t, "OP_0 OP_1 OP_LSHIFT"), one), interpreter.WithAfterGenesis())
	})
	run(t, "RSHIFT empty operand", func() error {
		return e.Execute(interpreter.WithScripts(mustASM(t, "OP_0 OP_1 OP_RSHIFT"), one), interpreter.WithAfterGenesis())
	})
	run(t, "LSHIFT by 9", func() error {
		return e.Execute(interpreter.WithScripts(mustASM(t, "0102 OP_9 OP_LSHIFT"), one), interpreter.WithAfterGenesis())
	})
	run(t, "CLTV without tx", func() error {
		return e.Execute(interpreter.WithScripts(bscript.NewFromBytes([]byte{0x51, 0xb1}), one), interpreter.WithFlags(scriptflag.VerifyCheckLockTimeVerify))
	})
	run(t, "tx without previous output", func() error {
		tx := bt.NewTx()
		tx.Inputs = append(tx.Inputs, &bt.Input{UnlockingScript: one})
		return e.Execute(interpreter.WithTx(tx, 0, nil), interpreter.WithScripts(one, one))
	})
	run(t, "negative index without tx", func() error {
		return e.Execute(interpreter.WithTx(nil, -1, nil), interpreter.WithScripts(one, one))
	})
	run(t, "SPLIT at 2^63", func() error {
		// 9-byte number 0x00..0080 00 = 2^63 (little endian, positive)
		return e.Execute(interpreter.WithScripts(mustASM(t, "0102 000000000000008000 OP_SPLIT"), one), interpreter.WithAfterGenesis())
	})
}

func TestReproC08(t *testing.T) {
	e := interpreter.NewEngine()
	unlocking := mustASM(t, "0580 OP_DUP OP_BIN2NUM OP_DROP")
	before := append([]byte{}, *unlocking...)
	_ = e.Execute(interpreter.WithScripts(mustASM(t, "OP_1"), unlocking), interpreter.WithAfterGenesis())
	if !bytes.Equal(before, *unlocking) {
		t.Fatalf("caller's unlocking script changed: %x -> %x", before, *unlocking)
	}
	u2 := mustASM(t, "81 OP_DUP OP_1 OP_LSHIFT OP_DROP")
	b2 := append([]byte{}, *u2...)
	_ = e.Execute(interpreter.WithScripts(mustASM(t, "OP_1"), u2), interpreter.WithAfterGenesis())
	if !bytes.Equal(b2, *u2) {
		t.Fatalf("caller's unlocking script changed: %x -> %x", b2, *u2)
	}
}
