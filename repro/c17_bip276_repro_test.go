package bscript_test

// Demonstration for the repaired C17 reader/writer disagreement: every version/network pair in
// 1..255 must survive EncodeBIP276 -> DecodeBIP276. On the original tree only pairs with
// version == network < 10 round-trip. Copy into /repo/bscript and run
//   go test -vet=off -count=1 -run TestReproC17 ./bscript/

import (
	"testing"

	"github.com/libsv/go-bt/v2/bscript"
)

func TestReproC17(t *testing.T) {
	bad := 0
	for v := 1; v <= 255; v++ {
		for n := 1; n <= 255; n++ {
			in := bscript.BIP276{Prefix: bscript.PrefixScript, Version: v, Network: n, Data: []byte{1, 2, 3}}
			out, err := bscript.DecodeBIP276(bscript.EncodeBIP276(in))
			if err != nil || out.Version != v || out.Network != n || string(out.Data) != string(in.Data) {
				bad++
			}
		}
	}
	if bad != 0 {
		t.Fatalf("%d of 65025 version/network pairs do not round-trip", bad)
	}
}
