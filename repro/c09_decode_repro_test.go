package bt_test

// Demonstrations for the C09/C16 defects repaired by "fix:" commits. Copy into /repo
// (or a scratch worktree of the original commit) and run
//   go test -vet=off -count=1 -run TestReproC ./
// On the original tree every sub-test panics or reports a wrong count.

import (
	"bytes"
	"encoding/hex"
	"encoding/json"
	"testing"

	"github.com/libsv/go-bt/v2"
	"github.com/libsv/go-bt/v2/bscript"
)

func noPanic(t *testing.T, name string, f func()) {
	t.Run(name, func(t *testing.T) {
		defer func() {
			if r := recover(); r != nil {
				t.Fatalf("panicked: %v", r)
			}
		}()
		f()
	})
}

func TestReproC09(t *testing.T) {
	// version, 1 input, 32-byte txid, index, script length 0xffffffffffffffff
	huge, _ := hex.DecodeString("01000000" + "01" + "0000000000000000000000000000000000000000000000000000000000000000" + "00000000" + "ffffffffffffffffff")
	noPanic(t, "input script length 2^64-1", func() { _, _ = bt.NewTxFromBytes(huge) })
	out, _ := hex.DecodeString("0000000000000000" + "ffffffffffffff7f" + "00")
	noPanic(t, "output script length 2^63", func() { o := &bt.Output{}; _, _ = o.ReadFrom(bytes.NewReader(append(out[:8], append([]byte{0xff}, out[8:]...)...))) })
	noPanic(t, "tx list count 2^62", func() {
		var txs bt.Txs
		_, _ = txs.ReadFrom(bytes.NewReader([]byte{0xff, 0, 0, 0, 0, 0, 0, 0, 0x40}))
	})
	t.Run("varint short read count", func(t *testing.T) {
		var v bt.VarInt
		n, err := v.ReadFrom(bytes.NewReader([]byte{0xff, 0x01}))
		if err == nil || n > 2 {
			t.Fatalf("reported %d bytes read from a 2 byte input (err=%v)", n, err)
		}
	})
	noPanic(t, "node json output without scriptPubKey", func() {
		tx := bt.NewTx()
		_ = json.Unmarshal([]byte(`{"vout":[{}]}`), tx.NodeJSON())
	})
	noPanic(t, "node json coinbase input", func() {
		tx := bt.NewTx()
		_ = json.Unmarshal([]byte(`{"vin":[{"coinbase":"00","sequence":1}]}`), tx.NodeJSON())
	})
	noPanic(t, "node json null elements", func() {
		tx := bt.NewTx()
		_ = json.Unmarshal([]byte(`{"vin":[null],"vout":[null]}`), tx.NodeJSON())
	})
	noPanic(t, "node output null", func() {
		o := &bt.Output{}
		_ = json.Unmarshal([]byte(`null`), o.NodeJSON())
	})
}

func TestReproC16(t *testing.T) {
	noPanic(t, "marshal unsigned tx", func() {
		tx := bt.NewTx()
		_ = tx.From("3c8edde27cb9a9132c22038dac4391496be9db16fd21351565cc1006966fdad5", 0, "76a914eb0bd5edba389198e73f8efabddfc61666969ff788ac", 1000)
		if _, err := json.Marshal(tx); err != nil {
			t.Log("error (fine):", err)
		}
		if _, err := json.Marshal(tx.NodeJSON()); err != nil {
			t.Log("error (fine):", err)
		}
	})
	t.Run("node amount round trip", func(t *testing.T) {
		for _, sats := range []uint64{3, 29, 57, 58, 113, 1005, 100000001, 2099999999999999} {
			o := &bt.Output{}
			lock, _ := hex.DecodeString("76a914eb0bd5edba389198e73f8efabddfc61666969ff788ac")
			src := &bt.Output{Satoshis: sats, LockingScript: bscript.NewFromBytes(lock)}
			bb, err := json.Marshal(src.NodeJSON())
			if err != nil {
				t.Fatal(err)
			}
			if err := json.Unmarshal(bb, o.NodeJSON()); err != nil {
				t.Fatal(err)
			}
			if o.Satoshis != sats {
				t.Fatalf("%d satoshis came back as %d", sats, o.Satoshis)
			}
		}
	})
}
