package interpreter_test

import (
	"testing"

	"github.com/libsv/go-bk/bec"
	"github.com/libsv/go-bt/v2"
	"github.com/libsv/go-bt/v2/bscript"
	"github.com/libsv/go-bt/v2/bscript/interpreter"
	"github.com/libsv/go-bt/v2/sighash"
)

// lock = [prefix...] OP_CODESEPARATOR <pk> OP_CHECKSIG ; the FORKID digest's script code is
// what follows the executed separator: <pk> OP_CHECKSIG.
func runCodeSepAt(t *testing.T, prefixNops int) error {
	priv, _ := bec.NewPrivateKey(bec.S256())
	pk := priv.PubKey().SerialiseCompressed()
	lock := &bscript.Script{}
	for i := 0; i < prefixNops; i++ {
		_ = lock.AppendOpcodes(bscript.OpNOP)
	}
	_ = lock.AppendOpcodes(bscript.OpCODESEPARATOR)
	code := &bscript.Script{}
	_ = code.AppendPushData(pk)
	_ = code.AppendOpcodes(bscript.OpCHECKSIG)
	*lock = append(*lock, *code...)

	tx := bt.NewTx()
	if err := tx.From("07912972e42095fe58daaf09161c5a5da57be47c2054dc2aaa52b30fefa1940b", 0, code.String(), 5000); err != nil {
		t.Fatal(err)
	}
	_ = tx.PayToAddress("1C8bzHM8XFBHZ2ZZVvFy2NSoAZbwCXAicL", 4000)
	sh, err := tx.CalcInputSignatureHash(0, sighash.AllForkID) // script code = code
	if err != nil {
		t.Fatal(err)
	}
	sig, _ := priv.Sign(sh)
	unlock := &bscript.Script{}
	_ = unlock.AppendPushData(append(sig.Serialise(), byte(sighash.AllForkID)))
	tx.Inputs[0].UnlockingScript = unlock
	return interpreter.NewEngine().Execute(
		interpreter.WithTx(tx, 0, &bt.Output{LockingScript: lock, Satoshis: 5000}),
		interpreter.WithForkID(),
		interpreter.WithAfterGenesis(),
	)
}

func TestC06CodeSeparatorAtOffset1(t *testing.T) {
	if err := runCodeSepAt(t, 1); err != nil {
		t.Fatalf("separator at offset 1: %v", err)
	}
}

func TestC06CodeSeparatorAtOffset0(t *testing.T) {
	if err := runCodeSepAt(t, 0); err != nil {
		t.Fatalf("separator at offset 0: %v", err)
	}
}
