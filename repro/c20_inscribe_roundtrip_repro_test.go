package bt_test

import (
	"bytes"
	"testing"

	"github.com/libsv/go-bt/v2"
	"github.com/libsv/go-bt/v2/bscript"
)

func TestC20InscribeRoundTrip(t *testing.T) {
	prefix, _ := bscript.NewP2PKHFromAddress("1C8bzHM8XFBHZ2ZZVvFy2NSoAZbwCXAicL")
	for _, tc := range []struct {
		ct   string
		data []byte
	}{
		{"text/plain", []byte("hello")},
		{"text/plain", []byte{}},
		{"", []byte("x")},
		{"text/plain", bytes.Repeat([]byte{7}, 75)},
		{"text/plain", bytes.Repeat([]byte{7}, 76)},
		{"text/plain", bytes.Repeat([]byte{7}, 255)},
		{"text/plain", bytes.Repeat([]byte{7}, 256)},
		{"text/plain", bytes.Repeat([]byte{7}, 65536)},
		{"text/plain", []byte{0x51}},
		{"text/plain", []byte{0x00}},
		{"a", []byte{0x6a}},
	} {
		tx := bt.NewTx()
		if err := tx.Inscribe(&bscript.InscriptionArgs{LockingScriptPrefix: prefix, Data: tc.data, ContentType: tc.ct}); err != nil {
			t.Errorf("ct=%q len=%d: inscribe: %v", tc.ct, len(tc.data), err)
			continue
		}
		got, err := tx.Outputs[0].LockingScript.ParseInscription()
		if err != nil {
			t.Errorf("ct=%q len=%d: parse: %v", tc.ct, len(tc.data), err)
			continue
		}
		if got.ContentType != tc.ct || !bytes.Equal(got.Data, tc.data) || !bytes.Equal(*got.LockingScriptPrefix, *prefix) {
			t.Errorf("ct=%q len=%d: round trip gives ct=%q len=%d", tc.ct, len(tc.data), got.ContentType, len(got.Data))
		}
	}
}
