package bt_test

import (
	"testing"

	"github.com/libsv/go-bt/v2"
	"github.com/libsv/go-bt/v2/bscript"
)

// Inscribing twice with the same prefix script must give two independent outputs.
func TestC20InscribeDoesNotShareThePrefixBuffer(t *testing.T) {
	prefix, err := bscript.NewP2PKHFromAddress("1C8bzHM8XFBHZ2ZZVvFy2NSoAZbwCXAicL")
	if err != nil {
		t.Fatal(err)
	}
	// a prefix with spare capacity, as any script built by appending has
	grown := make(bscript.Script, len(*prefix), 4096)
	copy(grown, *prefix)
	tx := bt.NewTx()
	if err := tx.Inscribe(&bscript.InscriptionArgs{LockingScriptPrefix: &grown, Data: []byte("first content"), ContentType: "text/plain"}); err != nil {
		t.Fatal(err)
	}
	if err := tx.Inscribe(&bscript.InscriptionArgs{LockingScriptPrefix: &grown, Data: []byte("SECOND-------"), ContentType: "text/other"}); err != nil {
		t.Fatal(err)
	}
	first, err := tx.Outputs[0].LockingScript.ParseInscription()
	if err != nil {
		t.Fatal(err)
	}
	if string(first.Data) != "first content" || first.ContentType != "text/plain" {
		t.Fatalf("the first inscription now reads %q (%s): the second Inscribe overwrote it", first.Data, first.ContentType)
	}
}
