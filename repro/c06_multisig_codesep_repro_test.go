package interpreter_test

import (
	"testing"

	"github.com/libsv/go-bk/bec"
	"github.com/libsv/go-bt/v2"
	"github.com/libsv/go-bt/v2/bscript"
	"github.com/libsv/go-bt/v2/bscript/interpreter"
	"github.com/libsv/go-bt/v2/sighash"
)

// A FORKID signature commits to the script code as it stands: code separators after the
// executed one stay in (they are dropped only by the legacy digest). CHECKSIG honours
// that; CHECKMULTISIG must compute the same digest.
func runSigScript(t *testing.T, multi bool) error {
	priv, err := bec.NewPrivateKey(bec.S256())
	if err != nil {
		t.Fatal(err)
	}
	pk := priv.PubKey().SerialiseCompressed()
	lock := &bscript.Script{}
	if multi {
		_ = lock.AppendOpcodes(bscript.Op1)
		_ = lock.AppendPushData(pk)
		_ = lock.AppendOpcodes(bscript.Op1, bscript.OpCHECKMULTISIG, bscript.OpCODESEPARATOR)
	} else {
		_ = lock.AppendPushData(pk)
		_ = lock.AppendOpcodes(bscript.OpCHECKSIG, bscript.OpCODESEPARATOR)
	}
	tx := bt.NewTx()
	if err := tx.From("07912972e42095fe58daaf09161c5a5da57be47c2054dc2aaa52b30fefa1940b", 0, lock.String(), 5000); err != nil {
		t.Fatal(err)
	}
	if err := tx.PayToAddress("1C8bzHM8XFBHZ2ZZVvFy2NSoAZbwCXAicL", 4000); err != nil {
		t.Fatal(err)
	}
	sh, err := tx.CalcInputSignatureHash(0, sighash.AllForkID)
	if err != nil {
		t.Fatal(err)
	}
	sig, err := priv.Sign(sh)
	if err != nil {
		t.Fatal(err)
	}
	unlock := &bscript.Script{}
	if multi {
		_ = unlock.AppendOpcodes(bscript.Op0)
	}
	_ = unlock.AppendPushData(append(sig.Serialise(), byte(sighash.AllForkID)))
	tx.Inputs[0].UnlockingScript = unlock
	return interpreter.NewEngine().Execute(
		interpreter.WithTx(tx, 0, &bt.Output{LockingScript: lock, Satoshis: 5000}),
		interpreter.WithForkID(),
		interpreter.WithAfterGenesis(),
	)
}

func TestC06CodeSeparatorForkIDCheckSig(t *testing.T) {
	if err := runSigScript(t, false); err != nil {
		t.Fatalf("CHECKSIG rejects a valid FORKID signature: %v", err)
	}
}

func TestC06CodeSeparatorForkIDCheckMultiSig(t *testing.T) {
	if err := runSigScript(t, true); err != nil {
		t.Fatalf("CHECKMULTISIG rejects the signature CHECKSIG accepts over the same script code: %v", err)
	}
}
