#!/bin/bash
# usage: tools/check_seed.sh <seed-id>   Applies one archived seeded change to a scratch worktree of /repo HEAD (never /repo
# itself), runs the check of the seed's property on it (evidence goes to a scratch directory) and prints one line.
set -u
export GOFLAGS=-mod=mod GOPROXY=off GOSUMDB=off GOTOOLCHAIN=local
id=$1
prop=$(jq -r .property /verif/seeded/$id/meta.json)
D=$(mktemp -d); mkdir -p "$D/vd"; cp /verif/known_findings.json /verif/trusted_sites.json /verif/baseline_functions.txt "$D/vd/"
git -C /repo worktree add -q "$D/w" HEAD || exit 2
if ! git -C "$D/w" apply "/verif/seeded/$id/patch.diff" 2>/dev/null; then echo "$id: PATCH DOES NOT APPLY"; else
  out=$(VERIF_DIR="$D/vd" GOMAXPROCS=${CHECK_PROCS:-4} ${VERIF_BIN:-/verif/bin/verif-sa} check --property "$prop" --repo "$D/w" 2>&1)
  rules=$(echo "$out" | grep "VIOLATION rule\|UNDECIDED rule" | sed 's/.*rule=\([^ ]*\).*/\1/' | sort -u | tr '\n' ' ')
  if echo "$out" | grep -q "^VIOLATION property"; then echo "$id: detected ($prop: $rules)"; else echo "$id: MISSED ($prop)"; fi
fi
git -C /repo worktree remove --force "$D/w"; rm -rf "$D"
