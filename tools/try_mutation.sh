#!/bin/bash
# usage: tools/try_mutation.sh '<python replace: old>>>new>' <file> <prop>...   (scratch worktree of /repo HEAD; nothing left behind)
set -u
spec=$1; file=$2; shift 2
D=$(mktemp -d)
git -C /repo worktree add -q "$D/w" HEAD || exit 2
python3 - "$D/w/$file" "$spec" <<'PY'
import sys
p,spec=sys.argv[1],sys.argv[2]
old,new=spec.split('>>>')
s=open(p).read()
assert s.count(old)>=1, "pattern not found"
open(p,'w').write(s.replace(old,new,1))
PY
[ $? -eq 0 ] || { git -C /repo worktree remove --force "$D/w"; rm -rf "$D"; exit 2; }
(cd "$D/w" && GOFLAGS=-mod=mod GOPROXY=off GOSUMDB=off GOTOOLCHAIN=local go build ./... 2>&1 | head -3)
cp -r /verif/evidence "$D/evidence.bak"
for p in "$@"; do
  GOMAXPROCS=8 ${VERIF_BIN:-/verif/bin/verif-sa} check --property "$p" --repo "$D/w" | grep "VIOLATION rule\|UNDECIDED rule\|SUMMARY" | cut -c1-330
done
rm -rf /verif/evidence; mv "$D/evidence.bak" /verif/evidence
git -C /repo worktree remove --force "$D/w"; rm -rf "$D"
