#!/bin/bash
# usage: tools/eval_refactor.sh <dir with patch.diff>...   For behaviour-preserving changes: applies each to a scratch
# worktree of /repo HEAD, confirms build + unedited suite, runs all 20 checks on it (developer command check-all) and
# lists the checks that raise an alarm (each one is a false alarm to be examined).
set -u
export GOFLAGS=-mod=mod GOPROXY=off GOSUMDB=off GOTOOLCHAIN=local
for dir in "$@"; do
  D=$(mktemp -d); mkdir -p "$D/vd"; cp /verif/known_findings.json /verif/trusted_sites.json /verif/baseline_functions.txt "$D/vd/"
  git -C /repo worktree add -q "$D/w" HEAD || exit 2
  if ! git -C "$D/w" apply "$dir/patch.diff" 2>/dev/null; then echo "$(basename $dir): PATCH DOES NOT APPLY"; git -C /repo worktree remove --force "$D/w"; rm -rf "$D"; continue; fi
  suite=$(cd "$D/w" && go build ./... 2>&1 | head -2; go test -vet=off -count=1 ./... 2>&1 | grep -v "no test files" | grep -v "^ok" | head -3)
  out=$(VERIF_DIR="$D/vd" GOMAXPROCS=8 /verif/bin/verif-sa check-all --repo "$D/w" 2>&1)
  alarms=$(echo "$out" | grep "^SUMMARY" | grep -v "violations=0 undecided=0" | sed 's/SUMMARY property=\([^ ]*\).*violations=\([0-9]*\) undecided=\([0-9]*\).*/\1(v\2,u\3)/' | tr '\n' ' ')
  echo "$(basename $dir): suite=[${suite:-ok}] alarms=[${alarms}]"
  echo "$out" | grep "VIOLATION rule\|UNDECIDED rule" | cut -c1-260 | sed 's/^/      /' | head -6
  git -C /repo worktree remove --force "$D/w"; rm -rf "$D"
done
