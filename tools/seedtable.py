#!/usr/bin/env python3
# Regenerates the seeded-change table of DESIGN.md (between the SEEDTABLE markers) from seeded/*/meta.json.
import json, os, re
rows=[]
for d in sorted(os.listdir('/verif/seeded')):
    m=json.load(open(f'/verif/seeded/{d}/meta.json'))
    miss = "yes -> "+m.get('strengthening','') if m.get('missed_at_first') else (m.get('strengthening','') and "("+m['strengthening']+")" or "")
    rows.append(f"| {d} | {m['needs_to_manifest']} | {m['detected_by']} | {miss} |")
n=len(rows); nm=sum(1 for d in os.listdir('/verif/seeded') if json.load(open(f'/verif/seeded/{d}/meta.json')).get('missed_at_first'))
table=f"{n} changes, {nm} missed at first.\n\n| seed | what it breaks | caught by | missed at first -> strengthening |\n|------|----------------|-----------|----------------------------------|\n"+"\n".join(rows)+"\n"
s=open('/verif/DESIGN.md').read()
s=re.sub(r'<!-- SEEDTABLE -->.*<!-- /SEEDTABLE -->', '<!-- SEEDTABLE -->\n'+table.replace('\\','\\\\')+'<!-- /SEEDTABLE -->', s, flags=re.S)
open('/verif/DESIGN.md','w').write(s)
print(n, nm)
