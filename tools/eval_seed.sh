#!/bin/bash
# usage: tools/eval_seed.sh <dir with patch.diff, zz_seed_demo_test.go, demo_pkg.txt> <prop>...
# 1. confirms in a scratch worktree that the patch compiles, the full suite passes with it, the demo fails with it and passes without;
# 2. applies the patch to /repo, runs the given checks, and reverts /repo.
set -u
dir=$1; shift
export GOFLAGS=-mod=mod GOPROXY=off GOSUMDB=off GOTOOLCHAIN=local
pkg=$(cat "$dir/demo_pkg.txt" | tr -d '[:space:]'); [ "$pkg" = "." ] && pkg=""
race=""; grep -q -- "-race" "$dir/notes.md" 2>/dev/null && race="-race"
D=$(mktemp -d)
git -C /repo worktree add -q "$D/w" HEAD || exit 2
cd "$D/w"
echo "== unpatched demo"; cp "$dir/zz_seed_demo_test.go" "./$pkg/zz_seed_demo_test.go"; go test $race -vet=off -count=1 -run 'Seed|seed' "./$pkg/" 2>&1 | tail -2
rm "./$pkg/zz_seed_demo_test.go"
git apply "$dir/patch.diff" || { echo "PATCH DOES NOT APPLY"; cd /; git -C /repo worktree remove --force "$D/w"; rm -rf "$D"; exit 2; }
echo "== patched: build + full suite"; go build ./... 2>&1 | head -3; go test -vet=off -count=1 ./... 2>&1 | grep -v "no test files" | grep -v "^ok" | head -5
echo "== patched demo"; cp "$dir/zz_seed_demo_test.go" "./$pkg/zz_seed_demo_test.go"; go test $race -vet=off -count=1 -run 'Seed|seed' "./$pkg/" 2>&1 | grep -E "^(--- FAIL|FAIL|ok|panic)" | head -4
cd /; git -C /repo worktree remove --force "$D/w"; rm -rf "$D"
echo "== checks on /repo with the patch applied"
git -C /repo apply "$dir/patch.diff" || exit 2
cp -r /verif/evidence /tmp/evidence.bak.$$
for p in "$@"; do
  GOMAXPROCS=8 /verif/bin/verif-sa check --property "$p" | grep "VIOLATION rule\|UNDECIDED rule\|SUMMARY" | cut -c1-420
done
rm -rf /verif/evidence; mv /tmp/evidence.bak.$$ /verif/evidence
git -C /repo checkout -- .
git -C /repo status --short | head -3
