#!/bin/bash
# usage: tools/run_on_commit.sh <commit> <prop>...   — runs the checks against a scratch worktree of /repo at <commit>
# (evidence files are restored afterwards; nothing under /repo or /verif is left behind)
set -u
commit=$1; shift
D=$(mktemp -d)
git -C /repo worktree add -q "$D/w" "$commit" || exit 2
cp -r /verif/evidence "$D/evidence.bak"
for p in "$@"; do
  GOMAXPROCS=8 /verif/bin/verif-sa check --property "$p" --repo "$D/w" | grep "VIOLATION rule\|UNDECIDED rule\|KNOWN-FINDING" | sed "s/.*rule=\([^ ]*\) key=\"\([^\"]*\)\" at \([^:]*:[0-9]*\).*/$p|\1|\2|\3/"
done
rm -rf /verif/evidence; mv "$D/evidence.bak" /verif/evidence
git -C /repo worktree remove --force "$D/w"; rm -rf "$D"
