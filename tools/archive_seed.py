#!/usr/bin/env python3
# usage: archive_seed.py <src dir> <id> <detected_by> <needs_to_manifest> [missed strengthening-text]
# copies a confirmed seeded change into /verif/seeded/<id>/ with its meta.json
import sys, os, shutil, json
src, sid, det, needs = sys.argv[1:5]
dst = f"/verif/seeded/{sid}"
os.makedirs(dst, exist_ok=True)
for f in ("patch.diff", "demo_pkg.txt", "notes.md"):
    if os.path.exists(f"{src}/{f}"):
        shutil.copy(f"{src}/{f}", f"{dst}/{f}")
shutil.copy(f"{src}/demo_test.go", f"{dst}/zz_seed_demo_test.go")
meta = {
 "property": sid.split("-")[0],
 "needs_to_manifest": needs,
 "produced_by": os.environ.get("PRODUCED_BY", "independent sub-agent given only the property text and a scratch worktree (rounds 4 and 5: made while restructuring the code with a named idiom; the same agent then wrote the behaviour-preserving twin)"),
 "confirmed": "tools/eval_seed3.sh: in a scratch worktree the demo passes unpatched; with the patch the build and the unedited suite pass and the demo fails; the property's check run on the patched worktree",
 "detected_by": det,
}
if len(sys.argv) > 5:
    meta["missed_at_first"] = True
    meta["strengthening"] = sys.argv[6] if len(sys.argv) > 6 else sys.argv[5]
json.dump(meta, open(f"{dst}/meta.json", "w"), indent=1)
print("archived", sid)
