// mutgen lists small syntactic mutants of the non-test Go sources under a directory as JSON lines:
// {"file","start","end","new","desc","func","line"}. Used only to probe the checker (tools/mutation_campaign.py);
// it takes no part in any check.
package main

import (
	"encoding/json"
	"fmt"
	"go/ast"
	"go/parser"
	"go/token"
	"os"
	"path/filepath"
	"strconv"
	"strings"
)

type mutant struct {
	File  string `json:"file"`
	Start int    `json:"start"`
	End   int    `json:"end"`
	New   string `json:"new"`
	Desc  string `json:"desc"`
	Func  string `json:"func"`
	Line  int    `json:"line"`
}

var swaps = map[token.Token][]token.Token{
	token.LSS: {token.LEQ}, token.LEQ: {token.LSS}, token.GTR: {token.GEQ}, token.GEQ: {token.GTR},
	token.EQL: {token.NEQ}, token.NEQ: {token.EQL}, token.LAND: {token.LOR}, token.LOR: {token.LAND},
	token.ADD: {token.SUB}, token.SUB: {token.ADD}, token.AND: {token.OR}, token.OR: {token.AND},
	token.SHL: {token.SHR}, token.SHR: {token.SHL},
}

func main() {
	root := os.Args[1]
	enc := json.NewEncoder(os.Stdout)
	filepath.Walk(root, func(p string, info os.FileInfo, err error) error {
		if err != nil {
			return nil
		}
		rel, _ := filepath.Rel(root, p)
		if info.IsDir() {
			if strings.HasPrefix(info.Name(), ".") && p != root || rel == "examples" || rel == "testing" {
				return filepath.SkipDir
			}
			return nil
		}
		if !strings.HasSuffix(p, ".go") || strings.HasSuffix(p, "_test.go") {
			return nil
		}
		fset := token.NewFileSet()
		src, _ := os.ReadFile(p)
		f, err := parser.ParseFile(fset, p, src, 0)
		if err != nil {
			return nil
		}
		off := func(pos token.Pos) int { return fset.Position(pos).Offset }
		for _, d := range f.Decls {
			fd, ok := d.(*ast.FuncDecl)
			if !ok || fd.Body == nil {
				continue
			}
			name := fd.Name.Name
			if fd.Recv != nil && len(fd.Recv.List) == 1 {
				t := fd.Recv.List[0].Type
				if s, ok := t.(*ast.StarExpr); ok {
					t = s.X
				}
				if id, ok := t.(*ast.Ident); ok {
					name = id.Name + "." + name
				}
			}
			emit := func(pos, end token.Pos, repl, desc string) {
				enc.Encode(mutant{File: rel, Start: off(pos), End: off(end), New: repl, Desc: desc, Func: name, Line: fset.Position(pos).Line})
			}
			ast.Inspect(fd.Body, func(n ast.Node) bool {
				switch x := n.(type) {
				case *ast.BinaryExpr:
					for _, t := range swaps[x.Op] {
						emit(x.OpPos, x.OpPos+token.Pos(len(x.Op.String())), t.String(), fmt.Sprintf("%s -> %s", x.Op, t))
					}
				case *ast.UnaryExpr:
					if x.Op == token.NOT {
						emit(x.OpPos, x.OpPos+1, "", "drop !")
					}
				case *ast.BasicLit:
					if x.Kind == token.INT {
						if v, err := strconv.ParseInt(x.Value, 0, 64); err == nil && v < 1<<40 {
							form := func(v int64) string {
								if strings.HasPrefix(x.Value, "0x") || strings.HasPrefix(x.Value, "0X") {
									return fmt.Sprintf("0x%x", v)
								}
								return strconv.FormatInt(v, 10)
							}
							emit(x.Pos(), x.End(), form(v+1), fmt.Sprintf("%s -> %s", x.Value, form(v+1)))
							if v > 0 {
								emit(x.Pos(), x.End(), form(v-1), fmt.Sprintf("%s -> %s", x.Value, form(v-1)))
							}
						}
					}
				case *ast.Ident:
					if x.Name == "true" {
						emit(x.Pos(), x.End(), "false", "true -> false")
					} else if x.Name == "false" {
						emit(x.Pos(), x.End(), "true", "false -> true")
					}
				case *ast.IncDecStmt:
					if x.Tok == token.INC {
						emit(x.TokPos, x.TokPos+2, "--", "++ -> --")
					} else {
						emit(x.TokPos, x.TokPos+2, "++", "-- -> ++")
					}
				case *ast.AssignStmt:
					switch x.Tok {
					case token.ADD_ASSIGN:
						emit(x.TokPos, x.TokPos+2, "-=", "+= -> -=")
					case token.SUB_ASSIGN:
						emit(x.TokPos, x.TokPos+2, "+=", "-= -> +=")
					case token.OR_ASSIGN:
						emit(x.TokPos, x.TokPos+2, "&=", "|= -> &=")
					}
				case *ast.IfStmt:
					if x.Else == nil && x.Init == nil {
						// a dropped check: the statement disappears
						emit(x.Pos(), x.End(), "", "drop if "+strings.ReplaceAll(string(src[off(x.Cond.Pos()):off(x.Cond.End())]), "\n", " "))
					} else if x.Else == nil && x.Init != nil {
						// keep the init statement, drop the test: "if init; false {"
						emit(x.Cond.Pos(), x.Cond.End(), "false", "never take if "+strings.ReplaceAll(string(src[off(x.Cond.Pos()):off(x.Cond.End())]), "\n", " "))
					}
				case *ast.ExprStmt:
					if _, ok := x.X.(*ast.CallExpr); ok {
						emit(x.Pos(), x.End(), "", "drop call "+strings.ReplaceAll(string(src[off(x.Pos()):off(x.End())]), "\n", " "))
					}
				case *ast.BranchStmt:
					if x.Tok == token.BREAK && x.Label == nil {
						emit(x.Pos(), x.End(), "continue", "break -> continue")
					} else if x.Tok == token.CONTINUE && x.Label == nil {
						emit(x.Pos(), x.End(), "break", "continue -> break")
					}
				}
				return true
			})
		}
		return nil
	})
}
