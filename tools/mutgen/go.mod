module mutgen

go 1.21
