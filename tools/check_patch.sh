#!/bin/bash
# usage: tools/check_patch.sh <dir with patch.diff>   All 20 checks on a scratch worktree of /repo HEAD with the patch applied
# (no test suite run: the patch was confirmed when it was archived). Prints one line; the worktree is removed.
set -u
export GOFLAGS=-mod=mod GOPROXY=off GOSUMDB=off GOTOOLCHAIN=local
dir=$1
D=$(mktemp -d); mkdir -p "$D/vd"; cp /verif/known_findings.json /verif/trusted_sites.json /verif/baseline_functions.txt "$D/vd/"
git -C /repo worktree add -q "$D/w" HEAD || exit 2
if ! git -C "$D/w" apply "$dir/patch.diff" 2>/dev/null; then echo "$(basename $dir): PATCH DOES NOT APPLY"; git -C /repo worktree remove --force "$D/w"; rm -rf "$D"; exit 0; fi
out=$(VERIF_DIR="$D/vd" GOMAXPROCS=${CHECK_PROCS:-4} ${VERIF_BIN:-/verif/bin/verif-sa} check-all --repo "$D/w" 2>&1)
alarms=$(echo "$out" | grep "^SUMMARY" | grep -v "violations=0 undecided=0" | sed 's/SUMMARY property=\([^ ]*\).*violations=\([0-9]*\) undecided=\([0-9]*\).*/\1(v\2,u\3)/' | tr '\n' ' ')
n=$(echo "$out" | grep -c "^SUMMARY")
echo "$(basename $dir): summaries=$n alarms=[${alarms}]"
git -C /repo worktree remove --force "$D/w"; rm -rf "$D"
