#!/usr/bin/env python3
"""Regenerates /verif/MANIFEST.json from the table below (kept next to the checker so the two stay in step)."""
import json, os, subprocess, sys
HERE = os.path.dirname(os.path.dirname(os.path.abspath(__file__)))

GO_ENV = "GOFLAGS=-mod=mod GOPROXY=off GOSUMDB=off GOTOOLCHAIN=local GOWORK=off"
SETUP = f"cd /verif/sa && {GO_ENV} go build -o /verif/bin/verif-sa . "

TRUST = ("Trusted base: Go toolchain/stdlib; go/packages+go/types+go/ssa (x/tools v0.29.0) model the source faithfully; "
         "external packages through the contracts table (sa/contracts.go); sites listed in trusted_sites.json (each with its argument); "
         "int is 64-bit. Decides only the clauses named in level_claimed.text.")

# property -> (technique, claim text, design section)
CHECKS = {}
NOT_APPLICABLE = {}

def load():
    src = json.load(open(os.path.join(HERE, "tools", "claims.json")))
    for k, v in src["checks"].items():
        CHECKS[k] = v
    for k, v in src["not_applicable"].items():
        NOT_APPLICABLE[k] = v

def main():
    load()
    checks = []
    for pid in sorted(CHECKS):
        c = CHECKS[pid]
        checks.append({
            "property_id": pid,
            "quick_cmd": f"bin/verif-sa check --property {pid} --tier quick",
            "thorough_cmd": f"bin/verif-sa check --property {pid} --tier thorough",
            "evidence_file": f"/verif/evidence/{pid}.json",
            "replay_cmd_template": "bin/verif-sa explain {path}",
            "engine": "verif-sa",
            "level_claimed": {"category": "other", "text": c["text"], "design_ref": c.get("design_ref", "DESIGN.md §4")},
            "level_note": c.get("note", TRUST),
            "technique": c["technique"],
        })
    m = {
        "version": 1,
        "setup_cmd": SETUP,
        "hooks": {
            "guard": "verif",
            "enable": "no hooks: the checker reads /repo's sources; nothing in /repo is instrumented (build tag 'verif' reserved, unused)",
            "baseline_off_cmd": "cd /repo && go test -vet=off -count=1 ./...",
            "source_commits": [],
            "add_only": True,
        },
        "engines": [{
            "name": "verif-sa",
            "path": "/verif/sa",
            "serves_properties": sorted(CHECKS),
            "kind_free_text": "repository-specific static analyser over go/types + go/ssa + call graph (no execution of go-bt code): constant tables and decision extraction, panic-site prover, ownership/effects, lockset, CFG order rules, wire-layout extraction",
        }],
        "checks": checks,
        "notes": "All checks are static analysis of /repo's current working tree. known_findings.json lists genuine, unrepaired defects (printed as KNOWN-FINDING, exit 0); trusted_sites.json lists obligations discharged by a written argument outside the engines' reach.",
        "not_applicable": [{"property_id": k, "reason": NOT_APPLICABLE[k]} for k in sorted(NOT_APPLICABLE)],
    }
    json.dump(m, open(os.path.join(HERE, "MANIFEST.json"), "w"), indent=1)
    # validate
    try:
        import jsonschema
        jsonschema.validate(m, json.load(open("/root/.vp/MANIFEST.schema.json")))
        print("MANIFEST.json valid;", len(checks), "checks,", len(NOT_APPLICABLE), "not applicable")
    except ImportError:
        print("jsonschema not available; not validated")
    allp = {json.loads(l)["id"] for l in open(os.path.join(HERE, "properties.jsonl"))}
    missing = allp - set(CHECKS) - set(NOT_APPLICABLE)
    both = set(CHECKS) & set(NOT_APPLICABLE)
    if missing or both:
        print("ERROR: unaccounted", sorted(missing), "both", sorted(both)); sys.exit(1)

main()
