#!/bin/bash
# usage: tools/eval_seed3.sh <dir with patch.diff, demo_test.go, demo_pkg.txt> <prop>...
# Round-3 layout (demo_test.go with free test names). In a scratch worktree of /repo HEAD (never /repo itself):
#  1. unpatched: the package's tests with the demo added pass;
#  2. patched: build ok, the full unedited suite passes, the package's tests with the demo added FAIL;
#  3. the given checks run on the patched worktree.
set -u
dir=$1; shift
export GOFLAGS=-mod=mod GOPROXY=off GOSUMDB=off GOTOOLCHAIN=local
pkg=$(cat "$dir/demo_pkg.txt" | tr -d '[:space:]'); [ "$pkg" = "." ] && pkg=""
race=""; grep -q -- "-race" "$dir/notes.md" 2>/dev/null && race="-race"
D=$(mktemp -d); mkdir -p "$D/vd"; cp /verif/known_findings.json /verif/trusted_sites.json /verif/baseline_functions.txt "$D/vd/"
git -C /repo worktree add -q "$D/w" HEAD || exit 2
cd "$D/w"
cp "$dir/demo_test.go" "./$pkg/zz_seed3_demo_test.go" 2>/dev/null || cp "$dir/zz_seed_demo_test.go" "./$pkg/zz_seed3_demo_test.go"
echo "== unpatched + demo: $(go test $race -vet=off -count=1 "./$pkg/" 2>&1 | tail -1)"
rm "./$pkg/zz_seed3_demo_test.go"
if ! git apply "$dir/patch.diff" 2>/dev/null; then
  if ! git apply --3way "$dir/patch.diff" 2>/dev/null; then echo "PATCH DOES NOT APPLY"; cd /; git -C /repo worktree remove --force "$D/w"; rm -rf "$D"; exit 2; fi
  git reset -q
fi
echo "== patched build: $(go build ./... 2>&1 | head -3)"
echo "== patched suite: $(go test -vet=off -count=1 ./... 2>&1 | grep -v 'no test files' | grep -v '^ok' | head -5)"
cp "$dir/demo_test.go" "./$pkg/zz_seed3_demo_test.go" 2>/dev/null || cp "$dir/zz_seed_demo_test.go" "./$pkg/zz_seed3_demo_test.go"
echo "== patched + demo: $(go test $race -vet=off -count=1 "./$pkg/" 2>&1 | grep -E '^(--- FAIL|FAIL|ok|panic)' | head -3 | tr '\n' ' ')"
rm "./$pkg/zz_seed3_demo_test.go"
echo "== checks on the patched worktree"
for p in "$@"; do
  VERIF_DIR="$D/vd" GOMAXPROCS=8 /verif/bin/verif-sa check --property "$p" --repo "$D/w" | grep "VIOLATION rule\|UNDECIDED rule\|SUMMARY" | cut -c1-420
done
cd /; git -C /repo worktree remove --force "$D/w"; rm -rf "$D"
