#!/bin/bash
# usage: tools/try_patch.sh <abs dir with patch.diff> <prop> [binary]   One check on a scratch worktree with the patch applied.
set -u
export GOFLAGS=-mod=mod GOPROXY=off GOSUMDB=off GOTOOLCHAIN=local
dir=$1; prop=$2; bin=${3:-/verif/bin/verif-sa}
D=$(mktemp -d); mkdir -p "$D/vd"; cp /verif/known_findings.json /verif/trusted_sites.json /verif/baseline_functions.txt "$D/vd/"
git -C /repo worktree add -q "$D/w" HEAD || exit 2
if ! git -C "$D/w" apply "$dir/patch.diff" 2>/dev/null; then echo "PATCH DOES NOT APPLY"; fi
VERIF_DIR="$D/vd" GOMAXPROCS=8 $bin check --property "$prop" --repo "$D/w" 2>&1 | grep "VIOLATION rule\|UNDECIDED rule\|SUMMARY" | cut -c1-${WIDTH:-300}
git -C /repo worktree remove --force "$D/w"; rm -rf "$D"
