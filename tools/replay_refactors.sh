#!/bin/bash
# usage: tools/replay_refactors.sh [ids...]   Re-runs the archived behaviour-preserving changes (refactors/<id>/patch.diff,
# written by sub-agents that saw only the property text): each must build, pass the unedited suite and raise NO alarm.
# Exit 1 if any raises one (a false alarm to be corrected in the machinery).
cd /verif
ids=("$@"); [ ${#ids[@]} -eq 0 ] && ids=($(ls refactors))
dirs=(); for i in "${ids[@]}"; do dirs+=("/verif/refactors/$i"); done
out=$(tools/eval_refactor.sh "${dirs[@]}" 2>&1)
echo "$out"
if echo "$out" | grep -q "alarms=\[[^]]"; then echo "FALSE ALARMS PRESENT"; exit 1; fi
if echo "$out" | grep -q "suite=\[[^o]\|DOES NOT APPLY"; then echo "A PATCH NO LONGER APPLIES OR PASSES THE SUITE"; exit 1; fi
echo "all ${#ids[@]} behaviour-preserving changes raise no alarm"
