#!/bin/bash
# usage: tools/replay_seeds.sh [seed-id...]   Applies every archived seeded change to a scratch worktree of /repo HEAD
# (never /repo itself), runs the check of the seed's property on it and reports whether a VIOLATION is raised.
set -u
cd /verif
ids=("$@"); [ ${#ids[@]} -eq 0 ] && ids=($(ls seeded))
cp -r /verif/evidence /tmp/evidence.bak.$$
fail=0
for id in "${ids[@]}"; do
  prop=$(jq -r .property seeded/$id/meta.json)
  D=$(mktemp -d)
  git -C /repo worktree add -q "$D/w" HEAD || exit 2
  if ! git -C "$D/w" apply "/verif/seeded/$id/patch.diff"; then echo "$id: PATCH DOES NOT APPLY"; fail=1; else
    out=$(GOMAXPROCS=8 /verif/bin/verif-sa check --property "$prop" --repo "$D/w" 2>&1)
    rules=$(echo "$out" | grep "VIOLATION rule" | sed 's/.*rule=\([^ ]*\).*/\1/' | sort -u | tr '\n' ' ')
    if echo "$out" | grep -q "^VIOLATION property"; then echo "$id: detected ($prop: $rules)"; else echo "$id: MISSED ($prop)"; fail=1; fi
  fi
  git -C /repo worktree remove --force "$D/w"; rm -rf "$D"
done
rm -rf /verif/evidence; mv /tmp/evidence.bak.$$ /verif/evidence
exit $fail
