#!/usr/bin/env python3
"""Mutation campaign that probes the checker (not a check itself).
phase 1:  mutation_campaign.py survive <mutants.jsonl> <out.jsonl> [workers]
          each mutant is applied to a scratch copy of /repo's working tree (outside /repo and /verif, removed at the end);
          'survived' = builds and the unedited suite passes.
phase 2:  mutation_campaign.py check <survivors.jsonl> <out.jsonl> [workers] [binary]
          all 20 checks on each survivor; records which properties raise an alarm.
"""
import sys, os, json, subprocess, shutil, tempfile, multiprocessing as mp

ENV = dict(os.environ, GOFLAGS="-mod=mod", GOPROXY="off", GOSUMDB="off", GOTOOLCHAIN="local", GOWORK="off")

def make_copy():
    d = tempfile.mkdtemp(prefix="mutw_", dir="/tmp")
    subprocess.run(["rsync", "-a", "--exclude", ".git", "/repo/", d + "/w/"], check=True)
    return d

def apply(d, m):
    p = os.path.join(d, "w", m["file"])
    src = open(p, "rb").read()
    open(p, "wb").write(src[:m["start"]] + m["new"].encode() + src[m["end"]:])
    return p, src

def survive_worker(args):
    idx, chunk = args
    d = make_copy()
    out = []
    try:
        for m in chunk:
            p, src = apply(d, m)
            try:
                r = subprocess.run(["go", "build", "./..."], cwd=d + "/w", env=ENV, capture_output=True, timeout=120)
                if r.returncode != 0:
                    m["status"] = "nobuild"
                else:
                    try:
                        r = subprocess.run(["go", "test", "-vet=off", "-count=1", "./..."], cwd=d + "/w", env=ENV, capture_output=True, timeout=90)
                        m["status"] = "survived" if r.returncode == 0 else "killed"
                    except subprocess.TimeoutExpired:
                        m["status"] = "timeout"
            except subprocess.TimeoutExpired:
                m["status"] = "timeout"
            finally:
                open(p, "wb").write(src)
            out.append(m)
    finally:
        shutil.rmtree(d, ignore_errors=True)
    return out

def check_worker(args):
    idx, chunk, binary = args
    d = make_copy()
    vd = d + "/vd"
    os.makedirs(vd)
    for f in ("known_findings.json", "trusted_sites.json", "baseline_functions.txt"):
        shutil.copy("/verif/" + f, vd)
    out = []
    try:
        for m in chunk:
            p, src = apply(d, m)
            try:
                r = subprocess.run([binary, "check-all", "--repo", d + "/w"], env=dict(ENV, VERIF_DIR=vd, GOMAXPROCS="3"), capture_output=True, timeout=900, text=True)
                alarms = []
                for line in r.stdout.splitlines():
                    if line.startswith("SUMMARY") and "violations=0 undecided=0" not in line:
                        alarms.append(line.split()[1].split("=")[1])
                rules = sorted({l.split("rule=")[1].split()[0] for l in r.stdout.splitlines() if ("VIOLATION rule" in l or "UNDECIDED rule" in l)})
                m["alarms"] = alarms
                m["rules"] = rules
                m["summaries"] = sum(1 for l in r.stdout.splitlines() if l.startswith("SUMMARY"))
            except subprocess.TimeoutExpired:
                m["alarms"] = ["TIMEOUT"]
            finally:
                open(p, "wb").write(src)
            out.append(m)
    finally:
        shutil.rmtree(d, ignore_errors=True)
    return out

def main():
    mode, inp, outp = sys.argv[1:4]
    workers = int(sys.argv[4]) if len(sys.argv) > 4 else 6
    ms = [json.loads(l) for l in open(inp)]
    chunks = [(i, ms[i::workers * 8]) for i in range(workers * 8)]
    chunks = [c for c in chunks if c[1]]
    with mp.Pool(workers) as pool, open(outp, "w") as f:
        if mode == "survive":
            it = pool.imap_unordered(survive_worker, chunks)
        else:
            binary = sys.argv[5] if len(sys.argv) > 5 else "/verif/bin/verif-sa"
            it = pool.imap_unordered(check_worker, [(i, c, binary) for i, c in chunks])
        for res in it:
            for m in res:
                f.write(json.dumps(m) + "\n")
            f.flush()

if __name__ == "__main__":
    main()
