package main

// T-vi and T-push: length-class tables of the varint and push-data codecs,
// extracted as decision tables from every implementation and compared with the
// protocol tables and with each other.

import (
	"fmt"
	"go/constant"
	"go/token"
	"go/types"
	"math/big"
	"regexp"
	"sort"
	"strings"

	"golang.org/x/tools/go/ssa"
)

// leaf helpers -----------------------------------------------------------

// pathCallees lists static callee names called along the path.
func pathCalls(d *DPath) []*ssa.Call {
	var out []*ssa.Call
	for _, ins := range pathInstrs(d) {
		if c, ok := ins.(*ssa.Call); ok {
			out = append(out, c)
		}
	}
	return out
}

func calleeShort(c *ssa.Call) string {
	if sc := c.Call.StaticCallee(); sc != nil {
		return sc.Name()
	}
	if b, ok := c.Call.Value.(*ssa.Builtin); ok {
		return b.Name()
	}
	return "?"
}

func retConst(d *DPath, idx int) (string, bool) {
	if d.Ret == nil || idx >= len(d.Ret.Results) {
		return "", false
	}
	t := d.Env.Term(d.Ret.Results[idx])
	if t.K == "const" && t.C != nil {
		return t.C.ExactString(), true
	}
	// a closed arithmetic term (e.g. 1 + int64(2) after the path fixed a phi) folds to its value
	asg := tableAsg
	if asg == nil {
		asg = map[string]*big.Int{}
	}
	if v, ok := evalTerm(t, asg); ok {
		return v.String(), true
	}
	return t.String(), false
}

// firstBaseTerm finds the unique non-constant leaf term of the path conditions that
// satisfies want (by its string).
func condBaseTerms(paths []*DPath) map[string]*T {
	bases := map[string]*T{}
	for _, p := range paths {
		for _, cd := range p.Conds {
			baseTerms(cd.Cond, bases)
		}
	}
	return bases
}

func pickBase(bases map[string]*T, contains string) (string, *T) {
	var ks []string
	for k := range bases {
		if strings.Contains(k, contains) {
			ks = append(ks, k)
		}
	}
	sort.Strings(ks)
	if len(ks) == 0 {
		return "", nil
	}
	return ks[0], bases[ks[0]]
}

func varintSpecLen(v *big.Int) int {
	switch {
	case v.Cmp(big.NewInt(0xfd)) < 0:
		return 1
	case v.Cmp(big.NewInt(0xffff)) <= 0:
		return 3
	case v.Cmp(big.NewInt(0xffffffff)) <= 0:
		return 5
	}
	return 9
}

func tableCheck(c *Ctx, rule, key string, fn *ssa.Function, rows []tableRow, err error, spec func(*big.Int) string) {
	if err != nil {
		c.Undecided(rule, key, fn.Pos(), "decision table cannot be extracted: "+err.Error())
		return
	}
	ok, why := rowsEqual(rows, specRows(rows, spec))
	if ok {
		c.OK(rule, key, fn.Pos(), "decision table equals the protocol table: "+strings.Join(compressRows(rows), " "))
	} else {
		c.Fail(rule, key, fn.Pos(), "decision table differs from the protocol table: "+why+"; extracted "+strings.Join(compressRows(rows), " "))
	}
}

// T-vi -------------------------------------------------------------------
func ruleTVi(c *Ctx) { ruleTViOnly(c, nil) }

// ruleTViOnly: nil = all var-int helpers; otherwise only those a property depends on.
func ruleTViOnly(c *Ctx, only map[string]bool) {
	u64 := types.Typ[types.Uint64]
	skip := func(n string) bool { return only != nil && !only[n] }
	// Length
	if skip("Length") {
	} else if fn := c.P.Func("", "VarInt", "Length"); fn != nil {
		paths, err := enumPaths(fn.Blocks[0], nil, nil, 64)
		var rows []tableRow
		if err == nil {
			rows, err = scalarTable(paths, "p0", u64, nil, func(d *DPath) string { s, _ := retConst(d, 0); return s })
		}
		tableCheck(c, "T-vi", "VarInt.Length", fn, rows, err, func(v *big.Int) string { return fmt.Sprint(varintSpecLen(v)) })
	} else {
		c.Undecided("T-vi", "VarInt.Length", token.NoPos, "not found")
	}
	// UpperLimitInc: growth of the encoding when the value is incremented = Length(v+1) - Length(v), -1 at the maximum
	if skip("UpperLimitInc") {
	} else if fn := c.P.Func("", "VarInt", "UpperLimitInc"); fn != nil {
		paths, err := enumPaths(fn.Blocks[0], nil, nil, 64)
		var rows []tableRow
		if err == nil {
			rows, err = scalarTable(paths, "p0", u64, nil, func(d *DPath) string { s, _ := retConst(d, 0); return s })
			if err != nil {
				// the switch converts the receiver: uint64(p0) is p0 for this unsigned type
				rows, err = scalarTable(paths, "uint64(p0)", u64, nil, func(d *DPath) string { s, _ := retConst(d, 0); return s })
			}
		}
		max := new(big.Int).SetUint64(^uint64(0))
		tableCheck(c, "T-vi", "VarInt.UpperLimitInc", fn, rows, err, func(v *big.Int) string {
			if v.Cmp(max) == 0 {
				return "-1"
			}
			return fmt.Sprint(varintSpecLen(new(big.Int).Add(v, big.NewInt(1))) - varintSpecLen(v))
		})
	} else {
		c.Undecided("T-vi", "VarInt.UpperLimitInc", token.NoPos, "not found")
	}
	// Bytes: leaf = prefix marker / width / returned length
	if skip("Bytes") {
	} else if fn := c.P.Func("", "VarInt", "Bytes"); fn != nil {
		paths, err := enumPaths(fn.Blocks[0], nil, nil, 64)
		var rows []tableRow
		if err == nil {
			rows, err = scalarTable(paths, "p0", u64, nil, func(d *DPath) string { return varintBytesLeaf(d) })
		}
		tableCheck(c, "T-vi", "VarInt.Bytes", fn, rows, err, func(v *big.Int) string {
			switch varintSpecLen(v) {
			case 1:
				return "prefix=value len=1"
			case 3:
				return "prefix=0xfd LE16@1 len=3"
			case 5:
				return "prefix=0xfe LE32@1 len=5"
			}
			return "prefix=0xff LE64@1 len=9"
		})
	} else {
		c.Undecided("T-vi", "VarInt.Bytes", token.NoPos, "not found")
	}
	// ReadFrom and NewVarIntFromBytes: table over the first byte
	readerSpec := func(v *big.Int) string {
		switch v.Int64() {
		case 0xff:
			return "read 8 Uint64 total=9"
		case 0xfe:
			return "read 4 Uint32 total=5"
		case 0xfd:
			return "read 2 Uint16 total=3"
		}
		return "value=first byte total=1"
	}
	if skip("ReadFrom") {
	} else if fn := c.P.Func("", "*VarInt", "ReadFrom"); fn != nil {
		paths, err := enumPaths(fn.Blocks[0], nil, nil, 256)
		var rows []tableRow
		if err == nil {
			base, bt := pickBase(condBaseTerms(paths), "[0]")
			if bt == nil {
				err = fmt.Errorf("no decision on the first byte found")
			} else {
				rows, err = scalarTable(paths, base, types.Typ[types.Uint8], nil, func(d *DPath) string { return varintReadLeaf(d, true) })
			}
		}
		tableCheck(c, "T-vi", "VarInt.ReadFrom", fn, rows, err, readerSpec)
	} else {
		c.Undecided("T-vi", "VarInt.ReadFrom", token.NoPos, "not found")
	}
	if skip("NewVarIntFromBytes") {
	} else if fn := c.P.Func("", "", "NewVarIntFromBytes"); fn != nil {
		paths, err := enumPaths(fn.Blocks[0], nil, nil, 64)
		var rows []tableRow
		if err == nil {
			base, bt := pickBase(condBaseTerms(paths), "[0]")
			if bt == nil {
				err = fmt.Errorf("no decision on the first byte found")
			} else {
				rows, err = scalarTable(paths, base, types.Typ[types.Uint8], nil, func(d *DPath) string { return varintReadLeaf(d, false) })
			}
		}
		tableCheck(c, "T-vi", "NewVarIntFromBytes", fn, rows, err, readerSpec)
	} else {
		c.Undecided("T-vi", "NewVarIntFromBytes", token.NoPos, "not found")
	}
	// UpperLimitInc(v) == Length(v+1) - Length(v)  (and -1 at the maximum)
	if skip("UpperLimitInc") {
	} else if fn := c.P.Func("", "VarInt", "UpperLimitInc"); fn != nil {
		paths, err := enumPaths(fn.Blocks[0], nil, nil, 64)
		var rows []tableRow
		extra := []*big.Int{big.NewInt(252), big.NewInt(65535), big.NewInt(4294967295)}
		if err == nil {
			base, bt := pickBase(condBaseTerms(paths), "p0")
			if bt == nil && len(paths) == 1 && paths[0].Ret != nil {
				// no branch at all: the result is read from a table keyed by the receiver
				base, bt = "p0", &T{K: "param", Name: "p0"}
			}
			if bt == nil {
				err = fmt.Errorf("no decision on the receiver found")
			} else {
				rows, err = scalarTable(paths, base, u64, extra, func(d *DPath) string { s, _ := retConst(d, 0); return s })
			}
		}
		max := new(big.Int).SetUint64(^uint64(0))
		tableCheck(c, "T-vi", "VarInt.UpperLimitInc", fn, rows, err, func(v *big.Int) string {
			if v.Cmp(max) == 0 {
				return "-1"
			}
			return fmt.Sprint(varintSpecLen(new(big.Int).Add(v, big.NewInt(1))) - varintSpecLen(v))
		})
	} else {
		c.Undecided("T-vi", "VarInt.UpperLimitInc", token.NoPos, "not found")
	}
}

func constByteStores(d *DPath) map[int64]string {
	out := map[int64]string{}
	for _, ins := range pathInstrs(d) {
		st, ok := ins.(*ssa.Store)
		if !ok {
			continue
		}
		ia, ok := st.Addr.(*ssa.IndexAddr)
		if !ok {
			continue
		}
		idx, ok := constInt(ia.Index)
		if !ok {
			continue
		}
		t := d.Env.Term(st.Val)
		if t.K == "const" && t.C != nil {
			if v, ok := constValInt(t.C); ok {
				out[idx.Int64()] = fmt.Sprintf("0x%x", v)
				continue
			}
		}
		out[idx.Int64()] = "value"
	}
	return out
}

// varintLeafFromLayout: the leaf of VarInt.Bytes read from the bytes the path returns (engine W), whatever they
// are built with - a literal with byte(v), byte(v>>8), ... runs, appends, a filled buffer.
func varintLeafFromLayout(d *DPath) (string, bool) {
	if d.Ret == nil || len(d.Ret.Results) != 1 || theProg == nil {
		return "", false
	}
	fn := d.Ret.Parent()
	w := newWEval(theProg, fn)
	l := w.eval(d.Ret.Results[0])
	if l == nil {
		return "", false
	}
	items := []*Lay{l}
	if l.K == "seq" {
		items = l.Items
	}
	if bad, _ := l.hasUnknown(); bad || len(items) == 0 || len(items) > 2 {
		return "", false
	}
	valueOK := func(it *Lay) bool { return it.K == "le" && it.Sh == 0 && (it.S == "p0" || it.S == "uint16(p0)" || it.S == "uint32(p0)" || it.S == "uint64(p0)" || it.S == "byte(p0)" || it.S == "uint8(p0)") }
	if len(items) == 1 {
		if valueOK(items[0]) && items[0].W == 1 {
			return "prefix=value len=1", true
		}
		return "", false
	}
	if items[0].K != "const" || len(items[0].S) != 2 || !valueOK(items[1]) {
		return "", false
	}
	return fmt.Sprintf("prefix=0x%s LE%d@1 len=%d", items[0].S, items[1].W*8, 1+items[1].W), true
}

func varintBytesLeaf(d *DPath) string {
	if s, ok := varintLeafFromLayout(d); ok {
		return s
	}
	st := constByteStores(d)
	prefix := st[0]
	if prefix == "" {
		prefix = "?"
	}
	s := "prefix=" + prefix
	for _, c := range pathCalls(d) {
		n := calleeShort(c)
		if strings.HasPrefix(n, "PutUint") {
			off := "?"
			if sl, ok := c.Call.Args[1].(*ssa.Slice); ok && sl.Low != nil {
				if lo, ok := constInt(sl.Low); ok {
					off = lo.String()
				}
			}
			end := "LE"
			if strings.Contains(c.Call.StaticCallee().String(), "bigEndian") {
				end = "BE"
			}
			s += " " + end + strings.TrimPrefix(n, "PutUint") + "@" + off
		}
	}
	// returned slice length
	if d.Ret != nil && len(d.Ret.Results) == 1 {
		switch r := d.Ret.Results[0].(type) {
		case *ssa.Slice:
			if r.High != nil {
				if hi, ok := constInt(r.High); ok {
					s += " len=" + hi.String()
				}
			} else if ms, ok := r.X.(*ssa.MakeSlice); ok {
				if l, ok := constInt(ms.Len); ok {
					s += " len=" + l.String()
				}
			}
		case *ssa.MakeSlice:
			if l, ok := constInt(r.Len); ok {
				s += " len=" + l.String()
			}
		}
	}
	return s
}

// partialFill: the buffer al (zeroed by make) is written on this path by exactly one call,
// io.ReadFull(r, al[:k]) with k constant on the path, k < size; every other use only reads it.
func partialFill(d *DPath, al *ssa.Alloc, size int64) (int64, bool) {
	onPath := map[ssa.Instruction]bool{}
	for _, ins := range pathInstrs(d) {
		onPath[ins] = true
	}
	k := int64(-1)
	// views of the buffer: slices of it starting at offset 0, with their length on this path
	type view struct {
		v   ssa.Value
		len int64
	}
	work := []view{{al, size}}
	seen := map[ssa.Value]bool{}
	for len(work) > 0 {
		cur := work[0]
		work = work[1:]
		if seen[cur.v] || cur.v.Referrers() == nil {
			continue
		}
		seen[cur.v] = true
		for _, u := range *cur.v.Referrers() {
			switch x := u.(type) {
			case *ssa.DebugRef:
			case *ssa.Slice:
				if x.Low != nil || x.Max != nil {
					return 0, false
				}
				n := cur.len
				if x.High != nil {
					asg := tableAsg // a bound computed from the value the table's row stands for (1 << (prefix & 3))
					if asg == nil {
						asg = map[string]*big.Int{}
					}
					v, ok := evalTerm(d.Env.Term(x.High), asg)
					if !ok || v.Sign() <= 0 || v.Int64() > cur.len {
						return 0, false
					}
					n = v.Int64()
				}
				work = append(work, view{x, n})
			case *ssa.Call:
				if b, isB := x.Call.Value.(*ssa.Builtin); isB && b.Name() == "copy" && x.Call.Args[0] == cur.v {
					// copy(buffer, src) where src is a buffer of k bytes filled completely by the one
					// io.ReadFull(r, src) on this path
					if !onPath[x] {
						continue
					}
					n, ok := fullyReadLen(d, x.Call.Args[1], onPath)
					if !ok || k >= 0 || n > cur.len {
						return 0, false
					}
					k = n
					continue
				}
				sc := x.Call.StaticCallee()
				if sc == nil {
					return 0, false
				}
				if strings.Contains(sc.String(), "encoding/binary") && strings.HasPrefix(sc.Name(), "Uint") {
					continue // reads only
				}
				if sc.String() != "io.ReadFull" {
					return 0, false
				}
				if !onPath[x] {
					continue
				}
				if k >= 0 {
					return 0, false
				}
				k = cur.len
			default:
				return 0, false
			}
		}
	}
	if k <= 0 || k >= size {
		return 0, false
	}
	return k, true
}

func isByteArrayAlloc(al *ssa.Alloc) bool {
	if al.Comment == "slicelit" || al.Comment == "varargs" || al.Comment == "complit" {
		return false // a literal: its bytes are written element by element
	}
	at, ok := al.Type().Underlying().(*types.Pointer).Elem().Underlying().(*types.Array)
	if !ok {
		return false
	}
	b, ok := at.Elem().Underlying().(*types.Basic)
	return ok && b.Kind() == types.Uint8
}

// fullyReadLen: src is make([]byte, n) with n known on this path (a constant, or a constant-table
// entry for the row being built) whose only writer is io.ReadFull(r, src) on the path.
func fullyReadLen(d *DPath, src ssa.Value, onPath map[ssa.Instruction]bool) (int64, bool) {
	var lenV ssa.Value
	switch m := src.(type) {
	case *ssa.MakeSlice:
		lenV = m.Len
	case *ssa.Slice:
		if al, ok := m.X.(*ssa.Alloc); ok && al.Comment == "makeslice" && m.Low == nil && m.High == nil {
			if at, ok := al.Type().Underlying().(*types.Pointer).Elem().Underlying().(*types.Array); ok {
				return at.Len(), readFullOnly(src, onPath)
			}
		}
		return 0, false
	default:
		return 0, false
	}
	asg := tableAsg
	if asg == nil {
		asg = map[string]*big.Int{}
	}
	v, ok := evalTerm(d.Env.Term(lenV), asg)
	if !ok || v.Sign() <= 0 {
		return 0, false
	}
	return v.Int64(), readFullOnly(src, onPath)
}

func readFullOnly(src ssa.Value, onPath map[ssa.Instruction]bool) bool {
	if src.Referrers() == nil {
		return false
	}
	n := 0
	for _, r := range *src.Referrers() {
		switch x := r.(type) {
		case *ssa.DebugRef:
		case *ssa.Call:
			if b, isB := x.Call.Value.(*ssa.Builtin); isB {
				if b.Name() == "copy" && x.Call.Args[0] == src {
					return false
				}
				continue
			}
			sc := x.Call.StaticCallee()
			if sc == nil {
				return false
			}
			if sc.String() == "io.ReadFull" && x.Call.Args[1] == src {
				if onPath[x] {
					n++
				}
				continue
			}
			if strings.Contains(sc.String(), "encoding/binary") && strings.HasPrefix(sc.Name(), "Uint") {
				continue
			}
			return false
		case *ssa.MakeInterface:
		default:
			return false
		}
	}
	return n == 1
}

func varintReadLeaf(d *DPath, stream bool) string {
	if d.Ret == nil {
		return ""
	}
	if stream {
		// success paths only: error result is the nil constant
		if len(d.Ret.Results) != 2 {
			return ""
		}
		et := d.Env.Term(d.Ret.Results[1])
		if !(et.K == "const" && et.C == nil) {
			return ""
		}
	}
	total, _ := retConst(d, func() int {
		if stream {
			return 0
		}
		return 1
	}())
	dec := ""
	nread := ""
	for _, c := range pathCalls(d) {
		n := calleeShort(c)
		if strings.HasPrefix(n, "Uint") {
			dec = n
			if strings.Contains(c.Call.StaticCallee().String(), "bigEndian") {
				dec = "BE" + n
			}
			// operand: a make of constant size, a slice b[lo:hi], or a 2-byte literal holding b[0]
			switch a := c.Call.Args[1].(type) {
			case *ssa.MakeSlice:
				if l, ok := constInt(a.Len); ok {
					nread = l.String()
				}
			case *ssa.Slice:
				lo, hi := int64(0), int64(-1)
				if a.Low != nil {
					if v, ok := constInt(a.Low); ok {
						lo = v.Int64()
					}
				}
				if a.High != nil {
					if v, ok := constInt(a.High); ok {
						hi = v.Int64()
					}
				}
				if al, isAlloc := a.X.(*ssa.Alloc); isAlloc && (al.Comment == "makeslice" || isByteArrayAlloc(al)) && hi >= 0 && hi-lo < arrayLen(al) && subSliceFilled(d, al, lo, hi) {
					// a part b[lo:hi] of one buffer, filled on this path by an io.ReadFull into a slice of the
					// buffer that covers it
					nread = fmt.Sprint(hi - lo)
					if lo != 1 {
						nread += fmt.Sprintf("@%d", lo)
					}
				} else if isAlloc && (al.Comment == "makeslice" || isByteArrayAlloc(al)) {
					if at, ok := al.Type().Underlying().(*types.Pointer).Elem().Underlying().(*types.Array); ok {
						nread = fmt.Sprint(at.Len())
						// a zeroed buffer of which only the first k bytes were filled by the one
						// io.ReadFull on this path, decoded little-endian over a width >= k, is the
						// little-endian value of those k bytes
						if k, ok := partialFill(d, al, at.Len()); ok && !strings.HasPrefix(dec, "BE") {
							var wd int64
							fmt.Sscanf(n, "Uint%d", &wd)
							if k*8 <= wd && wd/8 <= at.Len() && (k == 1 || k == 2 || k == 4 || k == 8) {
								nread = fmt.Sprint(k)
								dec = fmt.Sprintf("Uint%d", k*8)
							} else {
								nread = fmt.Sprintf("%d of a %d-byte buffer", k, at.Len())
							}
						}
					}
				} else if isAlloc {
					// literal []byte{b[0], 0}: the value is the first byte itself
					dec = "first"
				} else if hi >= 0 {
					nread = fmt.Sprint(hi - lo)
					if lo != 1 {
						nread += fmt.Sprintf("@%d", lo)
					}
				}
			}
		}
	}
	if dec == "first" || dec == "" {
		return "value=first byte total=" + total
	}
	return "read " + nread + " " + dec + " total=" + total
}

// T-push -----------------------------------------------------------------

func pushSpecPrefixLen(l *big.Int) string {
	switch {
	case l.Cmp(big.NewInt(75)) <= 0:
		return "op=len"
	case l.Cmp(big.NewInt(0xff)) <= 0:
		return "op=0x4c len8"
	case l.Cmp(big.NewInt(0xffff)) <= 0:
		return "op=0x4d LE16"
	case l.Cmp(big.NewInt(0xffffffff)) <= 0:
		return "op=0x4e LE32"
	}
	return "error"
}

func ruleTPush(c *Ctx) {
	// PushDataPrefix: table over len(data)
	if fn := c.P.Func("bscript", "", "PushDataPrefix"); fn != nil {
		paths, err := enumPaths(fn.Blocks[0], nil, nil, 64)
		var rows []tableRow
		if err == nil {
			base, bt := pickBase(condBaseTerms(paths), "len(p0)")
			if bt == nil {
				err = fmt.Errorf("no decision on len(data)")
			} else {
				rows, err = scalarTable(paths, base, types.Typ[types.Int64], []*big.Int{big.NewInt(0), big.NewInt(1)}, func(d *DPath) string { return pushPrefixLeaf(d) })
				// negative lengths are impossible: drop representatives below 0
				var rr []tableRow
				for _, r := range rows {
					if r.Rep.Sign() >= 0 {
						rr = append(rr, r)
					}
				}
				rows = rr
			}
		}
		tableCheck(c, "T-push", "PushDataPrefix", fn, rows, err, func(v *big.Int) string { return pushSpecPrefixLen(v) })
	} else {
		c.Undecided("T-push", "PushDataPrefix", token.NoPos, "not found")
	}
	// DecodeParts: per loop iteration, table over b[0]
	if fn := c.P.Func("bscript", "", "DecodeParts"); fn != nil {
		var header *ssa.BasicBlock
		for _, b := range fn.Blocks {
			for _, p := range b.Preds {
				if b.Dominates(p) {
					header = b
				}
			}
		}
		if header == nil {
			c.Undecided("T-push", "DecodeParts", fn.Pos(), "decode loop not found")
		} else {
			paths, err := enumPaths(header, nil, nil, 512)
			var rows []tableRow
			if err == nil {
				// only iterations that continue the loop successfully
				base, bt := pickBase(condBaseTerms(paths), "[0]")
				if bt == nil {
					err = fmt.Errorf("no decision on b[0]")
				} else {
					rows, err = scalarTable(paths, base, types.Typ[types.Uint8], nil, func(d *DPath) string { return decodePartsLeaf(d) })
				}
			}
			tableCheck(c, "T-push", "DecodeParts", fn, rows, err, func(v *big.Int) string {
				switch b := v.Int64(); {
				case b == 0x4c:
					return "len=b[1] data@2"
				case b == 0x4d:
					return "len=Uint16(b[1:]) data@3"
				case b == 0x4e:
					return "len=Uint32(b[1:]) data@5"
				case b >= 1 && b <= 0x4b:
					return "len=b[0] data@1"
				}
				return "single opcode byte"
			})
		}
	} else {
		c.Undecided("T-push", "DecodeParts", token.NoPos, "not found")
	}
	// boundary agreement for the remaining siblings: the set of (operator, constant) atoms on
	// the data length must be the protocol's
	type sib struct {
		pkg, recv, name, term string
		want                  []string
	}
	sibs := []sib{
		{"bscript", "", "MinPushSize", "len(p0)", []string{"== 0", "== 1", "<= 75", "<= 255", "<= 65535"}},
	}
	// the interpreter's sibling, enforceMinimumDataPush, is decided in full by T-min (its whole decision
	// table, not only its boundaries)
	ruleTMin(c)
	for _, s := range sibs {
		fn := c.P.Func(s.pkg, s.recv, s.name)
		key := s.name
		if fn == nil {
			c.Undecided("T-push", key, token.NoPos, "not found")
			continue
		}
		got := lengthAtoms(fn, s.term)
		miss := []string{}
		for _, w := range s.want {
			if !got[w] {
				miss = append(miss, w)
			}
		}
		var extra []string
		wantSet := map[string]bool{}
		for _, w := range s.want {
			wantSet[w] = true
		}
		for g := range got {
			if !wantSet[g] && !strings.HasPrefix(g, "> 4294967295") && g != "<= 4294967295" {
				extra = append(extra, g)
			}
		}
		sort.Strings(extra)
		if len(miss) == 0 && len(extra) == 0 {
			c.OK("T-push", key, fn.Pos(), "length comparisons "+strings.Join(s.want, ", ")+" agree with the push-size classes")
		} else {
			c.Fail("T-push", key, fn.Pos(), fmt.Sprintf("length class boundaries differ from the protocol's {75, 255, 65535}: missing %v, unexpected %v", miss, extra))
		}
	}
}

// lengthAtoms: normalised comparisons "op const" applied to a term whose string contains termSub.
func lengthAtoms(fn *ssa.Function, termSub string) map[string]bool {
	out := map[string]bool{}
	env := newTermEnv()
	for _, b := range fn.Blocks {
		for _, ins := range b.Instrs {
			bo, ok := ins.(*ssa.BinOp)
			if !ok {
				continue
			}
			switch bo.Op {
			case token.EQL, token.NEQ, token.LSS, token.LEQ, token.GTR, token.GEQ:
			default:
				continue
			}
			x, y := env.Term(bo.X), env.Term(bo.Y)
			op := bo.Op
			if x.K == "const" && y.K != "const" {
				x, y = y, x
				op = map[token.Token]token.Token{token.LSS: token.GTR, token.GTR: token.LSS, token.LEQ: token.GEQ, token.GEQ: token.LEQ, token.EQL: token.EQL, token.NEQ: token.NEQ}[op]
			}
			if y.K != "const" || y.C == nil || y.C.Kind() != constant.Int || !strings.Contains(x.String(), termSub) {
				continue
			}
			if strings.Contains(x.String(), "[") && !strings.HasPrefix(x.String(), "len(") && !strings.Contains(x.String(), "(len(") {
				continue // element comparisons, not length comparisons
			}
			if op == token.NEQ {
				op = token.EQL
			}
			// one spelling per threshold: x < c is x <= c-1, x > c is x >= c+1, and a test and its negation are one boundary
			kv, _ := constValInt(y.C)
			switch op {
			case token.LSS:
				op, kv = token.LEQ, new(big.Int).Sub(kv, big.NewInt(1))
			case token.GTR:
				op, kv = token.LEQ, kv
			case token.GEQ:
				op, kv = token.LEQ, new(big.Int).Sub(kv, big.NewInt(1))
			}
			out[op.String()+" "+kv.String()] = true
		}
	}
	return out
}

func pushPrefixLeaf(d *DPath) string {
	if d.Ret == nil || len(d.Ret.Results) != 2 {
		return ""
	}
	et := d.Env.Term(d.Ret.Results[1])
	if !(et.K == "const" && et.C == nil) {
		return "error"
	}
	// the bytes returned on this path, as a layout: constants and encodings of len(data)
	var parts []string
	w := newWEval(theProg, d.Blocks[0].Parent())
	w.pathPhi = d.Env.Phi
	w.pathBlocks = map[*ssa.BasicBlock]bool{}
	for _, b := range d.Blocks {
		w.pathBlocks[b] = true
	}
	l := seqOf(w.eval(d.Ret.Results[0]))
	for _, it := range l.Items {
		isLen := strings.Contains(it.S, "len(p0)")
		switch {
		case it.K == "const":
			for k := 0; k+2 <= len(it.S); k += 2 {
				parts = append(parts, "0x"+strings.TrimLeft(it.S[k:k+2], "0"))
			}
		case it.K == "le" && it.W == 1 && isLen:
			parts = append(parts, "len8")
		case (it.K == "le" || it.K == "be") && isLen:
			parts = append(parts, fmt.Sprintf("%s%d", strings.ToUpper(it.K), it.W*8))
		default:
			parts = append(parts, it.String())
		}
	}
	switch len(parts) {
	case 1:
		if parts[0] == "len8" {
			return "op=len"
		}
	case 2:
		return "op=" + parts[0] + " " + parts[1]
	}
	return strings.Join(parts, " ")
}

func decodePartsLeaf(d *DPath) string {
	// error returns are excluded; iterations that reach the back edge are described
	if d.EndKind != "loop" {
		return ""
	}
	lenSrc, dataOff := "", ""
	for _, ins := range pathInstrs(d) {
		switch x := ins.(type) {
		case *ssa.Call:
			n := calleeShort(x)
			if strings.HasPrefix(n, "Uint") {
				off := "?"
				if sl, ok := d.Env.Val(x.Call.Args[1]).(*ssa.Slice); ok && sl.Low != nil {
					if lo, ok := constInt(d.Env.Val(sl.Low)); ok {
						off = lo.String()
					}
				}
				lenSrc = n + "(b[" + off + ":])"
				if strings.Contains(x.Call.StaticCallee().String(), "bigEndian") {
					lenSrc = "BE" + lenSrc
				}
			}
		case *ssa.Slice:
			// the first re-slice b = b[k:] with constant k (or b[1:l+1] for direct pushes)
			if x.Low != nil && dataOff == "" {
				usedByDecode := false
				if refs := x.Referrers(); refs != nil {
					for _, r := range *refs {
						if cc, ok := r.(*ssa.Call); ok && strings.HasPrefix(calleeShort(cc), "Uint") {
							usedByDecode = true
						}
					}
				}
				if lo, ok := evalTerm(d.Env.Term(x.Low), map[string]*big.Int{}); ok && lo.Sign() > 0 && !usedByDecode {
					dataOff = lo.String() // (an offset such as 1+lenSize folds once the path has fixed lenSize)
				}
			}
		case *ssa.Convert:
			// l := int(b[1])
			t := d.Env.Term(x.X)
			if strings.HasSuffix(t.String(), "[1]") && lenSrc == "" {
				lenSrc = "b[1]"
			}
		}
	}
	if lenSrc == "" && dataOff == "1" {
		// direct push or single byte: distinguish by whether a data slice b[1:l+1] was taken
		for _, ins := range pathInstrs(d) {
			if sl, ok := ins.(*ssa.Slice); ok && sl.High != nil && sl.Low != nil {
				if _, isConst := sl.High.(*ssa.Const); !isConst {
					return "len=b[0] data@1"
				}
			}
		}
		return "single opcode byte"
	}
	return "len=" + lenSrc + " data@" + dataOff
}

// W-enc (C13): EncodeParts writes, for every part in order, the push prefix of that part followed by the part
// itself, whole: its layout is Loop[parts](PushDataPrefix(part) · part). The prefix's own layout is what
// T-push decides; here it is taken from PushDataPrefix as it stands and must reappear unchanged.
func ruleWEnc(c *Ctx) {
	enc := c.P.Func("bscript", "", "EncodeParts")
	pre := c.P.Func("bscript", "", "PushDataPrefix")
	if enc == nil || pre == nil {
		c.Undecided("W-enc", "EncodeParts", token.NoPos, "EncodeParts / PushDataPrefix not found")
		return
	}
	got := newWEval(c.P, enc).evalFunc().String()
	pl := newWEval(c.P, pre).evalFunc().String()
	want := "Loop[p0](" + regexp.MustCompile(`\bp0\b`).ReplaceAllString(pl, "p0[i]") + " · Raw(p0[i]))"
	if strings.Contains(got, "Unknown(") {
		c.Undecided("W-enc", "EncodeParts", enc.Pos(), "the encoder uses an idiom outside the layout vocabulary: "+shorten(got, 300))
		return
	}
	c.Check(got == want, "W-enc", "EncodeParts", enc.Pos(), "EncodeParts writes prefix(part) · part for every part in order: "+shorten(got, 120),
		"EncodeParts does not write, for every part, its push prefix followed by the whole part: layout "+shorten(got, 400)+" — expected "+shorten(want, 200))
}

// subSliceFilled: on the path an io.ReadFull fills al[l:h] with constant (path-resolved) bounds l <= lo, h >= hi,
// and lo >= 1 or the whole is read at once (the marker byte read separately is not part of the payload).
func subSliceFilled(d *DPath, al *ssa.Alloc, lo, hi int64) bool {
	for _, c := range pathCalls(d) {
		sc := c.Call.StaticCallee()
		if sc == nil || sc.String() != "io.ReadFull" || len(c.Call.Args) != 2 {
			continue
		}
		sl, ok := c.Call.Args[1].(*ssa.Slice)
		if !ok || sl.X != ssa.Value(al) {
			continue
		}
		l, h := int64(0), int64(-1)
		if sl.Low != nil {
			v, ok := constInt(d.Env.Val(sl.Low))
			if !ok {
				continue
			}
			l = v.Int64()
		}
		if sl.High != nil {
			v, ok := constInt(d.Env.Val(sl.High))
			if !ok {
				continue
			}
			h = v.Int64()
		}
		if h >= 0 && l <= lo && h >= hi && l == lo && h == hi {
			return true
		}
	}
	return false
}
