package main

// Engine T-dec: decision extraction. Enumerates the acyclic paths of a
// function (or of a loop body) in SSA form, recording for each path the
// branch conditions as terms. For functions whose outcome depends only on
// comparisons of a few scalar terms with constants, the terms' domains are
// partitioned at those constants and the extracted conditions are folded on
// one representative per cell, giving a complete finite table cell -> leaf.
// This is comparison folding over the extracted tree; go-bt code never runs.

import (
	"fmt"
	"go/constant"
	"go/token"
	"go/types"
	"math/big"
	"os"
	"sort"
	"strings"

	"golang.org/x/tools/go/ssa"
)

type PathCond struct {
	Cond  *T
	Truth bool
	At    *ssa.If
}

type DPath struct {
	Conds   []PathCond
	Blocks  []*ssa.BasicBlock
	Env     *TermEnv
	EndKind string // return | panic | stop | loop
	Ret     *ssa.Return
	Target  *ssa.BasicBlock      // for stop/loop
	Inl     map[*ssa.Call]*DPath // helper calls replaced by the callee path taken
}

func (d *DPath) CondString() string {
	var s []string
	for _, c := range d.Conds {
		if c.Truth {
			s = append(s, c.Cond.String())
		} else {
			s = append(s, "!"+c.Cond.String())
		}
	}
	return strings.Join(s, " && ")
}

type pathEnum struct {
	stop  map[*ssa.BasicBlock]bool
	limit int
	out   []*DPath
	err   error
	depth int
}

// inlineHelper decides which callees the path enumeration looks into. It is set by the program
// loader to "functions of the module that are not in the committed baseline list", i.e. helpers a
// later change extracted from an analysed function; on the baseline tree nothing is inlined.
var inlineHelper func(*ssa.Function) bool

// inlState: substitutions accumulated along a path for the helper calls taken apart.
type inlState struct {
	sub  map[ssa.Value]ssa.Value
	subT map[ssa.Value]*T // results of inlined calls as terms, fixed when the call is taken apart
	inl  map[*ssa.Call]*DPath
	fns  map[*ssa.Function]bool
}

func (x *inlState) clone() *inlState {
	n := &inlState{sub: map[ssa.Value]ssa.Value{}, subT: map[ssa.Value]*T{}, inl: map[*ssa.Call]*DPath{}, fns: map[*ssa.Function]bool{}}
	if x != nil {
		for k, v := range x.sub {
			n.sub[k] = v
		}
		for k, v := range x.subT {
			n.subT[k] = v
		}
		for k, v := range x.inl {
			n.inl[k] = v
		}
		for k, v := range x.fns {
			n.fns[k] = v
		}
	}
	return n
}

// pureExpr: a helper that only computes a value from its arguments (no stores, no calls).
func pureExpr(sc *ssa.Function) bool {
	for _, b := range sc.Blocks {
		for _, ins := range b.Instrs {
			switch x := ins.(type) {
			case *ssa.Store:
				// a parameter spilled to a local of the function (value receivers whose address is taken) is
				// not an effect
				if al, ok := x.Addr.(*ssa.Alloc); ok && !al.Heap {
					if _, isParam := x.Val.(*ssa.Parameter); isParam {
						continue
					}
				}
				return false
			case *ssa.MapUpdate, *ssa.Send, *ssa.Go, *ssa.Defer:
				return false
			case *ssa.Call:
				if bi, ok := x.Call.Value.(*ssa.Builtin); !ok || (bi.Name() != "len" && bi.Name() != "cap") {
					return false
				}
			}
		}
	}
	return true
}

func inlinable(sc *ssa.Function) bool {
	if sc == nil || inlineHelper == nil || len(sc.Blocks) == 0 || !inlineHelper(sc) {
		return false
	}
	for _, b := range sc.Blocks {
		for _, s := range b.Succs {
			if s.Dominates(b) {
				return false // loops stay opaque
			}
		}
		for _, ins := range b.Instrs {
			switch ins.(type) {
			case *ssa.Defer, *ssa.Go, *ssa.Panic, *ssa.RunDefers:
				return false
			}
		}
	}
	return true
}

// enumPaths enumerates paths starting at block start (entered from prev, may
// be nil). Paths end at Return, Panic, a block in stop, or a back edge.
func enumPaths(start, prev *ssa.BasicBlock, stop map[*ssa.BasicBlock]bool, limit int) ([]*DPath, error) {
	pe := &pathEnum{stop: stop, limit: limit}
	pe.walk(start, prev, nil, nil, map[*ssa.Phi]ssa.Value{}, map[*ssa.BasicBlock]bool{}, nil)
	return pe.out, pe.err
}

func copyPhi(m map[*ssa.Phi]ssa.Value) map[*ssa.Phi]ssa.Value {
	n := make(map[*ssa.Phi]ssa.Value, len(m)+2)
	for k, v := range m {
		n[k] = v
	}
	return n
}

func (pe *pathEnum) leaf(kind string, blocks []*ssa.BasicBlock, conds []PathCond, phi map[*ssa.Phi]ssa.Value, ret *ssa.Return, target *ssa.BasicBlock, x *inlState) {
	if len(pe.out) >= pe.limit {
		pe.err = fmt.Errorf("more than %d paths", pe.limit)
		return
	}
	env := newTermEnv()
	env.Phi = phi
	d := &DPath{Conds: append([]PathCond{}, conds...), Blocks: append([]*ssa.BasicBlock{}, blocks...), Env: env, EndKind: kind, Ret: ret, Target: target}
	if x != nil {
		env.Sub = x.sub
		env.SubT = x.subT
		d.Inl = x.inl
	}
	pe.out = append(pe.out, d)
}

func (pe *pathEnum) walk(b, prev *ssa.BasicBlock, blocks []*ssa.BasicBlock, conds []PathCond, phi map[*ssa.Phi]ssa.Value, onPath map[*ssa.BasicBlock]bool, x *inlState) {
	if pe.err != nil {
		return
	}
	if len(blocks) > 0 && pe.stop[b] {
		pe.leaf("stop", blocks, conds, phi, nil, b, x)
		return
	}
	if onPath[b] {
		pe.leaf("loop", blocks, conds, phi, nil, b, x)
		return
	}
	phi = copyPhi(phi)
	if prev != nil {
		idx := -1
		for i, p := range b.Preds {
			if p == prev {
				idx = i
			}
		}
		for _, in := range b.Instrs {
			ph, ok := in.(*ssa.Phi)
			if !ok {
				break
			}
			if idx >= 0 {
				// resolve through already chosen phis
				v := ph.Edges[idx]
				if p2, ok := v.(*ssa.Phi); ok {
					if ch, ok := phi[p2]; ok {
						v = ch
					}
				}
				phi[ph] = v
			}
		}
	}
	onPath[b] = true
	defer func() { onPath[b] = false }()
	blocks = append(blocks, b)
	pe.inlineFrom(b, 0, blocks, conds, phi, onPath, x)
}

// inlineFrom takes apart the helper calls of block b from instruction i on (one alternative per
// callee path), then continues with the block's terminator.
func (pe *pathEnum) inlineFrom(b *ssa.BasicBlock, i int, blocks []*ssa.BasicBlock, conds []PathCond, phi map[*ssa.Phi]ssa.Value, onPath map[*ssa.BasicBlock]bool, x *inlState) {
	if inlineHelper != nil && pe.depth < 3 {
		for ; i < len(b.Instrs); i++ {
			call, ok := b.Instrs[i].(*ssa.Call)
			if !ok {
				continue
			}
			sc := call.Call.StaticCallee()
			if !inlinable(sc) || sc == b.Parent() {
				continue
			}
			if x != nil && x.fns[sc] && !pureExpr(sc) {
				continue // a helper with effects is taken apart once per path (its values are bound once)
			}
			sub := &pathEnum{limit: 64, depth: pe.depth + 1}
			sub.walk(sc.Blocks[0], nil, nil, nil, map[*ssa.Phi]ssa.Value{}, map[*ssa.BasicBlock]bool{}, nil)
			if sub.err != nil {
				continue // too many paths: the call stays opaque
			}
			for _, cp := range sub.out {
				if cp.EndKind != "return" {
					sub.err = fmt.Errorf("helper path does not return")
				}
			}
			if sub.err != nil {
				continue
			}
			for _, cp := range sub.out {
				nx := x.clone()
				nx.fns[sc] = true
				nx.inl[call] = cp
				for k, v := range cp.Env.Sub {
					nx.sub[k] = v
				}
				for k, v := range cp.Inl {
					nx.inl[k] = v
				}
				for pi, p := range sc.Params {
					if pi < len(call.Call.Args) {
						nx.sub[p] = call.Call.Args[pi]
					}
				}
				nphi := copyPhi(phi)
				for k, v := range cp.Env.Phi {
					nphi[k] = v
				}
				// results
				if cp.Ret != nil {
					if len(cp.Ret.Results) == 1 {
						nx.sub[call] = cp.Ret.Results[0]
					} else if call.Referrers() != nil {
						for _, r := range *call.Referrers() {
							if ex, ok := r.(*ssa.Extract); ok && ex.Index < len(cp.Ret.Results) {
								nx.sub[ex] = cp.Ret.Results[ex.Index]
							}
						}
					}
				}
				// the callee's branch conditions, over the caller's values
				env := newTermEnv()
				env.Phi = nphi
				env.Sub = nx.sub
				env.SubT = nx.subT
				// the results as terms, fixed now (a later call of the same helper rebinds its parameters)
				if cp.Ret != nil {
					if len(cp.Ret.Results) == 1 {
						nx.subT[call] = env.Term(cp.Ret.Results[0])
						if os.Getenv("VERIF_DEBUG") == "ifs" {
							fmt.Fprintf(os.Stderr, "INL %s -> %s  via %s  (callee conds: %s)\n", sc.Name(), shorten(nx.subT[call].String(), 60), cp.Ret.Results[0].Name(), shorten(cp.CondString(), 200))
						}
					} else if call.Referrers() != nil {
						for _, r := range *call.Referrers() {
							if ex, ok := r.(*ssa.Extract); ok && ex.Index < len(cp.Ret.Results) {
								nx.subT[ex] = env.Term(cp.Ret.Results[ex.Index])
							}
						}
					}
				}
				nconds := conds[:len(conds):len(conds)]
				dead := false
				for _, pc := range cp.Conds {
					if pc.At == nil {
						continue
					}
					ct := foldCond(env.Term(pc.At.Cond))
					truth := cp.truthOf(pc.At)
					if ct.K == "const" && ct.C != nil && ct.C.Kind() == constant.Bool {
						if constant.BoolVal(ct.C) != truth {
							dead = true
						}
						continue
					}
					for ct.K == "un" && ct.Op == token.NOT {
						ct = ct.Args[0]
						truth = !truth
					}
					nconds = append(nconds, PathCond{ct, truth, pc.At})
				}
				if dead {
					continue
				}
				pe.inlineFrom(b, i+1, blocks, nconds, nphi, onPath, nx)
			}
			return
		}
	}
	env := newTermEnv()
	env.Phi = phi
	if x != nil {
		env.Sub = x.sub
		env.SubT = x.subT
	}
	last := b.Instrs[len(b.Instrs)-1]
	switch t := last.(type) {
	case *ssa.Return:
		pe.leaf("return", blocks, conds, phi, t, nil, x)
	case *ssa.Panic:
		pe.leaf("panic", blocks, conds, phi, nil, nil, x)
	case *ssa.Jump:
		pe.walk(b.Succs[0], b, blocks, conds, phi, onPath, x)
	case *ssa.If:
		ct := foldCond(env.Term(t.Cond))
		if os.Getenv("VERIF_DEBUG") == "ifs" {
			fmt.Fprintf(os.Stderr, "IF %s b%d: %s   [%d conds]\n", b.Parent().Name(), b.Index, shorten(ct.String(), 100), len(conds))
		}
		if ct.K == "const" && ct.C != nil && ct.C.Kind() == constant.Bool {
			if constant.BoolVal(ct.C) {
				pe.walk(b.Succs[0], b, blocks, conds, phi, onPath, x)
			} else {
				pe.walk(b.Succs[1], b, blocks, conds, phi, onPath, x)
			}
			return
		}
		neg := false
		for ct.K == "un" && ct.Op == token.NOT {
			ct = ct.Args[0]
			neg = !neg
		}
		pe.walk(b.Succs[0], b, blocks, append(conds[:len(conds):len(conds)], PathCond{ct, !neg, t}), phi, onPath, x)
		pe.walk(b.Succs[1], b, blocks, append(conds[:len(conds):len(conds)], PathCond{ct, neg, t}), phi, onPath, x)
	default:
		pe.err = fmt.Errorf("unexpected block terminator %T", last)
	}
}

// foldCond: a condition that became closed once helper results were substituted (nil != nil after a
// helper's success return was taken, 3 > 2) is the constant it evaluates to.
func foldCond(t *T) *T {
	if t.K == "bin" && (t.Op == token.EQL || t.Op == token.NEQ) && len(t.Args) == 2 {
		a, b := t.Args[0], t.Args[1]
		if a.K == "const" && b.K == "const" && a.C == nil && b.C == nil {
			return &T{K: "const", C: constant.MakeBool(t.Op == token.EQL), Typ: types.Typ[types.Bool]}
		}
	}
	if t.K == "bin" || t.K == "un" {
		closed := true
		var walk func(x *T)
		walk = func(x *T) {
			switch x.K {
			case "const":
				if x.C == nil {
					closed = false
				}
			case "bin", "un", "conv":
				for _, a := range x.Args {
					walk(a)
				}
			default:
				closed = false
			}
		}
		walk(t)
		if closed && isBoolType(t.Typ) {
			if v, ok := evalTerm(t, map[string]*big.Int{}); ok {
				return &T{K: "const", C: constant.MakeBool(v.Sign() != 0), Typ: types.Typ[types.Bool]}
			}
		}
	}
	return t
}

// truthOf: truthAt, looking into the helper paths spliced into this one for a branch of a helper's helper.
func (d *DPath) truthOf(iff *ssa.If) bool {
	b := iff.Block()
	for _, pb := range d.Blocks {
		if pb == b {
			return d.truthAt(iff)
		}
	}
	for _, in := range d.Inl {
		if in == nil || in == d {
			continue
		}
		for _, pb := range in.Blocks {
			if pb == b {
				return in.truthAt(iff)
			}
		}
	}
	for _, in := range d.Inl {
		if in != nil && in != d && len(in.Inl) > 0 {
			for _, pb := range in.allBlocks(0) {
				if pb == b {
					return in.truthOf(iff)
				}
			}
		}
	}
	return d.truthAt(iff)
}

func (d *DPath) allBlocks(depth int) []*ssa.BasicBlock {
	out := append([]*ssa.BasicBlock{}, d.Blocks...)
	if depth < 3 {
		for _, in := range d.Inl {
			if in != nil && in != d {
				out = append(out, in.allBlocks(depth+1)...)
			}
		}
	}
	return out
}

// truthAt: which way the path went at a branch (true = first successor).
func (d *DPath) truthAt(iff *ssa.If) bool {
	b := iff.Block()
	for i, pb := range d.Blocks {
		if pb == b && i+1 < len(d.Blocks) {
			return d.Blocks[i+1] == b.Succs[0]
		}
		if pb == b && i+1 == len(d.Blocks) && d.Target != nil {
			return d.Target == b.Succs[0]
		}
	}
	return true
}

// baseTerms collects the non-constant leaves of the condition terms.
func baseTerms(t *T, out map[string]*T) {
	switch t.K {
	case "const":
		return
	case "bin":
		baseTerms(t.Args[0], out)
		baseTerms(t.Args[1], out)
		return
	case "conv", "un":
		baseTerms(t.Args[0], out)
		return
	case "ite":
		for _, a := range t.Args {
			baseTerms(a, out)
		}
		return
	case "index":
		// a lookup in a constant table depends on its key only
		if len(t.Args) == 2 && tableOfTerm(t.Args[0]) != nil {
			baseTerms(t.Args[1], out)
			return
		}
	case "extract":
		if len(t.Args) == 1 && t.Args[0].K == "index" && len(t.Args[0].Args) == 2 && tableOfTerm(t.Args[0].Args[0]) != nil {
			baseTerms(t.Args[0].Args[1], out)
			return
		}
	}
	out[t.String()] = t
}

// tableKeys adds the keys of every constant table looked up inside t.
func tableKeys(t *T, out map[string]*big.Int) {
	if t == nil {
		return
	}
	if t.K == "index" && len(t.Args) == 2 {
		if tab := tableOfTerm(t.Args[0]); tab != nil {
			for _, v := range tab.keys() {
				out[v.String()] = v
			}
		}
	}
	for _, a := range t.Args {
		tableKeys(a, out)
	}
}

// tableAsg: while scalarTable asks a leaf function to describe a path, the representative the row is
// built for (leaves that read a constant lookup table depend on it).
var tableAsg map[string]*big.Int

func collectConsts(t *T, out map[string]*big.Int) {
	if t.K == "const" {
		if v, ok := constValInt(t.C); ok {
			out[v.String()] = v
		}
		return
	}
	if t.K == "index" && len(t.Args) == 2 {
		// the listed keys of a constant table are decision points like compared constants
		if tab := tableOfTerm(t.Args[0]); tab != nil {
			for _, v := range tab.keys() {
				out[v.String()] = v
			}
		}
	}
	for _, a := range t.Args {
		collectConsts(a, out)
	}
}

// Partition builds representatives for a scalar of type typ given the constants
// it is compared with: type min/max, and c-1, c, c+1 for every constant.
func representatives(typ types.Type, consts map[string]*big.Int) []*big.Int {
	lo, hi, ok := intTypeRange(typ)
	if !ok {
		lo, hi = big.NewInt(-1<<62), big.NewInt(1<<62)
	}
	set := map[string]*big.Int{lo.String(): lo, hi.String(): hi}
	for _, c := range consts {
		for d := int64(-1); d <= 1; d++ {
			v := new(big.Int).Add(c, big.NewInt(d))
			if v.Cmp(lo) >= 0 && v.Cmp(hi) <= 0 {
				set[v.String()] = v
			}
		}
	}
	var out []*big.Int
	for _, v := range set {
		out = append(out, v)
	}
	sort.Slice(out, func(i, j int) bool { return out[i].Cmp(out[j]) < 0 })
	return out
}

// pathHolds folds the path's conditions under the assignment.
func pathHolds(d *DPath, asg map[string]*big.Int) (bool, error) {
	for _, c := range d.Conds {
		v, ok := evalTerm(c.Cond, asg)
		if !ok {
			// a condition that cannot be folded over the table's terms alone (error checks,
			// comparisons with other quantities) does not restrict the table: the path stays
			// possible; if that makes two different leaves possible the table is ambiguous
			// and the caller reports it
			continue
		}
		_ = fmt.Errorf
		if false {
			return false, fmt.Errorf("condition %s is not a comparison over the table's terms", c.Cond)
		}
		if (v.Sign() != 0) != c.Truth {
			return false, nil
		}
	}
	return true, nil
}

// scalarTable: for a loop-free function whose conditions mention exactly one
// base term (after substituting aliases), returns representative -> leaf.
type tableRow struct {
	Rep  *big.Int
	Leaf string
}

func scalarTable(paths []*DPath, base string, typ types.Type, extraConsts []*big.Int, leaf func(*DPath) string) ([]tableRow, error) {
	consts := map[string]*big.Int{}
	for _, p := range paths {
		for _, c := range p.Conds {
			collectConsts(c.Cond, consts)
		}
		// a result read from a constant table: its keys are decision points as well
		if p.Ret != nil {
			for _, r := range p.Ret.Results {
				tableKeys(p.Env.Term(r), consts)
			}
		}
	}
	for _, c := range extraConsts {
		consts[c.String()] = c
	}
	var rows []tableRow
	for _, rep := range representatives(typ, consts) {
		asg := map[string]*big.Int{base: rep}
		tableAsg = asg
		defer func() { tableAsg = nil }()
		var hit []*DPath
		for _, p := range paths {
			ok, err := pathHolds(p, asg)
			if err != nil {
				return nil, err
			}
			if ok {
				hit = append(hit, p)
			}
		}
		l := ""
		for _, h := range hit {
			hl := leaf(h)
			if hl == "" {
				continue // excluded path (e.g. error return)
			}
			if l != "" && hl != l {
				return nil, fmt.Errorf("ambiguous paths for %s=%s: %q vs %q", base, rep, l, hl)
			}
			l = hl
		}
		if l == "" {
			return nil, fmt.Errorf("no path for %s=%s", base, rep)
		}
		rows = append(rows, tableRow{rep, l})
	}
	return rows, nil
}

// compress turns rows into "lo..hi:leaf" interval strings.
func compressRows(rows []tableRow) []string {
	var out []string
	for i := 0; i < len(rows); {
		j := i
		for j+1 < len(rows) && rows[j+1].Leaf == rows[i].Leaf {
			j++
		}
		out = append(out, fmt.Sprintf("[%s..%s]=%s", rows[i].Rep, rows[j].Rep, rows[i].Leaf))
		i = j + 1
	}
	return out
}

// specTable evaluates a specification function on the same representatives.
func specRows(rows []tableRow, spec func(*big.Int) string) []tableRow {
	var out []tableRow
	for _, r := range rows {
		out = append(out, tableRow{r.Rep, spec(r.Rep)})
	}
	return out
}

func rowsEqual(a, b []tableRow) (bool, string) {
	if len(a) != len(b) {
		return false, "different representative sets"
	}
	for i := range a {
		if a[i].Rep.Cmp(b[i].Rep) != 0 {
			return false, "different representative sets"
		}
		if a[i].Leaf != b[i].Leaf {
			return false, fmt.Sprintf("at %s: code gives %q, specification gives %q", a[i].Rep, a[i].Leaf, b[i].Leaf)
		}
	}
	return true, ""
}

// pathInstrs lists the instructions along a path in order.
func pathInstrs(d *DPath) []ssa.Instruction {
	var out []ssa.Instruction
	for _, b := range d.Blocks {
		if len(d.Inl) == 0 {
			out = append(out, b.Instrs...)
			continue
		}
		for _, ins := range b.Instrs {
			if call, ok := ins.(*ssa.Call); ok {
				if cp, ok := d.Inl[call]; ok {
					// the helper's own instructions on the path taken through it, in place of the call
					sub := &DPath{Blocks: cp.Blocks, Inl: d.Inl}
					for _, si := range pathInstrs(sub) {
						switch si.(type) {
						case *ssa.Return, *ssa.If, *ssa.Jump:
						default:
							out = append(out, si)
						}
					}
					continue
				}
			}
			out = append(out, ins)
		}
	}
	return out
}

// fnView: the instructions of a function together with those of the helpers outside the baseline
// list that it calls at exactly one site (a part of the function a later change moved out), and a
// term environment in which a helper's parameters stand for the arguments and its call for the
// values it returns. For rules that look for constructs anywhere in a function (flow-insensitive).
type fnView struct {
	Instrs []ssa.Instruction
	Env    *TermEnv
	Blocks []*ssa.BasicBlock
}

func viewOf(fn *ssa.Function) *fnView {
	v := &fnView{Env: newTermEnv()}
	v.Env.Sub = map[ssa.Value]ssa.Value{}
	var add func(f *ssa.Function, depth int)
	add = func(f *ssa.Function, depth int) {
		// call sites per callee
		sites := map[*ssa.Function][]*ssa.Call{}
		for _, b := range f.Blocks {
			v.Blocks = append(v.Blocks, b)
			for _, ins := range b.Instrs {
				v.Instrs = append(v.Instrs, ins)
				if call, ok := ins.(*ssa.Call); ok {
					if sc := call.Call.StaticCallee(); sc != nil {
						sites[sc] = append(sites[sc], call)
					}
				}
			}
		}
		if depth >= 2 || inlineHelper == nil {
			return
		}
		for sc, calls := range sites {
			if len(calls) != 1 || sc == fn || sc == f || len(sc.Blocks) == 0 || !inlineHelper(sc) {
				continue
			}
			call := calls[0]
			for i, p := range sc.Params {
				if i < len(call.Call.Args) {
					v.Env.Sub[p] = call.Call.Args[i]
				}
			}
			var rets []*ssa.Return
			for _, b := range sc.Blocks {
				if r, ok := b.Instrs[len(b.Instrs)-1].(*ssa.Return); ok {
					// returns that only report an error hand nothing on
					if n := len(r.Results); n >= 2 && isErrorType(r.Results[n-1].Type()) && (returnKinds(r.Results[n-1]) == 2 || zeroResultsWithError(r)) {
						continue
					}
					rets = append(rets, r)
				}
			}
			if len(rets) == 1 {
				if len(rets[0].Results) == 1 {
					v.Env.Sub[call] = rets[0].Results[0]
				} else if call.Referrers() != nil {
					for _, r := range *call.Referrers() {
						if ex, ok := r.(*ssa.Extract); ok && ex.Index < len(rets[0].Results) {
							v.Env.Sub[ex] = rets[0].Results[ex.Index]
						}
					}
				}
			}
			add(sc, depth+1)
		}
	}
	add(fn, 0)
	return v
}

// attributedTo: the baseline functions an instruction of fn belongs to for who-may-do rules: fn
// itself when it is in the baseline list, else (a helper extracted by a later change) the
// functions its callers are attributed to.
func attributedTo(p *Prog, fn *ssa.Function) []*ssa.Function {
	seen := map[*ssa.Function]bool{}
	var out []*ssa.Function
	var walk func(f *ssa.Function, depth int)
	walk = func(f *ssa.Function, depth int) {
		if f == nil || seen[f] || depth > 4 {
			return
		}
		seen[f] = true
		if inlineHelper == nil || !inlineHelper(f) {
			out = append(out, f)
			return
		}
		node := p.CG().Nodes[f]
		n := 0
		if node != nil {
			for _, e := range node.In {
				if inScope(pkgPathOf(e.Caller.Func)) {
					n++
					walk(e.Caller.Func, depth+1)
				}
			}
		}
		if n == 0 {
			out = append(out, f)
		}
	}
	walk(fn, 0)
	return out
}

// zeroResultsWithError: a return whose error result is not the constant nil and whose other results are all
// zero-value constants: it hands nothing on but the error.
func zeroResultsWithError(r *ssa.Return) bool {
	n := len(r.Results)
	if k, ok := r.Results[n-1].(*ssa.Const); ok && k.Value == nil {
		return false
	}
	for _, v := range r.Results[:n-1] {
		k, ok := v.(*ssa.Const)
		if !ok {
			return false
		}
		if k.Value != nil {
			switch k.Value.Kind() {
			case constant.String:
				if constant.StringVal(k.Value) != "" {
					return false
				}
			case constant.Bool:
				if constant.BoolVal(k.Value) {
					return false
				}
			default:
				if constant.Sign(k.Value) != 0 {
					return false
				}
			}
		}
	}
	return true
}
