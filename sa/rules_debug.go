package main

// C19 rules: debugging is non-intrusive.
//   O-fresh  snapshots handed to callbacks share no stack memory with the running thread
//   S-arg    every Debugger callback receives the direct result of StateHandler.State()
//   T-sig    Debugger methods return nothing (no value flows back into the interpreter)
//   S-nobr   no branch of the interpreter depends on the debugger / state-handler identity
//   S-order  lifecycle order of the hook calls, as sets of projected call sequences per path
//   S-fan    debug.NewDebugger's fan-out: each callback runs exactly the functions attached to it

import (
	"fmt"
	"go/token"
	"go/types"
	"sort"
	"strings"
	"unicode"

	"golang.org/x/tools/go/ssa"
)

const interpPkg = modPath + "/bscript/interpreter"

func interpNamed(c *Ctx, name string) types.Type {
	pk := c.P.Pkgs[interpPkg]
	if pk == nil {
		return nil
	}
	obj := pk.Types.Scope().Lookup(name)
	if obj == nil {
		return nil
	}
	return obj.Type()
}

var snapshotStackFields = []string{"DataStack", "AltStack", "ElseStack", "CondStack", "SavedFirstStack"}

func ruleOFreshState(c *Ctx) {
	e := oEngine(c)
	oCommon(c, e, "O-fresh")
	sh := interpNamed(c, "StateHandler")
	if sh == nil {
		c.Undecided("O-fresh", "StateHandler", token.NoPos, "interface not found")
		return
	}
	iface := sh.Underlying().(*types.Interface)
	n := 0
	for _, pk := range c.P.ScopePkgs() {
		sc := pk.Types.Scope()
		for _, name := range sc.Names() {
			tn, ok := sc.Lookup(name).(*types.TypeName)
			if !ok || tn.IsAlias() {
				continue
			}
			if _, isI := tn.Type().Underlying().(*types.Interface); isI {
				continue
			}
			pt := types.NewPointer(tn.Type())
			if !types.Implements(pt, iface) && !types.Implements(tn.Type(), iface) {
				continue
			}
			sel := c.P.SSA.MethodSets.MethodSet(pt).Lookup(pk.Types, "State")
			if sel == nil {
				continue
			}
			fn := c.P.SSA.MethodValue(sel)
			if fn == nil || len(fn.Blocks) == 0 {
				continue
			}
			n++
			label := funcName(fn)
			sum := e.Sums[fn]
			if sum == nil {
				c.Undecided("O-fresh", label, fn.Pos(), "no ownership summary")
				continue
			}
			// (1) the snapshot object itself is new
			nonFresh := []string{}
			for ap := range sum.Results[0] {
				if !strings.HasPrefix(ap, "FRESH|") {
					nonFresh = append(nonFresh, ap)
				}
			}
			sort.Strings(nonFresh)
			c.Check(len(nonFresh) == 0, "O-fresh", label+"/result", fn.Pos(), "State() returns a newly allocated snapshot", fmt.Sprintf("State() may return memory that is not allocated by the call: %v", nonFresh))
			// (2) nothing under the stack fields refers to memory that existed before the call
			for _, f := range snapshotStackFields {
				var bad []string
				for rel, hs := range sum.ResultHeap[0] {
					if rel == "."+f || strings.HasPrefix(rel, "."+f+"[") || strings.HasPrefix(rel, "."+f+".") {
						for _, h := range hs.sorted() {
							if !strings.HasPrefix(h, "FRESH|") {
								bad = append(bad, rel+" <- "+shortRoot(h))
							}
						}
					}
				}
				sort.Strings(bad)
				c.Check(len(bad) == 0, "O-fresh", label+"/"+f, fn.Pos(), "every element stored under State."+f+" is allocated inside State()",
					fmt.Sprintf("the snapshot's %s shares memory with the running thread (%s): a callback that changes the snapshot changes the execution", f, strings.Join(bad, "; ")))
			}
			// (3) taking a snapshot does not write the thread
			rulePureParam(c, "O-fresh", strings.TrimPrefix(pk.PkgPath, modPath+"/"), "*"+name, "State", 0, nil)
			// informational: what does alias
			for rel, hs := range sum.ResultHeap[0] {
				isStack := false
				for _, f := range snapshotStackFields {
					if strings.HasPrefix(rel, "."+f) {
						isStack = true
					}
				}
				if !isStack {
					for _, h := range hs.sorted() {
						if !strings.HasPrefix(h, "FRESH|") {
							c.InfoNote("O-fresh", label+"/info/"+rel, fn.Pos(), "outside the property's 'stack data': snapshot path "+rel+" refers to "+shortRoot(h)+" (parsed opcodes' Data slices are shared with the running script)")
						}
					}
				}
			}
		}
	}
	c.MinInstances("O-fresh", n, 2)
}

// debuggerCallSites: invoke-mode calls on the interpreter.Debugger interface inside the interpreter package.
func debuggerCallSites(c *Ctx) (sites []*ssa.Call, owners []*ssa.Function) {
	dbg := interpNamed(c, "Debugger")
	for _, fn := range pkgFunctions(c.P, interpPkg) {
		for _, b := range fn.Blocks {
			for _, ins := range b.Instrs {
				call, ok := ins.(*ssa.Call)
				if !ok || !call.Call.IsInvoke() {
					continue
				}
				if types.Identical(call.Call.Value.Type(), dbg) {
					sites = append(sites, call)
					owners = append(owners, fn)
				}
			}
		}
	}
	return
}

func ruleSDebugArg(c *Ctx) {
	sh := interpNamed(c, "StateHandler")
	sites, owners := debuggerCallSites(c)
	for i, call := range sites {
		fn := owners[i]
		m := call.Call.Method.Name()
		key := funcName(fn) + "->" + m
		ok := false
		if len(call.Call.Args) >= 1 {
			if sc, isC := call.Call.Args[0].(*ssa.Call); isC {
				if sc.Call.IsInvoke() && sc.Call.Method.Name() == "State" && types.Identical(sc.Call.Value.Type(), sh) {
					ok = true
				}
				if st := sc.Call.StaticCallee(); st != nil && st.Name() == "State" && st.Signature.Recv() != nil && types.Implements(st.Signature.Recv().Type(), sh.Underlying().(*types.Interface)) {
					ok = true
				}
			}
		}
		c.Check(ok, "S-arg", key, call.Pos(), "the callback receives the result of a State() call made for it", "Debugger."+m+" is passed something other than a fresh State() result: the callback could reach live interpreter memory")
		// wrapper naming: hook wrapper x calls Debugger.X
		want := strings.ToUpper(fn.Name()[:1]) + fn.Name()[1:]
		c.Check(want == m, "S-arg", key+"/name", call.Pos(), "hook wrapper "+fn.Name()+" forwards to the like-named callback", "hook wrapper "+fn.Name()+" calls Debugger."+m+": a different lifecycle event is reported")
		// the wrapper does nothing else: one block, no stores
		simple := len(fn.Blocks) == 1
		ncalls := 0
		for _, ins := range fn.Blocks[0].Instrs {
			switch ins.(type) {
			case *ssa.Store, *ssa.Defer, *ssa.Go:
				simple = false
			case *ssa.Call:
				ncalls++
			}
		}
		if ncalls != 2 {
			simple = false // exactly: take the snapshot, call the callback
		}
		c.Check(simple, "S-arg", key+"/wrapper-only", fn.Pos(), "the hook wrapper only takes a snapshot and forwards it", "hook wrapper "+fn.Name()+" has control flow or stores of its own")
	}
	c.MinInstances("S-arg", len(sites), 14)
	// T-sig
	if dbg := interpNamed(c, "Debugger"); dbg != nil {
		it := dbg.Underlying().(*types.Interface)
		for i := 0; i < it.NumMethods(); i++ {
			m := it.Method(i)
			sig := m.Type().(*types.Signature)
			c.Check(sig.Results().Len() == 0, "T-sig", "Debugger."+m.Name(), m.Pos(), "callback returns nothing", "Debugger."+m.Name()+" returns a value: the interpreter could act on what a debugger answers")
		}
		c.MinInstances("T-sig", it.NumMethods(), 14)
	}
}

// ruleSNoBranch: the interpreter never compares or type-switches on its debugger or state handler
// (the only test is the nil default in apply).
func ruleSNoBranch(c *Ctx) {
	dbg, sh := interpNamed(c, "Debugger"), interpNamed(c, "StateHandler")
	isHook := func(t types.Type) bool { return types.Identical(t, dbg) || types.Identical(t, sh) }
	n, allowed := 0, 0
	for _, fn := range pkgFunctions(c.P, interpPkg) {
		for _, b := range fn.Blocks {
			for _, ins := range b.Instrs {
				var pos token.Pos
				what := ""
				switch x := ins.(type) {
				case *ssa.BinOp:
					if (x.Op == token.EQL || x.Op == token.NEQ) && (isHook(x.X.Type()) || isHook(x.Y.Type())) {
						pos, what = x.Pos(), "comparison"
					}
				case *ssa.TypeAssert:
					if isHook(x.X.Type()) {
						pos, what = x.Pos(), "type assertion"
					}
				}
				if what == "" {
					continue
				}
				n++
				// the nil default: comparison with nil in apply, on the option value
				if bo, ok := ins.(*ssa.BinOp); ok && fn.Name() == "apply" {
					if k, ok := bo.Y.(*ssa.Const); ok && k.Value == nil {
						allowed++
						c.OK("S-nobr", "apply/nil-default", pos, "the only test on the debugger: nil selects the no-op debugger")
						// what is control dependent on that test may only install the no-op hooks
						if bo.Referrers() != nil {
							for _, r := range *bo.Referrers() {
								iff, isIf := r.(*ssa.If)
								if !isIf {
									continue
								}
								for _, succ := range iff.Block().Succs {
									if len(succ.Preds) != 1 {
										continue // the join: reached either way
									}
									for _, rb := range fn.Blocks {
										if !succ.Dominates(rb) {
											continue
										}
										for _, ri := range rb.Instrs {
											okIns := false
											switch y := ri.(type) {
											case *ssa.Alloc:
												tn := namedOf(y.Type())
												okIns = tn == "nopDebugger" || tn == "nopStateHandler"
											case *ssa.MakeInterface, *ssa.FieldAddr, *ssa.Jump, *ssa.DebugRef:
												okIns = true
											case *ssa.Store:
												if fa, isFa := y.Addr.(*ssa.FieldAddr); isFa {
													f := fieldName(fa.X.Type(), fa.Field)
													okIns = isHook(y.Val.Type()) && (f == "debugger" || f == "state")
												}
											}
											if !okIns {
												c.Fail("S-nobr", "apply/nil-default/region", ri.Pos(), "apply does more than install the no-op debugger and state handler depending on whether a debugger is attached: the thread is configured differently with a debugger")
											}
										}
									}
								}
							}
						}
						continue
					}
				}
				c.Fail("S-nobr", funcName(fn)+"/"+what, pos, funcName(fn)+" branches on the identity of the debugger or state handler ("+what+"): execution can differ when a debugger is attached")
			}
		}
	}
	c.Covered["S-nobr:tests_on_hook_values"] = n
	c.MinInstances("S-nobr", allowed, 1)
	// the hook fields are written only while the thread is set up
	for _, fn := range pkgFunctions(c.P, interpPkg) {
		for _, b := range fn.Blocks {
			for _, ins := range b.Instrs {
				st, ok := ins.(*ssa.Store)
				if !ok {
					continue
				}
				fa, ok := st.Addr.(*ssa.FieldAddr)
				if !ok || !isHook(st.Val.Type()) {
					continue
				}
				if tn := namedOf(fa.X.Type()); tn != "thread" && tn != "stack" {
					continue // option structs carry the user's choice before the thread exists
				}
				owner := fn.Name()
				okOwner := owner == "apply" || owner == "SetState" || owner == "newStack" || owner == "setStack"
				c.Check(okOwner, "S-nobr", "hook-field-store/"+funcName(fn)+"/"+fieldName(fa.X.Type(), fa.Field), st.Pos(), "debugger/state-handler fields are installed during set-up", funcName(fn)+" replaces a debugger or state-handler field during execution")
			}
		}
	}
}

// projectedPaths: for every acyclic path of fn, the sequence of interesting events.
func projectedPaths(fn *ssa.Function, event func(ssa.Instruction) string) (map[string]bool, error) {
	paths, err := enumPaths(fn.Blocks[0], nil, nil, 20000)
	if err != nil {
		return nil, err
	}
	out := map[string]bool{}
	for _, d := range paths {
		var ev []string
		for _, ins := range pathInstrs(d) {
			if s := event(ins); s != "" {
				ev = append(ev, s)
			}
		}
		end := d.EndKind
		if d.EndKind == "return" && d.Ret != nil && len(d.Ret.Results) > 0 && isErrorType(d.Ret.Results[len(d.Ret.Results)-1].Type()) {
			// nil (constant, or tested nil on the path), or some error
			if returnDesc(d) == "return nil" {
				end = "return nil"
			} else {
				end = "return err"
			}
		}
		if end == "loop" && len(ev) == 0 {
			continue // a loop that contains no event of interest
		}
		ev = append(ev, end)
		out[strings.Join(ev, "; ")] = true
	}
	return out, nil
}

func callEvent(names map[string]bool, recvStores bool, fn *ssa.Function) func(ssa.Instruction) string {
	return func(ins ssa.Instruction) string {
		switch x := ins.(type) {
		case *ssa.Call:
			if sc := x.Call.StaticCallee(); sc != nil && names[sc.Name()] {
				return sc.Name()
			}
			// inside a bracketed operation nothing else may fire callbacks: a call that reaches another
			// lifecycle hook (a pop while the script changes) puts that hook's events between the two
			if sc := x.Call.StaticCallee(); sc != nil && recvStores && reachesLifecycleHook(sc, map[*ssa.Function]bool{}) {
				return "fires callbacks through " + sc.Name()
			}
		case *ssa.Defer:
			if sc := x.Call.StaticCallee(); sc != nil && names[sc.Name()] {
				return "defer " + sc.Name()
			}
		case *ssa.Store:
			if recvStores {
				if fa, ok := x.Addr.(*ssa.FieldAddr); ok && len(fn.Params) > 0 && fa.X == ssa.Value(fn.Params[0]) {
					return "store"
				}
			}
		}
		return ""
	}
}

func setOf(ss ...string) map[string]bool {
	m := map[string]bool{}
	for _, s := range ss {
		m[s] = true
	}
	return m
}

func keysSorted(m map[string]bool) []string {
	var o []string
	for k := range m {
		o = append(o, k)
	}
	sort.Strings(o)
	return o
}

// collapse "store; store; store" into "store+"
func collapseStores(m map[string]bool) map[string]bool {
	out := map[string]bool{}
	for k := range m {
		parts := strings.Split(k, "; ")
		var np []string
		for _, p := range parts {
			if p == "store" && len(np) > 0 && np[len(np)-1] == "store+" {
				continue
			}
			if p == "store" {
				p = "store+"
			}
			np = append(np, p)
		}
		out[strings.Join(np, "; ")] = true
	}
	return out
}

func ruleSOrder(c *Ctx) {
	type spec struct {
		recv, name string
		anon       int // index of the anonymous function inside, -1 for the function itself
		names      []string
		stores     bool
		want       []string
		why        string
	}
	specs := []spec{
		{"*thread", "execute", 0, []string{"beforeExecute", "afterExecute", "beforeStep", "Step", "afterStep"}, false,
			[]string{
				"defer afterExecute; beforeExecute; beforeStep; Step; return err",
				"defer afterExecute; beforeExecute; beforeStep; Step; afterStep; return nil",
				"defer afterExecute; beforeExecute; beforeStep; Step; afterStep; loop",
			}, "BeforeExecute, then per step BeforeStep, the step, AfterStep (skipped only when the step fails), AfterExecute deferred"},
		{"*thread", "execute", -1, []string{"CheckErrorCondition"}, false,
			[]string{"return err", "CheckErrorCondition; return err"}, "the final stack check runs only after the step loop ended without error"},
		{"*thread", "shiftScript", -1, []string{"beforeScriptChange", "afterScriptChange"}, true,
			[]string{"defer afterScriptChange; beforeScriptChange; store+; return"}, "script change is bracketed by its two callbacks"},
		{"*stack", "PushByteArray", -1, []string{"beforeStackPush", "afterStackPush"}, true,
			[]string{"defer afterStackPush; beforeStackPush; store+; return"}, "a push is bracketed by its two callbacks"},
		{"*stack", "PopByteArray", -1, []string{"beforeStackPop", "afterStackPop", "nipN"}, false,
			[]string{"beforeStackPop; nipN; return err", "beforeStackPop; nipN; afterStackPop; return nil"}, "a pop is bracketed by its two callbacks; AfterStackPop only when an item was removed"},
		{"*engine", "Execute", -1, []string{"createThread", "execute", "afterError"}, false,
			[]string{"createThread; return err", "createThread; execute; afterError; return err", "createThread; execute; return nil"}, "AfterError exactly on the failing execution"},
	}
	for _, s := range specs {
		fn := c.P.Func("bscript/interpreter", s.recv, s.name)
		key := strings.TrimPrefix(s.recv, "*") + "." + s.name
		if fn != nil && s.anon >= 0 {
			// the step loop: written as a function literal inside execute, or moved into a helper of
			// its own (a function outside the baseline list that execute calls); found by what it calls
			var cands []*ssa.Function
			cands = append(cands, fn.AnonFuncs...)
			for _, b := range fn.Blocks {
				for _, ins := range b.Instrs {
					if call, ok := ins.(*ssa.Call); ok {
						if sc := call.Call.StaticCallee(); sc != nil && inlineHelper != nil && inlineHelper(sc) && len(sc.Blocks) > 0 {
							cands = append(cands, sc)
						}
					}
				}
			}
			fn = nil
			for _, cf := range cands {
				for _, b := range cf.Blocks {
					for _, ins := range b.Instrs {
						if call, ok := ins.(*ssa.Call); ok {
							if sc := call.Call.StaticCallee(); sc != nil && sc.Name() == "Step" {
								fn = cf
							}
						}
					}
				}
			}
			key += "$1"
		}
		if fn == nil {
			c.Undecided("S-order", key, token.NoPos, "function not found")
			continue
		}
		got, err := projectedPaths(fn, callEvent(setOf(s.names...), s.stores, fn))
		if err != nil {
			c.Undecided("S-order", key, fn.Pos(), err.Error())
			continue
		}
		if s.stores {
			got = collapseStores(got)
		}
		want := setOf(s.want...)
		same := len(got) == len(want)
		for k := range got {
			if !want[k] {
				same = false
			}
		}
		c.Check(same, "S-order", key, fn.Pos(), s.why+": "+strings.Join(keysSorted(got), " | "),
			fmt.Sprintf("lifecycle order changed in %s: paths are {%s}, documented order requires {%s}", key, strings.Join(keysSorted(got), " | "), strings.Join(s.want, " | ")))
	}
	// Step: BeforeExecuteOpcode precedes the opcode, AfterExecuteOpcode follows a successful one
	if fn := c.P.Func("bscript/interpreter", "*thread", "Step"); fn != nil {
		got, err := projectedPaths(fn, callEvent(setOf("beforeExecuteOpcode", "executeOpcode", "afterExecuteOpcode", "shiftScript"), false, fn))
		if err != nil {
			c.Undecided("S-order", "thread.Step", fn.Pos(), err.Error())
		} else {
			okAll := true
			var bad []string
			for k := range got {
				parts := strings.Split(k, "; ")
				ev := parts[:len(parts)-1]
				seq := strings.Join(ev, "; ")
				end := parts[len(parts)-1]
				valid := false
				switch {
				case seq == "" && end == "return err": // invalid program counter
					valid = true
				case seq == "beforeExecuteOpcode; executeOpcode" && end == "return err":
					valid = true
				case seq == "beforeExecuteOpcode; executeOpcode; shiftScript" && end == "return nil": // early return after genesis
					valid = true
				case strings.HasPrefix(seq, "beforeExecuteOpcode; executeOpcode; afterExecuteOpcode"):
					rest := strings.TrimPrefix(seq, "beforeExecuteOpcode; executeOpcode; afterExecuteOpcode")
					valid = rest == "" || rest == "; shiftScript" || rest == "; shiftScript; shiftScript"
				}
				if !valid {
					okAll = false
					bad = append(bad, k)
				}
			}
			sort.Strings(bad)
			c.Covered["S-order:Step_path_shapes"] = len(got)
			c.Check(okAll, "S-order", "thread.Step", fn.Pos(), fmt.Sprintf("all %d projected path shapes are: [validPC error] | BeforeExecuteOpcode, opcode, (error | early return + script change | AfterExecuteOpcode, then script changes)", len(got)),
				"lifecycle order changed in Step: unexpected path shapes "+strings.Join(bad, " | "))
		}
	} else {
		c.Undecided("S-order", "thread.Step", token.NoPos, "function not found")
	}
	// S-who: callbacks with a single legitimate origin
	who := map[string][]string{
		"afterSuccess":        {"(*bscript/interpreter.thread).CheckErrorCondition"},
		"afterError":          {"(*bscript/interpreter.engine).Execute"},
		"beforeExecute":       {"(*bscript/interpreter.thread).execute"},
		"afterExecute":        {"(*bscript/interpreter.thread).execute"},
		"beforeStep":          {"(*bscript/interpreter.thread).execute"},
		"afterStep":           {"(*bscript/interpreter.thread).execute"},
		"beforeScriptChange":  {"(*bscript/interpreter.thread).shiftScript"},
		"afterScriptChange":   {"(*bscript/interpreter.thread).shiftScript"},
		"beforeStackPush":     {"(*bscript/interpreter.stack).PushByteArray"},
		"afterStackPush":      {"(*bscript/interpreter.stack).PushByteArray"},
		"beforeStackPop":      {"(*bscript/interpreter.stack).PopByteArray"},
		"afterStackPop":       {"(*bscript/interpreter.stack).PopByteArray"},
		"beforeExecuteOpcode": {"(*bscript/interpreter.thread).Step"},
		"afterExecuteOpcode":  {"(*bscript/interpreter.thread).Step"},
	}
	callers := map[string]map[string]bool{}
	for _, fn := range pkgFunctions(c.P, interpPkg) {
		for _, b := range fn.Blocks {
			for _, ins := range b.Instrs {
				var cc *ssa.CallCommon
				switch x := ins.(type) {
				case *ssa.Call:
					cc = &x.Call
				case *ssa.Defer:
					cc = &x.Call
				case *ssa.Go:
					cc = &x.Call
				}
				if cc == nil {
					continue
				}
				if sc := cc.StaticCallee(); sc != nil {
					if _, ok := who[sc.Name()]; ok && sc.Signature.Recv() != nil {
						if callers[sc.Name()] == nil {
							callers[sc.Name()] = map[string]bool{}
						}
						// by enclosing named baseline function: a function literal counts as its parent, a
						// helper outside the baseline list as the functions that call it
						for _, af := range attributedTo(c.P, fn) {
							for af.Parent() != nil {
								af = af.Parent()
							}
							callers[sc.Name()][funcName(af)] = true
						}
					}
				}
			}
		}
	}
	for h, want := range who {
		got := keysSorted(callers[h])
		c.Check(strings.Join(got, ",") == strings.Join(want, ","), "S-order", "who/"+h, token.NoPos, h+" is called only from "+strings.Join(want, ","),
			fmt.Sprintf("%s is called from %v, lifecycle allows only %v", h, got, want))
	}
	// AfterSuccess exactly on the successful *final* check
	if fn := c.P.Func("bscript/interpreter", "*thread", "CheckErrorCondition"); fn != nil {
		paths, err := feasiblePaths(fn, 5000)
		if err != nil {
			c.Undecided("S-order", "thread.CheckErrorCondition", fn.Pos(), err.Error())
		} else {
			ok := true
			why := ""
			n := 0
			for _, d := range paths {
				has := false
				for _, ins := range pathInstrs(d) {
					if call, isC := ins.(*ssa.Call); isC {
						if sc := call.Call.StaticCallee(); sc != nil && sc.Name() == "afterSuccess" {
							has = true
						}
					}
				}
				final, known := false, false
				for _, pc := range d.Conds {
					if pc.Cond.V == ssa.Value(fn.Params[1]) {
						final, known = pc.Truth, true
					}
				}
				rd := returnDesc(d)
				if has {
					n++
					if rd != "return nil" || !known || !final {
						ok, why = false, "AfterSuccess fires on a path that is not the successful final check ("+rd+", finalScript tested true: "+fmt.Sprint(known && final)+")"
					}
				} else if rd == "return nil" && (!known || final) {
					ok, why = false, "a successful final check returns without AfterSuccess"
				}
			}
			if n == 0 {
				ok, why = false, "AfterSuccess is never called"
			}
			c.Check(ok, "S-order", "thread.CheckErrorCondition", fn.Pos(), "AfterSuccess fires exactly on the paths that return nil with finalScript true", why)
		}
	}
}

// ruleSFan: debug.NewDebugger — each callback ranges over exactly the slice its Attach method appends to.
func ruleSFan(c *Ctx) {
	dbgPkg := "bscript/interpreter/debug"
	dbg := interpNamed(c, "Debugger")
	if dbg == nil {
		c.Undecided("S-fan", "Debugger", token.NoPos, "interface not found")
		return
	}
	it := dbg.Underlying().(*types.Interface)
	fieldsRead := func(fn *ssa.Function) (fields []string, calls int, argsOK bool) {
		argsOK = true
		seen := map[string]bool{}
		view := viewOf(fn) // with a shared "run every function of this list" helper read as part of the method
		{
			for _, ins := range view.Instrs {
				switch x := ins.(type) {
				case *ssa.FieldAddr:
					if x.X == ssa.Value(fn.Params[0]) {
						f := fieldName(x.X.Type(), x.Field)
						if !seen[f] {
							seen[f] = true
							fields = append(fields, f)
						}
					}
				case *ssa.Call:
					if _, isB := x.Call.Value.(*ssa.Builtin); isB {
						continue
					}
					if x.Call.StaticCallee() == nil && !x.Call.IsInvoke() {
						calls++
						// arguments are the method's own parameters, in order
						if len(x.Call.Args) != len(fn.Params)-1 {
							argsOK = false
						}
						for i, a := range x.Call.Args {
							if i+1 < len(fn.Params) && view.Env.Val(a) != ssa.Value(fn.Params[i+1]) {
								argsOK = false
							}
						}
					}
				}
			}
		}
		return
	}
	n := 0
	for i := 0; i < it.NumMethods(); i++ {
		m := it.Method(i).Name()
		fn := c.P.Func(dbgPkg, "*debugger", m)
		at := c.P.Func(dbgPkg, "*debugger", "Attach"+m)
		if fn == nil || at == nil {
			c.Undecided("S-fan", m, token.NoPos, "callback or its Attach method not found on debug.debugger")
			continue
		}
		n++
		rf, calls, argsOK := fieldsRead(fn)
		// Attach: the field appended to
		var wf []string
		appendOK := true
		for _, b := range at.Blocks {
			for _, ins := range b.Instrs {
				if st, ok := ins.(*ssa.Store); ok {
					if fa, ok := st.Addr.(*ssa.FieldAddr); ok && fa.X == ssa.Value(at.Params[0]) {
						f := fieldName(fa.X.Type(), fa.Field)
						wf = append(wf, f)
						// the stored value is append(<same field>, fn)
						call, isCall := st.Val.(*ssa.Call)
						src := ""
						if isCall {
							if bi, isB := call.Call.Value.(*ssa.Builtin); isB && bi.Name() == "append" {
								if ld, isLd := call.Call.Args[0].(*ssa.UnOp); isLd {
									if fa2, isFa := ld.X.(*ssa.FieldAddr); isFa && fa2.X == ssa.Value(at.Params[0]) {
										src = fieldName(fa2.X.Type(), fa2.Field)
									}
								}
								vals := appendedValues(call)
								if len(vals) != 1 || vals[0] != ssa.Value(at.Params[1]) {
									appendOK = false
								}
							}
						}
						if src != f {
							appendOK = false
						}
					}
				}
			}
		}
		c.Check(appendOK, "S-fan", "Attach"+m+"/appends-to-own-list", at.Pos(), "Attach"+m+" stores append(<its own list>, fn)", "Attach"+m+" does not append the given function to the list it stores: earlier attachments are dropped or another event's handlers are copied in")
		ok := len(rf) == 1 && len(wf) == 1 && rf[0] == wf[0] && calls == 1 && argsOK
		c.Check(ok, "S-fan", m, fn.Pos(), fmt.Sprintf("%s runs the functions of %v, Attach%s appends to %v, arguments passed through unchanged", m, rf, m, wf),
			fmt.Sprintf("%s runs the functions of %v but Attach%s appends to %v (calls=%d, arguments passed through=%v): attached functions fire on a different event or not at all", m, rf, m, wf, calls, argsOK))
		// name agreement between method and field
		if len(rf) == 1 {
			r := []rune(m)
			r[0] = unicode.ToLower(r[0])
			c.Check(rf[0] == string(r)+"Fns", "S-fan", m+"/field-name", fn.Pos(), "field name follows the method name", fmt.Sprintf("%s uses field %s", m, rf[0]))
		}
	}
	c.MinInstances("S-fan", n, 14)
	// NewDebugger: every attachment list is its own slice (or left nil)
	if nd := c.P.Func(dbgPkg, "", "NewDebugger"); nd != nil {
		backing := map[ssa.Value][]string{}
		for _, b := range nd.Blocks {
			for _, ins := range b.Instrs {
				st, ok := ins.(*ssa.Store)
				if !ok {
					continue
				}
				fa, ok := st.Addr.(*ssa.FieldAddr)
				if !ok || namedOf(fa.X.Type()) != "debugger" {
					continue
				}
				v := st.Val
				if sl, isSl := v.(*ssa.Slice); isSl {
					v = sl.X
				}
				if k, isK := v.(*ssa.Const); isK && k.Value == nil {
					continue
				}
				backing[v] = append(backing[v], fieldName(fa.X.Type(), fa.Field))
			}
		}
		var shared []string
		for _, fs := range backing {
			if len(fs) > 1 {
				sort.Strings(fs)
				shared = append(shared, strings.Join(fs, "+"))
			}
		}
		sort.Strings(shared)
		c.Check(len(shared) == 0, "S-fan", "NewDebugger/separate-lists", nd.Pos(), "each attachment list starts as its own slice", "NewDebugger initialises several attachment lists with one shared backing array ("+strings.Join(shared, "; ")+"): attaching to one event overwrites the handlers of another")
	}
}

func namedOf(t types.Type) string {
	if p, ok := t.Underlying().(*types.Pointer); ok {
		t = p.Elem()
	}
	if n, ok := t.(*types.Named); ok {
		return n.Obj().Name()
	}
	return ""
}

// S-copy (C19): the snapshot holds the values, not just room for them. In thread.State every buffer sized by
// the length of a live value - make(T, len(x)) - is then filled from that same value: a copy(dst, x) whose
// destination is the buffer (directly or read back from where it was stored) follows the make.
func ruleSCopyState(c *Ctx) {
	fn := c.P.Func("bscript/interpreter", "*thread", "State")
	if fn == nil {
		c.Undecided("S-copy", "thread.State", token.NoPos, "not found")
		return
	}
	// State and the helpers a later change split it into (functions not in the baseline list)
	fns := []*ssa.Function{fn}
	seen := map[*ssa.Function]bool{fn: true}
	for i := 0; i < len(fns) && i < 20; i++ {
		for _, b := range fns[i].Blocks {
			for _, ins := range b.Instrs {
				if call, ok := ins.(*ssa.Call); ok {
					if sc := call.Call.StaticCallee(); sc != nil && !seen[sc] && inlineHelper != nil && inlineHelper(sc) && len(sc.Blocks) > 0 {
						seen[sc] = true
						fns = append(fns, sc)
					}
				}
			}
		}
	}
	n := 0
	for _, f := range fns {
		n += sCopyIn(c, f)
	}
	c.MinInstances("S-copy", n, 1)
}

func sCopyIn(c *Ctx, fn *ssa.Function) int {
	env := newTermEnv()
	type cp struct {
		call     *ssa.Call
		dst, src string
	}
	var copies []cp
	byAppend := 0
	for _, b := range fn.Blocks {
		for _, ins := range b.Instrs {
			call, ok := ins.(*ssa.Call)
			if !ok {
				continue
			}
			if bi, ok := call.Call.Value.(*ssa.Builtin); ok && bi.Name() == "copy" && len(call.Call.Args) == 2 {
				copies = append(copies, cp{call, canonTerm(env.Term(call.Call.Args[0])), canonTerm(env.Term(call.Call.Args[1]))})
			}
			// append(<empty list>, x...): a copy that needs no separate fill
			if bi, ok := call.Call.Value.(*ssa.Builtin); ok && bi.Name() == "append" && len(call.Call.Args) == 2 {
				if l := newWEval(theProg, fn).eval(call.Call.Args[0]); l != nil && l.String() == seqOf().String() {
					byAppend++
					c.OK("S-copy", strings.TrimPrefix(funcName(fn), "(*bscript/interpreter.thread).")+"/append/"+canonTerm(env.Term(call.Call.Args[1])), call.Pos(), "copied by appending to an empty list")
				}
			}
		}
	}
	n := 0
	for _, b := range fn.Blocks {
		for _, ins := range b.Instrs {
			mk, ok := ins.(*ssa.MakeSlice)
			if !ok {
				continue
			}
			ln, ok := mk.Len.(*ssa.Call)
			if !ok || !isLenCall(ln) {
				continue
			}
			if st, ok := mk.Type().Underlying().(*types.Slice); ok {
				if _, nested := st.Elem().Underlying().(*types.Slice); nested {
					continue // a list of buffers: its elements are the buffers looked at here
				}
			}
			src := canonTerm(env.Term(ln.Call.Args[0]))
			n++
			// what the buffer is called afterwards: itself, or the place it was stored to
			names := map[string]bool{canonTerm(env.Term(mk)): true}
			if mk.Referrers() != nil {
				for _, r := range *mk.Referrers() {
					if st, ok := r.(*ssa.Store); ok && st.Val == ssa.Value(mk) {
						names[strings.TrimPrefix(canonTerm(env.Term(st.Addr)), "&")] = true
					}
				}
			}
			filled := false
			for _, cc := range copies {
				if cc.src == src && names[cc.dst] && (mk.Block() == cc.call.Block() || mk.Block().Dominates(cc.call.Block())) {
					filled = true
				}
			}
			key := strings.TrimPrefix(funcName(fn), "(*bscript/interpreter.thread).") + "/" + src
			c.Check(filled, "S-copy", key, mk.Pos(), "the buffer sized by len("+src+") is filled by copy(..., "+src+")",
				"the snapshot allocates room for "+src+" but never copies it in: the debugger sees zero bytes instead of the live value")
		}
	}
	return n + byAppend
}

var lifecycleHooks = setOf("afterSuccess", "afterError", "beforeExecute", "afterExecute", "beforeStep", "afterStep", "beforeScriptChange", "afterScriptChange",
	"beforeStackPush", "afterStackPush", "beforeStackPop", "afterStackPop", "beforeExecuteOpcode", "afterExecuteOpcode")

// reachesLifecycleHook: fn is, or statically calls (transitively, inside the interpreter package), one of the
// methods that hand control to an attached debugger.
func reachesLifecycleHook(fn *ssa.Function, seen map[*ssa.Function]bool) bool {
	if fn == nil || seen[fn] || len(fn.Blocks) == 0 || fn.Pkg == nil || !strings.HasSuffix(fn.Pkg.Pkg.Path(), "bscript/interpreter") {
		return false
	}
	seen[fn] = true
	if lifecycleHooks[fn.Name()] && fn.Signature.Recv() != nil {
		return true
	}
	for _, b := range fn.Blocks {
		for _, ins := range b.Instrs {
			var cc *ssa.CallCommon
			switch x := ins.(type) {
			case *ssa.Call:
				cc = &x.Call
			case *ssa.Defer:
				cc = &x.Call
			}
			if cc == nil {
				continue
			}
			if sc := cc.StaticCallee(); sc != nil && reachesLifecycleHook(sc, seen) {
				return true
			}
		}
	}
	return false
}
