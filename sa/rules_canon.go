package main

// S-canon (C13/C06): which opcodes removeOpcodeByData drops, as a decision table over (opcode byte,
// length of the opcode's data, first data byte, "data contains the signature"). An opcode is dropped
// exactly when it is a canonical push (the smallest push instruction for its data, non-push opcodes
// counting as canonical) whose data contains the bytes to remove. The canonical-push test may live in
// its own helper or inside the loop: the helper is read as part of the loop body.

import (
	"fmt"
	"go/token"
	"math/big"
	"strings"

	"golang.org/x/tools/go/ssa"
)

func ruleSCanon(c *Ctx) {
	fn := c.P.Func("bscript/interpreter", "ParsedScript", "removeOpcodeByData")
	if fn == nil {
		c.Undecided("S-canon", "removeOpcodeByData", token.NoPos, "not found")
		return
	}
	var header *ssa.BasicBlock
	for _, b := range fn.Blocks {
		if isLoopHeader(b) && (header == nil || b.Dominates(header)) {
			header = b
		}
	}
	if header == nil {
		c.Undecided("S-canon", "removeOpcodeByData", fn.Pos(), "no loop over the opcodes found")
		return
	}
	// the canonical-push helper is part of the iteration whatever the baseline says
	saved := inlineHelper
	inlineHelper = func(f *ssa.Function) bool {
		return f.Name() == "canonicalPush" || (saved != nil && saved(f))
	}
	paths, err := enumPaths(header.Succs[0], header, map[*ssa.BasicBlock]bool{header: true}, 20000)
	inlineHelper = saved
	if err != nil {
		c.Undecided("S-canon", "removeOpcodeByData", fn.Pos(), err.Error())
		return
	}
	// base terms: opcode value, data length, first data byte, the Contains call
	var opK, lenK, d0K, containsK string
	for _, d := range paths {
		for _, pc := range d.Conds {
			bases := map[string]*T{}
			baseTerms(pc.Cond, bases)
			for k, t := range bases {
				switch {
				case strings.HasSuffix(k, ".op.val"):
					opK = k
				case strings.HasPrefix(k, "len(") && strings.HasSuffix(k, ".Data)"):
					lenK = k
				case strings.HasSuffix(k, ".Data[0]"):
					d0K = k
				case t.K == "call" && strings.HasPrefix(t.Name, "bytes.Contains"):
					containsK = k
				case t.K == "phi" && isBoolType(t.Typ):
					// a named boolean computed on the path: resolved by the path's own choices
				default:
					c.Undecided("S-canon", "removeOpcodeByData", fn.Pos(), "the removal decides on "+k+", outside (opcode, data length, first data byte, data contains the signature)")
					return
				}
			}
		}
	}
	if opK == "" || lenK == "" || containsK == "" {
		c.Undecided("S-canon", "removeOpcodeByData", fn.Pos(), fmt.Sprintf("the removal does not test the opcode (%q), the data length (%q) and whether the data contains the signature (%q)", opK, lenK, containsK))
		return
	}
	kept := func(d *DPath) bool {
		for _, ins := range pathInstrs(d) {
			if call, ok := ins.(*ssa.Call); ok {
				if b, isB := call.Call.Value.(*ssa.Builtin); isB && b.Name() == "append" {
					return true
				}
			}
		}
		return false
	}
	bad := ""
	cells := 0
	for _, op := range []int64{0x00, 0x01, 0x4b, 0x4c, 0x4d, 0x4e, 0x4f, 0x51, 0x60, 0x61, 0xac} {
		for _, ln := range []int64{0, 1, 2, 75, 76, 255, 256, 65535, 65536} {
			for _, d0 := range []int64{0, 1, 16, 17, 0x81} {
				for _, contains := range []int64{0, 1} {
					asg := map[string]*big.Int{opK: big.NewInt(op), lenK: big.NewInt(ln), containsK: big.NewInt(contains)}
					if d0K != "" {
						asg[d0K] = big.NewInt(d0)
					}
					hits, isKept := 0, false
					for _, d := range paths {
						if d.EndKind != "stop" {
							continue
						}
						holds := true
						for _, pc := range d.Conds {
							v, ok := evalTerm(pc.Cond, asg)
							if !ok {
								// a boolean merged on this very path (named condition): its value is the path's choice
								if pc.Cond.K == "phi" || pc.Cond.K == "const" {
									continue
								}
								c.Undecided("S-canon", "removeOpcodeByData", fn.Pos(), "condition outside the table: "+atomName(pc.Cond))
								return
							}
							if (v.Sign() != 0) != pc.Truth {
								holds = false
							}
						}
						if holds {
							hits++
							isKept = kept(d)
						}
					}
					canonical := true
					if op <= 0x60 {
						switch {
						case op >= 1 && op <= 0x4b && ln == 1 && d0 <= 16:
							canonical = false
						case op == 0x4c && ln < 76:
							canonical = false
						case op == 0x4d && ln <= 0xff:
							canonical = false
						case op == 0x4e && ln <= 0xffff:
							canonical = false
						}
					}
					want := !(canonical && contains == 1)
					cells++
					if (hits != 1 || isKept != want) && bad == "" {
						bad = fmt.Sprintf("opcode 0x%02x with %d data byte(s) (first 0x%02x), data contains the signature: %v -> kept=%v (paths holding: %d), specified kept=%v", op, ln, d0, contains == 1, isKept, hits, want)
					}
				}
			}
		}
	}
	c.Covered["S-canon:cells"] = cells
	c.Check(bad == "", "S-canon", "removeOpcodeByData", fn.Pos(), fmt.Sprintf("an opcode is dropped exactly when it is a canonical push whose data contains the signature (%d cells)", cells),
		"removeOpcodeByData: "+bad)
}
