package main

func init() {
	register("C05",
		"Static necessary conditions for interpreter conformance: the opcode dispatch table is total and self-consistent (T-op1..5), name tables are inverse (T-nm), era limits equal the BSV table (T-cfg), predicate sets agree with the handlers bound in the table (T-op4). Opcode result values are NOT decided.",
		nil,
		rule{name: "T-op1", run: ruleTOp},
		rule{name: "T-op5", run: ruleTOpHandlers},
		rule{name: "T-op4", run: ruleTOp4},
		rule{name: "T-nm", run: ruleTNm},
		rule{name: "T-cfg", run: ruleTCfg},
	)
}
