package main

func init() {
	register("C05",
		"Static necessary conditions for interpreter conformance: the opcode dispatch table is total and self-consistent (T-op1..5), name tables are inverse (T-nm), era limits equal the BSV table (T-cfg), predicate sets agree with the handlers bound in the table (T-op4). Opcode result values are NOT decided.",
		nil,
		rule{name: "T-op1", run: ruleTOp},
		rule{name: "T-op5", run: ruleTOpHandlers},
		rule{name: "T-op4", run: ruleTOp4},
		rule{name: "T-nm", run: ruleTNm},
		rule{name: "T-cfg", run: ruleTCfg},
		rule{name: "CONV", run: ruleConv},
		rule{name: "S-bigint", run: ruleSBigInt},
		rule{name: "G-cond", run: ruleGCond},
		rule{name: "T-flagdead", run: ruleTFlagDead},
		rule{name: "S-stackfx", run: ruleSStackFx},
		rule{name: "T-truth", run: ruleTTruth},
		rule{name: "T-arith", run: ruleTArith},
		rule{name: "T-hash", run: ruleTHash}, rule{name: "T-shift", run: ruleTShift}, rule{name: "T-nop", run: ruleTNop}, rule{name: "T-min", run: ruleTMin}, rule{name: "T-pushonly", run: ruleTPushOnly}, rule{name: "T-end", run: ruleTEnd},
	)
	register("C18",
		"Lock discipline of the documented thread-safe types decided for every schedule by a lockset analysis (L-fee: every read/write of FeeQuotes.quotes, FeeQuote.fees, FeeQuote.expiryTime happens with the struct's RWMutex held in a sufficient mode; L-pair: acquire/release kinds pair on every path; L-order: acquisition order acyclic; L-escape: no guarded map handed out by reference). Verdict equality of concurrent vs sequential Execute is decided only through its structural cause: O-glob shows no function reachable from Engine.Execute writes package-level state.",
		[]string{"races inside go-bk / the standard library are out of scope"},
		rule{name: "L-fee", run: ruleLockset},
		rule{name: "O-glob", run: ruleOGlob},
	)
	register("C08",
		"Decides the aliasing clause structurally: O-immut shows no store/copy/append/external write reaches any byte slice derived from a stack item (Pop/Peek/nipN results, stack.stk elements) or from ParsedOpcode.Data (which aliases the caller's script); O-pure shows the transitive write summary of Engine.Execute touches caller-owned memory only at tx.Inputs[i].PreviousTxScript/PreviousTxSatoshis (the documented exception). Both quantify over every script and flag set because they are may-write facts of the code, not runs.",
		[]string{"WithState is excluded (documented as unstable)", "user-supplied Debugger implementations are outside the property"},
		rule{name: "O-immut", run: ruleOImmut},
		rule{name: "O-pure", run: ruleOPureExecute},
	)
	register("C07",
		"P-exec: every partial operation reachable from Engine.Execute is guarded on every path.",
		nil,
		rule{name: "T-op1", run: ruleTOp},
		rule{name: "T-gate", run: ruleTGate},
		rule{name: "P-nilsrc", run: ruleNilSrc},
		rule{name: "S-reset", run: ruleSReset},
		rule{name: "S-sub", run: ruleSSubGrid},
		rule{name: "S-clonelen", run: ruleSCloneLen},
		rule{name: "G-eff", run: ruleGEffLegacy},
		rule{name: "P-exec", run: rulePExec},
		rule{name: "TERM", run: ruleTermExec},
		rule{name: "S-own", run: ruleSOwn},
	)
	register("C09", "P-dec", nil, rule{name: "P-dec", run: rulePDec}, rule{name: "ACC", run: ruleACC}, rule{name: "L-fresh", run: ruleLFresh},
		rule{name: "E-use", run: func(c *Ctx) { ruleEUse(c, decodeEntries, 30) }})
	register("C14", "P-insp", nil, rule{name: "P-insp", run: rulePInsp}, rule{name: "T-tmpl", run: ruleTTmplScripts})
	register("C16", "P-json", nil, rule{name: "P-json", run: rulePJSON}, rule{name: "FLOAT", run: ruleFloat}, rule{name: "T-dto", run: ruleTDto}, rule{name: "T-dto", run: ruleTDtoOnce}, rule{name: "L-fresh", run: ruleLFresh})
	register("C13", "T-push T-nm", nil, rule{name: "P-codec", run: rulePCodec}, rule{name: "T-push", run: ruleTPush}, rule{name: "T-nm", run: ruleTNm}, rule{name: "T-op1", run: ruleTOp}, rule{name: "ACC-parse", run: ruleACCParse}, rule{name: "T-asm", run: ruleTAsm}, rule{name: "S-canon", run: ruleSCanon}, rule{name: "W-enc", run: ruleWEnc}, rule{name: "W-opb", run: ruleWOpBytes})
	register("C01", "W-tx T-vi ACC", nil, rule{name: "W-tx", run: ruleWTx}, rule{name: "W-rd", run: ruleWRd}, rule{name: "T-vi", run: ruleTVi}, rule{name: "ACC", run: ruleACC})
	register("C17", "T-fmt S-disp", nil, rule{name: "T-fmt", run: ruleTFmt}, rule{name: "S-disp", run: ruleSDisp})
	register("C15", "S-chk T-ver", nil, rule{name: "S-chk", run: ruleSChk}, rule{name: "T-ver", run: ruleTVer}, rule{name: "T-tmpl", run: func(c *Ctx) { ruleTTmplOnly(c, map[string]bool{"IsP2PKH": true}) }}, rule{name: "S-carry", run: ruleSCarry}, rule{name: "W-addr", run: ruleWAddr})
	register("C19", "O-fresh S-arg S-nobr S-order S-fan", nil, rule{name: "O-fresh", run: ruleOFreshState}, rule{name: "S-arg", run: ruleSDebugArg}, rule{name: "S-nobr", run: ruleSNoBranch}, rule{name: "S-order", run: ruleSOrder}, rule{name: "S-fan", run: ruleSFan},
		// "attaching a debugger never changes the verdict": taking the snapshot itself cannot fail
		rule{name: "P-snap", run: func(c *Ctx) {
			configureInterpP(c)
			runP(c, "P-snap", []entrySpec{{"bscript/interpreter", "*thread", "State"}}, 1, 10)
		}})
	register("C12", "S-fund G-map O-pure", nil, rule{name: "S-fund", run: ruleSFund}, rule{name: "G-map", run: ruleGMapFromUTXOs}, rule{name: "G-lin", run: ruleGDeficit}, rule{name: "G-sum", run: ruleGSum},
		// "stops when covered" is decided by estimateDeficit: the size it measures, the fee formula it prices it
		// with and the split into standard and data bytes
		rule{name: "G-size", run: ruleGSize}, rule{name: "G-fee", run: ruleGFee}, rule{name: "P-est", run: rulePEst},
		rule{name: "T-tmpl", run: func(c *Ctx) {
			ruleTTmplOnly(c, map[string]bool{"IsData": true, "IsP2PKH": true, "IsP2PKHInscription": true})
		}})
	register("C11", "G-size G-fee G-pred P-est T-tmpl G-sum", nil, rule{name: "G-size", run: ruleGSize}, rule{name: "G-fee", run: ruleGFee}, rule{name: "G-fee", run: ruleGQuote}, rule{name: "G-pred", run: ruleGPred}, rule{name: "P-est", run: rulePEst}, rule{name: "G-clone", run: ruleGClone}, rule{name: "G-sum", run: ruleGSum}, rule{name: "T-tmpl", run: func(c *Ctx) {
		ruleTTmplOnly(c, map[string]bool{"IsData": true, "IsP2PKH": true, "IsP2PKHInscription": true})
	}})
	register("C10", "G-chg S-chg O-pure G-sum G-size T-vi", nil, rule{name: "G-chg", run: ruleGChg}, rule{name: "S-chg", run: ruleSChgWrappers}, rule{name: "G-sum", run: ruleGSum}, rule{name: "G-size", run: ruleGSize}, rule{name: "P-est", run: rulePEst}, rule{name: "T-vi", run: func(c *Ctx) { ruleTViOnly(c, map[string]bool{"Length": true, "UpperLimitInc": true}) }},
		// what the fee of the change computation is priced with: the floor formula of feesPaid and the split of the
		// bytes into standard and data by Script.IsData
		rule{name: "G-fee", run: ruleGFee}, rule{name: "T-tmpl", run: func(c *Ctx) { ruleTTmplOnly(c, map[string]bool{"IsData": true}) }})
	register("C06", "T-enc G-legacy S-sub S-enc S-false S-nullf", nil, rule{name: "T-enc", run: ruleTEnc}, rule{name: "G-legacy", run: ruleGLegacy}, rule{name: "S-sub", run: ruleSSub}, rule{name: "S-enc", run: ruleSEncOrder}, rule{name: "S-multi", run: ruleSMulti}, rule{name: "S-reset", run: ruleSReset}, rule{name: "G-clone", run: ruleGClone}, rule{name: "S-canon", run: ruleSCanon}, rule{name: "T-der", run: ruleTDer},
		// the script code a signature is checked against is Unparse(Parse(script)[after the last separator]): the
		// tokeniser's table and byte accounting, and the bytes an opcode is written back as
		rule{name: "T-op1", run: ruleTOp}, rule{name: "ACC-parse", run: ruleACCParse}, rule{name: "W-opb", run: ruleWOpBytes})
	register("C04", "S-flag W-unlock S-fill S-digest S-apply T-shf", nil, rule{name: "S-flag", run: ruleSFlag}, rule{name: "S-digest", run: ruleSDigest}, rule{name: "S-apply", run: ruleSApply}, rule{name: "T-shf", run: ruleTShf}, rule{name: "S-sub", run: ruleSSub}, rule{name: "T-enc", run: ruleTEnc}, rule{name: "G-clone", run: ruleGClone},
		// "commit to exactly what their hash type says under the digest algorithm in force": the two digest
		// algorithms themselves (decided as for C02 / C03)
		rule{name: "W-sig", run: ruleWSig}, rule{name: "W-leg", run: ruleWLeg}, rule{name: "G-eff", run: ruleGEffLegacy},
		// what both sides of "sign, then verify" are built with: the var-int writer of the preimages, and the
		// tokeniser / writer pair that turns the locking script into the script code
		rule{name: "T-vi", run: func(c *Ctx) { ruleTViOnly(c, map[string]bool{"Bytes": true}) }},
		rule{name: "T-op1", run: ruleTOp}, rule{name: "ACC-parse", run: ruleACCParse}, rule{name: "W-opb", run: ruleWOpBytes})
	register("C20", "G-idx G-fifo S-fee W-insc O-insc T-rt", nil, rule{name: "G-idx", run: ruleGIdx}, rule{name: "S-fee", run: ruleSFeeAfter}, rule{name: "W-insc", run: ruleWInsc}, rule{name: "O-insc", run: ruleOInsc}, rule{name: "T-rt", run: ruleTRt},
		// what the flows are built with: the fee formula behind Validate / IsFeePaidEnough, the push prefixes the
		// inscription is written with, and the recogniser that reads it back
		rule{name: "G-fee", run: ruleGFee}, rule{name: "T-push", run: ruleTPush},
		rule{name: "T-tmpl", run: func(c *Ctx) { ruleTTmplOnly(c, map[string]bool{"IsP2PKHInscription": true}) }})
	register("C02", "W-sig", nil, rule{name: "W-sig", run: ruleWSig}, rule{name: "S-err", run: func(c *Ctx) { ruleSErrPreimage(c, "CalcInputPreimage") }}, rule{name: "O-pure", run: func(c *Ctx) { ruleOPureSighashFor(c, true) }},
		// what the preimage is built with: the var-int writer behind every length prefix, and "an error, not a panic"
		// for an input that does not exist (the accessors the guards rely on)
		rule{name: "T-vi", run: func(c *Ctx) { ruleTViOnly(c, map[string]bool{"Bytes": true}) }},
		rule{name: "P-sig", run: func(c *Ctx) {
			runP(c, "P-sig", []entrySpec{{"", "*Tx", "CalcInputPreimage"}}, 5, 10)
		}})
	register("C03", "W-leg", nil, rule{name: "W-leg", run: ruleWLeg}, rule{name: "G-eff", run: ruleGEffLegacy}, rule{name: "S-dig", run: func(c *Ctx) {
		if sh := c.P.Func("", "*Tx", "CalcInputSignatureHash"); sh != nil {
			digestRule(c, sh)
		}
	}}, rule{name: "S-err", run: func(c *Ctx) { ruleSErrPreimage(c, "CalcInputPreimageLegacy") }}, rule{name: "O-pure", run: func(c *Ctx) { ruleOPureSighashFor(c, false) }}, rule{name: "G-clone", run: ruleGClone},
		// what the legacy preimage is built with: the var-int writer, and "an error, not a panic" for an input that
		// does not exist (the slices of the working copy rest on S-clonelen and G-eff, as in C07)
		rule{name: "T-vi", run: func(c *Ctx) { ruleTViOnly(c, map[string]bool{"Bytes": true}) }},
		rule{name: "S-clonelen", run: ruleSCloneLen},
		rule{name: "P-sig", run: func(c *Ctx) {
			runP(c, "P-sig", []entrySpec{{"", "*Tx", "CalcInputPreimageLegacy"}}, 5, 10)
		}})
}

func init() {
	// error discipline (E-use) over what each property's operations reach
	addRule("C01", rule{name: "E-use", run: func(c *Ctx) { ruleEUse(c, decodeEntries, 30) }})
	addRule("C02", rule{name: "E-use", run: func(c *Ctx) { ruleEUse(c, sighashEntries, 1) }})
	addRule("C03", rule{name: "E-use", run: func(c *Ctx) { ruleEUse(c, sighashEntries, 1) }})
	addRule("C04", rule{name: "E-use", run: func(c *Ctx) { ruleEUse(c, signEntries, 3) }})
	addRule("C05", rule{name: "E-use", run: func(c *Ctx) { ruleEUse(c, execEntries, 100) }})
	addRule("C06", rule{name: "E-use", run: func(c *Ctx) { ruleEUse(c, execEntries, 100) }})
	addRule("C07", rule{name: "E-use", run: func(c *Ctx) { ruleEUse(c, execEntries, 100) }})
	addRule("C10", rule{name: "E-use", run: func(c *Ctx) { ruleEUse(c, changeEntries, 3) }})
	addRule("C11", rule{name: "E-use", run: func(c *Ctx) { ruleEUse(c, feeEntries, 3) }})
	addRule("C12", rule{name: "E-use", run: func(c *Ctx) { ruleEUse(c, fundEntries, 3) }})
	addRule("C13", rule{name: "E-use", run: func(c *Ctx) { ruleEUse(c, codecEntries, 5) }})
	addRule("C14", rule{name: "E-use", run: func(c *Ctx) { ruleEUse(c, inspectEntries, 3) }})
	addRule("C15", rule{name: "E-use", run: func(c *Ctx) { ruleEUse(c, addrEntries, 3) }})
	addRule("C16", rule{name: "E-use", run: func(c *Ctx) { ruleEUse(c, append(append([]entrySpec{}, marshalEntries...), decodeEntries...), 30) }})
	addRule("C17", rule{name: "E-use", run: func(c *Ctx) { ruleEUse(c, bip276Entries, 3) }})
	addRule("C19", rule{name: "S-copy", run: ruleSCopyState})
	// what belongs to one script does not leak into the next (operation count, offset, early-return mark, separator)
	addRule("C05", rule{name: "S-perscript", run: ruleSPerScript})
	addRule("C05", rule{name: "T-splice", run: ruleTSplice})
	addRule("C05", rule{name: "T-cond", run: ruleTCond})
	addRule("C05", rule{name: "S-ops", run: ruleSOps})
	addRule("C05", rule{name: "T-lock", run: ruleTLock})
	addRule("C05", rule{name: "T-num2bin", run: ruleTNum2Bin})
	addRule("C05", rule{name: "S-p2sh", run: ruleSP2SH})
	addRule("C06", rule{name: "S-forkstrict", run: ruleSForkStrict})
	addRule("C07", rule{name: "S-perscript", run: ruleSPerScript})
	// "valid signatures over the signature hash of the script code": the two digest algorithms themselves (as in C02 / C03 / C04)
	addRule("C06", rule{name: "W-sig", run: ruleWSig})
	addRule("C06", rule{name: "W-leg", run: ruleWLeg})
	addRule("C06", rule{name: "G-eff", run: ruleGEffLegacy})
	addRule("C06", rule{name: "T-vi", run: func(c *Ctx) { ruleTViOnly(c, map[string]bool{"Bytes": true}) }})
	// both JSON dialects carry the transaction as its hex serialisation: writer and reader layouts of the wire codec
	addRule("C16", rule{name: "W-tx", run: ruleWTx})
	addRule("C16", rule{name: "W-rd", run: ruleWRd})
	addRule("C16", rule{name: "T-vi", run: ruleTVi})
	// the flows add their change output with Tx.change: what it charges
	addRule("C20", rule{name: "G-chg", run: ruleGChg})
	addRule("C18", rule{name: "L-atomic", run: ruleLAtomic})
	// the library's tokeniser, per iteration (header sizes, truncation, part and remainder bounds)
	addRule("C13", rule{name: "T-tok", run: ruleTTok})
	addRule("C14", rule{name: "T-tok", run: ruleTTok})
	addRule("C14", rule{name: "T-tmpl", run: ruleTMultisigScan})
	addRule("C13", rule{name: "T-asm", run: ruleTAsmReader})
	addRule("C15", rule{name: "T-b58", run: ruleTB58})
	// what a codec function hands back is its own (no buffer shared between calls)
	addRule("C13", rule{name: "O-codec", run: ruleOCodec})
	addRule("C06", rule{name: "O-codec", run: ruleOCodec})
	addRule("C04", rule{name: "O-codec", run: ruleOCodec})
	// the inscription is written with EncodeParts' pushes: each part behind its shortest prefix, nothing else
	addRule("C20", rule{name: "W-enc", run: ruleWEnc})
	addRule("C20", rule{name: "E-use", run: func(c *Ctx) { ruleEUse(c, ordEntries, 10) }})
}
