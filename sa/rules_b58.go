package main

// S-carry: a fixed-width multi-precision base conversion must not wrap silently.
// (*a25).set58 multiplies a 25-byte accumulator by 58 and adds a digit for every
// input character. The accumulator holds values below 256^25; a longer value wraps
// unless (a) the carry out of the most significant byte is tested after every digit
// and a non-zero carry is an error, or (b) the number of digits is bounded by a K
// with 58^K <= 256^25 before the arithmetic. Either idiom discharges the obligation;
// base, radix and width are read from the code.

import (
	"fmt"
	"go/ast"
	"go/constant"
	"go/token"
	"go/types"
	"math/big"
	"strings"

	"golang.org/x/tools/go/ssa"
)

func ruleSCarry(c *Ctx) {
	fn := c.P.Func("bscript", "*a25", "set58")
	if fn == nil {
		c.Undecided("S-carry", "a25.set58", token.NoPos, "function not found")
		return
	}
	key := "a25.set58/no-silent-wrap"
	recv := fn.Params[0]
	arr, ok := recv.Type().Underlying().(*types.Pointer).Elem().Underlying().(*types.Array)
	if !ok {
		c.Undecided("S-carry", key, fn.Pos(), "receiver is not a pointer to an array")
		return
	}
	width := arr.Len()
	// the multiply-accumulate loop: in set58 itself, or in a helper method of the accumulator that
	// set58 calls once per character and whose result is the carry out of the top byte
	type idiom struct {
		base, radix *big.Int
		baseParam   int // >= 0: the base is this parameter of the helper
		quo         *ssa.BinOp
		stores      int
	}
	find := func(f *ssa.Function) idiom {
		id := idiom{baseParam: -1}
		r := f.Params[0]
		onRecv := func(v ssa.Value) bool {
			ia, ok := v.(*ssa.IndexAddr)
			return ok && ia.X == ssa.Value(r)
		}
		for _, b := range f.Blocks {
			for _, ins := range b.Instrs {
				switch x := ins.(type) {
				case *ssa.BinOp:
					if x.Op == token.MUL {
						for i, op := range []ssa.Value{x.X, x.Y} {
							other := []ssa.Value{x.Y, x.X}[i]
							if cv, ok := other.(*ssa.Convert); ok {
								other = cv.X
							}
							ld, ok := other.(*ssa.UnOp)
							if !ok || ld.Op != token.MUL || !onRecv(ld.X) {
								continue
							}
							if k, isK := op.(*ssa.Const); isK {
								if v, ok := constValInt(k.Value); ok {
									id.base = v
								}
							}
							for pi, p := range f.Params {
								if op == ssa.Value(p) {
									id.baseParam = pi
								}
							}
						}
					}
					if x.Op == token.QUO {
						if k, isK := x.Y.(*ssa.Const); isK {
							if v, ok := constValInt(k.Value); ok {
								id.radix, id.quo = v, x
							}
						}
					}
					if x.Op == token.SHR { // c >>= 8 is c /= 256 for the non-negative accumulator
						if k, isK := x.Y.(*ssa.Const); isK {
							if v, ok := constValInt(k.Value); ok && v.Sign() > 0 && v.Int64() < 32 {
								id.radix, id.quo = new(big.Int).Lsh(big.NewInt(1), uint(v.Int64())), x
							}
						}
					}
				case *ssa.Store:
					if onRecv(x.Addr) {
						id.stores++
					}
				}
			}
		}
		return id
	}
	loopCarry := func(quo *ssa.BinOp) *ssa.Phi {
		if quo == nil || quo.Referrers() == nil {
			return nil
		}
		for _, r := range *quo.Referrers() {
			if ph, ok := r.(*ssa.Phi); ok && isLoopHeader(ph.Block()) {
				return ph
			}
		}
		return nil
	}
	id := find(fn)
	var carry ssa.Value // the carry out of the top byte after one character, as seen in set58
	var inner *ssa.BasicBlock
	if id.base != nil && id.radix != nil && id.stores == 1 {
		if ph := loopCarry(id.quo); ph != nil {
			carry, inner = ph, ph.Block()
		}
	} else if id.stores == 0 {
		for _, b := range fn.Blocks {
			for _, ins := range b.Instrs {
				call, ok := ins.(*ssa.Call)
				if !ok || call.Call.StaticCallee() == nil || len(call.Call.Args) == 0 || call.Call.Args[0] != ssa.Value(recv) || len(call.Call.StaticCallee().Blocks) == 0 {
					continue
				}
				h := call.Call.StaticCallee()
				hid := find(h)
				if hid.radix == nil || hid.stores != 1 {
					continue
				}
				if hid.base == nil && hid.baseParam > 0 && hid.baseParam < len(call.Call.Args) {
					if k, isK := call.Call.Args[hid.baseParam].(*ssa.Const); isK {
						if v, ok := constValInt(k.Value); ok {
							hid.base = v
						}
					}
				}
				// the helper returns the loop-carried quotient, and nothing else
				ph := loopCarry(hid.quo)
				okRet := ph != nil && hid.base != nil
				for _, hb := range h.Blocks {
					if ret, isRet := hb.Instrs[len(hb.Instrs)-1].(*ssa.Return); isRet {
						if len(ret.Results) != 1 || ret.Results[0] != ssa.Value(ph) {
							okRet = false
						}
					}
				}
				if okRet {
					id, carry = hid, call
				}
			}
		}
	}
	base, radix := id.base, id.radix
	if base == nil || radix == nil || carry == nil {
		c.Undecided("S-carry", key, fn.Pos(), "multiply-accumulate idiom not recognised (base, radix or the single accumulator store not found)")
		return
	}
	capacity := new(big.Int).Exp(radix, big.NewInt(width), nil)
	// outer loop: the per-character loop, a loop header that dominates where the carry is produced
	var outer *ssa.BasicBlock
	carryBlock := carry.(ssa.Instruction).Block()
	for _, b := range fn.Blocks {
		if b != inner && isLoopHeader(b) && b.Dominates(carryBlock) {
			outer = b
		}
	}
	errorReturn := func(b *ssa.BasicBlock) bool {
		// follow jumps to a return whose last result is a non-nil error
		for i := 0; i < 4 && b != nil; i++ {
			switch t := b.Instrs[len(b.Instrs)-1].(type) {
			case *ssa.Return:
				r := t.Results[len(t.Results)-1]
				k, isK := r.(*ssa.Const)
				return !(isK && k.Value == nil)
			case *ssa.Jump:
				b = b.Succs[0]
			default:
				return false
			}
		}
		return false
	}
	isZero := func(v ssa.Value) bool {
		k, ok := v.(*ssa.Const)
		return ok && k.Value != nil && k.Value.Kind() == constant.Int && constant.Sign(k.Value) == 0
	}
	// (a) carry test
	if outer != nil {
		for _, b := range fn.Blocks {
			iff, ok := b.Instrs[len(b.Instrs)-1].(*ssa.If)
			if !ok {
				continue
			}
			bo, ok := iff.Cond.(*ssa.BinOp)
			if !ok || bo.X != carry || !isZero(bo.Y) {
				continue
			}
			var errSucc *ssa.BasicBlock
			switch bo.Op {
			case token.GTR, token.NEQ:
				errSucc = b.Succs[0]
			case token.EQL, token.LEQ:
				errSucc = b.Succs[1]
			}
			if errSucc == nil || !errorReturn(errSucc) {
				continue
			}
			dominatesLatches := true
			for _, p := range outer.Preds {
				if outer.Dominates(p) && !b.Dominates(p) {
					dominatesLatches = false
				}
			}
			if dominatesLatches {
				c.OK("S-carry", key, bo.Pos(), fmt.Sprintf("accumulator of %d base-%s digits, multiplied by %s per character: the carry out of the top digit is tested after every character and a non-zero carry is an error", width, radix, base))
				return
			}
		}
	}
	// (b) digit-count bound before the arithmetic
	for _, b := range fn.Blocks {
		iff, ok := b.Instrs[len(b.Instrs)-1].(*ssa.If)
		if !ok || outer == nil || !b.Dominates(outer) {
			continue
		}
		bo, ok := iff.Cond.(*ssa.BinOp)
		if !ok {
			continue
		}
		call, ok := bo.X.(*ssa.Call)
		if !ok {
			continue
		}
		bi, ok := call.Call.Value.(*ssa.Builtin)
		if !ok || bi.Name() != "len" || len(fn.Params) < 2 || call.Call.Args[0] != ssa.Value(fn.Params[1]) {
			continue
		}
		k, ok := bo.Y.(*ssa.Const)
		if !ok {
			continue
		}
		kv, ok := constValInt(k.Value)
		if !ok {
			continue
		}
		var maxLen int64 = -1
		switch {
		case bo.Op == token.GTR && errorReturn(b.Succs[0]):
			maxLen = kv.Int64()
		case bo.Op == token.GEQ && errorReturn(b.Succs[0]):
			maxLen = kv.Int64() - 1
		case bo.Op == token.LEQ && errorReturn(b.Succs[1]):
			maxLen = kv.Int64()
		case bo.Op == token.LSS && errorReturn(b.Succs[1]):
			maxLen = kv.Int64() - 1
		}
		if maxLen < 0 {
			continue
		}
		reach := new(big.Int).Exp(base, big.NewInt(maxLen), nil)
		if reach.Cmp(capacity) <= 0 {
			c.OK("S-carry", key, bo.Pos(), fmt.Sprintf("at most %d digits: %s^%d <= %s^%d, the accumulator cannot wrap", maxLen, base, maxLen, radix, width))
			return
		}
		c.Fail("S-carry", key, bo.Pos(), fmt.Sprintf("the digit count is bounded by %d but %s^%d exceeds the accumulator's capacity %s^%d and the carry out of the top byte is never tested: a longer value wraps and a string that is not an address validates", maxLen, base, maxLen, radix, width))
		return
	}
	c.Fail("S-carry", key, fn.Pos(), fmt.Sprintf("the %d-byte accumulator is multiplied by %s per character but neither the carry out of its top byte is tested nor the digit count bounded: an over-long value wraps modulo %s^%d and a string that is not an address validates", width, base, radix, width))
}

// T-b58 (C15): the digit the validator's decoder reads for a character. For every byte value the digit is the
// character's position in the Base58 alphabet 123456789ABCDEFGHJKLMNPQRSTUVWXYZabcdefghijkmnopqrstuvwxyz and a
// byte outside the alphabet is refused: decided by reading the digit as an index search (bytes.IndexByte /
// strings.IndexByte) in a constant that nothing writes, tested negative before it is used. Any other way of
// mapping characters to digits is not read (undecided), because its table would have to be evaluated.
const base58Alphabet = "123456789ABCDEFGHJKLMNPQRSTUVWXYZabcdefghijkmnopqrstuvwxyz"

func ruleTB58(c *Ctx) {
	fn := c.P.Func("bscript", "*a25", "set58")
	if fn == nil {
		c.Undecided("T-b58", "a25.set58/digit", token.NoPos, "function not found")
		return
	}
	v := viewOf(fn)
	var search *ssa.Call
	alphabet, problem := "", ""
	for _, ins := range v.Instrs {
		call, ok := ins.(*ssa.Call)
		if !ok {
			continue
		}
		sc := call.Call.StaticCallee()
		if sc == nil {
			continue
		}
		switch sc.String() {
		case "bytes.IndexByte", "strings.IndexByte":
			if search != nil {
				problem = "more than one alphabet search"
			}
			search = call
			switch a := call.Call.Args[0].(type) {
			case *ssa.Const:
				if a.Value != nil && a.Value.Kind() == constant.String {
					alphabet = constant.StringVal(a.Value)
				}
			case *ssa.UnOp:
				if g, isG := a.X.(*ssa.Global); isG && a.Op == token.MUL {
					if s, ok := globalStringBytes(c.P, g); ok {
						alphabet = s
					} else {
						problem = "the alphabet " + g.Name() + " is not a constant that nothing writes"
					}
				}
			}
		}
	}
	key := "a25.set58/digit"
	if search == nil {
		if done := b58DigitFromTable(c, fn, v, key); done {
			return
		}
		c.Undecided("T-b58", key, fn.Pos(), "the digit of a character is not read by an index search in the alphabet (bytes.IndexByte / strings.IndexByte) nor from a table the rule can read: the mapping cannot be evaluated")
		return
	}
	// the character searched for is an element of the argument
	isChar := false
	switch x := search.Call.Args[1].(type) {
	case *ssa.UnOp:
		if ia, ok := x.X.(*ssa.IndexAddr); ok && x.Op == token.MUL && len(fn.Params) > 1 && ia.X == ssa.Value(fn.Params[1]) {
			isChar = true
		}
	case *ssa.Index:
		isChar = len(fn.Params) > 1 && x.X == ssa.Value(fn.Params[1])
	}
	// a miss is refused: the search result is tested negative and that branch returns an error; the digit is
	// used (merged into the carry) only where the test failed
	refused := false
	for _, b := range v.Blocks {
		iff, ok := b.Instrs[len(b.Instrs)-1].(*ssa.If)
		if !ok {
			continue
		}
		bo, ok := iff.Cond.(*ssa.BinOp)
		if !ok || bo.X != ssa.Value(search) {
			continue
		}
		k, isK := constInt(bo.Y)
		if !isK {
			continue
		}
		var errSucc *ssa.BasicBlock
		switch {
		case bo.Op == token.LSS && k.Sign() == 0, bo.Op == token.EQL && k.Int64() == -1, bo.Op == token.LEQ && k.Int64() == -1:
			errSucc = b.Succs[0]
		case bo.Op == token.GEQ && k.Sign() == 0, bo.Op == token.NEQ && k.Int64() == -1, bo.Op == token.GTR && k.Int64() == -1:
			errSucc = b.Succs[1]
		}
		if errSucc == nil {
			continue
		}
		if r, isRet := errSucc.Instrs[len(errSucc.Instrs)-1].(*ssa.Return); isRet && len(r.Results) > 0 && returnKinds(r.Results[len(r.Results)-1]) == 2 {
			refused = true
		}
	}
	switch {
	case problem != "":
		c.Fail("T-b58", key, search.Pos(), "the validator's Base58 digit mapping: "+problem)
	case alphabet != base58Alphabet:
		c.Fail("T-b58", key, search.Pos(), fmt.Sprintf("the validator decodes with the alphabet %q, Base58 is %q", alphabet, base58Alphabet))
	case !isChar:
		c.Fail("T-b58", key, search.Pos(), "the value looked up in the alphabet is not the character of the address itself (it is transformed first): bytes outside the alphabet can be read as digits")
	case !refused:
		c.Fail("T-b58", key, search.Pos(), "a character that is not in the alphabet is not refused (no error return on a negative search result)")
	default:
		c.OK("T-b58", key, search.Pos(), "digit = position in the 58-character alphabet for all 256 byte values; any other byte is refused")
	}
}

// globalStringBytes: a package-level []byte variable initialised with []byte("constant") (or a string
// constant) that is only read: loaded to be indexed, measured or searched.
func globalStringBytes(p *Prog, g *ssa.Global) (string, bool) {
	pk := p.Pkgs[g.Pkg.Pkg.Path()]
	if pk == nil {
		return "", false
	}
	val, found := "", false
	for _, f := range pk.Syntax {
		for _, d := range f.Decls {
			gd, ok := d.(*ast.GenDecl)
			if !ok || gd.Tok != token.VAR {
				continue
			}
			for _, s := range gd.Specs {
				vs := s.(*ast.ValueSpec)
				for i, n := range vs.Names {
					if n.Name != g.Name() || i >= len(vs.Values) {
						continue
					}
					e := vs.Values[i]
					if ce, ok := e.(*ast.CallExpr); ok && len(ce.Args) == 1 {
						e = ce.Args[0]
					}
					if cv, ok := constOf(pk, e); ok && cv.Kind() == constant.String {
						val, found = constant.StringVal(cv), true
					}
				}
			}
		}
	}
	if !found {
		return "", false
	}
	// only read
	for _, spk := range p.ScopePkgs() {
		for _, fn := range pkgFunctions(p, spk.PkgPath) {
			for _, b := range fn.Blocks {
				for _, ins := range b.Instrs {
					for _, op := range ins.Operands(nil) {
						if *op != ssa.Value(g) {
							continue
						}
						switch x := ins.(type) {
						case *ssa.Store:
							if fn.Name() != "init" || x.Addr != ssa.Value(g) {
								return "", false
							}
						case *ssa.UnOp:
							if x.Referrers() == nil {
								continue
							}
							for _, r := range *x.Referrers() {
								switch y := r.(type) {
								case *ssa.Index, *ssa.Range, *ssa.DebugRef, *ssa.Lookup:
								case *ssa.IndexAddr:
									if y.Referrers() != nil {
										for _, r2 := range *y.Referrers() {
											if _, isSt := r2.(*ssa.Store); isSt {
												return "", false
											}
										}
									}
								case *ssa.Call:
									if bi, ok := y.Call.Value.(*ssa.Builtin); ok && bi.Name() == "len" {
										continue
									}
									if sc := y.Call.StaticCallee(); sc != nil && (sc.String() == "bytes.IndexByte" || sc.String() == "bytes.Contains" || sc.String() == "bytes.Index") {
										continue
									}
									return "", false
								default:
									return "", false
								}
							}
						case *ssa.DebugRef:
						default:
							return "", false
						}
					}
				}
			}
		}
	}
	return val, true
}

// b58DigitFromTable: the digit is looked up in a package-level array that an initialiser function fills in the two
// loops "every entry = K" and "entry[alphabet[j]] = j" (either may be missing). The table is read off those loops -
// entry b is the position of b in the alphabet, else K, else the zero value - and held against the rule: for all
// 256 byte values the digit of an alphabet character is its position and any other byte's entry is negative, the
// entry consulted is that of the character itself, and a negative digit is refused. Returns false when the lookup
// is not of this form (the caller reports undecided).
func b58DigitFromTable(c *Ctx, fn *ssa.Function, v *fnView, key string) bool {
	// the lookup: int(T[idx]) with T a global array
	var load *ssa.UnOp
	var tab *ssa.Global
	var idx ssa.Value
	for _, ins := range v.Instrs {
		ld, ok := ins.(*ssa.UnOp)
		if !ok || ld.Op != token.MUL {
			continue
		}
		ia, ok := ld.X.(*ssa.IndexAddr)
		if !ok {
			continue
		}
		g, ok := ia.X.(*ssa.Global)
		if !ok {
			continue
		}
		if _, isArr := derefType(g.Type()).Underlying().(*types.Array); !isArr {
			continue
		}
		load, tab, idx = ld, g, ia.Index
	}
	if load == nil {
		return false
	}
	arr := derefType(tab.Type()).Underlying().(*types.Array)
	// the initialiser: package init stores the result of a call of a function literal into the global
	var initFn *ssa.Function
	if pkgInit := tab.Pkg.Func("init"); pkgInit != nil {
		for _, b := range pkgInit.Blocks {
			for _, ins := range b.Instrs {
				if st, ok := ins.(*ssa.Store); ok && st.Addr == ssa.Value(tab) {
					if call, ok := st.Val.(*ssa.Call); ok {
						if f, ok := call.Call.Value.(*ssa.Function); ok {
							initFn = f
						} else if mc, ok := call.Call.Value.(*ssa.MakeClosure); ok {
							initFn, _ = mc.Fn.(*ssa.Function)
						}
					}
				}
			}
		}
	}
	if initFn == nil || !globalOnlyIndexed(c.P, tab) {
		return false
	}
	// read the loops of the initialiser
	fill, hasFill := int64(0), false
	alphabet, hasAlpha := "", false
	var local *ssa.Alloc
	for _, b := range initFn.Blocks {
		for _, ins := range b.Instrs {
			st, ok := ins.(*ssa.Store)
			if !ok {
				continue
			}
			ia, ok := st.Addr.(*ssa.IndexAddr)
			if !ok {
				if al, isAl := st.Addr.(*ssa.Alloc); isAl && (local == nil || al == local) {
					continue // *t0 = *t0 before the return
				}
				return false
			}
			al, ok := ia.X.(*ssa.Alloc)
			if !ok {
				return false
			}
			local = al
			var hdr *ssa.BasicBlock
			for _, h := range dominatingLoopHeaders(b) {
				hdr = h
			}
			if hdr == nil || !unconditionalInLoop(hdr, b) {
				return false
			}
			if k, isK := constInt(st.Val); isK {
				// every entry = K: the index is the counter of a loop over the whole array
				iff, _ := hdr.Instrs[len(hdr.Instrs)-1].(*ssa.If)
				bo, _ := iff.Cond.(*ssa.BinOp)
				if bo == nil || bo.Op != token.LSS || bo.X != ia.Index || !countsFromZero(ia.Index, hdr) {
					return false
				}
				if n, isN := constInt(bo.Y); !isN || n.Int64() != arr.Len() {
					return false
				}
				fill, hasFill = k.Int64(), true
				if hasAlpha {
					return false // the fill would wipe the positions written before it
				}
				continue
			}
			// entry[alphabet[j]] = j
			cv, isCv := st.Val.(*ssa.Convert)
			eld, isLd := ia.Index.(*ssa.UnOp)
			if !isCv || !isLd || eld.Op != token.MUL {
				return false
			}
			eia, ok := eld.X.(*ssa.IndexAddr)
			if !ok || eia.Index != cv.X || !countsFromZero(cv.X, hdr) {
				return false
			}
			src, ok := eia.X.(*ssa.UnOp)
			if !ok {
				return false
			}
			g, ok := src.X.(*ssa.Global)
			if !ok {
				return false
			}
			a, ok := globalStringBytes(c.P, g)
			if !ok {
				return false
			}
			alphabet, hasAlpha = a, true
		}
	}
	if !hasAlpha {
		return false
	}
	// the index consulted is the character itself, and a negative digit is refused
	isChar := false
	if ld, ok := idx.(*ssa.UnOp); ok && ld.Op == token.MUL {
		if ia, ok := ld.X.(*ssa.IndexAddr); ok && len(fn.Params) > 1 && ia.X == ssa.Value(fn.Params[1]) {
			isChar = true
		}
	}
	refused := false
	for _, b := range v.Blocks {
		iff, ok := b.Instrs[len(b.Instrs)-1].(*ssa.If)
		if !ok {
			continue
		}
		bo, ok := iff.Cond.(*ssa.BinOp)
		if !ok {
			continue
		}
		x := bo.X
		for {
			cv, isCv := x.(*ssa.Convert)
			if !isCv {
				break
			}
			x = cv.X
		}
		k, isK := constInt(bo.Y)
		if x != ssa.Value(load) || !isK {
			continue
		}
		if bo.Op == token.LSS && k.Sign() == 0 {
			if r, isRet := b.Succs[0].Instrs[len(b.Succs[0].Instrs)-1].(*ssa.Return); isRet && returnKinds(r.Results[len(r.Results)-1]) == 2 {
				refused = true
			}
		}
	}
	// the table, entry by entry
	bad := ""
	if alphabet != base58Alphabet {
		bad = fmt.Sprintf("the table is filled from the alphabet %q, Base58 is %q", alphabet, base58Alphabet)
	}
	if bad == "" && int64(256) > arr.Len() && isChar {
		bad = fmt.Sprintf("the table has %d entries but is indexed by a byte", arr.Len())
	}
	if bad == "" {
		for bv := 0; bv < 256 && bv < int(arr.Len()); bv++ {
			pos := strings.IndexByte(alphabet, byte(bv))
			entry := fill
			if !hasFill {
				entry = 0
			}
			if pos >= 0 {
				entry = int64(pos)
			}
			switch {
			case pos >= 0 && entry != int64(pos):
				bad = fmt.Sprintf("the character %q has digit %d in the table, its position in the alphabet is %d", byte(bv), entry, pos)
			case pos < 0 && entry >= 0:
				bad = fmt.Sprintf("the byte 0x%02x is not in the alphabet but its table entry is %d (not negative): it is read as the digit %d instead of being refused", bv, entry, entry)
			}
			if bad != "" {
				break
			}
		}
	}
	switch {
	case bad != "":
		c.Fail("T-b58", key, load.Pos(), "the validator's Base58 digit table: "+bad)
	case !isChar:
		c.Fail("T-b58", key, load.Pos(), "the table entry consulted is not that of the character itself (the index is transformed first): bytes outside the alphabet can be read as digits")
	case !refused:
		c.Fail("T-b58", key, load.Pos(), "a negative table entry (a character that is not in the alphabet) is not refused")
	default:
		c.OK("T-b58", key, load.Pos(), "digit = table entry = position in the 58-character alphabet, every other byte's entry negative and refused (256 entries read off the initialiser's loops)")
	}
	return true
}

// globalOnlyIndexed: the package-level array is written by its package initialiser only and otherwise only indexed.
func globalOnlyIndexed(p *Prog, g *ssa.Global) bool {
	for _, spk := range p.ScopePkgs() {
		for _, fn := range pkgFunctions(p, spk.PkgPath) {
			for _, b := range fn.Blocks {
				for _, ins := range b.Instrs {
					for _, op := range ins.Operands(nil) {
						if *op != ssa.Value(g) {
							continue
						}
						switch x := ins.(type) {
						case *ssa.Store:
							if fn.Name() != "init" || x.Addr != ssa.Value(g) {
								return false
							}
						case *ssa.IndexAddr:
							if x.Referrers() != nil {
								for _, r := range *x.Referrers() {
									if _, isSt := r.(*ssa.Store); isSt {
										return false
									}
								}
							}
						case *ssa.UnOp, *ssa.DebugRef:
						default:
							return false
						}
					}
				}
			}
		}
	}
	return true
}
