package main

// S-carry: a fixed-width multi-precision base conversion must not wrap silently.
// (*a25).set58 multiplies a 25-byte accumulator by 58 and adds a digit for every
// input character. The accumulator holds values below 256^25; a longer value wraps
// unless (a) the carry out of the most significant byte is tested after every digit
// and a non-zero carry is an error, or (b) the number of digits is bounded by a K
// with 58^K <= 256^25 before the arithmetic. Either idiom discharges the obligation;
// base, radix and width are read from the code.

import (
	"fmt"
	"go/constant"
	"go/token"
	"go/types"
	"math/big"

	"golang.org/x/tools/go/ssa"
)

func ruleSCarry(c *Ctx) {
	fn := c.P.Func("bscript", "*a25", "set58")
	if fn == nil {
		c.Undecided("S-carry", "a25.set58", token.NoPos, "function not found")
		return
	}
	key := "a25.set58/no-silent-wrap"
	recv := fn.Params[0]
	arr, ok := recv.Type().Underlying().(*types.Pointer).Elem().Underlying().(*types.Array)
	if !ok {
		c.Undecided("S-carry", key, fn.Pos(), "receiver is not a pointer to an array")
		return
	}
	width := arr.Len()
	// the multiply-accumulate loop: in set58 itself, or in a helper method of the accumulator that
	// set58 calls once per character and whose result is the carry out of the top byte
	type idiom struct {
		base, radix *big.Int
		baseParam   int // >= 0: the base is this parameter of the helper
		quo         *ssa.BinOp
		stores      int
	}
	find := func(f *ssa.Function) idiom {
		id := idiom{baseParam: -1}
		r := f.Params[0]
		onRecv := func(v ssa.Value) bool {
			ia, ok := v.(*ssa.IndexAddr)
			return ok && ia.X == ssa.Value(r)
		}
		for _, b := range f.Blocks {
			for _, ins := range b.Instrs {
				switch x := ins.(type) {
				case *ssa.BinOp:
					if x.Op == token.MUL {
						for i, op := range []ssa.Value{x.X, x.Y} {
							other := []ssa.Value{x.Y, x.X}[i]
							if cv, ok := other.(*ssa.Convert); ok {
								other = cv.X
							}
							ld, ok := other.(*ssa.UnOp)
							if !ok || ld.Op != token.MUL || !onRecv(ld.X) {
								continue
							}
							if k, isK := op.(*ssa.Const); isK {
								if v, ok := constValInt(k.Value); ok {
									id.base = v
								}
							}
							for pi, p := range f.Params {
								if op == ssa.Value(p) {
									id.baseParam = pi
								}
							}
						}
					}
					if x.Op == token.QUO {
						if k, isK := x.Y.(*ssa.Const); isK {
							if v, ok := constValInt(k.Value); ok {
								id.radix, id.quo = v, x
							}
						}
					}
					if x.Op == token.SHR { // c >>= 8 is c /= 256 for the non-negative accumulator
						if k, isK := x.Y.(*ssa.Const); isK {
							if v, ok := constValInt(k.Value); ok && v.Sign() > 0 && v.Int64() < 32 {
								id.radix, id.quo = new(big.Int).Lsh(big.NewInt(1), uint(v.Int64())), x
							}
						}
					}
				case *ssa.Store:
					if onRecv(x.Addr) {
						id.stores++
					}
				}
			}
		}
		return id
	}
	loopCarry := func(quo *ssa.BinOp) *ssa.Phi {
		if quo == nil || quo.Referrers() == nil {
			return nil
		}
		for _, r := range *quo.Referrers() {
			if ph, ok := r.(*ssa.Phi); ok && isLoopHeader(ph.Block()) {
				return ph
			}
		}
		return nil
	}
	id := find(fn)
	var carry ssa.Value // the carry out of the top byte after one character, as seen in set58
	var inner *ssa.BasicBlock
	if id.base != nil && id.radix != nil && id.stores == 1 {
		if ph := loopCarry(id.quo); ph != nil {
			carry, inner = ph, ph.Block()
		}
	} else if id.stores == 0 {
		for _, b := range fn.Blocks {
			for _, ins := range b.Instrs {
				call, ok := ins.(*ssa.Call)
				if !ok || call.Call.StaticCallee() == nil || len(call.Call.Args) == 0 || call.Call.Args[0] != ssa.Value(recv) || len(call.Call.StaticCallee().Blocks) == 0 {
					continue
				}
				h := call.Call.StaticCallee()
				hid := find(h)
				if hid.radix == nil || hid.stores != 1 {
					continue
				}
				if hid.base == nil && hid.baseParam > 0 && hid.baseParam < len(call.Call.Args) {
					if k, isK := call.Call.Args[hid.baseParam].(*ssa.Const); isK {
						if v, ok := constValInt(k.Value); ok {
							hid.base = v
						}
					}
				}
				// the helper returns the loop-carried quotient, and nothing else
				ph := loopCarry(hid.quo)
				okRet := ph != nil && hid.base != nil
				for _, hb := range h.Blocks {
					if ret, isRet := hb.Instrs[len(hb.Instrs)-1].(*ssa.Return); isRet {
						if len(ret.Results) != 1 || ret.Results[0] != ssa.Value(ph) {
							okRet = false
						}
					}
				}
				if okRet {
					id, carry = hid, call
				}
			}
		}
	}
	base, radix := id.base, id.radix
	if base == nil || radix == nil || carry == nil {
		c.Undecided("S-carry", key, fn.Pos(), "multiply-accumulate idiom not recognised (base, radix or the single accumulator store not found)")
		return
	}
	capacity := new(big.Int).Exp(radix, big.NewInt(width), nil)
	// outer loop: the per-character loop, a loop header that dominates where the carry is produced
	var outer *ssa.BasicBlock
	carryBlock := carry.(ssa.Instruction).Block()
	for _, b := range fn.Blocks {
		if b != inner && isLoopHeader(b) && b.Dominates(carryBlock) {
			outer = b
		}
	}
	errorReturn := func(b *ssa.BasicBlock) bool {
		// follow jumps to a return whose last result is a non-nil error
		for i := 0; i < 4 && b != nil; i++ {
			switch t := b.Instrs[len(b.Instrs)-1].(type) {
			case *ssa.Return:
				r := t.Results[len(t.Results)-1]
				k, isK := r.(*ssa.Const)
				return !(isK && k.Value == nil)
			case *ssa.Jump:
				b = b.Succs[0]
			default:
				return false
			}
		}
		return false
	}
	isZero := func(v ssa.Value) bool {
		k, ok := v.(*ssa.Const)
		return ok && k.Value != nil && k.Value.Kind() == constant.Int && constant.Sign(k.Value) == 0
	}
	// (a) carry test
	if outer != nil {
		for _, b := range fn.Blocks {
			iff, ok := b.Instrs[len(b.Instrs)-1].(*ssa.If)
			if !ok {
				continue
			}
			bo, ok := iff.Cond.(*ssa.BinOp)
			if !ok || bo.X != carry || !isZero(bo.Y) {
				continue
			}
			var errSucc *ssa.BasicBlock
			switch bo.Op {
			case token.GTR, token.NEQ:
				errSucc = b.Succs[0]
			case token.EQL, token.LEQ:
				errSucc = b.Succs[1]
			}
			if errSucc == nil || !errorReturn(errSucc) {
				continue
			}
			dominatesLatches := true
			for _, p := range outer.Preds {
				if outer.Dominates(p) && !b.Dominates(p) {
					dominatesLatches = false
				}
			}
			if dominatesLatches {
				c.OK("S-carry", key, bo.Pos(), fmt.Sprintf("accumulator of %d base-%s digits, multiplied by %s per character: the carry out of the top digit is tested after every character and a non-zero carry is an error", width, radix, base))
				return
			}
		}
	}
	// (b) digit-count bound before the arithmetic
	for _, b := range fn.Blocks {
		iff, ok := b.Instrs[len(b.Instrs)-1].(*ssa.If)
		if !ok || outer == nil || !b.Dominates(outer) {
			continue
		}
		bo, ok := iff.Cond.(*ssa.BinOp)
		if !ok {
			continue
		}
		call, ok := bo.X.(*ssa.Call)
		if !ok {
			continue
		}
		bi, ok := call.Call.Value.(*ssa.Builtin)
		if !ok || bi.Name() != "len" || len(fn.Params) < 2 || call.Call.Args[0] != ssa.Value(fn.Params[1]) {
			continue
		}
		k, ok := bo.Y.(*ssa.Const)
		if !ok {
			continue
		}
		kv, ok := constValInt(k.Value)
		if !ok {
			continue
		}
		var maxLen int64 = -1
		switch {
		case bo.Op == token.GTR && errorReturn(b.Succs[0]):
			maxLen = kv.Int64()
		case bo.Op == token.GEQ && errorReturn(b.Succs[0]):
			maxLen = kv.Int64() - 1
		case bo.Op == token.LEQ && errorReturn(b.Succs[1]):
			maxLen = kv.Int64()
		case bo.Op == token.LSS && errorReturn(b.Succs[1]):
			maxLen = kv.Int64() - 1
		}
		if maxLen < 0 {
			continue
		}
		reach := new(big.Int).Exp(base, big.NewInt(maxLen), nil)
		if reach.Cmp(capacity) <= 0 {
			c.OK("S-carry", key, bo.Pos(), fmt.Sprintf("at most %d digits: %s^%d <= %s^%d, the accumulator cannot wrap", maxLen, base, maxLen, radix, width))
			return
		}
		c.Fail("S-carry", key, bo.Pos(), fmt.Sprintf("the digit count is bounded by %d but %s^%d exceeds the accumulator's capacity %s^%d and the carry out of the top byte is never tested: a longer value wraps and a string that is not an address validates", maxLen, base, maxLen, radix, width))
		return
	}
	c.Fail("S-carry", key, fn.Pos(), fmt.Sprintf("the %d-byte accumulator is multiplied by %s per character but neither the carry out of its top byte is tested nor the digit count bounded: an over-long value wraps modulo %s^%d and a string that is not an address validates", width, base, radix, width))
}
