package main

// S-carry: a fixed-width multi-precision base conversion must not wrap silently.
// (*a25).set58 multiplies a 25-byte accumulator by 58 and adds a digit for every
// input character. The accumulator holds values below 256^25; a longer value wraps
// unless (a) the carry out of the most significant byte is tested after every digit
// and a non-zero carry is an error, or (b) the number of digits is bounded by a K
// with 58^K <= 256^25 before the arithmetic. Either idiom discharges the obligation;
// base, radix and width are read from the code.

import (
	"fmt"
	"go/constant"
	"go/token"
	"go/types"
	"math/big"

	"golang.org/x/tools/go/ssa"
)

func ruleSCarry(c *Ctx) {
	fn := c.P.Func("bscript", "*a25", "set58")
	if fn == nil {
		c.Undecided("S-carry", "a25.set58", token.NoPos, "function not found")
		return
	}
	key := "a25.set58/no-silent-wrap"
	recv := fn.Params[0]
	arr, ok := recv.Type().Underlying().(*types.Pointer).Elem().Underlying().(*types.Array)
	if !ok {
		c.Undecided("S-carry", key, fn.Pos(), "receiver is not a pointer to an array")
		return
	}
	width := arr.Len()
	onRecv := func(v ssa.Value) bool {
		ia, ok := v.(*ssa.IndexAddr)
		return ok && ia.X == ssa.Value(recv)
	}
	var base, radix *big.Int
	var quo *ssa.BinOp
	stores := 0
	for _, b := range fn.Blocks {
		for _, ins := range b.Instrs {
			switch x := ins.(type) {
			case *ssa.BinOp:
				if x.Op == token.MUL {
					for i, op := range []ssa.Value{x.X, x.Y} {
						other := []ssa.Value{x.Y, x.X}[i]
						k, isK := op.(*ssa.Const)
						if !isK {
							continue
						}
						if cv, ok := other.(*ssa.Convert); ok {
							other = cv.X
						}
						if ld, ok := other.(*ssa.UnOp); ok && ld.Op == token.MUL && onRecv(ld.X) {
							if v, ok := constValInt(k.Value); ok {
								base = v
							}
						}
					}
				}
				if x.Op == token.QUO {
					if k, isK := x.Y.(*ssa.Const); isK {
						if v, ok := constValInt(k.Value); ok {
							radix, quo = v, x
						}
					}
				}
			case *ssa.Store:
				if onRecv(x.Addr) {
					stores++
				}
			}
		}
	}
	if base == nil || radix == nil || quo == nil || stores != 1 {
		c.Undecided("S-carry", key, fn.Pos(), "multiply-accumulate idiom not recognised (base, radix or the single accumulator store not found)")
		return
	}
	capacity := new(big.Int).Exp(radix, big.NewInt(width), nil)
	// the carry at inner-loop exit: header phi fed by the quotient
	var carryPhi *ssa.Phi
	if quo.Referrers() != nil {
		for _, r := range *quo.Referrers() {
			if ph, ok := r.(*ssa.Phi); ok && isLoopHeader(ph.Block()) {
				carryPhi = ph
			}
		}
	}
	// outer loop: the header that dominates the inner header and is a loop header itself
	var outer *ssa.BasicBlock
	if carryPhi != nil {
		for _, b := range fn.Blocks {
			if b != carryPhi.Block() && isLoopHeader(b) && b.Dominates(carryPhi.Block()) {
				outer = b
			}
		}
	}
	errorReturn := func(b *ssa.BasicBlock) bool {
		// follow jumps to a return whose last result is a non-nil error
		for i := 0; i < 4 && b != nil; i++ {
			switch t := b.Instrs[len(b.Instrs)-1].(type) {
			case *ssa.Return:
				r := t.Results[len(t.Results)-1]
				k, isK := r.(*ssa.Const)
				return !(isK && k.Value == nil)
			case *ssa.Jump:
				b = b.Succs[0]
			default:
				return false
			}
		}
		return false
	}
	isZero := func(v ssa.Value) bool {
		k, ok := v.(*ssa.Const)
		return ok && k.Value != nil && k.Value.Kind() == constant.Int && constant.Sign(k.Value) == 0
	}
	// (a) carry test
	if carryPhi != nil && outer != nil {
		for _, b := range fn.Blocks {
			iff, ok := b.Instrs[len(b.Instrs)-1].(*ssa.If)
			if !ok {
				continue
			}
			bo, ok := iff.Cond.(*ssa.BinOp)
			if !ok || bo.X != ssa.Value(carryPhi) || !isZero(bo.Y) {
				continue
			}
			var errSucc *ssa.BasicBlock
			switch bo.Op {
			case token.GTR, token.NEQ:
				errSucc = b.Succs[0]
			case token.EQL, token.LEQ:
				errSucc = b.Succs[1]
			}
			if errSucc == nil || !errorReturn(errSucc) {
				continue
			}
			dominatesLatches := true
			for _, p := range outer.Preds {
				if outer.Dominates(p) && !b.Dominates(p) {
					dominatesLatches = false
				}
			}
			if dominatesLatches {
				c.OK("S-carry", key, bo.Pos(), fmt.Sprintf("accumulator of %d base-%s digits, multiplied by %s per character: the carry out of the top digit is tested after every character and a non-zero carry is an error", width, radix, base))
				return
			}
		}
	}
	// (b) digit-count bound before the arithmetic
	for _, b := range fn.Blocks {
		iff, ok := b.Instrs[len(b.Instrs)-1].(*ssa.If)
		if !ok || outer == nil || !b.Dominates(outer) {
			continue
		}
		bo, ok := iff.Cond.(*ssa.BinOp)
		if !ok {
			continue
		}
		call, ok := bo.X.(*ssa.Call)
		if !ok {
			continue
		}
		bi, ok := call.Call.Value.(*ssa.Builtin)
		if !ok || bi.Name() != "len" || len(fn.Params) < 2 || call.Call.Args[0] != ssa.Value(fn.Params[1]) {
			continue
		}
		k, ok := bo.Y.(*ssa.Const)
		if !ok {
			continue
		}
		kv, ok := constValInt(k.Value)
		if !ok {
			continue
		}
		var maxLen int64 = -1
		switch {
		case bo.Op == token.GTR && errorReturn(b.Succs[0]):
			maxLen = kv.Int64()
		case bo.Op == token.GEQ && errorReturn(b.Succs[0]):
			maxLen = kv.Int64() - 1
		case bo.Op == token.LEQ && errorReturn(b.Succs[1]):
			maxLen = kv.Int64()
		case bo.Op == token.LSS && errorReturn(b.Succs[1]):
			maxLen = kv.Int64() - 1
		}
		if maxLen < 0 {
			continue
		}
		reach := new(big.Int).Exp(base, big.NewInt(maxLen), nil)
		if reach.Cmp(capacity) <= 0 {
			c.OK("S-carry", key, bo.Pos(), fmt.Sprintf("at most %d digits: %s^%d <= %s^%d, the accumulator cannot wrap", maxLen, base, maxLen, radix, width))
			return
		}
		c.Fail("S-carry", key, bo.Pos(), fmt.Sprintf("the digit count is bounded by %d but %s^%d exceeds the accumulator's capacity %s^%d and the carry out of the top byte is never tested: a longer value wraps and a string that is not an address validates", maxLen, base, maxLen, radix, width))
		return
	}
	c.Fail("S-carry", key, fn.Pos(), fmt.Sprintf("the %d-byte accumulator is multiplied by %s per character but neither the carry out of its top byte is tested nor the digit count bounded: an over-long value wraps modulo %s^%d and a string that is not an address validates", width, base, radix, width))
}
