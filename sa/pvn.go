package main

// Engine P, part 1: value numbering with memory versions, and linear forms.
//
// go/ssa has no CSE: every source-level read of t.scriptIdx is a separate
// load. To use a dominating guard at a later use, both loads must be known to
// yield the same value. A load L2 is given the number of an earlier load L1 of
// the same address when L1 dominates L2 and no instruction that may write that
// location (type/field based, calls through engine O's transitive
// FieldsStored sets) lies on any path from L1 to L2.

import (
	"fmt"
	"go/constant"
	"go/token"
	"go/types"
	"math/big"
	"sort"
	"strings"

	"golang.org/x/tools/go/ssa"
)

// pos identifies a program point inside a function.
type ppos struct {
	b *ssa.BasicBlock
	i int // index of the instruction in b.Instrs
}

type vnKind int

type vn struct {
	key  string
	typ  types.Type
	c    constant.Value // for constants
	op   string         // const param global free fieldaddr indexaddr load len cap bin un conv slice makeslice append call phi alloc opaque field index extract lookup strlen
	args []*vn
	tok  token.Token
	name string
	val  ssa.Value // one representative
	// for loads
	at ppos
}

func (v *vn) String() string { return v.key }

type loadEvent struct {
	addrKey string
	at      ppos
	v       *vn
	class   string
	isStore bool
}

// pfunc holds per-function analysis state.
type pfunc struct {
	P            *PEngine
	fn           *ssa.Function
	vns          map[ssa.Value]*vn
	byKey        map[string]*vn
	loads        map[string][]*loadEvent // addrKey -> events in dominance (processing) order
	posOf        map[ssa.Instruction]ppos
	dom          map[*ssa.BasicBlock]map[*ssa.BasicBlock]bool
	nuniq        int
	kills        map[string][]ppos // class -> kill positions
	allCallKills []ppos
	built        bool
	inlineDepth  int
	indMemo      map[string][]fact
	inGoalInd    int
	inQuot       bool
	inPhiCond    map[*ssa.Phi]bool
}

func (pf *pfunc) intern(v *vn) *vn {
	if o, ok := pf.byKey[v.key]; ok {
		return o
	}
	pf.byKey[v.key] = v
	return v
}

func (pf *pfunc) uniq(prefix string) string {
	pf.nuniq++
	return fmt.Sprintf("%s#%d", prefix, pf.nuniq)
}

func (pf *pfunc) dominates(a, b *ssa.BasicBlock) bool { return a.Dominates(b) }

func posBefore(a, b ppos) bool { // a strictly dominates-or-precedes b in same block
	return a.b == b.b && a.i < b.i
}

func (pf *pfunc) posDominates(a, b ppos) bool {
	if a.b == b.b {
		return a.i <= b.i
	}
	return a.b.Dominates(b.b)
}

// build numbers all values of the function in dominator preorder.
func (pf *pfunc) build() {
	if pf.built {
		return
	}
	pf.built = true
	fn := pf.fn
	for _, b := range fn.Blocks {
		for i, ins := range b.Instrs {
			pf.posOf[ins] = ppos{b, i}
		}
	}
	pf.collectKills()
	for _, b := range fn.DomPreorder() {
		for i, ins := range b.Instrs {
			if v, ok := ins.(ssa.Value); ok {
				pf.number(v, ppos{b, i})
			}
			if st, ok := ins.(*ssa.Store); ok {
				// store -> load forwarding: the stored value is what a later load of the same
				// address yields unless the location is written in between
				addr := pf.get(st.Addr)
				pf.loads[addr.key] = append(pf.loads[addr.key], &loadEvent{addrKey: addr.key, at: ppos{b, i}, v: pf.get(st.Val), isStore: true})
			}
		}
	}
}

func typeKey(t types.Type) string {
	return types.TypeString(t, func(p *types.Package) string { return p.Name() })
}

func structFieldClass(xt types.Type, field int) string {
	t := xt
	if p, ok := t.Underlying().(*types.Pointer); ok {
		t = p.Elem()
	}
	return "F:" + typeKey(t) + "." + fieldName(xt, field)
}

// classOfAddr: the abstract location class of an address value.
func (pf *pfunc) classOfAddr(addr ssa.Value) string {
	switch a := addr.(type) {
	case *ssa.FieldAddr:
		return structFieldClass(a.X.Type(), a.Field)
	case *ssa.Alloc:
		return "A:" + instrOrdinal(a)
	case *ssa.Global:
		return "G:" + a.Pkg.Pkg.Name() + "." + a.Name()
	case *ssa.IndexAddr:
		et := a.Type().Underlying().(*types.Pointer).Elem()
		return "E:" + typeKey(et)
	case *ssa.Phi, *ssa.Parameter, *ssa.UnOp, *ssa.Call, *ssa.Extract, *ssa.FreeVar:
		if p, ok := addr.Type().Underlying().(*types.Pointer); ok {
			return "P:" + typeKey(p.Elem())
		}
	}
	if p, ok := addr.Type().Underlying().(*types.Pointer); ok {
		return "P:" + typeKey(p.Elem())
	}
	return "?"
}

// collectKills records, per location class, the instructions that may write it.
func (pf *pfunc) collectKills() {
	pf.kills = map[string][]ppos{}
	for _, b := range pf.fn.Blocks {
		for i, ins := range b.Instrs {
			at := ppos{b, i}
			switch x := ins.(type) {
			case *ssa.Store:
				cl := pf.classOfAddr(x.Addr)
				pf.kills[cl] = append(pf.kills[cl], at)
				// store of a whole struct kills its fields; store through *T kills P:T too
				if p, ok := x.Addr.Type().Underlying().(*types.Pointer); ok {
					if _, isStruct := p.Elem().Underlying().(*types.Struct); isStruct {
						pf.kills["S:"+typeKey(p.Elem())] = append(pf.kills["S:"+typeKey(p.Elem())], at)
					}
					pf.kills["P:"+typeKey(p.Elem())] = append(pf.kills["P:"+typeKey(p.Elem())], at)
					// an element store may alias field storage of the same type and vice versa: handled by E:/P: pairing below
					pf.kills["E:"+typeKey(p.Elem())] = append(pf.kills["E:"+typeKey(p.Elem())], at)
				}
			case *ssa.MapUpdate:
				pf.kills["M"] = append(pf.kills["M"], at)
			case ssa.CallInstruction:
				pf.allCallKills = append(pf.allCallKills, at)
			}
		}
	}
}

// callKills reports whether the call at position p may write location class cl
// (addrArgs: the alloc whose address would have to be passed for A: classes).
func (pf *pfunc) callKills(ci ssa.CallInstruction, cl string, alloc *ssa.Alloc) bool {
	cm := ci.Common()
	if b, ok := cm.Value.(*ssa.Builtin); ok {
		switch b.Name() {
		case "copy", "append":
			return strings.HasPrefix(cl, "E:") || cl == "*"
		case "delete":
			return cl == "M" || cl == "*"
		}
		return false
	}
	if strings.HasPrefix(cl, "A:") {
		// a local is written by a call only when its address (or something derived from it) was passed or has escaped
		return pf.allocEscapesTo(alloc, ci)
	}
	targets := pf.P.calleesOf(ci)
	if len(targets) == 0 {
		if cm.StaticCallee() == nil {
			// user-supplied function value: cannot name the library's unexported state; assumed not to write it
			return false
		}
	}
	for _, callee := range targets {
		if sum, ok := pf.P.O.Sums[callee]; ok {
			if pf.summaryKills(sum, cl) {
				return true
			}
			continue
		}
		// external function: writes only through contracts
		if ct, ok := extContractFor(callee); ok {
			if len(ct.writes) > 0 && (strings.HasPrefix(cl, "E:") || strings.HasPrefix(cl, "P:")) {
				return true
			}
			if len(ct.writes) > 0 && callee.Pkg != nil && callee.Pkg.Pkg.Path() == "encoding/json" {
				return true // decodes into arbitrary fields
			}
			continue
		}
		return true
	}
	return false
}

func extContractFor(callee *ssa.Function) (extContract, bool) {
	if ct, ok := extContracts[callee.String()]; ok {
		return ct, true
	}
	return extContractByPkg(callee)
}

func (pf *pfunc) summaryKills(sum *OSummary, cl string) bool {
	// the write summary lists every write to memory the caller can see (reachable from arguments,
	// receiver or globals); a callee without any - it only fills objects it allocated itself, like
	// Tx.Clone - changes nothing a caller's load could observe
	if len(sum.Writes) == 0 {
		return false
	}
	switch {
	case strings.HasPrefix(cl, "F:"):
		// F:pkg.Type.field  vs FieldsStored "Type.field" / "Type.*"
		rest := cl[2:]
		i := strings.LastIndex(rest, ".")
		tn, fld := rest[:i], rest[i+1:]
		if j := strings.LastIndex(tn, "."); j >= 0 {
			tn = tn[j+1:]
		}
		return sum.FieldsStored[tn+"."+fld] || sum.FieldsStored[tn+".*"]
	case strings.HasPrefix(cl, "G:"):
		for _, w := range sum.Writes {
			if w.Root == cl {
				return true
			}
		}
		return false
	case cl == "M":
		for _, w := range sum.Writes {
			if w.Kind == "mapupdate" {
				return true
			}
		}
		return false
	case strings.HasPrefix(cl, "E:"):
		// element of a slice/array: only writes to elements of caller-visible memory matter
		for _, w := range sum.Writes {
			if strings.HasSuffix(w.Path, "[*]") || w.Kind == "copy" || w.Kind == "append" || w.Kind == "ext" {
				return true
			}
		}
		return false
	default: // P:, S:
		return len(sum.Writes) > 0
	}
}

// allocEscapesTo: is the address of alloc (or a derived address) an argument of
// the call, or has it been stored anywhere (escaped)?
func (pf *pfunc) allocEscapesTo(alloc *ssa.Alloc, ci ssa.CallInstruction) bool {
	if alloc == nil {
		return true
	}
	derived := map[ssa.Value]bool{alloc: true}
	changed := true
	escaped := false
	for changed {
		changed = false
		for v := range derived {
			refs := v.Referrers()
			if refs == nil {
				continue
			}
			for _, r := range *refs {
				switch x := r.(type) {
				case *ssa.FieldAddr, *ssa.IndexAddr, *ssa.Slice, *ssa.ChangeType, *ssa.MakeInterface, *ssa.Phi:
					if rv := r.(ssa.Value); !derived[rv] {
						derived[rv] = true
						changed = true
					}
				case *ssa.Store:
					if derived[x.Val] {
						escaped = true
					}
				case *ssa.MakeClosure:
					escaped = true
				}
			}
		}
	}
	if escaped {
		return true
	}
	cm := ci.Common()
	if cm.IsInvoke() && derived[cm.Value] {
		return true
	}
	for _, a := range cm.Args {
		if derived[a] {
			return true
		}
	}
	return false
}

// killedBetween: may location class cl be written on some path from position a
// (exclusive) to position b (exclusive)? a must dominate b.
func (pf *pfunc) killedBetween(a, b ppos, cl string, alloc *ssa.Alloc) bool {
	isKill := func(p ppos) bool {
		ins := p.b.Instrs[p.i]
		switch x := ins.(type) {
		case *ssa.Store:
			k := pf.classOfAddr(x.Addr)
			if cl == "*" {
				return !strings.HasPrefix(k, "A:") // any store that is not to a local variable
			}
			if k == cl {
				return true
			}
			if pt, ok := x.Addr.Type().Underlying().(*types.Pointer); ok {
				tk := typeKey(pt.Elem())
				if cl == "E:"+tk || cl == "P:"+tk {
					return true
				}
				// whole-struct store kills the fields of that struct type
				if strings.HasPrefix(cl, "F:"+tk+".") {
					return true
				}
			}
			return false
		case *ssa.MapUpdate:
			return cl == "M" || cl == "*"
		case ssa.CallInstruction:
			return pf.callKills(x, cl, alloc)
		}
		return false
	}
	// scan backwards from b
	seen := map[*ssa.BasicBlock]bool{}
	var scanBlock func(blk *ssa.BasicBlock, from int) bool
	scanBlock = func(blk *ssa.BasicBlock, from int) bool {
		// scan instructions from index from-1 down to 0 (or to a.i+1 when blk == a.b)
		lo := 0
		if blk == a.b {
			lo = a.i + 1
		}
		for i := from - 1; i >= lo; i-- {
			if isKill(ppos{blk, i}) {
				return true
			}
		}
		if blk == a.b {
			return false
		}
		for _, p := range blk.Preds {
			if seen[p] {
				continue
			}
			seen[p] = true
			if scanBlock(p, len(p.Instrs)) {
				return true
			}
		}
		return false
	}
	if a.b == b.b && a.i <= b.i {
		// same block, straight line — unless the block is in a loop and re-entered, which
		// cannot happen without passing a again
		for i := b.i - 1; i > a.i; i-- {
			if isKill(ppos{a.b, i}) {
				return true
			}
		}
		return false
	}
	return scanBlock(b.b, b.i)
}

func (pf *pfunc) constVN(c constant.Value, t types.Type) *vn {
	k := "nil"
	if c != nil {
		k = c.ExactString()
	}
	return pf.intern(&vn{key: "c:" + k, op: "const", c: c, typ: t})
}

func (pf *pfunc) mk(op string, typ types.Type, name string, tok token.Token, args ...*vn) *vn {
	var ks []string
	for _, a := range args {
		ks = append(ks, a.key)
	}
	key := op
	if name != "" {
		key += ":" + name
	}
	if tok != token.ILLEGAL {
		key += tok.String()
	}
	key += "(" + strings.Join(ks, ",") + ")"
	return pf.intern(&vn{key: key, op: op, typ: typ, name: name, tok: tok, args: args})
}

func (pf *pfunc) get(v ssa.Value) *vn {
	if n, ok := pf.vns[v]; ok {
		return n
	}
	// values not yet numbered (operands defined later in dominance order, e.g. phi back edges) or non-instruction values
	switch x := v.(type) {
	case *ssa.Const:
		n := pf.constVN(x.Value, x.Type())
		pf.vns[v] = n
		return n
	case *ssa.Parameter:
		idx := -1
		for i, p := range pf.fn.Params {
			if p == x {
				idx = i
			}
		}
		n := pf.intern(&vn{key: fmt.Sprintf("p%d", idx), op: "param", typ: x.Type(), name: fmt.Sprint(idx), val: x})
		pf.vns[v] = n
		return n
	case *ssa.FreeVar:
		n := pf.intern(&vn{key: "fv:" + x.Name(), op: "free", typ: x.Type(), val: x})
		pf.vns[v] = n
		return n
	case *ssa.Global:
		n := pf.intern(&vn{key: "g:" + x.Pkg.Pkg.Name() + "." + x.Name(), op: "global", typ: x.Type(), val: x})
		pf.vns[v] = n
		return n
	case *ssa.Function:
		n := pf.intern(&vn{key: "fn:" + funcName(x), op: "func", typ: x.Type(), val: x})
		pf.vns[v] = n
		return n
	case *ssa.Builtin:
		n := pf.intern(&vn{key: "builtin:" + x.Name(), op: "func", typ: x.Type(), val: x})
		pf.vns[v] = n
		return n
	}
	// forward reference (loop-carried): opaque placeholder unique to the SSA value
	n := pf.intern(&vn{key: "fwd:" + v.Name() + "@" + instrOrdinal(v), op: "opaque", typ: v.Type(), val: v})
	pf.vns[v] = n
	return n
}

func (pf *pfunc) number(v ssa.Value, at ppos) *vn {
	if n, ok := pf.vns[v]; ok && n.op != "opaque" {
		return n
	}
	n := pf.numberAt(v, at, nil)
	if n.val == nil {
		n.val = v
	}
	pf.vns[v] = n
	return n
}

// numberAt computes the number of value v as if evaluated at position at. subst
// maps the parameters of an inlined callee to caller numbers (nil for the
// function's own values).
func (pf *pfunc) numberAt(v ssa.Value, at ppos, subst map[ssa.Value]*vn) *vn {
	g := func(x ssa.Value) *vn {
		if subst != nil {
			if n, ok := subst[x]; ok {
				return n
			}
			switch x.(type) {
			case *ssa.Const, *ssa.Global, *ssa.Function, *ssa.Builtin:
				return pf.get(x)
			}
			n := pf.numberAt(x, at, subst)
			subst[x] = n
			return n
		}
		return pf.get(x)
	}
	switch x := v.(type) {
	case *ssa.Const, *ssa.Parameter, *ssa.FreeVar, *ssa.Global, *ssa.Function, *ssa.Builtin:
		if subst != nil {
			if n, ok := subst[v]; ok {
				return n
			}
			if _, isP := v.(*ssa.Parameter); isP {
				return pf.intern(&vn{key: pf.uniq("calleeparam"), op: "opaque", typ: v.Type()})
			}
		}
		return pf.get(v)
	case *ssa.FieldAddr:
		return pf.mk("fieldaddr", x.Type(), structFieldClass(x.X.Type(), x.Field), token.ILLEGAL, g(x.X))
	case *ssa.Field:
		base := g(x.X)
		if base.op == "load" {
			cls := structFieldClass(x.X.Type(), x.Field)
			a := pf.mk("fieldaddr", types.NewPointer(x.Type()), cls, token.ILLEGAL, base.args[0])
			return pf.loadAt(a, nil, x.Type(), base.at)
		}
		return pf.mk("field", x.Type(), fieldName(x.X.Type(), x.Field), token.ILLEGAL, g(x.X))
	case *ssa.IndexAddr:
		return pf.mk("indexaddr", x.Type(), "", token.ILLEGAL, g(x.X), g(x.Index))
	case *ssa.Index:
		return pf.mk("index", x.Type(), "", token.ILLEGAL, g(x.X), g(x.Index))
	case *ssa.BinOp:
		return pf.mk("bin", x.Type(), "", x.Op, g(x.X), g(x.Y))
	case *ssa.Convert:
		return pf.mk("conv", x.Type(), typeKey(x.Type()), token.ILLEGAL, g(x.X))
	case *ssa.ChangeType:
		n := g(x.X)
		return n
	case *ssa.MakeInterface:
		return pf.mk("mkiface", x.Type(), "", token.ILLEGAL, g(x.X))
	case *ssa.Slice:
		args := []*vn{g(x.X), nil, nil}
		if x.Low != nil {
			args[1] = g(x.Low)
		} else {
			args[1] = pf.constVN(constant.MakeInt64(0), types.Typ[types.Int])
		}
		if x.High != nil {
			args[2] = g(x.High)
		} else {
			args[2] = pf.lenOf(args[0], x.X.Type())
		}
		return pf.mk("slice", x.Type(), "", token.ILLEGAL, args...)
	case *ssa.Extract:
		return pf.mk("extract", x.Type(), fmt.Sprint(x.Index), token.ILLEGAL, g(x.Tuple))
	case *ssa.UnOp:
		if x.Op == token.MUL {
			// a local captured by a function literal and assigned once: the value it was given
			if al, ok := x.X.(*ssa.Alloc); ok && subst == nil {
				if v, ok := cellValue(al); ok {
					return g(v)
				}
			}
			if subst != nil {
				// field of a by-value parameter that the callee spilled into a local
				if src, path, ok := spillSource(x.X); ok {
					sv := g(src)
					for i := len(path) - 1; i >= 0 && sv != nil; i-- {
						fa := path[i]
						sv = pf.fieldOfValue(sv, structFieldClass(fa.X.Type(), fa.Field), fieldName(fa.X.Type(), fa.Field), fa.Type())
					}
					if sv != nil {
						return sv
					}
				}
			}
			return pf.loadAt(g(x.X), x.X, x.Type(), at)
		}
		return pf.mk("un", x.Type(), "", x.Op, g(x.X))
	case *ssa.Call:
		cm := x.Common()
		if b, ok := cm.Value.(*ssa.Builtin); ok {
			switch b.Name() {
			case "len":
				return pf.lenOf(g(cm.Args[0]), cm.Args[0].Type())
			case "cap":
				return pf.mk("cap", x.Type(), "", token.ILLEGAL, g(cm.Args[0]))
			case "append":
				if len(cm.Args) == 2 {
					return pf.mk("append", x.Type(), pf.uniq("ap"), token.ILLEGAL, g(cm.Args[0]), g(cm.Args[1]))
				}
				return g(cm.Args[0])
			case "copy":
				// the number of bytes copied: min(len(dst), len(src))
				return pf.mk("copy", x.Type(), pf.uniq("cp"), token.ILLEGAL, g(cm.Args[0]), g(cm.Args[1]))
			}
		}
		if sc := cm.StaticCallee(); sc != nil && subst == nil || sc != nil && pf.inlineDepth < 3 {
			if r := pf.inlineGetter(sc, cm, at, g); r != nil {
				return r
			}
		}
		// a module function that writes nothing and allocates nothing returns the same value for the same
		// arguments as long as no memory it could read was written in between: the earlier call's number
		var argv []*vn
		for _, a := range cm.Args {
			argv = append(argv, g(a))
		}
		pureKey := ""
		if sc := cm.StaticCallee(); sc != nil && subst == nil && inScope(pkgPathOf(sc)) && pf.P.pureReader(sc) {
			pureKey = "pcall:" + funcName(sc) + "("
			for _, a := range argv {
				pureKey += a.key + ","
			}
			pureKey += ")"
			var best *loadEvent
			for _, ev := range pf.loads[pureKey] {
				if ev.at == at {
					return ev.v
				}
				if !pf.posDominates(ev.at, at) {
					continue
				}
				if best == nil || pf.posDominates(best.at, ev.at) {
					best = ev
				}
			}
			if best != nil && !pf.killedBetween(best.at, at, "*", nil) {
				pf.loads[pureKey] = append(pf.loads[pureKey], &loadEvent{addrKey: pureKey, at: at, v: best.v, class: "*"})
				return best.v
			}
		}
		n := pf.intern(&vn{key: pf.uniq("call:" + calleeLabel(cm)), op: "call", typ: x.Type(), name: calleeLabel(cm), at: at, val: x})
		n.args = append(n.args, argv...)
		if pureKey != "" {
			pf.loads[pureKey] = append(pf.loads[pureKey], &loadEvent{addrKey: pureKey, at: at, v: n, class: "*"})
		}
		return n
	case *ssa.MakeSlice:
		return pf.intern(&vn{key: pf.uniq("makeslice"), op: "makeslice", typ: x.Type(), args: []*vn{g(x.Len), g(x.Cap)}})
	case *ssa.Alloc:
		if subst != nil {
			return pf.intern(&vn{key: pf.uniq("alloc"), op: "alloc", typ: x.Type()})
		}
		return pf.intern(&vn{key: "alloc#" + instrOrdinal(x), op: "alloc", typ: x.Type(), val: x})
	case *ssa.Phi:
		if subst != nil {
			return pf.intern(&vn{key: pf.uniq("phi"), op: "opaque", typ: x.Type()})
		}
		return pf.intern(&vn{key: fmt.Sprintf("phi@b%d.%s", x.Block().Index, instrOrdinal(x)), op: "phi", typ: x.Type(), val: x})
	case *ssa.Lookup:
		return pf.intern(&vn{key: pf.uniq("lookup"), op: "lookup", typ: x.Type(), args: []*vn{g(x.X), g(x.Index)}})
	case *ssa.TypeAssert:
		return pf.intern(&vn{key: pf.uniq("typeassert"), op: "typeassert", typ: x.Type(), args: []*vn{g(x.X)}})
	case *ssa.MakeMap, *ssa.MakeChan, *ssa.MakeClosure:
		return pf.intern(&vn{key: pf.uniq("make"), op: "alloc", typ: v.Type()})
	}
	return pf.intern(&vn{key: pf.uniq("opaque"), op: "opaque", typ: v.Type()})
}

func calleeLabel(cm *ssa.CallCommon) string {
	if sc := cm.StaticCallee(); sc != nil {
		return funcName(sc)
	}
	if cm.IsInvoke() {
		return "invoke." + cm.Method.Name()
	}
	return "dynamic"
}

// lenOf builds len(x) with simplifications.
func (pf *pfunc) lenOf(x *vn, t types.Type) *vn {
	it := types.Typ[types.Int]
	switch u := t.Underlying().(type) {
	case *types.Array:
		return pf.constVN(constant.MakeInt64(u.Len()), it)
	case *types.Pointer:
		if a, ok := u.Elem().Underlying().(*types.Array); ok {
			return pf.constVN(constant.MakeInt64(a.Len()), it)
		}
	}
	if x.op == "const" && x.c != nil && x.c.Kind() == constant.String {
		return pf.constVN(constant.MakeInt64(int64(len(constant.StringVal(x.c)))), it)
	}
	return pf.mk("len", it, "", token.ILLEGAL, x)
}

// loadAt numbers a load of address addr at position at.
func (pf *pfunc) loadAt(addr *vn, addrVal ssa.Value, typ types.Type, at ppos) *vn {
	var cl string
	var alloc *ssa.Alloc
	switch addr.op {
	case "fieldaddr":
		cl = addr.name
	case "alloc":
		if a, ok := addr.val.(*ssa.Alloc); ok {
			cl = "A:" + instrOrdinal(a)
			alloc = a
		} else {
			cl = "P:" + typeKey(typ)
		}
	case "global":
		cl = "G:" + strings.TrimPrefix(addr.key, "g:")
	case "indexaddr":
		cl = "E:" + typeKey(typ)
	default:
		cl = "P:" + typeKey(typ)
	}
	// the latest event (earlier load or store of this address) that dominates the position:
	// events on a dominator chain are totally ordered
	var best *loadEvent
	for _, ev := range pf.loads[addr.key] {
		if !pf.posDominates(ev.at, at) {
			continue
		}
		if ev.at == at && !ev.isStore {
			return ev.v
		}
		if ev.at == at {
			continue
		}
		if best == nil || pf.posDominates(best.at, ev.at) {
			best = ev
		}
	}
	if best != nil && !pf.killedBetween(best.at, at, cl, alloc) {
		pf.loads[addr.key] = append(pf.loads[addr.key], &loadEvent{addrKey: addr.key, at: at, v: best.v, class: cl})
		return best.v
	}
	// field of a local struct that was initialised by one whole-struct store (spilled by-value
	// parameter or copy): the field of the stored value
	if addr.op == "fieldaddr" {
		if r := pf.forwardStructField(addr, typ, at); r != nil {
			pf.loads[addr.key] = append(pf.loads[addr.key], &loadEvent{addrKey: addr.key, at: at, v: r, class: cl})
			return r
		}
	}
	// No usable earlier load. The version is the highest dominator D of the load such that
	// nothing writes the location between D's entry and the load: all loads below D (until
	// the next write) see the value the location had when D was entered.
	d := at.b
	dpos := ppos{d, -1}
	if pf.killedBetween(dpos, at, cl, alloc) {
		// written earlier in the same block: unique version at this position
		ver := fmt.Sprintf("b%d.%d", at.b.Index, at.i)
		n := pf.intern(&vn{key: "load(" + addr.key + ")@" + ver, op: "load", typ: typ, args: []*vn{addr}, at: at, name: cl})
		pf.loads[addr.key] = append(pf.loads[addr.key], &loadEvent{addrKey: addr.key, at: at, v: n, class: cl})
		return n
	}
	for d.Idom() != nil && !pf.killedBetween(ppos{d.Idom(), -1}, at, cl, alloc) {
		d = d.Idom()
	}
	ver := fmt.Sprintf("m%d", d.Index)
	if d == pf.fn.Blocks[0] {
		ver = "entry"
	}
	n := pf.intern(&vn{key: "load(" + addr.key + ")@" + ver, op: "load", typ: typ, args: []*vn{addr}, at: ppos{d, -1}, name: cl})
	pf.loads[addr.key] = append(pf.loads[addr.key], &loadEvent{addrKey: addr.key, at: ppos{d, -1}, v: n, class: cl})
	return n
}

// forwardStructField handles load(&local.f...) where local was assigned as a whole exactly once
// (dominating the load) and no field of it is stored separately: the result is the
// corresponding field of the stored struct value.
func (pf *pfunc) forwardStructField(addr *vn, typ types.Type, at ppos) *vn {
	// collect the field path down to the alloc
	var path []*vn
	cur := addr
	for cur.op == "fieldaddr" {
		path = append(path, cur)
		cur = cur.args[0]
	}
	if cur.op != "alloc" {
		return nil
	}
	al, ok := cur.val.(*ssa.Alloc)
	if !ok {
		return nil
	}
	// all stores into the alloc (or derived addresses)
	var whole *ssa.Store
	refs := al.Referrers()
	if refs == nil {
		return nil
	}
	for _, r := range *refs {
		switch x := r.(type) {
		case *ssa.Store:
			if x.Addr == al {
				if whole != nil {
					return nil
				}
				whole = x
			}
		case *ssa.FieldAddr:
			if fieldAddrWritten(x, 0) {
				return nil
			}
		case *ssa.UnOp, *ssa.DebugRef:
		default:
			return nil // address escapes (call argument etc.)
		}
	}
	if whole == nil {
		return nil
	}
	wp, ok := pf.posOf[whole]
	if !ok || !pf.posDominates(wp, at) {
		return nil
	}
	sv := pf.get(whole.Val)
	// apply the field path from outermost to innermost
	for i := len(path) - 1; i >= 0; i-- {
		fa := path[i]
		fname := fa.name[strings.LastIndex(fa.name, ".")+1:]
		sv = pf.fieldOfValue(sv, fa.name, fname, fa.typ)
		if sv == nil {
			return nil
		}
	}
	return sv
}

// spillSource: addr is &local.f1...fn where local is an Alloc written exactly once, as a
// whole, with a parameter value, and never through its fields: returns that parameter
// and the field path (outermost last).
func spillSource(addr ssa.Value) (ssa.Value, []*ssa.FieldAddr, bool) {
	var path []*ssa.FieldAddr
	cur := addr
	for {
		fa, ok := cur.(*ssa.FieldAddr)
		if !ok {
			break
		}
		path = append(path, fa)
		cur = fa.X
	}
	al, ok := cur.(*ssa.Alloc)
	if !ok || len(path) == 0 {
		return nil, nil, false
	}
	refs := al.Referrers()
	if refs == nil {
		return nil, nil, false
	}
	var whole *ssa.Store
	for _, r := range *refs {
		switch x := r.(type) {
		case *ssa.Store:
			if x.Addr != al || whole != nil {
				return nil, nil, false
			}
			whole = x
		case *ssa.FieldAddr:
			if fieldAddrWritten(x, 0) {
				return nil, nil, false
			}
		case *ssa.UnOp, *ssa.DebugRef:
		default:
			return nil, nil, false
		}
	}
	if whole == nil {
		return nil, nil, false
	}
	if _, isParam := whole.Val.(*ssa.Parameter); !isParam {
		return nil, nil, false
	}
	return whole.Val, path, true
}

// fieldAddrWritten: is the field address (or a nested field address) ever stored to or escaping?
func fieldAddrWritten(fa *ssa.FieldAddr, depth int) bool {
	if depth > 4 {
		return true
	}
	refs := fa.Referrers()
	if refs == nil {
		return false
	}
	for _, r := range *refs {
		switch x := r.(type) {
		case *ssa.Store:
			if x.Addr == fa {
				return true
			}
			return true // address stored somewhere: escapes
		case *ssa.FieldAddr:
			if fieldAddrWritten(x, depth+1) {
				return true
			}
		case *ssa.UnOp, *ssa.DebugRef, *ssa.IndexAddr:
		default:
			return true
		}
	}
	return false
}

// fieldOfValue: field f of struct value sv. If sv is itself a load from address a, this is
// the load of &a.f at the same position (same memory state).
func (pf *pfunc) fieldOfValue(sv *vn, class, fname string, ptrTyp types.Type) *vn {
	var ft types.Type
	if p, ok := ptrTyp.Underlying().(*types.Pointer); ok {
		ft = p.Elem()
	} else {
		return nil
	}
	if sv.op == "load" {
		a := pf.mk("fieldaddr", ptrTyp, class, token.ILLEGAL, sv.args[0])
		return pf.loadAt(a, nil, ft, sv.at)
	}
	return pf.mk("field", ft, fname, token.ILLEGAL, sv)
}

// inlineGetter: a callee consisting of one block without stores or calls (other
// than len/cap and further getters) is a pure expression of its parameters and
// of memory at the call position.
func (pf *pfunc) inlineGetter(sc *ssa.Function, cm *ssa.CallCommon, at ppos, g func(ssa.Value) *vn) *vn {
	if len(sc.Blocks) != 1 || sc.Signature.Results().Len() != 1 {
		return nil
	}
	var ret *ssa.Return
	for _, ins := range sc.Blocks[0].Instrs {
		switch x := ins.(type) {
		case *ssa.Return:
			ret = x
		case *ssa.Store, *ssa.MapUpdate, *ssa.Defer, *ssa.Go, *ssa.Send, *ssa.Panic:
			return nil
		case *ssa.Call:
			if _, ok := x.Call.Value.(*ssa.Builtin); ok {
				continue
			}
			if x.Call.StaticCallee() == nil {
				return nil
			}
			// nested getter: allowed, checked recursively when numbered
		case *ssa.Alloc, *ssa.MakeSlice, *ssa.MakeMap, *ssa.MakeClosure, *ssa.MakeInterface:
			return nil
		}
	}
	if ret == nil || len(ret.Results) != 1 {
		return nil
	}
	subst := map[ssa.Value]*vn{}
	for i, p := range sc.Params {
		if i < len(cm.Args) {
			subst[p] = g(cm.Args[i])
		}
	}
	pf.inlineDepth++
	defer func() { pf.inlineDepth-- }()
	r := pf.numberAt(ret.Results[0], at, subst)
	if containsOp(r, "call", 0) {
		return nil // a nested call that is not itself a getter: give up, keep the call opaque
	}
	return r
}

func containsOp(n *vn, op string, depth int) bool {
	if n == nil || depth > 12 {
		return false
	}
	if n.op == op {
		return true
	}
	for _, a := range n.args {
		if containsOp(a, op, depth+1) {
			return true
		}
	}
	return false
}

// ---------------------------------------------------------------------
// linear forms over atoms (vn keys)

type lin struct {
	c     *big.Rat
	coef  map[string]*big.Rat
	atoms map[string]*vn
}

func newLin() *lin {
	return &lin{c: new(big.Rat), coef: map[string]*big.Rat{}, atoms: map[string]*vn{}}
}

func linConst(i *big.Int) *lin {
	l := newLin()
	l.c.SetInt(i)
	return l
}

func linAtom(a *vn) *lin {
	l := newLin()
	l.coef[a.key] = big.NewRat(1, 1)
	l.atoms[a.key] = a
	return l
}

func (l *lin) clone() *lin {
	n := newLin()
	n.c.Set(l.c)
	for k, v := range l.coef {
		n.coef[k] = new(big.Rat).Set(v)
		n.atoms[k] = l.atoms[k]
	}
	return n
}

func (l *lin) addScaled(o *lin, s *big.Rat) *lin {
	n := l.clone()
	n.c.Add(n.c, new(big.Rat).Mul(o.c, s))
	for k, v := range o.coef {
		t := new(big.Rat).Mul(v, s)
		if cur, ok := n.coef[k]; ok {
			cur.Add(cur, t)
			if cur.Sign() == 0 {
				delete(n.coef, k)
				delete(n.atoms, k)
			}
		} else if t.Sign() != 0 {
			n.coef[k] = t
			n.atoms[k] = o.atoms[k]
		}
	}
	return n
}

func (l *lin) add(o *lin) *lin { return l.addScaled(o, big.NewRat(1, 1)) }
func (l *lin) sub(o *lin) *lin { return l.addScaled(o, big.NewRat(-1, 1)) }
func (l *lin) addConst(i int64) *lin {
	n := l.clone()
	n.c.Add(n.c, big.NewRat(i, 1))
	return n
}
func (l *lin) neg() *lin { return newLin().sub(l) }

func (l *lin) isConst() bool { return len(l.coef) == 0 }

func (l *lin) String() string {
	var ks []string
	for k := range l.coef {
		ks = append(ks, k)
	}
	sort.Strings(ks)
	var parts []string
	for _, k := range ks {
		parts = append(parts, l.coef[k].RatString()+"*"+k)
	}
	parts = append(parts, l.c.RatString())
	return strings.Join(parts, " + ")
}

func isIntType(t types.Type) bool {
	b, ok := t.Underlying().(*types.Basic)
	return ok && b.Info()&types.IsInteger != 0
}

// linOf returns the linear form of an integer-valued number.
func (pf *pfunc) linOf(n *vn) *lin {
	return pf.linOfD(n, 0)
}

func (pf *pfunc) linOfD(n *vn, depth int) *lin {
	if depth > 30 {
		return linAtom(n)
	}
	switch n.op {
	case "const":
		if v, ok := constValInt(n.c); ok {
			return linConst(v)
		}
	case "bin":
		if !isIntType(n.typ) {
			break
		}
		x, y := pf.linOfD(n.args[0], depth+1), pf.linOfD(n.args[1], depth+1)
		switch n.tok {
		case token.ADD:
			if pf.noOverflow(n) {
				return x.add(y)
			}
		case token.SUB:
			if pf.noOverflow(n) {
				return x.sub(y)
			}
		case token.MUL:
			if pf.noOverflow(n) {
				if x.isConst() {
					return newLin().addScaled(y, x.c)
				}
				if y.isConst() {
					return newLin().addScaled(x, y.c)
				}
			}
		}
	case "un":
		if n.tok == token.SUB && isIntType(n.typ) && pf.noOverflow(&vn{typ: n.typ, tok: token.ADD}) {
			return pf.linOfD(n.args[0], depth+1).neg()
		}
	case "conv":
		if isIntType(n.typ) && isIntType(n.args[0].typ) {
			if convPreserves(n.args[0], n.typ) {
				return pf.linOfD(n.args[0], depth+1)
			}
		}
	case "copy":
		// min(len(dst), len(src)): decided when one length exceeds the other by a sum of lengths
		ld := pf.linOfD(pf.mkLen(n.args[0]), depth+1)
		ls := pf.linOfD(pf.mkLen(n.args[1]), depth+1)
		if nonNegLenSum(ld.sub(ls)) {
			return ls
		}
		if nonNegLenSum(ls.sub(ld)) {
			return ld
		}
	case "len":
		a := n.args[0]
		switch a.op {
		case "slice":
			// len(x[lo:hi]) = hi - lo
			return pf.linOfD(a.args[2], depth+1).sub(pf.linOfD(a.args[1], depth+1))
		case "makeslice":
			return pf.linOfD(a.args[0], depth+1)
		case "append":
			// len(append(a, b...)) = len(a) + len(b)
			if a.args[1] != nil {
				la := pf.linOfD(pf.mkLen(a.args[0]), depth+1)
				lb := pf.linOfD(pf.mkLen(a.args[1]), depth+1)
				return la.add(lb)
			}
		case "call":
			for suffix, l := range resultLen {
				if strings.HasPrefix(a.name, suffix) {
					return linConst(big.NewInt(l))
				}
			}
		case "conv":
			// string <-> []byte conversions keep the length
			if isStringOrBytes(a.typ) && isStringOrBytes(a.args[0].typ) {
				return pf.linOfD(pf.mkLen(a.args[0]), depth+1)
			}
		}
	}
	return linAtom(n)
}

// nonNegLenSum: a linear form that is a non-negative constant plus non-negative multiples of lengths.
func nonNegLenSum(l *lin) bool {
	if l.c.Sign() < 0 {
		return false
	}
	for k, co := range l.coef {
		if co.Sign() < 0 {
			return false
		}
		if a := l.atoms[k]; a == nil || (a.op != "len" && a.op != "cap") {
			return false
		}
	}
	return true
}

// resultLen: fixed result lengths of trusted external functions (contracts).
var resultLen = map[string]int64{
	"github.com/libsv/go-bk/crypto.Sha256d":   32,
	"github.com/libsv/go-bk/crypto.Sha256":    32,
	"github.com/libsv/go-bk/crypto.Hash160":   20,
	"github.com/libsv/go-bk/crypto.Ripemd160": 20,
}

func isStringOrBytes(t types.Type) bool {
	switch u := t.Underlying().(type) {
	case *types.Basic:
		return u.Info()&types.IsString != 0
	case *types.Slice:
		if b, ok := u.Elem().Underlying().(*types.Basic); ok {
			return b.Kind() == types.Uint8 || b.Kind() == types.Int32
		}
	}
	return false
}

func (pf *pfunc) mkLen(x *vn) *vn {
	return pf.lenOf(x, x.typ)
}

// noOverflow: integer arithmetic is treated as exact for int/int64/uint64-sized
// quantities built from lengths and small constants; for narrower types wrap
// around is possible and the operation is kept opaque unless operands are
// lengths or constants.
func (pf *pfunc) noOverflow(n *vn) bool {
	b, ok := n.typ.Underlying().(*types.Basic)
	if !ok {
		return false
	}
	switch b.Kind() {
	case types.Int, types.Int64, types.UntypedInt:
		return true
	case types.Int32:
		// stack depths and indexes: far from the type's limits (assumption A-len)
		return !decodedOperand(n)
	case types.Uint32:
		// a 32-bit quantity decoded from untrusted bytes (binary.LittleEndian.Uint32) can be anything: 5 + l
		// wraps for l near 2^32. Such a sum is exact only where the facts at hand show the result fits (pfacts:
		// "arithmetic does not wrap"); 32-bit parameters and lengths (input numbers, counts) stay exact
		return n.tok != token.SUB && !decodedOperand(n)
	case types.Uint, types.Uint64, types.Uintptr:
		// unsigned subtraction can wrap: exact only for ADD/MUL
		return n.tok != token.SUB
	case types.Uint8, types.Uint16, types.Int8, types.Int16:
		return false
	}
	return false
}

// decodedOperand: an operand of the operation is (a conversion of) a fixed-width integer decoded from bytes.
func decodedOperand(n *vn) bool {
	for _, a := range n.args {
		x := a
		for x != nil && x.op == "conv" && len(x.args) == 1 {
			x = x.args[0]
		}
		if x != nil && x.op == "call" && (strings.Contains(x.name, "Endian.Uint") || strings.Contains(x.name, "Endian).Uint")) {
			return true
		}
		// the same decode read through (b[0] | b[1]<<8 | ...)
		if x != nil && x.op == "bin" && (x.tok == token.OR || x.tok == token.SHL) {
			return true
		}
	}
	return false
}

// convPreserves: does converting value x to type t preserve the integer value?
func convPreserves(x *vn, t types.Type) bool {
	slo, shi, ok1 := valueRange(x)
	tlo, thi, ok2 := intTypeRange(t)
	if !ok1 || !ok2 {
		return false
	}
	return slo.Cmp(tlo) >= 0 && shi.Cmp(thi) <= 0
}

// callRangeHook (set by the P engine) gives the range of a call's integer
// result when every possible callee is a module function with a single return
// whose value has a known syntactic range.
var callRangeHook func(*vn) (lo, hi *big.Int, ok bool)

// valueRange: a cheap syntactic range of an integer number (type range, refined
// for len/cap, byte loads and constants). Slice lengths are assumed < 2^31
// only for the int32(len(x)) idiom — see assumptions.
func valueRange(x *vn) (lo, hi *big.Int, ok bool) {
	if x.op == "const" {
		if v, ok := constValInt(x.c); ok {
			return v, v, true
		}
	}
	tlo, thi, ok := intTypeRange(x.typ)
	if !ok {
		return nil, nil, false
	}
	switch x.op {
	case "lookup", "index", "extract":
		// an element of a constant table lies between its smallest and largest entry
		if x.op == "extract" {
			if x.name != "0" || len(x.args) != 1 || x.args[0].op != "lookup" {
				break
			}
			x = x.args[0]
		}
		if len(x.args) == 2 {
			a := x.args[0]
			for a != nil && (a.op == "load" || a.op == "conv") && len(a.args) >= 1 {
				a = a.args[0]
			}
			if a != nil && a.op == "global" {
				if g, ok := a.val.(*ssa.Global); ok {
					if tab := constTableOf(theProg, g); tab != nil && tab.lo.Cmp(tlo) >= 0 && tab.hi.Cmp(thi) <= 0 {
						return tab.lo, tab.hi, true
					}
				}
			}
		}
	case "call":
		if callRangeHook != nil {
			if l2, h2, ok2 := callRangeHook(x); ok2 && l2.Cmp(tlo) >= 0 && h2.Cmp(thi) <= 0 {
				return l2, h2, true
			}
		}
	case "len", "cap":
		return big.NewInt(0), big.NewInt(1<<31 - 1), true
	case "conv":
		if isIntType(x.args[0].typ) {
			if l2, h2, ok2 := valueRange(x.args[0]); ok2 && l2.Cmp(tlo) >= 0 && h2.Cmp(thi) <= 0 {
				return l2, h2, true
			}
		}
	case "bin":
		if x.tok == token.SHL && x.args[1].op == "const" {
			if k, ok := constValInt(x.args[1].c); ok && k.Sign() >= 0 && k.Int64() < 62 {
				if l0, h0, ok0 := valueRange(x.args[0]); ok0 && l0.Sign() >= 0 {
					h := new(big.Int).Lsh(h0, uint(k.Int64()))
					if h.Cmp(thi) <= 0 {
						return big.NewInt(0), h, true
					}
				}
			}
		}
		// c << y for a positive constant c and a small non-negative amount: [c << lo, c << hi]
		if x.tok == token.SHL && x.args[0].op == "const" && x.args[1].op != "const" {
			if c, ok := constValInt(x.args[0].c); ok && c.Sign() > 0 {
				if l1, h1, ok1 := valueRange(x.args[1]); ok1 && l1.Sign() >= 0 && h1.IsInt64() && h1.Int64() < 62 {
					lo, hi := new(big.Int).Lsh(c, uint(l1.Int64())), new(big.Int).Lsh(c, uint(h1.Int64()))
					if hi.Cmp(thi) <= 0 {
						return lo, hi, true
					}
				}
			}
		}
		if x.tok == token.SHR && x.args[1].op == "const" {
			if k, ok := constValInt(x.args[1].c); ok && k.Sign() >= 0 && k.Int64() < 64 {
				if l0, h0, ok0 := valueRange(x.args[0]); ok0 && l0.Sign() >= 0 {
					return big.NewInt(0), new(big.Int).Rsh(h0, uint(k.Int64())), true
				}
			}
		}
		if x.tok == token.OR || x.tok == token.XOR {
			l0, h0, ok0 := valueRange(x.args[0])
			l1, h1, ok1 := valueRange(x.args[1])
			if ok0 && ok1 && l0.Sign() >= 0 && l1.Sign() >= 0 {
				m := h0
				if h1.Cmp(m) > 0 {
					m = h1
				}
				// next power of two minus one
				h := new(big.Int).Sub(new(big.Int).Lsh(big.NewInt(1), uint(m.BitLen())), big.NewInt(1))
				if h.Cmp(thi) <= 0 {
					return big.NewInt(0), h, true
				}
			}
		}
		if x.tok == token.AND {
			// x & c  ∈ [0, c] for non-negative c
			for _, a := range x.args {
				if a.op == "const" {
					if c, ok := constValInt(a.c); ok && c.Sign() >= 0 {
						return big.NewInt(0), c, true
					}
				}
			}
		}
		if x.tok == token.REM && x.args[1].op == "const" {
			if c, ok := constValInt(x.args[1].c); ok && c.Sign() > 0 {
				l0, _, ok0 := valueRange(x.args[0])
				m := new(big.Int).Sub(c, big.NewInt(1))
				if ok0 && l0.Sign() >= 0 {
					return big.NewInt(0), m, true
				}
				return new(big.Int).Neg(m), m, true
			}
		}
	}
	return tlo, thi, true
}
