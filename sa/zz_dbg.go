package main

import (
	"fmt"
	"os"
	"strings"
)

func init() {
	debugCmds["reach"] = func(args []string) {
		p, err := loadProg(debugRepo(), "")
		if err != nil {
			fmt.Println(err)
			os.Exit(2)
		}
		c, _ := newCtx(p, "C07", "quick")
		pe := configureInterpP(c)
		entries := resolveEntries(c, "P-exec", []entrySpec{{"bscript/interpreter", "*engine", "Execute"}})
		for _, f := range pe.reachable(entries) {
			if len(args) == 0 || strings.Contains(funcName(f), args[0]) {
				fmt.Println(funcName(f))
			}
		}
	}
}
