package main

// T-splice / T-bitwise (C05): the splice and bitwise opcodes compute the function their definition names.
//
//   OP_CAT      x1 x2 -> x1||x2           error iff len(x1)+len(x2) > MaxScriptElementSize
//   OP_SPLIT    x n   -> x[:n] x[n:]      error iff n < 0 or n > len(x) (n read saturating)
//   OP_SIZE     x     -> x len(x)         the item stays
//   OP_EQUAL    a b   -> bytes.Equal(a,b)
//   OP_INVERT   a     -> out[i] = ^a[i]                     same length
//   OP_AND/OR/XOR a b -> out[i] = a[i] op b[i]              same length, error iff lengths differ
//
// Each handler is read in SSA form: the popped operands are named P1 (popped first = top of stack), P2; the
// pushed value is written as an expression over them (concatenation, a slice with bounds, an element-wise
// loop read as its one contribution out[i] = f(P1[i], P2[i]) over a loop that visits every index of a
// buffer of the operand's length); the conditions on the paths that reach the push are folded on a small
// grid of the quantities they speak about (lengths, the split position, the size limit) and must let the
// push happen exactly where the definition says, with the specified error otherwise. No go-bt code runs.

import (
	"fmt"
	"go/constant"
	"go/token"
	"math/big"
	"sort"
	"strings"

	"golang.org/x/tools/go/ssa"
)

type spliceFn struct {
	bind  map[*ssa.Parameter]ssa.Value // function-valued parameters of a shared helper -> what the handler passes
	fn    *ssa.Function
	pops  []*ssa.Call // in execution order
	kinds []string    // bytes | int | peek
}

func isDstack(v ssa.Value) bool {
	fa, ok := v.(*ssa.FieldAddr)
	return ok && fieldName(fa.X.Type(), fa.Field) == "dstack"
}

func newSpliceFn(fn *ssa.Function) *spliceFn {
	s := &spliceFn{fn: fn}
	for _, b := range fn.DomPreorder() {
		for _, ins := range b.Instrs {
			call, ok := ins.(*ssa.Call)
			if !ok {
				continue
			}
			sc := call.Call.StaticCallee()
			if sc == nil || sc.Signature.Recv() == nil || namedOf(sc.Signature.Recv().Type()) != "stack" || len(call.Call.Args) == 0 || !isDstack(call.Call.Args[0]) {
				continue
			}
			switch sc.Name() {
			case "PopByteArray":
				s.pops, s.kinds = append(s.pops, call), append(s.kinds, "bytes")
			case "PopInt":
				s.pops, s.kinds = append(s.pops, call), append(s.kinds, "int")
			case "PeekByteArray":
				s.pops, s.kinds = append(s.pops, call), append(s.kinds, "peek")
			case "PopBool", "PeekInt", "PeekBool", "DropN", "DupN", "RotN", "SwapN", "OverN", "PickN", "RollN", "Tuck", "NipN", "nipN":
				s.pops, s.kinds = append(s.pops, call), append(s.kinds, "other:"+sc.Name())
			}
		}
	}
	return s
}

// operand: v is the value of the k-th pop (1-based), 0 if it is not.
func (s *spliceFn) operand(v ssa.Value) int {
	ex, ok := v.(*ssa.Extract)
	if !ok || ex.Index != 0 {
		return 0
	}
	for k, p := range s.pops {
		if ex.Tuple == ssa.Value(p) {
			return k + 1
		}
	}
	return 0
}

func (s *spliceFn) pushes(name string) []*ssa.Call {
	var out []*ssa.Call
	for _, b := range s.fn.DomPreorder() {
		for _, ins := range b.Instrs {
			if call, ok := ins.(*ssa.Call); ok {
				if sc := call.Call.StaticCallee(); sc != nil && sc.Name() == name && sc.Signature.Recv() != nil && namedOf(sc.Signature.Recv().Type()) == "stack" && isDstack(call.Call.Args[0]) {
					out = append(out, call)
				}
			}
		}
	}
	return out
}

func (s *spliceFn) signature() string { return strings.Join(s.kinds, ",") }

// catExpr: a byte string written as the concatenation of popped operands ("P2 P1"); ok=false when the
// producer is not read.
func (s *spliceFn) catExpr(v ssa.Value, depth int) ([]string, bool) {
	if depth > 8 {
		return nil, false
	}
	if k := s.operand(v); k > 0 {
		return []string{fmt.Sprintf("P%d", k)}, true
	}
	switch x := v.(type) {
	case *ssa.Const:
		if x.Value == nil {
			return nil, true
		}
	case *ssa.MakeSlice:
		if k, ok := constInt(x.Len); ok && k.Sign() == 0 && !hasElementWrites(x) {
			return nil, true
		}
	case *ssa.Slice:
		if x.Low == nil && x.High == nil {
			if al, ok := x.X.(*ssa.Alloc); ok {
				// []byte{} literal
				if at, isArr := derefType(al.Type()).Underlying().(interface{ Len() int64 }); isArr && at.Len() == 0 {
					return nil, true
				}
			}
			return s.catExpr(x.X, depth+1)
		}
	case *ssa.ChangeType:
		return s.catExpr(x.X, depth+1)
	case *ssa.Call:
		if bi, ok := x.Call.Value.(*ssa.Builtin); ok && bi.Name() == "append" && len(x.Call.Args) == 2 {
			a, ok1 := s.catExpr(x.Call.Args[0], depth+1)
			b, ok2 := s.catExpr(x.Call.Args[1], depth+1)
			return append(append([]string{}, a...), b...), ok1 && ok2
		}
		if sc := x.Call.StaticCallee(); sc != nil && sc.String() == "bytes.Join" && len(x.Call.Args) == 2 {
			// bytes.Join([][]byte{a, b}, nil)
			if sep, isK := x.Call.Args[1].(*ssa.Const); !isK || sep.Value != nil {
				if mk, isMk := x.Call.Args[1].(*ssa.MakeSlice); !isMk || !isZeroConst(mk.Len) {
					return nil, false
				}
			}
			sl, ok := x.Call.Args[0].(*ssa.Slice)
			if !ok {
				return nil, false
			}
			al, ok := sl.X.(*ssa.Alloc)
			if !ok || al.Referrers() == nil {
				return nil, false
			}
			elems := map[int64]ssa.Value{}
			for _, r := range *al.Referrers() {
				ia, ok := r.(*ssa.IndexAddr)
				if !ok {
					continue
				}
				idx, isK := constInt(ia.Index)
				if !isK || ia.Referrers() == nil {
					return nil, false
				}
				for _, r2 := range *ia.Referrers() {
					if st, isSt := r2.(*ssa.Store); isSt {
						if _, dup := elems[idx.Int64()]; dup {
							return nil, false
						}
						elems[idx.Int64()] = st.Val
					}
				}
			}
			var out []string
			for i := int64(0); i < int64(len(elems)); i++ {
				e, ok := elems[i]
				if !ok {
					return nil, false
				}
				part, ok := s.catExpr(e, depth+1)
				if !ok {
					return nil, false
				}
				out = append(out, part...)
			}
			return out, len(elems) > 0
		}
	}
	return nil, false
}

func hasElementWrites(v ssa.Value) bool {
	if v.Referrers() == nil {
		return false
	}
	for _, r := range *v.Referrers() {
		if ia, ok := r.(*ssa.IndexAddr); ok && ia.Referrers() != nil {
			for _, r2 := range *ia.Referrers() {
				if st, isSt := r2.(*ssa.Store); isSt && st.Addr == ssa.Value(ia) {
					return true
				}
			}
		}
	}
	return false
}

// spliceEval folds an integer / boolean SSA value under an assignment of the quantities a handler's guards
// speak about: len(Pk) as "lenK", the saturated value of an integer operand as "nK", the element-size
// limit as "M", the number-length limit as "N". ok=false: the value mentions something else.
func (s *spliceFn) eval(v ssa.Value, asg map[string]int64, depth int) (int64, bool) {
	if depth > 12 {
		return 0, false
	}
	switch x := v.(type) {
	case *ssa.Const:
		if x.Value == nil {
			return 0, false
		}
		switch x.Value.Kind() {
		case constant.Int:
			n, ok := constant.Int64Val(x.Value)
			return n, ok
		case constant.Bool:
			return b2i(constant.BoolVal(x.Value)), true
		}
	case *ssa.Convert:
		return s.eval(x.X, asg, depth+1)
	case *ssa.ChangeType:
		return s.eval(x.X, asg, depth+1)
	case *ssa.UnOp:
		if x.Op == token.NOT {
			a, ok := s.eval(x.X, asg, depth+1)
			return 1 - a, ok
		}
		if x.Op == token.SUB {
			a, ok := s.eval(x.X, asg, depth+1)
			return -a, ok
		}
	case *ssa.Call:
		if bi, ok := x.Call.Value.(*ssa.Builtin); ok && bi.Name() == "len" {
			return s.lenOf(x.Call.Args[0], asg, depth+1)
		}
		sc := x.Call.StaticCallee()
		if sc == nil {
			// interface call on the configuration
			if x.Call.IsInvoke() {
				switch x.Call.Method.Name() {
				case "MaxScriptElementSize":
					n, ok := asg["M"]
					return n, ok
				case "MaxScriptNumberLength":
					n, ok := asg["N"]
					return n, ok
				}
			}
			return 0, false
		}
		if sc.Signature.Recv() != nil && namedOf(sc.Signature.Recv().Type()) == "scriptNumber" && len(x.Call.Args) >= 1 {
			k := s.operand(x.Call.Args[0])
			if k == 0 || s.kinds[k-1] != "int" {
				return 0, false
			}
			n, have := asg[fmt.Sprintf("n%d", k)]
			if !have {
				return 0, false
			}
			switch sc.Name() {
			case "Int64", "Int32": // saturating readers: exact on the grid's small values
				return n, true
			case "GreaterThanInt", "LessThanInt", "EqualInt":
				o, ok := s.eval(x.Call.Args[1], asg, depth+1)
				if !ok {
					return 0, false
				}
				switch sc.Name() {
				case "GreaterThanInt":
					return b2i(n > o), true
				case "LessThanInt":
					return b2i(n < o), true
				}
				return b2i(n == o), true
			case "IsZero":
				return b2i(n == 0), true
			}
			return 0, false
		}
	case *ssa.BinOp:
		// nil tests of a pop's error: the pop succeeded on the paths of interest
		if k, isK := x.Y.(*ssa.Const); isK && k.Value == nil {
			if ex, isEx := x.X.(*ssa.Extract); isEx && ex.Index == 1 {
				for _, p := range s.pops {
					if ex.Tuple == ssa.Value(p) {
						return b2i(x.Op == token.EQL), true
					}
				}
			}
			return 0, false
		}
		a, ok1 := s.eval(x.X, asg, depth+1)
		b, ok2 := s.eval(x.Y, asg, depth+1)
		if !ok1 || !ok2 {
			return 0, false
		}
		switch x.Op {
		case token.ADD:
			return a + b, true
		case token.SUB:
			return a - b, true
		case token.LSS:
			return b2i(a < b), true
		case token.LEQ:
			return b2i(a <= b), true
		case token.GTR:
			return b2i(a > b), true
		case token.GEQ:
			return b2i(a >= b), true
		case token.EQL:
			return b2i(a == b), true
		case token.NEQ:
			return b2i(a != b), true
		}
	}
	return 0, false
}

func (s *spliceFn) lenOf(v ssa.Value, asg map[string]int64, depth int) (int64, bool) {
	if k := s.operand(v); k > 0 {
		n, ok := asg[fmt.Sprintf("len%d", k)]
		return n, ok
	}
	if parts, ok := s.catExpr(v, 0); ok {
		total := int64(0)
		for _, p := range parts {
			n, have := asg["len"+strings.TrimPrefix(p, "P")]
			if !have {
				return 0, false
			}
			total += n
		}
		return total, true
	}
	if mk, ok := v.(*ssa.MakeSlice); ok {
		return s.eval(mk.Len, asg, depth+1)
	}
	return 0, false
}

// outcome: what the handler does under an assignment: "push" when a path whose conditions all hold passes the
// block of the push call, "error <code>" for an error return, and a description otherwise. Conditions that
// cannot be folded (loop tests) are left open; all paths that remain must agree.
func (s *spliceFn) outcome(paths []*DPath, pushBlock *ssa.BasicBlock, asg map[string]int64) string {
	got := map[string]bool{}
	for _, p := range paths {
		if p.EndKind != "return" {
			continue
		}
		holds := true
		for _, pc := range p.Conds {
			if pc.At == nil {
				continue
			}
			v, ok := s.eval(pc.At.Cond, asg, 0)
			if !ok {
				if isRangeLikeCond(pc.At.Cond) {
					continue
				}
				got["a condition the rule cannot fold: "+shorten(atomName(pc.Cond), 70)] = true
				continue
			}
			if (v != 0) != pc.Truth {
				holds = false
				break
			}
		}
		if !holds {
			continue
		}
		passes := false
		for _, b := range p.Blocks {
			if b == pushBlock {
				passes = true
			}
		}
		code, kind := errCodeOfReturn(p)
		switch {
		case passes && kind == "nil":
			got["push"] = true
		case passes:
			got[fmt.Sprintf("push, then %s %d", kind, code)] = true
		case kind == "error":
			got[fmt.Sprintf("error %d", code)] = true
		default:
			got["returns "+kind+" without pushing"] = true
		}
	}
	return strings.Join(keysSorted(got), " | ")
}

func ruleTSplice(c *Ctx) {
	n := 0
	get := func(name string) (*ssa.Function, *spliceFn, []*DPath) {
		fn := c.P.Func("bscript/interpreter", "", name)
		if fn == nil {
			c.Undecided("T-splice", name, token.NoPos, "handler not found")
			return nil, nil, nil
		}
		// a handler that only hands on to a helper a later change shared between siblings
		// (return bitwiseBinaryOp(t, func(x, y byte) byte { return x & y })): the helper is read, with its
		// function-valued parameters bound to what the handler passes
		bind := map[*ssa.Parameter]ssa.Value{}
		for i := 0; i < 3; i++ {
			h, args := soleDelegate(fn)
			if h == nil {
				break
			}
			nb := map[*ssa.Parameter]ssa.Value{}
			for k, p := range h.Params {
				if k < len(args) {
					a := args[k]
					if pp, isP := a.(*ssa.Parameter); isP {
						if prev, ok := bind[pp]; ok {
							a = prev
						}
					}
					nb[p] = a
				}
			}
			fn, bind = h, nb
		}
		paths, err := feasiblePaths(fn, 20000)
		if err != nil {
			c.Undecided("T-splice", name, fn.Pos(), "cannot enumerate paths: "+err.Error())
			return nil, nil, nil
		}
		n++
		s := newSpliceFn(fn)
		s.bind = bind
		return fn, s, paths
	}
	eTooBig := pkgConst(c, "bscript/interpreter/errs", "ErrElementTooBig")
	eNumBig := pkgConst(c, "bscript/interpreter/errs", "ErrNumberTooBig")
	eNumSmall := pkgConst(c, "bscript/interpreter/errs", "ErrNumberTooSmall")
	eLen := pkgConst(c, "bscript/interpreter/errs", "ErrInvalidInputLength")

	// ---- OP_CAT
	if fn, s, paths := get("opcodeCat"); fn != nil {
		ps := s.pushes("PushByteArray")
		ok, why := false, ""
		switch {
		case s.signature() != "bytes,bytes":
			why = "operands popped: " + s.signature() + " (two byte strings expected)"
		case len(ps) != 1:
			why = fmt.Sprintf("%d pushes", len(ps))
		default:
			parts, read := s.catExpr(ps[0].Call.Args[1], 0)
			if !read {
				why = "the pushed value is not read as a concatenation of the operands"
			} else if strings.Join(parts, " ") != "P2 P1" {
				why = "the pushed value is " + strings.Join(parts, "||") + ", the definition is P2||P1 (the item below the top first)"
			} else {
				ok = true
				for _, l1 := range []int64{0, 1, 3} {
					for _, l2 := range []int64{0, 2, 5} {
						for _, m := range []int64{l1 + l2 - 1, l1 + l2, l1 + l2 + 1} {
							want := "push"
							if l1+l2 > m {
								want = fmt.Sprintf("error %d", eTooBig)
							}
							if got := s.outcome(paths, ps[0].Block(), map[string]int64{"len1": l1, "len2": l2, "M": m}); got != want {
								ok, why = false, fmt.Sprintf("with operands of %d and %d bytes and a size limit of %d the handler does [%s], the definition says [%s]", l2, l1, m, got, want)
							}
						}
					}
				}
			}
		}
		c.Check(ok, "T-splice", "OP_CAT", fn.Pos(), "pushes P2||P1; error exactly when the result exceeds the element size limit", "OP_CAT: "+why)
	}

	// ---- OP_SPLIT
	if fn, s, paths := get("opcodeSplit"); fn != nil {
		ps := s.pushes("PushByteArray")
		ok, why := false, ""
		switch {
		case s.signature() != "int,bytes":
			why = "operands popped: " + s.signature() + " (the position, then the byte string)"
		case len(ps) != 2:
			why = fmt.Sprintf("%d pushes (two expected)", len(ps))
		default:
			sl1, ok1 := ps[0].Call.Args[1].(*ssa.Slice)
			sl2, ok2 := ps[1].Call.Args[1].(*ssa.Slice)
			switch {
			case !ok1 || !ok2:
				why = "the pushed values are not slices of the operand"
			case s.operand(sl1.X) != 2 || s.operand(sl2.X) != 2:
				why = "the pushed values are not cut from the byte-string operand"
			case sl1.Low != nil || sl1.High == nil || sl2.High != nil || sl2.Low == nil || sl1.Max != nil || sl2.Max != nil:
				why = "the pushes are not x[:n] followed by x[n:]"
			case sl1.High != sl2.Low:
				why = "the two parts are cut at different positions"
			default:
				// the position is the saturated value of the integer operand
				if v, okp := s.eval(sl1.High, map[string]int64{"n1": 7}, 0); !okp || v != 7 {
					why = "the cut position is not the (saturating) value of the integer operand"
				} else {
					ok = true
					for _, l := range []int64{0, 1, 4} {
						for _, pos := range []int64{-2, -1, 0, 1, l - 1, l, l + 1, l + 2} {
							want := "push"
							switch {
							case pos > l:
								want = fmt.Sprintf("error %d", eNumBig)
							case pos < 0:
								want = fmt.Sprintf("error %d", eNumSmall)
							}
							if got := s.outcome(paths, ps[1].Block(), map[string]int64{"len2": l, "n1": pos}); got != want {
								ok, why = false, fmt.Sprintf("splitting %d bytes at %d the handler does [%s], the definition says [%s]", l, pos, got, want)
							}
						}
					}
				}
			}
		}
		c.Check(ok, "T-splice", "OP_SPLIT", fn.Pos(), "pushes x[:n] then x[n:]; error exactly when n < 0 or n > len(x)", "OP_SPLIT: "+why)
	}

	// ---- OP_SIZE
	if fn, s, _ := get("opcodeSize"); fn != nil {
		ok, why := false, ""
		ps := s.pushes("PushInt")
		switch {
		case s.signature() != "peek":
			why = "stack accesses: " + s.signature() + " (the item is looked at, not removed)"
		case len(ps) != 1:
			why = fmt.Sprintf("%d pushes", len(ps))
		default:
			if k, isK := constInt(s.pops[0].Call.Args[1]); !isK || k.Sign() != 0 {
				why = "the item measured is not the top of the stack"
			} else if v := scriptNumberLiteralValue(ps[0].Call.Args[1]); v == nil {
				why = "the pushed number is not a scriptNumber built from an integer"
			} else if got, okv := s.eval(v, map[string]int64{"len1": 11}, 0); !okv || got != 11 {
				why = "the pushed number is not the length of the top item"
			} else {
				ok = true
			}
		}
		c.Check(ok, "T-splice", "OP_SIZE", fn.Pos(), "pushes len(top) and leaves the item in place", "OP_SIZE: "+why)
	}

	// ---- OP_EQUAL
	if fn, s, _ := get("opcodeEqual"); fn != nil {
		ok, why := false, ""
		ps := s.pushes("PushBool")
		switch {
		case s.signature() != "bytes,bytes":
			why = "operands popped: " + s.signature()
		case len(ps) != 1:
			why = fmt.Sprintf("%d pushes", len(ps))
		default:
			call, isCall := ps[0].Call.Args[1].(*ssa.Call)
			if !isCall || call.Call.StaticCallee() == nil || call.Call.StaticCallee().String() != "bytes.Equal" {
				why = "the pushed boolean is not bytes.Equal of the operands"
			} else if a, b := s.operand(call.Call.Args[0]), s.operand(call.Call.Args[1]); a+b != 3 || a*b != 2 {
				why = "bytes.Equal is not applied to the two operands"
			} else {
				ok = true
			}
		}
		c.Check(ok, "T-splice", "OP_EQUAL", fn.Pos(), "pushes bytes.Equal(P1, P2)", "OP_EQUAL: "+why)
	}

	// ---- element-wise opcodes
	for _, sp := range []struct {
		handler, name string
		op           token.Token
		binary       bool
	}{{"opcodeInvert", "OP_INVERT", token.XOR, false}, {"opcodeAnd", "OP_AND", token.AND, true}, {"opcodeOr", "OP_OR", token.OR, true}, {"opcodeXor", "OP_XOR", token.XOR, true}} {
		fn, s, paths := get(sp.handler)
		if fn == nil {
			continue
		}
		wantSig := "bytes"
		if sp.binary {
			wantSig = "bytes,bytes"
		}
		ps := s.pushes("PushByteArray")
		ok, why := false, ""
		switch {
		case s.signature() != wantSig:
			why = "operands popped: " + s.signature()
		case len(ps) != 1:
			why = fmt.Sprintf("%d pushes", len(ps))
		default:
			why = s.elementwise(ps[0], sp.op, sp.binary)
			ok = why == ""
			if ok && sp.binary {
				for _, l1 := range []int64{0, 1, 2, 5} {
					for _, l2 := range []int64{0, 1, 2, 5} {
						want := "push"
						if l1 != l2 {
							want = fmt.Sprintf("error %d", eLen)
						}
						if got := s.outcome(paths, ps[0].Block(), map[string]int64{"len1": l1, "len2": l2}); got != want {
							ok, why = false, fmt.Sprintf("with operands of %d and %d bytes the handler does [%s], the definition says [%s]", l1, l2, got, want)
						}
					}
				}
			}
			if ok && !sp.binary {
				if got := s.outcome(paths, ps[0].Block(), map[string]int64{"len1": 3}); got != "push" {
					ok, why = false, "the handler does ["+got+"] for a 3-byte operand"
				}
			}
		}
		c.Check(ok, "T-bitwise", sp.name, fn.Pos(), "out[i] = "+map[bool]string{true: "P1[i] " + sp.op.String() + " P2[i]", false: "^P1[i]"}[sp.binary]+" for every i of a new buffer of the operand's length"+map[bool]string{true: "; error exactly when the lengths differ", false: ""}[sp.binary],
			sp.name+": "+why)
	}
	c.MinInstances("T-splice", n, 8)
}

// scriptNumberLiteralValue: for &scriptNumber{val: big.NewInt(x), ...} the value x.
func scriptNumberLiteralValue(v ssa.Value) ssa.Value {
	al, ok := v.(*ssa.Alloc)
	if !ok || al.Referrers() == nil {
		return nil
	}
	for _, r := range *al.Referrers() {
		fa, ok := r.(*ssa.FieldAddr)
		if !ok || fieldName(fa.X.Type(), fa.Field) != "val" || fa.Referrers() == nil {
			continue
		}
		for _, r2 := range *fa.Referrers() {
			if st, isSt := r2.(*ssa.Store); isSt {
				if call, isCall := st.Val.(*ssa.Call); isCall && call.Call.StaticCallee() != nil && call.Call.StaticCallee().String() == "math/big.NewInt" {
					return call.Call.Args[0]
				}
			}
		}
	}
	return nil
}

// elementwise reads the pushed buffer of a bitwise handler: a make([]byte, len(Pk)) all of whose element writes
// are one store out[i] = f(P1[i], P2[i]) executed on every iteration of a loop that visits i = 0..len-1, the
// loop finished before the push. Returns "" when that is so, else what differs.
func (s *spliceFn) elementwise(push *ssa.Call, op token.Token, binary bool) string {
	mk, ok := push.Call.Args[1].(*ssa.MakeSlice)
	if !ok {
		return "the pushed value is not a newly made buffer"
	}
	lenOperand := 0
	if call, isCall := mk.Len.(*ssa.Call); isCall {
		if bi, isB := call.Call.Value.(*ssa.Builtin); isB && bi.Name() == "len" {
			lenOperand = s.operand(call.Call.Args[0])
		}
	}
	if lenOperand == 0 {
		return "the result buffer is not made with the length of an operand"
	}
	var stores []*ssa.Store
	var others []string
	if mk.Referrers() != nil {
		for _, r := range *mk.Referrers() {
			switch x := r.(type) {
			case *ssa.IndexAddr:
				if x.Referrers() != nil {
					for _, r2 := range *x.Referrers() {
						if st, isSt := r2.(*ssa.Store); isSt && st.Addr == ssa.Value(x) {
							stores = append(stores, st)
						}
					}
				}
			case *ssa.Call:
				if x != push {
					others = append(others, "passed to "+x.Call.Value.Name())
				}
			case *ssa.DebugRef:
			default:
				others = append(others, fmt.Sprintf("%T", r))
			}
		}
	}
	if len(others) > 0 {
		sort.Strings(others)
		return "the result buffer is also used otherwise: " + strings.Join(others, ", ")
	}
	if len(stores) != 1 {
		return fmt.Sprintf("%d element writes into the result (one per-index write expected)", len(stores))
	}
	st := stores[0]
	idx := st.Addr.(*ssa.IndexAddr).Index
	// the value: f(P1[idx], P2[idx])
	elemOf := func(v ssa.Value) int {
		ld, ok := v.(*ssa.UnOp)
		if !ok || ld.Op != token.MUL {
			return 0
		}
		ia, ok := ld.X.(*ssa.IndexAddr)
		if !ok || ia.Index != idx {
			return 0
		}
		return s.operand(ia.X)
	}
	stVal := st.Val
	if call, isCall := stVal.(*ssa.Call); isCall && len(call.Call.Args) >= 1 {
		// f(a[i], b[i]) with f the function the handler passed: its one-expression body
		var callee *ssa.Function
		switch f := call.Call.Value.(type) {
		case *ssa.Parameter:
			switch b := s.bind[f].(type) {
			case *ssa.Function:
				callee = b
			case *ssa.MakeClosure:
				callee, _ = b.Fn.(*ssa.Function)
			}
		case *ssa.Function:
			callee = f
		}
		if callee != nil && len(callee.Blocks) == 1 && len(callee.FreeVars) == 0 {
			if r, isR := callee.Blocks[0].Instrs[len(callee.Blocks[0].Instrs)-1].(*ssa.Return); isR && len(r.Results) == 1 {
				argOf := func(v ssa.Value) ssa.Value {
					for k, p := range callee.Params {
						if v == ssa.Value(p) && k < len(call.Call.Args) {
							return call.Call.Args[k]
						}
					}
					return v
				}
				switch e := r.Results[0].(type) {
				case *ssa.BinOp:
					stVal = &ssa.BinOp{Op: e.Op, X: argOf(e.X), Y: argOf(e.Y)}
				case *ssa.UnOp:
					stVal = &ssa.UnOp{Op: e.Op, X: argOf(e.X)}
				}
			}
		}
	}
	switch val := stVal.(type) {
	case *ssa.BinOp:
		if val.Op != op {
			return "the bytes are combined with " + val.Op.String() + ", the definition is " + op.String()
		}
		if binary {
			a, b := elemOf(val.X), elemOf(val.Y)
			if a+b != 3 || a*b != 2 {
				return "the byte written at index i is not P1[i] " + op.String() + " P2[i]"
			}
		} else {
			a := elemOf(val.X)
			k, isK := constInt(val.Y)
			if a != 1 || !isK || k.Int64() != 0xff {
				return "the byte written at index i is not P1[i] ^ 0xff"
			}
		}
	case *ssa.UnOp:
		if binary || val.Op != token.XOR || elemOf(val.X) != 1 {
			return "the byte written at index i is not the complement of P1[i]"
		}
	default:
		return "the byte written is not an operation on the operands' bytes at the same index"
	}
	// the loop: header tests idx < len(X) with X an operand or the result, idx counting 0, 1, 2, ...
	var hdr *ssa.BasicBlock
	for _, h := range dominatingLoopHeaders(st.Block()) {
		hdr = h
	}
	if hdr == nil {
		return "the element write is not in a loop"
	}
	if !unconditionalInLoop(hdr, st.Block()) {
		return "the element write is skipped on some iterations"
	}
	iff, ok := hdr.Instrs[len(hdr.Instrs)-1].(*ssa.If)
	if !ok {
		return "the loop has no exit test in its header"
	}
	bo, ok := iff.Cond.(*ssa.BinOp)
	if !ok || bo.Op != token.LSS || bo.X != idx && !isIncrOf(idx, bo.X) {
		return "the loop's test is not index < length"
	}
	if !countsFromZero(idx, hdr) {
		return "the index does not run 0, 1, 2, ..."
	}
	bound := bo.Y
	boundOK := false
	if call, isCall := bound.(*ssa.Call); isCall {
		if bi, isB := call.Call.Value.(*ssa.Builtin); isB && bi.Name() == "len" {
			boundOK = s.operand(call.Call.Args[0]) > 0 || call.Call.Args[0] == ssa.Value(mk)
		}
	}
	if !boundOK {
		return "the loop does not run to the length of an operand"
	}
	if !hdr.Dominates(push.Block()) || loopBodyContains(hdr, push.Block()) {
		return "the result is pushed before the loop has finished"
	}
	return ""
}

func isIncrOf(idx, v ssa.Value) bool { return idx == v }

// countsFromZero: idx is the counter of the loop headed by h, taking the values 0, 1, 2, ...: either the
// header phi of a counted loop (0, then +1 on every latch) or phi+1 of a range loop (phi from -1).
func countsFromZero(idx ssa.Value, h *ssa.BasicBlock) bool {
	if ph, ok := idx.(*ssa.Phi); ok && ph.Block() == h {
		return phiStartsAt(ph, 0) && phiStepsByOne(ph, h)
	}
	if bo, ok := idx.(*ssa.BinOp); ok && bo.Op == token.ADD {
		ph, isPh := bo.X.(*ssa.Phi)
		k, isK := constInt(bo.Y)
		if !isPh || !isK || k.Int64() != 1 || ph.Block() != h || !phiStartsAt(ph, -1) {
			return false
		}
		for i, e := range ph.Edges {
			if h.Dominates(h.Preds[i]) && e != idx {
				return false
			}
		}
		return true
	}
	return false
}

var _ = big.NewInt

// soleDelegate: fn does nothing but return the result of one call of a module helper outside the baseline list.
func soleDelegate(fn *ssa.Function) (*ssa.Function, []ssa.Value) {
	if len(fn.Blocks) != 1 || inlineHelper == nil {
		return nil, nil
	}
	var call *ssa.Call
	for _, ins := range fn.Blocks[0].Instrs {
		switch x := ins.(type) {
		case *ssa.Call:
			if call != nil {
				return nil, nil
			}
			call = x
		case *ssa.Return:
			if call == nil || len(x.Results) != 1 || x.Results[0] != ssa.Value(call) {
				return nil, nil
			}
		case *ssa.MakeClosure, *ssa.DebugRef:
		default:
			return nil, nil
		}
	}
	if call == nil {
		return nil, nil
	}
	sc := call.Call.StaticCallee()
	if sc == nil || !inlineHelper(sc) || len(sc.Blocks) == 0 {
		return nil, nil
	}
	return sc, call.Call.Args
}

// T-num2bin (C05): OP_NUM2BIN  a n -> the number a re-encoded in exactly n bytes. Read from the handler: the
// minimal encoding B of a (makeScriptNumber(a, len(a), false, era).Bytes()); n < len(B) is ErrNumberTooSmall, n
// above the element size limit ErrNumberTooBig, n == len(B) pushes B itself; otherwise the sign bit is taken off
// the last byte of B (mask 0x80 kept aside, mask 0x7f left in place), zero bytes are appended while n > len+1,
// and the byte holding only the sign bit comes last. Each of these is a fact of the SSA form with its constants.
func ruleTNum2Bin(c *Ctx) {
	fn := c.P.Func("bscript/interpreter", "", "opcodeNum2bin")
	if fn == nil {
		c.Undecided("T-num2bin", "OP_NUM2BIN", token.NoPos, "handler not found")
		return
	}
	s := newSpliceFn(fn)
	eSmall := pkgConst(c, "bscript/interpreter/errs", "ErrNumberTooSmall")
	eBig := pkgConst(c, "bscript/interpreter/errs", "ErrNumberTooBig")
	var problems []string
	if s.signature() != "int,bytes" {
		problems = append(problems, "operands popped: "+s.signature()+" (the size, then the number)")
	}
	// B
	var B *ssa.Call
	for _, b := range fn.Blocks {
		for _, ins := range b.Instrs {
			call, ok := ins.(*ssa.Call)
			if !ok || call.Call.StaticCallee() == nil || call.Call.StaticCallee().Name() != "Bytes" || call.Call.StaticCallee().Signature.Recv() == nil {
				continue
			}
			ex, ok := call.Call.Args[0].(*ssa.Extract)
			if !ok || ex.Index != 0 {
				continue
			}
			mk, ok := ex.Tuple.(*ssa.Call)
			if !ok || mk.Call.StaticCallee() == nil || mk.Call.StaticCallee().Name() != "makeScriptNumber" || len(mk.Call.Args) != 4 {
				continue
			}
			okLen := false
			if ln, isCall := mk.Call.Args[1].(*ssa.Call); isCall && isLenCall(ln) && s.operand(ln.Call.Args[0]) == 2 {
				okLen = true
			}
			minimal, isK := mk.Call.Args[2].(*ssa.Const)
			if s.operand(mk.Call.Args[0]) == 2 && okLen && isK && minimal.Value != nil && !constant.BoolVal(minimal.Value) {
				B = call
			}
		}
	}
	if B == nil {
		// the same minimal encoding taken from minimallyEncode (what OP_BIN2NUM pushes), copied into a buffer of its
		// own: append([]byte{}, minimallyEncode(a)...)
		for _, b := range fn.Blocks {
			for _, ins := range b.Instrs {
				call, ok := ins.(*ssa.Call)
				if !ok {
					continue
				}
				bi, ok := call.Call.Value.(*ssa.Builtin)
				if !ok || bi.Name() != "append" || len(call.Call.Args) != 2 {
					continue
				}
				me, ok := call.Call.Args[1].(*ssa.Call)
				if !ok || me.Call.StaticCallee() == nil || me.Call.StaticCallee().Name() != "minimallyEncode" || s.operand(me.Call.Args[0]) != 2 {
					continue
				}
				if parts, okc := s.catExpr(call.Call.Args[0], 0); okc && len(parts) == 0 {
					B = call
				}
			}
		}
	}
	if B == nil {
		c.Fail("T-num2bin", "OP_NUM2BIN", fn.Pos(), "OP_NUM2BIN: the number is not re-encoded as makeScriptNumber(a, len(a), false, era).Bytes() (nor as a copy of minimallyEncode(a))")
		return
	}
	isLenB := func(v ssa.Value) bool {
		for {
			cv, ok := v.(*ssa.Convert)
			if !ok {
				break
			}
			v = cv.X
		}
		call, ok := v.(*ssa.Call)
		return ok && isLenCall(call) && call.Call.Args[0] == ssa.Value(B)
	}
	isLastOfB := func(addr ssa.Value) bool {
		ia, ok := addr.(*ssa.IndexAddr)
		if !ok || ia.X != ssa.Value(B) {
			return false
		}
		bo, ok := ia.Index.(*ssa.BinOp)
		if !ok || bo.Op != token.SUB || !isLenB(bo.X) {
			return false
		}
		k, isK := constInt(bo.Y)
		return isK && k.Int64() == 1
	}
	numCall := func(v ssa.Value, name string) (*ssa.Call, bool) {
		call, ok := v.(*ssa.Call)
		if !ok || call.Call.StaticCallee() == nil || call.Call.StaticCallee().Name() != name || len(call.Call.Args) != 2 || s.operand(call.Call.Args[0]) != 1 {
			return nil, false
		}
		return call, true
	}
	errOf := func(b *ssa.BasicBlock) int64 {
		r, ok := b.Instrs[len(b.Instrs)-1].(*ssa.Return)
		if !ok {
			return -1
		}
		rt := newTermEnv().Term(r.Results[0])
		if rt.K == "call" && strings.Contains(rt.Name, "errs.NewError") && len(rt.Args) > 0 && rt.Args[0].K == "const" && rt.Args[0].C != nil {
			v, _ := constant.Int64Val(constant.ToInt(rt.Args[0].C))
			return v
		}
		return -1
	}
	okSmall, okEqual, okBig, okSign, okClear, okPad, okFinal := false, false, false, false, false, false, false
	var signVal ssa.Value
	for _, b := range fn.Blocks {
		if iff, ok := b.Instrs[len(b.Instrs)-1].(*ssa.If); ok {
			if call, ok := numCall(iff.Cond, "LessThanInt"); ok && isLenB(call.Call.Args[1]) && errOf(b.Succs[0]) == eSmall {
				okSmall = true
			}
			if call, ok := numCall(iff.Cond, "GreaterThanInt"); ok && errOf(b.Succs[0]) == eBig {
				if a := atomName(newTermEnv().Term(call.Call.Args[1])); strings.Contains(a, "MaxScriptElementSize") {
					okBig = true
				}
			}
			if call, ok := numCall(iff.Cond, "EqualInt"); ok && isLenB(call.Call.Args[1]) {
				for _, ins := range b.Succs[0].Instrs {
					if push, ok := ins.(*ssa.Call); ok && push.Call.StaticCallee() != nil && push.Call.StaticCallee().Name() == "PushByteArray" && push.Call.Args[1] == ssa.Value(B) {
						okEqual = true
					}
				}
			}
			// the padding loop: while n > len(X)+1 { X = append(X, 0) }
			if call, ok := numCall(iff.Cond, "GreaterThanInt"); ok && isLoopHeader(b) {
				arg := call.Call.Args[1]
				for {
					cv, isCv := arg.(*ssa.Convert)
					if !isCv {
						break
					}
					arg = cv.X
				}
				if bo, isBo := arg.(*ssa.BinOp); isBo && bo.Op == token.ADD {
					k, isK := constInt(bo.Y)
					ln, isLn := bo.X.(*ssa.Call)
					if isK && k.Int64() == 1 && isLn && isLenCall(ln) {
						if ph, isPh := ln.Call.Args[0].(*ssa.Phi); isPh && ph.Block() == b {
							// body appends one zero byte to the phi; exit appends the sign byte and pushes
							bodyOK, exitOK := false, false
							for _, ins := range b.Succs[0].Instrs {
								if ap, ok := ins.(*ssa.Call); ok {
									if parts, ok := appendedBytes(ap, ph); ok && len(parts) == 1 && isZeroConst(parts[0]) {
										bodyOK = true
									}
								}
							}
							var last *ssa.Call
							for _, ins := range b.Succs[1].Instrs {
								if ap, ok := ins.(*ssa.Call); ok {
									if parts, ok := appendedBytes(ap, ph); ok && len(parts) == 1 {
										if sp, isPh := parts[0].(*ssa.Phi); isPh && sp.Block() == b {
											signVal = sp
											last = ap
										}
									}
									if ap.Call.StaticCallee() != nil && ap.Call.StaticCallee().Name() == "PushByteArray" && last != nil && ap.Call.Args[1] == ssa.Value(last) {
										exitOK = true
									}
								}
							}
							okPad, okFinal = bodyOK, exitOK
						}
					}
				}
			}
		}
		for _, ins := range b.Instrs {
			if st, ok := ins.(*ssa.Store); ok && isLastOfB(st.Addr) {
				if bo, ok := st.Val.(*ssa.BinOp); ok && bo.Op == token.AND {
					if ld, ok := bo.X.(*ssa.UnOp); ok && ld.Op == token.MUL && isLastOfB(ld.X) {
						if k, isK := constInt(bo.Y); isK && k.Int64() == 0x7f {
							okClear = true
						}
					}
				}
			}
		}
	}
	// the sign byte: phi(0, B[len-1] & 0x80) carried round the loop unchanged
	if sp, ok := signVal.(*ssa.Phi); ok {
		zero, masked := false, false
		for _, e := range sp.Edges {
			switch x := e.(type) {
			case *ssa.Const:
				zero = zero || isZeroConst(x)
			case *ssa.BinOp:
				if ld, ok := x.X.(*ssa.UnOp); ok && x.Op == token.AND && ld.Op == token.MUL && isLastOfB(ld.X) {
					if k, isK := constInt(x.Y); isK && k.Int64() == 0x80 {
						masked = true
					}
				}
			case *ssa.Phi:
				if x != sp {
					zero = false
				}
			}
		}
		okSign = zero && masked
	}
	for _, f := range []struct {
		ok   bool
		what string
	}{{okSmall, "n < len(B) is ErrNumberTooSmall"}, {okBig, "n above the element size limit is ErrNumberTooBig"}, {okEqual, "n == len(B) pushes B itself"}, {okSign, "the sign byte is B's last byte masked with 0x80 (0 for an empty B)"},
		{okClear, "the sign bit is taken off B's last byte with mask 0x7f"}, {okPad, "zero bytes are appended while n > len + 1"}, {okFinal, "the sign byte is appended last and the result pushed"}} {
		if !f.ok {
			problems = append(problems, "not found: "+f.what)
		}
	}
	sort.Strings(problems)
	c.Check(len(problems) == 0, "T-num2bin", "OP_NUM2BIN", fn.Pos(), "minimal encoding, size guards, sign bit moved to the last of n bytes, zero padding", "OP_NUM2BIN: "+strings.Join(problems, "; "))
}

// appendedBytes: call is append(base, x1, x2, ...) with the elements given one by one: the elements.
func appendedBytes(call *ssa.Call, base ssa.Value) ([]ssa.Value, bool) {
	bi, ok := call.Call.Value.(*ssa.Builtin)
	if !ok || bi.Name() != "append" || len(call.Call.Args) != 2 || call.Call.Args[0] != base {
		return nil, false
	}
	sl, ok := call.Call.Args[1].(*ssa.Slice)
	if !ok {
		return nil, false
	}
	al, ok := sl.X.(*ssa.Alloc)
	if !ok || al.Referrers() == nil {
		return nil, false
	}
	var out []ssa.Value
	for _, r := range *al.Referrers() {
		if ia, ok := r.(*ssa.IndexAddr); ok && ia.Referrers() != nil {
			for _, r2 := range *ia.Referrers() {
				if st, ok := r2.(*ssa.Store); ok {
					out = append(out, st.Val)
				}
			}
		}
	}
	return out, len(out) > 0
}
