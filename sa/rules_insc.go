package main

// T-insc: the recogniser of the P2PKH inscription template (isP2PKHInscriptionHelper, behind
// IsP2PKHInscription, ParseInscription, ScriptType and the size estimate of inscription inputs) as a decision
// table over what it reads: the number of parts, one "part i starts with opcode X" test per template
// position, and the "ord" marker. On every cell it must answer
//   at least 13 parts, DUP HASH160 . EQUALVERIFY CHECKSIG FALSE IF "ord" TRUE . FALSE . ENDIF at positions
//   0 1 3 4 5 6 7 8 10 12, and nothing after them or an OP_RETURN at position 13.

import (
	"fmt"
	"go/constant"
	"go/token"
	"math/big"
	"sort"
	"strings"

	"golang.org/x/tools/go/ssa"
)

func ruleTInsc(c *Ctx) {
	fn := c.P.Func("bscript", "", "isP2PKHInscriptionHelper")
	if fn == nil {
		c.Undecided("T-insc", "isP2PKHInscriptionHelper", token.NoPos, "not found")
		return
	}
	paths, err := feasiblePaths(fn, 200000)
	if err != nil {
		c.Undecided("T-insc", "isP2PKHInscriptionHelper", fn.Pos(), "cannot enumerate paths: "+err.Error())
		return
	}
	template := map[int]int64{0: 0x76, 1: 0xa9, 3: 0x88, 4: 0xac, 5: 0x00, 6: 0x63, 8: 0x51, 10: 0x00, 12: 0x68, 13: 0x6a}
	// the fixed positions as a table of (index, opcode) rows walked by a loop whose body is
	// "if !partIsOpcode(parts, row.index, row.op) { return false }": the loop stands for the conjunction of its
	// rows; what follows it is read from the paths that go on from the loop's back edge to its exit
	rowAtoms, rowCall, loopPaths, exitPaths, rowErr := inscRowLoop(c, fn, paths, template)
	if rowErr != "" {
		c.Fail("T-insc", "isP2PKHInscriptionHelper", fn.Pos(), rowErr)
		return
	}
	if rowCall != "" {
		var straight []*DPath
		for _, p := range paths {
			if !pathMentions(p, rowCall) {
				straight = append(straight, p)
			}
		}
		paths = straight
	}
	bases := map[string]*T{}
	for _, p := range append(append([]*DPath{}, loopPaths...), exitPaths...) {
		for _, cd := range p.Conds {
			if cd.Cond.String() == rowCall {
				continue
			}
			bt := map[string]*T{}
			baseTerms(cd.Cond, bt)
			counter := false
			for _, t := range bt {
				if t.K == "phi" {
					counter = true // the loop's own exit test (the row counter against the table's length)
				}
			}
			if !counter {
				baseTerms(cd.Cond, bases)
			}
		}
		if p.Ret != nil {
			for _, r := range p.Ret.Results {
				baseTerms(p.Env.Term(r), bases)
			}
		}
	}
	for _, p := range paths {
		for _, cd := range p.Conds {
			baseTerms(cd.Cond, bases)
		}
		if p.Ret != nil {
			for _, r := range p.Ret.Results {
				baseTerms(p.Env.Term(r), bases)
			}
		}
	}
	// classify the base terms
	atomOf := map[string]string{} // term string -> "len" | "ord" | "A<i>"
	var odd []string
	var keys []string
	for k := range bases {
		keys = append(keys, k)
	}
	sort.Strings(keys)
	for _, k := range keys {
		t := bases[k]
		switch {
		case k == "len(p0)":
			atomOf[k] = "len"
		case t.K == "call" && strings.Contains(t.Name, "partIsOpcode") && len(t.Args) == 3 && t.Args[0].String() == "p0" && t.Args[1].K == "const" && t.Args[2].K == "const" && t.Args[1].C != nil && t.Args[2].C != nil:
			i, _ := constant.Int64Val(constant.ToInt(t.Args[1].C))
			op, _ := constant.Int64Val(constant.ToInt(t.Args[2].C))
			if want, ok := template[int(i)]; ok && want == op {
				atomOf[k] = fmt.Sprintf("A%d", i)
			} else {
				odd = append(odd, fmt.Sprintf("part %d tested for opcode %#x", i, op))
			}
		case t.K == "call" && strings.Contains(t.Name, "bytes.HasPrefix") && len(t.Args) == 2 && t.Args[0].String() == "p0[7]" && constBytesOfCallArg(t, 1) == "6f7264":
			atomOf[k] = "ord"
		default:
			odd = append(odd, k)
		}
	}
	if len(odd) > 0 {
		c.Fail("T-insc", "isP2PKHInscriptionHelper", fn.Pos(), "the recogniser tests something the template does not have (or a template position for another opcode): "+strings.Join(odd, "; "))
		return
	}
	names := []string{"A0", "A1", "A3", "A4", "A5", "A6", "ord", "A8", "A10", "A12", "A13"}
	cells := 0
	var bad []string
	for _, n := range []int64{0, 1, 12, 13, 14, 15, 40} {
		for m := 0; m < 1<<len(names); m++ {
			val := map[string]bool{}
			feasible := true
			for j, nm := range names {
				val[nm] = m&(1<<j) != 0
				if val[nm] {
					pos := int64(7)
					if nm != "ord" {
						fmt.Sscanf(nm, "A%d", &pos)
					}
					if pos >= n {
						feasible = false // a part that does not exist starts with nothing
					}
				}
			}
			if !feasible {
				continue
			}
			asg := map[string]*big.Int{}
			for k, a := range atomOf {
				switch {
				case a == "len":
					asg[k] = big.NewInt(n)
				case val[a]:
					asg[k] = big.NewInt(1)
				default:
					asg[k] = big.NewInt(0)
				}
			}
			want := n >= 13 && (n == 13 || val["A13"])
			for _, nm := range names {
				if nm != "A13" && !val[nm] {
					want = false
				}
			}
			got := map[string]bool{}
			for _, p := range paths {
				if p.EndKind != "return" || p.Ret == nil || len(p.Ret.Results) != 1 {
					got["other end: "+p.EndKind] = true
					continue
				}
				ok := true
				for _, cd := range p.Conds {
					v, evaluated := evalTerm(cd.Cond, asg)
					if !evaluated {
						got["a condition that does not fold: "+cd.Cond.String()] = true
						ok = false
						break
					}
					if (v.Sign() != 0) != cd.Truth {
						ok = false
						break
					}
				}
				if !ok {
					continue
				}
				v, evaluated := evalTerm(p.Env.Term(p.Ret.Results[0]), asg)
				switch {
				case !evaluated:
					got["a result that does not fold: "+p.Env.Term(p.Ret.Results[0]).String()] = true
				case v.Sign() != 0:
					got["true"] = true
				default:
					got["false"] = true
				}
			}
			// through the row loop: the conditions before it, then every row, then what follows the loop
			for _, lp := range loopPaths {
				ok := true
				for _, cd := range lp.Conds {
					if cd.Cond.String() == rowCall {
						break
					}
					v, evaluated := evalTerm(cd.Cond, asg)
					if !evaluated {
						got["a condition that does not fold: "+cd.Cond.String()] = true
						ok = false
						break
					}
					if (v.Sign() != 0) != cd.Truth {
						ok = false
						break
					}
				}
				if !ok {
					continue
				}
				allRows := true
				for _, a := range rowAtoms {
					if !val[a] {
						allRows = false
					}
				}
				if !allRows {
					got["false"] = true
					continue
				}
				for _, xp := range exitPaths {
					ok := true
					for _, cd := range xp.Conds {
						v, evaluated := evalTerm(cd.Cond, asg)
						if !evaluated {
							// the loop's own exit test (the row counter against the table's length)
							continue
						}
						if (v.Sign() != 0) != cd.Truth {
							ok = false
							break
						}
					}
					if !ok {
						continue
					}
					v, evaluated := evalTerm(xp.Env.Term(xp.Ret.Results[0]), asg)
					switch {
					case !evaluated:
						got["a result that does not fold: "+xp.Env.Term(xp.Ret.Results[0]).String()] = true
					case v.Sign() != 0:
						got["true"] = true
					default:
						got["false"] = true
					}
				}
			}
			cells++
			if w := fmt.Sprint(want); len(got) != 1 || !got[w] {
				if len(bad) < 4 {
					var miss []string
					for _, nm := range names {
						if !val[nm] {
							miss = append(miss, nm)
						}
					}
					bad = append(bad, fmt.Sprintf("%d parts, positions not matching %v: code %v, template %v", n, miss, sortedKeys(got), want))
				}
			}
		}
	}
	c.Covered["T-insc:cells"] = cells
	c.MinInstances("T-insc", cells, 2000)
	c.Check(len(bad) == 0, "T-insc", "isP2PKHInscriptionHelper", fn.Pos(),
		fmt.Sprintf("answers the inscription template on all %d cells of part count x position tests", cells),
		"the inscription recogniser differs from the template: "+strings.Join(bad, "; "))
}

// constBytesOfTerm: hex of the []byte{...} literal a call's second argument is, "" if it is not one.
func constBytesOfCallArg(t *T, k int) string {
	call, ok := t.V.(*ssa.Call)
	if !ok || k >= len(call.Call.Args) {
		return ""
	}
	if cv, ok := call.Call.Args[k].(*ssa.Convert); ok { // []byte("ord")
		if c, ok := cv.X.(*ssa.Const); ok && c.Value != nil && c.Value.Kind() == constant.String {
			return fmt.Sprintf("%x", constant.StringVal(c.Value))
		}
	}
	bs, ok := literalBytes(call.Call.Args[k])
	if !ok {
		return ""
	}
	s := ""
	for _, b := range bs {
		s += fmt.Sprintf("%02x", b)
	}
	return s
}

func pathMentions(p *DPath, termStr string) bool {
	for _, cd := range p.Conds {
		if cd.Cond.String() == termStr {
			return true
		}
	}
	return false
}

// inscRowLoop recognises the row loop (see ruleTInsc). Returns the template atoms of the rows, the spelling of
// the loop's partIsOpcode call, the entry paths that reach the loop's back edge with that call true, the
// paths from the back edge to a return that do not go round again, and "" or what does not fit.
func inscRowLoop(c *Ctx, fn *ssa.Function, paths []*DPath, template map[int]int64) (atoms []string, callStr string, loopPaths, exitPaths []*DPath, problem string) {
	var call *ssa.Call
	for _, p := range paths {
		for _, cd := range p.Conds {
			t := cd.Cond
			if t.K != "call" || !strings.Contains(t.Name, "partIsOpcode") || len(t.Args) != 3 || (t.Args[1].K == "const" && t.Args[2].K == "const") {
				continue
			}
			cl, ok := t.V.(*ssa.Call)
			if !ok {
				return nil, "", nil, nil, "a partIsOpcode test with run-time arguments that is not a call: " + t.String()
			}
			if call != nil && call != cl {
				return nil, "", nil, nil, "two different partIsOpcode tests with run-time arguments"
			}
			call, callStr = cl, t.String()
		}
	}
	if call == nil {
		return nil, "", nil, nil, ""
	}
	rows1, f1 := rowFieldOfTable(c.P, call.Call.Args[1])
	rows2, f2 := rowFieldOfTable(c.P, call.Call.Args[2])
	if rows1 == nil || rows2 == nil || len(rows1) != len(rows2) || len(rows1) == 0 {
		return nil, "", nil, nil, "partIsOpcode is called with run-time arguments that are not the fields of a row of a constant table: " + callStr
	}
	for ri, row := range rows1 {
		iv, okI := row[f1]
		ov, okO := rows2[ri][f2]
		if !okI || !okO {
			return nil, "", nil, nil, "a row of the table lacks the field read"
		}
		if want, ok := template[int(iv.Int64())]; !ok || want != ov.Int64() {
			return nil, "", nil, nil, fmt.Sprintf("the recogniser tests something the template does not have: part %d for opcode %#x (row %d of its table)", iv.Int64(), ov.Int64(), ri)
		}
		atoms = append(atoms, fmt.Sprintf("A%d", iv.Int64()))
	}
	// the shape of the loop body: the call false ends with false, the call true goes round
	var edge [2]*ssa.BasicBlock
	for _, p := range paths {
		if !pathMentions(p, callStr) {
			continue
		}
		var truth, last bool
		for i, cd := range p.Conds {
			if cd.Cond.String() == callStr {
				truth, last = cd.Truth, i == len(p.Conds)-1
			}
		}
		switch {
		case truth && last && p.EndKind == "loop" && p.Target != nil && len(p.Blocks) > 0:
			e := [2]*ssa.BasicBlock{p.Blocks[len(p.Blocks)-1], p.Target}
			if edge[0] != nil && edge != e {
				return nil, "", nil, nil, "the row loop has several back edges"
			}
			edge = e
			loopPaths = append(loopPaths, p)
		case !truth && last && p.EndKind == "return" && p.Ret != nil && len(p.Ret.Results) == 1:
			if t := p.Env.Term(p.Ret.Results[0]); !(t.K == "const" && t.C != nil && t.C.Kind() == constant.Bool && !constant.BoolVal(t.C)) {
				return nil, "", nil, nil, "a row that does not match does not end the recogniser with false"
			}
		default:
			return nil, "", nil, nil, "the loop over the template rows is not of the form 'a row that does not match: false; otherwise the next row'"
		}
	}
	if edge[0] == nil {
		return nil, "", nil, nil, "the loop over the template rows never goes round"
	}
	more, err := enumPaths(edge[1], edge[0], nil, 20000)
	if err != nil {
		return nil, "", nil, nil, "cannot enumerate the paths after the row loop: " + err.Error()
	}
	for _, p := range filterFeasible(more) {
		if pathMentions(p, callStr) {
			continue // the next row
		}
		if p.EndKind != "return" || p.Ret == nil || len(p.Ret.Results) != 1 {
			return nil, "", nil, nil, "after the row loop a path ends in " + p.EndKind
		}
		exitPaths = append(exitPaths, p)
	}
	if len(exitPaths) == 0 {
		return nil, "", nil, nil, "no path leaves the row loop"
	}
	return atoms, callStr, loopPaths, exitPaths, ""
}
