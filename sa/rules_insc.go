package main

// T-insc: the recogniser of the P2PKH inscription template (isP2PKHInscriptionHelper, behind
// IsP2PKHInscription, ParseInscription, ScriptType and the size estimate of inscription inputs) as a decision
// table over what it reads: the number of parts, one "part i starts with opcode X" test per template
// position, and the "ord" marker. On every cell it must answer
//   at least 13 parts, DUP HASH160 . EQUALVERIFY CHECKSIG FALSE IF "ord" TRUE . FALSE . ENDIF at positions
//   0 1 3 4 5 6 7 8 10 12, and nothing after them or an OP_RETURN at position 13.

import (
	"fmt"
	"go/constant"
	"go/token"
	"math/big"
	"sort"
	"strings"

	"golang.org/x/tools/go/ssa"
)

func ruleTInsc(c *Ctx) {
	fn := c.P.Func("bscript", "", "isP2PKHInscriptionHelper")
	if fn == nil {
		c.Undecided("T-insc", "isP2PKHInscriptionHelper", token.NoPos, "not found")
		return
	}
	paths, err := feasiblePaths(fn, 200000)
	if err != nil {
		c.Undecided("T-insc", "isP2PKHInscriptionHelper", fn.Pos(), "cannot enumerate paths: "+err.Error())
		return
	}
	template := map[int]int64{0: 0x76, 1: 0xa9, 3: 0x88, 4: 0xac, 5: 0x00, 6: 0x63, 8: 0x51, 10: 0x00, 12: 0x68, 13: 0x6a}
	bases := map[string]*T{}
	for _, p := range paths {
		for _, cd := range p.Conds {
			baseTerms(cd.Cond, bases)
		}
		if p.Ret != nil {
			for _, r := range p.Ret.Results {
				baseTerms(p.Env.Term(r), bases)
			}
		}
	}
	// classify the base terms
	atomOf := map[string]string{} // term string -> "len" | "ord" | "A<i>"
	var odd []string
	var keys []string
	for k := range bases {
		keys = append(keys, k)
	}
	sort.Strings(keys)
	for _, k := range keys {
		t := bases[k]
		switch {
		case k == "len(p0)":
			atomOf[k] = "len"
		case t.K == "call" && strings.Contains(t.Name, "partIsOpcode") && len(t.Args) == 3 && t.Args[0].String() == "p0" && t.Args[1].K == "const" && t.Args[2].K == "const" && t.Args[1].C != nil && t.Args[2].C != nil:
			i, _ := constant.Int64Val(constant.ToInt(t.Args[1].C))
			op, _ := constant.Int64Val(constant.ToInt(t.Args[2].C))
			if want, ok := template[int(i)]; ok && want == op {
				atomOf[k] = fmt.Sprintf("A%d", i)
			} else {
				odd = append(odd, fmt.Sprintf("part %d tested for opcode %#x", i, op))
			}
		case t.K == "call" && strings.Contains(t.Name, "bytes.HasPrefix") && len(t.Args) == 2 && t.Args[0].String() == "p0[7]" && constBytesOfCallArg(t, 1) == "6f7264":
			atomOf[k] = "ord"
		default:
			odd = append(odd, k)
		}
	}
	if len(odd) > 0 {
		c.Fail("T-insc", "isP2PKHInscriptionHelper", fn.Pos(), "the recogniser tests something the template does not have (or a template position for another opcode): "+strings.Join(odd, "; "))
		return
	}
	names := []string{"A0", "A1", "A3", "A4", "A5", "A6", "ord", "A8", "A10", "A12", "A13"}
	cells := 0
	var bad []string
	for _, n := range []int64{0, 1, 12, 13, 14, 15, 40} {
		for m := 0; m < 1<<len(names); m++ {
			val := map[string]bool{}
			feasible := true
			for j, nm := range names {
				val[nm] = m&(1<<j) != 0
				if val[nm] {
					pos := int64(7)
					if nm != "ord" {
						fmt.Sscanf(nm, "A%d", &pos)
					}
					if pos >= n {
						feasible = false // a part that does not exist starts with nothing
					}
				}
			}
			if !feasible {
				continue
			}
			asg := map[string]*big.Int{}
			for k, a := range atomOf {
				switch {
				case a == "len":
					asg[k] = big.NewInt(n)
				case val[a]:
					asg[k] = big.NewInt(1)
				default:
					asg[k] = big.NewInt(0)
				}
			}
			want := n >= 13 && (n == 13 || val["A13"])
			for _, nm := range names {
				if nm != "A13" && !val[nm] {
					want = false
				}
			}
			got := map[string]bool{}
			for _, p := range paths {
				if p.EndKind != "return" || p.Ret == nil || len(p.Ret.Results) != 1 {
					got["other end: "+p.EndKind] = true
					continue
				}
				ok := true
				for _, cd := range p.Conds {
					v, evaluated := evalTerm(cd.Cond, asg)
					if !evaluated {
						got["a condition that does not fold: "+cd.Cond.String()] = true
						ok = false
						break
					}
					if (v.Sign() != 0) != cd.Truth {
						ok = false
						break
					}
				}
				if !ok {
					continue
				}
				v, evaluated := evalTerm(p.Env.Term(p.Ret.Results[0]), asg)
				switch {
				case !evaluated:
					got["a result that does not fold: "+p.Env.Term(p.Ret.Results[0]).String()] = true
				case v.Sign() != 0:
					got["true"] = true
				default:
					got["false"] = true
				}
			}
			cells++
			if w := fmt.Sprint(want); len(got) != 1 || !got[w] {
				if len(bad) < 4 {
					var miss []string
					for _, nm := range names {
						if !val[nm] {
							miss = append(miss, nm)
						}
					}
					bad = append(bad, fmt.Sprintf("%d parts, positions not matching %v: code %v, template %v", n, miss, sortedKeys(got), want))
				}
			}
		}
	}
	c.Covered["T-insc:cells"] = cells
	c.MinInstances("T-insc", cells, 2000)
	c.Check(len(bad) == 0, "T-insc", "isP2PKHInscriptionHelper", fn.Pos(),
		fmt.Sprintf("answers the inscription template on all %d cells of part count x position tests", cells),
		"the inscription recogniser differs from the template: "+strings.Join(bad, "; "))
}

// constBytesOfTerm: hex of the []byte{...} literal a call's second argument is, "" if it is not one.
func constBytesOfCallArg(t *T, k int) string {
	call, ok := t.V.(*ssa.Call)
	if !ok || k >= len(call.Call.Args) {
		return ""
	}
	bs, ok := literalBytes(call.Call.Args[k])
	if !ok {
		return ""
	}
	s := ""
	for _, b := range bs {
		s += fmt.Sprintf("%02x", b)
	}
	return s
}
