package main

import (
	"fmt"
	"golang.org/x/tools/go/ssa"
	"os"
	"sort"
	"strings"
)

func init() {
	debugCmds["osum"] = func(args []string) {
		p, err := loadProg(debugRepo(), "")
		if err != nil {
			fmt.Println(err)
			os.Exit(2)
		}
		e := NewOEngine(p, OConfig{})
		e.Run()
		for _, f := range e.fns {
			if len(args) > 0 && !strings.Contains(funcName(f), args[0]) {
				continue
			}
			s := e.Sums[f]
			fmt.Println("==", funcName(f))
			var ks []string
			for k, w := range s.Writes {
				ks = append(ks, fmt.Sprintf("  W %s  at %s via %s", k, p.Pos(w.Pos), w.Via))
			}
			sort.Strings(ks)
			fmt.Println(strings.Join(ks, "\n"))
			for i, r := range s.Results {
				fmt.Printf("  R%d %v\n", i, r.sorted())
				for rel, hs := range s.ResultHeap[i] {
					fmt.Printf("     RH %q <- %v\n", rel, hs.sorted())
				}
			}
			for k, hs := range s.ParamHeap {
				fmt.Printf("  PH %s <- %v\n", k, hs.sorted())
			}
		}
		var us []string
		for u, pos := range e.Unknown {
			us = append(us, u+" at "+p.Pos(pos))
		}
		sort.Strings(us)
		for u, pos := range e.UserCallbacks {
			us = append(us, "usercallback "+u+" at "+p.Pos(pos))
		}
		sort.Strings(us)
		fmt.Println("UNKNOWN EXTERNALS:\n " + strings.Join(us, "\n "))
	}
}

func init() {
	debugCmds["pdebug"] = func(args []string) {
		p, err := loadProg(debugRepo(), "")
		if err != nil {
			fmt.Println(err)
			os.Exit(2)
		}
		c, _ := newCtx(p, "DBG", "quick")
		pe := configureInterpP(c)
		for _, f := range pe.O.fns {
			if len(args) == 0 || !strings.Contains(funcName(f), args[0]) {
				continue
			}
			fmt.Println("==", funcName(f))
			pc := pe.postOf(f)
			fmt.Printf("  post valid=%v errIdx=%d ok=%d false=%d resNonNil=%v\n", pc.valid, pc.errIdx, len(pc.okConds), len(pc.falseConds), pc.resNonNil)
			pf := pe.pf(f)
			for _, cd := range pc.okConds {
				fmt.Printf("    okcond %v: %s\n", cd.truth, pf.get(cd.v).key)
			}
			for _, cl := range pe.clausesOf(f) {
				var ls []string
				for _, l := range cl {
					ls = append(ls, fmt.Sprintf("%v:%s", l.truth, pf.get(l.v).key))
				}
				fmt.Println("  clause:", strings.Join(ls, "  OR  "))
			}
		}
	}
}

func init() {
	debugCmds["facts"] = func(args []string) {
		p, err := loadProg(debugRepo(), "")
		if err != nil {
			fmt.Println(err)
			os.Exit(2)
		}
		c, _ := newCtx(p, "DBG", "quick")
		pe := pEngine(c)
		for _, f := range pe.O.fns {
			if len(args) == 0 || !strings.Contains(funcName(f), args[0]) {
				continue
			}
			pf := pe.pf(f)
			for _, b := range f.Blocks {
				fmt.Printf("%s b%d:\n", funcName(f), b.Index)
				for _, s := range pf.factsAt(b).strings() {
					fmt.Println("    ", s)
				}
			}
		}
	}
}

func init() {
	debugCmds["convs"] = func(args []string) {
		p, _ := loadProg(debugRepo(), "")
		for _, pk := range p.ScopePkgs() {
			for _, fn := range pkgFunctions(p, pk.PkgPath) {
				for _, b := range fn.Blocks {
					for _, ins := range b.Instrs {
						if cv, ok := ins.(*ssa.Convert); ok && isIntType(cv.Type()) && isIntType(cv.X.Type()) {
							slo, shi, _ := intTypeRange(cv.X.Type())
							tlo, thi, _ := intTypeRange(cv.Type())
							if slo.Cmp(tlo) < 0 || shi.Cmp(thi) > 0 {
								fmt.Printf("%s %s: %s -> %s\n", p.Pos(cv.Pos()), funcName(fn), cv.X.Type(), cv.Type())
							}
						}
					}
				}
			}
		}
	}
}

func init() {
	debugCmds["wlay"] = func(args []string) {
		p, err := loadProg(debugRepo(), "")
		if err != nil {
			fmt.Println(err)
			os.Exit(2)
		}
		setInlinePolicy()
		theProg = p
		for _, pk := range p.ScopePkgs() {
			for _, fn := range pkgFunctions(p, pk.PkgPath) {
				if len(args) == 0 || !strings.Contains(funcName(fn), args[0]) {
					continue
				}
				w := newWEval(p, fn)
				fmt.Println("==", funcName(fn))
				fmt.Println("  ", w.evalFunc().String())
			}
		}
	}
}

func init() {
	debugCmds["redpaths"] = func(args []string) {
		p, _ := loadProg(debugRepo(), "")
		c, _ := newCtx(p, "DBG", "quick")
		fn := p.Func("", "*Tx", "ReadFrom")
		if len(args) > 0 {
			fn = p.Func("", "*"+args[0], "ReadFrom")
		}
		ps, err := reducedPaths(c, fn)
		fmt.Println(err)
		for _, rp := range ps {
			fmt.Println("WHEN", strings.Join(rp.conds, " && "))
			fmt.Println("   ", strings.Join(rp.events, " ; "))
		}
	}
}

func init() {
	debugCmds["dpaths"] = func(args []string) {
		p, _ := loadProg(debugRepo(), "")
		setInlinePolicy()
		theProg = p
		fn := p.Func(args[0], args[1], args[2])
		ps, err := feasiblePaths(fn, 5000)
		fmt.Println(err)
		for _, d := range ps {
			var rs []string
			if d.Ret != nil {
				for _, r := range d.Ret.Results {
					rs = append(rs, d.Env.Term(r).String())
				}
			}
			fmt.Println("WHEN", d.CondString(), "\n   =>", d.EndKind, strings.Join(rs, " , "))
			if os.Getenv("VERIF_DEBUG") == "conds" {
				for _, pc := range d.Conds {
					at := "-"
					if pc.At != nil {
						at = fmt.Sprintf("%s b%d", pc.At.Parent().Name(), pc.At.Block().Index)
					}
					fmt.Printf("      %v %s   @ %s\n", pc.Truth, shorten(pc.Cond.String(), 80), at)
				}
			}
		}
	}
}

func init() {
	debugCmds["fieldstores"] = func(args []string) {
		p, _ := loadProg(debugRepo(), "")
		m := map[string]map[string]bool{}
		for _, fn := range pkgFunctions(p, interpPkg) {
			for _, b := range fn.Blocks {
				for _, ins := range b.Instrs {
					if st, ok := ins.(*ssa.Store); ok {
						if fa, ok := st.Addr.(*ssa.FieldAddr); ok && namedOf(fa.X.Type()) == args[0] {
							f := fieldName(fa.X.Type(), fa.Field)
							if m[f] == nil {
								m[f] = map[string]bool{}
							}
							m[f][fn.Name()] = true
						}
					}
				}
			}
		}
		for f, fs := range m {
			fmt.Println(f, keysSorted(fs))
		}
	}
}

func init() {
	debugCmds["stores"] = func(args []string) {
		p, _ := loadProg(debugRepo(), "")
		fn := p.Func(args[0], args[1], args[2])
		env := newTermEnv()
		for _, b := range fn.Blocks {
			for _, ins := range b.Instrs {
				switch x := ins.(type) {
				case *ssa.Store:
					fmt.Println("STORE", canonTerm(env.Term(x.Addr)), ":=", canonTerm(env.Term(x.Val)))
				case *ssa.Call:
					var as []string
					for _, a := range x.Call.Args {
						as = append(as, canonTerm(env.Term(a)))
					}
					fmt.Println("CALL", x.Call.Value.Name(), as)
				case *ssa.Return:
					var as []string
					for _, a := range x.Results {
						as = append(as, canonTerm(env.Term(a)))
					}
					fmt.Println("RET", as)
				}
			}
		}
	}
}

func init() {
	debugCmds["hpaths"] = func(args []string) {
		p, _ := loadProg(debugRepo(), "")
		fn := p.Func(args[0], args[1], args[2])
		var header *ssa.BasicBlock
		for _, b := range fn.Blocks {
			if isLoopHeader(b) {
				header = b
				break
			}
		}
		ps, err := enumPaths(header, nil, nil, 5000)
		fmt.Println(err, len(ps))
		for _, d := range ps {
			if d.EndKind != "return" {
				continue
			}
			var rs []string
			for _, r := range d.Ret.Results {
				rs = append(rs, atomName(d.Env.Term(r)))
			}
			if len(args) > 3 && !strings.Contains(d.CondString(), args[3]) {
				continue
			}
			fmt.Println("WHEN", callOrdinal.ReplaceAllString(d.CondString(), ""), "\n   =>", strings.Join(rs, " , "))
		}
	}
}

func debugRepo() string {
	if r := os.Getenv("VERIF_REPO"); r != "" {
		return r
	}
	return "/repo"
}

func init() {
	debugCmds["gen-baseline"] = func(args []string) {
		p, err := loadProg(debugRepo(), "")
		if err != nil {
			fmt.Println(err)
			os.Exit(2)
		}
		var names []string
		for _, pk := range p.SSA.AllPackages() {
			if pk.Pkg == nil || !strings.HasPrefix(pk.Pkg.Path(), modPath) {
				continue
			}
			for _, f := range pkgFunctions(p, pk.Pkg.Path()) {
				if f.Parent() == nil {
					names = append(names, funcName(f))
				}
			}
		}
		sort.Strings(names)
		fmt.Println(strings.Join(names, "\n"))
	}
}
