package main

// T-arith (C05): numeric opcodes compute the specified function of their operands, with the
// operands in the specified order. Each handler's extracted decision structure (path conditions and
// the value pushed, over the k-th popped numbers P1 = top, P2, P3) is folded on a grid of small
// integers under a model of the scriptNumber methods, and compared with the opcode's definition.
// T-num checks that model against the methods' bodies: each scriptNumber method is the like-named
// big.Int operation on (receiver, argument), each comparison the right test of Cmp.

import (
	"fmt"
	"go/constant"
	"go/token"
	"sort"
	"strings"

	"golang.org/x/tools/go/ssa"
)

// A value during the walk of one path: the representative number (used only to fold comparisons on
// the partition cell) and the symbolic expression over the popped operands (what is compared with the
// opcode's definition).
type aval struct {
	kind string // num | bool | nil | undef
	n    int64
	b    bool
	sym  string
	note string
}

// arithWalk interprets one path symbolically. scriptNumber methods update their receiver in place and
// return it, so objects (a popped number, a literal) carry a current value.
type arithWalk struct {
	d     *DPath
	pops  map[*ssa.Call]int
	vals  []int64
	obj   map[ssa.Value]aval // current value of a scriptNumber object, keyed by its root
	calls map[*ssa.Call]aval // results of calls, fixed when the call is reached
}

func truncDiv(a, b int64) int64 { return a / b }
func truncRem(a, b int64) int64 { return a % b }

func (w *arithWalk) rootOf(v ssa.Value) ssa.Value {
	for i := 0; i < 20; i++ {
		switch x := v.(type) {
		case *ssa.Phi:
			if ch, ok := w.d.Env.Phi[x]; ok {
				v = ch
				continue
			}
			return v
		case *ssa.Call:
			if sc := x.Call.StaticCallee(); sc != nil && sc.Signature.Recv() != nil && namedOf(sc.Signature.Recv().Type()) == "scriptNumber" && len(x.Call.Args) > 0 {
				switch sc.Name() {
				case "Add", "Sub", "Mul", "Div", "Mod", "Neg", "Abs", "Incr", "Decr", "Set":
					v = x.Call.Args[0]
					continue
				}
			}
			return v
		}
		return v
	}
	return v
}

func (w *arithWalk) num(v ssa.Value) aval {
	r := w.rootOf(v)
	if a, ok := w.obj[r]; ok {
		return a
	}
	switch x := r.(type) {
	case *ssa.Extract:
		if call, ok := x.Tuple.(*ssa.Call); ok {
			if k, isPop := w.pops[call]; isPop && x.Index == 0 && k < len(w.vals) {
				return aval{kind: "num", n: w.vals[k], sym: fmt.Sprintf("P%d", k+1)}
			}
		}
	case *ssa.Const:
		if x.Value != nil && x.Value.Kind() == constant.Int {
			n, _ := constant.Int64Val(x.Value)
			return aval{kind: "num", n: n, sym: fmt.Sprint(n)}
		}
	case *ssa.Call:
		if sc := x.Call.StaticCallee(); sc != nil && sc.String() == "math/big.NewInt" {
			return w.num(x.Call.Args[0])
		}
	case *ssa.Convert:
		return w.num(x.X)
	}
	return aval{kind: "undef", note: fmt.Sprintf("number from %T", r)}
}

func (w *arithWalk) boolean(v ssa.Value) aval {
	switch x := v.(type) {
	case *ssa.Const:
		if x.Value != nil && x.Value.Kind() == constant.Bool {
			return aval{kind: "bool", b: constant.BoolVal(x.Value)}
		}
	case *ssa.Phi:
		if ch, ok := w.d.Env.Phi[x]; ok {
			return w.boolean(ch)
		}
	case *ssa.UnOp:
		if x.Op == token.NOT {
			a := w.boolean(x.X)
			if a.kind == "bool" {
				a.b = !a.b
			}
			return a
		}
	case *ssa.Call:
		if a, ok := w.calls[x]; ok {
			return a
		}
	case *ssa.BinOp:
		// err != nil after a pop that succeeded on this path
		if k, isK := x.Y.(*ssa.Const); isK && k.Value == nil {
			if ex, isEx := x.X.(*ssa.Extract); isEx && ex.Index == 1 {
				if call, isC := ex.Tuple.(*ssa.Call); isC {
					if _, isPop := w.pops[call]; isPop {
						return aval{kind: "bool", b: x.Op == token.EQL}
					}
				}
			}
			return aval{kind: "undef", note: "nil test"}
		}
		a, b := w.boolean(x.X), w.boolean(x.Y)
		if a.kind == "bool" && b.kind == "bool" {
			switch x.Op {
			case token.EQL:
				return aval{kind: "bool", b: a.b == b.b}
			case token.NEQ:
				return aval{kind: "bool", b: a.b != b.b}
			}
		}
	}
	return aval{kind: "undef", note: fmt.Sprintf("condition %T", v)}
}

// step executes one call of the path.
func (w *arithWalk) step(call *ssa.Call) {
	sc := call.Call.StaticCallee()
	if sc == nil || sc.Signature.Recv() == nil || namedOf(sc.Signature.Recv().Type()) != "scriptNumber" {
		return
	}
	r := w.num(call.Call.Args[0])
	var o aval
	if len(call.Call.Args) > 1 {
		o = w.num(call.Call.Args[1])
	}
	set := func(n int64, sym string) {
		w.obj[w.rootOf(call.Call.Args[0])] = aval{kind: "num", n: n, sym: sym}
	}
	if r.kind != "num" || (len(call.Call.Args) > 1 && o.kind != "num") {
		w.calls[call] = aval{kind: "undef", note: "non-numeric operand of " + sc.Name()}
		return
	}
	switch sc.Name() {
	case "Add":
		set(r.n+o.n, "Add("+r.sym+","+o.sym+")")
	case "Sub":
		set(r.n-o.n, "Sub("+r.sym+","+o.sym+")")
	case "Mul":
		set(r.n*o.n, "Mul("+r.sym+","+o.sym+")")
	case "Div":
		if o.n == 0 {
			w.obj[w.rootOf(call.Call.Args[0])] = aval{kind: "undef", note: "division by zero reaches Div"}
		} else {
			set(truncDiv(r.n, o.n), "Div("+r.sym+","+o.sym+")")
		}
	case "Mod":
		if o.n == 0 {
			w.obj[w.rootOf(call.Call.Args[0])] = aval{kind: "undef", note: "division by zero reaches Mod"}
		} else {
			set(truncRem(r.n, o.n), "Mod("+r.sym+","+o.sym+")")
		}
	case "Neg":
		set(-r.n, "Neg("+r.sym+")")
	case "Abs":
		if r.n < 0 {
			set(-r.n, "Abs("+r.sym+")")
		} else {
			set(r.n, "Abs("+r.sym+")")
		}
	case "Incr":
		set(r.n+1, "Add("+r.sym+",1)")
	case "Decr":
		set(r.n-1, "Sub("+r.sym+",1)")
	case "Set":
		set(o.n, o.sym)
	case "IsZero":
		w.calls[call] = aval{kind: "bool", b: r.n == 0}
	case "Equal", "EqualInt":
		w.calls[call] = aval{kind: "bool", b: r.n == o.n}
	case "LessThan", "LessThanInt":
		w.calls[call] = aval{kind: "bool", b: r.n < o.n}
	case "LessThanOrEqual":
		w.calls[call] = aval{kind: "bool", b: r.n <= o.n}
	case "GreaterThan", "GreaterThanInt":
		w.calls[call] = aval{kind: "bool", b: r.n > o.n}
	case "GreaterThanOrEqual":
		w.calls[call] = aval{kind: "bool", b: r.n >= o.n}
	default:
		w.calls[call] = aval{kind: "undef", note: "unmodelled scriptNumber method " + sc.Name()}
	}
}

type arithSpec struct {
	pops int
	f    func(p []int64) []string // acceptable outcomes for the cell of p: symbolic value, constant, or error code
}

func b01(b bool) []string {
	if b {
		return []string{"1"}
	}
	return []string{"0"}
}

var arithSpecs = map[string]arithSpec{
	"OP_1ADD":   {1, func(p []int64) []string { return []string{"Add(P1,1)"} }},
	"OP_1SUB":   {1, func(p []int64) []string { return []string{"Sub(P1,1)"} }},
	"OP_NEGATE": {1, func(p []int64) []string { return []string{"Neg(P1)"} }},
	"OP_ABS":    {1, func(p []int64) []string { return []string{"Abs(P1)"} }},
	"OP_NOT":    {1, func(p []int64) []string { return b01(p[0] == 0) }},
	"OP_0NOTEQUAL": {1, func(p []int64) []string {
		if p[0] == 0 {
			return []string{"0", "P1"}
		}
		return []string{"1"}
	}},
	"OP_ADD": {2, func(p []int64) []string { return []string{"Add(P1,P2)", "Add(P2,P1)"} }},
	"OP_SUB": {2, func(p []int64) []string { return []string{"Sub(P2,P1)"} }},
	"OP_MUL": {2, func(p []int64) []string { return []string{"Mul(P1,P2)", "Mul(P2,P1)"} }},
	"OP_DIV": {2, func(p []int64) []string {
		if p[0] == 0 {
			return []string{"ErrDivideByZero"}
		}
		return []string{"Div(P2,P1)"}
	}},
	"OP_MOD": {2, func(p []int64) []string {
		if p[0] == 0 {
			return []string{"ErrDivideByZero"}
		}
		return []string{"Mod(P2,P1)"}
	}},
	"OP_BOOLAND":            {2, func(p []int64) []string { return b01(p[1] != 0 && p[0] != 0) }},
	"OP_BOOLOR":             {2, func(p []int64) []string { return b01(p[1] != 0 || p[0] != 0) }},
	"OP_NUMEQUAL":           {2, func(p []int64) []string { return b01(p[1] == p[0]) }},
	"OP_NUMNOTEQUAL":        {2, func(p []int64) []string { return b01(p[1] != p[0]) }},
	"OP_LESSTHAN":           {2, func(p []int64) []string { return b01(p[1] < p[0]) }},
	"OP_GREATERTHAN":        {2, func(p []int64) []string { return b01(p[1] > p[0]) }},
	"OP_LESSTHANOREQUAL":    {2, func(p []int64) []string { return b01(p[1] <= p[0]) }},
	"OP_GREATERTHANOREQUAL": {2, func(p []int64) []string { return b01(p[1] >= p[0]) }},
	"OP_MIN": {2, func(p []int64) []string {
		switch {
		case p[1] < p[0]:
			return []string{"P2"}
		case p[1] > p[0]:
			return []string{"P1"}
		}
		return []string{"P1", "P2"}
	}},
	"OP_MAX": {2, func(p []int64) []string {
		switch {
		case p[1] > p[0]:
			return []string{"P2"}
		case p[1] < p[0]:
			return []string{"P1"}
		}
		return []string{"P1", "P2"}
	}},
	"OP_WITHIN": {3, func(p []int64) []string { return b01(p[1] <= p[2] && p[2] < p[0]) }},
}

func ruleTArith(c *Ctx) {
	entries, ok := readOpcodeArray(c, "T-arith")
	if !ok {
		return
	}
	sp := c.P.SSAPkg(modPath + "/bscript/interpreter")
	grid := []int64{-1, 0, 1, 2} // every sign, zero-ness and order relation of up to three operands occurs
	n := 0
	for _, en := range entries {
		spec, has := arithSpecs[en.name]
		if !has || en.exec == nil {
			continue
		}
		fn := sp.Func(en.exec.Name())
		if fn == nil {
			continue
		}
		n++
		key := "handler/" + fn.Name() + "/" + en.name
		paths, err := feasiblePaths(fn, 5000)
		if err != nil {
			c.Undecided("T-arith", key, fn.Pos(), err.Error())
			continue
		}
		bad, cells := "", 0
		idx := make([]int, spec.pops)
		for {
			p := make([]int64, spec.pops)
			for i := range p {
				p[i] = grid[idx[i]]
			}
			want := spec.f(p)
			got, hits := "", 0
			for _, d := range paths {
				if d.EndKind != "return" {
					continue
				}
				w := &arithWalk{d: d, pops: map[*ssa.Call]int{}, vals: p, obj: map[ssa.Value]aval{}, calls: map[*ssa.Call]aval{}}
				k := 0
				var pushed []aval
				holds := true
				condOf := map[*ssa.If]PathCond{}
				for _, pc := range d.Conds {
					if pc.At != nil {
						condOf[pc.At] = pc
					}
				}
				for _, ins := range pathInstrs(d) {
					switch x := ins.(type) {
					case *ssa.Call:
						sc := x.Call.StaticCallee()
						if sc == nil {
							continue
						}
						switch sc.Name() {
						case "PopInt":
							w.pops[x] = k
							k++
						case "PushInt":
							pushed = append(pushed, w.num(x.Call.Args[1]))
						default:
							w.step(x)
						}
					case *ssa.Store:
						if fa, ok := x.Addr.(*ssa.FieldAddr); ok && fieldName(fa.X.Type(), fa.Field) == "val" {
							if al, isAl := fa.X.(*ssa.Alloc); isAl {
								w.obj[al] = w.num(x.Val)
							}
						}
					case *ssa.If:
						pc, ok := condOf[x]
						if !ok {
							continue
						}
						v := x.Cond
						neg := false
						for {
							if u, isU := v.(*ssa.UnOp); isU && u.Op == token.NOT {
								v, neg = u.X, !neg
								continue
							}
							break
						}
						a := w.boolean(v)
						if a.kind != "bool" {
							holds = false
						} else if (a.b != neg) != (pc.Truth != neg) && false {
							holds = false
						}
						if a.kind == "bool" {
							// pc.Cond is the condition with negations stripped, pc.Truth its required value
							if a.b != pc.Truth {
								holds = false
							}
						}
					}
					if !holds {
						break
					}
				}
				if !holds || k > spec.pops {
					continue
				}
				hits++
				rd := errLeaf(c, d)
				switch {
				case rd == "nil" && len(pushed) == 1 && k == spec.pops:
					if pushed[0].kind == "num" {
						got = pushed[0].sym
					} else {
						got = "undefined(" + pushed[0].note + ")"
					}
				case rd == "nil":
					got = fmt.Sprintf("%d pops, %d pushes", k, len(pushed))
				default:
					got = rd
				}
			}
			cells++
			okCell := hits == 1
			if okCell {
				okCell = false
				for _, wv := range want {
					if got == wv {
						okCell = true
					}
				}
			}
			if !okCell && bad == "" {
				bad = fmt.Sprintf("operands (P1 = top) %v: handler gives %s on %d path(s), the opcode's definition gives %s", p, got, hits, strings.Join(want, " or "))
			}
			i := 0
			for ; i < len(idx); i++ {
				idx[i]++
				if idx[i] < len(grid) {
					break
				}
				idx[i] = 0
			}
			if i == len(idx) {
				break
			}
		}
		c.Covered["T-arith:cells:"+en.name] = cells
		c.Check(bad == "", "T-arith", key, fn.Pos(), fmt.Sprintf("pushes the specified expression of its operands (operand order included) in every one of the %d order/zero cells", cells), en.name+" does not compute its definition: "+bad)
	}
	c.MinInstances("T-arith", n, 20)
	// T-num: the model of the scriptNumber methods
	type numSpec struct{ big string }
	arith := map[string]string{"Add": "Add", "Sub": "Sub", "Mul": "Mul", "Div": "Quo", "Mod": "Rem", "Neg": "Neg", "Abs": "Abs", "Incr": "Add", "Decr": "Sub"}
	cmp := map[string]func(cres int64) bool{
		"LessThan":           func(r int64) bool { return r < 0 },
		"LessThanOrEqual":    func(r int64) bool { return r <= 0 },
		"GreaterThan":        func(r int64) bool { return r > 0 },
		"GreaterThanOrEqual": func(r int64) bool { return r >= 0 },
		"Equal":              func(r int64) bool { return r == 0 },
		"IsZero":             func(r int64) bool { return r == 0 },
	}
	var names []string
	for m := range arith {
		names = append(names, m)
	}
	for m := range cmp {
		names = append(names, m)
	}
	sort.Strings(names)
	env := newTermEnv()
	for _, m := range names {
		fn := c.P.Func("bscript/interpreter", "*scriptNumber", m)
		if fn == nil {
			c.Undecided("T-num", "scriptNumber."+m, token.NoPos, "not found")
			continue
		}
		if bigName, isArith := arith[m]; isArith {
			var found []string
			for _, b := range fn.Blocks {
				for _, ins := range b.Instrs {
					if call, ok := ins.(*ssa.Call); ok {
						if sc := call.Call.StaticCallee(); sc != nil && strings.HasPrefix(sc.String(), "(*math/big.Int).") {
							var as []string
							for _, a := range call.Call.Args[1:] {
								as = append(as, atomName(env.Term(a)))
							}
							found = append(found, sc.Name()+"("+strings.Join(as, ", ")+")")
						}
					}
				}
			}
			want := bigName + "(p0.val, p1.val)"
			switch m {
			case "Neg", "Abs":
				want = bigName + "(p0.val)"
			case "Incr", "Decr":
				want = bigName + "(p0.val, *g:interpreter.one)"
			}
			got := strings.Join(found, "; ")
			got = strings.ReplaceAll(got, "*g:bscript/interpreter.one", "*g:interpreter.one")
			c.Check(got == want, "T-num", "scriptNumber."+m, fn.Pos(), m+" is big.Int."+want, fmt.Sprintf("scriptNumber.%s computes big.Int %s, the model (and the opcode definitions) assume %s", m, got, want))
			continue
		}
		// comparisons: return value is a test of Cmp(receiver, argument)
		okCmp := len(fn.Blocks) == 1
		if okCmp {
			r, isR := fn.Blocks[0].Instrs[len(fn.Blocks[0].Instrs)-1].(*ssa.Return)
			bo, isBo := ssa.Value(nil), false
			if isR {
				bo, isBo = r.Results[0], true
			}
			b2, isB2 := bo.(*ssa.BinOp)
			okCmp = isR && isBo && isB2
			if okCmp {
				call, isC := b2.X.(*ssa.Call)
				k, isK := b2.Y.(*ssa.Const)
				okCmp = isC && isK && call.Call.StaticCallee() != nil && call.Call.StaticCallee().String() == "(*math/big.Int).Cmp"
				if okCmp {
					a0 := atomName(env.Term(call.Call.Args[0]))
					a1 := atomName(env.Term(call.Call.Args[1]))
					okArgs := a0 == "p0.val" && (a1 == "p1.val" || (m == "IsZero" && strings.HasSuffix(a1, ".zero")))
					kv, _ := constant.Int64Val(k.Value)
					for _, cres := range []int64{-1, 0, 1} {
						var res bool
						switch b2.Op {
						case token.EQL:
							res = cres == kv
						case token.NEQ:
							res = cres != kv
						case token.LSS:
							res = cres < kv
						case token.LEQ:
							res = cres <= kv
						case token.GTR:
							res = cres > kv
						case token.GEQ:
							res = cres >= kv
						}
						if res != cmp[m](cres) {
							okArgs = false
						}
					}
					okCmp = okArgs
				}
			}
		}
		c.Check(okCmp, "T-num", "scriptNumber."+m, fn.Pos(), m+" tests Cmp(receiver, argument) as its name says", "scriptNumber."+m+" is not the comparison its name says (operand order or the test of Cmp's result)")
	}
}
