package main

// C20 rules: ordinals flows and inscriptions.
//   G-idx   builder traces of the four flow-creating functions: the ordinal input and the payment-to-seller
//           output sit at the same index k; the signing loop skips exactly k; constants used by the
//           validate/accept functions equal k; listing signs input 0 with SINGLE|ANYONECANPAY|FORKID
//   G-fifo  sum of the input values before the ordinal input == sum of the output values before the
//           buyer's 1-satoshi output, as linear forms
//   S-fee   a flow that changes the size of a transaction checks the fee on the completed transaction
//   W-insc  token sequence written by Inscribe == positions read by the parser
//   O-insc  Inscribe writes nothing reachable from its argument; the new script is built in fresh memory
//   T-rt    push round trip by length class (encode prefix table against decode table)

import (
	"fmt"
	"go/constant"
	"go/token"
	"go/types"
	"math/big"
	"sort"
	"strings"

	"golang.org/x/tools/go/ssa"
)

type ordEvent struct {
	kind  string            // in | out | change
	vals  []string          // for "in": one term per input added ("rest:<slice>" for a spread slice)
	out   map[string]string // for "out": field -> term, or {"ref": term}
	instr ssa.Instruction
}

// ordTrace extracts the builder events on the success path of a flow-creating function.
func ordTrace(c *Ctx, fn *ssa.Function) ([]ordEvent, *DPath, error) {
	// raw path enumeration: loops are cut at their back edges, so a later loop over the same slice has to
	// be left at its first test; the builder steps of interest lie outside the loops
	paths, err := enumPaths(fn.Blocks[0], nil, nil, 50000)
	if err != nil {
		return nil, nil, err
	}
	var seqs []string
	var best []ordEvent
	var bestPath *DPath
	for _, d := range paths {
		if returnDesc(d) != "return nil" {
			continue
		}
		env := d.Env
		var ev []ordEvent
		instrs := pathInstrs(d)
		// stores into literal allocs along the path
		fieldsOf := func(al ssa.Value) map[string]string {
			m := map[string]string{}
			for _, ins := range instrs {
				if st, ok := ins.(*ssa.Store); ok {
					if fa, ok := st.Addr.(*ssa.FieldAddr); ok && fa.X == al {
						m[fieldName(fa.X.Type(), fa.Field)] = canonTerm(env.Term(st.Val))
					}
				}
			}
			return m
		}
		for _, ins := range instrs {
			call, ok := ins.(*ssa.Call)
			if !ok {
				continue
			}
			if bi, isB := call.Call.Value.(*ssa.Builtin); isB && bi.Name() == "append" {
				if appendTargetField(call) == "Inputs" {
					var vs []string
					for _, v := range appendedValues(call) {
						if al, isAl := v.(*ssa.Alloc); isAl {
							f := fieldsOf(al)
							vs = append(vs, "new-input{PreviousTxOutIndex:"+f["PreviousTxOutIndex"]+"}")
						} else {
							vs = append(vs, canonTerm(env.Term(v)))
						}
					}
					ev = append(ev, ordEvent{kind: "in", vals: vs, instr: ins})
				}
				continue
			}
			sc := call.Call.StaticCallee()
			if sc == nil {
				continue
			}
			switch sc.Name() {
			case "FromUTXOs":
				arg := call.Call.Args[1]
				var vs []string
				if sl, isSl := arg.(*ssa.Slice); isSl {
					if al, isAl := sl.X.(*ssa.Alloc); isAl && al.Comment == "varargs" {
						n := 0
						for _, v := range appendedValues2(call) {
							vs = append(vs, canonTerm(env.Term(v)))
							n++
						}
					} else {
						vs = []string{"rest:" + canonTerm(env.Term(arg))}
					}
				} else {
					vs = []string{"rest:" + canonTerm(env.Term(arg))}
				}
				ev = append(ev, ordEvent{kind: "in", vals: vs, instr: ins})
			case "AddOutput":
				arg := call.Call.Args[1]
				if al, isAl := arg.(*ssa.Alloc); isAl {
					ev = append(ev, ordEvent{kind: "out", out: fieldsOf(al), instr: ins})
				} else {
					ev = append(ev, ordEvent{kind: "out", out: map[string]string{"ref": canonTerm(env.Term(arg))}, instr: ins})
				}
			case "Change":
				ev = append(ev, ordEvent{kind: "change", vals: []string{canonTerm(env.Term(call.Call.Args[1])), canonTerm(env.Term(call.Call.Args[2]))}, instr: ins})
			}
		}
		s := fmt.Sprint(len(ev))
		for _, e := range ev {
			s += "|" + e.kind + fmt.Sprint(e.vals) + fmt.Sprint(e.out)
		}
		dup := false
		for _, x := range seqs {
			if x == s {
				dup = true
			}
		}
		if !dup {
			seqs = append(seqs, s)
			best, bestPath = ev, d
		}
	}
	if len(seqs) != 1 {
		return nil, nil, fmt.Errorf("%d different builder traces on the success paths (expected one)", len(seqs))
	}
	return best, bestPath, nil
}

// signLoopSkip: in the signing loop, FillInput's InputIdx is j = i + [i >= k]; returns k and the flags constant.
func signLoopSkip(fn *ssa.Function) (k int64, flags int64, ok bool) {
	k, flags = -1, 0
	for _, b := range fn.Blocks {
		for _, ins := range b.Instrs {
			call, isC := ins.(*ssa.Call)
			if !isC {
				continue
			}
			sc := call.Call.StaticCallee()
			if sc == nil || sc.Name() != "FillInput" {
				continue
			}
			inLoop := false
			for x := b; x != nil; x = x.Idom() {
				if isLoopHeader(x) {
					inLoop = true
				}
			}
			if !inLoop {
				continue
			}
			// the params literal: load of an alloc whose fields were stored
			ld, isLd := call.Call.Args[3].(*ssa.UnOp)
			if !isLd {
				return
			}
			al := ld.X
			for _, b2 := range fn.Blocks {
				for _, i2 := range b2.Instrs {
					st, isSt := i2.(*ssa.Store)
					if !isSt {
						continue
					}
					fa, isFa := st.Addr.(*ssa.FieldAddr)
					if !isFa || fa.X != al {
						continue
					}
					switch fieldName(fa.X.Type(), fa.Field) {
					case "SigHashFlags":
						if kk, isK := st.Val.(*ssa.Const); isK {
							flags, _ = constant.Int64Val(constant.ToInt(kk.Value))
						}
					case "InputIdx":
						v := st.Val
						if cv, isCv := v.(*ssa.Convert); isCv {
							v = cv.X
						}
						ph, isPh := v.(*ssa.Phi)
						if !isPh || len(ph.Edges) != 2 {
							return
						}
						// one edge is i, the other i+1, chosen by i >= k
						var base ssa.Value
						for e, edge := range ph.Edges {
							if bo, isBo := edge.(*ssa.BinOp); isBo && bo.Op == token.ADD {
								if kc, isK := constInt(bo.Y); isK && kc.Int64() == 1 && bo.X == ph.Edges[1-e] {
									base = bo.X
									// the condition guarding the increment block
									for _, dc := range dominatingConds(ph.Block().Preds[e]) {
										if cmp, isCmp := dc.cond.(*ssa.BinOp); isCmp && cmp.X == base && dc.truth {
											if kc2, isK2 := constInt(cmp.Y); isK2 {
												switch cmp.Op {
												case token.GEQ:
													k = kc2.Int64()
												case token.GTR:
													k = kc2.Int64() + 1
												}
											}
										}
									}
								}
							}
						}
						if base == nil {
							return
						}
					}
				}
			}
			return k, flags, k >= 0
		}
	}
	return
}

func ruleGIdx(c *Ctx) {
	allFork := pkgConst(c, "sighash", "AllForkID")
	singleFork := pkgConst(c, "sighash", "SingleForkID")
	acp := pkgConst(c, "sighash", "AnyOneCanPay")
	type flow struct {
		name      string
		ordIn     func(v string) bool // recognises the ordinal input among the added inputs
		sellerOut func(o map[string]string) bool
		buyerOut  string // LockingScript term of the buyer's 1-sat output
		signFlags int64  // hash type of the signing loop (0 = default ALL|FORKID)
	}
	flows := []flow{
		{"AcceptOrdinalSaleListing", func(v string) bool { return v == "p2.PSTx.Inputs[0]" }, func(o map[string]string) bool { return o["ref"] == "p2.PSTx.Outputs[0]" }, "p2.BuyerReceiveOrdinalScript", 0},
		{"AcceptOrdinalSaleListing2Dummies", func(v string) bool { return v == "p2.PSTx.Inputs[0]" }, func(o map[string]string) bool { return o["ref"] == "p2.PSTx.Outputs[0]" }, "p2.BuyerReceiveOrdinalScript", 0},
		{"MakeBidToBuy1SatOrdinal", func(v string) bool { return strings.HasPrefix(v, "new-input{PreviousTxOutIndex:p1.OrdinalVOut") }, func(o map[string]string) bool { return o["Satoshis"] == "p1.BidAmount" }, "p1.BuyerReceiveOrdinalScript", singleFork},
		{"MakeBidToBuy1SatOrdinal2Dummies", func(v string) bool { return strings.HasPrefix(v, "new-input{PreviousTxOutIndex:p1.OrdinalVOut") }, func(o map[string]string) bool { return o["Satoshis"] == "p1.BidAmount" }, "p1.BuyerReceiveOrdinalScript", singleFork},
	}
	positions := map[string]int{}
	for _, f := range flows {
		fn := c.P.Func("ord", "", f.name)
		if fn == nil {
			c.Undecided("G-idx", f.name, token.NoPos, "not found")
			continue
		}
		ev, _, err := ordTrace(c, fn)
		if err != nil {
			c.Undecided("G-idx", f.name, fn.Pos(), "builder trace not extractable: "+err.Error())
			continue
		}
		// positions
		inPos, outPos, buyerPos := -1, -1, -1
		nIn, nOut := 0, 0
		open := false // a "rest" slice was added: later positions are not static
		var inVals []string
		var outSat []string
		var desc []string
		for _, e := range ev {
			switch e.kind {
			case "in":
				for _, v := range e.vals {
					if strings.HasPrefix(v, "rest:") {
						open = true
						desc = append(desc, "in["+fmt.Sprint(nIn)+"..]="+v)
						continue
					}
					if f.ordIn(v) && !open {
						inPos = nIn
					}
					inVals = append(inVals, v)
					desc = append(desc, fmt.Sprintf("in[%d]=%s", nIn, shorten(v, 50)))
					nIn++
				}
			case "out":
				if f.sellerOut(e.out) {
					outPos = nOut
				}
				if e.out["LockingScript"] == f.buyerOut && e.out["Satoshis"] == "1" {
					buyerPos = nOut
				}
				s := e.out["Satoshis"]
				if r, ok := e.out["ref"]; ok {
					s = r + ".Satoshis"
				}
				outSat = append(outSat, s)
				desc = append(desc, fmt.Sprintf("out[%d]={%s}", nOut, shorten(s, 60)))
				nOut++
			case "change":
				desc = append(desc, "change")
			}
		}
		positions[f.name] = inPos
		c.Check(inPos >= 0 && inPos == outPos, "G-idx", f.name+"/ordinal-input-and-seller-output-same-index", fn.Pos(),
			fmt.Sprintf("ordinal input at %d, payment-to-seller output at %d: %s", inPos, outPos, strings.Join(desc, " ")),
			fmt.Sprintf("the ordinal input is added at input position %d but the seller's payment output at output position %d: a SINGLE signature on that input commits to a different output (%s)", inPos, outPos, strings.Join(desc, " ")))
		c.Check(buyerPos >= 0, "G-idx", f.name+"/buyer-output", fn.Pos(), fmt.Sprintf("the buyer's 1-satoshi output is at %d", buyerPos), "no output of exactly 1 satoshi to the buyer's ordinal script is added")
		// change comes after all outputs
		last := ev[len(ev)-1]
		c.Check(last.kind == "change", "G-idx", f.name+"/change-last", fn.Pos(), "Change is the last builder step", "outputs or inputs are added after Change computed the fee")
		// signing loop
		k, flags, ok := signLoopSkip(fn)
		wantFlags := f.signFlags
		c.Check(ok && int(k) == inPos, "G-idx", f.name+"/sign-skip", fn.Pos(), fmt.Sprintf("the signing loop maps UTXO i to input i + [i >= %d]: it skips exactly the ordinal input", k), fmt.Sprintf("the signing loop skips input %d but the ordinal input is at %d", k, inPos))
		c.Check(flags == wantFlags, "G-idx", f.name+"/sign-flags", fn.Pos(), fmt.Sprintf("funding inputs are signed with hash type %#x (0 = default ALL|FORKID %#x)", flags, allFork), fmt.Sprintf("funding inputs are signed with hash type %#x, the flow specifies %#x", flags, wantFlags))
		// G-fifo
		if inPos >= 0 && buyerPos >= 0 {
			rename := func(s string) string { return s }
			sumIn := newTLin()
			for i := 0; i < inPos; i++ {
				sumIn.addAtom(inVals[i]+".Satoshis", big.NewInt(1))
			}
			sumOut := newTLin()
			okParse := true
			for i := 0; i < buyerPos; i++ {
				l, ok := parseLinString(outSat[i])
				if !ok {
					okParse = false
				}
				sumOut = sumOut.add(l, 1)
			}
			_ = rename
			// the seller's requested amount is one atom on both sides
			c.Check(okParse && sumIn.equal(sumOut), "G-fifo", f.name, fn.Pos(), fmt.Sprintf("value before the ordinal input (%s) == value before the buyer's output (%s): the ordinal satoshi is the first satoshi of the buyer's output", sumIn, sumOut),
				fmt.Sprintf("first-in-first-out routing broken: inputs before the ordinal carry %s, outputs before the buyer's output carry %s", sumIn, sumOut))
		}
	}
	// ListOrdinalForSale
	if fn := c.P.Func("ord", "", "ListOrdinalForSale"); fn != nil {
		ev, d, err := ordTrace(c, fn)
		if err != nil {
			c.Undecided("G-idx", "ListOrdinalForSale", fn.Pos(), err.Error())
		} else {
			okShape := len(ev) == 2 && ev[0].kind == "in" && len(ev[0].vals) == 1 && ev[0].vals[0] == "p1.OrdinalUTXO" && ev[1].kind == "out" && ev[1].out["ref"] == "p1.SellerReceiveOutput"
			var idx, fl string
			for _, ins := range pathInstrs(d) {
				if st, ok := ins.(*ssa.Store); ok {
					if fa, ok := st.Addr.(*ssa.FieldAddr); ok {
						switch fieldName(fa.X.Type(), fa.Field) {
						case "InputIdx":
							idx = canonTerm(d.Env.Term(st.Val))
						case "SigHashFlags":
							fl = canonTerm(d.Env.Term(st.Val))
						}
					}
				}
			}
			c.Check(okShape && idx == "0" && fl == fmt.Sprint(singleFork|acp), "G-idx", "ListOrdinalForSale", fn.Pos(), "one input (the ordinal), one output (the seller's), input 0 signed SINGLE|ANYONECANPAY|FORKID",
				fmt.Sprintf("the listing is no longer [ordinal input] -> [seller output] signed at index 0 with SINGLE|ANYONECANPAY|FORKID (index %s, hash type %s, %d builder steps)", idx, fl, len(ev)))
		}
	}
	// index constants of the validate / accept functions
	type idxUse struct {
		recv, name string
		flow       string
	}
	for _, u := range []idxUse{
		{"*ValidateBidArgs", "Validate", "MakeBidToBuy1SatOrdinal"}, {"", "AcceptBidToBuy1SatOrdinal", "MakeBidToBuy1SatOrdinal"},
		{"*ValidateBid2DArgs", "Validate", "MakeBidToBuy1SatOrdinal2Dummies"}, {"", "AcceptBidToBuy1SatOrdinal2Dummies", "MakeBidToBuy1SatOrdinal2Dummies"},
	} {
		fn := c.P.Func("ord", u.recv, u.name)
		if fn == nil {
			c.Undecided("G-idx", u.recv+u.name, token.NoPos, "not found")
			continue
		}
		want := int64(positions[u.flow])
		env := newTermEnv()
		bad := []string{}
		n := 0
		for _, b := range fn.Blocks {
			for _, ins := range b.Instrs {
				check := func(v ssa.Value) {
					t := canonTerm(env.Term(v))
					for _, pat := range []string{".Inputs[", ".Outputs["} {
						i := strings.Index(t, pat)
						for i >= 0 {
							rest := t[i+len(pat):]
							j := strings.Index(rest, "]")
							if j > 0 {
								var x int64
								if _, err := fmt.Sscanf(rest[:j], "%d", &x); err == nil && fmt.Sprint(x) == rest[:j] {
									// ordinal input index / seller output index; the 2-dummies validator also reads Outputs[0]
									if pat == ".Inputs[" || strings.Contains(rest[j:], "Satoshis") || strings.Contains(rest[j:], "LockingScript") {
										if !(pat == ".Outputs[" && x == 0) {
											n++
											if x != want {
												bad = append(bad, shorten(t, 80))
											}
										}
									}
								}
							}
							k := strings.Index(t[i+1:], pat)
							if k < 0 {
								break
							}
							i = i + 1 + k
						}
					}
				}
				if st, ok := ins.(*ssa.Store); ok {
					check(st.Addr)
				}
				if call, ok := ins.(*ssa.Call); ok {
					for _, a := range call.Call.Args {
						check(a)
					}
				}
			}
		}
		key := strings.TrimPrefix(u.recv, "*") + "." + u.name
		c.Check(len(bad) == 0 && n > 0, "G-idx", key+"/index", fn.Pos(), fmt.Sprintf("reads and writes the ordinal input / seller output at index %d, where %s puts them (%d uses)", want, u.flow, n),
			fmt.Sprintf("%s uses an index other than %d (where %s places the ordinal input and the seller's output): %v", key, want, u.flow, bad))
		if strings.HasPrefix(u.name, "Accept") {
			// FillInput index
			for _, b := range fn.Blocks {
				for _, ins := range b.Instrs {
					if st, ok := ins.(*ssa.Store); ok {
						if fa, ok := st.Addr.(*ssa.FieldAddr); ok && fieldName(fa.X.Type(), fa.Field) == "InputIdx" {
							c.Check(canonTerm(env.Term(st.Val)) == fmt.Sprint(want), "G-idx", key+"/signs-ordinal-input", st.Pos(), fmt.Sprintf("the seller signs input %d", want), fmt.Sprintf("the seller signs input %s, the ordinal input is %d", canonTerm(env.Term(st.Val)), want))
						}
					}
				}
			}
		}
	}
}

// parseLinString parses the canonical term strings produced for output amounts: sums/differences of atoms.
func parseLinString(s string) (*TLin, bool) {
	s = strings.TrimSpace(s)
	if s == "" {
		return newTLin(), false
	}
	// strip one pair of outer parentheses and split at the top-level operator
	if strings.HasPrefix(s, "(") && strings.HasSuffix(s, ")") {
		depth := 0
		for i, ch := range s {
			switch ch {
			case '(':
				depth++
			case ')':
				depth--
			}
			if depth == 1 && i > 0 && i+2 < len(s) && (s[i:i+3] == " + " || s[i:i+3] == " - ") {
				a, ok1 := parseLinString(s[1:i])
				b, ok2 := parseLinString(s[i+3 : len(s)-1])
				if !ok1 || !ok2 {
					return newTLin(), false
				}
				if s[i+1] == '+' {
					return a.add(b, 1), true
				}
				return a.add(b, -1), true
			}
		}
	}
	l := newTLin()
	var n int64
	if _, err := fmt.Sscanf(s, "%d", &n); err == nil && fmt.Sprint(n) == s {
		l.Const.SetInt64(n)
		return l, true
	}
	l.addAtom(s, big.NewInt(1))
	return l, true
}

// ruleSFeeAfter: the fee test of a flow that completes a transaction dominates nothing that grows it:
// every IsFeePaidEnough call in an Accept* function comes after the FillInput call.
func ruleSFeeAfter(c *Ctx) {
	fn := c.P.Func("ord", "", "AcceptBidToBuy1SatOrdinal")
	if fn == nil {
		c.Undecided("S-fee", "AcceptBidToBuy1SatOrdinal", token.NoPos, "not found")
		return
	}
	var fill, fee []*ssa.Call
	var sizeStores []*ssa.Store
	for _, b := range fn.Blocks {
		for _, ins := range b.Instrs {
			switch x := ins.(type) {
			case *ssa.Call:
				if sc := x.Call.StaticCallee(); sc != nil {
					switch sc.Name() {
					case "FillInput":
						fill = append(fill, x)
					case "IsFeePaidEnough", "EstimateIsFeePaidEnough":
						fee = append(fee, x)
					}
				}
			case *ssa.Store:
				if fa, ok := x.Addr.(*ssa.FieldAddr); ok && fieldName(fa.X.Type(), fa.Field) == "LockingScript" {
					sizeStores = append(sizeStores, x)
				}
			}
		}
	}
	ok := len(fill) == 1 && len(fee) >= 1
	if ok {
		// the success return is dominated by a fee test that is itself dominated by everything that changes the size
		okFee := false
		for _, f := range fee {
			after := fill[0].Block().Dominates(f.Block()) && (fill[0].Block() != f.Block() || instrIndex(fill[0]) < instrIndex(f))
			for _, st := range sizeStores {
				if !(st.Block().Dominates(f.Block())) {
					after = false
				}
			}
			if after && f.Call.Args[0] == fill[0].Call.Args[0] {
				// error branch returns ErrInsufficientFees; success return dominated by the test
				for _, b := range fn.Blocks {
					if r, isR := b.Instrs[len(b.Instrs)-1].(*ssa.Return); isR {
						if k, isK := r.Results[1].(*ssa.Const); isK && k.Value == nil && f.Block().Dominates(b) {
							okFee = true
						}
					}
				}
			}
		}
		ok = okFee
	}
	c.Check(ok, "S-fee", "AcceptBidToBuy1SatOrdinal/fee-on-completed-tx", fn.Pos(), "the fee test runs on the transaction after the seller's script was set and the ordinal input signed, and guards the success return",
		"AcceptBidToBuy1SatOrdinal tests the fee before the transaction reaches its final size (seller script set / ordinal input signed afterwards): the completed transaction can pay less than the expected quote")
	// the 2-dummies variant keeps the size by accepting only P2PKH scripts
	if f2 := c.P.Func("ord", "", "AcceptBidToBuy1SatOrdinal2Dummies"); f2 != nil {
		okP2PKH := false
		for _, b := range f2.Blocks {
			for _, ins := range b.Instrs {
				if st, isSt := ins.(*ssa.Store); isSt {
					if fa, isFa := st.Addr.(*ssa.FieldAddr); isFa && fieldName(fa.X.Type(), fa.Field) == "LockingScript" {
						for _, dc := range dominatingConds(b) {
							cond, truth := dc.cond, dc.truth
							for {
								if u, isU := cond.(*ssa.UnOp); isU && u.Op == token.NOT {
									cond, truth = u.X, !truth
									continue
								}
								break
							}
							if call, isC := cond.(*ssa.Call); isC && truth {
								env := newTermEnv()
								if sc := call.Call.StaticCallee(); sc != nil && sc.Name() == "IsP2PKH" && canonTerm(env.Term(call.Call.Args[0])) == canonTerm(env.Term(st.Val)) {
									okP2PKH = true
								}
							}
						}
					}
				}
			}
		}
		c.Check(okP2PKH, "S-fee", "AcceptBidToBuy1SatOrdinal2Dummies/same-size-script", f2.Pos(), "the seller's script replaces the P2PKH placeholder only if it is P2PKH itself (same size: the bidder's fee stays valid)", "the 2-dummies accept flow installs a seller script without the IsP2PKH test that keeps the transaction size")
	}
}

func instrIndex(ins ssa.Instruction) int {
	for i, x := range ins.Block().Instrs {
		if x == ins {
			return i
		}
	}
	return -1
}

// ---- inscriptions ----

func ruleWInsc(c *Ctx) {
	fn := c.P.Func("", "*Tx", "Inscribe")
	if fn == nil {
		c.Undecided("W-insc", "Tx.Inscribe", token.NoPos, "not found")
		return
	}
	// writer tokens on the path without enriched args
	paths, err := feasiblePaths(fn, 5000)
	if err != nil {
		c.Undecided("W-insc", "Tx.Inscribe", fn.Pos(), err.Error())
		return
	}
	var tokens []string
	found := false
	for _, d := range paths {
		if returnDesc(d) != "return nil" {
			continue
		}
		var tk []string
		enriched := false
		for _, ins := range pathInstrs(d) {
			call, ok := ins.(*ssa.Call)
			if !ok {
				continue
			}
			sc := call.Call.StaticCallee()
			if sc == nil {
				continue
			}
			switch sc.Name() {
			case "AppendOpcodes":
				for _, v := range appendedValues2(call) {
					if k, isK := v.(*ssa.Const); isK {
						x, _ := constant.Int64Val(constant.ToInt(k.Value))
						tk = append(tk, fmt.Sprintf("op:%02x", x))
					} else {
						tk = append(tk, "op:?")
					}
				}
			case "AppendPushDataString":
				tk = append(tk, "push:"+canonTerm(d.Env.Term(call.Call.Args[1])))
			case "AppendPushData":
				tk = append(tk, "push:"+canonTerm(d.Env.Term(call.Call.Args[1])))
			case "AppendPushDataArray":
				enriched = true
			}
		}
		if enriched {
			continue
		}
		if found && strings.Join(tk, " ") != strings.Join(tokens, " ") {
			c.Undecided("W-insc", "Tx.Inscribe", fn.Pos(), "several different token sequences without enriched args")
			return
		}
		tokens, found = tk, true
	}
	if !found {
		c.Undecided("W-insc", "Tx.Inscribe", fn.Pos(), "no success path without enriched args")
		return
	}
	// reader: positions tested by isP2PKHInscriptionHelper and read by ParseInscription
	helper := c.P.Func("bscript", "", "isP2PKHInscriptionHelper")
	parse := c.P.Func("bscript", "*Script", "ParseInscription")
	if helper == nil || parse == nil {
		c.Undecided("W-insc", "reader", token.NoPos, "isP2PKHInscriptionHelper / ParseInscription not found")
		return
	}
	reader := map[int64]string{}
	for _, b := range helper.Blocks {
		for _, ins := range b.Instrs {
			call, ok := ins.(*ssa.Call)
			if !ok {
				continue
			}
			sc := call.Call.StaticCallee()
			if sc == nil {
				continue
			}
			switch sc.Name() {
			case "partIsOpcode":
				i, ok1 := constInt(call.Call.Args[1])
				op, ok2 := constInt(call.Call.Args[2])
				if ok1 && ok2 {
					reader[i.Int64()] = fmt.Sprintf("op:%02x", op.Int64())
				} else {
					// the template as a table of (index, opcode) rows walked by a loop
					rows1, f1 := rowFieldOfTable(c.P, call.Call.Args[1])
					rows2, f2 := rowFieldOfTable(c.P, call.Call.Args[2])
					if rows1 != nil && rows2 != nil && len(rows1) == len(rows2) {
						for ri, row := range rows1 {
							iv, okI := row[f1]
							ov, okO := rows2[ri][f2]
							if okI && okO {
								reader[iv.Int64()] = fmt.Sprintf("op:%02x", ov.Int64())
							}
						}
					}
				}
			case "HasPrefix":
				// bytes.HasPrefix(parts[7], "ord")
				if ld, isLd := call.Call.Args[0].(*ssa.UnOp); isLd {
					if ia, isIa := ld.X.(*ssa.IndexAddr); isIa {
						if i, ok1 := constInt(ia.Index); ok1 {
							w := newWEval(c.P, helper)
							lay := w.eval(call.Call.Args[1])
							reader[i.Int64()] = "push:const:" + lay.S
						}
					}
				}
			}
		}
	}
	env := newTermEnv()
	for _, b := range parse.Blocks {
		for _, ins := range b.Instrs {
			if st, ok := ins.(*ssa.Store); ok {
				if fa, ok := st.Addr.(*ssa.FieldAddr); ok && namedOf(fa.X.Type()) == "InscriptionArgs" {
					f := fieldName(fa.X.Type(), fa.Field)
					t := canonTerm(env.Term(st.Val))
					var i int64
					if k := strings.LastIndex(t, "["); k >= 0 && f != "LockingScriptPrefix" {
						if _, err := fmt.Sscanf(t[k:], "[%d]", &i); err == nil {
							// the part itself (or its string conversion), nothing applied to it
							raw := fmt.Sprintf("bscript.DecodeParts(*p0)#0[%d]", i)
							if t == raw || t == "string("+raw+")" {
								reader[i] = "field:" + f
							} else {
								reader[i] = "field:" + f + " transformed by " + shorten(t, 60)
							}
						}
					}
				}
			}
		}
	}
	// compare: writer token j sits at part index 5+j (P2PKH prefix = 5 tokens: DUP HASH160 <hash> EQUALVERIFY CHECKSIG)
	const prefixTokens = 5
	var mism []string
	for j, tk := range tokens {
		r, ok := reader[int64(prefixTokens+j)]
		w := tk
		switch {
		case strings.HasPrefix(tk, "push:\"ord\""):
			w = "push:const:6f7264"
		case tk == "push:[]byte(p1.ContentType)" || tk == "push:p1.ContentType":
			w = "field:ContentType"
		case tk == "push:p1.Data":
			w = "field:Data"
		}
		if !ok || r != w {
			mism = append(mism, fmt.Sprintf("part %d: written %s, read %s", prefixTokens+j, w, r))
		}
	}
	for i := int64(0); i < prefixTokens; i++ {
		want := map[int64]string{0: "op:76", 1: "op:a9", 3: "op:88", 4: "op:ac"}[i]
		if want != "" && reader[i] != want {
			mism = append(mism, fmt.Sprintf("part %d: P2PKH template %s, read %s", i, want, reader[i]))
		}
	}
	sort.Strings(mism)
	c.Covered["W-insc:tokens"] = len(tokens)
	c.Check(len(mism) == 0 && len(tokens) == 8, "W-insc", "Inscribe-vs-ParseInscription", fn.Pos(), "the 8 tokens written after the prefix (FALSE IF 'ord' 1 <type> 0 <data> ENDIF) are the parts 5..12 the parser tests and returns: "+strings.Join(tokens, " "),
		"Inscribe and ParseInscription disagree on the envelope layout: "+strings.Join(mism, "; "))
	// the prefix returned is the first 25 bytes: the P2PKH template length
	okPrefix := false
	for _, b := range parse.Blocks {
		for _, ins := range b.Instrs {
			if call, ok := ins.(*ssa.Call); ok {
				if sc := call.Call.StaticCallee(); sc != nil && sc.Name() == "Slice" {
					a, ok1 := constInt(call.Call.Args[1])
					z, ok2 := constInt(call.Call.Args[2])
					okPrefix = ok1 && ok2 && a.Int64() == 0 && z.Int64() == 25
				}
			}
		}
	}
	c.Check(okPrefix, "W-insc", "ParseInscription/prefix", parse.Pos(), "the prefix returned is bytes 0..25, the P2PKH template", "ParseInscription no longer returns the 25-byte P2PKH prefix")
}

func ruleOInsc(c *Ctx) {
	e := oEngine(c)
	oCommon(c, e, "O-insc")
	rulePureParam(c, "O-insc", "", "*Tx", "Inscribe", 1, nil)
	rulePureParam(c, "O-insc", "", "*Tx", "InscribeSpecificOrdinal", 1, nil)
	fn := c.P.Func("", "*Tx", "Inscribe")
	if fn == nil {
		return
	}
	sum := e.Sums[fn]
	var bad []string
	for k, hs := range sum.ParamHeap {
		if strings.HasPrefix(k, "P0|.Outputs[*].LockingScript") {
			for _, h := range hs.sorted() {
				if strings.HasPrefix(h, "P1|") {
					bad = append(bad, k+" <- "+h)
				}
			}
		}
	}
	sort.Strings(bad)
	c.Check(len(bad) == 0, "O-insc", "Tx.Inscribe/script-is-fresh", fn.Pos(), "the inscription output's script does not share memory with the argument", "the inscription script installed in the transaction aliases the caller's argument: "+strings.Join(bad, "; "))
}

// ruleTRt: push round trip by length class: what PushDataPrefix emits for a datum of length L, DecodeParts
// must hand back as that datum.
func ruleTRt(c *Ctx) {
	enc := c.P.Func("bscript", "", "PushDataPrefix")
	dec := c.P.Func("bscript", "", "DecodeParts")
	if enc == nil || dec == nil {
		c.Undecided("T-rt", "push-round-trip", token.NoPos, "PushDataPrefix / DecodeParts not found")
		return
	}
	encRows, err1 := pushPrefixTable(enc)
	decRows, err2 := decodePartsTable(c, dec)
	if err1 != nil || err2 != nil {
		c.Undecided("T-rt", "push-round-trip", enc.Pos(), fmt.Sprint("tables not extractable: ", err1, err2))
		return
	}
	// for representative lengths: encoder's leading byte -> decoder's treatment
	for _, L := range []int64{0, 1, 75, 76, 255, 256, 65535, 65536} {
		lead, form := int64(-1), ""
		for _, r := range encRows {
			if r.Rep.Int64() == L {
				form = r.Leaf
			}
		}
		switch {
		case form == "op=len":
			lead = L
		case strings.HasPrefix(form, "op=0x4c"):
			lead = 0x4c
		case strings.HasPrefix(form, "op=0x4d"):
			lead = 0x4d
		case strings.HasPrefix(form, "op=0x4e"):
			lead = 0x4e
		}
		how := ""
		for _, r := range decRows {
			if r.Rep.Int64() == lead {
				how = r.Leaf
			}
		}
		ok := strings.HasPrefix(how, "len=")
		key := fmt.Sprintf("push-round-trip/len=%d", L)
		c.Check(ok, "T-rt", key, dec.Pos(), fmt.Sprintf("a %d-byte datum is written with leading byte %#x and read back as data (%s)", L, lead, how),
			fmt.Sprintf("a %d-byte datum is written as leading byte %#x (%s) but DecodeParts treats that byte as '%s': the part returned is the opcode byte itself, not the %d-byte datum", L, lead, form, how, L))
	}
}

func pushPrefixTable(fn *ssa.Function) ([]tableRow, error) {
	paths, err := enumPaths(fn.Blocks[0], nil, nil, 64)
	if err != nil {
		return nil, err
	}
	base, bt := pickBase(condBaseTerms(paths), "len(p0)")
	if bt == nil {
		return nil, fmt.Errorf("no decision on len(data)")
	}
	rows, err := scalarTable(paths, base, types.Typ[types.Int64], []*big.Int{big.NewInt(0), big.NewInt(1)}, func(d *DPath) string { return pushPrefixLeaf(d) })
	var rr []tableRow
	for _, r := range rows {
		if r.Rep.Sign() >= 0 {
			rr = append(rr, r)
		}
	}
	return rr, err
}

func decodePartsTable(c *Ctx, fn *ssa.Function) ([]tableRow, error) {
	var header *ssa.BasicBlock
	for _, b := range fn.Blocks {
		if isLoopHeader(b) {
			header = b
		}
	}
	if header == nil {
		return nil, fmt.Errorf("decode loop not found")
	}
	paths, err := enumPaths(header, nil, nil, 512)
	if err != nil {
		return nil, err
	}
	base, bt := pickBase(condBaseTerms(paths), "[0]")
	if bt == nil {
		return nil, fmt.Errorf("no decision on b[0]")
	}
	return scalarTable(paths, base, types.Typ[types.Uint8], nil, func(d *DPath) string { return decodePartsLeaf(d) })
}
