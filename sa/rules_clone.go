package main

// G-clone: Tx.Clone copies every field of Tx, Input and Output from the same field of the source
// object (digests are computed on clones: a field that is dropped or taken from another field changes
// what is signed and verified).

import (
	"fmt"
	"go/token"
	"go/types"
	"sort"
	"strings"

	"golang.org/x/tools/go/ssa"
)

func ruleGClone(c *Ctx) {
	fn := c.P.Func("", "*Tx", "Clone")
	if fn == nil {
		c.Undecided("G-clone", "Tx.Clone", token.NoPos, "not found")
		return
	}
	want := map[string]bool{"Tx": true, "Input": true, "Output": true}
	got := map[string]map[string]bool{} // "Type.field" -> dependency set
	// Clone itself and the unexported helpers it delegates element copies to
	fns := []*ssa.Function{fn}
	seenFn := map[*ssa.Function]bool{fn: true}
	for i := 0; i < len(fns) && i < 8; i++ {
		for _, b := range fns[i].Blocks {
			for _, ins := range b.Instrs {
				if call, ok := ins.(*ssa.Call); ok {
					if sc := call.Call.StaticCallee(); sc != nil && !seenFn[sc] && pkgPathOf(sc) == modPath && len(sc.Blocks) > 0 && sc.Signature.Recv() != nil && want[namedOf(sc.Signature.Recv().Type())] && sc.Name() != "Clone" {
						// only helpers that build a new object of a cloned type
						builds := false
						for _, b2 := range sc.Blocks {
							for _, i2 := range b2.Instrs {
								if al, isAl := i2.(*ssa.Alloc); isAl && al.Heap && want[namedOf(al.Type())] {
									builds = true
								}
							}
						}
						if builds {
							seenFn[sc] = true
							fns = append(fns, sc)
						}
					}
				}
			}
		}
	}
	var blocks []*ssa.BasicBlock
	for _, f := range fns {
		blocks = append(blocks, f.Blocks...)
	}
	for _, b := range blocks {
		for _, ins := range b.Instrs {
			st, ok := ins.(*ssa.Store)
			if !ok {
				continue
			}
			fa, ok := st.Addr.(*ssa.FieldAddr)
			if !ok {
				continue
			}
			al, ok := fa.X.(*ssa.Alloc)
			if !ok || !want[namedOf(al.Type())] {
				continue
			}
			key := namedOf(al.Type()) + "." + fieldName(fa.X.Type(), fa.Field)
			deps := map[string]bool{}
			fieldDeps(c, st.Val, want, deps, map[ssa.Value]bool{}, 0)
			if got[key] == nil {
				got[key] = map[string]bool{}
			}
			for d := range deps {
				got[key][d] = true
			}
		}
	}
	pk := c.P.Pkgs[modPath]
	n := 0
	for _, tn := range []string{"Tx", "Input", "Output"} {
		obj := pk.Types.Scope().Lookup(tn)
		if obj == nil {
			continue
		}
		st, ok := obj.Type().Underlying().(*types.Struct)
		if !ok {
			continue
		}
		for i := 0; i < st.NumFields(); i++ {
			f := st.Field(i).Name()
			key := tn + "." + f
			n++
			deps := got[key]
			var ds []string
			for d := range deps {
				ds = append(ds, d)
			}
			sort.Strings(ds)
			// container fields of Tx are rebuilt element by element: they depend on the new elements only
			if tn == "Tx" && (f == "Inputs" || f == "Outputs") {
				c.Check(deps != nil, "G-clone", key, fn.Pos(), "rebuilt element by element", "Tx.Clone no longer fills "+key)
				continue
			}
			ok := deps != nil && deps[key]
			for d := range deps {
				if d != key && strings.HasPrefix(d, tn+".") {
					ok = false
				}
			}
			c.Check(ok, "G-clone", key, fn.Pos(), "copied from the source object's "+key, fmt.Sprintf("Tx.Clone sets %s from %v (expected: from the source's %s only): the clone differs from the original in a field the digest may read", key, ds, key))
		}
	}
	c.MinInstances("G-clone", n, 12)
}
