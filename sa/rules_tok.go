package main

// T-tok (C13, C14, C16): DecodeParts, the library's script tokeniser, decided per loop iteration as a table.
// For the remaining bytes b with first byte op and n = len(b):
//
//   op = 0x01..0x4b   header 1, l = op          op = 0x4c  header 2, l = b[1]
//   op = 0x4d         header 3, l = LE16(b[1:]) op = 0x4e  header 5, l = LE32(b[1:])
//   a push with n < header or n - header < l is refused (ErrDataTooSmall); otherwise the part is
//   b[header : header+l] (an empty part for l = 0, also in the PUSHDATA forms) and the next iteration sees
//   b[header+l:]; any other byte is the one-byte part {op} and the next iteration sees b[1:].
//
// The paths of the loop body are enumerated; on each path the conditions, the bounds of the appended part and
// of the next remainder are folded for every cell of (op class, n, l) on a small grid - comparisons and slice
// arithmetic only, no go-bt code runs - and compared with the table above.

import (
	"fmt"
	"go/constant"
	"go/token"
	"sort"
	"strings"

	"golang.org/x/tools/go/ssa"
)

type tokEval struct {
	b    *ssa.Phi // the remaining bytes at the loop header
	d    *DPath
	n    int64 // len(b)
	op   int64 // b[0]
	l    int64 // the declared length (b[1] / LE16 / LE32), whichever the path reads
	note string
}

func (e *tokEval) resolve(v ssa.Value) ssa.Value {
	for i := 0; i < 10; i++ {
		ph, ok := v.(*ssa.Phi)
		if !ok || ph == e.b {
			return v
		}
		nv, ok := e.d.Env.Phi[ph]
		if !ok {
			return v
		}
		v = nv
	}
	return v
}

// span: v, a byte slice derived from b by re-slicing, as absolute offsets [lo, hi) into b.
func (e *tokEval) span(v ssa.Value, depth int) (lo, hi int64, ok bool) {
	v = e.resolve(v)
	if depth > 8 {
		return 0, 0, false
	}
	if v == ssa.Value(e.b) {
		return 0, e.n, true
	}
	sl, isSl := v.(*ssa.Slice)
	if !isSl {
		return 0, 0, false
	}
	blo, bhi, ok := e.span(sl.X, depth+1)
	if !ok {
		return 0, 0, false
	}
	lo, hi = blo, bhi
	if sl.Low != nil {
		x, ok := e.num(sl.Low, depth+1)
		if !ok {
			return 0, 0, false
		}
		lo = blo + x
	}
	if sl.High != nil {
		x, ok := e.num(sl.High, depth+1)
		if !ok {
			return 0, 0, false
		}
		hi = blo + x
	}
	if lo < blo || hi > bhi || lo > hi {
		e.note = fmt.Sprintf("slice bounds [%d:%d] outside [%d:%d]", lo, hi, blo, bhi)
		return lo, hi, false
	}
	return lo, hi, true
}

func (e *tokEval) num(v ssa.Value, depth int) (int64, bool) {
	v = e.resolve(v)
	if depth > 12 {
		return 0, false
	}
	switch x := v.(type) {
	case *ssa.Const:
		if x.Value == nil {
			return 0, false
		}
		switch x.Value.Kind() {
		case constant.Int:
			n, ok := constant.Int64Val(x.Value)
			return n, ok
		case constant.Bool:
			return b2i(constant.BoolVal(x.Value)), true
		}
	case *ssa.Convert:
		return e.num(x.X, depth+1)
	case *ssa.ChangeType:
		return e.num(x.X, depth+1)
	case *ssa.UnOp:
		switch x.Op {
		case token.NOT:
			a, ok := e.num(x.X, depth+1)
			return 1 - a, ok
		case token.MUL:
			// a byte of b: only the first (the opcode) and the second (PUSHDATA1's length) are read
			ia, ok := x.X.(*ssa.IndexAddr)
			if !ok {
				return 0, false
			}
			lo, hi, ok := e.span(ia.X, depth+1)
			idx, ok2 := e.num(ia.Index, depth+1)
			if !ok || !ok2 {
				return 0, false
			}
			if lo+idx >= hi {
				e.note = fmt.Sprintf("reads byte %d of %d remaining", lo+idx, e.n)
				return 0, false
			}
			switch lo + idx {
			case 0:
				return e.op, true
			case 1:
				return e.l & 0xff, true
			}
			return 0, false
		}
	case *ssa.Call:
		if bi, ok := x.Call.Value.(*ssa.Builtin); ok && bi.Name() == "len" {
			lo, hi, ok := e.span(x.Call.Args[0], depth+1)
			return hi - lo, ok
		}
		if sc := x.Call.StaticCallee(); sc != nil && strings.Contains(sc.String(), "encoding/binary.littleEndian") && len(x.Call.Args) == 2 {
			width := int64(0)
			switch sc.Name() {
			case "Uint16":
				width = 2
			case "Uint32":
				width = 4
			}
			lo, hi, ok := e.span(x.Call.Args[1], depth+1)
			if width == 0 || !ok || lo != 1 {
				return 0, false
			}
			if hi-lo < width {
				e.note = fmt.Sprintf("decodes a %d-byte length with %d bytes remaining", width, hi-lo)
				return 0, false
			}
			return e.l, true
		}
	case *ssa.BinOp:
		a, ok1 := e.num(x.X, depth+1)
		b, ok2 := e.num(x.Y, depth+1)
		if !ok1 || !ok2 {
			return 0, false
		}
		switch x.Op {
		case token.ADD:
			return a + b, true
		case token.SUB:
			return a - b, true
		case token.LSS:
			return b2i(a < b), true
		case token.LEQ:
			return b2i(a <= b), true
		case token.GTR:
			return b2i(a > b), true
		case token.GEQ:
			return b2i(a >= b), true
		case token.EQL:
			return b2i(a == b), true
		case token.NEQ:
			return b2i(a != b), true
		}
	}
	return 0, false
}

func ruleTTok(c *Ctx) {
	fn := c.P.Func("bscript", "", "DecodeParts")
	if fn == nil {
		c.Undecided("T-tok", "DecodeParts", token.NoPos, "not found")
		return
	}
	var header *ssa.BasicBlock
	for _, b := range fn.Blocks {
		if isLoopHeader(b) {
			header = b
			break
		}
	}
	if header == nil {
		c.Undecided("T-tok", "DecodeParts", fn.Pos(), "the tokeniser's loop was not found")
		return
	}
	// the remaining bytes: the header phi of type []byte whose entry edge is the parameter
	var rem *ssa.Phi
	for _, ins := range header.Instrs {
		ph, ok := ins.(*ssa.Phi)
		if !ok {
			break
		}
		for i, p := range header.Preds {
			if !header.Dominates(p) && ph.Edges[i] == ssa.Value(fn.Params[0]) {
				rem = ph
			}
		}
	}
	if rem == nil {
		c.Undecided("T-tok", "DecodeParts", fn.Pos(), "the loop does not carry the remaining bytes of its argument")
		return
	}
	paths, err := enumPaths(header, nil, nil, 5000)
	if err != nil {
		c.Undecided("T-tok", "DecodeParts", fn.Pos(), err.Error())
		return
	}
	type class struct {
		name   string
		op     int64
		header int64
		push   bool
	}
	classes := []class{{"OP_0", 0, 0, false}, {"direct push 1", 1, 1, true}, {"direct push 2", 2, 1, true}, {"direct push 3", 3, 1, true}, {"direct push 75", 75, 1, true},
		{"OP_PUSHDATA1", 76, 2, true}, {"OP_PUSHDATA2", 77, 3, true}, {"OP_PUSHDATA4", 78, 5, true}, {"OP_1NEGATE", 79, 0, false}, {"OP_1", 81, 0, false}, {"OP_RETURN", 106, 0, false}, {"0xff", 255, 0, false}}
	cells := 0
	bad := map[string]bool{}
	for _, cl := range classes {
		ls := []int64{0}
		if cl.push && cl.header > 1 {
			ls = []int64{0, 1, 2, 3}
		}
		if cl.push && cl.header == 1 {
			ls = []int64{cl.op}
		}
		for _, l := range ls {
			for n := int64(1); n <= cl.header+l+2 && n <= 82; n++ {
				if cl.op == 75 && n < 74 && n > 3 {
					continue
				}
				cells++
				want := ""
				switch {
				case !cl.push:
					want = "part {op}; next b[1:]"
				case n < cl.header || n-cl.header < l:
					want = "error"
				default:
					want = fmt.Sprintf("part b[%d:%d]; next b[%d:]", cl.header, cl.header+l, cl.header+l)
				}
				got := map[string]bool{}
				for _, d := range paths {
					if d.EndKind != "return" && d.EndKind != "loop" {
						continue
					}
					e := &tokEval{b: rem, d: d, n: n, op: cl.op, l: l}
					holds, unknown := true, ""
					for k, pc := range d.Conds {
						if pc.At == nil {
							continue
						}
						if k == 0 && pc.At.Block() == header {
							// the loop's own test: len(b) > 0 holds in every cell
							v, ok := e.num(pc.At.Cond, 0)
							if ok && (v != 0) != pc.Truth {
								holds = false
							}
							if !ok {
								unknown = "the loop test"
							}
							continue
						}
						v, ok := e.num(pc.At.Cond, 0)
						if !ok {
							if e.note != "" {
								unknown = e.note
							} else {
								unknown = "a condition the rule cannot fold: " + shorten(atomName(pc.Cond), 60)
							}
							break
						}
						if (v != 0) != pc.Truth {
							holds = false
							break
						}
					}
					if !holds {
						continue
					}
					if unknown != "" {
						got[unknown] = true
						continue
					}
					got[tokOutcome(e, d, header, rem)] = true
				}
				g := strings.Join(keysSorted(got), " | ")
				if g != want {
					bad[fmt.Sprintf("%s with %d bytes remaining and declared length %d: the tokeniser does [%s], the format says [%s]", cl.name, n, l, g, want)] = true
				}
			}
		}
	}
	var bl []string
	for k := range bad {
		bl = append(bl, k)
	}
	sort.Strings(bl)
	c.Covered["T-tok:cells"] = cells
	detail := ""
	if len(bl) > 0 {
		detail = bl[0]
		if len(bl) > 1 {
			detail += fmt.Sprintf(" (and %d more cells)", len(bl)-1)
		}
	}
	c.Check(len(bl) == 0, "T-tok", "DecodeParts", fn.Pos(), fmt.Sprintf("per iteration: header sizes 1/2/3/5, truncated pushes refused, part and remainder bounds exact on %d cells of (opcode class, bytes remaining, declared length)", cells),
		"DecodeParts: "+detail)
	c.MinInstances("T-tok", cells, 60)
}

// tokOutcome: what one loop-body path does, with its conditions holding in the cell of e.
func tokOutcome(e *tokEval, d *DPath, header *ssa.BasicBlock, rem *ssa.Phi) string {
	if d.EndKind == "return" {
		if d.Ret == nil || len(d.Ret.Results) != 2 {
			return "returns"
		}
		if returnKinds(d.Ret.Results[1]) == 2 {
			return "error"
		}
		if k, ok := d.Ret.Results[1].(*ssa.Const); ok && k.Value == nil {
			return "stops with success"
		}
		return "returns"
	}
	// the part appended on this path
	part := ""
	for _, ins := range pathInstrs(d) {
		call, ok := ins.(*ssa.Call)
		if !ok {
			continue
		}
		bi, ok := call.Call.Value.(*ssa.Builtin)
		if !ok || bi.Name() != "append" || len(call.Call.Args) != 2 {
			continue
		}
		// varargs slice holding one element
		sl, ok := call.Call.Args[1].(*ssa.Slice)
		if !ok {
			continue
		}
		al, ok := sl.X.(*ssa.Alloc)
		if !ok || al.Referrers() == nil {
			continue
		}
		for _, r := range *al.Referrers() {
			ia, ok := r.(*ssa.IndexAddr)
			if !ok || ia.Referrers() == nil {
				continue
			}
			for _, r2 := range *ia.Referrers() {
				st, ok := r2.(*ssa.Store)
				if !ok {
					continue
				}
				if part != "" {
					part += "+"
				}
				if lo, hi, ok := e.span(st.Val, 0); ok {
					part += fmt.Sprintf("b[%d:%d]", lo, hi)
				} else if isOneByteLiteralOfFirst(e, st.Val) {
					part += "{op}"
				} else if e.note != "" {
					part += e.note
				} else {
					part += "?"
				}
			}
		}
	}
	if part == "" {
		part = "nothing"
	}
	// the remainder handed to the next iteration: the header phi's edge from the path's last block
	next := "?"
	last := d.Blocks[len(d.Blocks)-1]
	for i, p := range header.Preds {
		if p == last {
			if lo, hi, ok := e.span(rem.Edges[i], 0); ok && hi == e.n {
				next = fmt.Sprintf("b[%d:]", lo)
			} else if e.note != "" {
				next = e.note
			}
		}
	}
	return "part " + part + "; next " + next
}

// isOneByteLiteralOfFirst: []byte{b[0]}
func isOneByteLiteralOfFirst(e *tokEval, v ssa.Value) bool {
	sl, ok := e.resolve(v).(*ssa.Slice)
	if !ok {
		return false
	}
	al, ok := sl.X.(*ssa.Alloc)
	if !ok || al.Referrers() == nil {
		return false
	}
	arr, isArr := derefType(al.Type()).Underlying().(interface{ Len() int64 })
	if !isArr || arr.Len() != 1 {
		return false
	}
	for _, r := range *al.Referrers() {
		ia, ok := r.(*ssa.IndexAddr)
		if !ok || ia.Referrers() == nil {
			continue
		}
		for _, r2 := range *ia.Referrers() {
			if st, ok := r2.(*ssa.Store); ok {
				if v, ok := e.num(st.Val, 0); ok && v == e.op {
					return true
				}
			}
		}
	}
	return false
}
