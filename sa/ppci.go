package main

// Engine P, part 3: enumeration of partial operations (PCIs) in the functions
// reachable from a set of entry points, and their discharge.

import (
	"fmt"
	"go/constant"
	"go/token"
	"go/types"
	"math/big"
	"sort"
	"strings"

	"golang.org/x/tools/go/ssa"
)

type pci struct {
	kind  string // index slice nil div shift makeslice typeassert abort ext mapwrite
	fn    *ssa.Function
	ins   ssa.Instruction
	desc  string
	goals []*lin // each must be >= 0
	gdesc []string
	nilOf ssa.Value
	why   string // for nil: why the value may be nil
	key   string
	// set when a length precondition on the function's slice parameters makes the site safe and
	// holds at some call sites only: the callers where it could not be shown
	openSites []ssa.CallInstruction
	pre       string
}

// descVN renders a number compactly for keys and messages.
func descVN(n *vn, depth int) string {
	if n == nil {
		return "?"
	}
	if depth > 6 {
		return "…"
	}
	switch n.op {
	case "const":
		if n.c == nil {
			return "nil"
		}
		return n.c.ExactString()
	case "param":
		return "p" + n.name
	case "global", "free", "func":
		return n.key
	case "fieldaddr":
		nm := n.name[strings.LastIndex(n.name, ".")+1:]
		return "&" + descVN(n.args[0], depth+1) + "." + nm
	case "field":
		return descVN(n.args[0], depth+1) + "." + n.name
	case "load":
		a := n.args[0]
		if a.op == "fieldaddr" {
			nm := a.name[strings.LastIndex(a.name, ".")+1:]
			return descVN(a.args[0], depth+1) + "." + nm
		}
		if a.op == "indexaddr" {
			return descVN(a.args[0], depth+1) + "[" + descVN(a.args[1], depth+1) + "]"
		}
		return "*" + descVN(a, depth+1)
	case "indexaddr":
		return "&" + descVN(n.args[0], depth+1) + "[" + descVN(n.args[1], depth+1) + "]"
	case "index":
		return descVN(n.args[0], depth+1) + "[" + descVN(n.args[1], depth+1) + "]"
	case "len", "cap":
		return n.op + "(" + descVN(n.args[0], depth+1) + ")"
	case "bin":
		return "(" + descVN(n.args[0], depth+1) + n.tok.String() + descVN(n.args[1], depth+1) + ")"
	case "un":
		return n.tok.String() + descVN(n.args[0], depth+1)
	case "conv":
		return n.name + "(" + descVN(n.args[0], depth+1) + ")"
	case "slice":
		return descVN(n.args[0], depth+1) + "[" + descVN(n.args[1], depth+1) + ":" + descVN(n.args[2], depth+1) + "]"
	case "extract":
		return descVN(n.args[0], depth+1) + "#" + n.name
	case "call":
		// a helper outside the baseline that hands on the result of one call is named by that call (the
		// working copy returned by a helper is the Clone it made)
		if call, ok := n.val.(*ssa.Call); ok && inlineHelper != nil {
			if sc := call.Call.StaticCallee(); sc != nil && inlineHelper(sc) && sc.Signature.Results().Len() == 1 {
				var inner *ssa.Call
				same := true
				for _, b := range sc.Blocks {
					if r, isRet := b.Instrs[len(b.Instrs)-1].(*ssa.Return); isRet && len(r.Results) == 1 {
						ic, isCall := r.Results[0].(*ssa.Call)
						if !isCall || (inner != nil && inner != ic) {
							same = false
						}
						inner = ic
					}
				}
				if same && inner != nil && inner.Call.StaticCallee() != nil {
					return calleeLabel(&inner.Call) + "()"
				}
			}
		}
		return n.name + "()"
	case "phi":
		return "phi"
	case "alloc":
		return "local"
	case "makeslice":
		return "make(" + descVN(n.args[0], depth+1) + ")"
	case "append":
		return "append(" + descVN(n.args[0], depth+1) + ",…)"
	case "mkiface":
		return descVN(n.args[0], depth+1)
	case "lookup":
		return descVN(n.args[0], depth+1) + "[key]"
	}
	return n.op
}

func descLin(l *lin) string {
	var ks []string
	for k := range l.coef {
		ks = append(ks, k)
	}
	sort.Strings(ks)
	var parts []string
	for _, k := range ks {
		c := l.coef[k]
		s := descVN(l.atoms[k], 0)
		switch {
		case c.Cmp(big.NewRat(1, 1)) == 0:
			parts = append(parts, "+"+s)
		case c.Cmp(big.NewRat(-1, 1)) == 0:
			parts = append(parts, "-"+s)
		default:
			parts = append(parts, fmt.Sprintf("%+s*%s", c.RatString(), s))
		}
	}
	if l.c.Sign() != 0 || len(parts) == 0 {
		parts = append(parts, fmt.Sprintf("%+s", l.c.RatString()))
	}
	return strings.TrimPrefix(strings.Join(parts, ""), "+")
}

// reachable: module functions reachable from the entries (static and dynamic edges).
// pureReader: a module function whose transitive write summary is empty, that allocates nothing and
// makes no dynamic call: its result is a function of its arguments and of memory.
func (pe *PEngine) pureReader(fn *ssa.Function) bool {
	if v, ok := pe.pureMemo[fn]; ok {
		return v
	}
	if pe.pureMemo == nil {
		pe.pureMemo = map[*ssa.Function]bool{}
	}
	pe.pureMemo[fn] = false
	sum, ok := pe.O.Sums[fn]
	if !ok || len(sum.Writes) > 0 || len(fn.Blocks) == 0 {
		return false
	}
	for _, b := range fn.Blocks {
		for _, ins := range b.Instrs {
			switch x := ins.(type) {
			case *ssa.Alloc:
				if x.Heap {
					return false
				}
			case *ssa.MakeSlice, *ssa.MakeMap, *ssa.MakeChan, *ssa.MakeClosure, *ssa.Go, *ssa.Defer, *ssa.Send, *ssa.Select, *ssa.MapUpdate:
				return false
			case *ssa.Call:
				if _, isB := x.Call.Value.(*ssa.Builtin); isB {
					if n := x.Call.Value.(*ssa.Builtin).Name(); n != "len" && n != "cap" {
						return false
					}
					continue
				}
				sc := x.Call.StaticCallee()
				if sc == nil || !inScope(pkgPathOf(sc)) || !pe.pureReader(sc) {
					return false
				}
			}
		}
	}
	pe.pureMemo[fn] = true
	return true
}

func (pe *PEngine) reachable(entries []*ssa.Function) []*ssa.Function {
	seen := map[*ssa.Function]bool{}
	var order []*ssa.Function
	var visit func(f *ssa.Function)
	visit = func(f *ssa.Function) {
		if f == nil || seen[f] || len(f.Blocks) == 0 {
			return
		}
		if !inScope(pkgPathOf(f)) {
			// compiler-made wrappers (bound-method closures such as tx.CalcInputPreimage taken as a value,
			// interface thunks) belong to no package: looked through, not analysed themselves
			if f.Synthetic == "" {
				return
			}
			seen[f] = true
			for _, b := range f.Blocks {
				for _, ins := range b.Instrs {
					if ci, ok := ins.(ssa.CallInstruction); ok {
						if sc := ci.Common().StaticCallee(); sc != nil {
							visit(sc)
						}
					}
				}
			}
			return
		}
		seen[f] = true
		order = append(order, f)
		for _, b := range f.Blocks {
			for _, ins := range b.Instrs {
				switch x := ins.(type) {
				case ssa.CallInstruction:
					for _, c := range pe.calleesOf(x) {
						visit(c)
					}
					if len(pe.calleesOf(x)) == 0 && x.Common().StaticCallee() == nil {
						for _, c := range pe.O.sigCandidates(x.Common().Signature()) {
							visit(c)
						}
					}
				case *ssa.MakeClosure:
					visit(x.Fn.(*ssa.Function))
				}
			}
		}
	}
	for _, e := range entries {
		visit(e)
	}
	return order
}

// callRange: union of the ranges of the single return value over all callees.
func (pe *PEngine) callRange(n *vn) (*big.Int, *big.Int, bool) {
	c, ok := n.val.(*ssa.Call)
	if !ok {
		return nil, nil, false
	}
	callees := pe.calleesOf(c)
	if len(callees) == 0 {
		return nil, nil, false
	}
	var lo, hi *big.Int
	if len(callees) == 1 {
		if r, ok := pe.callRangeMemo[callees[0]]; ok {
			if r[0] == nil {
				return nil, nil, false
			}
			return r[0], r[1], true
		}
		defer func() {
			if pe.callRangeMemo == nil {
				pe.callRangeMemo = map[*ssa.Function][2]*big.Int{}
			}
			if !pe.inCallRange[callees[0]] {
				pe.callRangeMemo[callees[0]] = [2]*big.Int{lo, hi}
			}
		}()
	}
	for _, callee := range callees {
		if len(callee.Blocks) == 0 || callee.Signature.Results().Len() != 1 {
			lo, hi = nil, nil
			return nil, nil, false
		}
		if pe.inCallRange[callee] {
			lo, hi = nil, nil
			return nil, nil, false
		}
		pe.inCallRange[callee] = true
		cpf := pe.pf(callee)
		for _, b := range callee.Blocks {
			ret, ok := b.Instrs[len(b.Instrs)-1].(*ssa.Return)
			if !ok {
				continue
			}
			rv := cpf.get(ret.Results[0])
			l, h, ok := valueRange(rv)
			// a clamp: the value returned is merged from constants and from values just compared with a
			// constant on the way in (if n > max { n = max }; return int(n))
			if cl, ch, isClamp := clampRange(ret.Results[0]); isClamp {
				if !ok {
					l, h, ok = cl, ch, true
				} else {
					if cl.Cmp(l) > 0 {
						l = cl
					}
					if ch.Cmp(h) < 0 {
						h = ch
					}
				}
			}
			if !ok {
				pe.inCallRange[callee] = false
				lo, hi = nil, nil
				return nil, nil, false
			}
			// what guards the return may bound the value further (return n only after n <= max): the
			// constants the function compares with are tried as bounds
			if isIntType(rv.typ) && rv.op != "const" {
				rl := cpf.linOf(rv)
				var cands []*big.Int
				for _, cb := range callee.Blocks {
					for _, ins := range cb.Instrs {
						if bo, ok := ins.(*ssa.BinOp); ok {
							for _, o := range []ssa.Value{bo.X, bo.Y} {
								if k, ok := constInt(o); ok && k.Sign() >= 0 && k.Cmp(h) < 0 {
									cands = append(cands, k)
								}
							}
						}
					}
				}
				sort.Slice(cands, func(i, j int) bool { return cands[i].Cmp(cands[j]) < 0 })
				for _, k := range cands {
					if cpf.proveAt(b, pgoal{l: linConst(k).sub(rl)}, nil, 1) {
						h = k
						break
					}
				}
				if l.Sign() < 0 && cpf.proveAt(b, pgoal{l: rl}, nil, 1) {
					l = big.NewInt(0)
				}
			}
			if lo == nil || l.Cmp(lo) < 0 {
				lo = l
			}
			if hi == nil || h.Cmp(hi) > 0 {
				hi = h
			}
		}
		pe.inCallRange[callee] = false
	}
	if lo == nil {
		return nil, nil, false
	}
	return lo, hi, true
}

// ---------------------------------------------------------------------
// nilability

type nilInfo struct {
	maybe bool
	why   string
}

func (pe *PEngine) mayBeNil(pf *pfunc, v ssa.Value, entry bool, depth int) nilInfo {
	if depth > 6 {
		return nilInfo{}
	}
	switch x := v.(type) {
	case *ssa.Const:
		if x.Value == nil && pointerLikeNilable(x.Type()) {
			return nilInfo{true, "nil constant"}
		}
		return nilInfo{}
	case *ssa.Alloc, *ssa.MakeSlice, *ssa.MakeMap, *ssa.MakeChan, *ssa.MakeClosure, *ssa.MakeInterface, *ssa.FieldAddr, *ssa.IndexAddr, *ssa.Global, *ssa.Function, *ssa.Slice, *ssa.Builtin:
		return nilInfo{}
	case *ssa.Parameter:
		return nilInfo{} // accounted for at call sites (derefs summaries) / assumed for entry points
	case *ssa.FreeVar:
		return nilInfo{}
	case *ssa.ChangeType:
		return pe.mayBeNil(pf, x.X, entry, depth+1)
	case *ssa.ChangeInterface:
		return pe.mayBeNil(pf, x.X, entry, depth+1)
	case *ssa.Phi:
		for _, e := range x.Edges {
			if e == v {
				continue
			}
			if ni := pe.mayBeNil(pf, e, entry, depth+1); ni.maybe {
				return nilInfo{true, "phi of " + ni.why}
			}
		}
		return nilInfo{}
	case *ssa.UnOp:
		if x.Op != token.MUL {
			return nilInfo{}
		}
		switch a := x.X.(type) {
		case *ssa.FieldAddr:
			if n := namedOfPtr(a.X.Type()); n != nil {
				k := n.Obj().Name() + "." + fieldName(a.X.Type(), a.Field)
				if pe.Nilable[k] {
					if pe.NonNilIn != nil && pe.NonNilIn(pf.fn, k) {
						return nilInfo{}
					}
					return nilInfo{true, "field " + k + " may be nil (nilable-sources table)"}
				}
			}
		case *ssa.IndexAddr:
			et := x.Type()
			if n := namedOfPtr(et); n != nil && pe.Nilable["[]*"+n.Obj().Name()] {
				return nilInfo{true, "element of []*" + n.Obj().Name() + " may be nil (JSON-decoded)"}
			}
		case *ssa.Alloc:
			// local pointer variable whose address is handed to encoding/json: "null" sets it to nil
			if jsonDecodedInto(a) {
				return nilInfo{true, "pointer variable decoded by encoding/json (a JSON null makes it nil)"}
			}
			// local variable holding a pointer: union of the stored values
			if refs := a.Referrers(); refs != nil {
				for _, r := range *refs {
					if st, ok := r.(*ssa.Store); ok && st.Addr == a {
						if ni := pe.mayBeNil(pf, st.Val, entry, depth+1); ni.maybe {
							return nilInfo{true, "local assigned " + ni.why}
						}
					}
				}
			}
		}
		return nilInfo{}
	case *ssa.Lookup:
		if pointerLikeNilable(x.Type()) && !x.CommaOk {
			return nilInfo{true, "map lookup yields nil for a missing key"}
		}
		return nilInfo{}
	case *ssa.TypeAssert:
		return nilInfo{}
	case *ssa.Extract:
		switch t := x.Tuple.(type) {
		case *ssa.Call:
			return pe.callResultNil(t, x.Index)
		case *ssa.TypeAssert:
			if x.Index == 0 && pointerLikeNilable(x.Type()) {
				return nilInfo{true, "failed comma-ok type assertion yields nil"}
			}
		case *ssa.Lookup:
			if x.Index == 0 && pointerLikeNilable(x.Type()) {
				return nilInfo{true, "map lookup yields nil for a missing key"}
			}
		}
		return nilInfo{}
	case *ssa.Call:
		return pe.callResultNil(x, 0)
	}
	return nilInfo{}
}

func (pe *PEngine) callResultNil(c *ssa.Call, k int) nilInfo {
	if _, ok := c.Call.Value.(*ssa.Builtin); ok {
		return nilInfo{}
	}
	res := c.Call.Signature().Results()
	if k >= res.Len() || !pointerLikeNilable(res.At(k).Type()) {
		return nilInfo{}
	}
	if isErrorType(res.At(k).Type()) {
		return nilInfo{} // error values are compared, not dereferenced
	}
	for _, callee := range pe.calleesOf(c) {
		if len(callee.Blocks) == 0 {
			continue // external: trusted to return non-nil values on success
		}
		if pe.resultMayBeNil(callee, k, 0) {
			return nilInfo{true, fmt.Sprintf("result %d of %s is nil on some path", k, funcName(callee))}
		}
	}
	return nilInfo{}
}

func (pe *PEngine) resultMayBeNil(fn *ssa.Function, k int, depth int) bool {
	if r, ok := pe.nonNilRes[fn]; ok && k < len(r) && r[k] != 0 {
		return r[k] == 2
	}
	n := fn.Signature.Results().Len()
	if pe.nonNilRes[fn] == nil {
		pe.nonNilRes[fn] = make([]int, n)
	}
	pe.nonNilRes[fn][k] = 1 // assume for recursion
	may := false
	pf := pe.pf(fn)
	for _, b := range fn.Blocks {
		ret, ok := b.Instrs[len(b.Instrs)-1].(*ssa.Return)
		if !ok || k >= len(ret.Results) {
			continue
		}
		if ni := pe.mayBeNil(pf, ret.Results[k], false, depth+1); ni.maybe {
			may = true
		}
	}
	if may {
		pe.nonNilRes[fn][k] = 2
	}
	return may
}

// jsonDecodedInto: is the address of the pointer-typed local passed to json.Unmarshal / Decoder.Decode?
func jsonDecodedInto(a *ssa.Alloc) bool {
	pt, ok := a.Type().Underlying().(*types.Pointer)
	if !ok || !pointerLikeNilable(pt.Elem()) {
		return false
	}
	refs := a.Referrers()
	if refs == nil {
		return false
	}
	for _, r := range *refs {
		mi, ok := r.(*ssa.MakeInterface)
		if !ok || mi.Referrers() == nil {
			continue
		}
		for _, rr := range *mi.Referrers() {
			if ci, ok := rr.(ssa.CallInstruction); ok {
				if sc := ci.Common().StaticCallee(); sc != nil && sc.Pkg != nil && sc.Pkg.Pkg.Path() == "encoding/json" {
					return true
				}
			}
		}
	}
	return false
}

// knownNonNil: do the facts at the point establish v != nil?
func (pf *pfunc) knownNonNil(v ssa.Value, fs *factSet) bool {
	key := pf.get(v).key
	for _, f := range fs.facts {
		if f.nonil == key {
			return true
		}
	}
	// phi whose edges are all either non-nil or guarded is not attempted
	return false
}

// derefsParam: does fn dereference parameter i on some path without first
// establishing that it is non-nil?
func (pe *PEngine) derefsParam(fn *ssa.Function, i int) bool {
	if d, ok := pe.derefs[fn]; ok {
		return i < len(d) && d[i]
	}
	d := make([]bool, len(fn.Params))
	pe.derefs[fn] = d
	if len(fn.Blocks) == 0 {
		return false
	}
	pf := pe.pf(fn)
	for idx, p := range fn.Params {
		if !pointerLikeNilable(p.Type()) {
			continue
		}
		refs := p.Referrers()
		if refs == nil {
			continue
		}
		for _, r := range *refs {
			if pe.isDerefOf(r, p) {
				fs := pf.factsAt(r.Block())
				if !pf.knownNonNil(p, fs) {
					d[idx] = true
				}
			}
			if ci, ok := r.(ssa.CallInstruction); ok {
				cm := ci.Common()
				for j, a := range cm.Args {
					if a != p {
						continue
					}
					for _, callee := range pe.calleesOf(ci) {
						if callee != fn && pe.derefsParam(callee, j) {
							fs := pf.factsAt(r.Block())
							if !pf.knownNonNil(p, fs) {
								d[idx] = true
							}
						}
					}
				}
			}
		}
	}
	return i < len(d) && d[i]
}

func (pe *PEngine) isDerefOf(r ssa.Instruction, p ssa.Value) bool {
	switch x := r.(type) {
	case *ssa.UnOp:
		return x.Op == token.MUL && x.X == p
	case *ssa.FieldAddr:
		return x.X == p
	case *ssa.IndexAddr:
		_, isPtr := x.X.Type().Underlying().(*types.Pointer)
		return x.X == p && isPtr
	case *ssa.Store:
		return x.Addr == p
	case *ssa.Slice:
		_, isPtr := x.X.Type().Underlying().(*types.Pointer)
		return x.X == p && isPtr
	case ssa.CallInstruction:
		cm := x.Common()
		if cm.IsInvoke() && cm.Value == p {
			return true
		}
		if !cm.IsInvoke() && cm.Value == p {
			return true // call of a nil func value
		}
	}
	return false
}

// ---------------------------------------------------------------------
// external preconditions

type extPre struct {
	argLen  int // argument index whose length must be >= minLen
	minLen  int64
	nonZero int  // argument index (pointer to big.Int) that must be non-zero; -1 none
	abort   bool // never returns normally (process exit / panic)
}

var extPreconds = map[string]extPre{
	"(encoding/binary.littleEndian).Uint16":    {argLen: 1, minLen: 2, nonZero: -1},
	"(encoding/binary.littleEndian).Uint32":    {argLen: 1, minLen: 4, nonZero: -1},
	"(encoding/binary.littleEndian).Uint64":    {argLen: 1, minLen: 8, nonZero: -1},
	"(encoding/binary.bigEndian).Uint16":       {argLen: 1, minLen: 2, nonZero: -1},
	"(encoding/binary.bigEndian).Uint32":       {argLen: 1, minLen: 4, nonZero: -1},
	"(encoding/binary.bigEndian).Uint64":       {argLen: 1, minLen: 8, nonZero: -1},
	"(encoding/binary.littleEndian).PutUint16": {argLen: 1, minLen: 2, nonZero: -1},
	"(encoding/binary.littleEndian).PutUint32": {argLen: 1, minLen: 4, nonZero: -1},
	"(encoding/binary.littleEndian).PutUint64": {argLen: 1, minLen: 8, nonZero: -1},
	"(encoding/binary.bigEndian).PutUint32":    {argLen: 1, minLen: 4, nonZero: -1},
	"(*math/big.Int).Quo":                      {argLen: -1, nonZero: 2},
	"(*math/big.Int).Rem":                      {argLen: -1, nonZero: 2},
	"(*math/big.Int).Div":                      {argLen: -1, nonZero: 2},
	"(*math/big.Int).Mod":                      {argLen: -1, nonZero: 2},
	"log.Fatal":                                {argLen: -1, nonZero: -1, abort: true},
	"log.Fatalf":                               {argLen: -1, nonZero: -1, abort: true},
	"log.Fatalln":                              {argLen: -1, nonZero: -1, abort: true},
	"log.Panic":                                {argLen: -1, nonZero: -1, abort: true},
	"log.Panicf":                               {argLen: -1, nonZero: -1, abort: true},
	"os.Exit":                                  {argLen: -1, nonZero: -1, abort: true},
	"regexp.MustCompile":                       {argLen: -1, nonZero: -1},
}

// onlyEncodedLowBits: the converted value's only use is as the value argument of
// encoding/binary's PutUintN with N the width of the conversion's target type.
func onlyEncodedLowBits(cv *ssa.Convert) bool {
	if cv.Referrers() == nil {
		return false
	}
	b, ok := cv.Type().Underlying().(*types.Basic)
	if !ok || b.Info()&types.IsUnsigned == 0 {
		return false
	}
	n := 0
	for _, r := range *cv.Referrers() {
		switch x := r.(type) {
		case *ssa.DebugRef:
		case *ssa.Call:
			sc := x.Call.StaticCallee()
			if sc == nil || !strings.Contains(sc.String(), "encoding/binary") || sc.Name() != fmt.Sprintf("PutUint%d", intWidth(b)) || len(x.Call.Args) != 3 || x.Call.Args[2] != ssa.Value(cv) {
				return false
			}
			n++
		default:
			return false
		}
	}
	return n > 0
}

// ---------------------------------------------------------------------
// enumeration

func (pe *PEngine) enumerate(fn *ssa.Function, isEntry bool) []*pci {
	pf := pe.pf(fn)
	var out []*pci
	ord := map[string]int{}
	add := func(p *pci) {
		base := p.kind + "/" + funcName(fn) + "/" + p.desc
		ord[base]++
		p.key = base
		if ord[base] > 1 {
			p.key = fmt.Sprintf("%s#%d", base, ord[base])
		}
		p.fn = fn
		out = append(out, p)
	}
	zero := linConst(big.NewInt(0))
	_ = zero
	nilCheck := func(ins ssa.Instruction, v ssa.Value, what string) {
		if !pointerLikeNilable(v.Type()) {
			return
		}
		if ni := pe.mayBeNil(pf, v, isEntry, 0); ni.maybe {
			add(&pci{kind: "nil", ins: ins, desc: what + " " + descVN(pf.get(v), 0), nilOf: v, why: ni.why})
		}
	}
	for _, b := range fn.Blocks {
		for _, ins := range b.Instrs {
			switch x := ins.(type) {
			case *ssa.IndexAddr:
				base := pf.get(x.X)
				var ln *lin
				switch u := x.X.Type().Underlying().(type) {
				case *types.Pointer:
					nilCheck(ins, x.X, "index through")
					if a, ok := u.Elem().Underlying().(*types.Array); ok {
						ln = linConst(big.NewInt(a.Len()))
					}
				default:
					ln = pf.linOf(pf.mkLen(base))
				}
				if ln == nil {
					continue
				}
				idx := pf.linOf(pf.get(x.Index))
				if idx.isConst() && ln.isConst() && idx.c.Sign() >= 0 && idx.c.Cmp(ln.c) < 0 {
					continue // constant index into fixed array
				}
				add(&pci{kind: "index", ins: ins, desc: descVN(base, 0) + "[" + descLin(idx) + "]",
					goals: []*lin{idx, ln.sub(idx).addConst(-1)}, gdesc: []string{"index >= 0", "index < len"}})
			case *ssa.Index:
				base := pf.get(x.X)
				var ln *lin
				if a, ok := x.X.Type().Underlying().(*types.Array); ok {
					ln = linConst(big.NewInt(a.Len()))
				} else {
					ln = pf.linOf(pf.mkLen(base))
				}
				idx := pf.linOf(pf.get(x.Index))
				if idx.isConst() && ln.isConst() && idx.c.Sign() >= 0 && idx.c.Cmp(ln.c) < 0 {
					continue
				}
				add(&pci{kind: "index", ins: ins, desc: descVN(base, 0) + "[" + descLin(idx) + "]",
					goals: []*lin{idx, ln.sub(idx).addConst(-1)}, gdesc: []string{"index >= 0", "index < len"}})
			case *ssa.Slice:
				base := pf.get(x.X)
				var limit *lin
				isStr := false
				switch u := x.X.Type().Underlying().(type) {
				case *types.Pointer:
					nilCheck(ins, x.X, "slice of")
					if a, ok := u.Elem().Underlying().(*types.Array); ok {
						limit = linConst(big.NewInt(a.Len()))
					}
				case *types.Basic:
					isStr = true
					limit = pf.linOf(pf.mkLen(base))
				default:
					// slices may be re-sliced up to cap; we require <= len, except for the
					// result of make/append-with-capacity idioms handled through len facts
					limit = pf.linOf(pf.mkLen(base))
				}
				_ = isStr
				if limit == nil {
					continue
				}
				lo := linConst(big.NewInt(0))
				if x.Low != nil {
					lo = pf.linOf(pf.get(x.Low))
				}
				hi := limit
				if x.High != nil {
					hi = pf.linOf(pf.get(x.High))
				}
				var goals []*lin
				var gd []string
				if x.Low != nil {
					goals = append(goals, lo)
					gd = append(gd, "low >= 0")
				}
				goals = append(goals, hi.sub(lo))
				gd = append(gd, "low <= high")
				if x.High != nil {
					goals = append(goals, limit.sub(hi))
					gd = append(gd, "high <= len")
				}
				trivial := true
				for _, g := range goals {
					if !(g.isConst() && g.c.Sign() >= 0) {
						trivial = false
					}
				}
				if trivial {
					continue
				}
				add(&pci{kind: "slice", ins: ins, desc: descVN(base, 0) + "[" + descLin(lo) + ":" + descLin(hi) + "]", goals: goals, gdesc: gd})
			case *ssa.UnOp:
				if x.Op == token.MUL {
					nilCheck(ins, x.X, "load through")
				}
			case *ssa.FieldAddr:
				nilCheck(ins, x.X, "field of")
			case *ssa.Store:
				nilCheck(ins, x.Addr, "store through")
			case *ssa.MapUpdate:
				nilCheck(ins, x.Map, "write to map")
			case *ssa.BinOp:
				switch x.Op {
				case token.QUO, token.REM:
					if isIntType(x.Type()) {
						d := pf.linOf(pf.get(x.Y))
						if d.isConst() && d.c.Sign() != 0 {
							continue
						}
						add(&pci{kind: "div", ins: ins, desc: descVN(pf.get(x.Y), 0), goals: []*lin{d.addConst(-1)}, gdesc: []string{"divisor >= 1"}})
					}
				case token.SHL, token.SHR:
					if bt, ok := x.Y.Type().Underlying().(*types.Basic); ok && bt.Info()&types.IsUnsigned == 0 {
						d := pf.linOf(pf.get(x.Y))
						if d.isConst() && d.c.Sign() >= 0 {
							continue
						}
						add(&pci{kind: "shift", ins: ins, desc: descVN(pf.get(x.Y), 0), goals: []*lin{d}, gdesc: []string{"shift count >= 0"}})
					}
				}
			case *ssa.Convert:
				if !pe.EnumConv || !isIntType(x.Type()) || !isIntType(x.X.Type()) {
					continue
				}
				slo, shi, ok1 := intTypeRange(x.X.Type())
				tlo, thi, ok2 := intTypeRange(x.Type())
				if !ok1 || !ok2 || (slo.Cmp(tlo) >= 0 && shi.Cmp(thi) <= 0) {
					continue // widening
				}
				src := pf.get(x.X)
				if convPreserves(src, x.Type()) {
					continue // syntactic range (masking, lengths, byte loads) already fits
				}
				if onlyEncodedLowBits(x) {
					continue // binary.PutUintN(buf, uintN(v)): writes the low N bits, the library spelling of byte(v), byte(v>>8)...
				}
				l := pf.linOf(src)
				add(&pci{kind: "conv", ins: ins, desc: typeKey(x.X.Type()) + "->" + typeKey(x.Type()) + " " + descVN(src, 0),
					goals: []*lin{l.sub(linConst(tlo)), linConst(thi).sub(l)}, gdesc: []string{"value >= target minimum", "value <= target maximum"}})
			case *ssa.TypeAssert:
				if !x.CommaOk {
					add(&pci{kind: "typeassert", ins: ins, desc: typeKey(x.AssertedType)})
				}
			case *ssa.MakeSlice:
				l := pf.linOf(pf.get(x.Len))
				cp := pf.linOf(pf.get(x.Cap))
				var goals []*lin
				var gd []string
				for _, q := range []*lin{l, cp} {
					if q.isConst() {
						continue
					}
					// only negativity is a panic decided here; oversized allocations from decoded
					// quantities are rule ALLOC (C09); script-controlled sizes are informational (C07)
					goals = append(goals, q)
					gd = append(gd, "size >= 0")
				}
				if x.Len != x.Cap {
					goals = append(goals, cp.sub(l))
					gd = append(gd, "len <= cap")
				}
				// ALLOC: the size must be bounded by memory that already exists (len/cap terms)
				// or by a constant; checked only where the rule asks for it (decoders)
				{
					var ag []*lin
					var agd []string
					bound := linConst(big.NewInt(1 << 24))
					for _, q := range []*lin{l, cp} {
						for k, co := range q.coef {
							a := q.atoms[k]
							if co.Sign() <= 0 || a.op == "len" || a.op == "cap" {
								continue
							}
							ag = append(ag, bound.sub(linAtom(a)))
							agd = append(agd, "size term "+descVN(a, 0)+" <= 2^24 (or a length of existing memory)")
						}
					}
					if len(ag) > 0 {
						add(&pci{kind: "alloc", ins: ins, desc: typeKey(x.Type()) + "," + descLin(l), goals: ag, gdesc: agd})
					}
				}
				if len(goals) == 0 {
					continue
				}
				add(&pci{kind: "makeslice", ins: ins, desc: typeKey(x.Type()) + "," + descLin(l) + "," + descLin(cp), goals: goals, gdesc: gd})
			case *ssa.Panic:
				add(&pci{kind: "abort", ins: ins, desc: "panic"})
			case *ssa.SliceToArrayPointer:
				add(&pci{kind: "slice2array", ins: ins, desc: typeKey(x.Type())})
			case ssa.CallInstruction:
				cm := x.Common()
				if _, ok := cm.Value.(*ssa.Builtin); ok {
					continue
				}
				if cm.IsInvoke() {
					nilCheck(ins, cm.Value, "method call on interface")
				} else if cm.StaticCallee() == nil {
					nilCheck(ins, cm.Value, "call of function value")
				}
				callees := pe.calleesOf(x)
				// arguments passed to callees that dereference them unguarded
				for j, a := range cm.Args {
					if !pointerLikeNilable(a.Type()) {
						continue
					}
					for _, callee := range callees {
						jj := j
						if cm.IsInvoke() {
							jj = j + 1
						}
						if len(callee.Blocks) > 0 && pe.derefsParam(callee, jj) {
							if ni := pe.mayBeNil(pf, a, isEntry, 0); ni.maybe {
								add(&pci{kind: "nil", ins: ins, desc: "argument " + descVN(pf.get(a), 0) + " of " + funcName(callee), nilOf: a, why: ni.why + "; callee dereferences it unguarded"})
							}
							break
						}
					}
				}
				for _, callee := range callees {
					if inScope(pkgPathOf(callee)) {
						continue
					}
					pre, ok := extPreconds[callee.String()]
					if !ok {
						continue
					}
					if pre.abort {
						add(&pci{kind: "abort", ins: ins, desc: callee.String()})
					}
					if pre.argLen >= 0 && pre.argLen < len(cm.Args) {
						ln := pf.linOf(pf.mkLen(pf.get(cm.Args[pre.argLen])))
						g := ln.addConst(-pre.minLen)
						if g.isConst() && g.c.Sign() >= 0 {
							continue
						}
						add(&pci{kind: "ext", ins: ins, desc: callee.Name() + "(" + descVN(pf.get(cm.Args[pre.argLen]), 0) + ")", goals: []*lin{g}, gdesc: []string{fmt.Sprintf("len(arg) >= %d", pre.minLen)}})
					}
					if pre.nonZero >= 0 {
						add(&pci{kind: "ext-nonzero", ins: ins, desc: callee.Name()})
					}
				}
			}
		}
	}
	return out
}

// discharge tries to prove the PCI; returns ok, the facts used (for evidence) and failure text.
func (pe *PEngine) discharge(p *pci) (bool, []string, string) {
	pf := pe.pf(p.fn)
	fs := pf.factsAt(p.ins.Block())
	switch p.kind {
	case "nil":
		if pf.proveAt(p.ins.Block(), pgoal{nonnil: pf.get(p.nilOf).key}, nil, 0) {
			return true, []string{"guards on every path establish " + descVN(pf.get(p.nilOf), 0) + " != nil"}, ""
		}
		if ok, why := pe.liftNilToCallers(p); ok {
			return true, []string{why}, ""
		}
		return false, fs.strings(), "value may be nil: " + p.why
	case "abort":
		if pe.blockInfeasible(pf, fs) {
			return true, []string{"block is unreachable under its own guards"}, ""
		}
		return false, fs.strings(), "process abort / panic is reachable"
	case "ext-nonzero":
		if ok, why := pe.divisorGuardedAtCallers(p); ok {
			return true, []string{why}, ""
		}
		return false, fs.strings(), "big.Int division: the divisor is not shown to be non-zero (no dominating IsZero() test at every call site)"
	case "typeassert":
		if ta, ok := p.ins.(*ssa.TypeAssert); ok {
			if call, ok := ta.X.(*ssa.Call); ok {
				if sc := call.Call.StaticCallee(); sc != nil && len(sc.Blocks) > 0 {
					all, n := true, 0
					for _, b := range sc.Blocks {
						if ret, ok := b.Instrs[len(b.Instrs)-1].(*ssa.Return); ok && len(ret.Results) == 1 {
							n++
							mi, ok := ret.Results[0].(*ssa.MakeInterface)
							if !ok || !types.Identical(mi.X.Type(), ta.AssertedType) {
								all = false
							}
						}
					}
					if all && n > 0 {
						return true, []string{"every return of " + funcName(sc) + " wraps a value of the asserted type"}, ""
					}
				}
			}
		}
		return false, fs.strings(), "type assertion without comma-ok on a value whose dynamic type is not fixed by its producer"
	case "slice2array":
		return false, fs.strings(), "no static argument available for this kind"
	}
	var failed []string
	var failedGoals []*lin
	for i, g := range p.goals {
		if g.isConst() && g.c.Sign() >= 0 {
			continue
		}
		if !pf.proveAt(p.ins.Block(), pgoal{l: g}, nil, 0) {
			failed = append(failed, p.gdesc[i]+"  i.e. "+descLin(g)+" >= 0")
			failedGoals = append(failedGoals, g)
		}
	}
	if len(failed) == 0 {
		return true, nil, ""
	}
	// what the function's own guards leave open must hold at every call site
	if ok, why := pe.liftToCallers(p, failedGoals); ok {
		return true, []string{why}, ""
	}
	if ok, why := pe.liftWithPrecondition(p, failedGoals); ok {
		return true, []string{why}, ""
	}
	return false, fs.strings(), "cannot prove: " + strings.Join(failed, "; ")
}

func (pe *PEngine) blockInfeasible(pf *pfunc, fs *factSet) bool {
	var rows []*lin
	for _, f := range fs.facts {
		if f.l != nil {
			rows = append(rows, f.l)
		}
	}
	if len(rows) == 0 {
		return false
	}
	return fmInfeasible(rows)
}

var _ = constant.MakeInt64

// divisorGuardedAtCallers: the PCI is a big.Int Quo/Rem inside a scriptNumber method whose
// divisor is the val field of a parameter; every call site of that method in the module
// must be dominated by a failed IsZero() test on the same argument.
func (pe *PEngine) divisorGuardedAtCallers(p *pci) (bool, string) {
	ci, ok := p.ins.(ssa.CallInstruction)
	if !ok {
		return false, ""
	}
	cm := ci.Common()
	if len(cm.Args) < 3 {
		return false, ""
	}
	ld, ok := cm.Args[2].(*ssa.UnOp)
	if !ok {
		return false, ""
	}
	fa, ok := ld.X.(*ssa.FieldAddr)
	if !ok {
		return false, ""
	}
	par, ok := fa.X.(*ssa.Parameter)
	if !ok {
		return false, ""
	}
	pidx := -1
	for i, q := range p.fn.Params {
		if q == par {
			pidx = i
		}
	}
	node := pe.P.CG().Nodes[p.fn]
	if node == nil || pidx < 0 {
		return false, ""
	}
	n := 0
	for _, e := range node.In {
		caller := e.Caller.Func
		if !inScope(pkgPathOf(caller)) || e.Site == nil {
			continue
		}
		n++
		cpf := pe.pf(caller)
		args := e.Site.Common().Args
		if pidx >= len(args) {
			return false, ""
		}
		want := cpf.get(args[pidx]).key
		fs := cpf.factsAt(e.Site.Block())
		found := false
		for _, f := range fs.facts {
			if strings.HasPrefix(f.why, "IsZero-false:") && strings.TrimPrefix(f.why, "IsZero-false:") == want {
				found = true
			}
		}
		if !found {
			return false, ""
		}
	}
	if n == 0 {
		return false, ""
	}
	return true, fmt.Sprintf("all %d call sites are dominated by a failed IsZero() test on the divisor argument", n)
}

// liftToCallers: when every goal of the PCI mentions only parameters of its function (and
// constants), the obligation is a precondition; it is discharged if the function is not
// exported API surface and every call site in the module satisfies it.
func (pe *PEngine) liftToCallers(p *pci, goals []*lin) (bool, string) {
	// every atom must be a function of the parameters and of memory as it is on entry
	var transl func(a *vn, depth int) bool
	transl = func(a *vn, depth int) bool {
		if a == nil || depth > 8 {
			return false
		}
		switch a.op {
		case "param", "const":
			return true
		case "len", "cap", "conv", "fieldaddr", "bin", "un":
		case "load":
			if !strings.HasSuffix(a.key, "@entry") {
				return false
			}
		default:
			return false
		}
		for _, x := range a.args {
			if !transl(x, depth+1) {
				return false
			}
		}
		return true
	}
	// lengths of a Clone's lists are the lengths of the original's (rule S-clonelen): stated on the original,
	// the goal is a condition on the parameters
	{
		pf := pe.pf(p.fn)
		var ng []*lin
		for _, g := range goals {
			out := newLin()
			out.c.Set(g.c)
			for k, co := range g.coef {
				a := g.atoms[k]
				if a.op == "len" && len(a.args) == 1 && a.args[0].op == "load" && len(a.args[0].args) == 1 && a.args[0].args[0].op == "fieldaddr" {
					ld, fa := a.args[0], a.args[0].args[0]
					base := fa.args[0]
					if base.op == "call" && strings.HasPrefix(base.name, "(*bt.Tx).Clone") && len(base.args) == 1 {
						field := fa.name[strings.LastIndex(fa.name, ".")+1:]
						if cloneLenVerified[pe.P][field] && pf.posDominates(ld.at, base.at) {
							src := pf.mk("fieldaddr", fa.typ, fa.name, token.ILLEGAL, base.args[0])
							out = out.addScaled(pf.linOf(pf.mkLen(pf.loadAt(src, nil, ld.typ, base.at))), co)
							continue
						}
					}
				}
				out = out.addScaled(linAtom(a), co)
			}
			ng = append(ng, out)
		}
		goals = ng
	}
	for _, g := range goals {
		for _, a := range g.atoms {
			if !transl(a, 0) {
				return false, ""
			}
		}
	}
	if p.fn.Object() != nil && p.fn.Object().Exported() {
		// exported functions can be called with anything; only unexported helpers are lifted
		if !liftExported[funcName(p.fn)] {
			return false, ""
		}
	}
	node := pe.P.CG().Nodes[p.fn]
	if node == nil {
		return false, ""
	}
	n := 0
	for _, e := range node.In {
		caller := e.Caller.Func
		if !inScope(pkgPathOf(caller)) || e.Site == nil {
			continue
		}
		n++
		cpf := pe.pf(caller)
		args := e.Site.Common().Args
		at, ok := cpf.posOf[e.Site.(ssa.Instruction)]
		if !ok {
			return false, ""
		}
		// a call whose arguments contradict a condition guarding the site inside the callee never reaches it
		// (OutputsHash(-1) does not index the outputs)
		trLin := func(g *lin) *lin {
			cg := newLin()
			cg.c.Set(g.c)
			for k, co := range g.coef {
				if !transl(g.atoms[k], 0) {
					return nil
				}
				tv := translateVN(cpf, g.atoms[k], args, at)
				if tv == nil {
					return nil
				}
				cg = cg.addScaled(cpf.linOf(tv), co)
			}
			return cg
		}
		excluded := false
		for _, f := range pe.pf(p.fn).factsAt(p.ins.Block()).facts {
			switch {
			case f.l != nil:
				if cl := trLin(f.l); cl != nil && cpf.proveAt(e.Site.Block(), pgoal{l: cl.neg().addConst(-1)}, nil, 0) {
					excluded = true
				}
			case f.neq != nil:
				if cl := trLin(f.neq); cl != nil && cpf.proveAt(e.Site.Block(), pgoal{l: cl}, nil, 0) && cpf.proveAt(e.Site.Block(), pgoal{l: cl.neg()}, nil, 0) {
					excluded = true
				}
			}
		}
		if excluded {
			continue
		}
		// what guards the site inside the callee, as far as it speaks about the parameters, may be assumed at
		// the call: the site is only reached from calls for which it holds
		var hyp []fact
		for _, f := range pe.pf(p.fn).factsAt(p.ins.Block()).facts {
			switch {
			case f.l != nil:
				if cl := trLin(f.l); cl != nil {
					hyp = append(hyp, fact{l: cl, why: "guard of the site inside " + funcName(p.fn)})
				}
			case f.neq != nil:
				if cl := trLin(f.neq); cl != nil {
					hyp = append(hyp, fact{neq: cl, why: "guard of the site inside " + funcName(p.fn)})
				}
			}
		}
		for _, g := range goals {
			cg := trLin(g)
			if cg == nil {
				return false, ""
			}
			if !cpf.proveAt(e.Site.Block(), pgoal{l: cg}, nil, 0) && (len(hyp) == 0 || !cpf.proveAt(e.Site.Block(), pgoal{l: cg}, hyp, 0)) {
				return false, ""
			}
		}
	}
	if n == 0 {
		return false, ""
	}
	return true, fmt.Sprintf("precondition on parameters holds at all %d call sites in the module", n)
}

// liftWithPrecondition: an unexported function indexes one slice parameter with a position taken
// from another (dst[i] for i ranging over src). The site is safe under a length precondition
// len(pa) >= len(pb); the candidate that makes every open goal provable inside the function is
// then required at the call sites. Callers where it cannot be shown are recorded on the site (the
// reviewed arguments of trusted_sites.json may cover the construct in their terms).
func (pe *PEngine) liftWithPrecondition(p *pci, goals []*lin) (bool, string) {
	if p.fn.Object() != nil && p.fn.Object().Exported() {
		return false, ""
	}
	pf := pe.pf(p.fn)
	var slices []int
	for i, prm := range p.fn.Params {
		if _, ok := prm.Type().Underlying().(*types.Slice); ok {
			slices = append(slices, i)
		}
	}
	// ... or with a count taken from an integer parameter (b[k] for k below n): len(pa) >= pb
	var ints []int
	for i, prm := range p.fn.Params {
		if isIntType(prm.Type()) {
			ints = append(ints, i)
		}
	}
	node := pe.P.CG().Nodes[p.fn]
	if node == nil || len(slices) == 0 || len(slices)+len(ints) < 2 {
		return false, ""
	}
	isInt := map[int]bool{}
	for _, i := range ints {
		isInt[i] = true
	}
	for _, a := range slices {
		for _, b := range append(append([]int{}, slices...), ints...) {
			if a == b {
				continue
			}
			la := pf.linOf(pf.mkLen(pf.get(p.fn.Params[a])))
			lb := pf.linOf(pf.mkLen(pf.get(p.fn.Params[b])))
			if isInt[b] {
				lb = pf.linOf(pf.get(p.fn.Params[b]))
			}
			pre := la.sub(lb)
			okAll := true
			for _, g := range goals {
				if !pf.proveAt(p.ins.Block(), pgoal{l: g}, []fact{{l: pre, why: "precondition"}}, 0) {
					okAll = false
					break
				}
			}
			if !okAll {
				continue
			}
			// the precondition at the call sites
			n := 0
			var open []ssa.CallInstruction
			for _, e := range node.In {
				caller := e.Caller.Func
				if !inScope(pkgPathOf(caller)) || e.Site == nil {
					continue
				}
				n++
				cpf := pe.pf(caller)
				args := e.Site.Common().Args
				cb := cpf.linOf(cpf.mkLen(cpf.get(args[b])))
				if isInt[b] {
					cb = cpf.linOf(cpf.get(args[b]))
				}
				cg := cpf.linOf(cpf.mkLen(cpf.get(args[a]))).sub(cb)
				if !cpf.proveAt(e.Site.Block(), pgoal{l: cg}, nil, 0) {
					open = append(open, e.Site)
				}
			}
			if n == 0 {
				return false, ""
			}
			desc := fmt.Sprintf("len(%s) >= len(%s)", p.fn.Params[a].Name(), p.fn.Params[b].Name())
			if isInt[b] {
				desc = fmt.Sprintf("len(%s) >= %s", p.fn.Params[a].Name(), p.fn.Params[b].Name())
			}
			if len(open) == 0 {
				return true, fmt.Sprintf("safe under the precondition %s, which holds at all %d call sites in the module", desc, n)
			}
			p.openSites, p.pre = open, desc
			return false, ""
		}
	}
	return false, ""
}

// liftNilToCallers: an unexported function dereferences a value that is a function of its
// parameters and of memory as it is on entry; it is non-nil if it is non-nil at every call site.
func (pe *PEngine) liftNilToCallers(p *pci) (bool, string) {
	if p.fn.Object() != nil && p.fn.Object().Exported() {
		return false, ""
	}
	pf := pe.pf(p.fn)
	a := pf.get(p.nilOf)
	var transl func(a *vn, depth int) bool
	transl = func(a *vn, depth int) bool {
		if a == nil || depth > 8 {
			return false
		}
		switch a.op {
		case "param", "const":
			return true
		case "conv", "fieldaddr":
		case "load":
			if !strings.HasSuffix(a.key, "@entry") {
				return false
			}
		default:
			return false
		}
		for _, x := range a.args {
			if !transl(x, depth+1) {
				return false
			}
		}
		return true
	}
	if !transl(a, 0) {
		return false, ""
	}
	node := pe.P.CG().Nodes[p.fn]
	if node == nil {
		return false, ""
	}
	n := 0
	for _, e := range node.In {
		caller := e.Caller.Func
		if !inScope(pkgPathOf(caller)) || e.Site == nil {
			continue
		}
		n++
		cpf := pe.pf(caller)
		at, ok := cpf.posOf[e.Site.(ssa.Instruction)]
		if !ok {
			return false, ""
		}
		tv := translateVN(cpf, a, e.Site.Common().Args, at)
		if tv == nil || !cpf.proveAt(e.Site.Block(), pgoal{nonnil: tv.key}, nil, 0) {
			return false, ""
		}
	}
	if n == 0 {
		return false, ""
	}
	return true, fmt.Sprintf("the value is non-nil at all %d call sites in the module", n)
}

// exported helpers whose preconditions are nevertheless lifted to their module callers,
// with the reason (they are documented as taking a fixed argument).
var liftExported = map[string]bool{
	"bt.LittleEndianBytes":    true, // documented as a 4-byte (uint32) encoder; every library caller passes 4
	"(*bscript.Script).Slice": true, // a slicing helper with the contract of s[start:end]; arguments are the caller's responsibility
	"(*bt.Tx).OutputsHash":    true, // documented: n is -1 (all outputs) or the index of the requested output; the library's own callers check the index
}

// translateVN rebuilds a callee number (a function of parameters and entry-state memory)
// in the caller at the call position.
func translateVN(cpf *pfunc, a *vn, args []ssa.Value, at ppos) *vn {
	switch a.op {
	case "const":
		return cpf.constVN(a.c, a.typ)
	case "param":
		var i int
		fmt.Sscanf(a.name, "%d", &i)
		if i >= len(args) {
			return nil
		}
		return cpf.get(args[i])
	}
	var targs []*vn
	for _, x := range a.args {
		t := translateVN(cpf, x, args, at)
		if t == nil {
			return nil
		}
		targs = append(targs, t)
	}
	switch a.op {
	case "len":
		return cpf.lenOf(targs[0], targs[0].typ)
	case "cap", "conv", "fieldaddr", "bin", "un":
		return cpf.mk(a.op, a.typ, a.name, a.tok, targs...)
	case "load":
		return cpf.loadAt(targs[0], nil, a.typ, at)
	}
	return nil
}

// clampRange: v is (a conversion of) a phi of unsigned values each of whose incoming edges carries either a
// constant or a value that the edge's branch has just bounded above by a constant (the false side of
// x > K / x >= K, the true side of x <= K / x < K). The range is [0, max bound]; the conversion to a wider or
// equal signed type keeps it because the bound is small.
func clampRange(v ssa.Value) (lo, hi *big.Int, ok bool) {
	for {
		cv, isCv := v.(*ssa.Convert)
		if !isCv {
			break
		}
		v = cv.X
	}
	ph, isPh := v.(*ssa.Phi)
	if !isPh {
		return nil, nil, false
	}
	b, isB := ph.Type().Underlying().(*types.Basic)
	if !isB || b.Info()&types.IsUnsigned == 0 {
		return nil, nil, false
	}
	hi = big.NewInt(0)
	for i, e := range ph.Edges {
		if k, isK := constInt(e); isK {
			if k.Sign() < 0 {
				return nil, nil, false
			}
			if k.Cmp(hi) > 0 {
				hi = k
			}
			continue
		}
		pred := ph.Block().Preds[i]
		iff, isIf := pred.Instrs[len(pred.Instrs)-1].(*ssa.If)
		if !isIf {
			return nil, nil, false
		}
		bo, isBo := iff.Cond.(*ssa.BinOp)
		if !isBo || bo.X != e {
			return nil, nil, false
		}
		k, isK := constInt(bo.Y)
		if !isK {
			return nil, nil, false
		}
		onTrue := pred.Succs[0] == ph.Block()
		onFalse := pred.Succs[1] == ph.Block()
		var bound *big.Int
		switch {
		case bo.Op == token.GTR && onFalse && !onTrue, bo.Op == token.LEQ && onTrue && !onFalse:
			bound = k
		case bo.Op == token.GEQ && onFalse && !onTrue, bo.Op == token.LSS && onTrue && !onFalse:
			bound = new(big.Int).Sub(k, big.NewInt(1))
		default:
			return nil, nil, false
		}
		if bound.Cmp(hi) > 0 {
			hi = bound
		}
	}
	if hi.BitLen() > 31 {
		return nil, nil, false
	}
	return big.NewInt(0), hi, true
}
