package main

// Engine P, part 2: facts on paths (dominating guards, induction, callee
// postconditions) and a Fourier–Motzkin refutation prover for linear goals.

import (
	"fmt"
	"go/constant"
	"go/token"
	"go/types"
	"math/big"
	"os"
	"sort"
	"strings"

	"golang.org/x/tools/go/ssa"
)

type PEngine struct {
	P             *Prog
	O             *OEngine
	funcs         map[*ssa.Function]*pfunc
	post          map[*ssa.Function]*postCond
	nonNilRes     map[*ssa.Function][]int // 0 unknown 1 never nil 2 maybe nil, per result
	derefs        map[*ssa.Function][]bool
	Nilable       map[string]bool // "Type.field" pointer fields that may be nil
	inCallRange   map[*ssa.Function]bool
	callRangeMemo map[*ssa.Function][2]*big.Int
	fieldInvs     map[string]*fieldInv
	clauses       map[*ssa.Function][]clause
	globNN        map[*ssa.Global]int
	NonNegFields  map[string]map[string]bool                // class -> excluded functions; fields assumed >= 0 once proven
	NonNilIn      func(fn *ssa.Function, class string) bool // gating facts: field class is non-nil inside fn
	EnumConv      bool
	pureMemo      map[*ssa.Function]bool
	nnConds       map[*ssa.Function][]condAt
}

func NewPEngine(p *Prog, o *OEngine) *PEngine {
	pe := &PEngine{P: p, O: o, funcs: map[*ssa.Function]*pfunc{}, post: map[*ssa.Function]*postCond{}, nonNilRes: map[*ssa.Function][]int{}, derefs: map[*ssa.Function][]bool{}, inCallRange: map[*ssa.Function]bool{}, fieldInvs: map[string]*fieldInv{}, clauses: map[*ssa.Function][]clause{}, NonNegFields: map[string]map[string]bool{}}
	callRangeHook = pe.callRange
	thePEngine = pe
	return pe
}

func (pe *PEngine) calleesOf(ci ssa.CallInstruction) []*ssa.Function {
	if sc := ci.Common().StaticCallee(); sc != nil {
		return []*ssa.Function{sc}
	}
	return pe.O.callees[ci]
}

func (pe *PEngine) pf(fn *ssa.Function) *pfunc {
	if f, ok := pe.funcs[fn]; ok {
		return f
	}
	f := &pfunc{P: pe, fn: fn, vns: map[ssa.Value]*vn{}, byKey: map[string]*vn{}, loads: map[string][]*loadEvent{}, posOf: map[ssa.Instruction]ppos{}}
	pe.funcs[fn] = f
	if len(fn.Blocks) > 0 {
		f.build()
	}
	return f
}

// A fact is lin >= 0 over integers, or a (dis)equality to nil / between numbers.
type fact struct {
	l     *lin   // l >= 0
	neq   *lin   // neq != 0 (disequality, used for strengthening)
	nonil string // vn key known non-nil
	isnil string
	why   string
}

type factSet struct {
	facts []fact
	seen  map[string]bool
}

func (fs *factSet) add(f fact) {
	k := f.why
	switch {
	case f.l != nil:
		k = "L:" + f.l.String()
	case f.neq != nil:
		k = "N:" + f.neq.String()
	case f.nonil != "":
		k = "NN:" + f.nonil
	case f.isnil != "":
		k = "IN:" + f.isnil
	}
	if fs.seen == nil {
		fs.seen = map[string]bool{}
	}
	if fs.seen[k] {
		return
	}
	fs.seen[k] = true
	fs.facts = append(fs.facts, f)
}

func (fs *factSet) strings() []string {
	var out []string
	for _, f := range fs.facts {
		switch {
		case f.l != nil:
			out = append(out, f.l.String()+" >= 0   ["+f.why+"]")
		case f.neq != nil:
			out = append(out, f.neq.String()+" != 0   ["+f.why+"]")
		case f.nonil != "":
			out = append(out, f.nonil+" != nil   ["+f.why+"]")
		case f.isnil != "":
			out = append(out, f.isnil+" == nil   ["+f.why+"]")
		}
	}
	return out
}

// condFacts translates boolean number n (taken as `truth`) into facts.
func (pf *pfunc) condFacts(n *vn, truth bool, why string, fs *factSet, depth int) {
	if depth > 8 || n == nil {
		return
	}
	switch n.op {
	case "un":
		if n.tok == token.NOT {
			pf.condFacts(n.args[0], !truth, why, fs, depth+1)
		}
		return
	case "const":
		return
	case "bin":
		x, y := n.args[0], n.args[1]
		switch n.tok {
		case token.LAND:
			if truth {
				pf.condFacts(x, true, why, fs, depth+1)
				pf.condFacts(y, true, why, fs, depth+1)
			}
			return
		case token.LOR:
			if !truth {
				pf.condFacts(x, false, why, fs, depth+1)
				pf.condFacts(y, false, why, fs, depth+1)
			}
			return
		}
		tok := n.tok
		if !truth {
			tok = map[token.Token]token.Token{token.EQL: token.NEQ, token.NEQ: token.EQL, token.LSS: token.GEQ, token.GEQ: token.LSS, token.GTR: token.LEQ, token.LEQ: token.GTR}[tok]
		}
		// nil comparisons
		if isNilConst(y) || isNilConst(x) {
			o := x
			if isNilConst(x) {
				o = y
			}
			if tok == token.NEQ {
				fs.add(fact{nonil: o.key, why: why})
			} else if tok == token.EQL {
				fs.add(fact{isnil: o.key, why: why})
			}
			return
		}
		// boolean (in)equality with constants: (b == true) etc.
		if isBoolType(x.typ) {
			if y.op == "const" && y.c != nil && y.c.Kind() == constant.Bool {
				want := constant.BoolVal(y.c)
				if tok == token.NEQ {
					want = !want
				} else if tok != token.EQL {
					return
				}
				pf.condFacts(x, want, why, fs, depth+1)
			}
			return
		}
		if !isIntType(x.typ) || !isIntType(y.typ) {
			return
		}
		// uint(i) < uint(n) with n known non-negative: one comparison for 0 <= i < n (a negative i becomes
		// a huge unsigned value)
		{
			a, b, t2 := x, y, tok
			if t2 == token.GTR {
				a, b, t2 = y, x, token.LSS
			}
			if t2 == token.LSS {
				if sa, ok1 := signedUnderUnsignedConv(a); ok1 {
					sb, ok2 := signedUnderUnsignedConv(b)
					if !ok2 && b.op == "const" {
						sb, ok2 = b, true
					}
					if ok2 {
						if lo, _, ok := valueRange(sb); ok && lo.Sign() >= 0 {
							la, lb := pf.linOf(sa), pf.linOf(sb)
							fs.add(fact{l: la, why: why + " (unsigned comparison: the index is not negative)"})
							fs.add(fact{l: lb.sub(la).addConst(-1), why: why + " (unsigned comparison)"})
							return
						}
					}
				}
			}
		}
		lx, ly := pf.linOf(x), pf.linOf(y)
		switch tok {
		case token.LSS: // x < y  => y - x - 1 >= 0
			fs.add(fact{l: ly.sub(lx).addConst(-1), why: why})
		case token.LEQ:
			fs.add(fact{l: ly.sub(lx), why: why})
		case token.GTR:
			fs.add(fact{l: lx.sub(ly).addConst(-1), why: why})
		case token.GEQ:
			fs.add(fact{l: lx.sub(ly), why: why})
		case token.EQL:
			fs.add(fact{l: lx.sub(ly), why: why})
			fs.add(fact{l: ly.sub(lx), why: why})
		case token.NEQ:
			fs.add(fact{neq: lx.sub(ly), why: why})
		}
	case "call", "extract":
		if n.op == "extract" && n.args[0].op == "typeassert" && n.name == "1" {
			if truth {
				k := pf.mk("extract", nil, "0", token.ILLEGAL, n.args[0]).key
				fs.add(fact{nonil: k, why: why + " (comma-ok assertion succeeded)"})
			}
			return
		}
		// IsZero() == false on a scriptNumber: recorded as a marker fact for the divisor rule
		if n.op == "call" && strings.HasSuffix(n.name, "scriptNumber).IsZero") && !truth && len(n.args) == 1 {
			fs.add(fact{nonil: "iszero-false:" + n.args[0].key, why: "IsZero-false:" + n.args[0].key})
		}
		// boolean helper with a postcondition
		pf.callBoolFacts(n, truth, why, fs, depth)
	case "phi":
		// x := a && b compiles to a phi of constants and computed edges: if only one edge can
		// produce the observed truth value, control came through it
		ph, ok := n.val.(*ssa.Phi)
		if !ok || !isBoolType(ph.Type()) {
			return
		}
		cand := -1
		var cands []int
		for i, e := range ph.Edges {
			if c, ok := e.(*ssa.Const); ok && c.Value != nil && c.Value.Kind() == constant.Bool {
				if constant.BoolVal(c.Value) != truth {
					continue
				}
			}
			cands = append(cands, i)
		}
		if len(cands) > 1 && len(cands) <= 4 && depth < 4 && !pf.inPhiCond[ph] {
			// several edges could have produced the value: those whose way in contradicts what is known
			// here were not taken (a flag carried round a loop is its own guard: not entered twice)
			if pf.inPhiCond == nil {
				pf.inPhiCond = map[*ssa.Phi]bool{}
			}
			pf.inPhiCond[ph] = true
			var live []int
			for _, i := range cands {
				tmp := &factSet{}
				for _, f := range fs.facts {
					tmp.add(f)
				}
				p := ph.Block().Preds[i]
				pf.blockFacts(p, tmp)
				pf.edgeFacts(p, ph.Block(), tmp)
				if _, isConst := ph.Edges[i].(*ssa.Const); !isConst {
					pf.condFacts(pf.get(ph.Edges[i]), truth, why, tmp, depth+2)
				}
				if !pf.inconsistent(tmp) {
					live = append(live, i)
				}
			}
			cands = live
			// the guard covers the trial above only: the one edge that remains is followed below
			delete(pf.inPhiCond, ph)
		}
		if len(cands) != 1 {
			return
		}
		cand = cands[0]
		if pf.inPhiCond[ph] {
			return
		}
		if pf.inPhiCond == nil {
			pf.inPhiCond = map[*ssa.Phi]bool{}
		}
		pf.inPhiCond[ph] = true
		defer delete(pf.inPhiCond, ph)
		pred := ph.Block().Preds[cand]
		pf.blockFacts(pred, fs)
		pf.edgeFacts(pred, ph.Block(), fs)
		if _, isConst := ph.Edges[cand].(*ssa.Const); !isConst {
			pf.condFacts(pf.get(ph.Edges[cand]), truth, why+" (through &&/|| edge)", fs, depth+1)
		}
	}
}

// edgeFacts: the branch condition taken on the edge from -> to.
func (pf *pfunc) edgeFacts(from, to *ssa.BasicBlock, fs *factSet) {
	iff, ok := from.Instrs[len(from.Instrs)-1].(*ssa.If)
	if !ok || from.Succs[0] == from.Succs[1] {
		return
	}
	truth := from.Succs[0] == to
	pf.condFacts(pf.get(iff.Cond), truth, fmt.Sprintf("branch at %s", pf.P.P.Pos(iff.Cond.Pos())), fs, 0)
}

// goal: either l >= 0 or "value with this key is non-nil".
type pgoal struct {
	l      *lin
	nonnil string
}

func (pf *pfunc) inconsistent(fs *factSet) bool {
	nils := map[string]bool{}
	for _, f := range fs.facts {
		if f.isnil != "" {
			nils[f.isnil] = true
			// a package-level error value that is set once, to a non-nil error, is not nil
			if n := pf.byKey[f.isnil]; n != nil && n.op == "load" && len(n.args) == 1 && n.args[0].op == "global" {
				if g, ok := n.args[0].val.(*ssa.Global); ok && pf.P.globalNonNil(g) {
					return true
				}
			}
		}
	}
	var rows []*lin
	for _, f := range fs.facts {
		if f.nonil != "" && nils[f.nonil] {
			return true
		}
		if f.l != nil {
			rows = append(rows, f.l)
		}
	}
	if len(rows) == 0 || len(rows) > 50 {
		return false
	}
	if fmInfeasible(rows) {
		return true
	}
	// e != 0 against e >= 0 and e <= 0
	for _, f := range fs.facts {
		if f.neq != nil && fmInfeasible(append([]*lin{f.neq.addConst(-1)}, rows...)) && fmInfeasible(append([]*lin{f.neq.neg().addConst(-1)}, rows...)) {
			return true
		}
	}
	return false
}

func (pf *pfunc) holds(g pgoal, fs *factSet) bool {
	if g.nonnil != "" {
		for _, f := range fs.facts {
			if f.nonil == g.nonnil {
				return true
			}
		}
		return false
	}
	return pf.prove(g.l, fs)
}

// nearestMerge: the closest block on b's dominator chain (b included) that has several
// predecessors and is not a loop header.
func nearestMerge(b *ssa.BasicBlock) *ssa.BasicBlock {
	for x := b; x != nil; x = x.Idom() {
		if len(x.Preds) < 2 {
			continue
		}
		loop := false
		for _, p := range x.Preds {
			if x.Dominates(p) {
				loop = true
			}
		}
		if !loop {
			return x
		}
	}
	return nil
}

// proveAt proves the goal at entry of block b. When the facts that dominate b do not
// suffice, it splits on the predecessors of the nearest dominating merge block (each path
// into the merge must establish the goal, substituting that block's phis by the incoming
// values), up to a small depth. Infeasible alternatives are dropped.
func (pf *pfunc) proveAt(b *ssa.BasicBlock, g pgoal, extra []fact, depth int) bool {
	fs := &factSet{}
	for _, f := range extra {
		fs.add(f)
	}
	pf.blockFacts(b, fs)
	pf.expandCallFacts(fs)
	trace := os.Getenv("VERIF_TRACE") != "" && strings.Contains(funcName(pf.fn), os.Getenv("VERIF_TRACE"))
	if trace {
		gs := g.nonnil
		if g.l != nil {
			gs = descLin(g.l) + " >= 0"
		}
		fmt.Fprintf(os.Stderr, "%sproveAt b%d goal=%s\n", strings.Repeat("  ", depth), b.Index, gs)
		for _, f := range fs.strings() {
			fmt.Fprintf(os.Stderr, "%s   . %s\n", strings.Repeat("  ", depth), f)
		}
	}
	if pf.holds(g, fs) {
		return true
	}
	if pf.inconsistent(fs) {
		if trace {
			fmt.Fprintf(os.Stderr, "%s   inconsistent\n", strings.Repeat("  ", depth))
		}
		return true
	}
	if depth >= 3 {
		return false
	}
	// facts that hold at b stay valid in every alternative
	carried := append([]fact{}, fs.facts...)
	for _, m := range pf.candidateMerges(b, g) {
		if trace {
			fmt.Fprintf(os.Stderr, "%s   split at b%d\n", strings.Repeat("  ", depth), m.Index)
		}
		all := true
		for i, p := range m.Preds {
			gi := g
			if g.l != nil {
				gi = pgoal{l: pf.substPhis(g.l, m, i)}
			} else {
				gi = pgoal{nonnil: pf.substKeyPhi(g.nonnil, m, i)}
				if gi.nonnil == "" {
					continue // the incoming value on this edge is non-nil by construction
				}
			}
			alt := &factSet{}
			for _, f := range carried {
				alt.add(pf.substFactPhis(f, m, i))
			}
			pf.edgeFacts(p, m, alt)
			if !pf.proveAt(p, gi, alt.facts, depth+1) {
				all = false
				break
			}
		}
		if all {
			return true
		}
	}
	if g.l != nil && pf.goalInduction(b, g.l, carried, depth, trace) {
		return true
	}
	if g.l != nil && pf.inGoalInd == 0 && pf.goalPlusCounter(b, g.l, carried, depth, trace) {
		return true
	}
	return false
}

// goalPlusCounter: the goal is not inductive by itself but becomes so with another counter of the same
// loop added or subtracted ("len(buf) + remaining == n"): for a loop header whose phis the goal mentions
// and each other integer phi c of that header, prove goal±c as a loop invariant, then the goal at b from
// it and the facts there (the exit test bounds c).
func (pf *pfunc) goalPlusCounter(b *ssa.BasicBlock, g *lin, carried []fact, depth int, trace bool) bool {
	heads := map[*ssa.BasicBlock]bool{}
	mentioned := map[*ssa.Phi]bool{}
	for _, a := range g.atoms {
		x := a
		if a.op == "len" && len(a.args) == 1 {
			x = a.args[0]
		}
		if ph, ok := x.val.(*ssa.Phi); ok && x.op == "phi" {
			heads[ph.Block()] = true
			mentioned[ph] = true
		}
	}
	var hs []*ssa.BasicBlock
	for h := range heads {
		if h == b || h.Dominates(b) {
			hs = append(hs, h)
		}
	}
	sort.Slice(hs, func(i, j int) bool { return hs[i].Index < hs[j].Index })
	for _, h := range hs {
		for _, ins := range h.Instrs {
			ph, ok := ins.(*ssa.Phi)
			if !ok {
				break
			}
			if mentioned[ph] || !isIntType(ph.Type()) {
				continue
			}
			cn := pf.get(ph)
			if cn.op != "phi" {
				continue
			}
			for _, s := range []int64{1, -1} {
				g2 := g.clone().addScaled(linAtom(cn), big.NewRat(s, 1))
				if trace {
					fmt.Fprintf(os.Stderr, "%s   trying the invariant %s >= 0\n", strings.Repeat("  ", depth), descLin(g2))
				}
				if !pf.goalInduction(b, g2, carried, depth, trace) {
					continue
				}
				fs := &factSet{}
				for _, f := range carried {
					fs.add(f)
				}
				fs.add(fact{l: g2, why: "loop invariant " + descLin(g2) + " >= 0 (proved by induction)"})
				if pf.prove(g, fs) {
					return true
				}
			}
		}
	}
	return false
}

// goalInduction: the goal itself as a loop invariant. For a loop header h that dominates b and whose
// phis the goal mentions, with every other atom of the goal fixed before the loop is entered: the goal
// with the phis replaced by their initial values holds on every entry edge, and, assuming the goal at
// the header, the goal with the phis replaced by their next values holds at the end of every latch.
func (pf *pfunc) goalInduction(b *ssa.BasicBlock, g *lin, carried []fact, depth int, trace bool) bool {
	if pf.inGoalInd > 1 {
		return false
	}
	heads := map[*ssa.BasicBlock]bool{}
	for _, a := range g.atoms {
		if ph, ok := a.val.(*ssa.Phi); ok && a.op == "phi" {
			heads[ph.Block()] = true
		}
		if a.op == "len" && len(a.args) == 1 && a.args[0].op == "phi" {
			if ph, ok := a.args[0].val.(*ssa.Phi); ok {
				heads[ph.Block()] = true
			}
		}
	}
	for h := range heads {
		if !(h == b || h.Dominates(b)) {
			continue
		}
		var latches []*ssa.BasicBlock
		for _, p := range h.Preds {
			if h.Dominates(p) {
				latches = append(latches, p)
			}
		}
		if len(latches) == 0 || len(latches) == len(h.Preds) {
			continue
		}
		in := loopBlocks(h, latches)
		invariant := true
		for _, a := range g.atoms {
			if ph, ok := a.val.(*ssa.Phi); ok && a.op == "phi" && ph.Block() == h {
				continue
			}
			if a.op == "len" && len(a.args) == 1 && a.args[0].op == "phi" {
				if ph, ok := a.args[0].val.(*ssa.Phi); ok && ph.Block() == h {
					continue // the length of a slice carried round the loop: replaced edge by edge like the phi itself
				}
			}
			if !pf.fixedOutside(a, in, 0) {
				invariant = false
			}
		}
		if !invariant {
			continue
		}
		if trace {
			fmt.Fprintf(os.Stderr, "%s   induction on the loop at b%d with the goal as invariant\n", strings.Repeat("  ", depth), h.Index)
		}
		pf.inGoalInd++
		ok := true
		for i, p := range h.Preds {
			gi := pf.substPhis(g, h, i)
			var extra []fact
			if h.Dominates(p) {
				extra = []fact{{l: g, why: "induction hypothesis (the goal at the loop header)"}}
			}
			if !pf.proveAt(p, pgoal{l: gi}, extra, depth+1) {
				ok = false
				break
			}
		}
		pf.inGoalInd--
		if ok {
			return true
		}
	}
	return false
}

// fixedOutside: the value number denotes one value for the whole run of the loop: constants, parameters,
// values defined outside the loop, and lengths/sums of such.
func (pf *pfunc) fixedOutside(n *vn, loop map[*ssa.BasicBlock]bool, depth int) bool {
	if n == nil || depth > 6 {
		return false
	}
	switch n.op {
	case "const", "param", "free":
		return true
	case "load":
		// a load is fixed if it was taken outside the loop (a later store cannot change the loaded value)
		if n.at.b != nil {
			return !loop[n.at.b]
		}
		if strings.HasSuffix(n.key, "@entry") {
			return true
		}
		return false
	case "phi", "call", "extract", "makeslice", "alloc", "copy", "append", "lookup":
		if in, ok := n.val.(ssa.Instruction); ok && in.Block() != nil {
			return !loop[in.Block()]
		}
		return false
	}
	if len(n.args) == 0 {
		if in, ok := n.val.(ssa.Instruction); ok && in.Block() != nil {
			return !loop[in.Block()]
		}
		return n.val == nil || func() bool { _, isP := n.val.(*ssa.Parameter); return isP }()
	}
	for _, a := range n.args {
		if !pf.fixedOutside(a, loop, depth+1) {
			return false
		}
	}
	return true
}

// candidateMerges: merge blocks worth splitting on for this goal — where the goal's phis
// and multiply-defined loads were formed — then the nearest merge dominating b.
func (pf *pfunc) candidateMerges(b *ssa.BasicBlock, g pgoal) []*ssa.BasicBlock {
	var out []*ssa.BasicBlock
	add := func(m *ssa.BasicBlock) {
		if m == nil || !m.Dominates(b) && m != b {
			return
		}
		for _, x := range out {
			if x == m {
				return
			}
		}
		if len(out) < 7 {
			out = append(out, m)
		}
	}
	var visit func(n *vn, depth int)
	visit = func(n *vn, depth int) {
		if n == nil || depth > 4 {
			return
		}
		switch n.op {
		case "phi":
			if ph, ok := n.val.(*ssa.Phi); ok {
				if m := nearestMerge(ph.Block()); m == ph.Block() {
					add(m)
				}
			}
		case "load":
			if n.at.b != nil && n.at.i == -1 && !strings.HasSuffix(n.key, "@entry") {
				if m := nearestMerge(n.at.b); m == n.at.b {
					add(m)
				}
			}
		}
		for _, a := range n.args {
			visit(a, depth+1)
		}
	}
	if g.nonnil != "" {
		visit(pf.byKey[g.nonnil], 0)
	}
	if g.l != nil {
		var ks []string
		for k := range g.l.atoms {
			ks = append(ks, k)
		}
		sort.Strings(ks)
		for _, k := range ks {
			visit(g.l.atoms[k], 0)
		}
	}
	for x := b; x != nil; x = x.Idom() {
		if m := nearestMerge(x); m != nil {
			add(m)
			x = m
		}
	}
	return out
}

// substPhis replaces atoms that are phis of block m by the linear form of their i-th edge.
func (pf *pfunc) substPhis(l *lin, m *ssa.BasicBlock, i int) *lin {
	out := newLin()
	out.c.Set(l.c)
	for k, c := range l.coef {
		a := l.atoms[k]
		if ph, ok := a.val.(*ssa.Phi); ok && a.op == "phi" && ph.Block() == m {
			out = out.addScaled(pf.linOf(pf.get(ph.Edges[i])), c)
			continue
		}
		if a.op == "load" && isIntType(a.typ) {
			if r := pf.loadAtPredEnd(a, m, i); r != nil {
				out = out.addScaled(pf.linOf(r), c)
				continue
			}
		}
		if a.op == "len" && a.args[0].op == "load" {
			if r := pf.loadAtPredEnd(a.args[0], m, i); r != nil {
				out = out.addScaled(pf.linOf(pf.mkLen(r)), c)
				continue
			}
		}
		if (a.op == "len" || a.op == "cap") && a.args[0].op == "phi" {
			if ph, ok := a.args[0].val.(*ssa.Phi); ok && ph.Block() == m && a.op == "len" {
				out = out.addScaled(pf.linOf(pf.mkLen(pf.get(ph.Edges[i]))), c)
				continue
			}
		}
		out = out.addScaled(linAtom(a), c)
	}
	return out
}

func (pf *pfunc) substFactPhis(f fact, m *ssa.BasicBlock, i int) fact {
	if f.l != nil {
		f.l = pf.substPhis(f.l, m, i)
	}
	if f.neq != nil {
		f.neq = pf.substPhis(f.neq, m, i)
	}
	if f.isnil != "" {
		f.isnil = pf.substKeyRaw(f.isnil, m, i)
	}
	if f.nonil != "" {
		f.nonil = pf.substKeyRaw(f.nonil, m, i)
	}
	return f
}

// substKeyRaw: the key of the value a phi of m (or a load versioned at m) has on edge i.
func (pf *pfunc) substKeyRaw(key string, m *ssa.BasicBlock, i int) string {
	n := pf.byKey[key]
	if n == nil {
		return key
	}
	if n.op == "load" {
		if r := pf.loadAtPredEnd(n, m, i); r != nil {
			return r.key
		}
		return key
	}
	if n.op == "phi" {
		if ph, ok := n.val.(*ssa.Phi); ok && ph.Block() == m {
			return pf.get(ph.Edges[i]).key
		}
	}
	return key
}

// loadAtPredEnd: for a load whose location has several reaching definitions at merge block m
// (so it got a version of its own), the value the location holds when m is entered through
// its i-th predecessor — provided nothing writes the location between m's entry and the load.
func (pf *pfunc) loadAtPredEnd(n *vn, m *ssa.BasicBlock, i int) *vn {
	if n.at.b != m || n.at.i != -1 || len(n.args) != 1 {
		return nil
	}
	if strings.HasSuffix(n.key, "@entry") {
		return nil
	}
	p := m.Preds[i]
	r := pf.loadAt(n.args[0], nil, n.typ, ppos{p, len(p.Instrs) - 1})
	if r.key == n.key {
		return nil
	}
	return r
}

// substKeyPhi: if key names a phi of block m, the key of its i-th incoming value
// ("" when that value can never be nil); otherwise the key itself.
func (pf *pfunc) substKeyPhi(key string, m *ssa.BasicBlock, i int) string {
	n := pf.byKey[key]
	if n != nil && n.op == "load" {
		if r := pf.loadAtPredEnd(n, m, i); r != nil {
			if r.op == "load" || r.op == "phi" || r.op == "extract" || r.op == "call" || r.op == "lookup" {
				return r.key
			}
			if r.val != nil && !pf.P.mayBeNil(pf, r.val, false, 0).maybe {
				return ""
			}
			return r.key
		}
		return key
	}
	if n == nil || n.op != "phi" {
		return key
	}
	ph, ok := n.val.(*ssa.Phi)
	if !ok || ph.Block() != m {
		return key
	}
	e := ph.Edges[i]
	if !pf.P.mayBeNil(pf, e, false, 0).maybe {
		return ""
	}
	return pf.get(e).key
}

func isNilConst(n *vn) bool { return n.op == "const" && n.c == nil }
func isBoolType(t types.Type) bool {
	b, ok := t.Underlying().(*types.Basic)
	return ok && b.Info()&types.IsBoolean != 0
}

// blockFacts: conditions that hold on entry to block b (dominating guards).
func (pf *pfunc) blockFacts(b *ssa.BasicBlock, fs *factSet) {
	for x := b; x != nil; x = x.Idom() {
		p := x.Idom()
		if p == nil {
			break
		}
		// x's entry condition: if x has a single predecessor ending in If
		if len(x.Preds) == 1 {
			pr := x.Preds[0]
			if iff, ok := pr.Instrs[len(pr.Instrs)-1].(*ssa.If); ok {
				truth := pr.Succs[0] == x
				if pr.Succs[0] == pr.Succs[1] {
					continue
				}
				why := fmt.Sprintf("guard at %s", pf.P.P.Pos(iff.Cond.Pos()))
				pf.condFacts(pf.get(iff.Cond), truth, why, fs, 0)
			}
		}
		// note: walking x = idom(x) visits every dominator; guards attach to the block they
		// protect, and a dominator's guards protect everything it dominates
	}
}

// callFacts adds the success postconditions of calls whose error result is
// known to be nil (or bool result known) at this point. Done by scanning facts
// for isnil(extract#k(call)).
func (pf *pfunc) expandCallFacts(fs *factSet) {
	for i := 0; i < len(fs.facts); i++ {
		f := fs.facts[i]
		if f.isnil == "" {
			continue
		}
		n := pf.byKey[f.isnil]
		if n == nil {
			continue
		}
		var call *vn
		switch {
		case n.op == "extract" && n.args[0].op == "call":
			call = n.args[0]
		case n.op == "call":
			call = n
		}
		if call == nil {
			continue
		}
		pf.applyPost(call, n, fs)
		if strings.HasPrefix(call.name, "io.ReadFull") && len(call.args) == 2 && n.op == "extract" && n.name == "1" {
			cnt := pf.mk("extract", types.Typ[types.Int], "0", token.ILLEGAL, call)
			ln := pf.linOf(pf.mkLen(call.args[1]))
			fs.add(fact{l: pf.linOf(cnt).sub(ln), why: "io.ReadFull: err == nil implies n == len(buf)"})
			fs.add(fact{l: ln.sub(pf.linOf(cnt)), why: "io.ReadFull: err == nil implies n == len(buf)"})
		}
	}
	// a pointer-returning module function that returns the nil constant on some paths: a non-nil result
	// implies the conditions common to all its other returns (tx.InputIdx(i) != nil => i <= count-1)
	for i := 0; i < len(fs.facts); i++ {
		f := fs.facts[i]
		if f.nonil == "" {
			continue
		}
		n := pf.byKey[f.nonil]
		if n == nil || n.op != "call" {
			continue
		}
		ci, ok := n.val.(*ssa.Call)
		if !ok {
			continue
		}
		sc := ci.Call.StaticCallee()
		if sc == nil || len(sc.Blocks) == 0 || !inScope(pkgPathOf(sc)) {
			continue
		}
		if conds := pf.P.nonNilConds(sc); len(conds) > 0 {
			pf.instantiate(sc, ci, conds, fs, "postcondition of "+funcName(sc)+" (result != nil)")
		}
	}
	// io.ReadFull: err != nil implies n < len(buf)
	for i := 0; i < len(fs.facts); i++ {
		f := fs.facts[i]
		if f.nonil == "" {
			continue
		}
		n := pf.byKey[f.nonil]
		if n == nil || n.op != "extract" || n.name != "1" || n.args[0].op != "call" || !strings.HasPrefix(n.args[0].name, "io.ReadFull") || len(n.args[0].args) != 2 {
			continue
		}
		call := n.args[0]
		cnt := pf.mk("extract", types.Typ[types.Int], "0", token.ILLEGAL, call)
		ln := pf.linOf(pf.mkLen(call.args[1]))
		fs.add(fact{l: ln.sub(pf.linOf(cnt)).addConst(-1), why: "io.ReadFull: err != nil implies n < len(buf)"})
	}
}

// ---------------------------------------------------------------------
// Postconditions

// postCond: facts, as callee numbers, that hold whenever the callee returns
// with its error result nil (or, for boolean functions, returns true/false).
type postCond struct {
	fn         *ssa.Function
	errIdx     int      // index of the error result, -1 if boolean
	okConds    []condAt // on success (err == nil / true)
	falseConds []condAt // for bool functions when false
	resNonNil  []bool   // result k is non-nil on success
	valid      bool
	reads      map[string]bool // location classes read by the conditions
}

type condAt struct {
	v     ssa.Value
	truth bool
}

func isErrorType(t types.Type) bool {
	n, ok := t.(*types.Named)
	return ok && n.Obj().Pkg() == nil && n.Obj().Name() == "error"
}

func (pe *PEngine) postOf(fn *ssa.Function) *postCond {
	if pc, ok := pe.post[fn]; ok {
		return pc
	}
	pc := &postCond{fn: fn, errIdx: -1}
	pe.post[fn] = pc
	if len(fn.Blocks) == 0 {
		return pc
	}
	res := fn.Signature.Results()
	isBool := res.Len() == 1 && isBoolType(res.At(0).Type())
	for i := 0; i < res.Len(); i++ {
		if isErrorType(res.At(i).Type()) || implementsErrorNamed(res.At(i).Type()) {
			pc.errIdx = i
		}
	}
	if pc.errIdx < 0 && !isBool {
		return pc
	}
	// classify return sites
	var okBlocks, falseBlocks []*ssa.BasicBlock
	pc.resNonNil = make([]bool, res.Len())
	for i := range pc.resNonNil {
		pc.resNonNil[i] = true
	}
	for _, b := range fn.Blocks {
		ret, ok := b.Instrs[len(b.Instrs)-1].(*ssa.Return)
		if !ok {
			continue
		}
		if isBool {
			classifyBoolReturn(b, ret.Results[0], &okBlocks, &falseBlocks)
			continue
		}
		ev := ret.Results[pc.errIdx]
		kinds := returnKinds(ev)
		if kinds == 3 {
			// "if err != nil { return ..., err }": the dominating guard makes this an error-only return
			cpf := pe.pf(fn)
			if cpf.knownNonNil(ev, cpf.factsAt(b)) {
				kinds = 2
			}
		}
		if kinds&1 != 0 { // may be nil error
			if kinds&2 != 0 {
				// same return may carry nil or non-nil error (phi): the success set is the nil-edge predecessors
				if ph, ok := ev.(*ssa.Phi); ok && ph.Block() == b {
					for i, e := range ph.Edges {
						if returnKinds(e)&1 != 0 {
							okBlocks = append(okBlocks, b.Preds[i])
							for k, r := range ret.Results {
								if k != pc.errIdx && !resNonNilOnEdge(r, b, i) {
									pc.resNonNil[k] = false
								}
							}
						}
					}
					continue
				}
				// unknown error value (e.g. propagated from a call): success conditions cannot be derived
				okBlocks = append(okBlocks, b)
				for k := range ret.Results {
					if k == pc.errIdx || valueNeverNil(ret.Results[k]) {
						continue
					}
					// "return f(...)": result and error come from the same call; on err == nil the
					// callee's own success guarantee applies
					if ex, ok := ev.(*ssa.Extract); ok {
						if rx, ok := ret.Results[k].(*ssa.Extract); ok && rx.Tuple == ex.Tuple {
							if call, ok := ex.Tuple.(*ssa.Call); ok {
								if sc := call.Call.StaticCallee(); sc != nil && sc != fn && len(sc.Blocks) > 0 {
									cp := pe.postOf(sc)
									if cp.valid && cp.errIdx == ex.Index && rx.Index < len(cp.resNonNil) && cp.resNonNil[rx.Index] {
										continue
									}
								}
							}
						}
					}
					pc.resNonNil[k] = false
				}
				continue
			}
			okBlocks = append(okBlocks, b)
			for k, r := range ret.Results {
				if k != pc.errIdx && !valueNeverNil(r) {
					// "if x == nil { return nil, Err }; ...; return x, nil": the guards on the way to this
					// return show the value non-nil
					if pointerLikeNilable(r.Type()) {
						if cpf := pe.pf(fn); cpf.proveAt(b, pgoal{nonnil: cpf.get(r).key}, nil, 0) {
							continue
						}
					}
					pc.resNonNil[k] = false
				}
			}
		}
	}
	pc.okConds = commonConds(fn, okBlocks)
	pc.falseConds = commonConds(fn, falseBlocks)
	// return a && b: the result is a merge of constants false and the value of b on one edge. A true result
	// came through that edge, so besides the conditions leading there b itself was true (and dually for a || b)
	if isBool {
		for _, b := range fn.Blocks {
			ret, ok := b.Instrs[len(b.Instrs)-1].(*ssa.Return)
			if !ok {
				continue
			}
			ph, ok := ret.Results[0].(*ssa.Phi)
			if !ok || ph.Block() != b {
				continue
			}
			for _, want := range []bool{true, false} {
				computed := -1
				okShape := true
				for i, e := range ph.Edges {
					if c, isC := e.(*ssa.Const); isC && c.Value != nil && c.Value.Kind() == constant.Bool {
						if constant.BoolVal(c.Value) == want {
							okShape = false // a constant edge gives the result too
						}
						continue
					}
					if computed >= 0 {
						okShape = false
					}
					computed = i
				}
				// only when this is the function's one return that can yield the value
				others := okBlocks
				if !want {
					others = falseBlocks
				}
				if okShape && computed >= 0 && len(others) == 1 && others[0] == b.Preds[computed] {
					if want {
						pc.okConds = append(pc.okConds, condAt{ph.Edges[computed], true})
					} else {
						pc.falseConds = append(pc.falseConds, condAt{ph.Edges[computed], false})
					}
				}
			}
		}
	}
	pc.valid = true
	return pc
}

func implementsErrorNamed(t types.Type) bool {
	// errs.Error is a struct implementing error, returned by value by success(); not treated as error result
	return false
}

// returnKinds: bit 1 = may be nil, bit 2 = may be non-nil
func returnKinds(v ssa.Value) int {
	switch x := v.(type) {
	case *ssa.Const:
		if x.Value == nil {
			return 1
		}
		return 2
	case *ssa.MakeInterface:
		return 2
	case *ssa.Call:
		if sc := x.Call.StaticCallee(); sc != nil && sc.Pkg != nil {
			p := sc.Pkg.Pkg.Path()
			if (p == "errors" && sc.Name() == "New") || (p == "fmt" && sc.Name() == "Errorf") ||
				(p == "github.com/pkg/errors" && (sc.Name() == "New" || sc.Name() == "Errorf")) {
				return 2
			}
		}
		return 3
	case *ssa.Phi:
		k := 0
		for _, e := range x.Edges {
			if e == v {
				continue
			}
			k |= returnKinds(e)
		}
		return k
	case *ssa.UnOp:
		// load of a package-level error variable that is initialised once with a non-nil error
		if g, ok := x.X.(*ssa.Global); ok && x.Op == token.MUL && thePEngine != nil && thePEngine.globalNonNil(g) {
			return 2
		}
	}
	return 3
}

// globalNonNil: the package-level variable is assigned only in its package initialiser, with
// a value that is never nil (errors.New and friends, or a composite value).
func (pe *PEngine) globalNonNil(g *ssa.Global) bool {
	if pe.globNN == nil {
		pe.globNN = map[*ssa.Global]int{}
		stored := map[*ssa.Global][]ssa.Value{}
		outside := map[*ssa.Global]bool{}
		for _, pkg := range pe.P.SSA.AllPackages() {
			for _, m := range pkg.Members {
				fn, ok := m.(*ssa.Function)
				if !ok {
					continue
				}
				var fns []*ssa.Function
				fns = append(fns, fn)
				fns = append(fns, fn.AnonFuncs...)
				for _, f := range fns {
					for _, b := range f.Blocks {
						for _, ins := range b.Instrs {
							if st, ok := ins.(*ssa.Store); ok {
								if gg, ok := st.Addr.(*ssa.Global); ok {
									if f.Name() == "init" && f.Pkg == gg.Pkg {
										stored[gg] = append(stored[gg], st.Val)
									} else {
										outside[gg] = true
									}
								}
							}
						}
					}
				}
			}
		}
		// methods may also store globals
		for _, f := range pe.O.fns {
			for _, b := range f.Blocks {
				for _, ins := range b.Instrs {
					if st, ok := ins.(*ssa.Store); ok {
						if gg, ok := st.Addr.(*ssa.Global); ok && !(f.Name() == "init" && f.Pkg == gg.Pkg) {
							outside[gg] = true
						}
					}
				}
			}
		}
		for gg, vals := range stored {
			ok := !outside[gg] && len(vals) > 0
			for _, v := range vals {
				if returnKinds(v) != 2 && !valueNeverNil(v) {
					ok = false
				}
			}
			if ok {
				pe.globNN[gg] = 1
			}
		}
	}
	return pe.globNN[g] == 1
}

func valueNeverNil(v ssa.Value) bool {
	switch x := v.(type) {
	case *ssa.Alloc, *ssa.MakeSlice, *ssa.MakeMap, *ssa.MakeClosure, *ssa.MakeInterface, *ssa.FieldAddr, *ssa.IndexAddr, *ssa.Function, *ssa.Global:
		return true
	case *ssa.Const:
		return x.Value != nil || !pointerLikeNilable(x.Type())
	case *ssa.Phi:
		for _, e := range x.Edges {
			if e != v && !valueNeverNil(e) {
				return false
			}
		}
		return true
	case *ssa.ChangeType:
		return valueNeverNil(x.X)
	case *ssa.Call:
		if thePEngine != nil && pointerLikeNilable(v.Type()) {
			return !thePEngine.callResultNil(x, 0).maybe
		}
	case *ssa.Extract:
		if c, ok := x.Tuple.(*ssa.Call); ok && thePEngine != nil && pointerLikeNilable(v.Type()) {
			return !thePEngine.callResultNil(c, x.Index).maybe
		}
	}
	return !pointerLikeNilable(v.Type())
}

var thePEngine *PEngine

func pointerLikeNilable(t types.Type) bool {
	switch t.Underlying().(type) {
	case *types.Pointer, *types.Interface, *types.Map, *types.Signature, *types.Chan:
		return true
	}
	return false
}

func resNonNilOnEdge(r ssa.Value, b *ssa.BasicBlock, edge int) bool {
	if ph, ok := r.(*ssa.Phi); ok && ph.Block() == b {
		return valueNeverNil(ph.Edges[edge])
	}
	return valueNeverNil(r)
}

func classifyBoolReturn(b *ssa.BasicBlock, v ssa.Value, okB, falseB *[]*ssa.BasicBlock) {
	switch x := v.(type) {
	case *ssa.Const:
		if x.Value != nil && x.Value.Kind() == constant.Bool {
			if constant.BoolVal(x.Value) {
				*okB = append(*okB, b)
			} else {
				*falseB = append(*falseB, b)
			}
			return
		}
	case *ssa.Phi:
		if x.Block() == b {
			for i, e := range x.Edges {
				if c, ok := e.(*ssa.Const); ok && c.Value != nil && c.Value.Kind() == constant.Bool {
					if constant.BoolVal(c.Value) {
						*okB = append(*okB, b.Preds[i])
					} else {
						*falseB = append(*falseB, b.Preds[i])
					}
				} else {
					// computed value on this edge: belongs to both classes, reached through pred i
					*okB = append(*okB, b.Preds[i])
					*falseB = append(*falseB, b.Preds[i])
				}
			}
			return
		}
	}
	*okB = append(*okB, b)
	*falseB = append(*falseB, b)
}

// commonConds: branch conditions that dominate every block in bs.
func commonConds(fn *ssa.Function, bs []*ssa.BasicBlock) []condAt {
	if len(bs) == 0 {
		return nil
	}
	condsOf := func(b *ssa.BasicBlock) map[string]condAt {
		m := map[string]condAt{}
		for x := b; x != nil; x = x.Idom() {
			if len(x.Preds) == 1 {
				pr := x.Preds[0]
				if iff, ok := pr.Instrs[len(pr.Instrs)-1].(*ssa.If); ok && pr.Succs[0] != pr.Succs[1] {
					truth := pr.Succs[0] == x
					m[fmt.Sprintf("%p/%v", iff, truth)] = condAt{iff.Cond, truth}
				}
			}
		}
		return m
	}
	common := condsOf(bs[0])
	for _, b := range bs[1:] {
		m := condsOf(b)
		for k := range common {
			if _, ok := m[k]; !ok {
				delete(common, k)
			}
		}
	}
	var keys []string
	for k := range common {
		keys = append(keys, k)
	}
	sort.Strings(keys)
	var out []condAt
	for _, k := range keys {
		out = append(out, common[k])
	}
	return out
}

// applyPost instantiates the callee's success conditions at the call.
// nonNilConds: for a function with one pointer result, the branch conditions common to every return
// whose value is not the nil constant.
func (pe *PEngine) nonNilConds(fn *ssa.Function) []condAt {
	if c, ok := pe.nnConds[fn]; ok {
		return c
	}
	if pe.nnConds == nil {
		pe.nnConds = map[*ssa.Function][]condAt{}
	}
	pe.nnConds[fn] = nil
	res := fn.Signature.Results()
	if res.Len() != 1 {
		return nil
	}
	if _, isPtr := res.At(0).Type().Underlying().(*types.Pointer); !isPtr {
		return nil
	}
	var blocks []*ssa.BasicBlock
	nils := 0
	for _, b := range fn.Blocks {
		ret, ok := b.Instrs[len(b.Instrs)-1].(*ssa.Return)
		if !ok {
			continue
		}
		if k, isK := ret.Results[0].(*ssa.Const); isK && k.Value == nil {
			nils++
			continue
		}
		blocks = append(blocks, b)
	}
	if nils == 0 || len(blocks) == 0 {
		return nil
	}
	c := commonConds(fn, blocks)
	pe.nnConds[fn] = c
	return c
}

func (pf *pfunc) applyPost(call *vn, nilRes *vn, fs *factSet) {
	ci, ok := call.val.(*ssa.Call)
	if !ok {
		return
	}
	sc := ci.Call.StaticCallee()
	if sc == nil || len(sc.Blocks) == 0 {
		return
	}
	pc := pf.P.postOf(sc)
	if !pc.valid || pc.errIdx < 0 {
		return
	}
	// the nil fact must be about the error result
	if nilRes.op == "extract" && nilRes.name != fmt.Sprint(pc.errIdx) {
		return
	}
	pf.instantiate(sc, ci, pc.okConds, fs, "postcondition of "+funcName(sc)+" (err == nil)")
	pf.applyClauses(sc, ci, fs)
	// non-nil results
	for k, nn := range pc.resNonNil {
		if nn && k != pc.errIdx && sc.Signature.Results().Len() > 1 {
			key := pf.mk("extract", sc.Signature.Results().At(k).Type(), fmt.Sprint(k), token.ILLEGAL, call).key
			fs.add(fact{nonil: key, why: "result of " + funcName(sc) + " is non-nil when err == nil"})
		}
	}
}

func (pf *pfunc) callBoolFacts(n *vn, truth bool, why string, fs *factSet, depth int) {
	ci, ok := n.val.(*ssa.Call)
	if !ok {
		return
	}
	sc := ci.Call.StaticCallee()
	if sc == nil || len(sc.Blocks) == 0 {
		return
	}
	pc := pf.P.postOf(sc)
	if !pc.valid || pc.errIdx >= 0 {
		return
	}
	conds := pc.okConds
	if !truth {
		conds = pc.falseConds
	}
	pf.instantiate(sc, ci, conds, fs, fmt.Sprintf("postcondition of %s (returns %v)", funcName(sc), truth))
}

// instantiate translates callee conditions into the caller at the call position.
// Sound only if the callee does not write the locations its conditions read
// between evaluating them and returning: required that the callee (transitively)
// stores to none of the location classes the translated numbers load from.
func (pf *pfunc) instantiate(sc *ssa.Function, ci *ssa.Call, conds []condAt, fs *factSet, why string) {
	if len(conds) == 0 {
		return
	}
	at := pf.posOf[ci]
	sum := pf.P.O.Sums[sc]
	for _, cd := range conds {
		subst := map[ssa.Value]*vn{}
		for i, p := range sc.Params {
			if i < len(ci.Call.Args) {
				subst[p] = pf.get(ci.Call.Args[i])
			}
		}
		allowed := map[string]bool{}
		for _, a := range subst {
			allowed[a.key] = true
		}
		pf.inlineDepth++
		n := pf.numberAt(cd.v, at, subst)
		pf.inlineDepth--
		if containsOpExcept(n, allowed, 0, "opaque", "call", "lookup") {
			continue
		}
		// check the callee does not kill what the condition loads
		if sum != nil && loadsKilledBy(pf, n, sum, 0) {
			continue
		}
		pf.condFacts(n, cd.truth, why, fs, 0)
	}
}

func loadsKilledBy(pf *pfunc, n *vn, sum *OSummary, depth int) bool {
	if n == nil || depth > 14 {
		return false
	}
	if n.op == "load" && n.name != "" {
		if pf.summaryKills(sum, n.name) {
			return true
		}
	}
	for _, a := range n.args {
		if loadsKilledBy(pf, a, sum, depth+1) {
			return true
		}
	}
	return false
}

// ---------------------------------------------------------------------
// implicit range facts and induction

func (pf *pfunc) implicitFacts(atoms map[string]*vn, fs *factSet) {
	var ks []string
	for k := range atoms {
		ks = append(ks, k)
	}
	sort.Strings(ks)
	for _, k := range ks {
		a := atoms[k]
		lo, hi, ok := valueRange(a)
		if !ok {
			continue
		}
		la := linAtom(a)
		if lo.IsInt64() && lo.Int64() > -(1<<40) {
			fs.add(fact{l: la.sub(linConst(lo)), why: "range of " + shortKey(k)})
		}
		if hi.IsInt64() && hi.Int64() < 1<<40 {
			fs.add(fact{l: linConst(hi).sub(la), why: "range of " + shortKey(k)})
		}
		// x / c and x % c for constant c > 0
		if a.op == "bin" && (a.tok == token.QUO) && a.args[1].op == "const" && !pf.inQuot {
			if c, ok := constValInt(a.args[1].c); ok && c.Sign() > 0 && c.IsInt64() {
				x := pf.linOf(a.args[0])
				pf.inQuot = true
				nonneg := pf.prove(x, fs)
				pf.inQuot = false
				if nonneg {
					// for x >= 0: c*q <= x <= c*q + c - 1 and q >= 0
					cq := newLin().addScaled(la, new(big.Rat).SetInt(c))
					fs.add(fact{l: la, why: "quotient of a non-negative dividend"})
					fs.add(fact{l: x.sub(cq), why: "c*(x/c) <= x for x >= 0"})
					fs.add(fact{l: cq.addConst(c.Int64() - 1).sub(x), why: "x <= c*(x/c) + c-1 for x >= 0"})
				}
			}
		}
		if a.op == "phi" {
			pf.inductionFacts(a, fs)
		}
		if a.op == "copy" && len(a.args) == 2 {
			// n = copy(dst, src): 0 <= n <= len(dst), n <= len(src)
			fs.add(fact{l: la, why: "copy returns n >= 0"})
			fs.add(fact{l: pf.linOf(pf.mkLen(a.args[0])).sub(la), why: "copy returns n <= len(dst)"})
			fs.add(fact{l: pf.linOf(pf.mkLen(a.args[1])).sub(la), why: "copy returns n <= len(src)"})
		}
		if a.op == "bin" && a.tok == token.REM && a.args[1].op == "const" && !pf.inQuot {
			if cm, ok := constValInt(a.args[1].c); ok && cm.Sign() > 0 && cm.IsInt64() {
				pf.inQuot = true
				nonneg := pf.prove(pf.linOf(a.args[0]), fs)
				pf.inQuot = false
				if nonneg {
					fs.add(fact{l: la, why: "remainder of a non-negative dividend"})
				}
			}
		}
		if a.op == "extract" && a.name == "0" && a.args[0].op == "call" && strings.HasPrefix(a.args[0].name, "io.ReadAtLeast") && len(a.args[0].args) == 3 {
			// contract of io.ReadAtLeast: 0 <= n <= len(buf)
			fs.add(fact{l: la, why: "io.ReadAtLeast returns n >= 0"})
			fs.add(fact{l: pf.linOf(pf.mkLen(a.args[0].args[1])).sub(la), why: "io.ReadAtLeast returns n <= len(buf)"})
		}
		if a.op == "extract" && a.name == "0" && a.args[0].op == "call" && strings.HasPrefix(a.args[0].name, "io.ReadFull") && len(a.args[0].args) == 2 {
			// contract of io.ReadFull: 0 <= n <= len(buf)
			fs.add(fact{l: la, why: "io.ReadFull returns n >= 0"})
			fs.add(fact{l: pf.linOf(pf.mkLen(a.args[0].args[1])).sub(la), why: "io.ReadFull returns n <= len(buf)"})
		}
		if a.op == "bin" && (a.tok == token.ADD || a.tok == token.SUB) && isIntType(a.typ) && !pf.noOverflow(a) && !pf.inQuot {
			// narrow (8/16 bit) or unsigned-subtraction arithmetic: exact when the facts show no wrap
			x, y := pf.linOf(a.args[0]), pf.linOf(a.args[1])
			exact := x.add(y)
			if a.tok == token.SUB {
				exact = x.sub(y)
			}
			lo, hi, ok := intTypeRange(a.typ)
			if ok {
				pf.inQuot = true
				fits := pf.prove(exact.sub(linConst(lo)), fs)
				if a.tok == token.SUB && lo.Sign() == 0 {
					// unsigned x - y with y >= 0 never exceeds x, which is of the type
					fits = fits && pf.prove(y, fs)
				} else {
					fits = fits && pf.prove(linConst(hi).sub(exact), fs)
				}
				pf.inQuot = false
				if os.Getenv("VERIF_DEBUG") == "wrap" {
					fmt.Fprintf(os.Stderr, "wrap? %s exact=%s fits=%v\n", shortKey(k), descLin(exact), fits)
				}
				if fits {
					fs.add(fact{l: la.sub(exact), why: "arithmetic does not wrap"})
					fs.add(fact{l: exact.sub(la), why: "arithmetic does not wrap"})
				}
			}
		}
		if a.op == "conv" && len(a.args) == 1 && isIntType(a.typ) && isIntType(a.args[0].typ) && !pf.inQuot {
			// a conversion that may wrap in general is exact when the facts bound its operand inside the
			// target type (uint32 -> int32 after the operand was compared with a length)
			lo, hi, ok := intTypeRange(a.typ)
			if ok {
				x := pf.linOf(a.args[0])
				pf.inQuot = true
				fits := pf.prove(x.sub(linConst(lo)), fs) && pf.prove(linConst(hi).sub(x), fs)
				pf.inQuot = false
				if fits {
					fs.add(fact{l: la.sub(x), why: "conversion keeps the value"})
					fs.add(fact{l: x.sub(la), why: "conversion keeps the value"})
				}
			}
		}
		// len(Clone(x).Inputs) == len(x.Inputs) (and Outputs), while rule S-clonelen holds for this tree
		if a.op == "len" && len(a.args) == 1 && a.args[0].op == "load" && len(a.args[0].args) == 1 && a.args[0].args[0].op == "fieldaddr" {
			ld, fa := a.args[0], a.args[0].args[0]
			base := fa.args[0]
			if base.op == "call" && strings.HasPrefix(base.name, "(*bt.Tx).Clone") && len(base.args) == 1 {
				field := fa.name[strings.LastIndex(fa.name, ".")+1:]
				if cloneLenVerified[pf.P.P][field] && pf.posDominates(ld.at, base.at) {
					src := pf.mk("fieldaddr", fa.typ, fa.name, token.ILLEGAL, base.args[0])
					orig := pf.linOf(pf.mkLen(pf.loadAt(src, nil, ld.typ, base.at)))
					fs.add(fact{l: la.sub(orig), why: "Tx.Clone keeps the number of " + field + " (rule S-clonelen)"})
					fs.add(fact{l: orig.sub(la), why: "Tx.Clone keeps the number of " + field + " (rule S-clonelen)"})
				}
			}
		}
		if a.op == "load" {
			if ex, ok := pf.P.NonNegFields[a.name]; ok {
				if inv := pf.P.nonNegField(a.name, ex); inv != nil && inv.holds {
					fs.add(fact{l: la, why: "field invariant " + a.name + " >= 0 (all " + fmt.Sprint(inv.stores) + " stores checked)"})
				}
			}
		}
	}
}

func shortKey(k string) string {
	if len(k) > 80 {
		return k[:77] + "..."
	}
	return k
}

// inductionFacts: for a loop-header phi with a single outside initial value and
// back-edge values, prove phi >= init or phi <= init inductively.
func (pf *pfunc) inductionFacts(a *vn, fs *factSet) {
	ph, ok := a.val.(*ssa.Phi)
	if !ok || !isIntType(ph.Type()) {
		return
	}
	key := "ind:" + a.key
	if pf.indMemo == nil {
		pf.indMemo = map[string][]fact{}
	}
	if got, ok := pf.indMemo[key]; ok {
		for _, f := range got {
			fs.add(f)
		}
		return
	}
	pf.indMemo[key] = nil // guard against recursion
	b := ph.Block()
	var inits, backs []int
	for i, p := range b.Preds {
		if b.Dominates(p) {
			backs = append(backs, i)
		} else {
			inits = append(inits, i)
		}
	}
	if len(backs) == 0 || len(inits) == 0 {
		return
	}
	la := linAtom(a)
	var out []fact
	try := func(sign int) {
		// candidate: sign*(phi - init) >= 0 for every init (use each init separately: phi >= min init needs all)
		for _, ii := range inits {
			init := pf.linOf(pf.get(ph.Edges[ii]))
			cand := func(x *lin) *lin {
				if sign > 0 {
					return x.sub(init)
				}
				return init.sub(x)
			}
			// base: other inits satisfy candidate too
			okAll := true
			for _, jj := range inits {
				if jj == ii {
					continue
				}
				g := cand(pf.linOf(pf.get(ph.Edges[jj])))
				if !pf.proveAtEnd(b.Preds[jj], g, nil) {
					okAll = false
				}
			}
			for _, bi := range backs {
				if !okAll {
					break
				}
				ev := pf.linOf(pf.get(ph.Edges[bi]))
				hyp := fact{l: cand(la), why: "induction hypothesis"}
				if !pf.proveAtEnd(b.Preds[bi], cand(ev), []fact{hyp}) {
					okAll = false
				}
			}
			if okAll {
				rel := ">="
				if sign < 0 {
					rel = "<="
				}
				out = append(out, fact{l: cand(la), why: fmt.Sprintf("loop invariant %s %s initial value (proved by induction over %d back edges)", shortKey(a.key), rel, len(backs))})
				return
			}
		}
	}
	try(+1)
	try(-1)
	// counters of one loop that advance in step keep their distance: for another phi of the same header with
	// the same constant step on every way round, this - other = (initial this) - (initial other)
	stepOf := func(p *ssa.Phi) (*big.Rat, bool) {
		var step *big.Rat
		pl := linAtom(pf.get(p))
		for _, bi := range backs {
			d := pf.linOf(pf.get(p.Edges[bi])).sub(pl)
			if len(d.coef) != 0 {
				return nil, false
			}
			if step != nil && step.Cmp(d.c) != 0 {
				return nil, false
			}
			step = d.c
		}
		return step, step != nil
	}
	if myStep, ok := stepOf(ph); ok && len(inits) == 1 {
		for _, ins := range b.Instrs {
			other, isPhi := ins.(*ssa.Phi)
			if !isPhi {
				break
			}
			if other == ph || !isIntType(other.Type()) {
				continue
			}
			if st, ok := stepOf(other); ok && st.Cmp(myStep) == 0 {
				ii := inits[0]
				diff := la.sub(linAtom(pf.get(other))).sub(pf.linOf(pf.get(ph.Edges[ii])).sub(pf.linOf(pf.get(other.Edges[ii]))))
				why := fmt.Sprintf("loop counters %s and %s advance in step", shortKey(a.key), shortKey(pf.get(other).key))
				out = append(out, fact{l: diff, why: why}, fact{l: diff.neg(), why: why})
			}
		}
	}
	pf.indMemo[key] = out
	for _, f := range out {
		fs.add(f)
	}
}

// proveAtEnd proves g >= 0 with the facts available at the end of block b.
func (pf *pfunc) proveAtEnd(b *ssa.BasicBlock, g *lin, extra []fact) bool {
	return pf.proveAt(b, pgoal{l: g}, extra, 1)
}

// ---------------------------------------------------------------------
// Fourier–Motzkin

// prove: do the facts imply g >= 0 (over the integers)? Refutes facts ∧ (-g-1 >= 0).
func (pf *pfunc) prove(g *lin, fs *factSet) bool {
	// gather atoms transitively relevant and add implicit facts
	for round := 0; round < 3; round++ {
		atoms := map[string]*vn{}
		for k, a := range g.atoms {
			atoms[k] = a
		}
		rel := relevantFacts(g, fs)
		for _, f := range rel {
			for k, a := range f.atoms {
				atoms[k] = a
			}
		}
		// a difference that may wrap is an atom of its own: a fact about it alone joins the goal only
		// through "arithmetic does not wrap", so such atoms are looked at wherever they occur
		if !pf.inQuot {
			for _, f := range fs.facts {
				if f.l == nil {
					continue
				}
				for k, a := range f.l.atoms {
					if a.op == "bin" && (a.tok == token.ADD || a.tok == token.SUB) && isIntType(a.typ) && !pf.noOverflow(a) {
						atoms[k] = a
						// and what its operands are made of (a conversion that keeps the value)
						for _, x := range a.args {
							for k2, a2 := range pf.linOf(x).atoms {
								atoms[k2] = a2
							}
						}
					}
				}
			}
		}
		before := len(fs.facts)
		pf.implicitFacts(atoms, fs)
		if len(fs.facts) == before {
			break
		}
	}
	pf.strengthenNeq(fs)
	rel := relevantFacts(g, fs)
	neg := g.neg().addConst(-1)
	rows := append([]*lin{neg}, rel...)
	res := fmInfeasible(rows)
	if os.Getenv("VERIF_DEBUG") == "prove" && strings.Contains(funcName(pf.fn), os.Getenv("VERIF_TRACE")) {
		fmt.Fprintf(os.Stderr, "prove %s >= 0: %v\n", descLin(g), res)
		for _, r := range rows {
			fmt.Fprintf(os.Stderr, "     row %s >= 0\n", r.String())
		}
	}
	return res
}

// strengthenNeq: e != 0 together with e >= 0 gives e - 1 >= 0 (integers).
func (pf *pfunc) strengthenNeq(fs *factSet) {
	for round := 0; round < 6; round++ {
		before := len(fs.facts)
		for i := 0; i < len(fs.facts); i++ {
			f := fs.facts[i]
			if f.neq == nil {
				continue
			}
			if fmInfeasible(append([]*lin{f.neq.neg().addConst(-1)}, relevantFactsNoNeq(f.neq, fs)...)) {
				// e >= 0 holds
				fs.add(fact{l: f.neq.addConst(-1), why: f.why + " and lower bound"})
			} else if fmInfeasible(append([]*lin{f.neq.addConst(-1)}, relevantFactsNoNeq(f.neq, fs)...)) {
				fs.add(fact{l: f.neq.neg().addConst(-1), why: f.why + " and upper bound"})
			}
		}
		if len(fs.facts) == before {
			break
		}
	}
}

func relevantFactsNoNeq(g *lin, fs *factSet) []*lin { return relevantFacts(g, fs) }

func relevantFacts(g *lin, fs *factSet) []*lin {
	vars := map[string]bool{}
	for k := range g.coef {
		vars[k] = true
	}
	used := make([]bool, len(fs.facts))
	var out []*lin
	for changed := true; changed; {
		changed = false
		for i, f := range fs.facts {
			if used[i] || f.l == nil {
				continue
			}
			hit := len(f.l.coef) == 0
			for k := range f.l.coef {
				if vars[k] {
					hit = true
				}
			}
			if hit {
				used[i] = true
				changed = true
				out = append(out, f.l)
				for k := range f.l.coef {
					vars[k] = true
				}
			}
		}
	}
	if len(out) > 60 {
		out = out[:60]
	}
	return out
}

// fmInfeasible: is the system {row >= 0} infeasible over the rationals? (Sound
// for refutation over the integers as well.)
func fmInfeasible(rows []*lin) bool {
	cur := rows
	for iter := 0; iter < 40; iter++ {
		// constant contradictions
		var next []*lin
		for _, r := range cur {
			if len(r.coef) == 0 {
				if r.c.Sign() < 0 {
					return true
				}
				continue
			}
			next = append(next, r)
		}
		cur = next
		if len(cur) == 0 {
			return false
		}
		// choose variable with the fewest pos*neg products
		count := map[string][2]int{}
		for _, r := range cur {
			for k, c := range r.coef {
				e := count[k]
				if c.Sign() > 0 {
					e[0]++
				} else {
					e[1]++
				}
				count[k] = e
			}
		}
		best, bestCost := "", 1<<30
		var ks []string
		for k := range count {
			ks = append(ks, k)
		}
		sort.Strings(ks)
		for _, k := range ks {
			e := count[k]
			cost := e[0]*e[1] - e[0] - e[1]
			if cost < bestCost {
				best, bestCost = k, cost
			}
		}
		var pos, negs, rest []*lin
		for _, r := range cur {
			c, ok := r.coef[best]
			switch {
			case !ok:
				rest = append(rest, r)
			case c.Sign() > 0:
				pos = append(pos, r)
			default:
				negs = append(negs, r)
			}
		}
		if len(pos)*len(negs) > 4000 {
			return false
		}
		for _, p := range pos {
			for _, n := range negs {
				// p: a*x + P >= 0 (a>0), n: -b*x + N >= 0 (b>0)  => b*P + a*N >= 0
				a := p.coef[best]
				bq := new(big.Rat).Neg(n.coef[best])
				comb := newLin().addScaled(p, bq).addScaled(n, a)
				delete(comb.coef, best)
				delete(comb.atoms, best)
				rest = append(rest, comb)
			}
		}
		cur = dedupRows(rest)
	}
	return false
}

func dedupRows(rows []*lin) []*lin {
	seen := map[string]bool{}
	var out []*lin
	for _, r := range rows {
		k := r.String()
		if !seen[k] {
			seen[k] = true
			out = append(out, r)
		}
	}
	return out
}

// factsAt collects every fact available just before instruction index i of block b.
func (pf *pfunc) factsAt(b *ssa.BasicBlock) *factSet {
	fs := &factSet{}
	pf.blockFacts(b, fs)
	pf.expandCallFacts(fs)
	return fs
}

func describeGoal(g *lin) string { return g.String() + " >= 0" }

var _ = strings.TrimSpace

// ---------------------------------------------------------------------
// Field invariants: integer fields that are >= 0 at every store in the module.

type fieldInv struct {
	class    string // F:pkg.Type.field
	holds    bool
	stores   int
	failures []string
	excluded []string
}

// nonNegField proves "field >= 0 always" by induction over all stores to the
// field in the module: the zero value satisfies it, and every store writes a
// value that is >= 0 assuming all loads of the field are >= 0. Functions named
// in exclude are documented exclusions (listed in evidence).
func (pe *PEngine) nonNegField(class string, exclude map[string]bool) *fieldInv {
	if inv, ok := pe.fieldInvs[class]; ok {
		return inv
	}
	inv := &fieldInv{class: class, holds: true}
	pe.fieldInvs[class] = inv
	for _, fn := range pe.O.fns {
		if !inScope(pkgPathOf(fn)) || len(fn.Blocks) == 0 {
			continue
		}
		var stores []*ssa.Store
		for _, b := range fn.Blocks {
			for _, ins := range b.Instrs {
				st, ok := ins.(*ssa.Store)
				if !ok {
					continue
				}
				if fa, ok := st.Addr.(*ssa.FieldAddr); ok && structFieldClass(fa.X.Type(), fa.Field) == class {
					stores = append(stores, st)
				}
				// whole-struct store of the containing type: allowed only for the zero value / literals
				if pt, ok := st.Addr.Type().Underlying().(*types.Pointer); ok {
					if strings.HasPrefix(class, "F:"+typeKey(pt.Elem())+".") {
						if _, isAlloc := st.Addr.(*ssa.Alloc); !isAlloc {
							inv.holds = false
							inv.failures = append(inv.failures, "whole-struct store in "+funcName(fn))
						}
					}
				}
			}
		}
		if len(stores) == 0 {
			continue
		}
		if exclude[funcName(fn)] {
			inv.excluded = append(inv.excluded, funcName(fn))
			continue
		}
		pf := pe.pf(fn)
		for _, st := range stores {
			inv.stores++
			g := pf.linOf(pf.get(st.Val))
			var hyp []fact
			for k, a := range g.atoms {
				if a.op == "load" && a.name == class {
					hyp = append(hyp, fact{l: linAtom(a), why: "field invariant hypothesis"})
				}
				_ = k
			}
			pe.fieldInvs[class] = nil // avoid using the invariant while proving it
			delete(pe.fieldInvs, class)
			pe.fieldInvs[class] = &fieldInv{class: class, holds: false}
			ok := pf.proveAt(st.Block(), pgoal{l: g}, hyp, 0)
			pe.fieldInvs[class] = inv
			if !ok {
				inv.holds = false
				inv.failures = append(inv.failures, fmt.Sprintf("store in %s at %s: cannot prove %s >= 0", funcName(fn), pe.P.Pos(st.Pos()), descLin(g)))
			}
		}
	}
	return inv
}

// ---------------------------------------------------------------------
// Clause postconditions: for a loop-free callee, every error-return block E
// gives the clause  OR_{c in conds(E)} not c  ("success implies that not all of
// E's dominating conditions held"), provided every success path of the callee
// contradicts at least one of E's dominating conditions (checked by enumerating
// the callee's acyclic paths).

type clause []condAt // disjunction of literals (value, truth)

func (pe *PEngine) clausesOf(fn *ssa.Function) []clause {
	if cl, ok := pe.clauses[fn]; ok {
		return cl
	}
	pe.clauses[fn] = nil
	pc := pe.postOf(fn)
	if !pc.valid || pc.errIdx < 0 || len(fn.Blocks) == 0 {
		return nil
	}
	paths, err := enumPaths(fn.Blocks[0], nil, nil, 3000)
	if err != nil {
		return nil
	}
	for _, p := range paths {
		if p.EndKind == "loop" {
			return nil // loops: path conditions are not evaluated once
		}
	}
	isErrOnly := func(b *ssa.BasicBlock) bool {
		ret, ok := b.Instrs[len(b.Instrs)-1].(*ssa.Return)
		if !ok || pc.errIdx >= len(ret.Results) {
			return false
		}
		k := returnKinds(ret.Results[pc.errIdx])
		if k == 3 {
			cpf := pe.pf(fn)
			if cpf.knownNonNil(ret.Results[pc.errIdx], cpf.factsAt(b)) {
				k = 2
			}
		}
		return k == 2
	}
	// success paths: paths whose return is not error-only
	var success []*DPath
	for _, p := range paths {
		if p.EndKind != "return" {
			continue
		}
		if !isErrOnly(p.Blocks[len(p.Blocks)-1]) {
			// a named condition tested twice with different outcomes: not an execution
			taken := map[ssa.Value]bool{}
			feasible := true
			for _, pcnd := range p.Conds {
				if pcnd.At == nil {
					continue
				}
				t := takenTruth(p, pcnd.At)
				if prev, ok := taken[pcnd.At.Cond]; ok && prev != t {
					feasible = false
				}
				taken[pcnd.At.Cond] = t
			}
			if feasible {
				success = append(success, p)
			}
		}
	}
	var out []clause
	// error region: blocks from which every path ends in an error-only return
	region := map[*ssa.BasicBlock]bool{}
	for changed := true; changed; {
		changed = false
		for _, b := range fn.Blocks {
			if region[b] {
				continue
			}
			in := false
			if isErrOnly(b) {
				in = true
			} else if len(b.Succs) > 0 {
				in = true
				for _, sx := range b.Succs {
					if !region[sx] {
						in = false
					}
				}
			}
			if in {
				region[b] = true
				changed = true
			}
		}
	}
	// a literal: branch outcome (iff, truth), or - for the computed edge of a named boolean - the value
	// itself having the truth value, as seen at the branch phiIf that tests the merged boolean ph
	type lit struct {
		iff   *ssa.If
		cond  ssa.Value
		truth bool
		ph    *ssa.Phi
		phiIf *ssa.If
	}
	chain := func(x *ssa.BasicBlock) []lit {
		var ls []lit
		for ; x != nil; x = x.Idom() {
			if len(x.Preds) == 1 {
				pr := x.Preds[0]
				if iff, ok := pr.Instrs[len(pr.Instrs)-1].(*ssa.If); ok && pr.Succs[0] != pr.Succs[1] {
					ls = append(ls, lit{iff: iff, cond: iff.Cond, truth: pr.Succs[0] == x})
				}
			}
		}
		return ls
	}
	// expand: a literal on a named boolean (a merge of && / || outcomes) is replaced by the alternatives of
	// primitive outcomes that give it that truth value
	var expand func(l lit, depth int) [][]lit
	expand = func(l lit, depth int) [][]lit {
		ph, ok := l.cond.(*ssa.Phi)
		if !ok || depth > 3 || !isBoolType(ph.Type()) || isLoopHeader(ph.Block()) {
			return [][]lit{{l}}
		}
		base := map[*ssa.If]bool{}
		for _, bl := range chain(ph.Block()) {
			base[bl.iff] = true
		}
		useIf := l.iff
		if useIf == nil {
			useIf = l.phiIf
		}
		var alts [][]lit
		for i, p := range ph.Block().Preds {
			var pathLits []lit
			for _, pl := range chain(p) {
				if !base[pl.iff] {
					pathLits = append(pathLits, pl)
				}
			}
			// the branch at the end of p that leads into the merge
			if iff, ok := p.Instrs[len(p.Instrs)-1].(*ssa.If); ok && p.Succs[0] != p.Succs[1] {
				pathLits = append(pathLits, lit{iff: iff, cond: iff.Cond, truth: p.Succs[0] == ph.Block()})
			}
			ev := ph.Edges[i]
			if k, isK := ev.(*ssa.Const); isK && k.Value != nil && k.Value.Kind() == constant.Bool {
				if constant.BoolVal(k.Value) != l.truth {
					continue
				}
				alts = append(alts, pathLits)
				continue
			}
			for _, sub := range expand(lit{cond: ev, truth: l.truth, ph: ph, phiIf: useIf}, depth+1) {
				alts = append(alts, append(append([]lit{}, pathLits...), sub...))
			}
		}
		// the path literals may themselves test named booleans
		var out [][]lit
		for _, a := range alts {
			sets := [][]lit{nil}
			for _, x := range a {
				var next [][]lit
				var xs [][]lit
				if _, isPhi := x.cond.(*ssa.Phi); isPhi && x.iff != nil {
					xs = expand(x, depth+1)
				} else {
					xs = [][]lit{{x}}
				}
				for _, s0 := range sets {
					for _, e := range xs {
						next = append(next, append(append([]lit{}, s0...), e...))
					}
				}
				sets = next
				if len(sets) > 32 {
					return [][]lit{{l}}
				}
			}
			out = append(out, sets...)
		}
		if len(out) == 0 || len(out) > 32 {
			return [][]lit{{l}}
		}
		return out
	}
	for _, b := range fn.Blocks {
		if !region[b] {
			continue
		}
		// every edge entering the error region from outside is an error edge: the conditions
		// dominating its source plus the edge condition are sufficient for failure
		var litSets [][]lit
		for _, pr := range b.Preds {
			if region[pr] {
				continue
			}
			ls := chain(pr)
			if iff, ok := pr.Instrs[len(pr.Instrs)-1].(*ssa.If); ok && pr.Succs[0] != pr.Succs[1] {
				ls = append(ls, lit{iff: iff, cond: iff.Cond, truth: pr.Succs[0] == b})
			}
			litSets = append(litSets, ls) // as written (a named boolean stays one literal) ...
			// ... and with named booleans taken apart into the outcomes that decide them
			sets := [][]lit{nil}
			for _, x := range ls {
				var next [][]lit
				for _, s0 := range sets {
					for _, e := range expand(x, 0) {
						next = append(next, append(append([]lit{}, s0...), e...))
					}
				}
				sets = next
				if len(sets) > 32 {
					sets = [][]lit{ls}
					break
				}
			}
			if !(len(sets) == 1 && len(sets[0]) == len(ls)) {
				litSets = append(litSets, sets...)
			}
		}
		for _, lits := range litSets {
			// the same outcome may appear twice after expansion
			seenLit := map[string]bool{}
			var uniq []lit
			for _, l := range lits {
				k := fmt.Sprintf("%p/%v", l.cond, l.truth) // (two branches on one named value are one literal)
				if !seenLit[k] {
					seenLit[k] = true
					uniq = append(uniq, l)
				}
			}
			lits = uniq
			taut := false
			for _, l := range lits {
				if seenLit[fmt.Sprintf("%p/%v", l.cond, !l.truth)] {
					taut = true // contradictory conjunction: its negation says nothing
				}
			}
			if taut || len(lits) == 0 || len(lits) > 8 {
				continue
			}
			okAll := true
			for _, sp := range success {
				contradicts := false
				for _, l := range lits {
					if l.iff != nil {
						for _, pcnd := range sp.Conds {
							if pcnd.At == l.iff && takenTruth(sp, pcnd.At) != l.truth {
								contradicts = true
							}
						}
						// a branch on a constant-resolved named boolean leaves no condition on the path: the
						// blocks tell which way it went
						if !contradicts && onPathBlock(sp, l.iff.Block()) && takenTruth(sp, l.iff) != l.truth {
							contradicts = true
						}
						continue
					}
					// computed edge of a named boolean: the success path merged this very value and then
					// branched the other way at the test of the boolean
					if l.ph != nil && l.phiIf != nil && sp.Env.Val(l.ph) == l.cond && onPathBlock(sp, l.phiIf.Block()) && takenTruth(sp, l.phiIf) != l.truth {
						contradicts = true
					}
				}
				if !contradicts {
					okAll = false
					if os.Getenv("VERIF_DEBUG") == "clauses" {
						fmt.Fprintln(os.Stderr, "  NOT CONTRADICTED BY", shorten(sp.CondString(), 900))
					}
					break
				}
			}
			if os.Getenv("VERIF_DEBUG") == "clauses" {
				env := newTermEnv()
				d := ""
				for _, l := range lits {
					d += fmt.Sprintf(" [%v %s iff=%v]", l.truth, atomName(env.Term(l.cond)), l.iff != nil)
				}
				fmt.Fprintln(os.Stderr, "LITSET", funcName(fn), okAll, d)
			}
			if !okAll {
				continue
			}
			var cl clause
			for _, l := range lits {
				cl = append(cl, condAt{l.cond, !l.truth})
			}
			out = append(out, cl)
		}
	}
	out = pe.saturateClauses(fn, out)
	pe.clauses[fn] = out
	return out
}

// saturateClauses adds resolvents: from  A or x  and  B or not x  follows  A or B. Unit propagation at a
// call site cannot split on a literal neither side of which is known there (a named boolean that folds
// "tx != nil" into two different tests); the resolvent no longer mentions it. Bounded: resolvents of at
// most 5 literals, at most 300 clauses, 3 rounds; clauses subsumed by a shorter one are dropped.
func (pe *PEngine) saturateClauses(fn *ssa.Function, in []clause) []clause {
	if len(in) < 2 {
		return in
	}
	pf := pe.pf(fn)
	type nlit struct {
		key   string
		truth bool
		c     condAt
	}
	norm := func(l condAt) nlit {
		k, t := pf.get(l.v).key, l.truth
		if strings.HasPrefix(k, "bin==(") {
			k, t = "bin!=("+strings.TrimPrefix(k, "bin==("), !t
		}
		return nlit{k, t, l}
	}
	type ncl struct {
		lits map[string]nlit // by key
		id   string
	}
	mk := func(ls []nlit) *ncl {
		m := map[string]nlit{}
		for _, l := range ls {
			if prev, dup := m[l.key]; dup && prev.truth != l.truth {
				return nil // tautology
			}
			m[l.key] = l
		}
		var ks []string
		for k, l := range m {
			ks = append(ks, fmt.Sprintf("%v:%s", l.truth, k))
		}
		sort.Strings(ks)
		return &ncl{m, strings.Join(ks, "|")}
	}
	var set []*ncl
	have := map[string]bool{}
	subsumed := func(c *ncl) bool {
		for _, o := range set {
			if len(o.lits) > len(c.lits) {
				continue
			}
			all := true
			for k, l := range o.lits {
				if x, ok := c.lits[k]; !ok || x.truth != l.truth {
					all = false
					break
				}
			}
			if all {
				return true
			}
		}
		return false
	}
	add := func(c *ncl) bool {
		if c == nil || have[c.id] || subsumed(c) {
			return false
		}
		have[c.id] = true
		set = append(set, c)
		return true
	}
	for _, cl := range in {
		var ls []nlit
		for _, l := range cl {
			ls = append(ls, norm(l))
		}
		add(mk(ls))
	}
	for round := 0; round < 3 && len(set) < 300; round++ {
		n := len(set)
		grew := false
		for i := 0; i < n && len(set) < 300; i++ {
			for j := i + 1; j < n && len(set) < 300; j++ {
				a, b := set[i], set[j]
				pivot, count := "", 0
				for k, l := range a.lits {
					if x, ok := b.lits[k]; ok && x.truth != l.truth {
						pivot = k
						count++
					}
				}
				if count != 1 {
					continue
				}
				var ls []nlit
				for k, l := range a.lits {
					if k != pivot {
						ls = append(ls, l)
					}
				}
				for k, l := range b.lits {
					if k != pivot {
						ls = append(ls, l)
					}
				}
				r := mk(ls)
				if r == nil || len(r.lits) > 7 || len(r.lits) == 0 {
					continue
				}
				if add(r) {
					grew = true
				}
			}
		}
		if !grew {
			break
		}
	}
	var out []clause
	for _, c := range set {
		var ks []string
		for k := range c.lits {
			ks = append(ks, k)
		}
		sort.Strings(ks)
		var cl clause
		for _, k := range ks {
			cl = append(cl, c.lits[k].c)
		}
		out = append(out, cl)
	}
	return out
}

// takenTruth: which successor of iff did the path take (true = Succs[0])?
func onPathBlock(p *DPath, b *ssa.BasicBlock) bool {
	for _, x := range p.Blocks {
		if x == b {
			return true
		}
	}
	return false
}

func takenTruth(p *DPath, iff *ssa.If) bool {
	b := iff.Block()
	for i, x := range p.Blocks {
		if x == b && i+1 < len(p.Blocks) {
			return p.Blocks[i+1] == b.Succs[0]
		}
		if x == b && i+1 == len(p.Blocks) && p.Target != nil {
			// the branch leads straight to the block the path stops at
			return p.Target == b.Succs[0]
		}
	}
	return false
}

// applyClauses: unit propagation of the callee's clauses at a call whose error result is nil.
func (pf *pfunc) applyClauses(sc *ssa.Function, ci *ssa.Call, fs *factSet) {
	cls := pf.P.clausesOf(sc)
	if len(cls) == 0 {
		return
	}
	at := pf.posOf[ci]
	sum := pf.P.O.Sums[sc]
	inPhiResolve := false
	var translateRef func(cd condAt) *vn
	translate := func(cd condAt) *vn {
		subst := map[ssa.Value]*vn{}
		for i, p := range sc.Params {
			if i < len(ci.Call.Args) {
				subst[p] = pf.get(ci.Call.Args[i])
			}
		}
		allowed := map[string]bool{}
		for _, a := range subst {
			allowed[a.key] = true
		}
		// an integer merged inside the callee (count := 0; if tx != nil { count = tx.InputCount() }) stands for the
		// incoming value whose way in agrees with what is known at the call
		if !inPhiResolve {
			inPhiResolve = true
			var visit func(v ssa.Value, depth int)
			visit = func(v ssa.Value, depth int) {
				if depth > 3 {
					return
				}
				switch x := v.(type) {
				case *ssa.BinOp:
					visit(x.X, depth+1)
					visit(x.Y, depth+1)
				case *ssa.Convert:
					visit(x.X, depth+1)
				case *ssa.Phi:
					if isIntType(x.Type()) && len(x.Edges) == 2 && subst[x] == nil {
						if e := pf.phiEdgeAtCall(sc, x, translateRef, fs); e != nil {
							pf.inlineDepth++
							subst[x] = pf.numberAt(e, at, subst)
							pf.inlineDepth--
						}
					}
				}
			}
			visit(cd.v, 0)
			inPhiResolve = false
		}
		pf.inlineDepth++
		n := pf.numberAt(cd.v, at, subst)
		pf.inlineDepth--
		if containsOpExcept(n, allowed, 0, "call", "lookup") {
			return nil
		}
		if sum != nil && loadsKilledBy(pf, n, sum, 0) {
			return nil
		}
		return n
	}
	translateRef = translate
	for round := 0; round < 3; round++ {
		before := len(fs.facts)
		for _, cl := range cls {
			unknown := -1
			nUnknown := 0
			usable := true
			for i, lit := range cl {
				n := pf.translateCond(sc, lit, translate)
				if n == nil {
					usable = false
					break
				}
				// is the literal refuted by the current facts?
				tmp := &factSet{}
				for _, f := range fs.facts {
					tmp.add(f)
				}
				for _, c := range n {
					pf.condFacts(c.n, c.truth, "clause literal", tmp, 0)
				}
				if os.Getenv("VERIF_DEBUG") == "2" && strings.Contains(funcName(sc), "validate") {
					for _, c := range n {
						fmt.Fprintf(os.Stderr, "  lit %d: %v %s\n", i, c.truth, c.n.key)
					}
					fmt.Fprintf(os.Stderr, "  facts: %v\n", strings.Join(fs.strings(), " | "))
				}
				if pf.inconsistent(tmp) {
					continue // refuted
				}
				unknown = i
				nUnknown++
			}
			if os.Getenv("VERIF_DEBUG") != "" {
				fmt.Fprintf(os.Stderr, "clause of %s in %s: usable=%v unknown=%d\n", funcName(sc), funcName(pf.fn), usable, nUnknown)
			}
			if !usable || nUnknown != 1 {
				continue
			}
			for _, c := range pf.translateCond(sc, cl[unknown], translate) {
				pf.condFacts(c.n, c.truth, "validation clause of "+funcName(sc)+" (err == nil)", fs, 0)
			}
		}
		if len(fs.facts) == before {
			break
		}
	}
}

type tcond struct {
	n     *vn
	truth bool
}

// translateCond expands a callee literal into a conjunction of translated conditions:
// boolean phis that can take the given truth value through exactly one edge are replaced
// by the conditions that lead to that edge.
func (pf *pfunc) translateCond(sc *ssa.Function, lit condAt, translate func(condAt) *vn) []tcond {
	var out []tcond
	var expand func(v ssa.Value, truth bool, depth int) bool
	expand = func(v ssa.Value, truth bool, depth int) bool {
		if depth > 6 {
			return false
		}
		if u, ok := v.(*ssa.UnOp); ok && u.Op == token.NOT {
			return expand(u.X, !truth, depth+1)
		}
		if ph, ok := v.(*ssa.Phi); ok && isBoolType(ph.Type()) {
			cand := -1
			for i, e := range ph.Edges {
				if c, ok := e.(*ssa.Const); ok && c.Value != nil && c.Value.Kind() == constant.Bool && constant.BoolVal(c.Value) != truth {
					continue
				}
				if cand >= 0 {
					return false
				}
				cand = i
			}
			if cand < 0 {
				return false
			}
			// conditions dominating the chosen predecessor, plus the edge condition
			pred := ph.Block().Preds[cand]
			for x := pred; x != nil; x = x.Idom() {
				if len(x.Preds) == 1 {
					pr := x.Preds[0]
					if iff, ok := pr.Instrs[len(pr.Instrs)-1].(*ssa.If); ok && pr.Succs[0] != pr.Succs[1] {
						if !expand(iff.Cond, pr.Succs[0] == x, depth+1) {
							return false
						}
					}
				}
			}
			if iff, ok := pred.Instrs[len(pred.Instrs)-1].(*ssa.If); ok && pred.Succs[0] != pred.Succs[1] {
				if !expand(iff.Cond, pred.Succs[0] == ph.Block(), depth+1) {
					return false
				}
			}
			if _, isC := ph.Edges[cand].(*ssa.Const); !isC {
				return expand(ph.Edges[cand], truth, depth+1)
			}
			return true
		}
		n := translate(condAt{v, truth})
		if n == nil {
			return false
		}
		out = append(out, tcond{n, truth})
		return true
	}
	if !expand(lit.v, lit.truth, 0) {
		return nil
	}
	return out
}

// containsOpExcept: does n contain a node with one of the ops, not counting sub-terms that
// are (parts of) the caller-side arguments?
func containsOpExcept(n *vn, allowed map[string]bool, depth int, ops ...string) bool {
	if n == nil || depth > 14 || allowed[n.key] {
		return false
	}
	for _, op := range ops {
		if n.op == op {
			return true
		}
	}
	for _, a := range n.args {
		if containsOpExcept(a, allowed, depth+1, ops...) {
			return true
		}
	}
	return false
}

// phiEdgeAtCall: ph is a two-way merge inside callee sc decided by one branch of its immediate dominator; if the
// facts at the call refute one outcome of that branch, the incoming value of the other.
func (pf *pfunc) phiEdgeAtCall(sc *ssa.Function, ph *ssa.Phi, translate func(condAt) *vn, fs *factSet) ssa.Value {
	m := ph.Block()
	d := m.Idom()
	if d == nil || isLoopHeader(m) {
		return nil
	}
	iff, ok := d.Instrs[len(d.Instrs)-1].(*ssa.If)
	if !ok {
		return nil
	}
	side := func(p *ssa.BasicBlock) int {
		if p == d {
			for i, s := range d.Succs {
				if s == m {
					return i
				}
			}
			return -1
		}
		for i, s := range d.Succs {
			if s != m && s.Dominates(p) {
				return i
			}
		}
		return -1
	}
	s0, s1 := side(m.Preds[0]), side(m.Preds[1])
	if s0 < 0 || s1 < 0 || s0 == s1 {
		return nil
	}
	refuted := func(truth bool) bool {
		conds := pf.translateCond(sc, condAt{iff.Cond, truth}, translate)
		if conds == nil {
			return false
		}
		tmp := &factSet{}
		for _, f := range fs.facts {
			tmp.add(f)
		}
		for _, c := range conds {
			pf.condFacts(c.n, c.truth, "merge gate", tmp, 0)
		}
		return pf.inconsistent(tmp)
	}
	switch {
	case refuted(false): // the branch was taken the true way (successor 0)
		if s0 == 0 {
			return ph.Edges[0]
		}
		return ph.Edges[1]
	case refuted(true):
		if s0 == 1 {
			return ph.Edges[0]
		}
		return ph.Edges[1]
	}
	return nil
}

// signedUnderUnsignedConv: n is uintK(s) for a signed integer s of the same width: s.
func signedUnderUnsignedConv(n *vn) (*vn, bool) {
	if n == nil || n.op != "conv" || len(n.args) != 1 {
		return nil, false
	}
	tb, ok1 := n.typ.Underlying().(*types.Basic)
	sb, ok2 := n.args[0].typ.Underlying().(*types.Basic)
	if !ok1 || !ok2 || tb.Info()&types.IsUnsigned == 0 || sb.Info()&types.IsInteger == 0 || sb.Info()&types.IsUnsigned != 0 {
		return nil, false
	}
	w := func(b *types.Basic) int {
		switch b.Kind() {
		case types.Int8, types.Uint8:
			return 8
		case types.Int16, types.Uint16:
			return 16
		case types.Int32, types.Uint32:
			return 32
		}
		return 64
	}
	if w(tb) != w(sb) {
		return nil, false
	}
	return n.args[0], true
}
