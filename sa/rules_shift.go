package main

// T-shift (C05): OP_LSHIFT / OP_RSHIFT byte arithmetic. The helpers lshiftBytes / rshiftBytes build a
// fresh zeroed result of len(x) bytes and OR shifted source bytes into it. Whatever the loop form
// (scatter over source bytes, gather over result bytes), the function is determined by its
// *contributions*: result[I] |= x[J] <</>> A. The rule reads every store into the result as such
// contributions, compares the index relation I-J (a linear form in byteShift), the shift direction and
// the amount with the specification of a big-endian bit shift, and decides that each contribution is
// applied for exactly the positions where both indices are inside the operand, by folding the loop
// bounds and guards on a grid of (len, byteShift, position) - comparisons only, no go-bt code runs.

import (
	"fmt"
	"go/token"
	"math/big"
	"sort"
	"strings"

	"golang.org/x/tools/go/ssa"
)

type shiftContribution struct {
	rel    string // I - J as a linear form
	dir    string // "<<" or ">>"
	amount string // canonical amount term
	i, j   *T
	store  *ssa.Store
}

func ruleTShift(c *Ctx) {
	specs := []struct {
		name string
		want [][3]string // rel, dir, amount (BS = byteShift, b = bitShift)
	}{
		{"lshiftBytes", [][3]string{{"-BS", "<<", "b"}, {"-BS -1", ">>", "8-b"}}},
		{"rshiftBytes", [][3]string{{"BS", ">>", "b"}, {"BS +1", "<<", "8-b"}}},
	}
	n := 0
	for _, sp := range specs {
		fn := c.P.Func("bscript/interpreter", "", sp.name)
		if fn == nil {
			c.Undecided("T-shift", sp.name, token.NoPos, "not found")
			continue
		}
		n += shiftCheck(c, fn, sp.name, sp.want)
	}
	c.MinInstances("T-shift", n, 4)
}

func shiftCheck(c *Ctx, fn *ssa.Function, name string, want [][3]string) int {
	env := newTermEnv()
	x := fn.Params[0]
	// the result: the one make([]byte, len(x)) that every return hands back
	var result ssa.Value
	okRet := true
	for _, b := range fn.Blocks {
		if r, ok := b.Instrs[len(b.Instrs)-1].(*ssa.Return); ok {
			if result == nil {
				result = r.Results[0]
			} else if result != r.Results[0] {
				okRet = false
			}
		}
	}
	mk, isMk := result.(*ssa.MakeSlice)
	okMake := isMk && okRet && atomName(env.Term(mk.Len)) == "len(p0)"
	c.Check(okMake, "T-shift", name+"/fresh-result", fn.Pos(), "every return hands back one zeroed make([]byte, len(x))", name+" does not return a fresh zeroed buffer of the operand's length on every path")
	if !okMake {
		return 1
	}
	// the result is written element by element and handed back, nothing else: a copy() into it, or handing it to
	// a helper, writes bytes the contributions below do not account for
	var fastBlocks []*ssa.BasicBlock // blocks of a whole-byte copy that stands for the contributions at bit shift 0
	if mk.Referrers() != nil {
		for _, r := range *mk.Referrers() {
			switch y := r.(type) {
			case *ssa.IndexAddr, *ssa.Return, *ssa.DebugRef, *ssa.Phi:
			case *ssa.Call:
				if bi, ok := y.Call.Value.(*ssa.Builtin); ok && bi.Name() == "len" {
					continue
				}
				if bi, ok := y.Call.Value.(*ssa.Builtin); ok && bi.Name() == "copy" && y.Call.Args[0] == ssa.Value(mk) {
					why := wholeByteCopy(fn, env, mk, nil, y, want[0][0] == "-BS")
					c.Check(why == "", "T-shift", name+"/whole-byte-copy", y.Pos(), "under bit shift 0 the copy moves exactly the bytes a shift by whole bytes keeps", name+": "+why)
					fastBlocks = append(fastBlocks, y.Block())
					continue
				}
				c.Undecided("T-shift", name+"/other-writes", y.Pos(), name+" hands its result buffer to "+y.Call.Value.Name()+": bytes written there are not read as shift contributions")
				return 2
			default:
				what := fmt.Sprintf("%T", r)
				if sl, ok := r.(*ssa.Slice); ok && sl.Referrers() != nil && len(*sl.Referrers()) == 1 {
					if call, ok := (*sl.Referrers())[0].(*ssa.Call); ok {
						if bi, ok := call.Call.Value.(*ssa.Builtin); ok && bi.Name() == "copy" && call.Call.Args[0] == ssa.Value(sl) {
							why := wholeByteCopy(fn, env, mk, sl, call, want[0][0] == "-BS")
							c.Check(why == "", "T-shift", name+"/whole-byte-copy", call.Pos(), "under bit shift 0 the copy moves exactly the bytes a shift by whole bytes keeps", name+": "+why)
							fastBlocks = append(fastBlocks, call.Block())
							continue
						}
					}
				}
				if sl, ok := r.(*ssa.Slice); ok && sl.Referrers() != nil {
					for _, r2 := range *sl.Referrers() {
						if call, ok := r2.(*ssa.Call); ok {
							what = "a part of it handed to " + call.Call.Value.Name()
						}
					}
				}
				c.Undecided("T-shift", name+"/other-writes", r.Pos(), name+" uses its result buffer in a way that is not an element access ("+what+"): bytes written there are not read as shift contributions")
				return 2
			}
		}
	}
	// a return that does not come after the combining loop hands back zeroes: it may be taken only where no bit of
	// the operand stays in the result (n < 0 or n >= 8*len(x))
	{
		var loopHdr *ssa.BasicBlock
		for _, b := range fn.Blocks {
			if isLoopHeader(b) {
				loopHdr = b
				break
			}
		}
		for _, b := range fn.Blocks {
			r, ok := b.Instrs[len(b.Instrs)-1].(*ssa.Return)
			if !ok || loopHdr == nil || loopHdr.Dominates(b) {
				continue
			}
			viaCopy := false
			for _, fb := range fastBlocks {
				if fb.Dominates(b) {
					viaCopy = true // the bytes were moved by the whole-byte copy checked above
				}
			}
			if viaCopy {
				continue
			}
			early := ""
			for ln := int64(1); ln <= 4 && early == ""; ln++ {
				for nn := int64(0); nn < ln*8 && early == ""; nn++ {
					asg := map[string]*big.Int{"len(p0)": big.NewInt(ln), "p1": big.NewInt(nn)}
					taken := false
					alts, okp := regionPaths(fn.Blocks[0], b, 64)
					if !okp {
						early = "the conditions before the loop cannot be enumerated"
					}
					for _, alt := range alts {
						all := true
						for _, dc := range alt {
							v, ok := evalTerm(env.Term(dc.cond), asg)
							if !ok {
								early = "a condition before the loop is not a function of len(x) and n: " + atomName(env.Term(dc.cond))
								break
							}
							if (v.Sign() != 0) != dc.truth {
								all = false
								break
							}
						}
						if all {
							taken = true
						}
					}
					if early == "" && taken {
						early = fmt.Sprintf("with len(x)=%d and n=%d the function returns before combining any bytes although bits of the operand stay in the result", ln, nn)
					}
				}
			}
			c.Check(early == "", "T-shift", name+"/early-return#"+instrOrdinal(r.Results[0])+fmt.Sprint(b.Index), r.Pos(), "a return ahead of the loop is taken only when the shift leaves nothing (n < 0 or n >= 8*len)", name+": "+early)
		}
	}
	// byteShift = int(n / 8), bitShift = uint(n % 8): recognised by their terms
	const BS = "int((p1 / 8))"
	const BIT = "uint((p1 % 8))"
	rename := func(s string) string {
		s = strings.ReplaceAll(s, BS, "BS")
		return s
	}
	amountOf := func(v ssa.Value) string {
		t := canonTerm(env.Term(v))
		switch t {
		case BIT:
			return "b"
		case "(8 - " + BIT + ")":
			return "8-b"
		}
		return t
	}
	var contribs []shiftContribution
	bad := ""
	for _, b := range fn.Blocks {
		for _, ins := range b.Instrs {
			st, ok := ins.(*ssa.Store)
			if !ok {
				continue
			}
			ia, ok := st.Addr.(*ssa.IndexAddr)
			if !ok || ia.X != result {
				if ok && ia.X == ssa.Value(x) {
					bad = "the operand itself is written"
				}
				continue
			}
			// flatten the OR tree of the stored value
			var leaves []ssa.Value
			var flat func(v ssa.Value)
			flat = func(v ssa.Value) {
				if bo, ok := v.(*ssa.BinOp); ok && bo.Op == token.OR {
					flat(bo.X)
					flat(bo.Y)
					return
				}
				leaves = append(leaves, v)
			}
			flat(st.Val)
			for _, lf := range leaves {
				switch y := lf.(type) {
				case *ssa.UnOp: // the byte already there: result[I]
					if a2, ok := y.X.(*ssa.IndexAddr); !ok || y.Op != token.MUL || a2.X != result || canonTerm(env.Term(a2.Index)) != canonTerm(env.Term(ia.Index)) {
						bad = "a result byte is combined with something other than its own previous value: " + atomName(env.Term(lf))
					}
				case *ssa.BinOp:
					if y.Op != token.SHL && y.Op != token.SHR {
						bad = "a result byte receives " + atomName(env.Term(lf))
						continue
					}
					src := y.X
					if cv, ok := src.(*ssa.Convert); ok {
						src = cv.X
					}
					ld, ok := src.(*ssa.UnOp)
					var ja *ssa.IndexAddr
					if ok && ld.Op == token.MUL {
						ja, _ = ld.X.(*ssa.IndexAddr)
					}
					if ja == nil || ja.X != ssa.Value(x) {
						bad = "a shifted value is not a byte of the operand: " + atomName(env.Term(y.X))
						continue
					}
					it, jt := env.Term(ia.Index), env.Term(ja.Index)
					rel := substCounters(fn, env, linOf(it, rename).add(linOf(jt, rename), -1), rename)
					contribs = append(contribs, shiftContribution{rel: rel.String(), dir: y.Op.String(), amount: amountOf(y.Y), i: it, j: jt, store: st})
				default:
					if k, isK := lf.(*ssa.Const); isK && k.Value != nil {
						if v, ok := constValInt(k.Value); ok && v.Sign() == 0 {
							continue
						}
					}
					bad = "a result byte receives " + atomName(env.Term(lf))
				}
			}
		}
	}
	c.Check(bad == "", "T-shift", name+"/stores", fn.Pos(), "every store ORs shifted operand bytes into the result byte's previous value", name+": "+bad)
	// the set of contributions
	got := map[string]bool{}
	for _, ct := range contribs {
		got[ct.rel+" | "+ct.dir+" | "+ct.amount] = true
	}
	wantSet := map[string]bool{}
	for _, w := range want {
		wantSet[w[0]+" | "+w[1]+" | "+w[2]] = true
	}
	same := len(got) == len(wantSet)
	for k := range got {
		if !wantSet[k] {
			same = false
		}
	}
	c.Check(same, "T-shift", name+"/contributions", fn.Pos(), fmt.Sprintf("result[I] receives x[J] shifted: {I-J | direction | amount} = %v (BS = n/8 bytes, b = n%%8 bits)", keysSorted(got)),
		fmt.Sprintf("%s combines operand bytes as %v, a big-endian shift by n bits is %v (I-J | direction | amount; BS = n/8, b = n%%8)", name, keysSorted(got), keysSorted(wantSet)))
	// coverage: each contribution is applied exactly where both positions lie inside the operand
	cells, badCov := 0, ""
	for _, ct := range contribs {
		// the loop: every header variable counts upwards by one from its start (position t = 0, 1, ...)
		bases := map[string]*T{}
		baseTerms(ct.i, bases)
		baseTerms(ct.j, bases)
		var header *ssa.BasicBlock
		for _, t := range bases {
			if p, ok := t.V.(*ssa.Phi); ok && isLoopHeader(p.Block()) {
				header = p.Block()
			}
		}
		if header == nil {
			c.Undecided("T-shift", name+"/coverage", ct.store.Pos(), "no loop position found in the indices of a contribution")
			return 3
		}
		counters := map[string]*T{} // phi term -> term of its start value
		stepOK := true
		for _, ins := range header.Instrs {
			ph, ok := ins.(*ssa.Phi)
			if !ok {
				break
			}
			for i, p := range header.Preds {
				if header.Dominates(p) {
					bo, ok := ph.Edges[i].(*ssa.BinOp)
					if !ok || bo.Op != token.ADD || bo.X != ssa.Value(ph) {
						stepOK = false
					} else if k, isK := constInt(bo.Y); !isK || k.Int64() != 1 {
						stepOK = false
					}
				} else {
					counters[env.Term(ph).String()] = env.Term(ph.Edges[i])
				}
			}
		}
		iff, isIf := header.Instrs[len(header.Instrs)-1].(*ssa.If)
		if !stepOK || len(counters) == 0 || !isIf {
			c.Undecided("T-shift", name+"/coverage", ct.store.Pos(), "the loop does not count its positions upwards by one")
			return 3
		}
		_ = iff
		// the conditions between the loop test and the store, as alternatives (paths) of branch outcomes
		paths, okp := regionPaths(header, ct.store.Block(), 64)
		if !okp || len(paths) == 0 {
			c.Undecided("T-shift", name+"/coverage", ct.store.Pos(), "the conditions guarding a store into the result cannot be enumerated")
			return 3
		}
		for ln := int64(1); ln <= 4; ln++ {
			for bs := int64(0); bs < ln; bs++ {
				for v := int64(-2); v <= ln+2; v++ {
					asg := map[string]*big.Int{"len(p0)": big.NewInt(ln), BS: big.NewInt(bs)}
					ev := func(t *T) (int64, bool) {
						r, ok := evalTerm(t, asg)
						if !ok {
							return 0, false
						}
						return r.Int64(), true
					}
					okInit := true
					for k, it := range counters {
						iv, ok := ev(it)
						if !ok {
							okInit = false
						}
						asg[k] = big.NewInt(iv + v)
					}
					iv, ok1 := ev(ct.i)
					jv, ok2 := ev(ct.j)
					if !ok1 || !ok2 || !okInit {
						c.Undecided("T-shift", name+"/coverage", ct.store.Pos(), "an index or the loop start is not a function of len(x), n/8 and the loop position")
						return 3
					}
					applied := false
					if v >= 0 {
						for _, p := range paths {
							all := true
							for _, dc := range p {
								cv, ok := ev(env.Term(dc.cond))
								if !ok {
									c.Undecided("T-shift", name+"/coverage", ct.store.Pos(), "a condition inside the loop is not a function of len(x), n/8 and the loop position: "+atomName(env.Term(dc.cond)))
									return 3
								}
								if (cv != 0) != dc.truth {
									all = false
								}
							}
							if all {
								applied = true
							}
						}
					}
					required := iv >= 0 && iv < ln && jv >= 0 && jv < ln
					cells++
					if applied != required && badCov == "" {
						badCov = fmt.Sprintf("contribution result[%s] <- x[%s] %s %s: with len(x)=%d, n/8=%d, iteration %d it is %s but both bytes %s", atomName(ct.i), atomName(ct.j), ct.dir, ct.amount, ln, bs, v,
							map[bool]string{true: "applied", false: "skipped"}[applied], map[bool]string{true: "exist", false: "do not both exist"}[required])
					}
				}
			}
		}
	}
	c.Covered["T-shift:"+name+":coverage_cells"] = cells
	c.Check(badCov == "" && len(contribs) > 0, "T-shift", name+"/coverage", fn.Pos(), fmt.Sprintf("every contribution is applied exactly where source and destination byte exist (%d cells: len 1..4, n/8 < len, positions -2..len+2)", cells),
		name+": "+badCov)
	var ks []string
	for k := range got {
		ks = append(ks, k)
	}
	sort.Strings(ks)
	return 4
}

// substCounters rewrites every loop variable that counts upwards by one as its start value plus a
// common iteration count T, so that index relations between two such variables become constants.
func substCounters(fn *ssa.Function, env *TermEnv, l *TLin, rename func(string) string) *TLin {
	out := newTLin()
	out.Const.Set(l.Const)
	for a, co := range l.Coef {
		var repl *TLin
		for _, b := range fn.Blocks {
			if !isLoopHeader(b) {
				continue
			}
			for _, ins := range b.Instrs {
				ph, ok := ins.(*ssa.Phi)
				if !ok {
					break
				}
				if rename(atomName(env.Term(ph))) != a || !phiStepsByOne(ph, b) {
					continue
				}
				for i, p := range b.Preds {
					if !b.Dominates(p) {
						repl = linOf(env.Term(ph.Edges[i]), rename)
						repl.addAtom("T", big.NewInt(1))
					}
				}
			}
		}
		if repl == nil {
			out.addAtom(a, co)
			continue
		}
		out = out.add(repl.scale(co), 1)
	}
	return out
}

// wholeByteCopy: copy(result[a:ah], x[b:bh]) standing for a shift by whole bytes. It must sit under bitShift == 0,
// and on the grid (len 1..4, byteShift < len) move exactly the bytes the shift keeps: a left shift is
// result[k] = x[k+BS] for k < len-BS (a = 0, b = BS), a right shift result[i] = x[i-BS] for i >= BS (a = BS,
// b = 0), in both cases len-BS bytes. Returns "" or what differs.
func wholeByteCopy(fn *ssa.Function, env *TermEnv, mk *ssa.MakeSlice, dst *ssa.Slice, call *ssa.Call, left bool) string {
	const BS = "int((p1 / 8))"
	const BIT = "uint((p1 % 8))"
	guarded := false
	for _, dc := range dominatingConds(call.Block()) {
		a, flip := canonAtom(canonTerm(env.Term(dc.cond)))
		if (a == "("+BIT+" == 0)" || a == "((p1 % 8) == 0)") && dc.truth != flip {
			guarded = true
		}
	}
	if !guarded {
		return "a copy into the result that does not stand under bit shift == 0 (n % 8 == 0)"
	}
	src := call.Call.Args[1]
	var srcSl *ssa.Slice
	if sl, ok := src.(*ssa.Slice); ok {
		srcSl, src = sl, sl.X
	}
	if src != ssa.Value(fn.Params[0]) {
		return "the bytes copied into the result are not the operand's"
	}
	for ln := int64(1); ln <= 4; ln++ {
		for bs := int64(0); bs < ln; bs++ {
			asg := map[string]*big.Int{"len(p0)": big.NewInt(ln), BS: big.NewInt(bs), "p1": big.NewInt(8 * bs)}
			bound := func(v ssa.Value, def int64) (int64, bool) {
				if v == nil {
					return def, true
				}
				r, ok := evalTerm(env.Term(v), asg)
				if !ok {
					return 0, false
				}
				return r.Int64(), true
			}
			a, ah, b, bh := int64(0), ln, int64(0), ln
			ok := true
			if dst != nil {
				var o1, o2 bool
				a, o1 = bound(dst.Low, 0)
				ah, o2 = bound(dst.High, ln)
				ok = ok && o1 && o2
			}
			if srcSl != nil {
				var o1, o2 bool
				b, o1 = bound(srcSl.Low, 0)
				bh, o2 = bound(srcSl.High, ln)
				ok = ok && o1 && o2
			}
			if !ok {
				return "the bounds of the copy are not functions of len(x) and n/8"
			}
			if a < 0 || a > ah || ah > ln || b < 0 || b > bh || bh > ln {
				return fmt.Sprintf("with len(x)=%d, n/8=%d the copy's slices are out of range (result[%d:%d], x[%d:%d])", ln, bs, a, ah, b, bh)
			}
			cnt := ah - a
			if bh-b < cnt {
				cnt = bh - b
			}
			wa, wb := int64(0), bs
			if !left {
				wa, wb = bs, 0
			}
			if a != wa || b != wb || cnt != ln-bs {
				dir := "right"
				if left {
					dir = "left"
				}
				return fmt.Sprintf("with len(x)=%d, n/8=%d the copy moves %d bytes from x[%d:] to result[%d:]; a %s shift by whole bytes moves %d bytes from x[%d:] to result[%d:]", ln, bs, cnt, b, a, dir, ln-bs, wb, wa)
			}
		}
	}
	return ""
}
