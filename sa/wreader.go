package main

// Engine W, reader side: the success path of a loop-free ReadFrom-shaped function as
// a sequence of layout items in the writer's vocabulary. Every consuming call is
// matched with the decoding applied to the bytes it read and with the struct field
// that finally receives the value.

import (
	"fmt"
	"go/constant"
	"go/token"
	"go/types"
	"regexp"
	"sort"
	"strings"

	"golang.org/x/tools/go/ssa"
)

// sinkOf follows a value (buffer or decoded number) to the struct field of the receiver it is
// stored into, recording the decoding steps on the way.
func sinkOf(v ssa.Value, depth int, seen map[ssa.Value]bool) (field string, steps []string) {
	if depth > 10 || v == nil || seen[v] || v.Referrers() == nil {
		return "", nil
	}
	seen[v] = true
	for _, r := range *v.Referrers() {
		switch x := r.(type) {
		case *ssa.Store:
			if x.Val != v {
				continue
			}
			if fa, ok := x.Addr.(*ssa.FieldAddr); ok {
				if _, isParam := fa.X.(*ssa.Parameter); isParam {
					return fieldName(fa.X.Type(), fa.Field), nil
				}
			}
			if al, ok := x.Addr.(*ssa.Alloc); ok {
				// through a local variable: loads of it
				for _, rr := range *al.Referrers() {
					if ld, ok := rr.(*ssa.UnOp); ok && ld.Op == token.MUL {
						if f, st := sinkOf(ld, depth+1, seen); f != "" {
							return f, st
						}
					}
				}
			}
		case *ssa.Call:
			sc := x.Call.StaticCallee()
			if sc == nil {
				continue
			}
			n := sc.Name()
			full := sc.String()
			switch {
			case strings.HasPrefix(n, "Uint") && strings.Contains(full, "encoding/binary"):
				end := "LE"
				if strings.Contains(full, "bigEndian") {
					end = "BE"
				}
				if f, st := sinkOf(x, depth+1, seen); f != "" {
					return f, append([]string{end + strings.TrimPrefix(n, "Uint")}, st...)
				}
			case n == "ReverseBytes":
				if f, st := sinkOf(x, depth+1, seen); f != "" {
					return f, append([]string{"Rev"}, st...)
				}
			case n == "NewFromBytes":
				if f, st := sinkOf(x, depth+1, seen); f != "" {
					return f, append([]string{"Script"}, st...)
				}
			}
		case *ssa.Convert:
			if f, st := sinkOf(x, depth+1, seen); f != "" {
				return f, st
			}
		case *ssa.ChangeType:
			if f, st := sinkOf(x, depth+1, seen); f != "" {
				return f, st
			}
		case *ssa.UnOp:
			if x.Op == token.MUL { // *ptr (copy of a Script value)
				if f, st := sinkOf(x, depth+1, seen); f != "" {
					return f, st
				}
			}
		case *ssa.Extract:
			if x.Index == 0 {
				if f, st := sinkOf(x, depth+1, seen); f != "" {
					return f, st
				}
			}
		case *ssa.MakeInterface, *ssa.Slice:
			if rv, ok := r.(ssa.Value); ok {
				if f, st := sinkOf(rv, depth+1, seen); f != "" {
					return f, st
				}
			}
		}
	}
	return "", nil
}

// readerLayout: the layout read by fn on its success path under a parameter valuation.
func readerLayout(c *Ctx, fn *ssa.Function, boolParams map[int]bool) *Lay {
	w := newWEval(c.P, fn)
	for i, v := range boolParams {
		w.consts[fn.Params[i]] = constant.MakeBool(v)
	}
	paths, err := enumPaths(fn.Blocks[0], nil, nil, 4096)
	if err != nil {
		return unk("cannot enumerate paths: %v", err)
	}
	var success []*DPath
	for _, d := range paths {
		if d.EndKind != "return" || d.Ret == nil {
			continue
		}
		n := len(d.Ret.Results)
		et := d.Env.Term(d.Ret.Results[n-1])
		if !(et.K == "const" && et.C == nil) {
			continue
		}
		dead := false
		for _, pc := range d.Conds {
			if pc.At == nil {
				continue
			}
			if cv, ok := w.constBool(pc.At.Cond); ok && takenTruth(d, pc.At) != cv {
				dead = true
			}
		}
		if !dead {
			success = append(success, d)
		}
	}
	if len(success) != 1 {
		return unk("%d success paths (expected one under the valuation)", len(success))
	}
	var items []*Lay
	var pendingVarint string // alloc name of the last var-int read, waiting for its data
	for _, ins := range pathInstrs(success[0]) {
		call, ok := ins.(*ssa.Call)
		if !ok {
			continue
		}
		idx, isConsume := consumeIndex(call)
		if !isConsume {
			continue
		}
		_ = idx
		sc := call.Call.StaticCallee()
		switch {
		case sc.String() == "io.ReadFull":
			buf := call.Call.Args[1]
			n := -1
			if sl, ok := buf.(*ssa.Slice); ok {
				if al, ok := sl.X.(*ssa.Alloc); ok && al.Comment == "makeslice" {
					n = int(al.Type().Underlying().(*types.Pointer).Elem().Underlying().(*types.Array).Len())
				}
			}
			if n < 0 {
				items = append(items, unk("read into a buffer of unknown size"))
				continue
			}
			f, steps := sinkOf(buf, 0, map[ssa.Value]bool{})
			switch {
			case f == "":
				items = append(items, unk("%d bytes read but stored in no field", n))
			case len(steps) > 0 && strings.HasPrefix(steps[0], "LE"):
				wd := 0
				fmt.Sscanf(steps[0], "LE%d", &wd)
				if wd/8 != n {
					items = append(items, unk("%d bytes decoded as %s", n, steps[0]))
				} else {
					items = append(items, le(n, "p0."+f))
				}
			case len(steps) > 0 && strings.HasPrefix(steps[0], "BE"):
				items = append(items, &Lay{K: "be", W: n, S: "p0." + f})
			case len(steps) > 0 && steps[0] == "Rev":
				if n != 32 {
					items = append(items, unk("reversed field of %d bytes", n))
				} else {
					items = append(items, rev("p0."+f))
				}
			default:
				items = append(items, &Lay{K: "raw", S: fmt.Sprintf("p0.%s[%d]", f, n)})
			}
		case funcName(sc) == "(*bt.VarInt).ReadFrom":
			if al, ok := call.Call.Args[0].(*ssa.Alloc); ok {
				pendingVarint = "v" + instrOrdinal(al)
			} else {
				items = append(items, unk("var-int read into a non-local"))
			}
		case funcName(sc) == "bt.readBytes":
			// the count must be the var-int just read
			cnt := call.Call.Args[1]
			okCount := false
			for i := 0; i < 3; i++ {
				if cv, ok := cnt.(*ssa.Convert); ok {
					cnt = cv.X
				} else if ct, ok := cnt.(*ssa.ChangeType); ok {
					cnt = ct.X
				}
			}
			if ld, ok := cnt.(*ssa.UnOp); ok {
				if al, ok := ld.X.(*ssa.Alloc); ok && "v"+instrOrdinal(al) == pendingVarint {
					okCount = true
				}
			}
			f, steps := sinkOf(call, 0, map[ssa.Value]bool{})
			if !okCount || f == "" || len(steps) == 0 || steps[0] != "Script" {
				items = append(items, unk("data read whose length is not the preceding var-int or which is not stored as a script field (%s %v)", f, steps))
			} else {
				items = append(items, vi("len(*p0."+f+")"), raw("*p0."+f))
			}
			pendingVarint = ""
		default:
			items = append(items, &Lay{K: "unk", S: "nested reader " + funcName(sc)})
		}
	}
	if pendingVarint != "" {
		items = append(items, unk("var-int read but never used as a length"))
	}
	return seqOf(items...)
}

func specReaderInput(extended bool) *Lay {
	l := seqOf(rev("p0.previousTxID"), le(4, "p0.PreviousTxOutIndex"), vi("len(*p0.UnlockingScript)"), raw("*p0.UnlockingScript"), le(4, "p0.SequenceNumber"))
	if extended {
		l = seqOf(l, le(8, "p0.PreviousTxSatoshis"), vi("len(*p0.PreviousTxScript)"), raw("*p0.PreviousTxScript"))
	}
	return l
}

func ruleWRd(c *Ctx) {
	pEngine(c)
	discoverConsumers(c)
	if fn := c.P.Func("", "*Output", "ReadFrom"); fn != nil {
		compareLayout(c, "W-rd", "Output.ReadFrom", fn, readerLayout(c, fn, nil), specOutput("p0"), nil)
	} else {
		c.Undecided("W-rd", "Output.ReadFrom", token.NoPos, "not found")
	}
	if fn := c.P.Func("", "*Input", "readFrom"); fn != nil {
		compareLayout(c, "W-rd", "Input.readFrom(extended=false)", fn, readerLayout(c, fn, map[int]bool{2: false}), specReaderInput(false), nil)
		compareLayout(c, "W-rd", "Input.readFrom(extended=true)", fn, readerLayout(c, fn, map[int]bool{2: true}), specReaderInput(true), nil)
	} else {
		c.Undecided("W-rd", "Input.readFrom", token.NoPos, "not found")
	}
	ruleWRdTx(c)
	// the public wrappers select the mode
	for name, ext := range map[string]bool{"ReadFrom": false, "ReadFromExtended": true} {
		fn := c.P.Func("", "*Input", name)
		if fn == nil {
			c.Undecided("W-rd", "Input."+name, token.NoPos, "not found")
			continue
		}
		ok := false
		for _, b := range fn.Blocks {
			for _, ins := range b.Instrs {
				if call, isC := ins.(*ssa.Call); isC && call.Call.StaticCallee() != nil && call.Call.StaticCallee().Name() == "readFrom" {
					if k, isK := call.Call.Args[2].(*ssa.Const); isK && k.Value != nil && constant.BoolVal(k.Value) == ext {
						ok = true
					}
				}
			}
		}
		c.Check(ok, "W-rd", "Input."+name+"/mode", fn.Pos(), fmt.Sprintf("delegates to readFrom(extended=%v)", ext), "wrapper does not select the expected format")
	}
}

// ---------------------------------------------------------------------
// Tx.ReadFrom: success paths over the loop-reduced CFG

type redPath struct {
	conds  []string
	events []string
}

// reducedPaths enumerates success paths where each natural loop is taken as one step.
func reducedPaths(c *Ctx, fn *ssa.Function) ([]redPath, error) {
	w := newWEval(c.P, fn)
	w.allocEpoch = map[*ssa.Alloc]int{}
	var out []redPath
	type state struct {
		conds, events []string
		phi           map[*ssa.Phi]ssa.Value
		epoch         map[*ssa.Alloc]int
	}
	var walk func(b, prev *ssa.BasicBlock, st state, depth int) error
	var objDesc func(v ssa.Value) string
	describeCall := func(call *ssa.Call, phi map[*ssa.Phi]ssa.Value) string {
		sc := call.Call.StaticCallee()
		if sc == nil {
			return ""
		}
		argDesc := func(v ssa.Value) string {
			if ph, ok := v.(*ssa.Phi); ok {
				if ch, ok := phi[ph]; ok {
					v = ch
				}
			}
			if k, ok := v.(*ssa.Const); ok && k.Value != nil {
				return k.Value.ExactString()
			}
			return w.term(v)
		}
		switch {
		case sc.String() == "io.ReadFull":
			n, name := -1, "?"
			if sl, ok := call.Call.Args[1].(*ssa.Slice); ok {
				if al, ok := sl.X.(*ssa.Alloc); ok && al.Comment == "makeslice" {
					n = int(al.Type().Underlying().(*types.Pointer).Elem().Underlying().(*types.Array).Len())
					name = bufferName(sl)
				}
			}
			return fmt.Sprintf("Read%d(%s)", n, name)
		case funcName(sc) == "(*bt.VarInt).ReadFrom":
			if al, ok := call.Call.Args[0].(*ssa.Alloc); ok {
				return "VarInt(" + al.Comment + ")"
			}
			return "VarInt(?)"
		case funcName(sc) == "(*bt.Input).readFrom":
			return "Input.readFrom(" + objDesc(call.Call.Args[0]) + ",extended=" + argDesc(call.Call.Args[2]) + ")"
		default:
			if _, ok := consumeIndex(call); ok {
				recv := ""
				if sc.Signature.Recv() != nil && len(call.Call.Args) > 0 {
					recv = "(" + objDesc(call.Call.Args[0]) + ")"
				}
				return strings.TrimPrefix(funcName(sc), "(*bt.") + recv
			}
		}
		return ""
	}
	var curEpoch map[*ssa.Alloc]int
	var curLoop map[*ssa.BasicBlock]bool
	freshNames := map[*ssa.Alloc]string{}
	// objDesc names the object a reader fills / an append stores: "fresh<k>" for a new(T)
	// executed inside the loop being summarised (one object per iteration), "hoisted:<name>"
	// for one allocated outside it (shared by all iterations).
	objDesc = func(v ssa.Value) string {
		al, ok := v.(*ssa.Alloc)
		if !ok || !al.Heap {
			return w.term(v)
		}
		if curLoop != nil && curLoop[al.Block()] {
			if _, ok := freshNames[al]; !ok {
				freshNames[al] = fmt.Sprintf("fresh%d", len(freshNames)+1)
			}
			return freshNames[al]
		}
		if curLoop == nil {
			return "obj:" + al.Comment
		}
		return "hoisted:" + al.Comment
	}
	// inlineHelper: a consuming call to another method of the same receiver object (a part of
	// the reader moved into a helper) contributes the helper's own events, its parameters
	// replaced by the arguments. Only helpers with exactly one unconditional success path.
	inlineHelper := func(call *ssa.Call, phi map[*ssa.Phi]ssa.Value) ([]string, bool) {
		sc := call.Call.StaticCallee()
		if sc == nil || sc.Blocks == nil || sc.Signature.Recv() == nil || len(fn.Params) == 0 || len(call.Call.Args) == 0 {
			return nil, false
		}
		if _, ok := consumeIndex(call); !ok || call.Call.Args[0] != ssa.Value(fn.Params[0]) || sc == fn || c.inlineDepth > 2 {
			return nil, false
		}
		c.inlineDepth++
		ps, err := reducedPaths(c, sc)
		c.inlineDepth--
		if err != nil || len(ps) != 1 || len(ps[0].conds) != 0 {
			return nil, false
		}
		var out []string
		for _, e := range ps[0].events {
			for i := range sc.Params {
				if i == 0 || i >= len(call.Call.Args) {
					continue
				}
				a := call.Call.Args[i]
				if ph, ok := a.(*ssa.Phi); ok {
					if ch, ok := phi[ph]; ok {
						a = ch
					}
				}
				ad := w.term(a)
				if k, ok := a.(*ssa.Const); ok && k.Value != nil {
					ad = k.Value.ExactString()
				}
				e = regexp.MustCompile(fmt.Sprintf(`\bp%d\b`, i)).ReplaceAllString(e, strings.ReplaceAll(ad, "$", "$$"))
			}
			out = append(out, e)
		}
		return out, true
	}
	blockEvents := func(b *ssa.BasicBlock, phi map[*ssa.Phi]ssa.Value) []string {
		var ev []string
		for _, ins := range b.Instrs {
			switch x := ins.(type) {
			case *ssa.Call:
				if inl, ok := inlineHelper(x, phi); ok {
					ev = append(ev, inl...)
					continue
				}
				if d := describeCall(x, phi); d != "" {
					ev = append(ev, d)
					if sc := x.Call.StaticCallee(); sc != nil && funcName(sc) == "(*bt.VarInt).ReadFrom" && curEpoch != nil {
						if al, ok := x.Call.Args[0].(*ssa.Alloc); ok {
							curEpoch[al]++
						}
					}
				}
				if bi, ok := x.Call.Value.(*ssa.Builtin); ok && bi.Name() == "append" {
					// tx.Inputs = append(tx.Inputs, input)
					if f := appendTargetField(x); f != "" {
						var vals []string
						for _, av := range appendedValues(x) {
							vals = append(vals, objDesc(av))
						}
						ev = append(ev, "append("+f+"<-"+strings.Join(vals, ",")+")")
					}
				}
			case *ssa.Store:
				if fa, ok := x.Addr.(*ssa.FieldAddr); ok {
					if _, isP := fa.X.(*ssa.Parameter); isP {
						f := fieldName(fa.X.Type(), fa.Field)
						if f == "Inputs" || f == "Outputs" {
							continue // reported through append
						}
						ev = append(ev, f+"="+decodeDesc(x.Val))
					}
				}
			}
		}
		return ev
	}
	walk = func(b, prev *ssa.BasicBlock, st state, depth int) error {
		if depth > 200 {
			return fmt.Errorf("path too long")
		}
		phi := copyPhi(st.phi)
		if prev != nil {
			for i, p := range b.Preds {
				if p != prev {
					continue
				}
				for _, ins := range b.Instrs {
					if ph, ok := ins.(*ssa.Phi); ok {
						v := ph.Edges[i]
						if p2, ok := v.(*ssa.Phi); ok {
							if ch, ok := phi[p2]; ok {
								v = ch
							}
						}
						phi[ph] = v
					}
				}
			}
		}
		st.phi = phi
		ep := map[*ssa.Alloc]int{}
		for k, v := range st.epoch {
			ep[k] = v
		}
		st.epoch = ep
		curEpoch = ep
		w.allocEpoch = ep
		if isLoopHeader(b) {
			var latches []*ssa.BasicBlock
			for _, p := range b.Preds {
				if b.Dominates(p) {
					latches = append(latches, p)
				}
			}
			in := loopBlocks(b, latches)
			// loop summary: events of the body blocks in index order, count from the header test
			var body []string
			curLoop = in
			freshNames = map[*ssa.Alloc]string{}
			defer func() { curLoop = nil }()
			for _, lb := range b.Parent().Blocks {
				if in[lb] && lb != b {
					body = append(body, blockEvents(lb, phi)...)
				}
			}
			cnt := "?"
			if iff, ok := b.Instrs[len(b.Instrs)-1].(*ssa.If); ok {
				cnt = w.term(iff.Cond)
				// a loop counting down from N to 0 runs as often as one counting up from 0 to N
				if bo, isBo := iff.Cond.(*ssa.BinOp); isBo && (bo.Op == token.GTR || bo.Op == token.NEQ) && isZeroConst(bo.Y) {
					if ph, isPh := bo.X.(*ssa.Phi); isPh && ph.Block() == b {
						var init ssa.Value
						down := true
						for i, p := range b.Preds {
							if b.Dominates(p) {
								sub, isSub := ph.Edges[i].(*ssa.BinOp)
								if !isSub || sub.Op != token.SUB || sub.X != ssa.Value(ph) {
									down = false
								} else if k, isK := constInt(sub.Y); !isK || k.Int64() != 1 {
									down = false
								}
							} else {
								init = ph.Edges[i]
							}
						}
						if down && init != nil {
							cnt = "(i < " + w.term(init) + ")"
						}
					}
				}
			}
			st.events = append(append([]string{}, st.events...), "Loop["+cnt+"]{"+strings.Join(body, "; ")+"}")
			for _, s := range b.Succs {
				if !in[s] {
					return walk(s, b, st, depth+1)
				}
			}
			return fmt.Errorf("loop without exit from its header")
		}
		st.events = append(append([]string{}, st.events...), blockEvents(b, phi)...)
		switch x := b.Instrs[len(b.Instrs)-1].(type) {
		case *ssa.Return:
			n := len(x.Results)
			if isErrorType(x.Results[n-1].Type()) {
				if k, ok := x.Results[n-1].(*ssa.Const); ok && k.Value == nil {
					out = append(out, redPath{conds: st.conds, events: st.events})
				}
			}
			return nil
		case *ssa.Jump:
			return walk(b.Succs[0], b, st, depth+1)
		case *ssa.If:
			cond := x.Cond
			if ph, ok := cond.(*ssa.Phi); ok {
				if ch, ok := phi[ph]; ok {
					cond = ch
				}
			}
			if k, ok := cond.(*ssa.Const); ok && k.Value != nil && k.Value.Kind() == constant.Bool {
				if constant.BoolVal(k.Value) {
					return walk(b.Succs[0], b, st, depth+1)
				}
				return walk(b.Succs[1], b, st, depth+1)
			}
			t := w.term(cond)
			isErrCheck := strings.Contains(t, "!= nil") || strings.Contains(t, "== nil")
			for i, s := range b.Succs {
				ns := st
				if !isErrCheck {
					lit := t
					if i == 1 {
						lit = "!" + t
					}
					ns.conds = append(append([]string{}, st.conds...), lit)
				}
				if err := walk(s, b, ns, depth+1); err != nil {
					return err
				}
			}
			return nil
		}
		return nil
	}
	err := walk(fn.Blocks[0], nil, state{phi: map[*ssa.Phi]ssa.Value{}, epoch: map[*ssa.Alloc]int{}}, 0)
	return out, err
}

func bufferName(sl *ssa.Slice) string {
	// the source variable holding the buffer: look for a DebugRef or use the alloc ordinal
	if sl.Referrers() != nil {
		for _, r := range *sl.Referrers() {
			if d, ok := r.(*ssa.DebugRef); ok {
				if id, ok := d.Expr.(interface{ String() string }); ok {
					return id.String()
				}
			}
		}
	}
	return "buf" + instrOrdinal(sl)
}

func appendTargetField(call *ssa.Call) string {
	if call.Referrers() == nil {
		return ""
	}
	for _, r := range *call.Referrers() {
		if st, ok := r.(*ssa.Store); ok {
			if fa, ok := st.Addr.(*ssa.FieldAddr); ok {
				return fieldName(fa.X.Type(), fa.Field)
			}
			if _, ok := st.Addr.(*ssa.Parameter); ok {
				return "*self"
			}
		}
	}
	return ""
}

// appendedValues lists the values of a variadic append(s, v1, v2...) as stored into the
// compiler-made argument array.
func appendedValues(call *ssa.Call) []ssa.Value {
	if len(call.Call.Args) != 2 {
		return nil
	}
	sl, ok := call.Call.Args[1].(*ssa.Slice)
	if !ok {
		return []ssa.Value{call.Call.Args[1]}
	}
	al, ok := sl.X.(*ssa.Alloc)
	if !ok || al.Referrers() == nil {
		return []ssa.Value{sl.X}
	}
	var out []ssa.Value
	for _, r := range *al.Referrers() {
		if ia, ok := r.(*ssa.IndexAddr); ok && ia.Referrers() != nil {
			for _, rr := range *ia.Referrers() {
				if st, ok := rr.(*ssa.Store); ok && st.Addr == ssa.Value(ia) {
					out = append(out, st.Val)
				}
			}
		}
	}
	return out
}

func decodeDesc(v ssa.Value) string {
	switch x := v.(type) {
	case *ssa.Call:
		if sc := x.Call.StaticCallee(); sc != nil && strings.Contains(sc.String(), "encoding/binary") {
			end := "LE"
			if strings.Contains(sc.String(), "bigEndian") {
				end = "BE"
			}
			arg := "?"
			if sl, ok := x.Call.Args[1].(*ssa.Slice); ok {
				arg = bufferName(sl)
			}
			return end + strings.TrimPrefix(sc.Name(), "Uint") + "(" + arg + ")"
		}
	case *ssa.Convert:
		return decodeDesc(x.X)
	case *ssa.Const:
		if x.Value != nil {
			return x.Value.ExactString()
		}
		return "zero"
	}
	return "?"
}

var bufRe = regexp.MustCompile(`buf\d+`)
var varIntEv = regexp.MustCompile(`VarInt\((\w+)\)`)

// normaliseCounts renames the local variables that receive var-ints to n1, n2, ... by first
// appearance, so the comparison does not depend on identifier names.
func normaliseCounts(ev string, more ...*string) string {
	names := map[string]string{}
	for _, m := range varIntEv.FindAllStringSubmatch(ev, -1) {
		if _, ok := names[m[1]]; !ok {
			names[m[1]] = fmt.Sprintf("n%d", len(names)+1)
		}
	}
	ren := func(x string) string {
		for old, nw := range names {
			x = regexp.MustCompile(`\b`+regexp.QuoteMeta(old)+`\b`).ReplaceAllString(x, nw)
		}
		return x
	}
	for _, p := range more {
		*p = ren(*p)
	}
	return ren(ev)
}

var epochAtom = regexp.MustCompile(`^\((\w+#\d+) (==|>) 0\)$`)

func ruleWRdTx(c *Ctx) {
	fn := c.P.Func("", "*Tx", "ReadFrom")
	if fn == nil {
		c.Undecided("W-rd", "Tx.ReadFrom", token.NoPos, "not found")
		return
	}
	paths, err := reducedPaths(c, fn)
	if err != nil {
		c.Undecided("W-rd", "Tx.ReadFrom", fn.Pos(), "cannot enumerate the reader's success paths: "+err.Error())
		return
	}
	got := map[string]bool{}
	for _, rp := range paths {
		// feasibility over unsigned counts: exactly one of (x == 0), (x > 0)
		val := map[string]map[string]bool{}
		feasible := true
		var conds []string
		for _, cd := range rp.conds {
			truth := !strings.HasPrefix(cd, "!")
			atom := strings.TrimPrefix(cd, "!")
			if m := epochAtom.FindStringSubmatch(atom); m != nil {
				isZero := (m[2] == "==") == truth
				if val[m[1]] == nil {
					val[m[1]] = map[string]bool{}
				}
				if prev, ok := val[m[1]]["zero"]; ok && prev != isZero {
					feasible = false
				}
				val[m[1]]["zero"] = isZero
				if isZero {
					conds = append(conds, m[1]+"=0")
				} else {
					conds = append(conds, m[1]+">0")
				}
				continue
			}
			conds = append(conds, cd)
		}
		if !feasible {
			continue
		}
		// normalise buffer names by first appearance
		ev := strings.Join(rp.events, ";")
		names := map[string]string{}
		ev = bufRe.ReplaceAllStringFunc(ev, func(s string) string {
			if _, ok := names[s]; !ok {
				names[s] = fmt.Sprintf("b%d", len(names)+1)
			}
			return names[s]
		})
		cs := strings.Join(dedupSorted(conds), " && ")
		cs = bufRe.ReplaceAllStringFunc(cs, func(s string) string {
			if n, ok := names[s]; ok {
				return n
			}
			return s
		})
		ev = normaliseCounts(ev, &cs)
		cs = strings.Join(dedupSorted(strings.Split(cs, " && ")), " && ")
		got[cs+" :: "+ev] = true
	}
	head := "Read4(b1);Version=LE32(b1);VarInt(n1)"
	tail := "Read4(b2);LockTime=LE32(b2)"
	inLoop := func(ep int, ext string) string {
		return fmt.Sprintf("Loop[(i < n1#%d)]{Input.readFrom(fresh1,extended=%s); append(Inputs<-fresh1)}", ep, ext)
	}
	outLoop := func(ep int) string {
		return fmt.Sprintf("Loop[(i < n2#%d)]{Output).ReadFrom(fresh1); append(Outputs<-fresh1)}", ep)
	}
	want := map[string]string{
		"ambiguous empty transaction (0 in, 0 out, next four bytes are the locktime)": "(BE32(b2) != 239) && n1#1=0 && n2#1=0 :: " + head + ";VarInt(n2);" + tail,
		"extended format, inputs follow the marker":                                   "!(BE32(b2) != 239) && n1#1=0 && n1#2>0 && n2#1=0 :: " + head + ";VarInt(n2);Read4(b2);VarInt(n1);" + inLoop(2, "true") + ";VarInt(n2);" + outLoop(2) + ";" + tail,
		"extended format with zero inputs":                                            "!(BE32(b2) != 239) && n1#1=0 && n1#2=0 && n2#1=0 :: " + head + ";VarInt(n2);Read4(b2);VarInt(n1);" + inLoop(2, "true") + ";VarInt(n2);" + outLoop(2) + ";" + tail,
		"standard format without inputs (output count already read)":                  "n1#1=0 && n2#1>0 :: " + head + ";VarInt(n2);" + inLoop(1, "false") + ";" + outLoop(1) + ";" + tail,
		"standard format": "n1#1>0 :: " + head + ";" + inLoop(1, "false") + ";VarInt(n2);" + outLoop(1) + ";" + tail,
	}
	wantSet := map[string]bool{}
	for name, w := range want {
		wantSet[w] = true
		c.Check(got[w], "W-rd", "Tx.ReadFrom/"+name, fn.Pos(), "the reader takes exactly the protocol's sequence of reads and assignments on this path",
			"Tx.ReadFrom no longer reads this shape as the wire format prescribes; expected "+shorten(w, 400))
	}
	for g := range got {
		if !wantSet[g] {
			c.Fail("W-rd", "Tx.ReadFrom/extra/"+shorten(g, 100), fn.Pos(), "Tx.ReadFrom has a success path outside the wire format: "+shorten(g, 500))
		}
	}
	// the extended marker written by the serialiser is what the reader's three tests recognise:
	// VarInt(0) VarInt(0) followed by the big-endian 32-bit value 0xEF
	if wfn := c.P.Func("", "*Tx", "ExtendedBytes"); wfn != nil {
		// the marker is the constant the extended serialiser emits between the version and the input count
		marker := ""
		var find func(l *Lay)
		find = func(l *Lay) {
			if l == nil {
				return
			}
			if l.K == "const" && len(l.S) == 12 && marker == "" {
				marker = l.S
			}
			for _, it := range l.Items {
				find(it)
			}
			for _, cs := range l.Cases {
				find(cs.L)
			}
		}
		find(evalWith(c, wfn, nil, nil))
		c.Check(marker == "0000"+"000000ef", "W-rd", "extended-marker-agreement", wfn.Pos(), "writer emits 00 00 | 00 00 00 EF = VarInt(0) VarInt(0) BE32(0xEF), exactly what the reader tests",
			"the serialiser's extended-format marker is "+marker+", the reader recognises 0000000000ef")
	}
	// Txs.ReadFrom: count then that many transactions
	if tfn := c.P.Func("", "*Txs", "ReadFrom"); tfn != nil {
		ps, err := reducedPaths(c, tfn)
		ok := err == nil && len(ps) == 1 && normaliseCounts(strings.Join(ps[0].events, ";")) == "VarInt(n1);Loop[(i < n1#1)]{Tx).ReadFrom(fresh1); append(*self<-fresh1)}"
		detail := ""
		if err == nil && len(ps) > 0 {
			detail = strings.Join(ps[0].events, ";")
		}
		c.Check(ok, "W-rd", "Txs.ReadFrom", tfn.Pos(), "reads a count and then exactly that many transactions, each into its own new object which is appended", "Txs.ReadFrom does not read <count> transactions after the count: "+detail)
	}
	// the lists the decoded elements are appended to start empty
	for _, spec := range [][2]string{{"*Tx", "ReadFrom"}, {"*Txs", "ReadFrom"}} {
		if lfn := c.P.Func("", spec[0], spec[1]); lfn != nil {
			listsStartEmpty(c, lfn, strings.TrimPrefix(spec[0], "*")+"."+spec[1])
		}
	}
}

// listsStartEmpty: every list a reader appends decoded elements to (list = append(list, element), the list
// living at an address) is emptied before the first append - by a store of nil / make(T, 0) to it or of a zero
// value to the object holding it that dominates the append - and nothing else is stored to it: what the
// reader hands back is what it decoded, no element more.
func listsStartEmpty(c *Ctx, fn *ssa.Function, label string) {
	env := newTermEnv()
	type app struct {
		st  *ssa.Store
		loc string
		at  ssa.Instruction // where it happens in fn: the store itself, or the call of the helper that holds it
		fa  *ssa.FieldAddr
	}
	var apps []app
	appendsOf := func(f *ssa.Function, e *TermEnv, at ssa.Instruction) {
		for _, b := range f.Blocks {
			for _, ins := range b.Instrs {
				st, ok := ins.(*ssa.Store)
				if !ok {
					continue
				}
				call, ok := st.Val.(*ssa.Call)
				if !ok {
					continue
				}
				if bi, ok := call.Call.Value.(*ssa.Builtin); !ok || bi.Name() != "append" || len(call.Call.Args) != 2 {
					continue
				}
				ld, ok := call.Call.Args[0].(*ssa.UnOp)
				if !ok || ld.Op != token.MUL || canonTerm(e.Term(ld.X)) != canonTerm(e.Term(st.Addr)) {
					continue
				}
				a := app{st: st, loc: canonTerm(e.Term(st.Addr)), at: at}
				if a.at == nil {
					a.at = st
				}
				a.fa, _ = st.Addr.(*ssa.FieldAddr)
				apps = append(apps, a)
			}
		}
	}
	appendsOf(fn, env, nil)
	// helpers a later change split the reader into (not in the baseline list), called on the reader's own
	// receiver: their appends to the receiver's lists are the reader's
	if inlineHelper != nil && len(fn.Params) > 0 {
		for _, b := range fn.Blocks {
			for _, ins := range b.Instrs {
				call, ok := ins.(*ssa.Call)
				if !ok {
					continue
				}
				sc := call.Call.StaticCallee()
				if sc == nil || !inlineHelper(sc) || len(sc.Blocks) == 0 || len(call.Call.Args) == 0 || call.Call.Args[0] != ssa.Value(fn.Params[0]) || len(sc.Params) == 0 {
					continue
				}
				appendsOf(sc, newTermEnv(), call) // the helper's p0 is the reader's p0
			}
		}
	}
	n := 0
	seen := map[string]bool{}
	for _, a := range apps {
		if seen[a.loc] {
			continue
		}
		seen[a.loc] = true
		n++
		// the object holding the list: the address with its last field step removed ("&p0.Inputs" -> "p0")
		holder := ""
		if a.fa != nil {
			holder = canonTerm(newTermEnv().Term(a.fa.X))
		}
		reset, problem, skipped := false, "", ""
		for _, b := range fn.Blocks {
			for _, ins := range b.Instrs {
				st, ok := ins.(*ssa.Store)
				if !ok || st == a.st {
					continue
				}
				at := canonTerm(env.Term(st.Addr))
				isApp := false
				for _, o := range apps {
					if o.st == st {
						isApp = true
					}
				}
				if isApp {
					continue
				}
				switch {
				case at == a.loc:
					empty := false
					val := st.Val
					if ct, ok := val.(*ssa.ChangeType); ok {
						val = ct.X
					}
					switch v := val.(type) {
					case *ssa.Const:
						empty = v.Value == nil
					case *ssa.MakeSlice:
						if k, ok := constInt(v.Len); ok && k.Sign() == 0 {
							empty = true
						}
					case *ssa.Slice:
						// make(T, 0) with constant sizes: a slice [:0] of a new array
						if v.High != nil {
							if k, ok := constInt(v.High); ok && k.Sign() == 0 && v.Low == nil {
								empty = true
							}
						} else if al, ok := v.X.(*ssa.Alloc); ok && v.Low == nil {
							if at, ok := derefType(al.Type()).Underlying().(*types.Array); ok && at.Len() == 0 {
								empty = true
							}
						}
					}
					if !empty {
						problem = "it is given a value that is not an empty list at " + c.P.Pos(st.Pos())
					} else if st.Block().Dominates(a.at.Block()) {
						reset = true
						if r := undominatedSuccessReturn(fn, st.Block()); r != nil {
							skipped = "a return that may report success at " + c.P.Pos(r.Pos()) + " is reached without passing the store that empties the list (" + c.P.Pos(st.Pos()) + "): what an earlier use left in the list is handed back"
						}
					}
				case holder != "" && at == holder:
					if isZeroValue(st.Val) && st.Block().Dominates(a.at.Block()) {
						reset = true
						if r := undominatedSuccessReturn(fn, st.Block()); r != nil {
							skipped = "a return that may report success at " + c.P.Pos(r.Pos()) + " is reached without passing the store that clears the object (" + c.P.Pos(st.Pos()) + ")"
						}
					}
				}
			}
		}
		key := label + "/starts-empty/" + strings.TrimPrefix(a.loc, "&")
		switch {
		case problem != "":
			c.Fail("W-rd", key, a.st.Pos(), "the list the decoded elements are appended to does not start empty: "+problem)
		case !reset:
			c.Fail("W-rd", key, a.st.Pos(), "the list the decoded elements are appended to is not emptied before the first append (no dominating store of an empty list or of a zero object)")
		case skipped != "":
			c.Fail("W-rd", key, a.st.Pos(), "the list the decoded elements are appended to is not emptied on every way to a successful return: "+skipped)
		default:
			c.OK("W-rd", key, a.st.Pos(), "emptied before the first append, written by nothing but the appends")
		}
	}
	c.MinInstances("W-rd/starts-empty/"+label, n, 1)
}

// undominatedSuccessReturn: a return of fn that may report success (its error result is not known to be an
// error) and that block b does not dominate.
func undominatedSuccessReturn(fn *ssa.Function, b *ssa.BasicBlock) *ssa.Return {
	for _, rb := range fn.Blocks {
		r, ok := rb.Instrs[len(rb.Instrs)-1].(*ssa.Return)
		if !ok || len(r.Results) == 0 || b.Dominates(rb) {
			continue
		}
		e := r.Results[len(r.Results)-1]
		if !types.Identical(e.Type(), types.Universe.Lookup("error").Type()) {
			return r
		}
		if returnKinds(e) == 2 {
			continue
		}
		isErr := false
		for _, dc := range dominatingConds(rb) {
			bo, ok := dc.cond.(*ssa.BinOp)
			if !ok || bo.X != e {
				continue
			}
			if k, isK := bo.Y.(*ssa.Const); isK && k.Value == nil && ((bo.Op == token.NEQ && dc.truth) || (bo.Op == token.EQL && !dc.truth)) {
				isErr = true
			}
		}
		if !isErr {
			return r
		}
	}
	return nil
}

// isZeroValue: the zero value of a struct type as go/ssa spells it (a load of a fresh, never written local, or
// a constant zero).
func isZeroValue(v ssa.Value) bool {
	switch x := v.(type) {
	case *ssa.Const:
		return x.Value == nil
	case *ssa.UnOp:
		if x.Op != token.MUL {
			return false
		}
		al, ok := x.X.(*ssa.Alloc)
		if !ok || al.Referrers() == nil {
			return false
		}
		for _, r := range *al.Referrers() {
			switch r.(type) {
			case *ssa.UnOp, *ssa.DebugRef:
			default:
				return false
			}
		}
		return true
	}
	return false
}

func dedupSorted(ss []string) []string {
	m := map[string]bool{}
	for _, s := range ss {
		m[s] = true
	}
	var out []string
	for s := range m {
		out = append(out, s)
	}
	sort.Strings(out)
	return out
}
