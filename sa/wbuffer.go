package main

// Engine W, bytes.Buffer: a local bytes.Buffer is a mutable object, not an SSA value; its content at
// buf.Bytes() is reconstructed from the writes in control-flow order: the content at the entry of a
// block is the content at the entry of its immediate dominator, what the dominator writes, and a
// selection over the paths between the two; a loop contributes one Loop item whose body is what one
// iteration writes. Operands are evaluated as values at the write; a staging array refilled by
// binary.PutUintN before each write (var scratch [8]byte) is read as that encoding.

import (
	"fmt"
	"go/types"
	"strings"

	"golang.org/x/tools/go/ssa"
)

func isBytesBufferAlloc(v ssa.Value) *ssa.Alloc {
	al, ok := v.(*ssa.Alloc)
	if !ok {
		return nil
	}
	if namedOf(al.Type()) != "Buffer" || !strings.Contains(al.Type().String(), "bytes.Buffer") {
		return nil
	}
	return al
}

// evalBufferBytes: the layout of buf.Bytes() for the local buffer al at the given call.
func (w *WEval) evalBufferBytes(al *ssa.Alloc, at *ssa.Call) *Lay {
	// every use of the buffer is a method call on it (no escape)
	if al.Referrers() == nil {
		return unk("buffer never used")
	}
	for _, r := range *al.Referrers() {
		switch x := r.(type) {
		case *ssa.Call:
			if x.Call.StaticCallee() == nil || len(x.Call.Args) == 0 || x.Call.Args[0] != ssa.Value(al) || !strings.Contains(x.Call.StaticCallee().String(), "bytes.Buffer") {
				return unk("bytes.Buffer handed to %s", calleeLabel(&x.Call))
			}
		case *ssa.DebugRef, *ssa.Store:
		default:
			return unk("bytes.Buffer used by %T", r)
		}
	}
	memo := map[*ssa.BasicBlock]*Lay{}
	var entry func(b *ssa.BasicBlock, depth int) *Lay
	var delta func(b *ssa.BasicBlock, upto ssa.Instruction) *Lay
	var loopItem func(h *ssa.BasicBlock, depth int) *Lay
	writeOperand := func(call *ssa.Call, arg ssa.Value) *Lay {
		// a staging array filled by PutUintN just before: scratch[:4]
		if sl, ok := arg.(*ssa.Slice); ok {
			if arr, ok := sl.X.(*ssa.Alloc); ok && arr.Comment != "makeslice" && isByteArrayAlloc(arr) {
				lo, hi := int64(0), int64(-1)
				if sl.Low != nil {
					if k, ok := constInt(sl.Low); ok {
						lo = k.Int64()
					} else {
						return unk("staging array sliced at a run-time position")
					}
				}
				if sl.High != nil {
					if k, ok := constInt(sl.High); ok {
						hi = k.Int64()
					} else {
						return unk("staging array sliced at a run-time position")
					}
				}
				instrs := call.Block().Instrs
				pos := -1
				for i, ins := range instrs {
					if ins == ssa.Instruction(call) {
						pos = i
					}
				}
				for i := pos - 1; i >= 0; i-- {
					pc, ok := instrs[i].(*ssa.Call)
					if !ok || pc.Call.StaticCallee() == nil {
						continue
					}
					sc := pc.Call.StaticCallee()
					if strings.Contains(sc.String(), "bytes.Buffer") {
						continue // an earlier write of the buffer does not touch the staging array
					}
					dst, isSl := ssa.Value(nil), false
					if len(pc.Call.Args) >= 2 {
						if d, ok := pc.Call.Args[1].(*ssa.Slice); ok && d.X == ssa.Value(arr) {
							dst, isSl = d, true
						}
					}
					if !isSl {
						continue
					}
					if !strings.HasPrefix(sc.Name(), "PutUint") || !strings.Contains(sc.String(), "encoding/binary") {
						return unk("staging array filled by %s", calleeLabel(&pc.Call))
					}
					d := dst.(*ssa.Slice)
					dlo := int64(0)
					if d.Low != nil {
						k, ok := constInt(d.Low)
						if !ok {
							return unk("staging array filled at a run-time position")
						}
						dlo = k.Int64()
					}
					width := 0
					fmt.Sscanf(strings.TrimPrefix(sc.Name(), "PutUint"), "%d", &width)
					if dlo != lo || (hi >= 0 && hi-lo != int64(width/8)) || (hi < 0 && int64(width/8) != arrayLen(arr)-lo) {
						return unk("staging array: %d bytes encoded at %d, bytes %d..%d written", width/8, dlo, lo, hi)
					}
					k := "le"
					if strings.Contains(sc.String(), "bigEndian") {
						k = "be"
					}
					return &Lay{K: k, W: width / 8, S: w.term(pc.Call.Args[2])}
				}
				return unk("staging array written to the buffer without a preceding encode in the same block")
			}
		}
		return w.eval(arg)
	}
	delta = func(b *ssa.BasicBlock, upto ssa.Instruction) *Lay {
		var items []*Lay
		for _, ins := range b.Instrs {
			if ins == upto {
				break
			}
			call, ok := ins.(*ssa.Call)
			if !ok || call.Call.StaticCallee() == nil || len(call.Call.Args) == 0 || call.Call.Args[0] != ssa.Value(al) {
				continue
			}
			switch call.Call.StaticCallee().Name() {
			case "Write":
				items = append(items, writeOperand(call, call.Call.Args[1]))
			case "WriteByte":
				items = append(items, w.byteOf(call.Call.Args[1]))
			case "WriteString":
				items = append(items, w.eval(call.Call.Args[1]))
			case "Bytes", "Len", "String", "Grow":
			default:
				items = append(items, unk("bytes.Buffer.%s", call.Call.StaticCallee().Name()))
			}
		}
		return seqOf(items...)
	}
	// what the blocks of a path write (loop headers met on the way contribute their Loop item)
	pathDelta := func(blocks []*ssa.BasicBlock, skipFirst bool, depth int) *Lay {
		var items []*Lay
		for i, pb := range blocks {
			if i == 0 && skipFirst {
				continue
			}
			if isLoopHeader(pb) && i > 0 {
				items = append(items, loopItem(pb, depth+1))
			}
			items = append(items, delta(pb, nil))
		}
		return seqOf(items...)
	}
	loopItem = func(h *ssa.BasicBlock, depth int) *Lay {
		if depth > 6 {
			return unk("loops nested too deeply")
		}
		iff, ok := h.Instrs[len(h.Instrs)-1].(*ssa.If)
		if !ok {
			return unk("loop without a header test")
		}
		var latches []*ssa.BasicBlock
		for _, p := range h.Preds {
			if h.Dominates(p) {
				latches = append(latches, p)
			}
		}
		in := loopBlocks(h, latches)
		var bodyEntry *ssa.BasicBlock
		for _, s := range h.Succs {
			if in[s] && s != h {
				bodyEntry = s
			}
		}
		_ = iff
		if bodyEntry == nil {
			return seqOf()
		}
		body := w.selectOver(bodyEntry, h, func(d *DPath) *Lay {
			if d.EndKind != "stop" || d.Target != h {
				return nil
			}
			return pathDelta(d.Blocks, false, depth)
		})
		if len(seqOf(body).Items) == 0 {
			return seqOf()
		}
		return &Lay{K: "loop", S: w.rangeTerm(h), Items: []*Lay{seqOf(body)}}
	}
	entry = func(b *ssa.BasicBlock, depth int) *Lay {
		if l, ok := memo[b]; ok {
			return l
		}
		if depth > 60 {
			return unk("control flow too deep")
		}
		memo[b] = unk("cyclic")
		var res *Lay
		idom := b.Idom()
		switch {
		case idom == nil:
			res = seqOf()
		case isLoopHeader(b):
			// content before the loop (through the non-back predecessors), then the loop
			res = seqOf(entryVia(w, entry, delta, pathDelta, idom, b, depth), loopItem(b, depth))
		default:
			res = entryVia(w, entry, delta, pathDelta, idom, b, depth)
		}
		memo[b] = res
		return res
	}
	return seqOf(entry(at.Block(), 0), delta(at.Block(), at))
}

// entryVia: content at the entry of b, reached from its immediate dominator idom.
func entryVia(w *WEval, entry func(*ssa.BasicBlock, int) *Lay, delta func(*ssa.BasicBlock, ssa.Instruction) *Lay,
	pathDelta func([]*ssa.BasicBlock, bool, int) *Lay, idom, b *ssa.BasicBlock, depth int) *Lay {
	base := seqOf(entry(idom, depth+1), delta(idom, nil))
	if isLoopHeader(idom) {
		// idom's own Loop item belongs to its entry content already
		base = seqOf(entry(idom, depth+1), delta(idom, nil))
	}
	if len(idom.Succs) == 1 && idom.Succs[0] == b && len(b.Preds) == 1 {
		return base
	}
	between := w.selectOver(idom, b, func(d *DPath) *Lay {
		if d.EndKind != "stop" || d.Target != b {
			return nil
		}
		// for a loop header as target only the paths entering from outside count
		if isLoopHeader(b) && len(d.Blocks) > 0 && b.Dominates(d.Blocks[len(d.Blocks)-1]) {
			return nil
		}
		return pathDelta(d.Blocks, true, depth)
	})
	return seqOf(base, between)
}

func arrayLen(al *ssa.Alloc) int64 {
	if at, ok := al.Type().Underlying().(*types.Pointer).Elem().Underlying().(*types.Array); ok {
		return at.Len()
	}
	return -1
}
