package main

// Linear forms over canonical terms (engine G-lin). A term built from +, -, constants and
// multiplication by constants is normalised to sum(coef*atom)+const; everything else is an
// atom named by its canonical string with call ordinals removed (calls of functions the
// ownership engine shows to be write-free denote the same value when their arguments agree and
// no store intervenes; the rules using this check that premise where it matters).

import (
	"fmt"
	"go/constant"
	"go/token"
	"math/big"
	"regexp"
	"sort"
	"strings"

	"golang.org/x/tools/go/ssa"
)

type TLin struct {
	Coef  map[string]*big.Int
	Const *big.Int
}

var callOrdinal = regexp.MustCompile(`@\d+`)

func atomName(t *T) string { return callOrdinal.ReplaceAllString(t.String(), "") }

func newTLin() *TLin { return &TLin{Coef: map[string]*big.Int{}, Const: new(big.Int)} }

func (l *TLin) addAtom(a string, k *big.Int) {
	if l.Coef[a] == nil {
		l.Coef[a] = new(big.Int)
	}
	l.Coef[a].Add(l.Coef[a], k)
	if l.Coef[a].Sign() == 0 {
		delete(l.Coef, a)
	}
}

func (l *TLin) add(o *TLin, k int64) *TLin {
	r := newTLin()
	r.Const.Set(l.Const)
	for a, c := range l.Coef {
		r.addAtom(a, c)
	}
	kk := big.NewInt(k)
	r.Const.Add(r.Const, new(big.Int).Mul(o.Const, kk))
	for a, c := range o.Coef {
		r.addAtom(a, new(big.Int).Mul(c, kk))
	}
	return r
}

func (l *TLin) scale(k *big.Int) *TLin {
	r := newTLin()
	r.Const.Mul(l.Const, k)
	for a, c := range l.Coef {
		r.addAtom(a, new(big.Int).Mul(c, k))
	}
	return r
}

func (l *TLin) isConst() bool { return len(l.Coef) == 0 }

func (l *TLin) String() string {
	var ks []string
	for a := range l.Coef {
		ks = append(ks, a)
	}
	sort.Strings(ks)
	var parts []string
	for _, a := range ks {
		c := l.Coef[a]
		switch {
		case c.Cmp(big.NewInt(1)) == 0:
			parts = append(parts, "+"+a)
		case c.Cmp(big.NewInt(-1)) == 0:
			parts = append(parts, "-"+a)
		case c.Sign() > 0:
			parts = append(parts, "+"+c.String()+"*"+a)
		default:
			parts = append(parts, c.String()+"*"+a)
		}
	}
	if l.Const.Sign() != 0 || len(parts) == 0 {
		if l.Const.Sign() >= 0 {
			parts = append(parts, "+"+l.Const.String())
		} else {
			parts = append(parts, l.Const.String())
		}
	}
	return strings.TrimPrefix(strings.Join(parts, " "), "+")
}

func (l *TLin) equal(o *TLin) bool { return l.add(o, -1).isConst() && l.add(o, -1).Const.Sign() == 0 }

// linOf normalises a term. rename maps atom names to short names (optional).
func linOf(t *T, rename func(string) string) *TLin {
	if rename == nil {
		rename = func(s string) string { return s }
	}
	switch t.K {
	case "const":
		if v, ok := constValInt(t.C); ok {
			l := newTLin()
			l.Const.Set(v)
			return l
		}
	case "un":
		if t.Op == token.SUB && len(t.Args) == 1 {
			return linOf(t.Args[0], rename).scale(big.NewInt(-1))
		}
	case "bin":
		switch t.Op {
		case token.ADD:
			return linOf(t.Args[0], rename).add(linOf(t.Args[1], rename), 1)
		case token.SUB:
			return linOf(t.Args[0], rename).add(linOf(t.Args[1], rename), -1)
		case token.MUL:
			a, b := linOf(t.Args[0], rename), linOf(t.Args[1], rename)
			if a.isConst() {
				return b.scale(a.Const)
			}
			if b.isConst() {
				return a.scale(b.Const)
			}
		}
	}
	l := newTLin()
	l.addAtom(rename(atomName(t)), big.NewInt(1))
	return l
}

// cmpNorm renders a comparison a <op> b as "<lin(a-b)> <op> 0", flipping for a negated atom.
func cmpNorm(t *T, truth bool, rename func(string) string) (string, bool) {
	if t.K != "bin" {
		return "", false
	}
	op := t.Op
	switch op {
	case token.GTR, token.GEQ, token.LSS, token.LEQ, token.EQL, token.NEQ:
	default:
		return "", false
	}
	if !truth {
		op = map[token.Token]token.Token{token.GTR: token.LEQ, token.GEQ: token.LSS, token.LSS: token.GEQ, token.LEQ: token.GTR, token.EQL: token.NEQ, token.NEQ: token.EQL}[op]
	}
	d := linOf(t.Args[0], rename).add(linOf(t.Args[1], rename), -1)
	// canonical direction: < and <= are turned into > and >= of the negated form
	switch op {
	case token.LSS:
		d, op = d.scale(big.NewInt(-1)), token.GTR
	case token.LEQ:
		d, op = d.scale(big.NewInt(-1)), token.GEQ
	}
	// over the integers d > 0 is d - 1 >= 0: one spelling for  a > b  and  a >= b + 1
	if op == token.GTR && intTyped(t.Args[0]) && intTyped(t.Args[1]) {
		m := newTLin()
		m.Const.SetInt64(-1)
		d, op = d.add(m, 1), token.GEQ
	}
	return d.String() + " " + op.String() + " 0", true
}

func intTyped(t *T) bool {
	if t.K == "const" {
		return t.C != nil && t.C.Kind() == constant.Int
	}
	return t.Typ != nil && isIntType(t.Typ)
}

// sumLoop recognises  total := 0; for _, e := range recv.F { total += e.G }; return total
// and returns ("p0.F", "p0.F[i].G"). Any other instruction with an effect makes it fail.
func sumLoop(p *Prog, fn *ssa.Function) (over, elem string, ok bool) {
	var header *ssa.BasicBlock
	for _, b := range fn.Blocks {
		if isLoopHeader(b) {
			if header != nil {
				return "", "", false
			}
			header = b
		}
		for _, ins := range b.Instrs {
			switch x := ins.(type) {
			case *ssa.Store, *ssa.Defer, *ssa.Go, *ssa.MapUpdate, *ssa.Send, *ssa.Panic:
				return "", "", false
			case *ssa.Call:
				if bi, isB := x.Call.Value.(*ssa.Builtin); !isB || bi.Name() != "len" {
					return "", "", false
				}
			}
		}
	}
	if header == nil {
		return "", "", false
	}
	w := newWEval(p, fn)
	var idx, acc *ssa.Phi
	for _, ins := range header.Instrs {
		ph, isPhi := ins.(*ssa.Phi)
		if !isPhi {
			break
		}
		if phiStartsAt(ph, -1) {
			idx = ph
		} else if phiStartsAt(ph, 0) {
			acc = ph
		} else {
			return "", "", false
		}
	}
	if idx == nil || acc == nil {
		return "", "", false
	}
	// bound: idx+1 < len(p0.F)
	iff, isIf := header.Instrs[len(header.Instrs)-1].(*ssa.If)
	if !isIf {
		return "", "", false
	}
	bo, isBo := iff.Cond.(*ssa.BinOp)
	if !isBo || bo.Op != token.LSS {
		return "", "", false
	}
	inc, isInc := bo.X.(*ssa.BinOp)
	if !isInc || inc.Op != token.ADD || inc.X != ssa.Value(idx) {
		return "", "", false
	}
	if k, isK := constInt(inc.Y); !isK || k.Int64() != 1 {
		return "", "", false
	}
	ln, isCall := bo.Y.(*ssa.Call)
	if !isCall {
		return "", "", false
	}
	over = w.term(ln.Call.Args[0])
	// accumulator: latch edge is acc + X
	var x ssa.Value
	for i, p := range header.Preds {
		if header.Dominates(p) {
			add, isAdd := acc.Edges[i].(*ssa.BinOp)
			if !isAdd || add.Op != token.ADD {
				return "", "", false
			}
			switch {
			case add.X == ssa.Value(acc):
				x = add.Y
			case add.Y == ssa.Value(acc):
				x = add.X
			default:
				return "", "", false
			}
		}
	}
	if x == nil {
		return "", "", false
	}
	elem = w.term(x)
	// returned value is the accumulator at loop exit
	for _, b := range fn.Blocks {
		if r, isRet := b.Instrs[len(b.Instrs)-1].(*ssa.Return); isRet {
			if len(r.Results) != 1 || r.Results[0] != ssa.Value(acc) {
				return "", "", false
			}
		}
	}
	return over, elem, true
}

func ruleGSum(c *Ctx) {
	for _, s := range []struct{ name, over, elem string }{
		{"TotalInputSatoshis", "p0.Inputs", "p0.Inputs[i].PreviousTxSatoshis"},
		{"TotalOutputSatoshis", "p0.Outputs", "p0.Outputs[i].Satoshis"},
	} {
		fn := c.P.Func("", "*Tx", s.name)
		if fn == nil {
			c.Undecided("G-sum", "Tx."+s.name, token.NoPos, "not found")
			continue
		}
		over, elem, ok := sumLoop(c.P, fn)
		if !ok {
			c.Undecided("G-sum", "Tx."+s.name, fn.Pos(), "not of the form  total := 0; for range F { total += e.G }; return total")
			continue
		}
		c.Check(over == s.over && elem == s.elem, "G-sum", "Tx."+s.name, fn.Pos(), "sum of "+elem+" over all of "+over, fmt.Sprintf("Tx.%s sums %s over %s, expected %s over %s", s.name, elem, over, s.elem, s.over))
	}
}

// canonTerm renders a term with the operands of commutative operators (+, *) sorted, so that
// comparisons are insensitive to operand order. Call ordinals are removed.
func canonTerm(t *T) string {
	if t.K == "bin" && (t.Op == token.ADD || t.Op == token.MUL || t.Op == token.AND || t.Op == token.OR || t.Op == token.XOR) {
		a, b := canonTerm(t.Args[0]), canonTerm(t.Args[1])
		if b < a {
			a, b = b, a
		}
		return "(" + a + " " + t.Op.String() + " " + b + ")"
	}
	if t.K == "bin" {
		return "(" + canonTerm(t.Args[0]) + " " + t.Op.String() + " " + canonTerm(t.Args[1]) + ")"
	}
	if t.K == "conv" && len(t.Args) == 1 {
		return t.Name + "(" + canonTerm(t.Args[0]) + ")"
	}
	return atomName(t)
}
