package main

// T-asm (C13): how Script.ToASM renders one decoded part, as a decision table over
// (data script?, length of the part, first byte). The property needs, for non-data scripts, an opcode
// byte by its name and every pushed datum as hex (that is what NewFromASM reads back); how the parts of
// an OP_RETURN script are shown is not constrained. Decided per loop iteration on the paths of the loop
// body (helpers the rendering was moved into are read as part of it); no go-bt code runs.

import (
	"fmt"
	"go/constant"
	"go/token"
	"math/big"
	"sort"
	"strings"

	"golang.org/x/tools/go/ssa"
)

func ruleTAsm(c *Ctx) {
	fn := c.P.Func("bscript", "*Script", "ToASM")
	if fn == nil {
		c.Undecided("T-asm", "ToASM", token.NoPos, "not found")
		return
	}
	isWrite := func(ins ssa.Instruction) (*ssa.Call, bool) {
		call, ok := ins.(*ssa.Call)
		if !ok || call.Call.StaticCallee() == nil {
			return nil, false
		}
		n := call.Call.StaticCallee().String()
		return call, n == "(*strings.Builder).WriteString" || n == "(*bytes.Buffer).WriteString"
	}
	// the loop over the decoded parts: the outermost loop whose body writes to the builder
	var header *ssa.BasicBlock
	for _, b := range fn.Blocks {
		if !isLoopHeader(b) {
			continue
		}
		var latches []*ssa.BasicBlock
		for _, p := range b.Preds {
			if b.Dominates(p) {
				latches = append(latches, p)
			}
		}
		writes := false
		for lb := range loopBlocks(b, latches) {
			for _, ins := range lb.Instrs {
				if call, ok := ins.(*ssa.Call); ok && call.Call.StaticCallee() != nil && strings.Contains(call.Call.StaticCallee().String(), "Write") {
					writes = true
				}
				if call, ok := ins.(*ssa.Call); ok && call.Call.StaticCallee() != nil && inlineHelper != nil && inlineHelper(call.Call.StaticCallee()) {
					writes = true
				}
			}
		}
		if writes && (header == nil || b.Dominates(header)) {
			header = b
		}
	}
	if header == nil {
		c.Undecided("T-asm", "ToASM", fn.Pos(), "no loop writing the rendering of the parts found")
		return
	}
	paths, err := enumPaths(header.Succs[0], header, map[*ssa.BasicBlock]bool{header: true}, 4096)
	if err != nil {
		c.Undecided("T-asm", "ToASM", fn.Pos(), err.Error())
		return
	}
	// rendering of the part on a path
	leaf := func(d *DPath) string {
		var out []string
		for _, ins := range pathInstrs(d) {
			call, ok := isWrite(ins)
			if !ok {
				continue
			}
			v := d.Env.Val(call.Call.Args[1])
			kind := "other:" + atomName(d.Env.Term(v))
			switch x := v.(type) {
			case *ssa.Call:
				if sc := x.Call.StaticCallee(); sc != nil {
					switch sc.String() {
					case "encoding/hex.EncodeToString":
						kind = "hex"
					case "fmt.Sprintf":
						kind = "number"
					}
				}
			case *ssa.UnOp, *ssa.Lookup, *ssa.Index:
				if strings.Contains(atomName(d.Env.Term(v)), "opCodeValues") {
					kind = "name"
				}
			case *ssa.Const:
				if x.Value != nil && x.Value.Kind() == constant.String {
					kind = "text:" + constant.StringVal(x.Value)
				}
			}
			out = append(out, kind)
		}
		return strings.Join(out, "+")
	}
	// base terms of the iteration's decisions
	var lenT, b0T, dataT string
	for _, d := range paths {
		for _, pc := range d.Conds {
			if pc.At != nil && isLoopHeader(pc.At.Block()) {
				continue
			}
			bases := map[string]*T{}
			baseTerms(pc.Cond, bases)
			for k, t := range bases {
				switch {
				case strings.HasPrefix(k, "len("):
					lenT = k
				case strings.HasSuffix(k, "[0]"):
					b0T = k
				case isBoolType(t.Typ) || t.K == "phi":
					dataT = k
				default:
					c.Undecided("T-asm", "ToASM", fn.Pos(), "the rendering of a part depends on "+k+", which is neither its length, its first byte nor the data-script flag")
					return
				}
			}
		}
	}
	bad := ""
	cells := 0
	for _, data := range []int64{0, 1} {
		for _, ln := range []int64{1, 2, 3, 4, 5, 20, 76, 300} {
			for _, b0 := range []int64{0x00, 0x51, 0x6a, 0x76, 0xac} {
				asg := map[string]*big.Int{}
				if lenT != "" {
					asg[lenT] = big.NewInt(ln)
				}
				if b0T != "" {
					asg[b0T] = big.NewInt(b0)
				}
				if dataT != "" {
					asg[dataT] = big.NewInt(data)
				}
				got := map[string]bool{}
				for _, d := range paths {
					if d.EndKind != "stop" {
						continue
					}
					holds := true
					for _, pc := range d.Conds {
						if pc.At != nil && isLoopHeader(pc.At.Block()) {
							continue // a padding loop inside the iteration: its count does not select the rendering
						}
						v, ok := evalTerm(pc.Cond, asg)
						if !ok {
							c.Undecided("T-asm", "ToASM", fn.Pos(), "condition outside the table: "+atomName(pc.Cond))
							return
						}
						if (v.Sign() != 0) != pc.Truth {
							holds = false
						}
					}
					if holds {
						got[leaf(d)] = true
					}
				}
				cells++
				if data == 1 {
					continue // OP_RETURN scripts: rendering not constrained by the property
				}
				want := "hex"
				if ln == 1 {
					want = "name"
				}
				if (len(got) != 1 || !got[want]) && bad == "" {
					bad = fmt.Sprintf("in a non-data script a part of %d byte(s) starting 0x%02x is rendered as %v, the round trip through NewFromASM needs %q", ln, b0, keysSorted(got), want)
				}
			}
		}
	}
	c.Covered["T-asm:cells"] = cells
	c.Check(bad == "", "T-asm", "ToASM/part-rendering", fn.Pos(), fmt.Sprintf("non-data scripts: single bytes by opcode name, pushed data as hex (%d cells over data flag, length, first byte)", cells), "ToASM: "+bad)
	// the data flag itself: true only for scripts starting OP_RETURN or OP_FALSE OP_RETURN
	if dataT == "" {
		c.OK("T-asm", "ToASM/data-flag", fn.Pos(), "the rendering does not depend on a data-script flag")
		return
	}
	var flag *ssa.Phi
	for _, d := range paths {
		for _, pc := range d.Conds {
			bases := map[string]*T{}
			baseTerms(pc.Cond, bases)
			if t, ok := bases[dataT]; ok {
				if ph, isPhi := t.V.(*ssa.Phi); isPhi {
					flag = ph
				}
			}
		}
	}
	if flag == nil {
		// the flag may be the result of a predicate on the script's bytes (a helper): decided on its paths
		var callee *ssa.Function
		for _, d := range paths {
			for _, pc := range d.Conds {
				bases := map[string]*T{}
				baseTerms(pc.Cond, bases)
				if t, ok := bases[dataT]; ok {
					if call, isCall := t.V.(*ssa.Call); isCall && call.Call.StaticCallee() != nil && inScope(pkgPathOf(call.Call.StaticCallee())) {
						callee = call.Call.StaticCallee()
					}
				}
			}
		}
		if callee == nil || len(callee.Params) != 1 {
			c.Undecided("T-asm", "ToASM/data-flag", fn.Pos(), "the data-script flag is neither merged from tests of the script's leading bytes nor the result of a predicate on the script")
			return
		}
		badFlag := ""
		fcells := 0
		for _, ln := range []int64{1, 2, 3, 30} {
			for _, s0 := range []int64{0x00, 0x51, 0x6a, 0x76} {
				for _, s1 := range []int64{0x00, 0x51, 0x6a} {
					hits, val, why := predOnBytes(callee, ln, s0, s1)
					if why != "" {
						c.Undecided("T-asm", "ToASM/data-flag", callee.Pos(), why)
						return
					}
					fcells++
					isDataScript := s0 == 0x6a || (s0 == 0 && s1 == 0x6a && ln > 1)
					if hits == 1 && val && !isDataScript && badFlag == "" {
						badFlag = fmt.Sprintf("a script of %d bytes starting %02x %02x is treated as a data script", ln, s0, s1)
					}
					if hits != 1 && badFlag == "" && ln > 1 {
						badFlag = fmt.Sprintf("the data-script predicate is not decided by the leading bytes alone (length %d, %02x %02x: %d alternatives)", ln, s0, s1, hits)
					}
				}
			}
		}
		c.Check(badFlag == "", "T-asm", "ToASM/data-flag", callee.Pos(), fmt.Sprintf("only scripts starting OP_RETURN or OP_FALSE OP_RETURN get the data rendering (%d cells, predicate %s)", fcells, funcName(callee)), "ToASM: "+badFlag)
		return
	}
	pre, err := enumPaths(fn.Blocks[0], nil, map[*ssa.BasicBlock]bool{flag.Block(): true}, 4096)
	if err != nil {
		c.Undecided("T-asm", "ToASM/data-flag", fn.Pos(), err.Error())
		return
	}
	pre = filterFeasible(pre)
	badFlag := ""
	fcells := 0
	for _, ln := range []int64{1, 2, 3, 30} {
		for _, s0 := range []int64{0x00, 0x51, 0x6a, 0x76} {
			for _, s1 := range []int64{0x00, 0x51, 0x6a} {
				// the values the flag can take for such a script: one of them means decided
				vals := map[string]bool{}
				for _, d := range pre {
					if d.EndKind != "stop" || len(d.Blocks) == 0 {
						continue
					}
					holds := true
					for _, pc := range d.Conds {
						bases := map[string]*T{}
						baseTerms(pc.Cond, bases)
						asg := map[string]*big.Int{}
						for k := range bases {
							switch {
							case strings.HasPrefix(k, "len(*p0)"):
								asg[k] = big.NewInt(ln)
							case strings.HasSuffix(k, "[0]"):
								asg[k] = big.NewInt(s0)
							case strings.HasSuffix(k, "[1]"):
								asg[k] = big.NewInt(s1)
							}
						}
						v, ok := evalTerm(pc.Cond, asg)
						if !ok {
							// a nil test of the script: these cells are scripts that exist
							if k, flip := canonAtom(pc.Cond.String()); k == "p0 == nil" || k == "(p0 == nil)" {
								if (pc.Truth != flip) == true {
									holds = false
								}
							}
							continue // other conditions not about the script's bytes (decode error)
						}
						if (v.Sign() != 0) != pc.Truth {
							holds = false
						}
					}
					if !holds {
						continue
					}
					last := d.Blocks[len(d.Blocks)-1]
					for i, p := range flag.Block().Preds {
						if p != last {
							continue
						}
						e := d.Env.Val(flag.Edges[i])
						if k, isK := e.(*ssa.Const); isK && k.Value != nil && k.Value.Kind() == constant.Bool {
							vals[fmt.Sprint(constant.BoolVal(k.Value))] = true
						} else if call, isCall := e.(*ssa.Call); isCall && call.Call.StaticCallee() != nil && inScope(pkgPathOf(call.Call.StaticCallee())) &&
							len(call.Call.StaticCallee().Params) == 1 && len(call.Call.Args) == 1 && d.Env.Val(call.Call.Args[0]) == ssa.Value(fn.Params[0]) {
							// the flag is a predicate on the same script
							h, v, why := predOnBytes(call.Call.StaticCallee(), ln, s0, s1)
							if why != "" || h != 1 {
								vals["?"] = true
							} else {
								vals[fmt.Sprint(v)] = true
							}
						} else {
							vals["?"] = true
						}
					}
				}
				fcells++
				isDataScript := s0 == 0x6a || (s0 == 0 && s1 == 0x6a && ln > 1)
				if len(vals) == 1 && vals["true"] && !isDataScript && badFlag == "" {
					badFlag = fmt.Sprintf("a script of %d bytes starting %02x %02x is treated as a data script", ln, s0, s1)
				}
				if (len(vals) != 1 || vals["?"]) && badFlag == "" && ln > 1 {
					badFlag = fmt.Sprintf("the data-script flag is not decided by the leading bytes alone (length %d, %02x %02x: %v)", ln, s0, s1, keysSorted(vals))
				}
			}
		}
	}
	c.Check(badFlag == "", "T-asm", "ToASM/data-flag", fn.Pos(), fmt.Sprintf("only scripts starting OP_RETURN or OP_FALSE OP_RETURN get the data rendering (%d cells)", fcells), "ToASM: "+badFlag)
}

// predOnBytes evaluates a one-argument predicate on a script (IsData) for a script of length ln whose first
// bytes are s0, s1: the number of alternatives its decision structure leaves and the value.
func predOnBytes(callee *ssa.Function, ln, s0, s1 int64) (int, bool, string) {
	cp, err := enumPaths(callee.Blocks[0], nil, nil, 1024)
	if err != nil {
		return 0, false, err.Error()
	}
	{
		{
			{
				{
					hits, val := 0, false
					for _, d := range cp {
						if d.EndKind != "return" {
							continue
						}
						asgOf := func(t *T) map[string]*big.Int {
							bases := map[string]*T{}
							baseTerms(t, bases)
							asg := map[string]*big.Int{}
							for k := range bases {
								switch {
								case strings.HasPrefix(k, "len("):
									asg[k] = big.NewInt(ln)
								case strings.HasSuffix(k, "[0]"):
									asg[k] = big.NewInt(s0)
								case strings.HasSuffix(k, "[1]"):
									asg[k] = big.NewInt(s1)
								}
							}
							return asg
						}
						holds := true
						for _, pc := range d.Conds {
							v, ok := evalTerm(pc.Cond, asgOf(pc.Cond))
							if !ok {
								return 0, false, "the data-script predicate decides on " + atomName(pc.Cond)
							}
							if (v.Sign() != 0) != pc.Truth {
								holds = false
							}
						}
						if !holds {
							continue
						}
						rt := d.Env.Term(d.Ret.Results[0])
						rv, ok := evalTerm(rt, asgOf(rt))
						if !ok {
							hits += 2
							continue
						}
						hits++
						val = rv.Sign() != 0
					}
					return hits, val, ""
				}
			}
		}
	}
}

// T-asm/reader (C13): NewFromASM reads each space-separated token of the text in exactly two ways - a token
// that is a key of the opcode-name table becomes that opcode byte, every other token is hex data that is pushed
// (an error if it is not hex) - which is the inverse of what ToASM writes (names and bare hex). A third way of
// reading a token (decimal numbers, abbreviations ...) collides with hex data that happens to look like it. The
// rule reads the conditions and the script-building calls of the function (helpers outside the baseline list
// are part of it); no go-bt code runs.
func ruleTAsmReader(c *Ctx) {
	fn := c.P.Func("bscript", "", "NewFromASM")
	if fn == nil {
		c.Undecided("T-asm", "reader", token.NoPos, "NewFromASM not found")
		return
	}
	v := viewOf(fn)
	env := v.Env
	var problems []string
	// the token: an element of strings.Split(p0, " ")
	isToken := func(x ssa.Value) bool {
		for i := 0; i < 4; i++ {
			switch y := x.(type) {
			case *ssa.UnOp:
				if y.Op != token.MUL {
					return false
				}
				x = y.X
				continue
			case *ssa.IndexAddr:
				call, ok := y.X.(*ssa.Call)
				if !ok {
					return false
				}
				sc := call.Call.StaticCallee()
				if sc == nil || sc.String() != "strings.Split" {
					return false
				}
				sep, ok := call.Call.Args[1].(*ssa.Const)
				return ok && sep.Value != nil && sep.Value.Kind() == constant.String && constant.StringVal(sep.Value) == " " && call.Call.Args[0] == ssa.Value(fn.Params[0])
			case *ssa.Index:
				x = y.X
				continue
			}
			return false
		}
		return false
	}
	// the table lookup opCodeStrings[token], ok
	var lookup *ssa.Lookup
	for _, ins := range v.Instrs {
		if lk, ok := ins.(*ssa.Lookup); ok && lk.CommaOk {
			if ld, ok := lk.X.(*ssa.UnOp); ok {
				if g, ok := ld.X.(*ssa.Global); ok && g.Name() == "opCodeStrings" && isToken(lk.Index) {
					if lookup != nil {
						problems = append(problems, "the opcode-name table is consulted more than once")
					}
					lookup = lk
				}
			}
		}
	}
	if lookup == nil {
		c.Fail("T-asm", "reader", fn.Pos(), "NewFromASM no longer looks each space-separated token up in the opcode-name table (opCodeStrings[token], ok)")
		return
	}
	isLookupPart := func(x ssa.Value, idx int) bool {
		ex, ok := x.(*ssa.Extract)
		return ok && ex.Tuple == ssa.Value(lookup) && ex.Index == idx
	}
	nCond, nCalls := 0, 0
	var hexErr ssa.Value
	for _, ins := range v.Instrs {
		call, ok := ins.(*ssa.Call)
		if !ok {
			continue
		}
		sc := call.Call.StaticCallee()
		if sc == nil {
			continue
		}
		switch {
		case sc.Name() == "AppendOpcodes" && sc.Signature.Recv() != nil:
			nCalls++
			// the byte appended is the table's value for the token, under ok
			okArg := false
			if sl, isSl := call.Call.Args[1].(*ssa.Slice); isSl {
				if al, isAl := sl.X.(*ssa.Alloc); isAl && al.Referrers() != nil {
					for _, r := range *al.Referrers() {
						if ia, isIa := r.(*ssa.IndexAddr); isIa && ia.Referrers() != nil {
							for _, r2 := range *ia.Referrers() {
								if st, isSt := r2.(*ssa.Store); isSt && isLookupPart(st.Val, 0) {
									okArg = true
								}
							}
						}
					}
				}
			}
			if !okArg {
				problems = append(problems, "AppendOpcodes is given something other than the table's byte for the token")
			}
			guarded := false
			for _, dc := range dominatingConds(call.Block()) {
				if isLookupPart(dc.cond, 1) && dc.truth {
					guarded = true
				}
			}
			if !guarded {
				problems = append(problems, "an opcode byte is appended without the token being a key of the opcode-name table")
			}
		case sc.Name() == "AppendPushDataHexString" && sc.Signature.Recv() != nil:
			nCalls++
			if !isToken(call.Call.Args[1]) {
				problems = append(problems, "the hex data pushed is not the token itself")
			}
			hexErr = call
			conds := dominatingConds(call.Block())
			seenNotOK := false
			for _, dc := range conds {
				switch {
				case isLookupPart(dc.cond, 1) && !dc.truth:
					seenNotOK = true
				case isRangeLikeCond(dc.cond):
				default:
					problems = append(problems, "a token that is not an opcode name is pushed as hex data only under a further condition ("+shorten(atomName(env.Term(dc.cond)), 80)+"): some tokens are read a third way")
				}
			}
			if !seenNotOK {
				problems = append(problems, "hex data is pushed for tokens that are opcode names too")
			}
		case sc.Signature.Recv() != nil && namedOf(sc.Signature.Recv().Type()) == "Script" && strings.HasPrefix(sc.Name(), "Append"):
			nCalls++
			problems = append(problems, "the script is also built with "+sc.Name()+": a token is read in a way that is neither an opcode name nor hex data")
		}
	}
	// every branch of the function is the loop, the table hit, or the hex error
	for _, b := range v.Blocks {
		iff, ok := b.Instrs[len(b.Instrs)-1].(*ssa.If)
		if !ok {
			continue
		}
		nCond++
		switch {
		case isLookupPart(iff.Cond, 1), isRangeLikeCond(iff.Cond):
		default:
			if bo, isBo := iff.Cond.(*ssa.BinOp); isBo && hexErr != nil && (bo.X == hexErr || bo.Y == hexErr) {
				continue
			}
			problems = append(problems, "a branch on "+shorten(atomName(env.Term(iff.Cond)), 80)+": tokens are told apart by something other than the opcode-name table")
		}
	}
	sort.Strings(problems)
	c.Covered["T-asm:reader_conditions"] = nCond
	c.Check(len(problems) == 0 && nCalls == 2, "T-asm", "reader", fn.Pos(), "each token is an opcode name (its byte appended) or hex data (pushed), nothing else",
		"NewFromASM does not read a token exactly as an opcode name or else as hex data: "+strings.Join(problems, "; ")+fmt.Sprintf(" (%d script-building calls)", nCalls))
}

// isRangeLikeCond: the continuation test of a range / counted loop (index < len or index < n).
func isRangeLikeCond(v ssa.Value) bool {
	bo, ok := v.(*ssa.BinOp)
	if !ok || bo.Op != token.LSS {
		return false
	}
	_, isPhi := bo.X.(*ssa.Phi)
	if x, isBin := bo.X.(*ssa.BinOp); isBin && x.Op == token.ADD {
		_, isPhi = x.X.(*ssa.Phi)
	}
	return isPhi
}
