package main

// T-asm (C13): how Script.ToASM renders one decoded part, as a decision table over
// (data script?, length of the part, first byte). The property needs, for non-data scripts, an opcode
// byte by its name and every pushed datum as hex (that is what NewFromASM reads back); how the parts of
// an OP_RETURN script are shown is not constrained. Decided per loop iteration on the paths of the loop
// body (helpers the rendering was moved into are read as part of it); no go-bt code runs.

import (
	"fmt"
	"go/constant"
	"go/token"
	"math/big"
	"strings"

	"golang.org/x/tools/go/ssa"
)

func ruleTAsm(c *Ctx) {
	fn := c.P.Func("bscript", "*Script", "ToASM")
	if fn == nil {
		c.Undecided("T-asm", "ToASM", token.NoPos, "not found")
		return
	}
	isWrite := func(ins ssa.Instruction) (*ssa.Call, bool) {
		call, ok := ins.(*ssa.Call)
		if !ok || call.Call.StaticCallee() == nil {
			return nil, false
		}
		n := call.Call.StaticCallee().String()
		return call, n == "(*strings.Builder).WriteString" || n == "(*bytes.Buffer).WriteString"
	}
	// the loop over the decoded parts: the outermost loop whose body writes to the builder
	var header *ssa.BasicBlock
	for _, b := range fn.Blocks {
		if !isLoopHeader(b) {
			continue
		}
		var latches []*ssa.BasicBlock
		for _, p := range b.Preds {
			if b.Dominates(p) {
				latches = append(latches, p)
			}
		}
		writes := false
		for lb := range loopBlocks(b, latches) {
			for _, ins := range lb.Instrs {
				if call, ok := ins.(*ssa.Call); ok && call.Call.StaticCallee() != nil && strings.Contains(call.Call.StaticCallee().String(), "Write") {
					writes = true
				}
				if call, ok := ins.(*ssa.Call); ok && call.Call.StaticCallee() != nil && inlineHelper != nil && inlineHelper(call.Call.StaticCallee()) {
					writes = true
				}
			}
		}
		if writes && (header == nil || b.Dominates(header)) {
			header = b
		}
	}
	if header == nil {
		c.Undecided("T-asm", "ToASM", fn.Pos(), "no loop writing the rendering of the parts found")
		return
	}
	paths, err := enumPaths(header.Succs[0], header, map[*ssa.BasicBlock]bool{header: true}, 4096)
	if err != nil {
		c.Undecided("T-asm", "ToASM", fn.Pos(), err.Error())
		return
	}
	// rendering of the part on a path
	leaf := func(d *DPath) string {
		var out []string
		for _, ins := range pathInstrs(d) {
			call, ok := isWrite(ins)
			if !ok {
				continue
			}
			v := d.Env.Val(call.Call.Args[1])
			kind := "other:" + atomName(d.Env.Term(v))
			switch x := v.(type) {
			case *ssa.Call:
				if sc := x.Call.StaticCallee(); sc != nil {
					switch sc.String() {
					case "encoding/hex.EncodeToString":
						kind = "hex"
					case "fmt.Sprintf":
						kind = "number"
					}
				}
			case *ssa.UnOp, *ssa.Lookup, *ssa.Index:
				if strings.Contains(atomName(d.Env.Term(v)), "opCodeValues") {
					kind = "name"
				}
			case *ssa.Const:
				if x.Value != nil && x.Value.Kind() == constant.String {
					kind = "text:" + constant.StringVal(x.Value)
				}
			}
			out = append(out, kind)
		}
		return strings.Join(out, "+")
	}
	// base terms of the iteration's decisions
	var lenT, b0T, dataT string
	for _, d := range paths {
		for _, pc := range d.Conds {
			if pc.At != nil && isLoopHeader(pc.At.Block()) {
				continue
			}
			bases := map[string]*T{}
			baseTerms(pc.Cond, bases)
			for k, t := range bases {
				switch {
				case strings.HasPrefix(k, "len("):
					lenT = k
				case strings.HasSuffix(k, "[0]"):
					b0T = k
				case isBoolType(t.Typ) || t.K == "phi":
					dataT = k
				default:
					c.Undecided("T-asm", "ToASM", fn.Pos(), "the rendering of a part depends on "+k+", which is neither its length, its first byte nor the data-script flag")
					return
				}
			}
		}
	}
	bad := ""
	cells := 0
	for _, data := range []int64{0, 1} {
		for _, ln := range []int64{1, 2, 3, 4, 5, 20, 76, 300} {
			for _, b0 := range []int64{0x00, 0x51, 0x6a, 0x76, 0xac} {
				asg := map[string]*big.Int{}
				if lenT != "" {
					asg[lenT] = big.NewInt(ln)
				}
				if b0T != "" {
					asg[b0T] = big.NewInt(b0)
				}
				if dataT != "" {
					asg[dataT] = big.NewInt(data)
				}
				got := map[string]bool{}
				for _, d := range paths {
					if d.EndKind != "stop" {
						continue
					}
					holds := true
					for _, pc := range d.Conds {
						if pc.At != nil && isLoopHeader(pc.At.Block()) {
							continue // a padding loop inside the iteration: its count does not select the rendering
						}
						v, ok := evalTerm(pc.Cond, asg)
						if !ok {
							c.Undecided("T-asm", "ToASM", fn.Pos(), "condition outside the table: "+atomName(pc.Cond))
							return
						}
						if (v.Sign() != 0) != pc.Truth {
							holds = false
						}
					}
					if holds {
						got[leaf(d)] = true
					}
				}
				cells++
				if data == 1 {
					continue // OP_RETURN scripts: rendering not constrained by the property
				}
				want := "hex"
				if ln == 1 {
					want = "name"
				}
				if (len(got) != 1 || !got[want]) && bad == "" {
					bad = fmt.Sprintf("in a non-data script a part of %d byte(s) starting 0x%02x is rendered as %v, the round trip through NewFromASM needs %q", ln, b0, keysSorted(got), want)
				}
			}
		}
	}
	c.Covered["T-asm:cells"] = cells
	c.Check(bad == "", "T-asm", "ToASM/part-rendering", fn.Pos(), fmt.Sprintf("non-data scripts: single bytes by opcode name, pushed data as hex (%d cells over data flag, length, first byte)", cells), "ToASM: "+bad)
	// the data flag itself: true only for scripts starting OP_RETURN or OP_FALSE OP_RETURN
	if dataT == "" {
		c.OK("T-asm", "ToASM/data-flag", fn.Pos(), "the rendering does not depend on a data-script flag")
		return
	}
	var flag *ssa.Phi
	for _, d := range paths {
		for _, pc := range d.Conds {
			bases := map[string]*T{}
			baseTerms(pc.Cond, bases)
			if t, ok := bases[dataT]; ok {
				if ph, isPhi := t.V.(*ssa.Phi); isPhi {
					flag = ph
				}
			}
		}
	}
	if flag == nil {
		// the flag may be the result of a predicate on the script's bytes (a helper): decided on its paths
		var callee *ssa.Function
		for _, d := range paths {
			for _, pc := range d.Conds {
				bases := map[string]*T{}
				baseTerms(pc.Cond, bases)
				if t, ok := bases[dataT]; ok {
					if call, isCall := t.V.(*ssa.Call); isCall && call.Call.StaticCallee() != nil && inScope(pkgPathOf(call.Call.StaticCallee())) {
						callee = call.Call.StaticCallee()
					}
				}
			}
		}
		if callee == nil || len(callee.Params) != 1 {
			c.Undecided("T-asm", "ToASM/data-flag", fn.Pos(), "the data-script flag is neither merged from tests of the script's leading bytes nor the result of a predicate on the script")
			return
		}
		badFlag := ""
		fcells := 0
		for _, ln := range []int64{1, 2, 3, 30} {
			for _, s0 := range []int64{0x00, 0x51, 0x6a, 0x76} {
				for _, s1 := range []int64{0x00, 0x51, 0x6a} {
					hits, val, why := predOnBytes(callee, ln, s0, s1)
					if why != "" {
						c.Undecided("T-asm", "ToASM/data-flag", callee.Pos(), why)
						return
					}
					fcells++
					isDataScript := s0 == 0x6a || (s0 == 0 && s1 == 0x6a && ln > 1)
					if hits == 1 && val && !isDataScript && badFlag == "" {
						badFlag = fmt.Sprintf("a script of %d bytes starting %02x %02x is treated as a data script", ln, s0, s1)
					}
					if hits != 1 && badFlag == "" && ln > 1 {
						badFlag = fmt.Sprintf("the data-script predicate is not decided by the leading bytes alone (length %d, %02x %02x: %d alternatives)", ln, s0, s1, hits)
					}
				}
			}
		}
		c.Check(badFlag == "", "T-asm", "ToASM/data-flag", callee.Pos(), fmt.Sprintf("only scripts starting OP_RETURN or OP_FALSE OP_RETURN get the data rendering (%d cells, predicate %s)", fcells, funcName(callee)), "ToASM: "+badFlag)
		return
	}
	pre, err := enumPaths(fn.Blocks[0], nil, map[*ssa.BasicBlock]bool{flag.Block(): true}, 4096)
	if err != nil {
		c.Undecided("T-asm", "ToASM/data-flag", fn.Pos(), err.Error())
		return
	}
	pre = filterFeasible(pre)
	badFlag := ""
	fcells := 0
	for _, ln := range []int64{1, 2, 3, 30} {
		for _, s0 := range []int64{0x00, 0x51, 0x6a, 0x76} {
			for _, s1 := range []int64{0x00, 0x51, 0x6a} {
				// the values the flag can take for such a script: one of them means decided
				vals := map[string]bool{}
				for _, d := range pre {
					if d.EndKind != "stop" || len(d.Blocks) == 0 {
						continue
					}
					holds := true
					for _, pc := range d.Conds {
						bases := map[string]*T{}
						baseTerms(pc.Cond, bases)
						asg := map[string]*big.Int{}
						for k := range bases {
							switch {
							case strings.HasPrefix(k, "len(*p0)"):
								asg[k] = big.NewInt(ln)
							case strings.HasSuffix(k, "[0]"):
								asg[k] = big.NewInt(s0)
							case strings.HasSuffix(k, "[1]"):
								asg[k] = big.NewInt(s1)
							}
						}
						v, ok := evalTerm(pc.Cond, asg)
						if !ok {
							// a nil test of the script: these cells are scripts that exist
							if k, flip := canonAtom(pc.Cond.String()); k == "p0 == nil" || k == "(p0 == nil)" {
								if (pc.Truth != flip) == true {
									holds = false
								}
							}
							continue // other conditions not about the script's bytes (decode error)
						}
						if (v.Sign() != 0) != pc.Truth {
							holds = false
						}
					}
					if !holds {
						continue
					}
					last := d.Blocks[len(d.Blocks)-1]
					for i, p := range flag.Block().Preds {
						if p != last {
							continue
						}
						e := d.Env.Val(flag.Edges[i])
						if k, isK := e.(*ssa.Const); isK && k.Value != nil && k.Value.Kind() == constant.Bool {
							vals[fmt.Sprint(constant.BoolVal(k.Value))] = true
						} else if call, isCall := e.(*ssa.Call); isCall && call.Call.StaticCallee() != nil && inScope(pkgPathOf(call.Call.StaticCallee())) &&
							len(call.Call.StaticCallee().Params) == 1 && len(call.Call.Args) == 1 && d.Env.Val(call.Call.Args[0]) == ssa.Value(fn.Params[0]) {
							// the flag is a predicate on the same script
							h, v, why := predOnBytes(call.Call.StaticCallee(), ln, s0, s1)
							if why != "" || h != 1 {
								vals["?"] = true
							} else {
								vals[fmt.Sprint(v)] = true
							}
						} else {
							vals["?"] = true
						}
					}
				}
				fcells++
				isDataScript := s0 == 0x6a || (s0 == 0 && s1 == 0x6a && ln > 1)
				if len(vals) == 1 && vals["true"] && !isDataScript && badFlag == "" {
					badFlag = fmt.Sprintf("a script of %d bytes starting %02x %02x is treated as a data script", ln, s0, s1)
				}
				if (len(vals) != 1 || vals["?"]) && badFlag == "" && ln > 1 {
					badFlag = fmt.Sprintf("the data-script flag is not decided by the leading bytes alone (length %d, %02x %02x: %v)", ln, s0, s1, keysSorted(vals))
				}
			}
		}
	}
	c.Check(badFlag == "", "T-asm", "ToASM/data-flag", fn.Pos(), fmt.Sprintf("only scripts starting OP_RETURN or OP_FALSE OP_RETURN get the data rendering (%d cells)", fcells), "ToASM: "+badFlag)
}

// predOnBytes evaluates a one-argument predicate on a script (IsData) for a script of length ln whose first
// bytes are s0, s1: the number of alternatives its decision structure leaves and the value.
func predOnBytes(callee *ssa.Function, ln, s0, s1 int64) (int, bool, string) {
	cp, err := enumPaths(callee.Blocks[0], nil, nil, 1024)
	if err != nil {
		return 0, false, err.Error()
	}
	{
		{
			{
				{
					hits, val := 0, false
					for _, d := range cp {
						if d.EndKind != "return" {
							continue
						}
						asgOf := func(t *T) map[string]*big.Int {
							bases := map[string]*T{}
							baseTerms(t, bases)
							asg := map[string]*big.Int{}
							for k := range bases {
								switch {
								case strings.HasPrefix(k, "len("):
									asg[k] = big.NewInt(ln)
								case strings.HasSuffix(k, "[0]"):
									asg[k] = big.NewInt(s0)
								case strings.HasSuffix(k, "[1]"):
									asg[k] = big.NewInt(s1)
								}
							}
							return asg
						}
						holds := true
						for _, pc := range d.Conds {
							v, ok := evalTerm(pc.Cond, asgOf(pc.Cond))
							if !ok {
								return 0, false, "the data-script predicate decides on " + atomName(pc.Cond)
							}
							if (v.Sign() != 0) != pc.Truth {
								holds = false
							}
						}
						if !holds {
							continue
						}
						rt := d.Env.Term(d.Ret.Results[0])
						rv, ok := evalTerm(rt, asgOf(rt))
						if !ok {
							hits += 2
							continue
						}
						hits++
						val = rv.Sign() != 0
					}
					return hits, val, ""
				}
			}
		}
	}
}
