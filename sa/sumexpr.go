package main

// Integer sum expressions: a quantity computed by adding up constants, lengths, var-int widths and sums carried
// round range loops, against the length of a byte layout extracted by engine W. Used to decide "this number is
// the length of that serialisation" when the code adds up field widths instead of measuring the bytes.
//
//   SE ::= const + sum(coef * atom) + sum over a collection of SE + sel{cond: SE | SE}
// Atoms are terms in engine W's vocabulary (len(p0.Inputs), VL(len(*p0.Outputs[i].LockingScript)), ...); VL(x)
// is the width of the var-int of x, folded for constants with the protocol's classes.

import (
	"fmt"
	"go/token"
	"math/big"
	"sort"
	"strings"

	"golang.org/x/tools/go/ssa"
)

type sumSE struct {
	c     *big.Int
	atoms map[string]*big.Int
	sums  []sumLoopTerm
	sels  []sumSel
}

type sumLoopTerm struct {
	coll string
	body *sumSE
}

type sumSel struct {
	cond string // canonical atom, true branch first
	a, b *sumSE
}

func newSE() *sumSE { return &sumSE{c: new(big.Int), atoms: map[string]*big.Int{}} }

func seConst(k int64) *sumSE { s := newSE(); s.c.SetInt64(k); return s }

func seAtom(a string) *sumSE { s := newSE(); s.atoms[a] = big.NewInt(1); return s }

func (s *sumSE) add(o *sumSE, k int64) *sumSE {
	r := newSE()
	r.c.Set(s.c)
	r.c.Add(r.c, new(big.Int).Mul(o.c, big.NewInt(k)))
	for a, c := range s.atoms {
		r.atoms[a] = new(big.Int).Set(c)
	}
	for a, c := range o.atoms {
		if r.atoms[a] == nil {
			r.atoms[a] = new(big.Int)
		}
		r.atoms[a].Add(r.atoms[a], new(big.Int).Mul(c, big.NewInt(k)))
		if r.atoms[a].Sign() == 0 {
			delete(r.atoms, a)
		}
	}
	r.sums = append(append([]sumLoopTerm{}, s.sums...), o.sums...)
	r.sels = append(append([]sumSel{}, s.sels...), o.sels...)
	if k != 1 && (len(o.sums) > 0 || len(o.sels) > 0) {
		return nil // only additions of loop sums / selections are modelled
	}
	return r
}

func (s *sumSE) pure() bool { return len(s.sums) == 0 && len(s.sels) == 0 }

// norm: selections whose two sides are equal disappear; the common part of a selection's sides is hoisted;
// sums over the same collection are merged.
func (s *sumSE) norm() *sumSE {
	r := newSE()
	r.c.Set(s.c)
	for a, c := range s.atoms {
		r.atoms[a] = new(big.Int).Set(c)
	}
	byColl := map[string]*sumSE{}
	var colls []string
	for _, l := range s.sums {
		b := l.body.norm()
		if byColl[l.coll] == nil {
			byColl[l.coll] = newSE()
			colls = append(colls, l.coll)
		}
		byColl[l.coll] = byColl[l.coll].add(b, 1)
	}
	sort.Strings(colls)
	for _, cl := range colls {
		if b := byColl[cl].norm1(); b.String() != "0" {
			r.sums = append(r.sums, sumLoopTerm{cl, b})
		}
	}
	// selections on the same condition are one selection of the sums
	var merged []sumSel
	for _, sl := range s.sels {
		done := false
		for i := range merged {
			if merged[i].cond == sl.cond {
				a, b := merged[i].a.add(sl.a, 1), merged[i].b.add(sl.b, 1)
				if a != nil && b != nil {
					merged[i].a, merged[i].b = a, b
					done = true
				}
				break
			}
		}
		if !done {
			merged = append(merged, sumSel{sl.cond, sl.a, sl.b})
		}
	}
	for _, sl := range merged {
		a, b := sl.a.norm(), sl.b.norm()
		if a.String() == b.String() {
			if x := r.add(a, 1); x != nil {
				r = x
				continue
			}
		}
		// hoist the common constant and atoms
		common := newSE()
		if a.c.Cmp(b.c) <= 0 {
			common.c.Set(a.c)
		} else {
			common.c.Set(b.c)
		}
		for k, ca := range a.atoms {
			if cb, ok := b.atoms[k]; ok && ca.Cmp(cb) == 0 {
				common.atoms[k] = new(big.Int).Set(ca)
			}
		}
		a, b = a.add(common, -1), b.add(common, -1)
		r = r.add(common, 1)
		r.sels = append(r.sels, sumSel{sl.cond, a, b})
	}
	sort.Slice(r.sels, func(i, j int) bool { return r.sels[i].String() < r.sels[j].String() })
	return r
}

// norm1: norm without re-merging (bodies already merged)
func (s *sumSE) norm1() *sumSE { return s }

func (sl sumSel) String() string {
	return "sel{" + sl.cond + ": " + sl.a.String() + " | " + sl.b.String() + "}"
}

func (s *sumSE) String() string {
	var parts []string
	if s.c.Sign() != 0 {
		parts = append(parts, s.c.String())
	}
	var as []string
	for a := range s.atoms {
		as = append(as, a)
	}
	sort.Strings(as)
	for _, a := range as {
		if s.atoms[a].Cmp(big.NewInt(1)) == 0 {
			parts = append(parts, a)
		} else {
			parts = append(parts, s.atoms[a].String()+"*"+a)
		}
	}
	for _, l := range s.sums {
		parts = append(parts, "SUM["+l.coll+"]("+l.body.String()+")")
	}
	for _, sl := range s.sels {
		parts = append(parts, sl.String())
	}
	if len(parts) == 0 {
		return "0"
	}
	return strings.Join(parts, " + ")
}

// varintWidth of a constant.
func varintWidthOf(v *big.Int) int64 {
	switch {
	case v.Cmp(big.NewInt(0xfd)) < 0:
		return 1
	case v.Cmp(big.NewInt(0xffff)) <= 0:
		return 3
	case v.Cmp(big.NewInt(0xffffffff)) <= 0:
		return 5
	}
	return 9
}

// seVL: the var-int width of the quantity s.
func seVL(s *sumSE) *sumSE {
	if s == nil {
		return nil
	}
	if s.pure() && len(s.atoms) == 0 {
		return seConst(varintWidthOf(s.c))
	}
	if s.pure() && len(s.atoms) == 1 && s.c.Sign() == 0 {
		for a, c := range s.atoms {
			if c.Cmp(big.NewInt(1)) == 0 {
				return seAtom("VL(" + a + ")")
			}
		}
	}
	if len(s.sels) == 1 && len(s.sums) == 0 && len(s.atoms) == 0 && s.c.Sign() == 0 {
		a, b := seVL(s.sels[0].a), seVL(s.sels[0].b)
		if a != nil && b != nil {
			r := newSE()
			r.sels = []sumSel{{s.sels[0].cond, a, b}}
			return r
		}
	}
	return nil
}

// ---- the length of a layout

func layLen(l *Lay) (*sumSE, string) {
	switch l.K {
	case "seq":
		r := newSE()
		for _, it := range l.Items {
			x, why := layLen(it)
			if x == nil {
				return nil, why
			}
			if r = r.add(x, 1); r == nil {
				return nil, "sum"
			}
		}
		return r, ""
	case "const":
		return seConst(int64(len(l.S) / 2)), ""
	case "le", "be", "zero":
		return seConst(int64(l.W)), ""
	case "raw", "rev":
		return seAtom("len(" + l.S + ")"), ""
	case "varint":
		if k, ok := new(big.Int).SetString(l.S, 10); ok {
			return seConst(varintWidthOf(k)), ""
		}
		return seAtom("VL(" + l.S + ")"), ""
	case "loop":
		b, why := layLen(l.Items[0])
		if b == nil {
			return nil, why
		}
		r := newSE()
		r.sums = []sumLoopTerm{{l.S, b}}
		return r, ""
	case "sel":
		if len(l.Cases) == 2 && len(l.Cases[0].Conds) == 1 && len(l.Cases[0].Conds[0]) == 1 && len(l.Cases[1].Conds) == 1 && len(l.Cases[1].Conds[0]) == 1 {
			l0, l1 := l.Cases[0].Conds[0][0], l.Cases[1].Conds[0][0]
			k0, f0 := canonAtom(l0.Atom)
			k1, f1 := canonAtom(l1.Atom)
			if k0 == k1 && (l0.Truth != f0) != (l1.Truth != f1) {
				a, why := layLen(l.Cases[0].L)
				if a == nil {
					return nil, why
				}
				b, why := layLen(l.Cases[1].L)
				if b == nil {
					return nil, why
				}
				if l0.Truth == f0 { // case 0 is the canonical atom false
					a, b = b, a
				}
				r := newSE()
				r.sels = []sumSel{{k0, a, b}}
				return r, ""
			}
		}
		return nil, "a selection that is not a two-way test of one condition"
	}
	return nil, "layout item " + l.K + " has no length in this vocabulary"
}

// ---- the value of an integer expression of the code

type sumEval struct {
	w      *WEval
	depth  int
	assume []cellAssume
}

func (e *sumEval) eval(v ssa.Value) (*sumSE, string) {
	if e.depth > 40 {
		return nil, "too deep"
	}
	e.depth++
	defer func() { e.depth-- }()
	if s, why, ok := e.cellOfLoad(v); ok {
		return s, why
	}
	switch x := v.(type) {
	case *ssa.Const:
		if k, ok := constInt(x); ok {
			s := newSE()
			s.c.Set(k)
			return s, ""
		}
	case *ssa.Convert:
		if isIntType(x.X.Type()) && isIntType(x.Type()) {
			return e.eval(x.X)
		}
	case *ssa.ChangeType:
		return e.eval(x.X)
	case *ssa.BinOp:
		switch x.Op {
		case token.ADD, token.SUB:
			a, why := e.eval(x.X)
			if a == nil {
				return nil, why
			}
			b, why := e.eval(x.Y)
			if b == nil {
				return nil, why
			}
			k := int64(1)
			if x.Op == token.SUB {
				k = -1
			}
			if r := a.add(b, k); r != nil {
				return r, ""
			}
			return nil, "subtraction of a loop sum"
		}
	case *ssa.Call:
		if isLenCall(x) {
			return seAtom("len(" + e.w.term(x.Call.Args[0]) + ")"), ""
		}
		if sc := x.Call.StaticCallee(); sc != nil {
			switch funcName(sc) {
			case "(bt.VarInt).Length":
				a, why := e.eval(x.Call.Args[0])
				if a == nil {
					return nil, why
				}
				if r := seVL(a); r != nil {
					return r, ""
				}
				return nil, "var-int width of a compound quantity"
			case "(*bt.Tx).InputCount":
				return seAtom("len(" + e.w.term(x.Call.Args[0]) + ".Inputs)"), ""
			case "(*bt.Tx).OutputCount":
				return seAtom("len(" + e.w.term(x.Call.Args[0]) + ".Outputs)"), ""
			}
		}
	case *ssa.Extract:
		if call, ok := x.Tuple.(*ssa.Call); ok {
			if sc := call.Call.StaticCallee(); sc != nil && inScope(pkgPathOf(sc)) && len(sc.Blocks) > 0 {
				return e.callee(sc, call, x.Index)
			}
		}
	case *ssa.Phi:
		if isLoopHeader(x.Block()) {
			return e.loopSum(x)
		}
		return e.merge(x)
	}
	return nil, "value " + e.w.term(v) + " is not a sum of constants, lengths and var-int widths"
}

func (e *sumEval) callee(sc *ssa.Function, call *ssa.Call, idx int) (*sumSE, string) {
	r := singleResult(sc, idx)
	if r == nil {
		return nil, "helper " + funcName(sc) + " has several different results"
	}
	sub := newWEval(e.w.P, sc)
	sub.depth = e.w.depth + 1
	for i, p := range sc.Params {
		if i < len(call.Call.Args) {
			sub.args[p] = e.w.term(call.Call.Args[i])
		}
	}
	se := &sumEval{w: sub, depth: e.depth}
	return se.eval(r)
}

// merge: a two-way merge under its immediate dominator's branch.
func (e *sumEval) merge(ph *ssa.Phi) (*sumSE, string) {
	if len(ph.Edges) != 2 {
		return nil, "a value merged from more than two branches"
	}
	m := ph.Block()
	d := m.Idom()
	if d == nil {
		return nil, "merge without dominator"
	}
	iff, ok := d.Instrs[len(d.Instrs)-1].(*ssa.If)
	if !ok {
		return nil, "merge not under a branch"
	}
	side := func(p *ssa.BasicBlock) int {
		if p == d {
			for i, s := range d.Succs {
				if s == m {
					return i
				}
			}
			return -1
		}
		for i, s := range d.Succs {
			if s != m && s.Dominates(p) {
				return i
			}
		}
		return -1
	}
	s0, s1 := side(m.Preds[0]), side(m.Preds[1])
	if s0 < 0 || s1 < 0 || s0 == s1 {
		return nil, "merge not decided by one branch"
	}
	a, why := e.eval(ph.Edges[0])
	if a == nil {
		return nil, why
	}
	b, why := e.eval(ph.Edges[1])
	if b == nil {
		return nil, why
	}
	if s0 == 1 {
		a, b = b, a // a: taken when the condition is true
	}
	cond, flip := canonAtom(e.w.term(iff.Cond))
	if flip {
		a, b = b, a
	}
	r := newSE()
	r.sels = []sumSel{{cond, a, b}}
	return r, ""
}

// loopSum: a value carried round a range loop: its initial value plus, per element, what one iteration adds.
func (e *sumEval) loopSum(ph *ssa.Phi) (*sumSE, string) {
	h := ph.Block()
	coll := e.w.rangeTerm(h)
	if coll == "" {
		return nil, "a loop that does not range over a collection"
	}
	// every element is visited: the loop leaves only through its header
	for _, b := range e.w.fn.Blocks {
		if b != h && loopBodyContains(h, b) {
			for _, s := range b.Succs {
				if !loopBodyContains(h, s) {
					return nil, "the summing loop can stop early"
				}
			}
			if _, isRet := b.Instrs[len(b.Instrs)-1].(*ssa.Return); isRet {
				return nil, "the summing loop can stop early"
			}
		}
	}
	var init *sumSE
	var inc *sumSE
	type latch struct {
		p   *ssa.BasicBlock
		inc *sumSE
	}
	var latches []latch
	for i, p := range h.Preds {
		if !h.Dominates(p) {
			x, why := e.eval(ph.Edges[i])
			if x == nil {
				return nil, why
			}
			if init != nil && init.String() != x.String() {
				return nil, "several initial values"
			}
			init = x
			continue
		}
		x, why := e.iterValue(ph.Edges[i], ph)
		if x == nil {
			return nil, why
		}
		latches = append(latches, latch{p, x})
	}
	switch {
	case len(latches) == 1:
		inc = latches[0].inc
	case len(latches) == 2 && latches[0].inc.norm().String() == latches[1].inc.norm().String():
		inc = latches[0].inc
	case len(latches) == 2:
		// the two ways round are the two sides of one branch of the body: a conditional addition
		d, o := latches[0], latches[1]
		if _, isIf := d.p.Instrs[len(d.p.Instrs)-1].(*ssa.If); !isIf || !d.p.Dominates(o.p) {
			d, o = o, d
		}
		iff, isIf := d.p.Instrs[len(d.p.Instrs)-1].(*ssa.If)
		if !isIf || !d.p.Dominates(o.p) || d.p == o.p {
			// if / else with an addition on each side: the two latches hang under one branch of the body
			if dd := d.p.Idom(); dd != nil && dd == o.p.Idom() && loopBodyContains(h, dd) {
				if bif, ok := dd.Instrs[len(dd.Instrs)-1].(*ssa.If); ok && dd.Succs[0] != dd.Succs[1] {
					var onTrue, onFalse *sumSE
					for _, l := range []latch{d, o} {
						switch {
						case dd.Succs[0].Dominates(l.p) && !dd.Succs[1].Dominates(l.p):
							onTrue = l.inc
						case dd.Succs[1].Dominates(l.p) && !dd.Succs[0].Dominates(l.p):
							onFalse = l.inc
						}
					}
					if onTrue != nil && onFalse != nil {
						cond, flip := canonAtom(e.w.term(bif.Cond))
						if flip {
							onTrue, onFalse = onFalse, onTrue
						}
						inc = newSE()
						inc.sels = []sumSel{{cond, onTrue, onFalse}}
						r := newSE()
						r.sums = []sumLoopTerm{{coll, inc}}
						if init == nil {
							return nil, "malformed loop"
						}
						return init.add(r, 1), ""
					}
				}
			}
			return nil, "the loop adds different amounts on different ways round"
		}
		a, b := d.inc, o.inc // a: straight back to the header from the branch
		if d.p.Succs[0] != h {
			a, b = b, a // the true side goes through o
		}
		cond, flip := canonAtom(e.w.term(iff.Cond))
		if flip {
			a, b = b, a
		}
		inc = newSE()
		inc.sels = []sumSel{{cond, a, b}}
	default:
		return nil, "the loop adds different amounts on different ways round"
	}
	if init == nil || inc == nil {
		return nil, "malformed loop"
	}
	r := newSE()
	r.sums = []sumLoopTerm{{coll, inc}}
	return init.add(r, 1), ""
}

// iterValue: the value v has at the end of one iteration minus the carried value acc at its start.
func (e *sumEval) iterValue(v ssa.Value, acc *ssa.Phi) (*sumSE, string) {
	if v == ssa.Value(acc) {
		return newSE(), ""
	}
	switch x := v.(type) {
	case *ssa.BinOp:
		if x.Op == token.ADD {
			if x.X == ssa.Value(acc) {
				return e.eval(x.Y)
			}
			if x.Y == ssa.Value(acc) {
				return e.eval(x.X)
			}
			// (acc + a) + b
			if a, why := e.iterValue(x.X, acc); a != nil {
				b, why2 := e.eval(x.Y)
				if b == nil {
					return nil, why2
				}
				return a.add(b, 1), ""
			} else {
				_ = why
			}
		}
	case *ssa.Phi:
		if !isLoopHeader(x.Block()) && len(x.Edges) == 2 {
			// conditional increment: a merge inside the body
			m := x.Block()
			d := m.Idom()
			if iff, ok := d.Instrs[len(d.Instrs)-1].(*ssa.If); ok {
				a, why := e.iterValue(x.Edges[0], acc)
				if a == nil {
					return nil, why
				}
				b, why := e.iterValue(x.Edges[1], acc)
				if b == nil {
					return nil, why
				}
				p0 := m.Preds[0]
				onTrue := p0 != d && d.Succs[0] != m && d.Succs[0].Dominates(p0) || p0 == d && d.Succs[0] == m
				if !onTrue {
					a, b = b, a
				}
				cond, flip := canonAtom(e.w.term(iff.Cond))
				if flip {
					a, b = b, a
				}
				r := newSE()
				r.sels = []sumSel{{cond, a, b}}
				return r, ""
			}
		}
	}
	return nil, fmt.Sprintf("the loop does not add to the carried value (%s)", e.w.term(v))
}

// ---- sums kept in a field of a local struct (s.total += ...): the field is read as a variable
//
// The value of field f of local al at a program point is the value of the last store before it; at a loop header
// it is the value on entry plus, per element, what one trip round the loop adds; at a two-way merge a selection.

type cellKey struct {
	al    *ssa.Alloc
	field int
}

type cellAssume struct {
	key  cellKey
	head *ssa.BasicBlock
	atom string
}

func (e *sumEval) cellAt(k cellKey, b *ssa.BasicBlock, idx int, assume []cellAssume, depth int) (*sumSE, string) {
	if depth > 60 {
		return nil, "too deep"
	}
	for i := idx - 1; i >= 0; i-- {
		if st, ok := b.Instrs[i].(*ssa.Store); ok {
			if fa, ok := st.Addr.(*ssa.FieldAddr); ok && fa.X == ssa.Value(k.al) && fa.Field == k.field {
				return e.evalAt(st.Val, assume, depth+1)
			}
			if st.Addr == ssa.Value(k.al) {
				// the whole struct was assigned: the zero value at its declaration
				if c, ok := st.Val.(*ssa.Const); ok && c.Value == nil {
					return newSE(), ""
				}
				return nil, "the struct is assigned as a whole"
			}
		}
		if call, ok := b.Instrs[i].(*ssa.Call); ok {
			for _, a := range call.Call.Args {
				if a == ssa.Value(k.al) {
					return nil, "the struct is handed to a call"
				}
			}
		}
	}
	// at the start of the block
	for _, as := range assume {
		if as.key == k && as.head == b {
			return seAtom(as.atom), ""
		}
	}
	if len(b.Preds) == 0 {
		return newSE(), "" // a fresh local is zero
	}
	if isLoopHeader(b) {
		coll := e.w.rangeTerm(b)
		if coll == "" {
			return nil, "a loop that does not range over a collection"
		}
		for _, x := range e.w.fn.Blocks {
			if x != b && loopBodyContains(b, x) {
				for _, s := range x.Succs {
					if !loopBodyContains(b, s) {
						return nil, "the summing loop can stop early"
					}
				}
			}
		}
		var init, inc *sumSE
		type cl struct {
			p   *ssa.BasicBlock
			inc *sumSE
		}
		var clatches []cl
		atom := fmt.Sprintf("ACC#%d.%d@b%d", len(assume), k.field, b.Index)
		for _, p := range b.Preds {
			if !b.Dominates(p) {
				x, why := e.cellAt(k, p, len(p.Instrs), assume, depth+1)
				if x == nil {
					return nil, why
				}
				if init != nil && init.String() != x.String() {
					return nil, "several initial values"
				}
				init = x
				continue
			}
			x, why := e.cellAt(k, p, len(p.Instrs), append(append([]cellAssume{}, assume...), cellAssume{k, b, atom}), depth+1)
			if x == nil {
				return nil, why
			}
			x = x.norm()
			d, ok := stripAcc(x, atom)
			if !ok {
				return nil, "the loop does not add to the running value"
			}
			clatches = append(clatches, cl{p, d})
		}
		switch {
		case len(clatches) == 1:
			inc = clatches[0].inc
		case len(clatches) == 2 && clatches[0].inc.norm().String() == clatches[1].inc.norm().String():
			inc = clatches[0].inc
		case len(clatches) == 2:
			d, o := clatches[0], clatches[1]
			if _, isIf := d.p.Instrs[len(d.p.Instrs)-1].(*ssa.If); !isIf || !d.p.Dominates(o.p) {
				d, o = o, d
			}
			iff, isIf := d.p.Instrs[len(d.p.Instrs)-1].(*ssa.If)
			if !isIf || !d.p.Dominates(o.p) || d.p == o.p {
				return nil, "the loop adds different amounts on different ways round"
			}
			x, y := d.inc, o.inc
			if d.p.Succs[0] != b {
				x, y = y, x
			}
			cond, flip := canonAtom(e.w.term(iff.Cond))
			if flip {
				x, y = y, x
			}
			inc = newSE()
			inc.sels = []sumSel{{cond, x, y}}
		default:
			return nil, "the loop adds different amounts on different ways round"
		}
		if init == nil || inc == nil {
			return nil, "malformed loop"
		}
		r := newSE()
		r.sums = []sumLoopTerm{{coll, inc}}
		return init.add(r, 1), ""
	}
	if len(b.Preds) == 1 {
		p := b.Preds[0]
		return e.cellAt(k, p, len(p.Instrs), assume, depth+1)
	}
	if len(b.Preds) == 2 {
		d := b.Idom()
		iff, ok := d.Instrs[len(d.Instrs)-1].(*ssa.If)
		if !ok {
			return nil, "merge not under a branch"
		}
		side := func(p *ssa.BasicBlock) int {
			if p == d {
				for i, s := range d.Succs {
					if s == b {
						return i
					}
				}
				return -1
			}
			for i, s := range d.Succs {
				if s != b && s.Dominates(p) {
					return i
				}
			}
			return -1
		}
		s0, s1 := side(b.Preds[0]), side(b.Preds[1])
		if s0 < 0 || s1 < 0 || s0 == s1 {
			return nil, "merge not decided by one branch"
		}
		x, why := e.cellAt(k, b.Preds[0], len(b.Preds[0].Instrs), assume, depth+1)
		if x == nil {
			return nil, why
		}
		y, why := e.cellAt(k, b.Preds[1], len(b.Preds[1].Instrs), assume, depth+1)
		if y == nil {
			return nil, why
		}
		if x.norm().String() == y.norm().String() {
			return x, ""
		}
		if s0 == 1 {
			x, y = y, x
		}
		cond, flip := canonAtom(e.w.term(iff.Cond))
		if flip {
			x, y = y, x
		}
		r := newSE()
		r.sels = []sumSel{{cond, x, y}}
		return r, ""
	}
	return nil, "a merge of more than two ways"
}

// stripAcc: x = atom + d with atom occurring exactly once outside loops, or a selection of such: d.
func stripAcc(x *sumSE, atom string) (*sumSE, bool) {
	if c, ok := x.atoms[atom]; ok && c.Cmp(big.NewInt(1)) == 0 {
		return x.add(seAtom(atom), -1), true
	}
	if len(x.sels) == 1 && len(x.atoms) == 0 && x.c.Sign() == 0 && len(x.sums) == 0 {
		a, ok1 := stripAcc(x.sels[0].a, atom)
		b, ok2 := stripAcc(x.sels[0].b, atom)
		if ok1 && ok2 {
			r := newSE()
			r.sels = []sumSel{{x.sels[0].cond, a, b}}
			return r, true
		}
	}
	// norm() hoists the common part of a selection: atom + sel{c: a | b}
	if c, ok := x.atoms[atom]; ok && c.Cmp(big.NewInt(1)) == 0 {
		return x.add(seAtom(atom), -1), true
	}
	return nil, false
}

// evalAt: eval with loads of struct cells resolved under the loop assumptions in force.
func (e *sumEval) evalAt(v ssa.Value, assume []cellAssume, depth int) (*sumSE, string) {
	saved := e.assume
	e.assume = assume
	defer func() { e.assume = saved }()
	return e.eval(v)
}

// cellOfLoad: v is a read of a field of a local struct (directly, or of a struct a module function built and
// returned): its value as a sum expression.
func (e *sumEval) cellOfLoad(v ssa.Value) (*sumSE, string, bool) {
	switch x := v.(type) {
	case *ssa.UnOp:
		if x.Op != token.MUL {
			return nil, "", false
		}
		fa, ok := x.X.(*ssa.FieldAddr)
		if !ok {
			return nil, "", false
		}
		al, ok := fa.X.(*ssa.Alloc)
		if !ok || !isIntType(x.Type()) {
			return nil, "", false
		}
		// a copy of a struct returned by a helper
		if al.Referrers() != nil {
			for _, r := range *al.Referrers() {
				if st, ok := r.(*ssa.Store); ok && st.Addr == ssa.Value(al) {
					if call, ok := st.Val.(*ssa.Call); ok {
						s, why := e.fieldOfCall(call, fa.Field)
						return s, why, true
					}
				}
			}
		}
		idx := 0
		for i, ins := range x.Block().Instrs {
			if ins == ssa.Instruction(x) {
				idx = i
			}
		}
		s, why := e.cellAt(cellKey{al, fa.Field}, x.Block(), idx, e.assume, e.depth)
		return s, why, true
	case *ssa.Field:
		if call, ok := x.X.(*ssa.Call); ok && isIntType(x.Type()) {
			s, why := e.fieldOfCall(call, x.Field)
			return s, why, true
		}
	}
	return nil, "", false
}

func (e *sumEval) fieldOfCall(call *ssa.Call, field int) (*sumSE, string) {
	sc := call.Call.StaticCallee()
	if sc == nil || !inScope(pkgPathOf(sc)) || len(sc.Blocks) == 0 {
		return nil, "a struct returned by a function outside the module"
	}
	r := singleResult(sc, 0)
	ld, ok := r.(*ssa.UnOp)
	if !ok || ld.Op != token.MUL {
		return nil, "helper " + funcName(sc) + " does not return a local struct"
	}
	al, ok := ld.X.(*ssa.Alloc)
	if !ok {
		return nil, "helper " + funcName(sc) + " does not return a local struct"
	}
	sub := newWEval(e.w.P, sc)
	sub.depth = e.w.depth + 1
	for i, p := range sc.Params {
		if i < len(call.Call.Args) {
			sub.args[p] = e.w.term(call.Call.Args[i])
		}
	}
	se := &sumEval{w: sub, depth: e.depth}
	idx := 0
	for i, ins := range ld.Block().Instrs {
		if ins == ssa.Instruction(ld) {
			idx = i
		}
	}
	return se.cellAt(cellKey{al, field}, ld.Block(), idx, nil, 0)
}
