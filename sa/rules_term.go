package main

// Termination structure (C07 "never fails to return"): decided structurally —
// no recursion among reachable module functions, no blocking primitives, and
// every natural loop has a recognised progress shape or a written argument.

import (
	"fmt"
	"go/token"
	"sort"
	"strings"

	"golang.org/x/tools/go/ssa"
)

func ruleTerm(c *Ctx, rule string, specs []entrySpec, minLoops int) {
	pe := pEngine(c)
	entries := resolveEntries(c, rule, specs)
	fns := pe.reachable(entries)
	inSet := map[*ssa.Function]bool{}
	for _, f := range fns {
		inSet[f] = true
	}
	// (i) recursion: Tarjan SCC over module-internal edges
	succ := map[*ssa.Function][]*ssa.Function{}
	for _, f := range fns {
		seen := map[*ssa.Function]bool{}
		for _, b := range f.Blocks {
			for _, ins := range b.Instrs {
				ci, ok := ins.(ssa.CallInstruction)
				if !ok {
					continue
				}
				for _, callee := range pe.calleesOf(ci) {
					if inSet[callee] && !seen[callee] {
						seen[callee] = true
						succ[f] = append(succ[f], callee)
					}
				}
			}
		}
	}
	index, low := map[*ssa.Function]int{}, map[*ssa.Function]int{}
	onStack := map[*ssa.Function]bool{}
	var stack []*ssa.Function
	n := 0
	cycles := 0
	var strong func(v *ssa.Function)
	strong = func(v *ssa.Function) {
		n++
		index[v], low[v] = n, n
		stack = append(stack, v)
		onStack[v] = true
		for _, w := range succ[v] {
			if index[w] == 0 {
				strong(w)
				if low[w] < low[v] {
					low[v] = low[w]
				}
			} else if onStack[w] && index[w] < low[v] {
				low[v] = index[w]
			}
		}
		if low[v] == index[v] {
			var comp []*ssa.Function
			for {
				w := stack[len(stack)-1]
				stack = stack[:len(stack)-1]
				onStack[w] = false
				comp = append(comp, w)
				if w == v {
					break
				}
			}
			self := false
			for _, w := range succ[v] {
				if w == v {
					self = true
				}
			}
			if len(comp) > 1 || self {
				cycles++
				var names []string
				for _, f := range comp {
					names = append(names, funcName(f))
				}
				sort.Strings(names)
				c.Fail(rule, "recursion/"+names[0], comp[0].Pos(), "call-graph cycle among reachable functions (unbounded recursion possible): "+strings.Join(names, ", "))
			}
		}
	}
	for _, f := range fns {
		if index[f] == 0 {
			strong(f)
		}
	}
	if cycles == 0 {
		c.OK(rule, "no-recursion", token.NoPos, fmt.Sprintf("call graph restricted to %d reachable module functions is acyclic", len(fns)))
	}
	// (ii) blocking primitives
	blocking := 0
	for _, f := range fns {
		for _, b := range f.Blocks {
			for _, ins := range b.Instrs {
				bad := ""
				switch x := ins.(type) {
				case *ssa.Send, *ssa.Select:
					bad = "channel operation"
				case *ssa.UnOp:
					if x.Op == token.ARROW {
						bad = "channel receive"
					}
				case *ssa.Go:
					bad = "go statement"
				case ssa.CallInstruction:
					for _, callee := range pe.calleesOf(x) {
						if callee.Pkg == nil {
							continue
						}
						p := callee.Pkg.Pkg.Path()
						nm := callee.Name()
						if p == "sync" && (nm == "Lock" || nm == "RLock" || nm == "Wait") || p == "time" && nm == "Sleep" ||
							p == "os" || p == "net" || p == "net/http" || (p == "io" && nm != "ReadFull") {
							bad = "call to " + callee.String()
						}
					}
				}
				if bad != "" {
					blocking++
					c.Fail(rule, "blocking/"+funcName(f)+"/"+bad, ins.Pos(), "blocking primitive reachable: "+bad)
				}
			}
		}
	}
	if blocking == 0 {
		c.OK(rule, "no-blocking", token.NoPos, "no channel operation, lock acquisition, sleep or I/O call is reachable")
	}
	// (iii) loops
	nloops := 0
	for _, f := range fns {
		pf := pe.pf(f)
		ord := 0
		for _, h := range f.Blocks {
			var latches []*ssa.BasicBlock
			for _, p := range h.Preds {
				if h.Dominates(p) {
					latches = append(latches, p)
				}
			}
			if len(latches) == 0 {
				continue
			}
			ord++
			nloops++
			key := fmt.Sprintf("loop/%s#%d", funcName(f), ord)
			shape, ok := loopShape(pf, h, latches)
			if ok {
				c.OK(rule, key, posOfBlock(h), "progress shape: "+shape)
			} else {
				// a loop is also known by what it calls, wherever a later change moves it: a written
				// argument may be keyed "loopcalling/<module functions called in the body>"
				var alt []string
				if names := loopCallees(h, latches); len(names) > 0 {
					alt = []string{"loopcalling/" + strings.Join(names, ",")}
				}
				c.FailVia(rule, key, posOfBlock(h), "loop without a recognised progress shape ("+shape+"): termination needs a written argument", alt)
			}
		}
	}
	c.Covered[rule+":loops"] = nloops
	c.MinInstances(rule+"/loops", nloops, minLoops)
}

func posOfBlock(b *ssa.BasicBlock) token.Pos {
	for _, i := range b.Instrs {
		if i.Pos().IsValid() {
			return i.Pos()
		}
	}
	for _, s := range b.Succs {
		for _, i := range s.Instrs {
			if i.Pos().IsValid() {
				return i.Pos()
			}
		}
	}
	return b.Parent().Pos()
}

func loopBlocks(h *ssa.BasicBlock, latches []*ssa.BasicBlock) map[*ssa.BasicBlock]bool {
	in := map[*ssa.BasicBlock]bool{h: true}
	var work []*ssa.BasicBlock
	for _, l := range latches {
		if !in[l] {
			in[l] = true
			work = append(work, l)
		}
	}
	for len(work) > 0 {
		b := work[len(work)-1]
		work = work[:len(work)-1]
		for _, p := range b.Preds {
			if !in[p] {
				in[p] = true
				work = append(work, p)
			}
		}
	}
	return in
}

// loopShape recognises: range over map/string (Next), counted loops whose exit test
// compares a strictly monotone header phi (or a strictly monotone memory cell) with a
// loop-invariant bound.
func loopShape(pf *pfunc, h *ssa.BasicBlock, latches []*ssa.BasicBlock) (string, bool) {
	in := loopBlocks(h, latches)
	// range over map/string: header contains a Next instruction whose ok flag exits the loop
	for _, ins := range h.Instrs {
		if _, ok := ins.(*ssa.Next); ok {
			return "range over map/string (iterator exhausts)", true
		}
	}
	// exit tests: Ifs inside the loop with a successor outside
	for b := range in {
		iff, ok := b.Instrs[len(b.Instrs)-1].(*ssa.If)
		if !ok {
			continue
		}
		exitOnTrue := !in[b.Succs[0]]
		exitOnFalse := !in[b.Succs[1]]
		if !exitOnTrue && !exitOnFalse {
			continue
		}
		// the test must be evaluated on every iteration: its block dominates all latches
		domAll := true
		for _, l := range latches {
			if !b.Dominates(l) {
				domAll = false
			}
		}
		if !domAll {
			continue
		}
		cond := pf.get(iff.Cond)
		neg := false
		for cond.op == "un" && cond.tok == token.NOT {
			cond = cond.args[0]
			neg = !neg
		}
		if cond.op != "bin" || !isIntType(cond.args[0].typ) {
			continue
		}
		// continue-condition: stays in loop when (cond == stay)
		stay := exitOnFalse
		if neg {
			stay = !stay
		}
		tok := cond.tok
		if !stay {
			tok = map[token.Token]token.Token{token.LSS: token.GEQ, token.GEQ: token.LSS, token.GTR: token.LEQ, token.LEQ: token.GTR, token.NEQ: token.EQL, token.EQL: token.NEQ}[tok]
		}
		// normalise to  d := (rhs - lhs) > 0 style: continue while lhs < rhs  (or >)
		l, r := pf.linOf(cond.args[0]), pf.linOf(cond.args[1])
		var gap *lin // must strictly decrease towards 0 and loop continues only while gap > 0 (or >= 0)
		switch tok {
		case token.LSS, token.LEQ:
			gap = r.sub(l)
		case token.GTR, token.GEQ:
			gap = l.sub(r)
		default:
			continue
		}
		// gap is a linear form over header phis and invariants; on every back edge the phis are
		// replaced by their incoming values: new gap <= old gap - 1
		okAll := true
		usesPhi := false
		for _, a := range gap.atoms {
			if ph, ok := a.val.(*ssa.Phi); ok && a.op == "phi" && ph.Block() == h {
				usesPhi = true
				continue
			}
			if !invariantIn(a, in) {
				okAll = false
			}
		}
		if !okAll || !usesPhi {
			continue
		}
		for _, lt := range latches {
			idx := -1
			for i, p := range h.Preds {
				if p == lt {
					idx = i
				}
			}
			ng := pf.substPhis(gap, h, idx)
			// prove gap - ng - 1 >= 0 at the latch
			if !pf.proveAt(lt, pgoal{l: gap.sub(ng).addConst(-1)}, nil, 1) {
				okAll = false
			}
		}
		if okAll {
			return "counted loop: exit test at " + pf.P.P.Pos(iff.Cond.Pos()) + " on " + descLin(gap) + " which strictly decreases on every back edge", true
		}
	}
	return "no exit test on a strictly monotone quantity found", false
}

// invariantIn: the number does not depend on anything defined or written inside the loop.
func invariantIn(a *vn, in map[*ssa.BasicBlock]bool) bool {
	if a == nil {
		return true
	}
	switch a.op {
	case "const", "param", "global", "free", "func":
		return true
	case "phi", "call", "lookup", "typeassert", "opaque", "append", "makeslice", "alloc":
		if ins, ok := a.val.(ssa.Instruction); ok && ins.Block() != nil {
			return !in[ins.Block()]
		}
		return false
	case "load":
		if a.at.b != nil && in[a.at.b] {
			return false
		}
	}
	for _, x := range a.args {
		if !invariantIn(x, in) {
			return false
		}
	}
	return true
}

// loopCallees: the module functions called (statically) inside the natural loop of header h.
func loopCallees(h *ssa.BasicBlock, latches []*ssa.BasicBlock) []string {
	in := loopBlocks(h, latches)
	set := map[string]bool{}
	for b := range in {
		for _, ins := range b.Instrs {
			if call, ok := ins.(*ssa.Call); ok {
				if sc := call.Call.StaticCallee(); sc != nil && sc.Pkg != nil && strings.HasPrefix(sc.Pkg.Pkg.Path(), modPath) {
					set[funcName(sc)] = true
				}
			}
		}
	}
	return keysSorted(set)
}
