package main

import (
	"fmt"
	"go/constant"
	"go/token"
	"go/types"
	"math/big"
	"strings"

	"golang.org/x/tools/go/ssa"
)

// FLOAT (C16): every float64 -> integer conversion in the library applies to a
// rounded value (math.Round / math.RoundToEven / math.Floor(x+0.5)), and the
// scale factor is the same constant 1e8 on the encoding and decoding side.
func ruleFloat(c *Ctx) {
	nconv, nscale := 0, 0
	scales := map[string]token.Pos{}
	for _, pk := range c.P.ScopePkgs() {
		for _, fn := range pkgFunctions(c.P, pk.PkgPath) {
			for _, b := range fn.Blocks {
				for _, ins := range b.Instrs {
					switch x := ins.(type) {
					case *ssa.Convert:
						if !isFloatType(x.X.Type()) || !isIntType(x.Type()) {
							continue
						}
						nconv += siteWeight(c.P, fn)
						key := fmt.Sprintf("float-to-int/%s#%s", funcName(fn), instrOrdinal(x))
						if roundedValue(x.X) {
							c.OK("FLOAT", key, x.Pos(), "the converted value is the result of a rounding call")
						} else {
							c.Fail("FLOAT", key, x.Pos(), "float64 is converted to an integer by truncation: amounts whose product falls just below an integer lose one unit (e.g. 0.00000003*1e8 = 2.9999999999999996)")
						}
					case *ssa.BinOp:
						if !isFloatType(x.Type()) || (x.Op != token.MUL && x.Op != token.QUO) {
							continue
						}
						for _, o := range []ssa.Value{x.X, x.Y} {
							if k, ok := o.(*ssa.Const); ok && k.Value != nil {
								nscale += siteWeight(c.P, fn)
								scales[k.Value.ExactString()] = x.Pos()
								c.OK("FLOAT", fmt.Sprintf("scale/%s#%s", funcName(fn), instrOrdinal(x)), x.Pos(), "scale constant "+k.Value.ExactString())
							}
						}
					}
				}
			}
		}
	}
	if len(scales) > 1 {
		var ks []string
		for k := range scales {
			ks = append(ks, k)
		}
		c.Fail("FLOAT", "scale-agreement", token.NoPos, "encoder and decoder use different float scale constants: "+strings.Join(ks, ", "))
	} else if len(scales) == 1 {
		for k := range scales {
			c.Check(k == "100000000", "FLOAT", "scale-agreement", token.NoPos, "all float scalings use 1e8 (satoshis per coin)", "float scale constant is "+k+", expected 100000000")
		}
	}
	ruleFloatRefusal(c)
	ruleFloatText(c)
	c.MinInstances("FLOAT/conversions", nconv, 2)
	c.MinInstances("FLOAT/scalings", nscale, 4)
}

func isFloatType(t types.Type) bool {
	b, ok := t.Underlying().(*types.Basic)
	return ok && b.Info()&types.IsFloat != 0
}

func roundedValue(v ssa.Value) bool {
	call, ok := v.(*ssa.Call)
	if !ok {
		return false
	}
	sc := call.Call.StaticCallee()
	if sc == nil || sc.Pkg == nil || sc.Pkg.Pkg.Path() != "math" {
		return false
	}
	switch sc.Name() {
	case "Round", "RoundToEven":
		return true
	case "Floor":
		// Floor(x + 0.5)
		if bo, ok := call.Call.Args[0].(*ssa.BinOp); ok && bo.Op == token.ADD {
			for _, o := range []ssa.Value{bo.X, bo.Y} {
				if k, ok := o.(*ssa.Const); ok && k.Value != nil && constant.Compare(k.Value, token.EQL, constant.MakeFloat64(0.5)) {
					return true
				}
			}
		}
	}
	return false
}

// S-bigint (C05): (*big.Int).Int64 keeps only the low 64 bits of a larger number. In the
// interpreter it may be called only where the value is known to fit or where only the low
// bits are wanted; everything else must go through the saturating scriptNumber.Int64.
func ruleSBigInt(c *Ctx) {
	pe := pEngine(c)
	n := 0
	for _, fn := range pkgFunctions(c.P, modPath+"/bscript/interpreter") {
		for _, b := range fn.Blocks {
			for _, ins := range b.Instrs {
				call, ok := ins.(*ssa.Call)
				if !ok {
					continue
				}
				sc := call.Call.StaticCallee()
				if sc == nil || (sc.String() != "(*math/big.Int).Int64" && sc.String() != "(*math/big.Int).Uint64") {
					continue
				}
				n++
				key := fmt.Sprintf("%s#%s", funcName(fn), instrOrdinal(call))
				switch funcName(fn) {
				case "(*bscript/interpreter.scriptNumber).Int64":
					// must be dominated by the two failed range tests
					pf := pe.pf(fn)
					gt, lt := false, false
					for x := b; x != nil; x = x.Idom() {
						if len(x.Preds) != 1 {
							continue
						}
						pr := x.Preds[0]
						if iff, ok := pr.Instrs[len(pr.Instrs)-1].(*ssa.If); ok && pr.Succs[1] == x {
							cn := pf.get(iff.Cond)
							if cn.op == "call" && strings.Contains(cn.name, "GreaterThanInt") {
								gt = true
							}
							if cn.op == "call" && strings.Contains(cn.name, "LessThanInt") {
								lt = true
							}
						}
					}
					c.Check(gt && lt, "S-bigint", key, call.Pos(), "called only after the number was shown to lie within [MinInt64, MaxInt64]",
						"scriptNumber.Int64 converts without first excluding values above MaxInt64 / below MinInt64: large numbers wrap instead of saturating")
				case "(*bscript/interpreter.scriptNumber).Bytes":
					n-- // a tolerated use, not one the rule depends on: its disappearance changes nothing
					c.OK("S-bigint", key, call.Pos(), "Bytes uses the conversion for the pre-genesis clamp hint and to extract the low byte of a shrinking copy (low bits are what is wanted)")
				case "(*bscript/interpreter.scriptNumber).Int":
					// legacy accessor kept for its tests: it must have no callers in the library
					callers := 0
					if node := c.P.CG().Nodes[fn]; node != nil {
						for _, e := range node.In {
							if inScope(pkgPathOf(e.Caller.Func)) {
								callers++
							}
						}
					}
					c.Check(callers == 0, "S-bigint", key, call.Pos(), "wrapping accessor Int() has no callers in the library",
						fmt.Sprintf("scriptNumber.Int() wraps numbers beyond 64 bits and is called from %d library site(s): use the saturating Int64()/Int32()", callers))
				default:
					c.Fail("S-bigint", key, call.Pos(), "direct (*big.Int).Int64 on a script number outside the saturating accessors: post-genesis numbers beyond 64 bits wrap to their low bits")
				}
			}
		}
	}
	c.MinInstances("S-bigint", n, 2)
}

// siteWeight: how many sites of the baseline tree a construct stands for: 1 inside a baseline function;
// inside a helper outside the baseline list (duplicated code merged into one shared helper) the number of
// places the helper is called from, so that the vacuity guards still count what the code does.
func siteWeight(p *Prog, fn *ssa.Function) int {
	if inlineHelper == nil || !inlineHelper(fn) {
		return 1
	}
	node := p.CG().Nodes[fn]
	n := 0
	if node != nil {
		for _, e := range node.In {
			if inScope(pkgPathOf(e.Caller.Func)) {
				n += siteWeight(p, e.Caller.Func)
			}
		}
	}
	if n == 0 {
		// a codec method the library never calls itself (encoding/json does, by reflection): it stands for every
		// field of a module struct that has its receiver's type
		if fn.Signature.Recv() != nil && (fn.Name() == "UnmarshalJSON" || fn.Name() == "MarshalJSON") {
			rt := derefType(fn.Signature.Recv().Type())
			k := 0
			for _, pk := range p.ScopePkgs() {
				sc := pk.Types.Scope()
				for _, name := range sc.Names() {
					tn, ok := sc.Lookup(name).(*types.TypeName)
					if !ok {
						continue
					}
					var count func(t types.Type, depth int)
					count = func(t types.Type, depth int) {
						st, ok := t.Underlying().(*types.Struct)
						if !ok || depth > 3 {
							return
						}
						for i := 0; i < st.NumFields(); i++ {
							ft := st.Field(i).Type()
							if types.Identical(derefType(ft), rt) {
								k++
							} else if _, isNamed := derefType(ft).(*types.Named); !isNamed {
								count(derefType(ft), depth+1) // anonymous nested structs
							}
						}
					}
					count(tn.Type(), 0)
				}
			}
			if k > 0 {
				return k
			}
		}
		return 1
	}
	return n
}

// ruleFloatRefusal (C16, "for every representable amount"): a decoder that turns a float amount into
// satoshis may refuse amounts, but none in 0..21e14 satoshis. Every path of a converting function that
// ends in an error and tests the amount (the rounded value R, or the coin value V with R = round(V*1e8))
// is evaluated on the in-range boundary amounts; the tests it makes on other quantities are left open.
func ruleFloatRefusal(c *Ctx) {
	maxSat := new(big.Rat).SetInt(new(big.Int).Mul(big.NewInt(21000000), big.NewInt(100000000)))
	scale := new(big.Rat).SetInt64(100000000)
	n := 0
	for _, pk := range c.P.ScopePkgs() {
		for _, fn := range pkgFunctions(c.P, pk.PkgPath) {
			var conv *ssa.Convert
			for _, b := range fn.Blocks {
				for _, ins := range b.Instrs {
					if x, ok := ins.(*ssa.Convert); ok && isFloatType(x.X.Type()) && isIntType(x.Type()) {
						conv = x
					}
				}
			}
			if conv == nil {
				continue
			}
			n += siteWeight(c.P, fn)
			key := "refusal/" + funcName(fn)
			paths, err := feasiblePaths(fn, 20000)
			if err != nil {
				c.Undecided("FLOAT", key, fn.Pos(), "cannot enumerate paths: "+err.Error())
				continue
			}
			rT := newTermEnv().Term(conv.X)
			rName, vName := atomName(rT), ""
			if rT.K == "call" && strings.Contains(rT.Name, "math.Round") && len(rT.Args) == 1 && rT.Args[0].K == "bin" && rT.Args[0].Op == token.MUL {
				for i, a := range rT.Args[0].Args {
					if a.K == "const" {
						vName = atomName(rT.Args[0].Args[1-i])
					}
				}
			}
			// representatives: the range's ends and their in-range neighbours, plus every in-range constant
			// (and neighbours) the paths compare the amount with
			reps := map[string]*big.Rat{}
			addRep := func(r *big.Rat) {
				for d := int64(-1); d <= 1; d++ {
					x := new(big.Rat).Add(r, new(big.Rat).SetInt64(d))
					if x.Sign() >= 0 && x.Cmp(maxSat) <= 0 && x.IsInt() {
						reps[x.String()] = x
					}
				}
			}
			addRep(new(big.Rat))
			addRep(maxSat)
			var eval func(t *T, r *big.Rat) (*big.Rat, bool)
			eval = func(t *T, r *big.Rat) (*big.Rat, bool) {
				switch an := atomName(t); {
				case an == rName:
					return r, true
				case vName != "" && an == vName:
					return new(big.Rat).Quo(r, scale), true
				}
				switch t.K {
				case "const":
					if t.C != nil && (t.C.Kind() == constant.Int || t.C.Kind() == constant.Float) {
						if x, ok := new(big.Rat).SetString(constant.ToFloat(t.C).ExactString()); ok {
							return x, true
						}
					}
				case "conv":
					return eval(t.Args[0], r)
				case "bin":
					a, ok1 := eval(t.Args[0], r)
					b, ok2 := eval(t.Args[1], r)
					if !ok1 || !ok2 {
						return nil, false
					}
					tv := func(v bool) (*big.Rat, bool) {
						if v {
							return big.NewRat(1, 1), true
						}
						return new(big.Rat), true
					}
					switch t.Op {
					case token.ADD:
						return new(big.Rat).Add(a, b), true
					case token.SUB:
						return new(big.Rat).Sub(a, b), true
					case token.MUL:
						return new(big.Rat).Mul(a, b), true
					case token.QUO:
						if b.Sign() != 0 {
							return new(big.Rat).Quo(a, b), true
						}
					case token.LSS:
						return tv(a.Cmp(b) < 0)
					case token.LEQ:
						return tv(a.Cmp(b) <= 0)
					case token.GTR:
						return tv(a.Cmp(b) > 0)
					case token.GEQ:
						return tv(a.Cmp(b) >= 0)
					case token.EQL:
						return tv(a.Cmp(b) == 0)
					case token.NEQ:
						return tv(a.Cmp(b) != 0)
					}
				case "un":
					if t.Op == token.NOT {
						if a, ok := eval(t.Args[0], r); ok {
							if a.Sign() == 0 {
								return big.NewRat(1, 1), true
							}
							return new(big.Rat), true
						}
					}
				}
				return nil, false
			}
			mentions := func(t *T) bool {
				bt := map[string]*T{}
				baseTerms(t, bt)
				for _, b := range bt {
					an := atomName(b)
					if an == rName || (vName != "" && an == vName) || strings.Contains(an, rName) {
						return true
					}
				}
				return false
			}
			for _, p := range paths {
				for _, cd := range p.Conds {
					if mentions(cd.Cond) {
						cs := map[string]*big.Int{}
						collectConsts(cd.Cond, cs)
						for _, v := range cs {
							addRep(new(big.Rat).SetInt(v))
						}
						// float constants
						var walk func(t *T)
						walk = func(t *T) {
							if t.K == "const" && t.C != nil && t.C.Kind() == constant.Float {
								if x, ok := new(big.Rat).SetString(t.C.ExactString()); ok {
									addRep(x)
									addRep(new(big.Rat).Mul(x, scale))
								}
							}
							for _, a := range t.Args {
								walk(a)
							}
						}
						walk(cd.Cond)
					}
				}
			}
			bad := ""
			guarded := 0
			for _, p := range paths {
				if p.EndKind != "return" || p.Ret == nil {
					continue
				}
				// an error result that is not nil on this path
				refuses := false
				for _, r := range p.Ret.Results {
					if isErrorType(r.Type()) {
						if rt := p.Env.Term(r); !(rt.K == "const" && rt.C == nil) {
							refuses = true
						}
					}
				}
				if !refuses {
					continue
				}
				tests := false
				for _, cd := range p.Conds {
					if mentions(cd.Cond) {
						tests = true
					}
				}
				if !tests {
					continue
				}
				guarded++
				for _, r := range reps {
					holds := true
					for _, cd := range p.Conds {
						if !mentions(cd.Cond) {
							continue
						}
						v, ok := eval(cd.Cond, r)
						if !ok {
							bad = "an error path tests the amount through " + shorten(atomName(cd.Cond), 100) + ", which is not a comparison with constants"
							holds = false
							break
						}
						if (v.Sign() != 0) != cd.Truth {
							holds = false
							break
						}
					}
					if holds && bad == "" {
						bad = fmt.Sprintf("%s refuses the representable amount of %s satoshis (path: %s)", funcName(fn), r.RatString(), shorten(p.CondString(), 160))
					}
				}
			}
			c.Check(bad == "", "FLOAT", key, conv.Pos(), fmt.Sprintf("no amount in 0..21e14 satoshis is refused (%d amount-guarded error paths, %d boundary amounts)", guarded, len(reps)), bad)
		}
	}
	c.MinInstances("FLOAT/refusal", n, 2)
}

// ruleFloatText (FLOAT/text): the text form of an amount in a JSON document is encoding/json's own rendering and
// parsing of a float64 (shortest text that reads back to the same float64 - the premise of "1e8 scaling and
// rounding is exact"). A float-valued field of a struct with json tags whose type brings its own
// MarshalJSON / MarshalText / UnmarshalJSON / UnmarshalText replaces that rendering by hand-written formatting
// whose exactness is a numeric fact this rule cannot decide.
func ruleFloatText(c *Ctx) {
	n := 0
	for _, pk := range c.P.ScopePkgs() {
		sc := pk.Types.Scope()
		for _, name := range sc.Names() {
			tn, ok := sc.Lookup(name).(*types.TypeName)
			if !ok {
				continue
			}
			var walk func(t types.Type, label string, depth int)
			walk = func(t types.Type, label string, depth int) {
				st, ok := t.Underlying().(*types.Struct)
				if !ok || depth > 3 {
					return
				}
				for i := 0; i < st.NumFields(); i++ {
					f := st.Field(i)
					if !strings.Contains(st.Tag(i), "json:") {
						continue
					}
					ft := f.Type()
					if p, isP := ft.(*types.Pointer); isP {
						ft = p.Elem()
					}
					if _, isNamed := ft.(*types.Named); !isNamed {
						walk(ft, label+"."+f.Name(), depth+1) // anonymous struct members
					}
					if !isFloatType(ft) {
						continue
					}
					n++
					key := "text/" + label + "." + f.Name()
					var custom []string
					for _, m := range []string{"MarshalJSON", "MarshalText", "UnmarshalJSON", "UnmarshalText"} {
						for _, recv := range []types.Type{ft, types.NewPointer(ft)} {
							if obj, _, _ := types.LookupFieldOrMethod(recv, true, pk.Types, m); obj != nil {
								if _, isFn := obj.(*types.Func); isFn {
									custom = append(custom, m)
									break
								}
							}
						}
					}
					if len(custom) > 0 {
						c.Undecided("FLOAT", key, f.Pos(), "the amount field "+label+"."+f.Name()+" has type "+ft.String()+" with its own "+strings.Join(custom, ", ")+": the text of the amount is produced or read by hand-written formatting instead of encoding/json's float64 rendering, and whether every amount in 0..21e14 satoshis survives it is not decided")
					} else {
						c.OK("FLOAT", key, f.Pos(), "rendered and parsed by encoding/json as a plain "+ft.Underlying().String())
					}
				}
			}
			walk(tn.Type(), name, 0)
		}
	}
	c.MinInstances("FLOAT/text", n, 1)
}
