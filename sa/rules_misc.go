package main

import (
	"fmt"
	"go/constant"
	"go/token"
	"go/types"
	"strings"

	"golang.org/x/tools/go/ssa"
)

// FLOAT (C16): every float64 -> integer conversion in the library applies to a
// rounded value (math.Round / math.RoundToEven / math.Floor(x+0.5)), and the
// scale factor is the same constant 1e8 on the encoding and decoding side.
func ruleFloat(c *Ctx) {
	nconv, nscale := 0, 0
	scales := map[string]token.Pos{}
	for _, pk := range c.P.ScopePkgs() {
		for _, fn := range pkgFunctions(c.P, pk.PkgPath) {
			for _, b := range fn.Blocks {
				for _, ins := range b.Instrs {
					switch x := ins.(type) {
					case *ssa.Convert:
						if !isFloatType(x.X.Type()) || !isIntType(x.Type()) {
							continue
						}
						nconv += siteWeight(c.P, fn)
						key := fmt.Sprintf("float-to-int/%s#%s", funcName(fn), instrOrdinal(x))
						if roundedValue(x.X) {
							c.OK("FLOAT", key, x.Pos(), "the converted value is the result of a rounding call")
						} else {
							c.Fail("FLOAT", key, x.Pos(), "float64 is converted to an integer by truncation: amounts whose product falls just below an integer lose one unit (e.g. 0.00000003*1e8 = 2.9999999999999996)")
						}
					case *ssa.BinOp:
						if !isFloatType(x.Type()) || (x.Op != token.MUL && x.Op != token.QUO) {
							continue
						}
						for _, o := range []ssa.Value{x.X, x.Y} {
							if k, ok := o.(*ssa.Const); ok && k.Value != nil {
								nscale += siteWeight(c.P, fn)
								scales[k.Value.ExactString()] = x.Pos()
								c.OK("FLOAT", fmt.Sprintf("scale/%s#%s", funcName(fn), instrOrdinal(x)), x.Pos(), "scale constant "+k.Value.ExactString())
							}
						}
					}
				}
			}
		}
	}
	if len(scales) > 1 {
		var ks []string
		for k := range scales {
			ks = append(ks, k)
		}
		c.Fail("FLOAT", "scale-agreement", token.NoPos, "encoder and decoder use different float scale constants: "+strings.Join(ks, ", "))
	} else if len(scales) == 1 {
		for k := range scales {
			c.Check(k == "100000000", "FLOAT", "scale-agreement", token.NoPos, "all float scalings use 1e8 (satoshis per coin)", "float scale constant is "+k+", expected 100000000")
		}
	}
	c.MinInstances("FLOAT/conversions", nconv, 2)
	c.MinInstances("FLOAT/scalings", nscale, 4)
}

func isFloatType(t types.Type) bool {
	b, ok := t.Underlying().(*types.Basic)
	return ok && b.Info()&types.IsFloat != 0
}

func roundedValue(v ssa.Value) bool {
	call, ok := v.(*ssa.Call)
	if !ok {
		return false
	}
	sc := call.Call.StaticCallee()
	if sc == nil || sc.Pkg == nil || sc.Pkg.Pkg.Path() != "math" {
		return false
	}
	switch sc.Name() {
	case "Round", "RoundToEven":
		return true
	case "Floor":
		// Floor(x + 0.5)
		if bo, ok := call.Call.Args[0].(*ssa.BinOp); ok && bo.Op == token.ADD {
			for _, o := range []ssa.Value{bo.X, bo.Y} {
				if k, ok := o.(*ssa.Const); ok && k.Value != nil && constant.Compare(k.Value, token.EQL, constant.MakeFloat64(0.5)) {
					return true
				}
			}
		}
	}
	return false
}

// S-bigint (C05): (*big.Int).Int64 keeps only the low 64 bits of a larger number. In the
// interpreter it may be called only where the value is known to fit or where only the low
// bits are wanted; everything else must go through the saturating scriptNumber.Int64.
func ruleSBigInt(c *Ctx) {
	pe := pEngine(c)
	n := 0
	for _, fn := range pkgFunctions(c.P, modPath+"/bscript/interpreter") {
		for _, b := range fn.Blocks {
			for _, ins := range b.Instrs {
				call, ok := ins.(*ssa.Call)
				if !ok {
					continue
				}
				sc := call.Call.StaticCallee()
				if sc == nil || (sc.String() != "(*math/big.Int).Int64" && sc.String() != "(*math/big.Int).Uint64") {
					continue
				}
				n++
				key := fmt.Sprintf("%s#%s", funcName(fn), instrOrdinal(call))
				switch funcName(fn) {
				case "(*bscript/interpreter.scriptNumber).Int64":
					// must be dominated by the two failed range tests
					pf := pe.pf(fn)
					gt, lt := false, false
					for x := b; x != nil; x = x.Idom() {
						if len(x.Preds) != 1 {
							continue
						}
						pr := x.Preds[0]
						if iff, ok := pr.Instrs[len(pr.Instrs)-1].(*ssa.If); ok && pr.Succs[1] == x {
							cn := pf.get(iff.Cond)
							if cn.op == "call" && strings.Contains(cn.name, "GreaterThanInt") {
								gt = true
							}
							if cn.op == "call" && strings.Contains(cn.name, "LessThanInt") {
								lt = true
							}
						}
					}
					c.Check(gt && lt, "S-bigint", key, call.Pos(), "called only after the number was shown to lie within [MinInt64, MaxInt64]",
						"scriptNumber.Int64 converts without first excluding values above MaxInt64 / below MinInt64: large numbers wrap instead of saturating")
				case "(*bscript/interpreter.scriptNumber).Bytes":
					n-- // a tolerated use, not one the rule depends on: its disappearance changes nothing
					c.OK("S-bigint", key, call.Pos(), "Bytes uses the conversion for the pre-genesis clamp hint and to extract the low byte of a shrinking copy (low bits are what is wanted)")
				case "(*bscript/interpreter.scriptNumber).Int":
					// legacy accessor kept for its tests: it must have no callers in the library
					callers := 0
					if node := c.P.CG().Nodes[fn]; node != nil {
						for _, e := range node.In {
							if inScope(pkgPathOf(e.Caller.Func)) {
								callers++
							}
						}
					}
					c.Check(callers == 0, "S-bigint", key, call.Pos(), "wrapping accessor Int() has no callers in the library",
						fmt.Sprintf("scriptNumber.Int() wraps numbers beyond 64 bits and is called from %d library site(s): use the saturating Int64()/Int32()", callers))
				default:
					c.Fail("S-bigint", key, call.Pos(), "direct (*big.Int).Int64 on a script number outside the saturating accessors: post-genesis numbers beyond 64 bits wrap to their low bits")
				}
			}
		}
	}
	c.MinInstances("S-bigint", n, 2)
}

// siteWeight: how many sites of the baseline tree a construct stands for: 1 inside a baseline function;
// inside a helper outside the baseline list (duplicated code merged into one shared helper) the number of
// places the helper is called from, so that the vacuity guards still count what the code does.
func siteWeight(p *Prog, fn *ssa.Function) int {
	if inlineHelper == nil || !inlineHelper(fn) {
		return 1
	}
	node := p.CG().Nodes[fn]
	n := 0
	if node != nil {
		for _, e := range node.In {
			if inScope(pkgPathOf(e.Caller.Func)) {
				n += siteWeight(p, e.Caller.Func)
			}
		}
	}
	if n == 0 {
		return 1
	}
	return n
}
