package main

// Canonical terms over SSA values. go/ssa performs no CSE, so two loads of the
// same field are different SSA values; terms give them one structural name.
// Names are position independent: parameters are named by index, fields by
// name, locals by their defining instruction's ordinal in the function.

import (
	"fmt"
	"go/constant"
	"go/token"
	"go/types"
	"math/big"
	"strings"

	"golang.org/x/tools/go/ssa"
)

type T struct {
	K    string // const param global free field load addrfield addrindex index slice len cap bin un conv call phi alloc extract opaque
	Name string
	C    constant.Value
	Op   token.Token
	Args []*T
	Typ  types.Type
	V    ssa.Value
	s    string
}

func (t *T) String() string {
	if t == nil {
		return "<nil>"
	}
	if t.s != "" {
		return t.s
	}
	var as []string
	for _, a := range t.Args {
		as = append(as, a.String())
	}
	switch t.K {
	case "const":
		if t.C == nil {
			t.s = "nil"
		} else {
			t.s = t.C.ExactString()
		}
	case "param", "global", "free", "alloc", "phi", "opaque":
		t.s = t.Name
	case "field":
		t.s = as[0] + "." + t.Name
	case "addrfield":
		t.s = "&" + as[0] + "." + t.Name
	case "load":
		t.s = "*" + as[0]
	case "addrindex":
		t.s = "&" + as[0] + "[" + as[1] + "]"
	case "index":
		t.s = as[0] + "[" + as[1] + "]"
	case "slice":
		t.s = as[0] + "[" + as[1] + ":" + as[2] + "]"
	case "len":
		t.s = "len(" + as[0] + ")"
	case "cap":
		t.s = "cap(" + as[0] + ")"
	case "bin":
		t.s = "(" + as[0] + " " + t.Op.String() + " " + as[1] + ")"
	case "un":
		t.s = t.Op.String() + as[0]
	case "conv":
		t.s = t.Name + "(" + as[0] + ")"
	case "call":
		t.s = t.Name + "(" + strings.Join(as, ", ") + ")"
	case "extract":
		t.s = as[0] + "#" + t.Name
	case "ite":
		t.s = "ite(" + strings.Join(as, ", ") + ")"
	default:
		t.s = t.K + ":" + t.Name
	}
	return t.s
}

// TermEnv resolves phis along a chosen path (phi -> chosen incoming value).
type TermEnv struct {
	Phi   map[*ssa.Phi]ssa.Value
	Sub   map[ssa.Value]ssa.Value // inlined helpers: parameter -> argument, call result -> returned value
	SubT  map[ssa.Value]*T        // inlined helpers: call result -> its term, fixed at the call
	memo  map[ssa.Value]*T
	inPhi map[*ssa.Phi]bool
}

// Val follows the path's phi choices and inlining substitutions to the value that v stands for.
func (e *TermEnv) Val(v ssa.Value) ssa.Value {
	for i := 0; i < 32; i++ {
		if s, ok := e.Sub[v]; ok {
			v = s
			continue
		}
		if ph, ok := v.(*ssa.Phi); ok {
			if ch, ok := e.Phi[ph]; ok {
				v = ch
				continue
			}
		}
		break
	}
	return v
}

func newTermEnv() *TermEnv { return &TermEnv{Phi: map[*ssa.Phi]ssa.Value{}, memo: map[ssa.Value]*T{}} }

func instrOrdinal(v ssa.Value) string {
	in, ok := v.(ssa.Instruction)
	if !ok || in.Block() == nil {
		return v.Name()
	}
	// ordinal among instructions of the same Go type in the function
	fn := in.Parent()
	n := 0
	for _, b := range fn.Blocks {
		for _, i := range b.Instrs {
			if fmt.Sprintf("%T", i) == fmt.Sprintf("%T", in) {
				if i == in {
					return fmt.Sprintf("%d", n)
				}
				n++
			}
		}
	}
	return v.Name()
}

func (e *TermEnv) Term(v ssa.Value) *T {
	if t, ok := e.memo[v]; ok {
		return t
	}
	if t, ok := e.SubT[v]; ok {
		e.memo[v] = t
		return t
	}
	if s, ok := e.Sub[v]; ok {
		t := e.Term(s)
		e.memo[v] = t
		return t
	}
	t := e.term(v)
	if t.V == nil {
		t.V = v // (a phi or substitution resolved on the path keeps the value it resolved to)
	}
	if t.Typ == nil {
		t.Typ = v.Type()
	}
	e.memo[v] = t
	return t
}

func fieldName(t types.Type, i int) string {
	if p, ok := t.Underlying().(*types.Pointer); ok {
		t = p.Elem()
	}
	if s, ok := t.Underlying().(*types.Struct); ok && i < s.NumFields() {
		return s.Field(i).Name()
	}
	return fmt.Sprintf("f%d", i)
}

func (e *TermEnv) term(v ssa.Value) *T {
	switch x := v.(type) {
	case *ssa.Const:
		return &T{K: "const", C: x.Value, Typ: x.Type()}
	case *ssa.Parameter:
		for i, p := range x.Parent().Params {
			if p == x {
				return &T{K: "param", Name: fmt.Sprintf("p%d", i)}
			}
		}
		return &T{K: "param", Name: x.Name()}
	case *ssa.FreeVar:
		return &T{K: "free", Name: "fv:" + x.Name()}
	case *ssa.Global:
		return &T{K: "global", Name: "g:" + x.Pkg.Pkg.Name() + "." + x.Name(), V: x}
	case *ssa.FieldAddr:
		return &T{K: "addrfield", Name: fieldName(x.X.Type(), x.Field), Args: []*T{e.Term(x.X)}}
	case *ssa.Field:
		// a field of a copy of a local struct with write-once fields
		if v := e.fieldOfStructValue(x.X, x.Field, 0); v != nil {
			return e.Term(v)
		}
		return &T{K: "field", Name: fieldName(x.X.Type(), x.Field), Args: []*T{e.Term(x.X)}}
	case *ssa.IndexAddr:
		return &T{K: "addrindex", Args: []*T{e.Term(x.X), e.Term(x.Index)}}
	case *ssa.Index:
		return &T{K: "index", Args: []*T{e.Term(x.X), e.Term(x.Index)}}
	case *ssa.Lookup:
		return &T{K: "index", Args: []*T{e.Term(x.X), e.Term(x.Index)}}
	case *ssa.UnOp:
		if x.Op == token.MUL {
			// a captured local: the value it was given (in the function or seen from its closure)
			if al, ok := x.X.(*ssa.Alloc); ok {
				if v, ok := cellValue(al); ok {
					return e.Term(v)
				}
			}
			if fv, ok := x.X.(*ssa.FreeVar); ok {
				if v, ok := cellValue(freeVarCell(fv)); ok {
					return e.Term(v)
				}
			}
			// a write-once field of a local struct: the value it was initialised with
			if fa, ok := x.X.(*ssa.FieldAddr); ok {
				if al, ok := e.Val(fa.X).(*ssa.Alloc); ok {
					if v := fieldInitOf(al, fa.Field); v != nil {
						return e.Term(v)
					}
					// a value receiver spilled to a local of the method: a copy of the caller's struct
					for src, n := e.structCopyOf(al), 0; src != nil && n < 4; src, n = e.structCopyOf(src), n+1 {
						if v := fieldInitOf(src, fa.Field); v != nil {
							return e.Term(v)
						}
					}
					if v := e.fieldOfStructValue(&ssa.UnOp{Op: token.MUL, X: al}, fa.Field, 0); v != nil {
						return e.Term(v)
					}
					// a local that only ever received one whole struct value (a struct parameter spilled so that its
					// fields can be addressed): its field is that value's field
					if whole := wholeStructStore(al); whole != nil {
						return &T{K: "field", Name: fieldName(fa.X.Type(), fa.Field), Args: []*T{e.Term(whole.Val)}}
					}
				}
			}
			a := e.Term(x.X)
			switch a.K {
			case "addrfield":
				// *(&X.f): if X is itself an address-of chain, present as X.f
				return &T{K: "field", Name: a.Name, Args: []*T{derefBase(a.Args[0])}}
			case "addrindex":
				return &T{K: "index", Args: []*T{derefBase(a.Args[0]), a.Args[1]}}
			}
			return &T{K: "load", Args: []*T{a}}
		}
		return &T{K: "un", Op: x.Op, Args: []*T{e.Term(x.X)}}
	case *ssa.BinOp:
		return &T{K: "bin", Op: x.Op, Args: []*T{e.Term(x.X), e.Term(x.Y)}}
	case *ssa.Convert:
		return &T{K: "conv", Name: types.TypeString(x.Type(), func(*types.Package) string { return "" }), Args: []*T{e.Term(x.X)}}
	case *ssa.ChangeType:
		return e.Term(x.X)
	case *ssa.MakeInterface:
		return e.Term(x.X)
	case *ssa.Slice:
		lo, hi := &T{K: "const", C: constant.MakeInt64(0)}, (*T)(nil)
		if x.Low != nil {
			lo = e.Term(x.Low)
		}
		base := e.Term(x.X)
		if x.High != nil {
			hi = e.Term(x.High)
		} else {
			hi = &T{K: "len", Args: []*T{derefIfArrayPtr(base, x.X)}}
		}
		return &T{K: "slice", Args: []*T{base, lo, hi}}
	case *ssa.Phi:
		if ch, ok := e.Phi[x]; ok && !e.inPhi[x] {
			// (a path that starts at a loop header from its latch resolves the header's counters to
			// values of the round before, which are made of those counters: the inner occurrence stays
			// the opaque merged value)
			if e.inPhi == nil {
				e.inPhi = map[*ssa.Phi]bool{}
			}
			e.inPhi[x] = true
			t := e.Term(ch)
			delete(e.inPhi, x)
			return t
		}
		return &T{K: "phi", Name: fmt.Sprintf("phi@b%d.%s", x.Block().Index, instrOrdinal(x))}
	case *ssa.Alloc:
		return &T{K: "alloc", Name: "alloc#" + instrOrdinal(x)}
	case *ssa.Extract:
		return &T{K: "extract", Name: fmt.Sprintf("%d", x.Index), Args: []*T{e.Term(x.Tuple)}}
	case *ssa.Call:
		if b, ok := x.Call.Value.(*ssa.Builtin); ok && len(x.Call.Args) == 1 && (b.Name() == "len" || b.Name() == "cap") {
			return &T{K: b.Name(), Args: []*T{e.Term(x.Call.Args[0])}}
		}
		name := "call#" + instrOrdinal(x)
		if sc := x.Call.StaticCallee(); sc != nil {
			name = funcName(sc)
		} else if x.Call.IsInvoke() {
			name = "invoke:" + x.Call.Method.Name()
		}
		var args []*T
		if x.Call.IsInvoke() {
			args = append(args, e.Term(x.Call.Value))
		}
		for _, a := range x.Call.Args {
			args = append(args, e.Term(a))
		}
		// a call is not a pure term in general: disambiguate by ordinal
		return &T{K: "call", Name: name + "@" + instrOrdinal(x), Args: args}
	}
	return &T{K: "opaque", Name: fmt.Sprintf("%%%s#%s", fmt.Sprintf("%T", v), instrOrdinal(v))}
}

// cellValue: a local that lives in a heap cell only because a function literal captures it, assigned
// exactly once (in the function itself, never through the closures' free variables): the value stored.
func cellValue(al *ssa.Alloc) (ssa.Value, bool) {
	if al == nil || !al.Heap || al.Referrers() == nil {
		return nil, false
	}
	var stored ssa.Value
	captured := false
	for _, r := range *al.Referrers() {
		switch x := r.(type) {
		case *ssa.Store:
			if x.Addr != ssa.Value(al) || stored != nil {
				return nil, false
			}
			stored = x.Val
		case *ssa.UnOp, *ssa.DebugRef:
		case *ssa.MakeClosure:
			captured = true
			fn, ok := x.Fn.(*ssa.Function)
			if !ok {
				return nil, false
			}
			for i, b := range x.Bindings {
				if b != ssa.Value(al) || i >= len(fn.FreeVars) {
					continue
				}
				fv := fn.FreeVars[i]
				if fv.Referrers() == nil {
					continue
				}
				for _, fr := range *fv.Referrers() {
					switch y := fr.(type) {
					case *ssa.UnOp, *ssa.DebugRef:
					case *ssa.Store:
						if y.Addr == ssa.Value(fv) {
							return nil, false // the closure reassigns the variable
						}
						return nil, false
					default:
						return nil, false
					}
				}
			}
		default:
			return nil, false
		}
	}
	if stored == nil || !captured {
		return nil, false
	}
	return stored, true
}

// freeVarCell: the cell a closure's free variable is bound to, when the closure is created at exactly
// one place.
func freeVarCell(fv *ssa.FreeVar) *ssa.Alloc {
	fn := fv.Parent()
	if fn == nil || fn.Parent() == nil {
		return nil
	}
	idx := -1
	for i, f := range fn.FreeVars {
		if f == fv {
			idx = i
		}
	}
	var cell *ssa.Alloc
	n := 0
	for _, b := range fn.Parent().Blocks {
		for _, ins := range b.Instrs {
			if mc, ok := ins.(*ssa.MakeClosure); ok && mc.Fn == ssa.Value(fn) && idx >= 0 && idx < len(mc.Bindings) {
				n++
				cell, _ = mc.Bindings[idx].(*ssa.Alloc)
			}
		}
	}
	if n != 1 {
		return nil
	}
	return cell
}

func derefBase(t *T) *T {
	// X in &X.f is a pointer-valued term. If it is itself "&Y.g" present Y.g
	switch t.K {
	case "addrfield":
		return &T{K: "field", Name: t.Name, Args: []*T{derefBase(t.Args[0])}}
	case "addrindex":
		return &T{K: "index", Args: []*T{derefBase(t.Args[0]), t.Args[1]}}
	}
	return t
}

func derefIfArrayPtr(t *T, v ssa.Value) *T { return t }

// ---------------------------------------------------------------------
// constants

func constInt(v ssa.Value) (*big.Int, bool) {
	c, ok := v.(*ssa.Const)
	if !ok || c.Value == nil {
		return nil, false
	}
	return constValInt(c.Value)
}

func constValInt(cv constant.Value) (*big.Int, bool) {
	if cv == nil || cv.Kind() != constant.Int {
		return nil, false
	}
	if i, ok := constant.Int64Val(cv); ok {
		return big.NewInt(i), true
	}
	b, ok := new(big.Int).SetString(cv.ExactString(), 10)
	return b, ok
}

// evalTerm evaluates an integer/boolean term under an assignment of base
// terms (by canonical string) to integers. Pure arithmetic folding; it never
// touches go-bt code.
func evalTerm(t *T, asg map[string]*big.Int) (*big.Int, bool) {
	if v, ok := asg[t.String()]; ok {
		return v, true
	}
	switch t.K {
	case "ite":
		c, ok := evalTerm(t.Args[0], asg)
		if !ok {
			return nil, false
		}
		if c.Sign() != 0 {
			return evalTerm(t.Args[1], asg)
		}
		return evalTerm(t.Args[2], asg)
	case "index":
		// a lookup in a constant table with a key that evaluates
		if tab := tableOfTerm(t.Args[0]); tab != nil {
			if k, ok := evalTerm(t.Args[1], asg); ok {
				return tab.at(k), true
			}
		}
		return nil, false
	case "extract":
		// v, ok := table[key]
		if len(t.Args) == 1 && t.Args[0].K == "index" {
			if tab := tableOfTerm(t.Args[0].Args[0]); tab != nil {
				if k, ok := evalTerm(t.Args[0].Args[1], asg); ok {
					if t.Name == "0" {
						return tab.at(k), true
					}
					if tab.has(k) {
						return big.NewInt(1), true
					}
					return big.NewInt(0), true
				}
			}
		}
		return nil, false
	case "const":
		if t.C == nil {
			return nil, false
		}
		if t.C.Kind() == constant.Bool {
			if constant.BoolVal(t.C) {
				return big.NewInt(1), true
			}
			return big.NewInt(0), true
		}
		return constValInt(t.C)
	case "un":
		x, ok := evalTerm(t.Args[0], asg)
		if !ok {
			return nil, false
		}
		switch t.Op {
		case token.NOT:
			if x.Sign() == 0 {
				return big.NewInt(1), true
			}
			return big.NewInt(0), true
		case token.SUB:
			return wrapToType(new(big.Int).Neg(x), t.Typ), true
		}
		return nil, false
	case "conv":
		x, ok := evalTerm(t.Args[0], asg)
		if !ok {
			return nil, false
		}
		return wrapToType(x, t.Typ), true
	case "bin":
		x, ok1 := evalTerm(t.Args[0], asg)
		y, ok2 := evalTerm(t.Args[1], asg)
		if !ok1 || !ok2 {
			return nil, false
		}
		r := new(big.Int)
		switch t.Op {
		case token.ADD:
			r.Add(x, y)
		case token.SUB:
			r.Sub(x, y)
		case token.MUL:
			r.Mul(x, y)
		case token.QUO:
			if y.Sign() == 0 {
				return nil, false
			}
			r.Quo(x, y)
		case token.REM:
			if y.Sign() == 0 {
				return nil, false
			}
			r.Rem(x, y)
		case token.AND:
			r.And(x, y)
		case token.OR:
			r.Or(x, y)
		case token.XOR:
			r.Xor(x, y)
		case token.AND_NOT:
			r.AndNot(x, y)
		case token.SHL:
			r.Lsh(x, uint(y.Uint64()))
		case token.SHR:
			r.Rsh(x, uint(y.Uint64()))
		case token.EQL, token.NEQ, token.LSS, token.LEQ, token.GTR, token.GEQ:
			if cmpHolds(x, t.Op, y) {
				return big.NewInt(1), true
			}
			return big.NewInt(0), true
		case token.LAND:
			if x.Sign() != 0 && y.Sign() != 0 {
				return big.NewInt(1), true
			}
			return big.NewInt(0), true
		case token.LOR:
			if x.Sign() != 0 || y.Sign() != 0 {
				return big.NewInt(1), true
			}
			return big.NewInt(0), true
		default:
			return nil, false
		}
		return wrapToType(r, t.Typ), true
	}
	return nil, false
}

func cmpHolds(x *big.Int, op token.Token, y *big.Int) bool {
	c := x.Cmp(y)
	switch op {
	case token.EQL:
		return c == 0
	case token.NEQ:
		return c != 0
	case token.LSS:
		return c < 0
	case token.LEQ:
		return c <= 0
	case token.GTR:
		return c > 0
	case token.GEQ:
		return c >= 0
	}
	return false
}

// wordBits: the width of int/uint/uintptr assumed by the range reasoning (64; the thorough tier
// repeats the panic-site rules with 32 for information).
var wordBits uint = 64

func intTypeRange(t types.Type) (lo, hi *big.Int, ok bool) {
	b, isb := t.Underlying().(*types.Basic)
	if !isb || b.Info()&types.IsInteger == 0 {
		return nil, nil, false
	}
	bits := map[types.BasicKind]uint{types.Int8: 8, types.Int16: 16, types.Int32: 32, types.Int64: 64, types.Int: wordBits,
		types.Uint8: 8, types.Uint16: 16, types.Uint32: 32, types.Uint64: 64, types.Uint: wordBits, types.Uintptr: wordBits,
		types.UntypedInt: 64, types.UntypedRune: 32}[b.Kind()]
	if bits == 0 {
		return nil, nil, false
	}
	one := big.NewInt(1)
	if b.Info()&types.IsUnsigned != 0 {
		return big.NewInt(0), new(big.Int).Sub(new(big.Int).Lsh(one, bits), one), true
	}
	h := new(big.Int).Lsh(one, bits-1)
	return new(big.Int).Neg(h), new(big.Int).Sub(h, one), true
}

func wrapToType(x *big.Int, t types.Type) *big.Int {
	lo, hi, ok := intTypeRange(t)
	if !ok || (x.Cmp(lo) >= 0 && x.Cmp(hi) <= 0) {
		return x
	}
	span := new(big.Int).Add(new(big.Int).Sub(hi, lo), big.NewInt(1))
	r := new(big.Int).Sub(x, lo)
	r.Mod(r, span)
	return r.Add(r, lo)
}

// gateTerm replaces merged values (phis the path did not resolve) by if-then-else terms over the branch
// condition that decides which incoming value arrives, where the merge is a two-way diamond or triangle
// under its immediate dominator. The result is a function of the inputs again and can be evaluated.
func gateTerm(t *T, depth int) *T {
	if t == nil || depth > 8 {
		return t
	}
	if t.K == "phi" {
		ph, ok := t.V.(*ssa.Phi)
		if !ok || len(ph.Edges) != 2 {
			return t
		}
		m := ph.Block()
		d := m.Idom()
		if d == nil {
			return t
		}
		iff, ok := d.Instrs[len(d.Instrs)-1].(*ssa.If)
		if !ok {
			return t
		}
		side := func(p *ssa.BasicBlock) int {
			if p == d {
				for i, s := range d.Succs {
					if s == m {
						return i
					}
				}
				return -1
			}
			for i, s := range d.Succs {
				if s != m && s.Dominates(p) {
					return i
				}
			}
			return -1
		}
		s0, s1 := side(m.Preds[0]), side(m.Preds[1])
		if s0 < 0 || s1 < 0 || s0 == s1 {
			return t
		}
		env := newTermEnv()
		a, b := gateTerm(env.Term(ph.Edges[0]), depth+1), gateTerm(env.Term(ph.Edges[1]), depth+1)
		if s0 == 1 {
			a, b = b, a // a: the value on the true branch
		}
		cond := gateTerm(env.Term(iff.Cond), depth+1)
		return &T{K: "ite", Args: []*T{cond, a, b}, Typ: t.Typ, V: t.V}
	}
	if len(t.Args) == 0 {
		return t
	}
	changed := false
	args := make([]*T, len(t.Args))
	for i, a := range t.Args {
		args[i] = gateTerm(a, depth+1)
		if args[i] != a {
			changed = true
		}
	}
	if !changed {
		return t
	}
	c := *t
	c.Args = args
	c.s = ""
	c.V = nil
	return &c
}

func hasKind(t *T, k string) bool {
	if t == nil {
		return false
	}
	if t.K == k {
		return true
	}
	for _, a := range t.Args {
		if hasKind(a, k) {
			return true
		}
	}
	return false
}

// ---- write-once fields of local structs
//
// s := T{f: v, ...} followed by reads of s.f (directly, in methods of T read as part of the function, through a
// pointer or a copy of s): the read is v, provided field f of type T is stored nowhere in the module except by
// such initialisations of a local of its own (a store through any other address could alias the local).

var fieldStoreIndex map[string][]*ssa.Store // "pkg.Type.field" -> stores
var fieldStoreIndexFor *Prog

func fieldStoresOf(key string) []*ssa.Store {
	if theProg == nil {
		return nil
	}
	if fieldStoreIndex == nil || fieldStoreIndexFor != theProg {
		fieldStoreIndex = map[string][]*ssa.Store{}
		fieldStoreIndexFor = theProg
		for _, pk := range theProg.ScopePkgs() {
			for _, fn := range pkgFunctions(theProg, pk.PkgPath) {
				for _, b := range fn.Blocks {
					for _, ins := range b.Instrs {
						if st, ok := ins.(*ssa.Store); ok {
							if fa, ok := st.Addr.(*ssa.FieldAddr); ok {
								k := types.TypeString(derefType(fa.X.Type()), nil) + "." + fieldName(fa.X.Type(), fa.Field)
								fieldStoreIndex[k] = append(fieldStoreIndex[k], st)
							}
						}
					}
				}
			}
		}
	}
	return fieldStoreIndex[key]
}

func derefType(t types.Type) types.Type {
	if p, ok := t.Underlying().(*types.Pointer); ok {
		return p.Elem()
	}
	return t
}

// fieldInitOf: the one value stored into field #field of the local struct al, or nil.
func fieldInitOf(al *ssa.Alloc, field int) ssa.Value {
	st, ok := derefType(al.Type()).Underlying().(*types.Struct)
	if !ok || field >= st.NumFields() {
		return nil
	}
	if _, named := derefType(al.Type()).(*types.Named); !named {
		return nil
	}
	key := types.TypeString(derefType(al.Type()), nil) + "." + st.Field(field).Name()
	var mine ssa.Value
	for _, s := range fieldStoresOf(key) {
		fa := s.Addr.(*ssa.FieldAddr)
		base, isAl := fa.X.(*ssa.Alloc)
		if !isAl {
			return nil // stored through some other address: could be this object
		}
		if base == al {
			if mine != nil {
				return nil
			}
			mine = s.Val
		}
	}
	if mine == nil {
		return nil
	}
	// the local is never overwritten as a whole
	if al.Referrers() != nil {
		for _, r := range *al.Referrers() {
			if s, ok := r.(*ssa.Store); ok && s.Addr == ssa.Value(al) {
				return nil
			}
		}
	}
	return mine
}

// fieldOfStructValue: the value of field #field of the struct value v when it can be traced to the initialisation of
// a local struct with write-once fields: a load of such a local, a copy of it, or the result of a module function
// that returns one it built (its parameters are bound to the call's arguments in the environment).
func (e *TermEnv) fieldOfStructValue(v ssa.Value, field int, depth int) ssa.Value {
	if depth > 5 {
		return nil
	}
	v = e.Val(v)
	switch x := v.(type) {
	case *ssa.UnOp:
		if x.Op != token.MUL {
			return nil
		}
		al, ok := e.Val(x.X).(*ssa.Alloc)
		if !ok {
			return nil
		}
		if r := fieldInitOf(al, field); r != nil {
			return r
		}
		// the local received a whole struct once
		var whole *ssa.Store
		if al.Referrers() != nil {
			for _, r := range *al.Referrers() {
				if st, ok := r.(*ssa.Store); ok && st.Addr == ssa.Value(al) {
					if whole != nil {
						return nil
					}
					whole = st
				}
				if fa, ok := r.(*ssa.FieldAddr); ok && fa.Referrers() != nil {
					for _, rr := range *fa.Referrers() {
						if st, ok := rr.(*ssa.Store); ok && st.Addr == ssa.Value(fa) {
							return nil
						}
					}
				}
			}
		}
		if whole == nil {
			return nil
		}
		return e.fieldOfStructValue(whole.Val, field, depth+1)
	case *ssa.Call:
		sc := x.Call.StaticCallee()
		if sc == nil || !inScope(pkgPathOf(sc)) || len(sc.Blocks) == 0 || sc.Signature.Results().Len() != 1 {
			return nil
		}
		r := singleResult(sc, 0)
		if r == nil {
			return nil
		}
		if e.Sub == nil {
			e.Sub = map[ssa.Value]ssa.Value{}
		}
		for i, p := range sc.Params {
			if i < len(x.Call.Args) {
				if old, dup := e.Sub[p]; dup && old != x.Call.Args[i] {
					return nil // the same constructor called twice with different arguments on this path
				}
				e.Sub[p] = x.Call.Args[i]
			}
		}
		return e.fieldOfStructValue(r, field, depth+1)
	}
	return nil
}

// structCopyOf: al is a local that receives, in one store of the whole struct, a copy of another local struct
// (through the path's substitutions: a value receiver bound to the caller's variable): that other local.
func (e *TermEnv) structCopyOf(al *ssa.Alloc) *ssa.Alloc {
	if al.Referrers() == nil {
		return nil
	}
	var whole *ssa.Store
	for _, r := range *al.Referrers() {
		if st, ok := r.(*ssa.Store); ok && st.Addr == ssa.Value(al) {
			if whole != nil {
				return nil
			}
			whole = st
		}
		// the copy's own fields are not written
		if fa, ok := r.(*ssa.FieldAddr); ok && fa.Referrers() != nil {
			for _, rr := range *fa.Referrers() {
				if st, ok := rr.(*ssa.Store); ok && st.Addr == ssa.Value(fa) {
					return nil
				}
			}
		}
	}
	if whole == nil {
		return nil
	}
	if ld, ok := e.Val(whole.Val).(*ssa.UnOp); ok && ld.Op == token.MUL {
		if src, ok := e.Val(ld.X).(*ssa.Alloc); ok {
			return src
		}
	}
	return nil
}

// wholeStructStore: the single store that gives the local struct al its value, when nothing else writes
// the local or any of its fields and its address goes nowhere but into field reads.
func wholeStructStore(al *ssa.Alloc) *ssa.Store {
	if al.Referrers() == nil {
		return nil
	}
	if _, ok := derefType(al.Type()).Underlying().(*types.Struct); !ok {
		return nil
	}
	var whole *ssa.Store
	for _, r := range *al.Referrers() {
		switch x := r.(type) {
		case *ssa.Store:
			if x.Addr != ssa.Value(al) || whole != nil {
				return nil
			}
			whole = x
		case *ssa.FieldAddr:
			if x.Referrers() != nil {
				for _, rr := range *x.Referrers() {
					switch y := rr.(type) {
					case *ssa.UnOp:
						if y.Op != token.MUL {
							return nil
						}
					case *ssa.DebugRef:
					default:
						return nil // a field's address stored, passed on or written through
					}
				}
			}
		case *ssa.UnOp, *ssa.DebugRef:
		default:
			return nil
		}
	}
	if whole == nil || whole.Block() != al.Parent().Blocks[0] {
		return nil
	}
	return whole
}
