package main

// T-dto (C16): the JSON marshallers and unmarshallers agree on the data
// transfer structs: every DTO field the writers fill from a domain field is
// consumed by a reader into that same domain field.

import (
	"fmt"
	"go/token"
	"go/types"
	"sort"
	"strings"

	"golang.org/x/tools/go/ssa"
)

var dtoTypes = map[string]bool{"txJSON": true, "inputJSON": true, "outputJSON": true, "utxoJSON": true, "utxoNodeJSON": true,
	"nodeTxJSON": true, "nodeInputJSON": true, "nodeOutputJSON": true}
var domainTypes = map[string]bool{"Tx": true, "Input": true, "Output": true, "UTXO": true}

// DTO fields that are derived views (ids, sizes, renderings) and are legitimately ignored when
// reading, with the reason.
var derivedDTO = map[string]string{
	"txJSON.TxID":                         "id is recomputed from the content",
	"txJSON.Inputs":                       "redundant with Hex, which the reader prefers",
	"txJSON.Outputs":                      "redundant with Hex, which the reader prefers",
	"nodeTxJSON.TxID":                     "id is recomputed",
	"nodeTxJSON.Hash":                     "id is recomputed",
	"nodeTxJSON.Size":                     "derived",
	"nodeOutputJSON.Index":                "position in the list",
	"nodeOutputJSON.ScriptPubKey.Asm":     "rendering of Hex",
	"nodeOutputJSON.ScriptPubKey.ReqSigs": "derived from the script",
	"nodeOutputJSON.ScriptPubKey.Type":    "derived from the script",
	"nodeInputJSON.ScriptSig.Asm":         "rendering of Hex",
}

func structFieldLabel(fa *ssa.FieldAddr) (typeName, field string) {
	t := fa.X.Type()
	if p, ok := t.Underlying().(*types.Pointer); ok {
		t = p.Elem()
	}
	fld := fieldName(fa.X.Type(), fa.Field)
	if n, ok := t.(*types.Named); ok {
		return n.Obj().Name(), fld
	}
	// anonymous struct nested in a DTO (ScriptSig / ScriptPubKey): name through the parent
	if ld, ok := fa.X.(*ssa.UnOp); ok {
		if pfa, ok := ld.X.(*ssa.FieldAddr); ok {
			pt, pf := structFieldLabel(pfa)
			return pt, pf + "." + fld
		}
	}
	if pfa, ok := fa.X.(*ssa.FieldAddr); ok {
		pt, pf := structFieldLabel(pfa)
		return pt, pf + "." + fld
	}
	return "", fld
}

// fieldDeps: struct fields (Type.field) the value depends on, searching backwards.
func fieldDeps(c *Ctx, v ssa.Value, want map[string]bool, out map[string]bool, seen map[ssa.Value]bool, depth int) {
	if v == nil || depth > 14 || seen[v] {
		return
	}
	seen[v] = true
	switch x := v.(type) {
	case *ssa.FieldAddr:
		tn, f := structFieldLabel(x)
		if want[tn] {
			out[tn+"."+f] = true
			return
		}
		fieldDeps(c, x.X, want, out, seen, depth+1)
	case *ssa.Field:
		if n, ok := x.X.Type().(*types.Named); ok && want[n.Obj().Name()] {
			out[n.Obj().Name()+"."+fieldName(x.X.Type(), x.Field)] = true
			return
		}
		fieldDeps(c, x.X, want, out, seen, depth+1)
	case *ssa.UnOp:
		fieldDeps(c, x.X, want, out, seen, depth+1)
	case *ssa.Alloc:
		if x.Referrers() != nil {
			for _, r := range *x.Referrers() {
				switch y := r.(type) {
				case *ssa.Store:
					if y.Addr == x {
						fieldDeps(c, y.Val, want, out, seen, depth+1)
					}
				case *ssa.IndexAddr, *ssa.FieldAddr:
					if rv, ok := r.(ssa.Value); ok && rv.Referrers() != nil {
						for _, rr := range *rv.Referrers() {
							if st, ok := rr.(*ssa.Store); ok && st.Addr == rv {
								fieldDeps(c, st.Val, want, out, seen, depth+1)
							}
						}
					}
				case *ssa.Call:
					// e.g. json.Unmarshal(body, &j): j's content comes from the call, not from fields
				}
			}
		}
	case *ssa.Call:
		for _, a := range x.Call.Args {
			fieldDeps(c, a, want, out, seen, depth+1)
		}
		if sc := x.Call.StaticCallee(); sc != nil && inScope(pkgPathOf(sc)) && sc.Signature.Recv() != nil {
			// a method of a domain/DTO object: the fields of its receiver it reads
			for _, b := range sc.Blocks {
				for _, ins := range b.Instrs {
					if fa, ok := ins.(*ssa.FieldAddr); ok {
						if tn, f := structFieldLabel(fa); want[tn] && derivesFromParam(fa.X, sc.Params[0]) {
							out[tn+"."+f] = true
						}
					}
					if cc, ok := ins.(*ssa.Call); ok && depth < 6 {
						if s2 := cc.Call.StaticCallee(); s2 != nil && inScope(pkgPathOf(s2)) && s2.Signature.Recv() != nil && len(cc.Call.Args) > 0 && derivesFromParam(cc.Call.Args[0], sc.Params[0]) {
							fieldDeps(c, cc, want, out, seen, depth+3)
						}
					}
				}
			}
		}
	case *ssa.Extract:
		fieldDeps(c, x.Tuple, want, out, seen, depth+1)
	case *ssa.Convert:
		fieldDeps(c, x.X, want, out, seen, depth+1)
	case *ssa.ChangeType:
		fieldDeps(c, x.X, want, out, seen, depth+1)
	case *ssa.MakeInterface:
		fieldDeps(c, x.X, want, out, seen, depth+1)
	case *ssa.Slice:
		fieldDeps(c, x.X, want, out, seen, depth+1)
	case *ssa.IndexAddr:
		fieldDeps(c, x.X, want, out, seen, depth+1)
	case *ssa.BinOp:
		fieldDeps(c, x.X, want, out, seen, depth+1)
		fieldDeps(c, x.Y, want, out, seen, depth+1)
	case *ssa.Phi:
		for _, e := range x.Edges {
			fieldDeps(c, e, want, out, seen, depth+1)
		}
	}
}

func derivesFromParam(v ssa.Value, p *ssa.Parameter) bool {
	for i := 0; i < 6; i++ {
		switch x := v.(type) {
		case *ssa.Parameter:
			return x == p
		case *ssa.UnOp:
			v = x.X
		case *ssa.FieldAddr:
			v = x.X
		case *ssa.ChangeType:
			v = x.X
		default:
			return false
		}
	}
	return false
}

func ruleTDto(c *Ctx) {
	e := oEngine(c)
	writers := map[string]map[string]bool{} // dto field -> domain fields it is filled from
	readers := map[string]map[string]bool{} // dto field -> domain fields it is stored into
	wpos := map[string]token.Pos{}
	add := func(m map[string]map[string]bool, k string, vs map[string]bool) {
		if m[k] == nil {
			m[k] = map[string]bool{}
		}
		for v := range vs {
			m[k][v] = true
		}
	}
	nw, nr := 0, 0
	for _, fn := range pkgFunctions(c.P, modPath) {
		name := fn.Name()
		isW := name == "MarshalJSON" || name == "fromOutput" || name == "fromInput"
		isR := name == "UnmarshalJSON" || name == "toOutput" || name == "toInput"
		if !isW && !isR {
			continue
		}
		for _, b := range fn.Blocks {
			for _, ins := range b.Instrs {
				switch x := ins.(type) {
				case *ssa.Store:
					fa, ok := x.Addr.(*ssa.FieldAddr)
					if !ok {
						continue
					}
					tn, f := structFieldLabel(fa)
					if isW && dtoTypes[tn] {
						deps := map[string]bool{}
						fieldDeps(c, x.Val, domainTypes, deps, map[ssa.Value]bool{}, 0)
						nw++
						add(writers, tn+"."+f, deps)
						if _, ok := wpos[tn+"."+f]; !ok {
							wpos[tn+"."+f] = x.Pos()
						}
					}
					if isR && domainTypes[tn] {
						deps := map[string]bool{}
						fieldDeps(c, x.Val, dtoTypes, deps, map[ssa.Value]bool{}, 0)
						nr++
						for d := range deps {
							add(readers, d, map[string]bool{tn + "." + f: true})
						}
					}
				case *ssa.Call:
					if !isR {
						continue
					}
					// domain method called with DTO-derived arguments: it stores into the fields its summary lists
					sc := x.Call.StaticCallee()
					if sc == nil || sc.Signature.Recv() == nil || !inScope(pkgPathOf(sc)) {
						continue
					}
					rn := namedOfPtr(sc.Signature.Recv().Type())
					if rn == nil || !domainTypes[rn.Obj().Name()] {
						continue
					}
					deps := map[string]bool{}
					for _, a := range x.Call.Args[1:] {
						fieldDeps(c, a, dtoTypes, deps, map[ssa.Value]bool{}, 0)
					}
					if len(deps) == 0 {
						continue
					}
					if sum := e.Sums[sc]; sum != nil {
						for fs := range sum.FieldsStored {
							if strings.HasPrefix(fs, rn.Obj().Name()+".") {
								nr++
								for d := range deps {
									add(readers, d, map[string]bool{fs: true})
								}
							}
						}
					}
				}
			}
		}
	}
	c.Covered["T-dto:writer_stores"] = nw
	c.Covered["T-dto:reader_stores"] = nr
	var keys []string
	for k := range writers {
		keys = append(keys, k)
	}
	sort.Strings(keys)
	checked := 0
	for _, k := range keys {
		src := writers[k]
		dst := map[string]bool{}
		for d := range readers[k] {
			dst[d] = true
		}
		for rk, ds := range readers {
			if strings.HasPrefix(rk, k+".") { // members of a nested struct stored as a whole by the writer
				for d := range ds {
					dst[d] = true
				}
			}
		}
		if len(src) == 0 {
			continue // constant or derived without a domain source
		}
		if dtoContainerField(c, k) {
			continue // a list of / pointer to another transfer object: its members are checked one by one
		}
		checked++
		if len(dst) == 0 {
			if why, ok := derivedDTO[k]; ok {
				c.OK("T-dto", k, wpos[k], "written but not read back: "+why)
			} else if strings.HasSuffix(k, ".Hex") {
				c.OK("T-dto", k, wpos[k], "the hex form is consumed as a whole by the reader (NewTxFromString)")
			} else {
				c.Fail("T-dto", k, wpos[k], fmt.Sprintf("the marshaller fills %s from %s but no unmarshaller stores it anywhere: the value is lost on a JSON round trip", k, setKeys(src)))
			}
			continue
		}
		// every destination must be one of the sources
		bad := []string{}
		hit := false
		for d := range dst {
			if src[d] {
				hit = true
				continue
			}
			if d == "Tx.Inputs" || d == "Tx.Outputs" {
				continue // the element travels on into its container
			}
			if len(src) < 4 {
				bad = append(bad, d)
			}
		}
		if !hit && len(src) < 4 {
			bad = append(bad, "(none of "+setKeys(src)+")")
		}
		sort.Strings(bad)
		if len(bad) == 0 {
			c.OK("T-dto", k, wpos[k], fmt.Sprintf("%s -> %s -> %s", setKeys(src), k, setKeys(dst)))
		} else {
			c.Fail("T-dto", k, wpos[k], fmt.Sprintf("%s is filled from %s but read back into %v: field mapped from the wrong source", k, setKeys(src), bad))
		}
	}
	c.MinInstances("T-dto", checked, 14)
}

func setKeys(m map[string]bool) string {
	var ks []string
	for k := range m {
		ks = append(ks, k)
	}
	sort.Strings(ks)
	return "{" + strings.Join(ks, ",") + "}"
}

// ruleTDtoOnce: a reader copies a decoded field into the domain object once. A second store to the
// same domain field in the same reader, with a value that does not come from the decoded document
// (a constant default applied under a condition), replaces legitimate decoded values (e.g. sequence 0).
func ruleTDtoOnce(c *Ctx) {
	n := 0
	for _, fn := range pkgFunctions(c.P, modPath) {
		type st struct {
			store   *ssa.Store
			fromDTO bool
		}
		byField := map[string][]st{}
		for _, b := range fn.Blocks {
			for _, ins := range b.Instrs {
				s, ok := ins.(*ssa.Store)
				if !ok {
					continue
				}
				fa, ok := s.Addr.(*ssa.FieldAddr)
				if !ok {
					continue
				}
				tn, f := structFieldLabel(fa)
				if !domainTypes[tn] {
					continue
				}
				deps := map[string]bool{}
				fieldDeps(c, s.Val, dtoTypes, deps, map[ssa.Value]bool{}, 0)
				from := len(deps) > 0
				byField[tn+"."+f] = append(byField[tn+"."+f], st{s, from})
			}
		}
		for fld, ss := range byField {
			anyDTO := false
			for _, x := range ss {
				if x.fromDTO {
					anyDTO = true
				}
			}
			if !anyDTO {
				continue
			}
			n++
			for _, x := range ss {
				if x.fromDTO {
					continue
				}
				if _, isConst := x.store.Val.(*ssa.Const); isConst || len(ss) > 1 {
					c.Fail("T-dto", "once/"+funcName(fn)+"/"+fld, x.store.Pos(), funcName(fn)+" copies "+fld+" from the decoded document and also overwrites it with a value that does not come from the document: a legitimately decoded value is replaced by a default")
				}
			}
			if len(ss) == 1 || allFromDTO(ss, func(i int) bool { return ss[i].fromDTO }) {
				c.OK("T-dto", "once/"+funcName(fn)+"/"+fld, ss[0].store.Pos(), "the domain field is set only from the decoded document")
			}
		}
	}
	c.Covered["T-dto:reader_fields"] = n
}

func allFromDTO[T any](ss []T, f func(int) bool) bool {
	for i := range ss {
		if !f(i) {
			return false
		}
	}
	return true
}

// dtoContainerField: "Type.field" whose type is a slice of, or pointer to, another transfer-object type.
func dtoContainerField(c *Ctx, k string) bool {
	i := strings.Index(k, ".")
	if i < 0 {
		return false
	}
	tn, fld := k[:i], k[i+1:]
	pk := c.P.Pkgs[modPath]
	if pk == nil || pk.Types == nil {
		return false
	}
	obj := pk.Types.Scope().Lookup(tn)
	if obj == nil {
		return false
	}
	st, ok := obj.Type().Underlying().(*types.Struct)
	if !ok {
		return false
	}
	for j := 0; j < st.NumFields(); j++ {
		if st.Field(j).Name() != fld {
			continue
		}
		t := st.Field(j).Type()
		if sl, ok := t.Underlying().(*types.Slice); ok {
			t = sl.Elem()
		}
		if p, ok := t.Underlying().(*types.Pointer); ok {
			t = p.Elem()
		}
		if n, ok := t.(*types.Named); ok && dtoTypes[n.Obj().Name()] {
			return true
		}
	}
	return false
}
