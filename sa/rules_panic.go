package main

import (
	"fmt"
	"go/token"
	"regexp"
	"sort"
	"strings"

	"golang.org/x/tools/go/ssa"
)

// nilable sources: pointer fields that library-built or decoded objects may
// legitimately hold as nil. Confirmed by reading construction sites; the
// discovery rule P-nilsrc re-derives candidates on every run.
var nilableFields = map[string]bool{
	"Input.UnlockingScript":               true,
	"Input.PreviousTxScript":              true,
	"UTXO.LockingScript":                  true,
	"UTXO.Unlocker":                       true,
	"thread.tx":                           true,
	"thread.prevOutput":                   true,
	"execOpts.lockingScript":              true,
	"execOpts.unlockingScript":            true,
	"execOpts.previousTxOut":              true,
	"execOpts.tx":                         true,
	"execOpts.debugger":                   true,
	"execOpts.state":                      true,
	"nodeInputJSON.ScriptSig":             true,
	"nodeOutputJSON.ScriptPubKey":         true,
	"InscriptionArgs.LockingScriptPrefix": true,
	"InscriptionArgs.EnrichedArgs":        true,
	"[]*nodeInputJSON":                    true,
	"[]*nodeOutputJSON":                   true,
}

// rules for which unbounded allocation sizes are violations (decoders of untrusted bytes)
var allocRules = map[string]bool{"P-dec": true}

var pEngineCache = map[*Prog]*PEngine{}

func pEngine(c *Ctx) *PEngine {
	if e, ok := pEngineCache[c.P]; ok {
		return e
	}
	e := NewPEngine(c.P, oEngine(c))
	e.Nilable = nilableFields
	pEngineCache[c.P] = e
	return e
}

type entrySpec struct{ pkg, recv, name string }

func resolveEntries(c *Ctx, rule string, specs []entrySpec) []*ssa.Function {
	var out []*ssa.Function
	for _, s := range specs {
		fn := c.P.Func(s.pkg, s.recv, s.name)
		if fn == nil {
			c.Undecided(rule, "entry/"+s.pkg+"."+s.recv+"."+s.name, token.NoPos, "entry point not found (anchor unresolved)")
			continue
		}
		out = append(out, fn)
	}
	return out
}

// runP enumerates and discharges all partial operations reachable from the entries.
func runP(c *Ctx, rule string, specs []entrySpec, minFuncs, minPCIs int) {
	pe := pEngine(c)
	entries := resolveEntries(c, rule, specs)
	isEntry := map[*ssa.Function]bool{}
	for _, e := range entries {
		isEntry[e] = true
	}
	fns := pe.reachable(entries)
	n := 0
	byKind := map[string]int{}
	for _, fn := range fns {
		for _, p := range pe.enumerate(fn, isEntry[fn]) {
			if p.kind == "alloc" && !allocRules[rule] {
				ok, _, _ := pe.discharge(p)
				if !ok {
					c.InfoNote(rule, p.key, posOfInstr(p.ins), "allocation size is not bounded by existing memory or a constant (resource use, not decided for this property)")
				}
				continue
			}
			n++
			byKind[p.kind]++
			ok, facts, why := pe.discharge(p)
			key := p.key
			if ok {
				d := "guards on every path establish the precondition"
				if len(facts) > 0 {
					d = strings.Join(facts, "; ")
				}
				c.OK(rule, key, p.ins.Pos(), d)
			} else {
				if len(facts) > 12 {
					facts = facts[:12]
				}
				cur := p
				c.premiseCheck = func(o *Obligation, premises []string) (bool, string) {
					return pe.provePremises(cur, premises)
				}
				c.FailVia(rule, key, posOfInstr(p.ins), p.kind+" site not guarded on every path: "+why, pe.callerKeys(p, key), facts...)
				c.premiseCheck = nil
			}
		}
	}
	if c.Tier == "thorough" {
		// deeper: the same obligations over the functions that only the coarser class-hierarchy call
		// graph reaches from the entry points (interface methods the value-flow graph proves unused)
		inFns := map[*ssa.Function]bool{}
		for _, f := range fns {
			inFns[f] = true
		}
		cha := c.P.CHA()
		seen := map[*ssa.Function]bool{}
		var extra []*ssa.Function
		var walk func(f *ssa.Function)
		walk = func(f *ssa.Function) {
			if f == nil || seen[f] {
				return
			}
			seen[f] = true
			if !inFns[f] && len(f.Blocks) > 0 && inScope(pkgPathOf(f)) {
				extra = append(extra, f)
			}
			if nd := cha.Nodes[f]; nd != nil {
				for _, e := range nd.Out {
					if inScope(pkgPathOf(e.Callee.Func)) {
						walk(e.Callee.Func)
					}
				}
			}
		}
		for _, f := range fns {
			walk(f)
		}
		sort.Slice(extra, func(i, j int) bool { return funcName(extra[i]) < funcName(extra[j]) })
		ne, nu := 0, 0
		for _, fn := range extra {
			for _, p := range pe.enumerate(fn, false) {
				if p.kind == "alloc" {
					continue
				}
				ne++
				ok, _, why := pe.discharge(p)
				if ok {
					c.OK(rule, "cha/"+p.key, p.ins.Pos(), "guarded (function reached only through the class-hierarchy call graph)")
				} else {
					nu++
					c.InfoNote(rule, "cha/"+p.key, posOfInstr(p.ins), "not proven, in a function the value-flow call graph shows unreachable from the property's entry points (reached only under the class-hierarchy over-approximation): "+why)
				}
			}
		}
		c.Covered[rule+":thorough:cha_only_functions"] = len(extra)
		c.Covered[rule+":thorough:cha_only_partial_operations"] = ne
		c.Covered[rule+":thorough:cha_only_unproven"] = nu
	}
	if c.Tier == "thorough" && !strings.HasSuffix(rule, ".w32") {
		runPWord32(c, rule, specs, fns)
	}
	c.Covered[rule+":functions_reachable"] = len(fns)
	c.Covered[rule+":partial_operations"] = n
	var ks []string
	for k := range byKind {
		ks = append(ks, k)
	}
	sort.Strings(ks)
	for _, k := range ks {
		c.Covered[rule+":kind:"+k] = byKind[k]
	}
	if len(fns) < minFuncs {
		c.Undecided(rule, "min-functions", token.NoPos, fmt.Sprintf("only %d functions reachable from the entry points (expected >= %d): call graph no longer resolves", len(fns), minFuncs))
	}
	c.MinInstances(rule, n, minPCIs)
}

// word32Enforced: rules whose obligations must also hold where int is 32 bits wide (decoders and
// inspectors of untrusted bytes: a length read from the input must not turn negative). For the
// interpreter rules the 32-bit pass is informational: the prover's range reasoning for int64
// quantities narrowed to int is incomplete there and its reports need reading.
var word32Enforced = map[string]bool{"P-dec": true, "P-codec": true, "P-insp": true, "P-json": true}

// runPWord32 (thorough tier): the same partial operations decided again with int, uint and uintptr
// taken as 32-bit types (GOARCH=386/arm), on a fresh engine. Only sites whose verdict differs from
// the 64-bit pass are recorded.
func runPWord32(c *Ctx, rule string, specs []entrySpec, fns []*ssa.Function) {
	saved, savedHook := pEngineCache[c.P], callRangeHook
	delete(pEngineCache, c.P)
	wordBits = 32
	defer func() {
		wordBits = 64
		pEngineCache[c.P] = saved
		callRangeHook = savedHook
	}()
	var pe *PEngine
	if strings.HasPrefix(rule, "P-exec") {
		pe = configureInterpP(c)
	} else {
		pe = pEngine(c)
	}
	isEntry := map[*ssa.Function]bool{}
	for _, e := range resolveEntries(c, rule+".w32", specs) {
		isEntry[e] = true
	}
	n, open := 0, 0
	for _, fn := range fns {
		for _, p := range pe.enumerate(fn, isEntry[fn]) {
			if p.kind == "alloc" {
				continue
			}
			n++
			ok, facts, why := pe.discharge(p)
			if ok {
				continue
			}
			// was it open in the 64-bit pass too (then it is already reported/trusted there)?
			already := false
			for _, o := range c.Obls {
				if o.Rule == rule && o.Key == p.key && o.Verdict != Discharged {
					already = true
				}
			}
			if already {
				continue
			}
			open++
			if word32Enforced[rule] {
				if len(facts) > 8 {
					facts = facts[:8]
				}
				c.Fail(rule+".w32", p.key, posOfInstr(p.ins), p.kind+" site not guarded where int is 32 bits wide (GOARCH=386/arm): "+why, facts...)
			} else {
				c.InfoNote(rule+".w32", p.key, posOfInstr(p.ins), p.kind+" site not proven where int is 32 bits wide (informational for this rule): "+why)
			}
		}
	}
	if open == 0 {
		c.OK(rule+".w32", "all-sites", token.NoPos, fmt.Sprintf("all %d partial operations are also guarded with int/uint taken as 32-bit types", n))
	}
	c.Covered[rule+":thorough:word32_partial_operations"] = n
	c.Covered[rule+":thorough:word32_open"] = open
}

func posOfInstr(ins ssa.Instruction) token.Pos {
	if p := ins.Pos(); p.IsValid() {
		return p
	}
	// fall back to the nearest instruction with a position in the block
	b := ins.Block()
	for _, i := range b.Instrs {
		if i.Pos().IsValid() {
			return i.Pos()
		}
	}
	return ins.Parent().Pos()
}

func ruleTermExec(c *Ctx) {
	configureInterpP(c)
	ruleTerm(c, "TERM", []entrySpec{{"bscript/interpreter", "*engine", "Execute"}}, 20)
}

func rulePExec(c *Ctx) {
	configureInterpP(c)
	runP(c, "P-exec", []entrySpec{{"bscript/interpreter", "*engine", "Execute"}}, 150, 200)
}

// ---------------------------------------------------------------------
// T-gate: signature/locktime handlers only run with a transaction context.
//
// Premises (each checked on the SSA form):
//
//	G1 createThread builds the parser with ErrorOnCheckSig false only if both
//	   opts.tx and opts.previousTxOut are non-nil;
//	G2 in DefaultOpcodeParser.Parse the test ErrorOnCheckSig && RequiresTx()
//	   dominates every append of a parsed opcode;
//	G3 thread.tx / thread.prevOutput / thread.scriptParser are stored only in
//	   apply (from opts.tx / opts.previousTxOut) and in the createThread literal;
//	G4 the handler is bound in opcodeArray only to opcodes for which RequiresTx()
//	   is true.
//
// Conclusion used by engine P: inside such a handler thread.tx and
// thread.prevOutput are non-nil.
type gateInfo struct {
	handlers map[string]bool
	ok       bool
}

var gateCache = map[*Prog]*gateInfo{}

func computeGate(c *Ctx) *gateInfo {
	if g, ok := gateCache[c.P]; ok {
		return g
	}
	g := &gateInfo{handlers: map[string]bool{}, ok: true}
	gateCache[c.P] = g
	fail := func(key string, pos token.Pos, msg string) {
		g.ok = false
		c.Fail("T-gate", key, pos, msg)
	}
	pe := pEngine(c)
	// G1
	ct := c.P.Func("bscript/interpreter", "", "createThread")
	if ct == nil {
		c.Undecided("T-gate", "G1/createThread", token.NoPos, "createThread not found")
		g.ok = false
		return g
	}
	foundG1 := false
	// createThread and the helpers it was split into (functions outside the baseline list it calls)
	g1Fns := []*ssa.Function{ct}
	for i := 0; i < len(g1Fns) && i < 6; i++ {
		for _, b := range g1Fns[i].Blocks {
			for _, ins := range b.Instrs {
				if call, ok := ins.(*ssa.Call); ok {
					if sc := call.Call.StaticCallee(); sc != nil && inlineHelper != nil && inlineHelper(sc) && len(sc.Blocks) > 0 {
						dup := false
						for _, f := range g1Fns {
							if f == sc {
								dup = true
							}
						}
						if !dup {
							g1Fns = append(g1Fns, sc)
						}
					}
				}
			}
		}
	}
	for _, g1fn := range g1Fns {
		pf := pe.pf(g1fn)
		for _, b := range g1fn.Blocks {
			for _, ins := range b.Instrs {
				st, ok := ins.(*ssa.Store)
				if !ok {
					continue
				}
				fa, ok := st.Addr.(*ssa.FieldAddr)
				if !ok || fieldName(fa.X.Type(), fa.Field) != "ErrorOnCheckSig" {
					continue
				}
				foundG1 = true
				fs := &factSet{}
				pf.condFacts(pf.get(st.Val), false, "ErrorOnCheckSig == false", fs, 0)
				need := map[string]bool{"tx": false, "previousTxOut": false}
				for _, f := range fs.facts {
					if f.nonil == "" {
						continue
					}
					n := pf.byKey[f.nonil]
					if n != nil && n.op == "load" && n.args[0].op == "fieldaddr" && n.args[0].args[0].op == "param" {
						for k := range need {
							if strings.HasSuffix(n.args[0].name, "execOpts."+k) {
								need[k] = true
							}
						}
					}
				}
				if need["tx"] && need["previousTxOut"] {
					c.OK("T-gate", "G1/ErrorOnCheckSig", st.Pos(), "ErrorOnCheckSig is false only when opts.tx != nil and opts.previousTxOut != nil")
				} else {
					fail("G1/ErrorOnCheckSig", st.Pos(), fmt.Sprintf("ErrorOnCheckSig == false does not imply opts.tx != nil and opts.previousTxOut != nil (derived: %v): signature opcodes could run without a transaction context", need))
				}
			}
		}
	}
	if !foundG1 {
		fail("G1/ErrorOnCheckSig", ct.Pos(), "createThread no longer sets DefaultOpcodeParser.ErrorOnCheckSig")
	}
	// G2
	parse := c.P.Func("bscript/interpreter", "*DefaultOpcodeParser", "Parse")
	if parse == nil {
		c.Undecided("T-gate", "G2/Parse", token.NoPos, "Parse not found")
		g.ok = false
		return g
	}
	var gateBlock *ssa.BasicBlock
	var appends []*ssa.Call
	for _, b := range parse.Blocks {
		for _, ins := range b.Instrs {
			call, ok := ins.(*ssa.Call)
			if !ok {
				continue
			}
			if sc := call.Call.StaticCallee(); sc != nil && sc.Name() == "RequiresTx" {
				gateBlock = b
			}
			if bi, ok := call.Call.Value.(*ssa.Builtin); ok && bi.Name() == "append" {
				if strings.Contains(call.Type().String(), "ParsedOpcode") {
					appends = append(appends, call)
				}
			}
		}
	}
	if gateBlock == nil || len(appends) == 0 {
		fail("G2/Parse-gate", parse.Pos(), "Parse does not call RequiresTx() or appends no parsed opcodes")
	} else {
		// Shape: A: if p.ErrorOnCheckSig goto B else C;  B: if RequiresTx() goto RET(error) else C.
		// A must dominate every append (so the flag is consulted for every opcode), B must be
		// A's true successor, and B's true successor must return without appending.
		okAll := true
		var aBlock *ssa.BasicBlock
		if len(gateBlock.Preds) == 1 {
			aBlock = gateBlock.Preds[0]
		}
		var aIf *ssa.If
		if aBlock != nil {
			aIf, _ = aBlock.Instrs[len(aBlock.Instrs)-1].(*ssa.If)
		}
		ppf := pe.pf(parse)
		if aIf == nil || aBlock.Succs[0] != gateBlock {
			okAll = false
			fail("G2/Parse-gate", parse.Pos(), "RequiresTx() is not evaluated exactly when ErrorOnCheckSig is true")
		} else {
			cond := ppf.get(aIf.Cond)
			if !(cond.op == "load" && strings.HasSuffix(cond.name, "DefaultOpcodeParser.ErrorOnCheckSig")) {
				okAll = false
				fail("G2/Parse-gate", aIf.Pos(), "the branch guarding RequiresTx() does not test p.ErrorOnCheckSig")
			}
			for _, a := range appends {
				if !aBlock.Dominates(a.Block()) {
					okAll = false
					fail("G2/append-not-gated", a.Pos(), "an opcode is appended to the parsed script on a path that bypasses the ErrorOnCheckSig test")
				}
			}
		}
		iff, isIf := gateBlock.Instrs[len(gateBlock.Instrs)-1].(*ssa.If)
		if !isIf {
			okAll = false
			fail("G2/Parse-gate", parse.Pos(), "RequiresTx() result is not branched on")
		} else {
			ts := gateBlock.Succs[0]
			_, isRet := ts.Instrs[len(ts.Instrs)-1].(*ssa.Return)
			condCall, isCondCall := iff.Cond.(*ssa.Call)
			isReq := isCondCall && condCall.Call.StaticCallee() != nil && condCall.Call.StaticCallee().Name() == "RequiresTx"
			if !isRet || !isReq {
				okAll = false
				fail("G2/Parse-gate", iff.Pos(), "the RequiresTx() branch does not return an error immediately")
			}
		}
		if okAll {
			c.OK("T-gate", "G2/Parse-gate", parse.Pos(), fmt.Sprintf("the ErrorOnCheckSig && RequiresTx() test precedes all %d appends of parsed opcodes", len(appends)))
		}
	}
	// G3
	for _, fld := range []string{"tx", "prevOutput", "scriptParser"} {
		cls := "F:interpreter.thread." + fld
		var sites []string
		for _, fn := range pe.O.fns {
			if !inScope(pkgPathOf(fn)) {
				continue
			}
			for _, b := range fn.Blocks {
				for _, ins := range b.Instrs {
					if st, ok := ins.(*ssa.Store); ok {
						if fa, ok := st.Addr.(*ssa.FieldAddr); ok && structFieldClass(fa.X.Type(), fa.Field) == cls {
							sites = append(sites, funcName(fn))
							okSite := funcName(fn) == "(*bscript/interpreter.thread).apply" && fld != "scriptParser" ||
								funcName(fn) == "bscript/interpreter.createThread" && fld == "scriptParser"
							if !okSite {
								fail("G3/store/"+fld+"/"+funcName(fn), st.Pos(), "thread."+fld+" is stored outside apply/createThread: the gating argument no longer covers it")
							}
						}
					}
				}
			}
		}
		if len(sites) == 0 {
			fail("G3/store/"+fld, token.NoPos, "no store to thread."+fld+" found")
		} else {
			c.OK("T-gate", "G3/store/"+fld, token.NoPos, "stored only in "+strings.Join(sites, ","))
		}
	}
	// G4
	ents, ok := readOpcodeArray(c, "T-gate")
	if !ok {
		g.ok = false
		return g
	}
	req, _, ok2 := func() (map[int64]bool, *ssa.Function, bool) {
		fn := c.P.Func("bscript/interpreter", "*ParsedOpcode", "RequiresTx")
		s, ok := byteSetOf(c, "T-gate", fn)
		return s, fn, ok
	}()
	if !ok2 {
		g.ok = false
		return g
	}
	byHandler := map[string][]int64{}
	for _, e := range ents {
		if e.exec != nil {
			byHandler[e.exec.Name()] = append(byHandler[e.exec.Name()], e.key)
		}
	}
	for h, keys := range byHandler {
		all := true
		for _, k := range keys {
			if !req[k] {
				all = false
			}
		}
		if all {
			g.handlers[h] = true
		}
	}
	c.Covered["T-gate:gated_handlers"] = len(g.handlers)
	if len(g.handlers) < 5 {
		c.Undecided("T-gate", "G4/min", token.NoPos, fmt.Sprintf("only %d handlers are gated by RequiresTx (expected the four signature handlers and CSV)", len(g.handlers)))
	}
	return g
}

func ruleTGate(c *Ctx) { computeGate(c) }

func configureInterpP(c *Ctx) *PEngine {
	pe := pEngine(c)
	g := computeGate(c)
	setStateExcl := map[string]bool{"(*bscript/interpreter.thread).SetState": true}
	for _, f := range []string{"scriptIdx", "scriptOff", "lastCodeSep", "numOps", "inputIdx"} {
		pe.NonNegFields["F:interpreter.thread."+f] = setStateExcl
	}
	pe.NonNilIn = func(fn *ssa.Function, class string) bool {
		if !g.ok {
			return false
		}
		if class != "thread.tx" && class != "thread.prevOutput" {
			return false
		}
		// a helper extracted from gated handlers (outside the baseline list) runs only inside them
		for _, af := range attributedTo(c.P, fn) {
			if !(af.Signature.Recv() == nil && g.handlers[af.Name()] && pkgPathOf(af) == modPath+"/bscript/interpreter") {
				return false
			}
		}
		return true
	}
	return pe
}

var decodeEntries = []entrySpec{
	{"", "", "NewTxFromBytes"}, {"", "", "NewTxFromStream"}, {"", "", "NewTxFromString"},
	{"", "*Tx", "ReadFrom"}, {"", "*Txs", "ReadFrom"},
	{"", "*Input", "ReadFrom"}, {"", "*Input", "ReadFromExtended"}, {"", "*Output", "ReadFrom"}, {"", "*VarInt", "ReadFrom"},
	{"", "*Tx", "UnmarshalJSON"}, {"", "*Input", "UnmarshalJSON"}, {"", "*Output", "UnmarshalJSON"}, {"", "*UTXO", "UnmarshalJSON"},
	{"", "*nodeTxWrapper", "UnmarshalJSON"}, {"", "*nodeTxsWrapper", "UnmarshalJSON"}, {"", "*nodeOutputWrapper", "UnmarshalJSON"},
	{"", "*nodeUTXOWrapper", "UnmarshalJSON"}, {"", "*nodeUTXOsWrapper", "UnmarshalJSON"},
	{"bscript", "*Script", "UnmarshalJSON"},
}

func rulePDec(c *Ctx) {
	pEngine(c)
	runP(c, "P-dec", decodeEntries, 20, 20)
}

var inspectEntries = []entrySpec{
	{"bscript", "*Script", "ScriptType"}, {"bscript", "*Script", "IsP2PKH"}, {"bscript", "*Script", "IsP2PK"}, {"bscript", "*Script", "IsP2SH"},
	{"bscript", "*Script", "IsData"}, {"bscript", "*Script", "IsMultiSigOut"}, {"bscript", "*Script", "IsInscribed"}, {"bscript", "*Script", "IsP2PKHInscription"},
	{"bscript", "*Script", "PublicKeyHash"}, {"bscript", "*Script", "Addresses"}, {"bscript", "*Script", "ToASM"}, {"bscript", "*Script", "ParseInscription"},
	{"bscript", "*Script", "Slice"}, {"bscript", "*Script", "String"}, {"bscript", "*Script", "MarshalJSON"}, {"bscript", "", "DecodeParts"}, {"bscript", "", "DecodeStringParts"},
	{"", "*nodeOutputJSON", "fromOutput"}, {"", "*nodeTxWrapper", "MarshalJSON"}, {"", "*nodeOutputWrapper", "MarshalJSON"},
}

func rulePInsp(c *Ctx) {
	pEngine(c)
	runP(c, "P-insp", inspectEntries, 15, 40)
}

var marshalEntries = []entrySpec{
	{"", "*Tx", "MarshalJSON"}, {"", "*Input", "MarshalJSON"}, {"", "*Output", "MarshalJSON"}, {"", "*UTXO", "MarshalJSON"},
	{"", "*nodeTxWrapper", "MarshalJSON"}, {"", "nodeTxsWrapper", "MarshalJSON"}, {"", "*nodeOutputWrapper", "MarshalJSON"},
	{"", "*nodeUTXOWrapper", "MarshalJSON"}, {"", "nodeUTXOsWrapper", "MarshalJSON"}, {"bscript", "*Script", "MarshalJSON"},
	{"", "*Tx", "NodeJSON"}, {"", "*Txs", "NodeJSON"}, {"", "*Output", "NodeJSON"}, {"", "*UTXO", "NodeJSON"}, {"", "*UTXOs", "NodeJSON"},
}

func rulePJSON(c *Ctx) {
	pEngine(c)
	runP(c, "P-json", marshalEntries, 15, 20)
}

var codecEntries = []entrySpec{
	{"bscript", "", "EncodeParts"}, {"bscript", "", "PushDataPrefix"}, {"bscript", "", "DecodeParts"}, {"bscript", "", "DecodeStringParts"},
	{"bscript", "", "NewFromASM"}, {"bscript", "", "NewFromHexString"}, {"bscript", "*Script", "ToASM"}, {"bscript", "*Script", "String"},
	{"bscript", "*Script", "MarshalJSON"}, {"bscript", "*Script", "UnmarshalJSON"}, {"bscript", "", "MinPushSize"},
	{"bscript", "*Script", "AppendPushData"}, {"bscript", "*Script", "AppendPushDataHexString"}, {"bscript", "*Script", "AppendOpcodes"},
	{"bscript/interpreter", "*DefaultOpcodeParser", "Parse"}, {"bscript/interpreter", "*DefaultOpcodeParser", "Unparse"},
}

func rulePCodec(c *Ctx) {
	pEngine(c)
	runP(c, "P-codec", codecEntries, 15, 40)
}

// provePremises: each premise "<term> >= <int>" (term as printed by descVN) must be provable at the site.
func (pe *PEngine) provePremises(p *pci, premises []string) (bool, string) {
	pf := pe.pf(p.fn)
	for _, pr := range premises {
		parts := strings.Split(pr, ">=")
		if len(parts) != 2 {
			return false, "unparseable premise " + pr
		}
		want := strings.TrimSpace(parts[0])
		var k int64
		if _, err := fmt.Sscanf(strings.TrimSpace(parts[1]), "%d", &k); err != nil {
			return false, "unparseable premise " + pr
		}
		var atom *vn
		var keys []string
		for key := range pf.byKey {
			keys = append(keys, key)
		}
		sort.Strings(keys)
		for _, key := range keys {
			n := pf.byKey[key]
			if isIntType(n.typ) && descVN(n, 0) == want {
				atom = n
				break
			}
		}
		if atom == nil {
			return false, "premise term " + want + " does not occur in " + funcName(p.fn)
		}
		if !pf.proveAt(p.ins.Block(), pgoal{l: pf.linOf(atom).addConst(-k)}, nil, 0) {
			return false, "cannot prove " + pr + " at the site"
		}
	}
	return true, ""
}

// CONV (C05/C07): narrowing or sign-changing integer conversions in the interpreter preserve
// the value (shown from ranges and guards) or are listed with their argument.
func ruleConv(c *Ctx) {
	pe := configureInterpP(c)
	pe.EnumConv = true
	defer func() { pe.EnumConv = false }()
	entries := resolveEntries(c, "CONV", []entrySpec{{"bscript/interpreter", "*engine", "Execute"}})
	n := 0
	for _, fn := range pe.reachable(entries) {
		if pkgPathOf(fn) != modPath+"/bscript/interpreter" {
			continue
		}
		for _, p := range pe.enumerate(fn, false) {
			if p.kind != "conv" {
				continue
			}
			n++
			p.key = strings.Replace(p.key, "conv/", "", 1)
			ok, facts, why := pe.discharge(p)
			if ok {
				c.OK("CONV", p.key, p.ins.Pos(), "conversion preserves the value on every path")
			} else {
				if len(facts) > 8 {
					facts = facts[:8]
				}
				c.FailVia("CONV", p.key, posOfInstr(p.ins), "integer conversion may change the value (wrap/truncate): "+why, pe.callerKeys(p, p.key), facts...)
			}
		}
	}
	c.Covered["CONV:conversions_needing_proof"] = n
	c.MinInstances("CONV", n, 8)
}

// callerKeys: for a site in a function outside the baseline list, its key rewritten into each
// module caller: the function name replaced and every parameter pN replaced by the caller's
// argument as the engine prints it. Nil when the function is a baseline function, has no module
// caller, or an argument has no printable form.
func (pe *PEngine) callerKeys(p *pci, key string) []string {
	return pe.callerKeysFor(p.fn, key, p.openSites, 0)
}

func (pe *PEngine) callerKeysFor(fn *ssa.Function, key string, openSites []ssa.CallInstruction, depth int) []string {
	if inlineHelper == nil || !inlineHelper(fn) || depth > 3 {
		return nil
	}
	node := pe.P.CG().Nodes[fn]
	if node == nil {
		return nil
	}
	var out []string
	seen := map[string]bool{}
	for _, e := range node.In {
		caller := e.Caller.Func
		if !inScope(pkgPathOf(caller)) || e.Site == nil {
			continue
		}
		if openSites != nil {
			// a length precondition covers the other call sites: only the open ones need a reviewed argument
			isOpen := false
			for _, s := range openSites {
				if s == e.Site {
					isOpen = true
				}
			}
			if !isOpen {
				continue
			}
		}
		cpf := pe.pf(caller)
		k := strings.Replace(key, "/"+funcName(fn)+"/", "/"+funcName(caller)+"/", 1)
		if k == key {
			k = strings.Replace(key, funcName(fn)+"/", funcName(caller)+"/", 1)
		}
		args := e.Site.Common().Args
		// two-step replacement so that an argument printed as "p1" is not replaced again
		for i := range fn.Params {
			k = regexp.MustCompile(fmt.Sprintf(`\bp%d\b`, i)).ReplaceAllString(k, fmt.Sprintf("\x00%d\x00", i))
		}
		ok := true
		for i := range fn.Params {
			if i >= len(args) {
				ok = false
				break
			}
			k = strings.ReplaceAll(k, fmt.Sprintf("\x00%d\x00", i), descVN(cpf.get(args[i]), 0))
		}
		if !ok {
			return nil
		}
		ks := []string{k}
		if inlineHelper(caller) {
			// the caller is itself a helper outside the baseline: the construct is known in the terms of its callers
			ks = pe.callerKeysFor(caller, k, nil, depth+1)
			if ks == nil {
				return nil
			}
		}
		for _, kk := range ks {
			if !seen[kk] {
				seen[kk] = true
				out = append(out, kk)
			}
		}
	}
	return out
}
