package main

// Engine O: ownership / effects. A modular, bottom-up summary analysis over
// SSA with k-limited access paths. For every function it computes which
// memory (named by root + access path) may be written, what results may
// alias, and which caller-visible memory is stored into which other memory
// ("contamination"), to a fixpoint over the whole program. Flow-insensitive
// inside a function, field-sensitive, level-insensitive (a pointer and its
// pointee share a path), which is sound for may-write / may-alias queries.

import (
	"fmt"
	"go/token"
	"go/types"
	"sort"
	"strings"

	"golang.org/x/tools/go/ssa"
)

const oMaxSegs = 7

// access path = root + "|" + path. Roots: P<i> parameter, V<i> free variable,
// G:<pkg.name> global, F:<site> fresh allocation site, S:<tag> tagged source,
// C:<site> fresh result of a call.
type apset map[string]bool

func (s apset) add(x string) bool {
	if s[x] {
		return false
	}
	s[x] = true
	return true
}

func (s apset) addAll(o apset) bool {
	ch := false
	for x := range o {
		if !s[x] {
			s[x] = true
			ch = true
		}
	}
	return ch
}

func (s apset) sorted() []string {
	var o []string
	for x := range s {
		o = append(o, x)
	}
	sort.Strings(o)
	return o
}

func apSplit(ap string) (root, path string) {
	i := strings.IndexByte(ap, '|')
	return ap[:i], ap[i+1:]
}

func segCount(p string) int {
	n := 0
	for i := 0; i < len(p); i++ {
		if p[i] == '.' || p[i] == '[' {
			n++
		}
	}
	return n
}

func apExtend(ap, seg string) string {
	if seg == "" {
		return ap
	}
	root, path := apSplit(ap)
	if strings.HasSuffix(path, "…") {
		return ap
	}
	// collapse repeated [*][*]... only by k-limit
	np := path + seg
	if segCount(np) > oMaxSegs {
		// truncate
		cnt, cut := 0, len(np)
		for i := 0; i < len(np); i++ {
			if np[i] == '.' || np[i] == '[' {
				cnt++
				if cnt > oMaxSegs {
					cut = i
					break
				}
			}
		}
		np = np[:cut] + "…"
	}
	return root + "|" + np
}

func extendSet(s apset, seg string) apset {
	o := apset{}
	for ap := range s {
		o[apExtend(ap, seg)] = true
	}
	return o
}

func isFreshRoot(r string) bool { return strings.HasPrefix(r, "F:") || strings.HasPrefix(r, "C:") }

type OWrite struct {
	Root, Path, Kind string // Kind: store | copy | append | mapupdate | ext
	Pos              token.Pos
	Fn               *ssa.Function
	Via              string // call chain description
	Site             string // function + ordinal of the writing instruction (position independent)
}

func (w *OWrite) key() string { return w.Root + "|" + w.Path + "|" + w.Kind + "|" + w.Site }

type OSummary struct {
	Writes       map[string]*OWrite
	Results      []apset            // per result: non-fresh roots (with path) the result may refer to; "FRESH|" marks a fresh component
	ResultHeap   []map[string]apset // per result: path under the fresh result -> what is stored there (non-fresh roots)
	ParamHeap    map[string]apset   // non-fresh "root|path" -> what may be stored there
	FieldsStored map[string]bool    // "Type.field" ever stored (for kill sets)
	size         int
}

func newOSummary(nres int) *OSummary {
	s := &OSummary{Writes: map[string]*OWrite{}, ParamHeap: map[string]apset{}, FieldsStored: map[string]bool{}}
	for i := 0; i < nres; i++ {
		s.Results = append(s.Results, apset{})
		s.ResultHeap = append(s.ResultHeap, map[string]apset{})
	}
	return s
}

func (s *OSummary) measure() int {
	n := len(s.Writes) + len(s.FieldsStored)
	for _, r := range s.Results {
		n += len(r)
	}
	for _, rh := range s.ResultHeap {
		for _, v := range rh {
			n += 1 + len(v)
		}
	}
	for _, v := range s.ParamHeap {
		n += 1 + len(v)
	}
	return n
}

type OConfig struct {
	// SourceTags returns source tags to attach to the value defined by instr
	// (e.g. "stackitem" for results of PopByteArray).
	SourceTags func(fn *ssa.Function, v ssa.Value) []string
}

type OEngine struct {
	P             *Prog
	Cfg           OConfig
	Sums          map[*ssa.Function]*OSummary
	fns           []*ssa.Function
	callees       map[ssa.CallInstruction][]*ssa.Function
	Unknown       map[string]token.Pos // external callees without a contract that receive reference arguments
	UserCallbacks map[string]token.Pos // dynamic calls with no library callee (user-supplied functions): assumed to read only
	sigCands      map[string][]*ssa.Function
	UsedExt       map[string]bool
	// per-function final local state kept for queries
	Vals map[*ssa.Function]map[ssa.Value]apset
}

func NewOEngine(p *Prog, cfg OConfig) *OEngine {
	e := &OEngine{P: p, Cfg: cfg, Sums: map[*ssa.Function]*OSummary{}, callees: map[ssa.CallInstruction][]*ssa.Function{},
		Unknown: map[string]token.Pos{}, UserCallbacks: map[string]token.Pos{}, UsedExt: map[string]bool{}, Vals: map[*ssa.Function]map[ssa.Value]apset{}}
	for _, pk := range p.AllPkgs {
		if strings.HasPrefix(pk.PkgPath, modPath) || analysedDeps[pk.PkgPath] {
			e.fns = append(e.fns, pkgFunctions(p, pk.PkgPath)...)
		}
	}
	inSet := map[*ssa.Function]bool{}
	for _, f := range e.fns {
		inSet[f] = true
	}
	cg := p.CG()
	for fn, node := range cg.Nodes {
		if fn == nil || !inSet[fn] {
			continue
		}
		for _, edge := range node.Out {
			if edge.Site == nil {
				continue
			}
			e.callees[edge.Site] = append(e.callees[edge.Site], edge.Callee.Func)
		}
	}
	return e
}

// analysedDeps: dependency packages whose functions are summarised from their own source
// instead of through the contracts table (their SSA is available: everything is loaded from
// source). Kept to the data-handling packages go-bt passes its byte slices to.
var analysedDeps = map[string]bool{
	"bytes": true, "hash": true, "crypto/sha256": true, "crypto/sha1": true, "golang.org/x/crypto/ripemd160": true,
	"encoding/binary": true, "encoding/hex": true,
	"github.com/libsv/go-bk/crypto": true,
}

// sigCandidates: address-taken module functions (closures, function values) with an identical signature.
func (e *OEngine) sigCandidates(sig *types.Signature) []*ssa.Function {
	if e.sigCands == nil {
		e.sigCands = map[string][]*ssa.Function{}
		taken := map[*ssa.Function]bool{}
		for _, f := range e.fns {
			for _, b := range f.Blocks {
				for _, ins := range b.Instrs {
					if mc, ok := ins.(*ssa.MakeClosure); ok {
						taken[mc.Fn.(*ssa.Function)] = true
					}
					for _, op := range ins.Operands(nil) {
						if fn, ok := (*op).(*ssa.Function); ok {
							if ci, isCall := ins.(ssa.CallInstruction); isCall && ci.Common().Value == fn {
								continue
							}
							taken[fn] = true
						}
					}
				}
			}
		}
		for _, f := range e.fns {
			if taken[f] && inScope(pkgPathOf(f)) {
				k := types.TypeString(f.Signature, nil)
				if f.Signature.Recv() == nil {
					e.sigCands[k] = append(e.sigCands[k], f)
				}
			}
		}
	}
	s2 := types.NewSignatureType(nil, nil, nil, sig.Params(), sig.Results(), sig.Variadic())
	return e.sigCands[types.TypeString(s2, nil)]
}

func pkgPathOf(f *ssa.Function) string {
	for f.Parent() != nil {
		f = f.Parent()
	}
	if f.Pkg != nil {
		return f.Pkg.Pkg.Path()
	}
	return ""
}

func (e *OEngine) Run() {
	for _, f := range e.fns {
		e.Sums[f] = newOSummary(f.Signature.Results().Len())
	}
	for iter := 0; iter < 30; iter++ {
		changed := false
		for _, f := range e.fns {
			ns := e.analyze(f)
			ns.size = ns.measure()
			if ns.size != e.Sums[f].size {
				changed = true
			}
			e.Sums[f] = ns
		}
		if !changed {
			break
		}
	}
}

func pointerLike(t types.Type) bool {
	switch u := t.Underlying().(type) {
	case *types.Pointer, *types.Slice, *types.Map, *types.Chan, *types.Interface, *types.Signature:
		return true
	case *types.Struct:
		for i := 0; i < u.NumFields(); i++ {
			if pointerLike(u.Field(i).Type()) {
				return true
			}
		}
	case *types.Array:
		return pointerLike(u.Elem())
	case *types.Tuple:
		for i := 0; i < u.Len(); i++ {
			if pointerLike(u.At(i).Type()) {
				return true
			}
		}
	}
	return false
}

type oLocal struct {
	e      *OEngine
	fn     *ssa.Function
	val    map[ssa.Value]apset
	heap   map[string]apset
	sum    *OSummary
	chg    bool
	tup    map[*ssa.Call][]apset
	nw     map[string]int
	curOrd int
}

func (l *oLocal) get(v ssa.Value) apset {
	if s, ok := l.val[v]; ok {
		return s
	}
	s := apset{}
	switch x := v.(type) {
	case *ssa.Parameter:
		for i, p := range l.fn.Params {
			if p == x {
				s[fmt.Sprintf("P%d|", i)] = true
			}
		}
	case *ssa.FreeVar:
		for i, p := range l.fn.FreeVars {
			if p == x {
				s[fmt.Sprintf("V%d|", i)] = true
			}
		}
	case *ssa.Global:
		s["G:"+x.Pkg.Pkg.Name()+"."+x.Name()+"|"] = true
	case *ssa.Function, *ssa.Const, *ssa.Builtin:
	}
	l.val[v] = s
	return s
}

func (l *oLocal) addTo(v ssa.Value, s apset) {
	cur := l.get(v)
	if cur.addAll(s) {
		l.chg = true
	}
}

// closure resolves heap contamination for a set of locations (prefix matching).
func (l *oLocal) closure(s apset) apset {
	out := apset{}
	out.addAll(s)
	work := out.sorted()
	for n := 0; len(work) > 0 && n < 2000; n++ {
		ap := work[0]
		work = work[1:]
		root, path := apSplit(ap)
		// prefixes at segment boundaries
		for i := 0; i <= len(path); i++ {
			if i < len(path) && path[i] != '.' && path[i] != '[' {
				continue
			}
			if hs, ok := l.heap[root+"|"+path[:i]]; ok {
				for h := range hs {
					na := apExtend(strings.TrimPrefix(h, "="), path[i:])
					if out.add(na) {
						work = append(work, na)
					}
				}
			}
		}
	}
	return out
}

// resolveTargets maps write targets whose path runs through a slot that is
// known to hold a reference (pointer-kind heap entry at a strict prefix) to
// the referenced memory. Copy-kind entries ("=") are not followed: writing a
// field of a by-value copy does not write the original.
func (l *oLocal) resolveTargets(s apset) apset {
	out := apset{}
	out.addAll(s)
	work := out.sorted()
	for n := 0; len(work) > 0 && n < 2000; n++ {
		ap := work[0]
		work = work[1:]
		root, path := apSplit(ap)
		for i := 0; i < len(path); i++ {
			if path[i] != '.' && path[i] != '[' {
				continue
			}
			if hs, ok := l.heap[root+"|"+path[:i]]; ok {
				for h := range hs {
					if strings.HasPrefix(h, "=") {
						continue
					}
					na := apExtend(h, path[i:])
					if out.add(na) {
						work = append(work, na)
					}
				}
			}
		}
	}
	return out
}

func (l *oLocal) heapAddCopy(key string, s apset) {
	c := apset{}
	for x := range s {
		if !strings.HasPrefix(x, "=") {
			x = "=" + x
		}
		c[x] = true
	}
	l.heapAdd(key, c)
}

func (l *oLocal) heapAdd(key string, s apset) {
	if len(s) == 0 {
		return
	}
	h := l.heap[key]
	if h == nil {
		h = apset{}
		l.heap[key] = h
	}
	for x := range s {
		if strings.TrimPrefix(x, "=") == key {
			continue
		}
		if h.add(x) {
			l.chg = true
		}
	}
}

func (l *oLocal) recordWrite(targets apset, kind string, pos token.Pos, via string) {
	l.nw[kind]++
	site := fmt.Sprintf("%s#%s%d", funcName(l.fn), kind, l.curOrd)
	for ap := range l.resolveTargets(targets) {
		root, path := apSplit(ap)
		if isFreshRoot(root) {
			continue
		}
		w := &OWrite{Root: root, Path: path, Kind: kind, Pos: pos, Fn: l.fn, Via: via, Site: site}
		if _, ok := l.sum.Writes[w.key()]; !ok {
			l.sum.Writes[w.key()] = w
			l.chg = true
		}
	}
}

func siteName(fn *ssa.Function, v ssa.Value, prefix string) string {
	return prefix + funcName(fn) + "#" + fmt.Sprintf("%T", v)[5:] + instrOrdinal(v)
}

func (e *OEngine) analyze(fn *ssa.Function) *OSummary {
	l := &oLocal{e: e, fn: fn, val: map[ssa.Value]apset{}, heap: map[string]apset{}, tup: map[*ssa.Call][]apset{}, nw: map[string]int{}, sum: newOSummary(fn.Signature.Results().Len())}
	if len(fn.Blocks) == 0 {
		return l.sum
	}
	for pass := 0; pass < 25; pass++ {
		l.chg = false
		ord := map[string]int{}
		for _, b := range fn.Blocks {
			for _, ins := range b.Instrs {
				k := fmt.Sprintf("%T", ins)
				ord[k]++
				l.curOrd = ord[k]
				l.step(ins)
			}
		}
		if !l.chg {
			break
		}
	}
	// export summary
	for _, b := range fn.Blocks {
		ret, ok := b.Instrs[len(b.Instrs)-1].(*ssa.Return)
		if !ok {
			continue
		}
		for k, rv := range ret.Results {
			if !pointerLike(rv.Type()) {
				continue
			}
			for ap := range l.get(rv) {
				root, path := apSplit(ap)
				if isFreshRoot(root) {
					l.sum.Results[k]["FRESH|"] = true
					l.exportHeap(k, root, path, "", 0, map[string]bool{})
				} else {
					l.sum.Results[k][ap] = true
				}
			}
		}
	}
	for key, hs := range l.heap {
		root, _ := apSplit(key)
		if isFreshRoot(root) {
			continue
		}
		l.exportParamHeap(key, hs, 0, map[string]bool{})
	}
	e.Vals[fn] = l.val
	return l.sum
}

// exportParamHeap records what a caller-visible slot may hold; fresh objects
// stored there are invisible themselves but what they (transitively) hold is
// exported under the extended path.
func (l *oLocal) exportParamHeap(key string, hs apset, depth int, seen map[string]bool) {
	if depth > 4 {
		return
	}
	// resolve fresh-rooted values through the local heap first (prefix contamination)
	res := apset{}
	for h := range hs {
		hr, _ := apSplit(strings.TrimPrefix(h, "="))
		if !isFreshRoot(hr) {
			res[h] = true
			continue
		}
		res[h] = true
		for c := range l.closure(apset{strings.TrimPrefix(h, "="): true}) {
			res[c] = true
		}
	}
	for h := range res {
		hr, hp := apSplit(strings.TrimPrefix(h, "="))
		if !isFreshRoot(hr) {
			if l.sum.ParamHeap[key] == nil {
				l.sum.ParamHeap[key] = apset{}
			}
			l.sum.ParamHeap[key][h] = true
			continue
		}
		if seen[key+"<-"+hr+"|"+hp] {
			continue
		}
		seen[key+"<-"+hr+"|"+hp] = true
		for k2, hs2 := range l.heap {
			r2, p2 := apSplit(k2)
			if r2 != hr || !strings.HasPrefix(p2, hp) {
				continue
			}
			rel := p2[len(hp):]
			if rel != "" && rel[0] != '.' && rel[0] != '[' {
				continue
			}
			nk := apExtend(key, rel)
			l.exportParamHeap(nk, hs2, depth+1, seen)
		}
	}
}

// flattenFresh replaces fresh roots in a heap value set by the non-fresh
// things stored (transitively) at their top level — fresh objects themselves
// are invisible to callers, but what they hold is not. Keeps non-fresh as is.
func (l *oLocal) flattenFresh(hs apset, depth int) apset {
	out := apset{}
	for h := range hs {
		root, _ := apSplit(strings.TrimPrefix(h, "="))
		if !isFreshRoot(root) {
			out[h] = true
		}
	}
	return out
}

// exportHeap copies heap entries under the fresh root (reached at path base in
// the result) into ResultHeap[k], flattening nested fresh objects.
func (l *oLocal) exportHeap(k int, root, rootPath, base string, depth int, seen map[string]bool) {
	if depth > 4 || seen[root+"@"+base] {
		return
	}
	seen[root+"@"+base] = true
	for key, hs := range l.heap {
		r, p := apSplit(key)
		if r != root || !strings.HasPrefix(p, rootPath) {
			continue
		}
		rel := base + p[len(rootPath):]
		if segCount(rel) > oMaxSegs {
			continue
		}
		for h := range hs {
			hr, hp := apSplit(strings.TrimPrefix(h, "="))
			if isFreshRoot(hr) {
				l.exportHeap(k, hr, hp, rel, depth+1, seen)
				continue
			}
			if l.sum.ResultHeap[k][rel] == nil {
				l.sum.ResultHeap[k][rel] = apset{}
			}
			l.sum.ResultHeap[k][rel][h] = true
		}
	}
}

func (l *oLocal) step(ins ssa.Instruction) {
	switch x := ins.(type) {
	case *ssa.Alloc:
		l.addTo(x, apset{siteName(l.fn, x, "F:") + "|": true})
	case *ssa.MakeSlice, *ssa.MakeMap, *ssa.MakeChan:
		v := x.(ssa.Value)
		l.addTo(v, apset{siteName(l.fn, v, "F:") + "|": true})
	case *ssa.FieldAddr:
		l.addTo(x, extendSet(l.get(x.X), "."+fieldName(x.X.Type(), x.Field)))
	case *ssa.Field:
		l.addTo(x, extendSet(l.get(x.X), "."+fieldName(x.X.Type(), x.Field)))
	case *ssa.IndexAddr:
		l.addTo(x, extendSet(l.get(x.X), "[*]"))
	case *ssa.Index:
		l.addTo(x, extendSet(l.get(x.X), "[*]"))
	case *ssa.Lookup:
		if pointerLike(x.Type()) {
			l.addTo(x, l.closure(extendSet(l.get(x.X), "[*]")))
		}
	case *ssa.Slice:
		l.addTo(x, l.get(x.X))
	case *ssa.Phi:
		for _, ed := range x.Edges {
			l.addTo(x, l.get(ed))
		}
	case *ssa.ChangeType:
		l.addTo(x, l.get(x.X))
	case *ssa.ChangeInterface:
		l.addTo(x, l.get(x.X))
	case *ssa.MakeInterface:
		l.addTo(x, l.get(x.X))
	case *ssa.TypeAssert:
		l.addTo(x, l.get(x.X))
	case *ssa.SliceToArrayPointer:
		l.addTo(x, l.get(x.X))
	case *ssa.Convert:
		// string<->[]byte conversions allocate; pointer conversions (unsafe) are excluded by R0
		if _, ok := x.Type().Underlying().(*types.Slice); ok {
			if _, isSl := x.X.Type().Underlying().(*types.Slice); isSl {
				l.addTo(x, l.get(x.X))
			} else {
				l.addTo(x, apset{siteName(l.fn, x, "F:") + "|": true})
			}
		}
	case *ssa.Extract:
		// tuple element: sets are stored per (call, index) under a pseudo value
		if c, ok := x.Tuple.(*ssa.Call); ok {
			l.addTo(x, l.getTuple(c, x.Index))
		} else {
			l.addTo(x, l.get(x.Tuple))
		}
	case *ssa.UnOp:
		if x.Op == token.MUL {
			if pointerLike(x.Type()) {
				l.addTo(x, l.closure(l.get(x.X)))
			}
		} else if x.Op == token.ARROW {
			l.addTo(x, l.closure(extendSet(l.get(x.X), "[*]")))
		}
	case *ssa.Store:
		tg := l.get(x.Addr)
		l.recordWrite(tg, "store", x.Pos(), "")
		if fa, ok := x.Addr.(*ssa.FieldAddr); ok {
			if n := namedOfPtr(fa.X.Type()); n != nil {
				l.sum.FieldsStored[n.Obj().Name()+"."+fieldName(fa.X.Type(), fa.Field)] = true
			}
		}
		if pointerLike(x.Val.Type()) {
			vs := l.get(x.Val)
			_, isStruct := x.Val.Type().Underlying().(*types.Struct)
			_, isArray := x.Val.Type().Underlying().(*types.Array)
			for a := range tg {
				if isStruct || isArray {
					l.heapAddCopy(a, vs)
				} else {
					l.heapAdd(a, vs)
				}
			}
		}
	case *ssa.MapUpdate:
		tg := extendSet(l.get(x.Map), "[*]")
		l.recordWrite(tg, "mapupdate", x.Pos(), "")
		if pointerLike(x.Value.Type()) {
			for a := range tg {
				l.heapAdd(a, l.get(x.Value))
			}
		}
	case *ssa.Send:
		tg := extendSet(l.get(x.Chan), "[*]")
		if pointerLike(x.X.Type()) {
			for a := range tg {
				l.heapAdd(a, l.get(x.X))
			}
		}
	case *ssa.MakeClosure:
		// closure value carries its bindings so that calls can map free variables
		s := apset{}
		for _, b := range x.Bindings {
			s.addAll(l.get(b))
		}
		l.addTo(x, s)
	case *ssa.Call:
		l.call(x, x)
	case *ssa.Defer:
		l.call(x, nil)
	case *ssa.Go:
		l.call(x, nil)
	case *ssa.Range:
		l.addTo(x, l.get(x.X))
	case *ssa.Next:
		// (ok, key, value): value for maps is loaded from the map
		if r, ok := x.Iter.(*ssa.Range); ok {
			l.addTo(x, l.closure(extendSet(l.get(r.X), "[*]")))
		}
	}
	if v, ok := ins.(ssa.Value); ok && l.e.Cfg.SourceTags != nil {
		for _, tag := range l.e.Cfg.SourceTags(l.fn, v) {
			l.addTo(v, apset{"S:" + tag + "|": true})
		}
	}
}

func (l *oLocal) getTuple(c *ssa.Call, i int) apset {
	tv := l.tup[c]
	if i < len(tv) && tv[i] != nil {
		return tv[i]
	}
	return apset{}
}

func (l *oLocal) setResult(call *ssa.Call, k, n int, s apset) {
	if call == nil {
		return
	}
	if n == 1 {
		l.addTo(call, s)
		return
	}
	m := l.tup
	tv := m[call]
	for len(tv) < n {
		tv = append(tv, apset{})
	}
	if tv[k].addAll(s) {
		l.chg = true
	}
	m[call] = tv
}

func (l *oLocal) call(ci ssa.CallInstruction, res *ssa.Call) {
	cm := ci.Common()
	nres := cm.Signature().Results().Len()
	// argument list incl. receiver for invoke
	var args []ssa.Value
	if cm.IsInvoke() {
		args = append(args, cm.Value)
	}
	args = append(args, cm.Args...)
	if b, ok := cm.Value.(*ssa.Builtin); ok {
		switch b.Name() {
		case "append":
			if len(args) >= 1 {
				dst := l.get(args[0])
				l.recordWrite(extendSet(dst, "[*]"), "append", ci.Pos(), "")
				out := apset{siteName(l.fn, ci.Value(), "F:") + "|": true}
				out.addAll(dst)
				if len(args) == 2 {
					// elements appended: if element type is pointer-like, they contaminate result[*]
					if sl, ok := args[1].Type().Underlying().(*types.Slice); ok && pointerLike(sl.Elem()) {
						els := l.closure(extendSet(l.get(args[1]), "[*]"))
						for a := range out {
							l.heapAdd(apExtend(a, "[*]"), els)
						}
					}
				}
				if res != nil {
					l.addTo(res, out)
				}
			}
		case "copy":
			if len(args) == 2 {
				l.recordWrite(extendSet(l.get(args[0]), "[*]"), "copy", ci.Pos(), "")
				if sl, ok := args[0].Type().Underlying().(*types.Slice); ok && pointerLike(sl.Elem()) {
					els := l.closure(extendSet(l.get(args[1]), "[*]"))
					for a := range l.get(args[0]) {
						l.heapAdd(apExtend(a, "[*]"), els)
					}
				}
			}
		case "delete":
			if len(args) >= 1 {
				l.recordWrite(extendSet(l.get(args[0]), "[*]"), "mapupdate", ci.Pos(), "")
			}
		}
		return
	}
	var targets []*ssa.Function
	if sc := cm.StaticCallee(); sc != nil {
		targets = []*ssa.Function{sc}
	} else {
		targets = l.e.callees[ci]
	}
	// free-variable bindings when the callee is a closure made here
	var bindings []ssa.Value
	if mc, ok := cm.Value.(*ssa.MakeClosure); ok {
		bindings = mc.Bindings
	}
	for _, callee := range targets {
		if s, ok := l.e.Sums[callee]; ok {
			l.applySummary(ci, res, callee, s, args, bindings, nres)
			continue
		}
		// a method value (x.M held in a variable or returned by a function) is called through a synthetic
		// wrapper whose only act is to call M on the captured receiver: M's summary applies, with the
		// function value - which stands for what it captured - as the receiver
		if m, bound := wrappedMethod(callee); m != nil {
			if s, ok := l.e.Sums[m]; ok {
				margs := args
				if bound {
					margs = append([]ssa.Value{cm.Value}, args...)
				}
				l.applySummary(ci, res, m, s, margs, nil, nres)
				continue
			}
		}
		l.applyExternal(ci, res, callee, args, nres)
	}
	if len(targets) == 0 && cm.StaticCallee() == nil {
		// No callee in the call graph (the function value comes from outside the
		// library, e.g. option closures or user callbacks): fall back to every
		// address-taken module function with an identical signature.
		for _, callee := range l.e.sigCandidates(cm.Signature()) {
			l.applySummary(ci, res, callee, l.e.Sums[callee], args, nil, nres)
			targets = append(targets, callee)
		}
		if len(targets) == 0 {
			l.e.UserCallbacks[funcName(l.fn)+": "+cm.Value.Type().String()] = ci.Pos()
			if res != nil {
				for k := 0; k < nres; k++ {
					l.setResult(res, k, nres, apset{"C:" + funcName(l.fn) + "#" + instrOrdinalOf(ci) + "|": true})
				}
			}
		}
	}
}

func (l *oLocal) mapAP(h string, callee *ssa.Function, args []ssa.Value, bindings []ssa.Value, callSite string) apset {
	root, path := apSplit(h)
	out := apset{}
	switch {
	case strings.HasPrefix(root, "P"):
		var i int
		fmt.Sscanf(root, "P%d", &i)
		if i < len(args) {
			for a := range l.get(args[i]) {
				out[apExtend(a, path)] = true
			}
		}
	case strings.HasPrefix(root, "V") && !strings.HasPrefix(root, "V:"):
		var i int
		fmt.Sscanf(root, "V%d", &i)
		if bindings != nil && i < len(bindings) {
			for a := range l.get(bindings[i]) {
				out[apExtend(a, path)] = true
			}
		} else {
			// free variable of a closure created elsewhere: opaque named root
			nm := fmt.Sprintf("V:%s#%d", funcName(callee), i)
			if i < len(callee.FreeVars) {
				nm = fmt.Sprintf("V:%s#%s", funcName(callee), callee.FreeVars[i].Name())
			}
			out[nm+"|"+path] = true
		}
	case root == "FRESH":
		out[callSite+"|"] = true
	default:
		out[h] = true
	}
	return out
}

func (l *oLocal) applySummary(ci ssa.CallInstruction, res *ssa.Call, callee *ssa.Function, s *OSummary, args, bindings []ssa.Value, nres int) {
	callSite := "C:" + funcName(l.fn) + "#" + instrOrdinalOf(ci)
	for _, w := range s.Writes {
		tg := l.resolveTargets(l.mapAP(w.Root+"|"+w.Path, callee, args, bindings, callSite))
		via := funcName(callee)
		if w.Via != "" {
			via += " -> " + w.Via
		}
		// keep the innermost position for diagnosis
		for ap := range tg {
			root, path := apSplit(ap)
			if isFreshRoot(root) {
				continue
			}
			nw := &OWrite{Root: root, Path: path, Kind: w.Kind, Pos: w.Pos, Fn: w.Fn, Via: via, Site: w.Site}
			if _, ok := l.sum.Writes[nw.key()]; !ok {
				l.sum.Writes[nw.key()] = nw
				l.chg = true
			}
		}
	}
	for f := range s.FieldsStored {
		l.sum.FieldsStored[f] = true
	}
	for key, hs := range s.ParamHeap {
		keys := l.resolveTargets(l.mapAP(key, callee, args, bindings, callSite))
		vals := apset{}
		for h := range hs {
			if strings.HasPrefix(h, "=") {
				for m := range l.mapAP(h[1:], callee, args, bindings, callSite) {
					vals["="+m] = true
				}
				continue
			}
			vals.addAll(l.mapAP(h, callee, args, bindings, callSite))
		}
		for k := range keys {
			l.heapAdd(k, vals)
		}
	}
	for k := 0; k < nres && k < len(s.Results); k++ {
		out := apset{}
		for h := range s.Results[k] {
			out.addAll(l.mapAP(h, callee, args, bindings, callSite))
		}
		for rel, hs := range s.ResultHeap[k] {
			vals := apset{}
			for h := range hs {
				if strings.HasPrefix(h, "=") {
					for m := range l.mapAP(h[1:], callee, args, bindings, callSite) {
						vals["="+m] = true
					}
					continue
				}
				vals.addAll(l.mapAP(h, callee, args, bindings, callSite))
			}
			l.heapAdd(callSite+"|"+rel, vals)
		}
		l.setResult(res, k, nres, out)
	}
}

func instrOrdinalOf(ci ssa.CallInstruction) string {
	if v := ci.Value(); v != nil {
		return "Call" + instrOrdinal(v)
	}
	// defer/go: ordinal among instructions of the block
	b := ci.Block()
	for i, in := range b.Instrs {
		if in == ci.(ssa.Instruction) {
			return fmt.Sprintf("b%d.%d", b.Index, i)
		}
	}
	return "?"
}

// ---------------------------------------------------------------------
// contracts for functions outside the module

type extContract struct {
	writes  []int    // argument indices (receiver = 0) whose pointee may be written
	aliases []int    // result may alias these arguments
	stores  [][2]int // {dst,src}: argument src is stored into memory of argument dst
	fresh   bool
	reason  string
}

func (l *oLocal) applyExternal(ci ssa.CallInstruction, res *ssa.Call, callee *ssa.Function, args []ssa.Value, nres int) {
	name := callee.String()
	ct, ok := extContracts[name]
	if !ok {
		if ct2, ok2 := extContractByPkg(callee); ok2 {
			ct, ok = ct2, true
		}
	}
	callSite := "C:" + funcName(l.fn) + "#" + instrOrdinalOf(ci)
	if !ok {
		// unknown: only a problem when reference-typed, non-fresh arguments are passed
		refArg := false
		for _, a := range args {
			if pointerLike(a.Type()) {
				for ap := range l.get(a) {
					r, _ := apSplit(ap)
					if !isFreshRoot(r) {
						refArg = true
					}
				}
			}
		}
		if refArg && inScope(pkgPathOf(l.fn)) {
			l.e.Unknown[name] = ci.Pos()
		}
		if res != nil {
			for k := 0; k < nres; k++ {
				l.setResult(res, k, nres, apset{callSite + "|": true})
			}
		}
		return
	}
	l.e.UsedExt[name] = true
	for _, i := range ct.writes {
		if i < len(args) {
			seg := ""
			if _, isSl := args[i].Type().Underlying().(*types.Slice); isSl {
				seg = "[*]"
			}
			l.recordWrite(extendSet(l.get(args[i]), seg), "ext", ci.Pos(), name)
		}
	}
	for _, st := range ct.stores {
		if st[0] < len(args) && st[1] < len(args) {
			for a := range l.get(args[st[0]]) {
				l.heapAdd(apExtend(a, "[*]"), l.get(args[st[1]]))
			}
		}
	}
	if res != nil {
		for k := 0; k < nres; k++ {
			out := apset{}
			if ct.fresh || len(ct.aliases) == 0 {
				out[callSite+"|"] = true
			}
			if k == 0 {
				for _, i := range ct.aliases {
					if i < len(args) {
						out.addAll(l.get(args[i]))
					}
				}
			}
			l.setResult(res, k, nres, out)
		}
	}
}

// wrappedMethod: for a synthetic bound-method wrapper or method-expression thunk, the method it forwards to
// (bound: the receiver is the wrapper's captured variable rather than its first parameter).
func wrappedMethod(fn *ssa.Function) (*ssa.Function, bool) {
	if fn == nil || fn.Synthetic == "" || len(fn.Blocks) != 1 {
		return nil, false
	}
	bound := strings.HasPrefix(fn.Synthetic, "bound method wrapper")
	if !bound && !strings.HasPrefix(fn.Synthetic, "thunk") {
		return nil, false
	}
	var m *ssa.Function
	for _, ins := range fn.Blocks[0].Instrs {
		if c, ok := ins.(*ssa.Call); ok {
			if m != nil {
				return nil, false
			}
			m = c.Call.StaticCallee()
		}
	}
	return m, bound
}
