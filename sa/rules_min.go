package main

// T-min: the minimal-push policy (MINIMALDATA) as a decision table. enforceMinimumDataPush reads three
// things - the number of bytes pushed, the first byte, the opcode that pushed them - and either accepts or
// fails with ErrMinimalData. Its paths are folded on every cell of the grid of boundary lengths x telling
// first bytes x all 256 opcodes; each cell must have exactly one outcome, the protocol's:
//   0 bytes -> OP_0; one byte 1..16 -> OP_1..OP_16; one byte 0x81 -> OP_1NEGATE; up to 75 bytes -> the
//   direct push of that length; up to 255 -> OP_PUSHDATA1; up to 65535 -> OP_PUSHDATA2; longer: anything.

import (
	"fmt"
	"go/token"
	"golang.org/x/tools/go/ssa"
	"math/big"
	"sort"
	"strings"
)

func ruleTMin(c *Ctx) {
	fn := c.P.Func("bscript/interpreter", "*ParsedOpcode", "enforceMinimumDataPush")
	code := pkgConst(c, "bscript/interpreter/errs", "ErrMinimalData")
	if fn == nil || code < 0 {
		c.Undecided("T-min", "enforceMinimumDataPush", token.NoPos, "function or error code not found")
		return
	}
	paths, err := feasiblePaths(fn, 200000)
	if err != nil {
		c.Undecided("T-min", "enforceMinimumDataPush", fn.Pos(), "cannot enumerate paths: "+err.Error())
		return
	}
	// the three base terms, recognised by shape
	bases := map[string]*T{}
	for _, p := range paths {
		for _, cd := range p.Conds {
			baseTerms(cd.Cond, bases)
		}
	}
	var lenT, firstT, opT string
	var other []string
	var keys []string
	for k := range bases {
		keys = append(keys, k)
	}
	sort.Strings(keys)
	for _, k := range keys {
		switch {
		case strings.HasPrefix(k, "len(") && strings.Contains(k, ".Data"):
			lenT = k
		case strings.Contains(k, ".Data[0]") || strings.Contains(k, ".Data)[0]"):
			firstT = k
		case strings.HasSuffix(k, ".op.val"):
			opT = k
		default:
			other = append(other, k)
		}
	}
	if lenT == "" || firstT == "" || opT == "" || len(other) > 0 {
		c.Undecided("T-min", "enforceMinimumDataPush", fn.Pos(), fmt.Sprintf("the decision reads other things than the data length, the first byte and the opcode: %v (len %q first %q op %q)", other, lenT, firstT, opT))
		return
	}
	// the opcodes the decision is asked about: every call is guarded by "opcode <= K" on the same opcode
	// (only the push opcodes carry data); without such a guard all 256
	maxOp := int64(-1)
	nCalls := 0
	for _, site := range callSitesOf(c, fn) {
		nCalls++
		k := int64(255)
		env := newTermEnv()
		for x := site.Block(); x != nil && x.Idom() != nil; x = x.Idom() {
			d := x.Idom()
			iff, ok := d.Instrs[len(d.Instrs)-1].(*ssa.If)
			if !ok || len(x.Preds) != 1 || d.Succs[0] != x || d.Succs[1] == x {
				continue
			}
			bo, ok := iff.Cond.(*ssa.BinOp)
			if !ok || (bo.Op != token.LEQ && bo.Op != token.LSS) {
				continue
			}
			xt, yt := env.Term(bo.X), env.Term(bo.Y)
			if !strings.HasSuffix(xt.String(), ".op.val") || yt.K != "const" || yt.C == nil {
				continue
			}
			// the guarded opcode is the receiver of the call
			if recv := env.Term(site.Common().Args[0]); !strings.HasPrefix(xt.String(), recv.String()) && !strings.HasPrefix(xt.String(), "(*"+recv.String()+")") {
				continue
			}
			if v, ok := constValInt(yt.C); ok && v.IsInt64() {
				b := v.Int64()
				if bo.Op == token.LSS {
					b--
				}
				if b < k {
					k = b
				}
			}
		}
		if k > maxOp {
			maxOp = k
		}
	}
	if nCalls == 0 {
		c.Undecided("T-min", "enforceMinimumDataPush", fn.Pos(), "never called")
		return
	}
	lens := []int64{0, 1, 2, 74, 75, 76, 77, 254, 255, 256, 257, 65534, 65535, 65536, 65537, 1 << 20}
	firsts := []int64{0, 1, 2, 15, 16, 17, 0x7f, 0x80, 0x81, 0x82, 0xff}
	want := func(l, f, op int64) string {
		need := int64(-1)
		switch {
		case l == 0:
			need = 0x00
		case l == 1 && f >= 1 && f <= 16:
			need = 0x51 + f - 1
		case l == 1 && f == 0x81:
			need = 0x4f
		case l <= 75:
			need = l
		case l <= 255:
			need = 0x4c
		case l <= 65535:
			need = 0x4d
		}
		if need >= 0 && op != need {
			return "refused"
		}
		return "accepted"
	}
	cells := 0
	var bad []string
	for _, l := range lens {
		fs := firsts
		if l != 1 {
			fs = []int64{0, 1, 0x81} // the first byte must not matter
		}
		for _, f := range fs {
			for op := int64(0); op <= maxOp; op++ {
				asg := map[string]*big.Int{lenT: big.NewInt(l), opT: big.NewInt(op)}
				if l > 0 {
					asg[firstT] = big.NewInt(f)
				}
				got := map[string]bool{}
				for _, p := range paths {
					ok := true
					for _, cd := range p.Conds {
						v, evaluated := evalTerm(cd.Cond, asg)
						if !evaluated {
							if l == 0 {
								// the first byte of an empty push: a path that asks for it would panic
								got["reads the first byte of an empty push"] = true
							} else {
								got["a condition that does not fold: "+cd.Cond.String()] = true
							}
							ok = false
							break
						}
						if (v.Sign() != 0) != cd.Truth {
							ok = false
							break
						}
					}
					if !ok {
						continue
					}
					ec, kind := errCodeOfReturn(p)
					switch {
					case kind == "nil":
						got["accepted"] = true
					case kind == "error" && ec == code:
						got["refused"] = true
					default:
						got[fmt.Sprintf("%s %d", kind, ec)] = true
					}
				}
				var gs []string
				for g := range got {
					gs = append(gs, g)
				}
				sort.Strings(gs)
				cells++
				w := want(l, f, op)
				if len(gs) != 1 || gs[0] != w {
					if len(bad) < 6 {
						bad = append(bad, fmt.Sprintf("%d bytes, first byte %#x, opcode %#x: code %v, rule %s", l, f, op, gs, w))
					}
				}
			}
		}
	}
	c.Covered["T-min:cells"] = cells
	c.MinInstances("T-min", cells, 0x4f*16)
	c.Check(len(bad) == 0, "T-min", "enforceMinimumDataPush", fn.Pos(),
		fmt.Sprintf("the smallest push opcode for the data is demanded with ErrMinimalData on all %d cells (boundary lengths x first bytes x the opcodes 0..%#x its callers ask about)", cells, maxOp),
		"the minimal-push decision differs from the rule: "+strings.Join(bad, "; "))
}

// callSitesOf: the call instructions in module functions that (may) call fn, from the call graph.
func callSitesOf(c *Ctx, fn *ssa.Function) []ssa.CallInstruction {
	var out []ssa.CallInstruction
	if n := c.P.CG().Nodes[fn]; n != nil {
		for _, e := range n.In {
			if e.Site != nil && e.Caller != nil && e.Caller.Func != nil {
				out = append(out, e.Site)
			}
		}
	}
	sort.Slice(out, func(i, j int) bool { return out[i].Pos() < out[j].Pos() })
	return out
}

// T-pushonly: ParsedScript.IsPushOnly is "every opcode is at most OP_16". The loop body's paths are folded on
// all 256 values of the element's opcode byte: an element above OP_16 ends the scan with false, any other goes
// on to the next element; the scan that runs out of elements answers true.
func ruleTPushOnly(c *Ctx) {
	fn := c.P.Func("bscript/interpreter", "ParsedScript", "IsPushOnly")
	if fn == nil {
		c.Undecided("T-pushonly", "IsPushOnly", token.NoPos, "not found")
		return
	}
	forAllLoopTable(c, "T-pushonly", "IsPushOnly", fn, ".op.val", func(v int64) bool { return v <= 0x60 },
		"true exactly when every opcode is a push (at most OP_16 = 0x60), on all 256 opcode bytes",
		"P2SH and SIGPUSHONLY accept or refuse unlocking scripts on the wrong opcodes")
}

// forAllLoopTable: fn scans a list and answers whether every element's byte (the base term with the given
// suffix) satisfies want. Read from the paths that decide on an element: those from the entry and, for a
// verdict carried to the next round in a flag, those that go on from a back edge of the loop (one more
// round: the values merged at the loop header are what the round before left). On every value of the
// element's byte the outcomes of the paths that hold must be: for a wanted value, going on to the next
// element or answering true; for any other, answering false and nothing else. A scan that has looked at
// no element answers true.
func forAllLoopTable(c *Ctx, rule, key string, fn *ssa.Function, elemSuffix string, want func(int64) bool, okText, badText string) {
	first, err := feasiblePaths(fn, 20000)
	if err != nil {
		c.Undecided(rule, key, fn.Pos(), "cannot enumerate paths: "+err.Error())
		return
	}
	paths := append([]*DPath{}, first...)
	seenEdge := map[[2]*ssa.BasicBlock]bool{}
	for _, p := range first {
		if p.EndKind != "loop" || p.Target == nil || len(p.Blocks) == 0 {
			continue
		}
		e := [2]*ssa.BasicBlock{p.Blocks[len(p.Blocks)-1], p.Target}
		if seenEdge[e] {
			continue
		}
		seenEdge[e] = true
		more, err := enumPaths(e[1], e[0], nil, 20000)
		if err != nil {
			c.Undecided(rule, key, fn.Pos(), "cannot enumerate the paths of a further round: "+err.Error())
			return
		}
		paths = append(paths, filterFeasible(more)...)
	}
	bases := map[string]*T{}
	retTerm := func(p *DPath) *T {
		if p.EndKind == "return" && p.Ret != nil && len(p.Ret.Results) == 1 {
			return p.Env.Term(p.Ret.Results[0])
		}
		return nil
	}
	for _, p := range paths {
		for _, cd := range p.Conds {
			baseTerms(cd.Cond, bases)
		}
		if t := retTerm(p); t != nil {
			baseTerms(t, bases)
		}
	}
	elem := ""
	for k := range bases {
		if strings.HasSuffix(k, elemSuffix) {
			if elem != "" && elem != k {
				c.Undecided(rule, key, fn.Pos(), "two different element terms: "+elem+", "+k)
				return
			}
			elem = k
		}
	}
	if elem == "" {
		c.Undecided(rule, key, fn.Pos(), "no decision on the element's "+elemSuffix)
		return
	}
	mentionsT := func(t *T) bool {
		bt := map[string]*T{}
		baseTerms(t, bt)
		return bt[elem] != nil
	}
	mentions := func(p *DPath) bool {
		for _, cd := range p.Conds {
			if mentionsT(cd.Cond) {
				return true
			}
		}
		if t := retTerm(p); t != nil && mentionsT(t) {
			return true
		}
		return false
	}
	outcome := func(p *DPath, asg map[string]*big.Int) string {
		switch {
		case p.EndKind == "loop":
			return "next"
		case retTerm(p) != nil:
			if v, ok := evalTerm(retTerm(p), asg); ok {
				if v.Sign() != 0 {
					return "true"
				}
				return "false"
			}
			return "a result that does not fold: " + retTerm(p).String()
		}
		return "other (" + p.EndKind + ")"
	}
	var bad []string
	// the scan that ends without having looked at an element (from the entry)
	ends := map[string]bool{}
	for _, p := range first {
		if !mentions(p) && p.EndKind != "loop" {
			ends[outcome(p, map[string]*big.Int{})] = true
		}
	}
	if len(ends) != 1 || !ends["true"] {
		bad = append(bad, fmt.Sprintf("with no element the answer is %v, expected true", sortedKeys(ends)))
	}
	cells := 0
	for v := int64(0); v < 256; v++ {
		asg := map[string]*big.Int{elem: big.NewInt(v)}
		got := map[string]bool{}
		for _, p := range paths {
			if !mentions(p) {
				continue
			}
			ok := true
			for _, cd := range p.Conds {
				if !mentionsT(cd.Cond) {
					continue
				}
				val, evaluated := evalTerm(cd.Cond, asg)
				if !evaluated {
					got["a condition that does not fold: "+cd.Cond.String()] = true
					ok = false
					break
				}
				if (val.Sign() != 0) != cd.Truth {
					ok = false
					break
				}
			}
			if ok {
				got[outcome(p, asg)] = true
			}
		}
		cells++
		good := len(got) > 0
		for g := range got {
			if want(v) && g != "next" && g != "true" || !want(v) && g != "false" {
				good = false
			}
		}
		if !good && len(bad) < 5 {
			bad = append(bad, fmt.Sprintf("element %#x: code %v, rule %s", v, sortedKeys(got), map[bool]string{true: "goes on to the next element (or answers true after the last)", false: "answers false"}[want(v)]))
		}
	}
	c.Covered[rule+":cells"] = cells
	c.MinInstances(rule, cells, 256)
	c.Check(len(bad) == 0, rule, key, fn.Pos(), okText, key+" differs from the rule ("+badText+"): "+strings.Join(bad, "; "))
}

func sortedKeys(m map[string]bool) []string {
	var ks []string
	for k := range m {
		ks = append(ks, k)
	}
	sort.Strings(ks)
	return ks
}
