package main

// G-eff: guarded effects. Lists every store to non-local memory performed by a
// function together with the branch conditions that dominate it, and compares
// the set with a specification set (C03: the blanking / truncation steps of the
// legacy signature-hash algorithm; C12: the UTXO -> Input mapping).

import (
	"fmt"
	"go/token"
	"go/types"
	"sort"
	"strings"

	"golang.org/x/tools/go/ssa"
)

type geffect struct {
	target, value string
	conds         []string
	pos           token.Pos
}

func (g geffect) String() string {
	c := append([]string{}, g.conds...)
	sort.Strings(c)
	s := g.target + " := " + g.value
	if len(c) > 0 {
		s += "  when " + strings.Join(c, " && ")
	}
	return s
}

// isRangeHeaderCond: the loop continuation test of a range loop (i < len(coll)).
func isRangeHeaderCond(iff *ssa.If) bool {
	b := iff.Block()
	if !isLoopHeader(b) {
		return false
	}
	bo, ok := iff.Cond.(*ssa.BinOp)
	if !ok || bo.Op != token.LSS {
		return false
	}
	if c, ok := bo.Y.(*ssa.Call); ok {
		if bi, ok := c.Call.Value.(*ssa.Builtin); ok && bi.Name() == "len" {
			// index is phi+1 of a phi starting at -1
			if add, ok := bo.X.(*ssa.BinOp); ok {
				if ph, ok := add.X.(*ssa.Phi); ok && phiStartsAt(ph, -1) {
					return true
				}
			}
		}
	}
	return false
}

func collectEffects(c *Ctx, fn *ssa.Function) []geffect {
	w := newWEval(c.P, fn)
	var out []geffect
	for _, b := range fn.Blocks {
		for _, ins := range b.Instrs {
			st, ok := ins.(*ssa.Store)
			if !ok {
				continue
			}
			// only stores into heap objects (fields / elements reached through pointers), not into locals
			if rootIsLocal(st.Addr) {
				continue
			}
			e := geffect{target: w.term(st.Addr), value: effectValue(w, st.Val), pos: st.Pos()}
			for x := b; x != nil; x = x.Idom() {
				if len(x.Preds) != 1 {
					continue
				}
				pr := x.Preds[0]
				iff, ok := pr.Instrs[len(pr.Instrs)-1].(*ssa.If)
				if ok && isRangeHeaderCond(iff) && pr.Succs[0] == x {
					// inside a range loop: the collection ranged over is part of the step
					if ln, isC := iff.Cond.(*ssa.BinOp).Y.(*ssa.Call); isC {
						e.conds = append(e.conds, "i in "+w.term(ln.Call.Args[0]))
					}
					continue
				}
				if !ok || pr.Succs[0] == pr.Succs[1] || isRangeHeaderCond(iff) {
					continue
				}
				if isLoopHeader(pr) && !loopBodyContains(pr, x) {
					continue // leaving an earlier loop only says that loop has finished
				}
				truth := pr.Succs[0] == x
				cond := iff.Cond
				for {
					u, ok := cond.(*ssa.UnOp)
					if !ok || u.Op != token.NOT {
						break
					}
					cond = u.X
					truth = !truth
				}
				t := w.term(cond)
				if !truth {
					t = "!" + t
				}
				e.conds = append(e.conds, t)
			}
			out = append(out, e)
		}
	}
	return out
}

// loopBodyContains: is block x inside the natural loop headed by h?
func loopBodyContains(h, x *ssa.BasicBlock) bool {
	var latches []*ssa.BasicBlock
	for _, p := range h.Preds {
		if h.Dominates(p) {
			latches = append(latches, p)
		}
	}
	return loopBlocks(h, latches)[x]
}

func rootIsLocal(addr ssa.Value) bool {
	for i := 0; i < 8; i++ {
		switch x := addr.(type) {
		case *ssa.Alloc:
			return true
		case *ssa.FieldAddr:
			addr = x.X
		case *ssa.IndexAddr:
			// element of a slice: the slice value decides (loaded from somewhere = heap)
			if _, ok := x.X.Type().Underlying().(*types.Pointer); ok {
				addr = x.X
				continue
			}
			return false
		default:
			return false
		}
	}
	return false
}

func effectValue(w *WEval, v ssa.Value) string {
	switch x := v.(type) {
	case *ssa.Alloc:
		// &T{} / &Script{}: a fresh empty object unless something is stored into it
		stores := 0
		if x.Referrers() != nil {
			for _, r := range *x.Referrers() {
				if st, ok := r.(*ssa.Store); ok && st.Addr == ssa.Value(x) {
					if k, isC := st.Val.(*ssa.Const); isC && k.Value == nil {
						continue
					}
					if sl, isSl := st.Val.(*ssa.Slice); isSl {
						if al, ok := sl.X.(*ssa.Alloc); ok {
							if at, ok := al.Type().Underlying().(*types.Pointer).Elem().Underlying().(*types.Array); ok && at.Len() == 0 {
								continue // empty literal
							}
						}
					}
					stores++
				}
			}
		}
		if stores == 0 {
			return "&empty(" + typeKey(x.Type().Underlying().(*types.Pointer).Elem()) + ")"
		}
		return "&local"
	case *ssa.Slice:
		lo, hi := "0", "len"
		if x.Low != nil {
			lo = w.term(x.Low)
		}
		if x.High != nil {
			hi = w.term(x.High)
		}
		return w.term(x.X) + "[" + lo + ":" + hi + "]"
	}
	return w.term(v)
}

func ruleGEffLegacy(c *Ctx) {
	fn := c.P.Func("", "*Tx", "CalcInputPreimageLegacy")
	if fn == nil {
		c.Undecided("G-eff", "CalcInputPreimageLegacy", token.NoPos, "not found")
		return
	}
	C := "(*bt.Tx).Clone(p0)"
	N := "((p2 & 31) == 2)"
	S := "((p2 & 31) == 3)"
	guard := "!(" + S[1:len(S)-1] + " && (p1 > (len(p0.Outputs) - 1)))"
	_ = guard
	// the Satoshi algorithm, as effects on the working copy C (idx = p1, hash type = p2)
	want := []string{
		// 1. script code: the signed input carries the recorded previous script, all others are blanked
		C + ".Inputs[i].PreviousTxScript := p0.Inputs[p1].PreviousTxScript  when (i == p1) && i in " + C + ".Inputs",
		C + ".Inputs[i].UnlockingScript := &empty(bscript.Script)  when !(i == p1) && i in " + C + ".Inputs",
		C + ".Inputs[i].PreviousTxScript := &empty(bscript.Script)  when !(i == p1) && i in " + C + ".Inputs",
		// 2. NONE: no outputs, other inputs' sequences zeroed
		C + ".Outputs := " + C + ".Outputs[0:0]  when " + N,
		C + ".Inputs[i].SequenceNumber := 0  when (i != p1) && i in " + C + ".Inputs && " + N,
		// 3. SINGLE: outputs truncated to idx+1, earlier ones blanked to (-1, empty), other sequences zeroed
		C + ".Outputs := " + C + ".Outputs[0:(p1 + 1)]  when !" + N + " && " + S,
		C + ".Outputs[i].Satoshis := 18446744073709551615  when !" + N + " && (i < p1) && " + S,
		C + ".Outputs[i].LockingScript := &empty(bscript.Script)  when !" + N + " && (i < p1) && " + S,
		C + ".Inputs[i].SequenceNumber := 0  when !" + N + " && (i != p1) && i in " + C + ".Inputs && " + S,
		// 4. ANYONECANPAY: only the signed input remains
		C + ".Inputs := " + C + ".Inputs[p1:(p1 + 1)]  when ((p2 & 128) != 0)",
	}
	got := collectEffects(c, fn)
	// every effect happens after the SINGLE-out-of-range early return: drop that common guard from the comparison
	var gs []string
	common := ""
	for _, e := range got {
		var cs []string
		for _, cd := range e.conds {
			if strings.Contains(cd, "p1 > (len(p0.Outputs) - 1)") || strings.Contains(cd, "== nil") || strings.Contains(cd, "previousTxID) == 0") {
				common = cd
				continue
			}
			cs = append(cs, cd)
		}
		e.conds = cs
		gs = append(gs, e.String())
	}
	_ = common
	sort.Strings(gs)
	ws := append([]string{}, want...)
	// canonical condition order
	for i, s := range ws {
		parts := strings.SplitN(s, "  when ", 2)
		if len(parts) == 2 {
			cs := strings.Split(parts[1], " && ")
			sort.Strings(cs)
			ws[i] = parts[0] + "  when " + strings.Join(cs, " && ")
		}
	}
	sort.Strings(ws)
	gotSet, wantSet := map[string]bool{}, map[string]bool{}
	for _, g := range gs {
		gotSet[g] = true
	}
	for _, w := range ws {
		wantSet[w] = true
	}
	c.Covered["G-eff:stores_in_legacy_preimage"] = len(gs)
	for _, w := range ws {
		c.Check(gotSet[w], "G-eff", "step/"+shorten(w, 120), fn.Pos(), "performed exactly under the specified condition", "the legacy algorithm's step is missing or guarded differently: "+w)
	}
	for _, e := range got {
		cs := []string{}
		for _, cd := range e.conds {
			if strings.Contains(cd, "p1 > (len(p0.Outputs) - 1)") || strings.Contains(cd, "== nil") || strings.Contains(cd, "previousTxID) == 0") {
				continue
			}
			cs = append(cs, cd)
		}
		e.conds = cs
		if !wantSet[e.String()] {
			c.Fail("G-eff", "extra/"+shorten(e.String(), 120), e.pos, "the working copy is modified in a way the legacy algorithm does not specify: "+e.String())
		}
	}
	if len(gs) < 10 {
		c.Undecided("G-eff", "min-instances", fn.Pos(), fmt.Sprintf("only %d stores found (expected the 10 steps)", len(gs)))
	}
}
