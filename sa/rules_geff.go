package main

// G-eff: guarded effects. Lists every store to non-local memory performed by a
// function together with the branch conditions that dominate it, and compares
// the set with a specification set (C03: the blanking / truncation steps of the
// legacy signature-hash algorithm; C12: the UTXO -> Input mapping).

import (
	"fmt"
	"go/token"
	"go/types"
	"sort"
	"strings"

	"golang.org/x/tools/go/ssa"
)

type geffect struct {
	target, value string
	conds         []string
	pos           token.Pos
}

func (g geffect) String() string {
	c := append([]string{}, g.conds...)
	sort.Strings(c)
	s := g.target + " := " + g.value
	if len(c) > 0 {
		s += "  when " + strings.Join(c, " && ")
	}
	return s
}

// isRangeHeaderCond: the loop continuation test of a range loop (i < len(coll)).
func isRangeHeaderCond(iff *ssa.If) bool {
	b := iff.Block()
	if !isLoopHeader(b) {
		return false
	}
	bo, ok := iff.Cond.(*ssa.BinOp)
	if !ok || bo.Op != token.LSS {
		return false
	}
	if c, ok := bo.Y.(*ssa.Call); ok {
		if bi, ok := c.Call.Value.(*ssa.Builtin); ok && bi.Name() == "len" {
			// index is phi+1 of a phi starting at -1
			if add, ok := bo.X.(*ssa.BinOp); ok {
				if ph, ok := add.X.(*ssa.Phi); ok && phiStartsAt(ph, -1) {
					return true
				}
			}
		}
	}
	return false
}

func collectEffects(c *Ctx, fn *ssa.Function) []geffect {
	w := newWEval(c.P, fn)
	var out []geffect
	for _, b := range fn.Blocks {
		for _, ins := range b.Instrs {
			st, ok := ins.(*ssa.Store)
			if !ok {
				continue
			}
			// only stores into heap objects (fields / elements reached through pointers), not into locals
			if rootIsLocal(st.Addr) {
				continue
			}
			e := geffect{target: w.term(st.Addr), value: effectValue(w, st.Val), pos: st.Pos()}
			for x := b; x != nil; x = x.Idom() {
				if len(x.Preds) != 1 {
					continue
				}
				pr := x.Preds[0]
				iff, ok := pr.Instrs[len(pr.Instrs)-1].(*ssa.If)
				if ok && isRangeHeaderCond(iff) && pr.Succs[0] == x {
					// inside a range loop: the collection ranged over is part of the step
					if ln, isC := iff.Cond.(*ssa.BinOp).Y.(*ssa.Call); isC {
						e.conds = append(e.conds, "i in "+w.term(ln.Call.Args[0]))
					}
					continue
				}
				if !ok || pr.Succs[0] == pr.Succs[1] || isRangeHeaderCond(iff) {
					continue
				}
				if isLoopHeader(pr) && !loopBodyContains(pr, x) {
					continue // leaving an earlier loop only says that loop has finished
				}
				truth := pr.Succs[0] == x
				cond := iff.Cond
				for {
					u, ok := cond.(*ssa.UnOp)
					if !ok || u.Op != token.NOT {
						break
					}
					cond = u.X
					truth = !truth
				}
				t := w.term(cond)
				if !truth {
					t = "!" + t
				}
				e.conds = append(e.conds, t)
			}
			out = append(out, e)
		}
	}
	return out
}

// loopBodyContains: is block x inside the natural loop headed by h?
func loopBodyContains(h, x *ssa.BasicBlock) bool {
	var latches []*ssa.BasicBlock
	for _, p := range h.Preds {
		if h.Dominates(p) {
			latches = append(latches, p)
		}
	}
	return loopBlocks(h, latches)[x]
}

func rootIsLocal(addr ssa.Value) bool {
	for i := 0; i < 8; i++ {
		switch x := addr.(type) {
		case *ssa.Alloc:
			return true
		case *ssa.FieldAddr:
			addr = x.X
		case *ssa.IndexAddr:
			// element of a slice: the slice value decides (loaded from somewhere = heap)
			if _, ok := x.X.Type().Underlying().(*types.Pointer); ok {
				addr = x.X
				continue
			}
			return false
		default:
			return false
		}
	}
	return false
}

func effectValue(w *WEval, v ssa.Value) string {
	switch x := v.(type) {
	case *ssa.Alloc:
		// &T{} / &Script{}: a fresh empty object unless something is stored into it
		stores := 0
		if x.Referrers() != nil {
			for _, r := range *x.Referrers() {
				if st, ok := r.(*ssa.Store); ok && st.Addr == ssa.Value(x) {
					if k, isC := st.Val.(*ssa.Const); isC && k.Value == nil {
						continue
					}
					if sl, isSl := st.Val.(*ssa.Slice); isSl {
						if al, ok := sl.X.(*ssa.Alloc); ok {
							if at, ok := al.Type().Underlying().(*types.Pointer).Elem().Underlying().(*types.Array); ok && at.Len() == 0 {
								continue // empty literal
							}
						}
					}
					stores++
				}
			}
		}
		if stores == 0 {
			return "&empty(" + typeKey(x.Type().Underlying().(*types.Pointer).Elem()) + ")"
		}
		return "&local"
	case *ssa.Slice:
		lo, hi := "0", "len"
		if x.Low != nil {
			lo = w.term(x.Low)
		}
		if x.High != nil {
			hi = w.term(x.High)
		}
		return w.term(x.X) + "[" + lo + ":" + hi + "]"
	}
	return w.term(v)
}

func ruleGEffLegacy(c *Ctx) {
	fn := c.P.Func("", "*Tx", "CalcInputPreimageLegacy")
	if fn == nil {
		c.Undecided("G-eff", "CalcInputPreimageLegacy", token.NoPos, "not found")
		return
	}
	C := "(*bt.Tx).Clone(p0)"
	N := "((p2 & 31) == 2)"
	S := "((p2 & 31) == 3)"
	guard := "!(" + S[1:len(S)-1] + " && (p1 > (len(p0.Outputs) - 1)))"
	_ = guard
	// the Satoshi algorithm, as effects on the working copy C (idx = p1, hash type = p2)
	want := []string{
		// 1. script code: the signed input carries the recorded previous script, all others are blanked
		C + ".Inputs[i].PreviousTxScript := p0.Inputs[p1].PreviousTxScript  when (i == p1) && i in " + C + ".Inputs",
		C + ".Inputs[i].UnlockingScript := &empty(bscript.Script)  when !(i == p1) && i in " + C + ".Inputs",
		C + ".Inputs[i].PreviousTxScript := &empty(bscript.Script)  when !(i == p1) && i in " + C + ".Inputs",
		// 2. NONE: no outputs, other inputs' sequences zeroed
		C + ".Outputs := " + C + ".Outputs[0:0]  when " + N,
		C + ".Inputs[i].SequenceNumber := 0  when (i != p1) && i in " + C + ".Inputs && " + N,
		// 3. SINGLE: outputs truncated to idx+1, earlier ones blanked to (-1, empty), other sequences zeroed
		C + ".Outputs := " + C + ".Outputs[0:(p1 + 1)]  when !" + N + " && " + S,
		C + ".Outputs[i].Satoshis := 18446744073709551615  when !" + N + " && (i < p1) && " + S,
		C + ".Outputs[i].LockingScript := &empty(bscript.Script)  when !" + N + " && (i < p1) && " + S,
		C + ".Inputs[i].SequenceNumber := 0  when !" + N + " && (i != p1) && i in " + C + ".Inputs && " + S,
		// 4. ANYONECANPAY: only the signed input remains
		C + ".Inputs := " + C + ".Inputs[p1:(p1 + 1)]  when ((p2 & 128) != 0)",
	}
	// guards compared as boolean functions: a step may be written once under (A || B) or twice under A and B
	w := newWEval(c.P, fn)
	common := func(atom string) bool {
		return strings.Contains(atom, "nil") || strings.Contains(atom, "previousTxID)") || strings.Contains(atom, "len(p0.Outputs)")
	}
	gotG := map[string][][]condLit{}
	gotPos := map[string]token.Pos{}
	nStores := 0
	sites := effectSites(c, fn, w)
	for _, es := range sites {
		nStores++
		key := es.key
		if !es.okGuard {
			c.Undecided("G-eff", "guard/"+shorten(key, 100), es.pos, "the conditions guarding this store cannot be enumerated")
			continue
		}
		for _, cj := range es.guard {
			var nj []condLit
			for _, l := range cj {
				if !common(l.Atom) {
					nj = append(nj, l)
				}
			}
			gotG[key] = append(gotG[key], nj)
		}
		gotPos[key] = es.pos
	}
	wantG := map[string][][]condLit{}
	for _, s := range want {
		parts := strings.SplitN(s, "  when ", 2)
		var cj []condLit
		if len(parts) == 2 {
			for _, cs := range strings.Split(parts[1], " && ") {
				truth := true
				if strings.HasPrefix(cs, "!") {
					truth, cs = false, cs[1:]
				}
				a, flip := canonAtom(cs)
				cj = append(cj, condLit{Atom: a, Truth: truth != flip})
			}
		}
		wantG[parts[0]] = append(wantG[parts[0]], cj)
	}
	c.Covered["G-eff:stores_in_legacy_preimage"] = nStores
	var keys []string
	for k := range wantG {
		keys = append(keys, k)
	}
	sort.Strings(keys)
	for _, k := range keys {
		g, has := gotG[k]
		if !has {
			c.Fail("G-eff", "step/"+shorten(k, 120), fn.Pos(), "the legacy algorithm's step is missing: "+k)
			continue
		}
		eq, where := dnfEquivalent(g, wantG[k])
		c.Check(eq, "G-eff", "step/"+shorten(k, 120), gotPos[k], "performed exactly under the specified condition", "the legacy algorithm's step "+k+" is guarded differently from the specification, e.g. under "+where)
	}
	var gk []string
	for k := range gotG {
		gk = append(gk, k)
	}
	sort.Strings(gk)
	for _, k := range gk {
		if _, has := wantG[k]; !has {
			c.Fail("G-eff", "extra/"+shorten(k, 120), gotPos[k], "the working copy is modified in a way the legacy algorithm does not specify: "+k)
		}
	}
	// order: a store that replaces a collection of the working copy by a re-slice with a non-zero lower
	// bound renumbers its elements; every step that indexes or ranges over that collection speaks of the
	// original positions and must not be reachable from that store
	nOrder := 0
	for _, es := range sites {
		st := es.store
		sl, isSl := st.Val.(*ssa.Slice)
		if !isSl || sl.Low == nil {
			continue
		}
		if k, isK := constInt(sl.Low); isK && k.Sign() == 0 {
			continue
		}
		coll := strings.TrimPrefix(strings.SplitN(es.key, " := ", 2)[0], "&")
		if !strings.HasPrefix(strings.SplitN(es.key, " := ", 2)[1], coll+"[") {
			continue
		}
		nOrder++
		bad := ""
		for _, e2 := range sites {
			if e2.store == st {
				continue
			}
			t2 := strings.TrimPrefix(strings.SplitN(e2.key, " := ", 2)[0], "&")
			uses := strings.HasPrefix(t2, coll+"[")
			for _, cj := range e2.guard {
				for _, l := range cj {
					if l.Atom == "i in "+coll {
						uses = true
					}
				}
			}
			if uses && es.before(e2) {
				bad = t2
			}
		}
		c.Check(bad == "", "G-eff", "order/"+shorten(coll, 80)+"-renumbered-last", st.Pos(), "no step that addresses elements of "+coll+" by position runs after the collection was cut down to the signed element",
			"the working copy's "+coll+" is re-sliced from a non-zero position before "+bad+" is written: that step addresses elements by their original position and now hits the wrong element (or none)")
	}
	c.Covered["G-eff:renumbering_stores"] = nOrder
	if len(gotG) < 9 {
		c.Undecided("G-eff", "min-instances", fn.Pos(), fmt.Sprintf("only %d distinct effects found (expected the steps of the algorithm)", len(gotG)))
	}
}

// effectSite: one store to non-local memory performed by a function or by a helper outside the
// baseline list that it calls at one site (a part of the function a later change moved out): target and
// value in the function's own vocabulary, the guard as a DNF (helper-internal guard AND the guard of the
// call), and where in the function's control flow it happens.
type effectSite struct {
	key     string
	guard   [][]condLit
	okGuard bool
	pos     token.Pos
	store   *ssa.Store
	at      *ssa.BasicBlock // block of fn in which the store (or the call leading to it) stands
	idx     int             // instruction index in that block
	inner   int             // order inside the helper
}

// before: a path exists on which this site runs before the other one.
func (e effectSite) before(o effectSite) bool {
	if e.at == o.at {
		if e.idx != o.idx {
			return e.idx < o.idx
		}
		return e.inner < o.inner // same helper call: program order inside the helper (approximated by position)
	}
	reach := map[*ssa.BasicBlock]bool{}
	work := append([]*ssa.BasicBlock{}, e.at.Succs...)
	for len(work) > 0 {
		x := work[0]
		work = work[1:]
		if reach[x] {
			continue
		}
		reach[x] = true
		work = append(work, x.Succs...)
	}
	return reach[o.at]
}

func effectSites(c *Ctx, fn *ssa.Function, w *WEval) []effectSite {
	var out []effectSite
	var collect func(f *ssa.Function, fw *WEval, outer [][]condLit, outerOK bool, at *ssa.BasicBlock, idx int, depth int)
	collect = func(f *ssa.Function, fw *WEval, outer [][]condLit, outerOK bool, at *ssa.BasicBlock, idx int, depth int) {
		calls := map[*ssa.Function][]*ssa.Call{}
		for _, b := range f.Blocks {
			for _, ins := range b.Instrs {
				if call, ok := ins.(*ssa.Call); ok {
					if sc := call.Call.StaticCallee(); sc != nil {
						calls[sc] = append(calls[sc], call)
					}
				}
			}
		}
		n := 0
		for _, b := range f.Blocks {
			for i, ins := range b.Instrs {
				switch x := ins.(type) {
				case *ssa.Store:
					if rootIsLocal(x.Addr) {
						continue
					}
					n++
					g, okg := blockGuard(fw, b)
					es := effectSite{key: fw.term(x.Addr) + " := " + effectValue(fw, x.Val), pos: x.Pos(), store: x, okGuard: okg && outerOK, at: at, idx: idx, inner: n}
					if f == fn {
						es.at, es.idx = b, i
					}
					es.guard = dnfAnd(outer, g)
					out = append(out, es)
				case *ssa.Call:
					sc := x.Call.StaticCallee()
					isLit := sc != nil && sc.Parent() == f // a function literal of this very function, called in place
					if sc == nil || depth >= 2 || len(sc.Blocks) == 0 {
						continue
					}
					if !isLit && (inlineHelper == nil || !inlineHelper(sc) || len(calls[sc]) != 1) {
						continue
					}
					g, okg := blockGuard(fw, b)
					sub := newWEval(c.P, sc)
					sub.depth = fw.depth + 1
					sub.parentEval = fw
					for pi, p := range sc.Params {
						if pi < len(x.Call.Args) {
							sub.args[p] = fw.term(x.Call.Args[pi])
						}
					}
					cat, cidx := at, idx
					if f == fn {
						cat, cidx = b, i
					}
					collect(sc, sub, dnfAnd(outer, g), okg && outerOK, cat, cidx, depth+1)
				}
			}
		}
	}
	collect(fn, w, [][]condLit{nil}, true, nil, 0, 0)
	return out
}

// dnfAnd: conjunction of two DNFs.
func dnfAnd(a, b [][]condLit) [][]condLit {
	if len(a) == 0 {
		a = [][]condLit{nil}
	}
	if len(b) == 0 {
		b = [][]condLit{nil}
	}
	var out [][]condLit
	for _, x := range a {
		for _, y := range b {
			out = append(out, append(append([]condLit{}, x...), y...))
		}
	}
	return out
}

// ---- guards as boolean functions ----

// localRegionDNF: conditions (between root = idom(b) and b) under which control reaches b.
func localRegionDNF(w *WEval, root, b *ssa.BasicBlock) ([][]condLit, bool) {
	var out [][]condLit
	ok := true
	var walk func(x *ssa.BasicBlock, acc []condLit, seen map[*ssa.BasicBlock]bool)
	walk = func(x *ssa.BasicBlock, acc []condLit, seen map[*ssa.BasicBlock]bool) {
		if len(out) > 128 {
			ok = false
			return
		}
		if seen[x] {
			return
		}
		seen[x] = true
		defer func() { seen[x] = false }()
		step := func(s *ssa.BasicBlock, extra *condLit) {
			a := acc
			if extra != nil {
				a = append(append([]condLit{}, acc...), *extra)
			}
			if s == b {
				out = append(out, a)
				return
			}
			if s != root && root.Dominates(s) {
				walk(s, a, seen)
			}
		}
		switch t := x.Instrs[len(x.Instrs)-1].(type) {
		case *ssa.Jump:
			step(x.Succs[0], nil)
		case *ssa.If:
			if isRangeHeaderCond(t) {
				if ln, isC := t.Cond.(*ssa.BinOp).Y.(*ssa.Call); isC {
					step(x.Succs[0], &condLit{Atom: "i in " + w.term(ln.Call.Args[0]), Truth: true})
				}
				step(x.Succs[1], nil) // after the loop: no guard
				return
			}
			if isLoopHeader(x) {
				// a counted loop: inside the body its continuation test holds; after it, nothing is known
				step(x.Succs[0], &condLit{Atom: w.term(t.Cond), Truth: true})
				step(x.Succs[1], nil)
				return
			}
			cond, neg := t.Cond, false
			for {
				if u, isU := cond.(*ssa.UnOp); isU && u.Op == token.NOT {
					cond, neg = u.X, !neg
					continue
				}
				break
			}
			if ph, isPhi := cond.(*ssa.Phi); isPhi {
				for i, s := range x.Succs {
					dnf, okp := w.expandBoolPhi(ph, (i == 0) != neg, 0)
					if !okp {
						ok = false
						return
					}
					for _, alt := range dnf {
						a := append(append([]condLit{}, acc...), alt...)
						if s == b {
							out = append(out, a)
						} else if s != root && root.Dominates(s) {
							walk(s, a, seen)
						}
					}
				}
				return
			}
			atom := w.term(cond)
			step(x.Succs[0], &condLit{Atom: atom, Truth: !neg})
			step(x.Succs[1], &condLit{Atom: atom, Truth: neg})
		}
	}
	walk(root, nil, map[*ssa.BasicBlock]bool{})
	return out, ok
}

func canonDNF(d [][]condLit) [][]condLit {
	var out [][]condLit
	for _, cj := range d {
		var nj []condLit
		for _, l := range cj {
			a, flip := canonAtom(l.Atom)
			nj = append(nj, condLit{Atom: a, Truth: l.Truth != flip})
		}
		out = append(out, nj)
	}
	return out
}

func dnfAtoms(d [][]condLit, out map[string]bool) {
	for _, cj := range d {
		for _, l := range cj {
			out[l.Atom] = true
		}
	}
}

func dnfTautology(d [][]condLit) bool {
	atoms := map[string]bool{}
	dnfAtoms(d, atoms)
	names := keysSorted(atoms)
	if len(names) > 12 {
		return false
	}
	for m := 0; m < 1<<len(names); m++ {
		val := map[string]bool{}
		for i, a := range names {
			val[a] = m&(1<<i) != 0
		}
		if !dnfHolds(d, val) {
			return false
		}
	}
	return true
}

// blockGuard: the guard of block b from the function entry, as the conjunction of the local region
// guards along its dominator chain (regions that every path crosses contribute nothing).
func blockGuard(w *WEval, b *ssa.BasicBlock) ([][]condLit, bool) {
	guard := [][]condLit{nil}
	for x := b; x.Idom() != nil; x = x.Idom() {
		d, ok := localRegionDNF(w, x.Idom(), x)
		if !ok {
			return nil, false
		}
		d = canonDNF(d)
		if len(d) == 0 || dnfTautology(d) {
			continue
		}
		var next [][]condLit
		for _, g := range guard {
			for _, alt := range d {
				next = append(next, append(append([]condLit{}, g...), alt...))
			}
		}
		if len(next) > 256 {
			return nil, false
		}
		guard = next
	}
	return guard, true
}

func dnfEquivalent(a, b [][]condLit) (bool, string) {
	atoms := map[string]bool{}
	dnfAtoms(a, atoms)
	dnfAtoms(b, atoms)
	names := keysSorted(atoms)
	if len(names) > 14 {
		return false, "too many atoms"
	}
	for m := 0; m < 1<<len(names); m++ {
		val := map[string]bool{}
		for i, n := range names {
			val[n] = m&(1<<i) != 0
		}
		if !feasible(val) {
			continue
		}
		if dnfHolds(a, val) != dnfHolds(b, val) {
			return false, valString(val)
		}
	}
	return true, ""
}
