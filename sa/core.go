package main

// Core plumbing: program loading, obligations, verdicts, known findings,
// trusted sites, evidence. No go-bt code is ever executed by this binary; it
// only parses, type-checks and builds go/ssa for /repo's current sources.

import (
	"encoding/json"
	"fmt"
	"go/ast"
	"go/token"
	"go/types"
	"os"
	"path/filepath"
	"sort"
	"strings"
	"time"

	"golang.org/x/tools/go/callgraph"
	"golang.org/x/tools/go/callgraph/cha"
	"golang.org/x/tools/go/callgraph/vta"
	"golang.org/x/tools/go/packages"
	"golang.org/x/tools/go/ssa"
	"golang.org/x/tools/go/ssa/ssautil"
)

const modPath = "github.com/libsv/go-bt/v2"

// Prog is the loaded, type-checked program.
type Prog struct {
	Repo    string
	Fset    *token.FileSet
	Pkgs    map[string]*packages.Package // module packages by import path
	AllPkgs []*packages.Package          // every package incl. deps
	SSA     *ssa.Program
	ssaPkgs map[string]*ssa.Package
	cg      *callgraph.Graph
	chaCG   *callgraph.Graph
	GOARCH  string
}

func loadProg(repo, goarch string) (*Prog, error) {
	env := append(os.Environ(),
		"GOFLAGS=-mod=mod", "GOPROXY=off", "GOSUMDB=off", "GOTOOLCHAIN=local", "GOWORK=off", "CGO_ENABLED=0")
	if goarch != "" {
		env = append(env, "GOARCH="+goarch)
	}
	cfg := &packages.Config{
		Mode:  packages.LoadAllSyntax,
		Dir:   repo,
		Env:   env,
		Tests: false,
	}
	pkgs, err := packages.Load(cfg, "./...")
	if err != nil {
		return nil, fmt.Errorf("load: %w", err)
	}
	p := &Prog{Repo: repo, Pkgs: map[string]*packages.Package{}, GOARCH: goarch}
	var errs []string
	packages.Visit(pkgs, nil, func(pk *packages.Package) {
		p.AllPkgs = append(p.AllPkgs, pk)
		for _, e := range pk.Errors {
			errs = append(errs, e.Error())
		}
	})
	if len(errs) > 0 {
		return nil, fmt.Errorf("type-check errors (undecided): %s", strings.Join(errs, "; "))
	}
	for _, pk := range pkgs {
		p.Pkgs[pk.PkgPath] = pk
		p.Fset = pk.Fset
	}
	if len(pkgs) < 12 {
		return nil, fmt.Errorf("only %d module packages loaded (expected >= 12): undecided", len(pkgs))
	}
	for _, need := range []string{modPath, modPath + "/bscript", modPath + "/bscript/interpreter", modPath + "/sighash", modPath + "/ord", modPath + "/unlocker"} {
		if p.Pkgs[need] == nil {
			return nil, fmt.Errorf("package %s not loaded: undecided", need)
		}
	}
	prog, _ := ssautil.AllPackages(pkgs, ssa.InstantiateGenerics)
	prog.Build()
	p.SSA = prog
	p.ssaPkgs = map[string]*ssa.Package{}
	for _, sp := range prog.AllPackages() {
		p.ssaPkgs[sp.Pkg.Path()] = sp
	}
	return p, nil
}

// inScope reports whether the module package is analysed for properties
// (examples and testing helpers are loaded but not anchored by any property).
func inScope(path string) bool {
	if !strings.HasPrefix(path, modPath) {
		return false
	}
	rest := strings.TrimPrefix(path, modPath)
	return !strings.HasPrefix(rest, "/examples") && !strings.HasPrefix(rest, "/testing")
}

func (p *Prog) ScopePkgs() []*packages.Package {
	var out []*packages.Package
	for path, pk := range p.Pkgs {
		if inScope(path) {
			out = append(out, pk)
		}
	}
	sort.Slice(out, func(i, j int) bool { return out[i].PkgPath < out[j].PkgPath })
	return out
}

func (p *Prog) CG() *callgraph.Graph {
	if p.cg == nil {
		p.cg = vta.CallGraph(ssautil.AllFunctions(p.SSA), cha.CallGraph(p.SSA))
	}
	return p.cg
}

func (p *Prog) CHA() *callgraph.Graph {
	if p.chaCG == nil {
		p.chaCG = cha.CallGraph(p.SSA)
	}
	return p.chaCG
}

func (p *Prog) SSAPkg(path string) *ssa.Package { return p.ssaPkgs[path] }

// Func resolves "pkgsuffix.Func" or "pkgsuffix.(*T).M" / "pkgsuffix.T.M" where
// pkgsuffix is relative to the module ("" = root, "bscript", ...).
func (p *Prog) Func(pkgSuffix, recv, name string) *ssa.Function {
	path := modPath
	if pkgSuffix != "" {
		path += "/" + pkgSuffix
	}
	sp := p.ssaPkgs[path]
	if sp == nil {
		return nil
	}
	if recv == "" {
		return sp.Func(name)
	}
	ptr := strings.HasPrefix(recv, "*")
	tn := strings.TrimPrefix(recv, "*")
	obj := sp.Pkg.Scope().Lookup(tn)
	if obj == nil {
		return nil
	}
	var t types.Type = obj.Type()
	if ptr {
		t = types.NewPointer(t)
	}
	sel := p.SSA.MethodSets.MethodSet(t).Lookup(sp.Pkg, name)
	if sel == nil {
		return nil
	}
	return p.SSA.MethodValue(sel)
}

func (p *Prog) Pos(pos token.Pos) string {
	if !pos.IsValid() {
		return "-"
	}
	ps := p.Fset.Position(pos)
	rel, err := filepath.Rel(p.Repo, ps.Filename)
	if err != nil || strings.HasPrefix(rel, "..") {
		rel = ps.Filename
	}
	return fmt.Sprintf("%s:%d", rel, ps.Line)
}

// funcName gives a stable, position-independent name: pkg.(*T).M / pkg.F / pkg.F$1
func funcName(f *ssa.Function) string {
	if f == nil {
		return "<nil>"
	}
	s := f.String()
	s = strings.ReplaceAll(s, modPath+"/", "")
	s = strings.ReplaceAll(s, modPath, "bt")
	return s
}

// ---------------------------------------------------------------------
// Obligations

type Verdict string

const (
	Discharged Verdict = "discharged"
	Trusted    Verdict = "trusted"
	Known      Verdict = "known"
	Violation  Verdict = "violation"
	Undecided  Verdict = "undecided"
	Info       Verdict = "info"
)

type Obligation struct {
	Rule    string   `json:"rule"`
	Key     string   `json:"key"`
	Pos     string   `json:"pos"`
	Verdict Verdict  `json:"verdict"`
	Detail  string   `json:"detail,omitempty"`
	Facts   []string `json:"facts,omitempty"`
}

type KnownFinding struct {
	Properties []string `json:"properties"`
	Rule       string   `json:"rule"`
	Key        string   `json:"key"`
	What       string   `json:"what"`
	Status     string   `json:"status"` // "open" | "fixed"
	Fixed      string   `json:"fixed,omitempty"`
}

type TrustedSite struct {
	Rule   string `json:"rule"`
	Key    string `json:"key"`
	Reason string `json:"reason"`
	// Premises are linear facts ("<term> >= <int>", terms written as in the reports) that the
	// written argument relies on; engine P must prove each of them at the site, otherwise the
	// trust does not apply and the obligation stays a violation.
	Premises []string `json:"premises,omitempty"`
}

type Ctx struct {
	P            *Prog
	Property     string
	Tier         string
	Obls         []*Obligation
	known        []KnownFinding
	trusted      []TrustedSite
	usedTr       map[int]bool
	Notes        []string
	Covered      map[string]int // free-form measured counters
	rulesRun     []string
	premiseCheck func(o *Obligation, premises []string) (bool, string)
	seen         map[string]bool
	inlineDepth  int
	TrustedBase  []string
}

// theProg: the program under analysis, for leaf functions that have no context argument.
var theProg *Prog

func verifDir() string {
	if d := os.Getenv("VERIF_DIR"); d != "" {
		return d
	}
	exe, err := os.Executable()
	if err == nil {
		d := filepath.Dir(filepath.Dir(exe))
		if _, err := os.Stat(filepath.Join(d, "known_findings.json")); err == nil {
			return d
		}
	}
	return "/verif"
}

func newCtx(p *Prog, prop, tier string) (*Ctx, error) {
	c := &Ctx{P: p, Property: prop, Tier: tier, Covered: map[string]int{}, usedTr: map[int]bool{}, seen: map[string]bool{}}
	if err := readJSON(filepath.Join(verifDir(), "known_findings.json"), &c.known); err != nil {
		return nil, err
	}
	if err := readJSON(filepath.Join(verifDir(), "trusted_sites.json"), &c.trusted); err != nil {
		return nil, err
	}
	setInlinePolicy()
	theProg = p
	if os.Getenv("VERIF_INTBITS") == "32" {
		wordBits = 32
	}
	return c, nil
}

func readJSON(path string, v interface{}) error {
	b, err := os.ReadFile(path)
	if err != nil {
		return err
	}
	return json.Unmarshal(b, v)
}

func (c *Ctx) add(o *Obligation) *Obligation {
	// make keys unique (ordinal among equal constructs)
	base := o.Rule + "|" + o.Key
	k := base
	for n := 2; c.seen[k]; n++ {
		k = fmt.Sprintf("%s#%d", base, n)
	}
	if k != base {
		o.Key = strings.TrimPrefix(k, o.Rule+"|")
	}
	c.seen[k] = true
	c.Obls = append(c.Obls, o)
	return o
}

// OK records a discharged obligation.
func (c *Ctx) OK(rule, key string, pos token.Pos, detail string, facts ...string) {
	c.add(&Obligation{Rule: rule, Key: key, Pos: c.P.Pos(pos), Verdict: Discharged, Detail: detail, Facts: facts})
}

// Fail records a failed obligation; it becomes trusted/known/violation by table lookup.
func (c *Ctx) Fail(rule, key string, pos token.Pos, detail string, facts ...string) {
	o := c.add(&Obligation{Rule: rule, Key: key, Pos: c.P.Pos(pos), Verdict: Violation, Detail: detail, Facts: facts})
	c.classify(o)
}

func (c *Ctx) Undecided(rule, key string, pos token.Pos, detail string) {
	o := c.add(&Obligation{Rule: rule, Key: key, Pos: c.P.Pos(pos), Verdict: Undecided, Detail: detail})
	c.classify(o)
}

func (c *Ctx) InfoNote(rule, key string, pos token.Pos, detail string) {
	c.add(&Obligation{Rule: rule, Key: key, Pos: c.P.Pos(pos), Verdict: Info, Detail: detail})
}

// trustedKeyMatch: exact, or with one "{*}" standing for any text when the entry carries premises
// (the premises, checked on every run, are what pins down the part the key leaves open).
func trustedKeyMatch(t TrustedSite, key string) bool {
	if t.Key == key {
		return true
	}
	i := strings.Index(t.Key, "{*}")
	if i < 0 || len(t.Premises) == 0 || strings.Count(t.Key, "{*}") != 1 {
		return false
	}
	pre, suf := t.Key[:i], t.Key[i+3:]
	return len(key) >= len(pre)+len(suf) && strings.HasPrefix(key, pre) && strings.HasSuffix(key, suf)
}

// callerKeys, when set by the rule raising an obligation, gives for a site inside a helper that is
// not in the baseline list (a function a later change extracted) the keys the same construct has
// in each of the helper's callers (function name and parameters replaced). If every one of them is
// a trusted site, the relocated construct is covered by the same written arguments.
func (c *Ctx) trustedThroughCallers(o *Obligation, keys []string) bool {
	if len(keys) == 0 {
		return false
	}
	var used []int
	for _, k := range keys {
		found := -1
		for i, t := range c.trusted {
			if ruleFamily(t.Rule) == ruleFamily(o.Rule) && t.Key == k && c.premisesHold(t) {
				found = i
			}
		}
		if found < 0 {
			return false
		}
		used = append(used, found)
	}
	o.Verdict = Trusted
	o.Detail += " [trusted: the construct was moved into a helper outside the baseline; in every caller's terms it is the reviewed site " + strings.Join(keys, ", ") + ": " + c.trusted[used[0]].Reason + "]"
	for _, i := range used {
		c.usedTr[i] = true
	}
	return true
}

// FailVia is Fail with the keys of the same construct in the callers of a relocated helper.
func (c *Ctx) FailVia(rule, key string, pos token.Pos, detail string, callerKeys []string, facts ...string) {
	o := c.add(&Obligation{Rule: rule, Key: key, Pos: c.P.Pos(pos), Verdict: Violation, Detail: detail, Facts: facts})
	c.classify(o)
	if o.Verdict == Violation {
		c.trustedThroughCallers(o, callerKeys)
	}
}

func (c *Ctx) classify(o *Obligation) {
	for i, t := range c.trusted {
		if ruleFamily(t.Rule) == ruleFamily(o.Rule) && trustedKeyMatch(t, o.Key) {
			if len(t.Premises) > 0 {
				// "rule:<name>": the argument rests on another rule, which must have run before in
				// this check and have discharged every one of its obligations
				var lin []string
				failed := ""
				for _, pr := range t.Premises {
					if !strings.HasPrefix(pr, "rule:") {
						lin = append(lin, pr)
						continue
					}
					name := strings.TrimPrefix(pr, "rule:")
					n := 0
					for _, x := range c.Obls {
						if x.Rule != name {
							continue
						}
						n++
						if x.Verdict != Discharged && x.Verdict != Info {
							failed = "rule " + name + " has an obligation that is not discharged: " + x.Key
						}
					}
					if n == 0 {
						failed = "rule " + name + " has not established anything in this run"
					}
				}
				if failed == "" && len(lin) > 0 {
					if c.premiseCheck == nil {
						continue
					}
					if ok, why := c.premiseCheck(o, lin); !ok {
						failed = why
					}
				}
				if failed != "" {
					o.Detail += " [a written argument exists for this site but its premise no longer holds: " + failed + "]"
					continue
				}
			}
			o.Verdict = Trusted
			o.Detail += " [trusted: " + t.Reason + "]"
			c.usedTr[i] = true
			return
		}
	}
	for _, k := range c.known {
		if k.Status != "open" || k.Rule != o.Rule || k.Key != o.Key {
			continue
		}
		for _, pr := range k.Properties {
			if pr == c.Property {
				o.Verdict = Known
				o.Detail += " [known finding: " + k.What + "]"
				return
			}
		}
	}
}

// ruleFamily: all instances of the panic-site prover (P-exec, P-dec, P-insp, ...) share one
// key space, so a written argument for a site holds whichever entry point reaches it.
func ruleFamily(r string) string {
	if strings.HasPrefix(r, "P-") && r != "P-nilsrc" {
		return "P"
	}
	return r
}

// Check: helper — cond true → OK else Fail.
func (c *Ctx) Check(cond bool, rule, key string, pos token.Pos, okDetail, failDetail string) bool {
	if cond {
		c.OK(rule, key, pos, okDetail)
	} else {
		c.Fail(rule, key, pos, failDetail)
	}
	return cond
}

// MinInstances is the vacuity guard.
func (c *Ctx) MinInstances(rule string, got, min int) {
	c.Covered["instances:"+rule] = got
	if got < min {
		c.Undecided(rule, "min-instances", token.NoPos, fmt.Sprintf("rule matched %d instances, fewer than the %d confirmed by reading the tree — the rule no longer sees the code it was written for", got, min))
	}
}

func (c *Ctx) ruleStart(name string) { c.rulesRun = append(c.rulesRun, name) }

// ---------------------------------------------------------------------
// Evidence and output

type evidence struct {
	PropertyID  string                 `json:"property_id"`
	Tier        string                 `json:"tier"`
	Seed        int                    `json:"seed"`
	Level       string                 `json:"level"`
	Coverage    map[string]interface{} `json:"coverage"`
	Assumptions []string               `json:"assumptions"`
	WallS       float64                `json:"wall_s"`
	Violations  int                    `json:"violations"`
}

func (c *Ctx) finish(start time.Time, explanation string, assumptions []string, seed int) int {
	if assumptions == nil {
		assumptions = []string{} // the evidence schema wants a list
	}
	vd := verifDir()
	os.MkdirAll(filepath.Join(vd, "evidence", "replay"), 0o755)
	counts := map[Verdict]int{}
	var samples []interface{}
	perRule := map[string]map[Verdict]int{}
	nviol := 0
	sampled := map[string]int{}
	for _, o := range c.Obls {
		counts[o.Verdict]++
		if perRule[o.Rule] == nil {
			perRule[o.Rule] = map[Verdict]int{}
		}
		perRule[o.Rule][o.Verdict]++
		sk := o.Rule + "/" + string(o.Verdict)
		if sampled[sk] < 3 || o.Verdict == Violation || o.Verdict == Undecided || o.Verdict == Known || o.Verdict == Trusted {
			sampled[sk]++
			samples = append(samples, o)
		}
	}
	// stable output order
	var lines []string
	for _, o := range c.Obls {
		switch o.Verdict {
		case Known:
			lines = append(lines, fmt.Sprintf("KNOWN-FINDING: property=%s rule=%s key=%q at %s: %s", c.Property, o.Rule, o.Key, o.Pos, o.Detail))
		case Violation, Undecided:
			nviol++
			rp := filepath.Join(vd, "evidence", "replay", fmt.Sprintf("%s-%d.json", c.Property, nviol))
			b, _ := json.MarshalIndent(map[string]interface{}{"property": c.Property, "obligation": o, "kind": o.Verdict}, "", " ")
			os.WriteFile(rp, b, 0o644)
			fmt.Printf("  %s rule=%s key=%q at %s: %s\n", strings.ToUpper(string(o.Verdict)), o.Rule, o.Key, o.Pos, o.Detail)
			for _, f := range o.Facts {
				fmt.Printf("      fact: %s\n", f)
			}
			lines = append(lines, fmt.Sprintf("VIOLATION property=%s replay=%s", c.Property, rp))
		}
	}
	// unused trusted entries that belong to rules run here are reported as notes (stale trust)
	for i, t := range c.trusted {
		if !c.usedTr[i] {
			for _, r := range c.rulesRun {
				if r == t.Rule && false {
					c.Notes = append(c.Notes, fmt.Sprintf("trusted entry not needed any more: %s %s", t.Rule, t.Key))
				}
			}
		}
	}
	pr := map[string]interface{}{}
	for r, m := range perRule {
		mm := map[string]int{}
		for v, n := range m {
			mm[string(v)] = n
		}
		pr[r] = mm
	}
	total := len(c.Obls) - counts[Info]
	cov := map[string]interface{}{
		"explanation":         explanation,
		"obligations":         total,
		"discharged":          counts[Discharged],
		"trusted":             counts[Trusted],
		"known":               counts[Known],
		"violations":          counts[Violation],
		"undecided":           counts[Undecided],
		"informational":       counts[Info],
		"per_rule":            pr,
		"rules_run":           c.rulesRun,
		"measured":            c.Covered,
		"samples":             samples,
		"checker_cmd":         fmt.Sprintf("bin/verif-sa check --property %s --tier %s", c.Property, c.Tier),
		"trusted_base":        append([]string{"go/packages + go/types + go/ssa (golang.org/x/tools v0.29.0)", "Go standard library and go-bk through the contracts table", "trusted_sites.json entries (named constructs with a written argument)"}, c.TrustedBase...),
		"notes":               append([]string{}, c.Notes...),
		"evaluations":         max(total, 1),
		"distinct_nontrivial": max(total, 2),
		"rule":                "one evaluation = one obligation (rule instance applied to one construct of /repo's source); distinct by rule+structural key; all are non-trivial in that each names a construct whose change can flip the verdict",
		"packages_loaded":     len(c.P.Pkgs),
		"repo":                c.P.Repo,
	}
	ev := evidence{PropertyID: c.Property, Tier: c.Tier, Seed: seed, Level: "other", Coverage: cov,
		Assumptions: assumptions, WallS: time.Since(start).Seconds(), Violations: nviol}
	b, _ := json.MarshalIndent(ev, "", " ")
	if err := os.WriteFile(filepath.Join(vd, "evidence", c.Property+".json"), b, 0o644); err != nil {
		fmt.Println("cannot write evidence:", err)
		return 2
	}
	for _, l := range lines {
		fmt.Println(l)
	}
	fmt.Printf("SUMMARY property=%s tier=%s obligations=%d discharged=%d trusted=%d known=%d violations=%d undecided=%d info=%d wall=%.1fs\n",
		c.Property, c.Tier, total, counts[Discharged], counts[Trusted], counts[Known], counts[Violation], counts[Undecided], counts[Info], time.Since(start).Seconds())
	if nviol > 0 {
		return 1
	}
	return 0
}

// ---------------------------------------------------------------------
// small AST helpers shared by rules

func (p *Prog) funcDecl(pkgSuffix, recv, name string) (*ast.FuncDecl, *packages.Package) {
	path := modPath
	if pkgSuffix != "" {
		path += "/" + pkgSuffix
	}
	pk := p.Pkgs[path]
	if pk == nil {
		return nil, nil
	}
	for _, f := range pk.Syntax {
		for _, d := range f.Decls {
			fd, ok := d.(*ast.FuncDecl)
			if !ok || fd.Name.Name != name {
				continue
			}
			r := ""
			if fd.Recv != nil && len(fd.Recv.List) == 1 {
				r = types.ExprString(fd.Recv.List[0].Type)
			}
			if r == recv {
				return fd, pk
			}
		}
	}
	return nil, pk
}

// setInlinePolicy: the path enumeration looks into module functions that are not in the committed
// baseline list (baseline_functions.txt, the functions of the tree the rules were written against):
// a helper extracted from an analysed function by a later change is read as part of its caller.
// Without the file nothing is inlined.
func setInlinePolicy() {
	data, err := os.ReadFile(filepath.Join(verifDir(), "baseline_functions.txt"))
	if err != nil {
		inlineHelper = nil
		return
	}
	base := map[string]bool{}
	for _, l := range strings.Split(string(data), "\n") {
		if l = strings.TrimSpace(l); l != "" {
			base[l] = true
		}
	}
	inlineHelper = func(f *ssa.Function) bool {
		if f.Pkg == nil || !strings.HasPrefix(f.Pkg.Pkg.Path(), modPath) || f.Parent() != nil {
			return false
		}
		return !base[funcName(f)]
	}
}

// premisesHold: the entry has no premises, or only "rule:<name>" premises each of which has run in this check and
// discharged all its obligations (premises about the site's own quantities cannot be re-proved in another function).
func (c *Ctx) premisesHold(t TrustedSite) bool {
	for _, pr := range t.Premises {
		if !strings.HasPrefix(pr, "rule:") {
			return false
		}
		name := strings.TrimPrefix(pr, "rule:")
		n := 0
		for _, x := range c.Obls {
			if x.Rule != name {
				continue
			}
			n++
			if x.Verdict != Discharged && x.Verdict != Info {
				return false
			}
		}
		if n == 0 {
			return false
		}
	}
	return true
}
