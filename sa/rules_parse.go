package main

// ACC-parse (C13): the interpreter's script parser accounts for every byte. For one iteration of
// Parse's loop, the bytes an appended opcode stands for (opcode byte + length prefix + data) equal
// the advance of the position; on the top-level OP_RETURN exit the opcodes appended for the tail
// stand for exactly the bytes that remain. Decided by folding the extracted conditions and slice
// lengths on representative positions and lengths.

import (
	"fmt"
	"go/constant"
	"go/token"
	"math/big"
	"strings"

	"golang.org/x/tools/go/ssa"
)

// lenEval: evaluates terms with len(slice) and slice bounds over an assignment of base terms.
func lenEval(t *T, asg map[string]*big.Int) (*big.Int, bool) {
	if t.K == "len" && len(t.Args) == 1 && t.Args[0].K == "slice" {
		sl := t.Args[0]
		lo, ok1 := lenEval(sl.Args[1], asg)
		hi, ok2 := lenEval(sl.Args[2], asg)
		if ok1 && ok2 {
			return new(big.Int).Sub(hi, lo), true
		}
		return nil, false
	}
	if v, ok := asg[atomName(t)]; ok {
		return v, true
	}
	switch t.K {
	case "bin":
		x, ok1 := lenEval(t.Args[0], asg)
		y, ok2 := lenEval(t.Args[1], asg)
		if !ok1 || !ok2 {
			return nil, false
		}
		tt := &T{K: "bin", Op: t.Op, Typ: t.Typ, Args: []*T{{K: "const", C: constantOf(x)}, {K: "const", C: constantOf(y)}}}
		return evalTerm(tt, nil)
	case "un":
		x, ok := lenEval(t.Args[0], asg)
		if !ok {
			return nil, false
		}
		if t.Op == token.SUB {
			return new(big.Int).Neg(x), true
		}
		if t.Op == token.NOT {
			if x.Sign() == 0 {
				return big.NewInt(1), true
			}
			return big.NewInt(0), true
		}
		return nil, false
	case "conv":
		return lenEval(t.Args[0], asg)
	}
	return evalTerm(t, asg)
}

func ruleACCParse(c *Ctx) {
	fn := c.P.Func("bscript/interpreter", "*DefaultOpcodeParser", "Parse")
	if fn == nil {
		c.Undecided("ACC-parse", "Parse", token.NoPos, "not found")
		return
	}
	var header *ssa.BasicBlock
	for _, b := range fn.Blocks {
		if isLoopHeader(b) {
			header = b
			break
		}
	}
	if header == nil {
		c.Undecided("ACC-parse", "Parse", fn.Pos(), "loop not found")
		return
	}
	paths, err := enumPaths(header, nil, nil, 5000)
	if err != nil {
		c.Undecided("ACC-parse", "Parse", fn.Pos(), err.Error())
		return
	}
	// the position phi: the header phi compared with len(script)
	var pos *ssa.Phi
	if iff, ok := header.Instrs[len(header.Instrs)-1].(*ssa.If); ok {
		if bo, ok := iff.Cond.(*ssa.BinOp); ok {
			pos, _ = bo.X.(*ssa.Phi)
		}
	}
	if pos == nil {
		c.Undecided("ACC-parse", "Parse", fn.Pos(), "position variable not found")
		return
	}
	posName := atomName(newTermEnv().Term(pos))
	type tail struct {
		d *DPath
	}
	nTail, nIter := 0, 0
	badTail, badIter := "", ""
	for _, d := range paths {
		cs := callOrdinal.ReplaceAllString(d.CondString(), "")
		isTop := strings.Contains(cs, ".op.val == 106)") && !strings.Contains(cs, "!(alloc#0.op.val == 106)")
		instrs := pathInstrs(d)
		// data slices stored into ParsedOpcode literals on this path, per alloc
		type lit struct {
			data   *T
			length *T
		}
		lits := map[ssa.Value]*lit{}
		var order []ssa.Value
		for _, ins := range instrs {
			st, ok := ins.(*ssa.Store)
			if !ok {
				continue
			}
			fa, ok := st.Addr.(*ssa.FieldAddr)
			if !ok {
				continue
			}
			root := fa.X
			f := fieldName(fa.X.Type(), fa.Field)
			// X.op = blob: an opcode value built in a local of its own and copied in whole
			if ld, isLd := st.Val.(*ssa.UnOp); isLd && ld.Op == token.MUL && f == "op" {
				if src, isAl := ld.X.(*ssa.Alloc); isAl && lits[src] != nil {
					if dst, isAl := root.(*ssa.Alloc); isAl {
						if lits[dst] == nil {
							lits[dst] = &lit{}
							order = append(order, dst)
						}
						lits[dst].length = lits[src].length
						for i, o := range order {
							if o == ssa.Value(src) {
								order = append(order[:i:i], order[i+1:]...)
								break
							}
						}
						continue
					}
				}
			}
			if pfa, isP := fa.X.(*ssa.FieldAddr); isP && fieldName(pfa.X.Type(), pfa.Field) == "op" {
				root = pfa.X
			}
			al, isAl := root.(*ssa.Alloc)
			if !isAl {
				continue
			}
			if lits[al] == nil {
				lits[al] = &lit{}
				order = append(order, al)
			}
			switch f {
			case "Data":
				lits[al].data = d.Env.Term(st.Val)
			case "length":
				lits[al].length = d.Env.Term(st.Val)
			}
		}
		if d.EndKind == "return" && returnDesc(d) == "return nil" && isTop && strings.Contains(cs, "== 0)") {
			// OP_RETURN exit: the tail opcodes (literals with an explicit length) must stand for len - (pos+1) bytes
			nTail++
			for R := int64(1); R <= 7; R++ {
				asg := map[string]*big.Int{posName: big.NewInt(0), "len(*p1)": big.NewInt(R)}
				holds := true
				for _, pc := range d.Conds {
					v, ok := lenEval(pc.Cond, asg)
					if !ok {
						continue // conditions on the opcode itself
					}
					if (v.Sign() != 0) != pc.Truth {
						holds = false
					}
				}
				if !holds {
					continue
				}
				represented := int64(0)
				for _, al := range order {
					l := lits[al]
					if l.length == nil {
						continue // the OP_RETURN opcode itself (its op comes from the table)
					}
					represented++
					if l.data != nil {
						n, ok := lenEval(&T{K: "len", Args: []*T{l.data}}, asg)
						if !ok {
							badTail = "data length of the tail opcode cannot be evaluated"
							continue
						}
						represented += n.Int64()
					}
				}
				if represented != R-1 && badTail == "" {
					badTail = fmt.Sprintf("with %d byte(s) after a top-level OP_RETURN the opcodes appended for the tail stand for %d byte(s): Parse followed by Unparse does not give the script back", R-1, represented)
				}
			}
			continue
		}
		if d.EndKind == "loop" {
			// a table length of 0 (neither 1, > 1 nor < 0) does not occur: rule T-op3 checks the table
			if strings.Contains(cs, "!(alloc#0.op.length == 1)") && strings.Contains(cs, "!(alloc#0.op.length > 1)") && strings.Contains(cs, "!(alloc#0.op.length < 0)") {
				continue
			}
			// ordinary iteration: advance == 1 + prefix + len(data)
			nIter++
			var next ssa.Value
			for i, p := range header.Preds {
				if len(d.Blocks) > 0 && p == d.Blocks[len(d.Blocks)-1] {
					next = pos.Edges[i]
				}
			}
			if next == nil {
				continue
			}
			adv := linOf(d.Env.Term(next), nil).add(linOf(d.Env.Term(pos), nil), -1)
			// the main opcode literal: first alloc without explicit length
			var data *T
			for _, al := range order {
				if lits[al].length == nil && lits[al].data != nil {
					data = lits[al].data
				}
			}
			want := newTLin()
			want.Const.SetInt64(1)
			data = flattenSlice(data)
			if data != nil && data.K == "slice" {
				want = want.add(linOf(data.Args[2], nil), 1).add(linOf(data.Args[1], nil), -1)
				// the length prefix lies between the opcode byte and the data: lo - (pos+1)
				want = want.add(linOf(data.Args[1], nil), 1).add(linOf(d.Env.Term(pos), nil), -1)
				want.Const.Sub(want.Const, big.NewInt(1))
			}
			if !adv.equal(want) && badIter == "" {
				badIter = fmt.Sprintf("an iteration advances the position by %s but the opcode appended stands for %s bytes", adv, want)
			}
		}
	}
	c.Covered["ACC-parse:tail_paths"] = nTail
	c.Covered["ACC-parse:iteration_paths"] = nIter
	c.Check(badTail == "" && nTail >= 3, "ACC-parse", "Parse/op-return-tail", fn.Pos(), fmt.Sprintf("the opcodes appended after a top-level OP_RETURN stand for exactly the remaining bytes (%d exit paths, remaining length 0..6)", nTail), "Parse loses or invents bytes after a top-level OP_RETURN: "+badTail)
	c.Check(badIter == "" && nIter >= 3, "ACC-parse", "Parse/iteration", fn.Pos(), fmt.Sprintf("every iteration advances by opcode byte + length prefix + data length (%d iteration paths)", nIter), "Parse's position and the parsed opcode disagree: "+badIter)
}

func constantOf(x *big.Int) constant.Value { return constant.Make(x) }

// flattenSlice rewrites x[a:b][c:d] as x[a+c:a+d], so that a datum cut out of a re-sliced
// remainder is located in the script itself.
func flattenSlice(t *T) *T {
	for t != nil && t.K == "slice" && len(t.Args) == 3 && t.Args[0].K == "slice" && len(t.Args[0].Args) == 3 {
		in := t.Args[0]
		add := func(a, b *T) *T {
			if a.K == "const" && a.C != nil && constant.Sign(a.C) == 0 {
				return b
			}
			if b.K == "const" && b.C != nil && constant.Sign(b.C) == 0 {
				return a
			}
			return &T{K: "bin", Op: token.ADD, Args: []*T{a, b}, Typ: a.Typ}
		}
		t = &T{K: "slice", Args: []*T{in.Args[0], add(in.Args[1], t.Args[1]), add(in.Args[1], t.Args[2])}, Typ: t.Typ}
	}
	return t
}
