package main

// ACC-parse (C13): the interpreter's script parser accounts for every byte. For one iteration of
// Parse's loop, the bytes an appended opcode stands for (opcode byte + length prefix + data) equal
// the advance of the position; on the top-level OP_RETURN exit the opcodes appended for the tail
// stand for exactly the bytes that remain. Decided by folding the extracted conditions and slice
// lengths on representative positions and lengths.

import (
	"fmt"
	"go/constant"
	"go/token"
	"go/types"
	"math/big"
	"strings"

	"golang.org/x/tools/go/ssa"
)

// lenEval: evaluates terms with len(slice) and slice bounds over an assignment of base terms.
func lenEval(t *T, asg map[string]*big.Int) (*big.Int, bool) {
	if t.K == "len" && len(t.Args) == 1 && t.Args[0].K == "slice" {
		sl := t.Args[0]
		lo, ok1 := lenEval(sl.Args[1], asg)
		hi, ok2 := lenEval(sl.Args[2], asg)
		if ok1 && ok2 {
			return new(big.Int).Sub(hi, lo), true
		}
		return nil, false
	}
	if v, ok := asg[atomName(t)]; ok {
		return v, true
	}
	switch t.K {
	case "bin":
		x, ok1 := lenEval(t.Args[0], asg)
		y, ok2 := lenEval(t.Args[1], asg)
		if !ok1 || !ok2 {
			return nil, false
		}
		tt := &T{K: "bin", Op: t.Op, Typ: t.Typ, Args: []*T{{K: "const", C: constantOf(x)}, {K: "const", C: constantOf(y)}}}
		return evalTerm(tt, nil)
	case "un":
		x, ok := lenEval(t.Args[0], asg)
		if !ok {
			return nil, false
		}
		if t.Op == token.SUB {
			return new(big.Int).Neg(x), true
		}
		if t.Op == token.NOT {
			if x.Sign() == 0 {
				return big.NewInt(1), true
			}
			return big.NewInt(0), true
		}
		return nil, false
	case "conv":
		return lenEval(t.Args[0], asg)
	}
	return evalTerm(t, asg)
}

func ruleACCParse(c *Ctx) {
	fn := c.P.Func("bscript/interpreter", "*DefaultOpcodeParser", "Parse")
	if fn == nil {
		c.Undecided("ACC-parse", "Parse", token.NoPos, "not found")
		return
	}
	var header *ssa.BasicBlock
	for _, b := range fn.Blocks {
		if isLoopHeader(b) {
			header = b
			break
		}
	}
	if header == nil {
		c.Undecided("ACC-parse", "Parse", fn.Pos(), "loop not found")
		return
	}
	paths, err := enumPaths(header, nil, nil, 5000)
	if err != nil {
		c.Undecided("ACC-parse", "Parse", fn.Pos(), err.Error())
		return
	}
	// the position phi: the header phi compared with len(script)
	var pos *ssa.Phi
	if iff, ok := header.Instrs[len(header.Instrs)-1].(*ssa.If); ok {
		if bo, ok := iff.Cond.(*ssa.BinOp); ok {
			pos, _ = bo.X.(*ssa.Phi)
		}
	}
	if pos == nil {
		c.Undecided("ACC-parse", "Parse", fn.Pos(), "position variable not found")
		return
	}
	posName := atomName(newTermEnv().Term(pos))
	parseDepthTable(c, fn, header, pos, paths)
	type tail struct {
		d *DPath
	}
	nTail, nIter, nLenDecode := 0, 0, 0
	badTail, badIter, badLen := "", "", ""
	for _, d := range paths {
		cs := callOrdinal.ReplaceAllString(d.CondString(), "")
		isTop := strings.Contains(cs, ".op.val == 106)") && !strings.Contains(cs, "!(alloc#0.op.val == 106)")
		instrs := pathInstrs(d)
		// data slices stored into ParsedOpcode literals on this path, per alloc
		type lit struct {
			data   *T
			length *T
		}
		lits := map[ssa.Value]*lit{}
		var order []ssa.Value
		for _, ins := range instrs {
			st, ok := ins.(*ssa.Store)
			if !ok {
				continue
			}
			fa, ok := st.Addr.(*ssa.FieldAddr)
			if !ok {
				continue
			}
			root := fa.X
			f := fieldName(fa.X.Type(), fa.Field)
			// X.op = blob: an opcode value built in a local of its own and copied in whole
			if ld, isLd := st.Val.(*ssa.UnOp); isLd && ld.Op == token.MUL && f == "op" {
				if src, isAl := ld.X.(*ssa.Alloc); isAl && lits[src] != nil {
					if dst, isAl := root.(*ssa.Alloc); isAl {
						if lits[dst] == nil {
							lits[dst] = &lit{}
							order = append(order, dst)
						}
						lits[dst].length = lits[src].length
						for i, o := range order {
							if o == ssa.Value(src) {
								order = append(order[:i:i], order[i+1:]...)
								break
							}
						}
						continue
					}
				}
			}
			if pfa, isP := fa.X.(*ssa.FieldAddr); isP && fieldName(pfa.X.Type(), pfa.Field) == "op" {
				root = pfa.X
			}
			al, isAl := root.(*ssa.Alloc)
			if !isAl {
				continue
			}
			if lits[al] == nil {
				lits[al] = &lit{}
				order = append(order, al)
			}
			switch f {
			case "Data":
				lits[al].data = d.Env.Term(st.Val)
			case "length":
				lits[al].length = d.Env.Term(st.Val)
			}
		}
		if d.EndKind == "return" && returnDesc(d) == "return nil" && isTop && strings.Contains(cs, "== 0)") {
			// OP_RETURN exit: the tail opcodes (literals with an explicit length) must stand for len - (pos+1) bytes
			nTail++
			for R := int64(1); R <= 7; R++ {
				asg := map[string]*big.Int{posName: big.NewInt(0), "len(*p1)": big.NewInt(R)}
				holds := true
				for _, pc := range d.Conds {
					v, ok := lenEval(pc.Cond, asg)
					if !ok {
						continue // conditions on the opcode itself
					}
					if (v.Sign() != 0) != pc.Truth {
						holds = false
					}
				}
				if !holds {
					continue
				}
				represented := int64(0)
				for _, al := range order {
					l := lits[al]
					if l.length == nil {
						continue // the OP_RETURN opcode itself (its op comes from the table)
					}
					represented++
					dataLen := int64(0)
					if l.data != nil {
						n, ok := lenEval(&T{K: "len", Args: []*T{l.data}}, asg)
						if !ok {
							badTail = "data length of the tail opcode cannot be evaluated"
							continue
						}
						represented += n.Int64()
						dataLen = n.Int64()
					}
					// the length field the literal is given is what the writer (ParsedOpcode.bytes) holds the data
					// against: 1 + the number of data bytes
					if lv, ok := lenEval(l.length, asg); !ok {
						if badTail == "" {
							badTail = "the length field of the tail opcode cannot be evaluated: " + l.length.String()
						}
					} else if lv.Int64() != 1+dataLen && badTail == "" {
						badTail = fmt.Sprintf("with %d byte(s) after a top-level OP_RETURN a tail opcode is given the length field %d but carries %d data byte(s): Unparse refuses it as inconsistent", R-1, lv.Int64(), dataLen)
					}
				}
				if represented != R-1 && badTail == "" {
					badTail = fmt.Sprintf("with %d byte(s) after a top-level OP_RETURN the opcodes appended for the tail stand for %d byte(s): Parse followed by Unparse does not give the script back", R-1, represented)
				}
			}
			continue
		}
		if d.EndKind == "loop" {
			// a table length of 0 (neither 1, > 1 nor < 0) does not occur: rule T-op3 checks the table
			if strings.Contains(cs, "!(alloc#0.op.length == 1)") && strings.Contains(cs, "!(alloc#0.op.length > 1)") && strings.Contains(cs, "!(alloc#0.op.length < 0)") {
				continue
			}
			// ordinary iteration: advance == 1 + prefix + len(data)
			nIter++
			var next ssa.Value
			for i, p := range header.Preds {
				if len(d.Blocks) > 0 && p == d.Blocks[len(d.Blocks)-1] {
					next = pos.Edges[i]
				}
			}
			if next == nil {
				continue
			}
			adv := linOf(d.Env.Term(next), nil).add(linOf(d.Env.Term(pos), nil), -1)
			// the main opcode literal: first alloc without explicit length
			var data *T
			for _, al := range order {
				if lits[al].length == nil && lits[al].data != nil {
					data = lits[al].data
				}
			}
			want := newTLin()
			want.Const.SetInt64(1)
			data = flattenSlice(data)
			if data != nil && data.K == "slice" {
				want = want.add(linOf(data.Args[2], nil), 1).add(linOf(data.Args[1], nil), -1)
				// the length prefix lies between the opcode byte and the data: lo - (pos+1)
				want = want.add(linOf(data.Args[1], nil), 1).add(linOf(d.Env.Term(pos), nil), -1)
				want.Const.Sub(want.Const, big.NewInt(1))
			}
			if !adv.equal(want) && badIter == "" {
				badIter = fmt.Sprintf("an iteration advances the position by %s but the opcode appended stands for %s bytes", adv, want)
			}
			// OP_PUSHDATA1/2/4: the number of data bytes is the little-endian value of the 1/2/4 bytes after the
			// opcode - folded with every script byte given a value of its own
			for _, cls := range []int64{-1, -2, -4} {
				pos1 := fmt.Sprintf("(alloc#0.op.length == %d)", cls)
				if !strings.Contains(cs, pos1) || strings.Contains(cs, "!"+pos1) || data == nil || data.K != "slice" {
					continue
				}
				nLenDecode++
				asg := map[string]*big.Int{posName: big.NewInt(0)}
				lenT := &T{K: "bin", Op: token.SUB, Args: []*T{data.Args[2], data.Args[1]}, Typ: types.Typ[types.Int]}
				bt := map[string]*T{}
				baseTerms(lenT, bt)
				for k := range bt {
					if strings.HasSuffix(k, ".op.length") {
						asg[k] = big.NewInt(cls)
					}
				}
				// every script byte has a value of its own: script[k] = 0x11 * (k+1); reads of the script - an
				// element, an element of a part of it, binary.LittleEndian/BigEndian.UintN of a part of it - fold
				okBytes := true
				got, ok := evalTerm(foldScriptReads(lenT, asg, &okBytes), asg)
				wantLen := int64(0)
				for j := int64(0); j < -cls; j++ {
					wantLen |= (0x11 * (1 + j + 1)) << (8 * uint(j)) // script[pos+1+j]
				}
				if (!okBytes || !ok || got.Int64() != wantLen) && badLen == "" {
					badLen = fmt.Sprintf("for length class %d the data length is read as %s, which with script bytes 11 22 33 44 55 gives %v; the little-endian value of the %d byte(s) after the opcode is %#x", cls, lenT, got, -cls, wantLen)
				}
			}
		}
	}
	c.Covered["ACC-parse:tail_paths"] = nTail
	c.Covered["ACC-parse:iteration_paths"] = nIter
	c.Check(badTail == "" && nTail >= 3, "ACC-parse", "Parse/op-return-tail", fn.Pos(), fmt.Sprintf("the opcodes appended after a top-level OP_RETURN stand for exactly the remaining bytes (%d exit paths, remaining length 0..6)", nTail), "Parse loses or invents bytes after a top-level OP_RETURN: "+badTail)
	if nLenDecode == 0 {
		c.InfoNote("ACC-parse", "Parse/pushdata-length", fn.Pos(), "the length classes are not selected by tests of the opcode's length field: the decoding of PUSHDATA lengths is not looked at")
	} else {
		c.Check(badLen == "", "ACC-parse", "Parse/pushdata-length", fn.Pos(), "the data length of OP_PUSHDATA1/2/4 is the little-endian value of the 1/2/4 bytes after the opcode", "Parse decodes the length of a PUSHDATA push wrongly: "+badLen)
	}
	c.Check(badIter == "" && nIter >= 3, "ACC-parse", "Parse/iteration", fn.Pos(), fmt.Sprintf("every iteration advances by opcode byte + length prefix + data length (%d iteration paths)", nIter), "Parse's position and the parsed opcode disagree: "+badIter)
}

func constantOf(x *big.Int) constant.Value { return constant.Make(x) }

// flattenSlice rewrites x[a:b][c:d] as x[a+c:a+d], so that a datum cut out of a re-sliced
// remainder is located in the script itself.
func flattenSlice(t *T) *T {
	for t != nil && t.K == "slice" && len(t.Args) == 3 && t.Args[0].K == "slice" && len(t.Args[0].Args) == 3 {
		in := t.Args[0]
		add := func(a, b *T) *T {
			if a.K == "const" && a.C != nil && constant.Sign(a.C) == 0 {
				return b
			}
			if b.K == "const" && b.C != nil && constant.Sign(b.C) == 0 {
				return a
			}
			return &T{K: "bin", Op: token.ADD, Args: []*T{a, b}, Typ: a.Typ}
		}
		t = &T{K: "slice", Args: []*T{in.Args[0], add(in.Args[1], t.Args[1]), add(in.Args[1], t.Args[2])}, Typ: t.Typ}
	}
	return t
}

// parseDepthTable: the parser's count of open conditional blocks, which decides whether an OP_RETURN ends the
// script ("top level"): the other counter carried round the loop goes up by one on OP_IF / OP_NOTIF / OP_VERIF /
// OP_VERNOTIF, down by one on OP_ENDIF and stays for every other opcode - on all 256 opcode bytes, for every
// iteration path that goes round.
func parseDepthTable(c *Ctx, fn *ssa.Function, header *ssa.BasicBlock, pos *ssa.Phi, paths []*DPath) {
	var depth *ssa.Phi
	for _, ins := range header.Instrs {
		ph, ok := ins.(*ssa.Phi)
		if !ok {
			break
		}
		if ph != pos && isIntType(ph.Type()) {
			if depth != nil {
				c.Undecided("ACC-parse", "Parse/conditional-depth", fn.Pos(), "more than one counter besides the position is carried round the loop")
				return
			}
			depth = ph
		}
	}
	if depth == nil {
		c.Undecided("ACC-parse", "Parse/conditional-depth", fn.Pos(), "no counter of open conditional blocks is carried round the loop")
		return
	}
	opv := ""
	for _, d := range paths {
		bt := map[string]*T{}
		for _, cd := range d.Conds {
			baseTerms(cd.Cond, bt)
		}
		for k := range bt {
			if strings.HasSuffix(k, ".op.val") {
				if opv != "" && opv != k {
					c.Undecided("ACC-parse", "Parse/conditional-depth", fn.Pos(), "two different opcode terms: "+opv+", "+k)
					return
				}
				opv = k
			}
		}
	}
	if opv == "" {
		c.Undecided("ACC-parse", "Parse/conditional-depth", fn.Pos(), "no decision on the opcode's value")
		return
	}
	var bad []string
	cells := 0
	for v := int64(0); v < 256; v++ {
		want := int64(0)
		switch v {
		case 0x63, 0x64, 0x65, 0x66:
			want = 1
		case 0x68:
			want = -1
		}
		for _, d0 := range []int64{0, 1, 2} {
			got := map[string]bool{}
			for _, d := range paths {
				if d.EndKind != "loop" || d.Target != header || len(d.Blocks) == 0 {
					continue
				}
				dt := d.Env.Term(depth).String()
				asg := map[string]*big.Int{opv: big.NewInt(v), dt: big.NewInt(d0)}
				ok := true
				for _, cd := range d.Conds {
					val, evaluated := evalTerm(cd.Cond, asg)
					if evaluated && (val.Sign() != 0) != cd.Truth {
						ok = false
						break
					}
				}
				if !ok {
					continue
				}
				latch := d.Blocks[len(d.Blocks)-1]
				idx := -1
				for i, p := range header.Preds {
					if p == latch {
						idx = i
					}
				}
				if idx < 0 {
					continue
				}
				nv, evaluated := evalTerm(d.Env.Term(depth.Edges[idx]), asg)
				if !evaluated {
					got["a value that does not fold: "+d.Env.Term(depth.Edges[idx]).String()] = true
					continue
				}
				got[fmt.Sprint(nv.Int64()-d0)] = true
			}
			cells++
			// (an opcode that ends the scan on every path - a top-level OP_RETURN - leaves no round to look at)
			if len(got) == 0 && v == 0x6a && d0 == 0 {
				continue
			}
			if len(got) != 1 || !got[fmt.Sprint(want)] {
				if len(bad) < 5 {
					bad = append(bad, fmt.Sprintf("opcode %#x with %d block(s) open: the count changes by %v, expected %d", v, d0, sortedKeys(got), want))
				}
			}
		}
	}
	c.Covered["ACC-parse:depth-cells"] = cells
	c.Check(len(bad) == 0, "ACC-parse", "Parse/conditional-depth", fn.Pos(), "the count of open conditional blocks goes +1 on IF/NOTIF/VERIF/VERNOTIF, -1 on ENDIF, 0 otherwise (256 opcodes x 3 depths)",
		"the parser's count of open conditional blocks, which decides where a top-level OP_RETURN ends the script, is wrong: "+strings.Join(bad, "; "))
}

// foldScriptReads rewrites, in a term over the script parameter (*p1), every read of script bytes whose
// position folds under asg into its value when script[k] = 0x11*(k+1): an element x[i], an element of a part
// x[a:b][i], and binary.LittleEndian / BigEndian .UintN(x[a:b]).
func foldScriptReads(t *T, asg map[string]*big.Int, ok *bool) *T {
	if t == nil {
		return t
	}
	byteAt := func(k int64) int64 { return 0x11 * (k + 1) }
	// position of element i of a (possibly re-sliced) view of the script
	var offsetOf func(base *T) (int64, bool)
	offsetOf = func(base *T) (int64, bool) {
		switch {
		case base.String() == "*p1":
			return 0, true
		case base.K == "slice" && len(base.Args) == 3:
			inner, ok1 := offsetOf(base.Args[0])
			lo, ok2 := evalTerm(foldScriptReads(base.Args[1], asg, ok), asg)
			if ok1 && ok2 {
				return inner + lo.Int64(), true
			}
		}
		return 0, false
	}
	switch {
	case t.K == "index" && len(t.Args) == 2:
		if off, isScript := offsetOf(t.Args[0]); isScript {
			if i, evaluated := evalTerm(foldScriptReads(t.Args[1], asg, ok), asg); evaluated && off+i.Int64() >= 0 && off+i.Int64() < 14 {
				return &T{K: "const", C: constant.MakeInt64(byteAt(off + i.Int64())), Typ: t.Typ}
			}
			*ok = false
		}
	case t.K == "call" && strings.Contains(t.Name, "Endian).Uint") && len(t.Args) == 2:
		width := 0
		fmt.Sscanf(t.Name[strings.Index(t.Name, ").Uint")+6:], "%d", &width)
		if off, isScript := offsetOf(t.Args[1]); isScript && (width == 16 || width == 32 || width == 64) {
			v := new(big.Int)
			n := int64(width / 8)
			for j := int64(0); j < n; j++ {
				b := big.NewInt(byteAt(off + j))
				sh := uint(8 * j)
				if strings.Contains(t.Name, "bigEndian") {
					sh = uint(8 * (n - 1 - j))
				}
				v.Or(v, b.Lsh(b, sh))
			}
			return &T{K: "const", C: constant.Make(v), Typ: t.Typ}
		}
		*ok = false
	}
	if len(t.Args) == 0 {
		return t
	}
	nt := *t
	nt.s = ""
	nt.Args = make([]*T, len(t.Args))
	for i, a := range t.Args {
		nt.Args[i] = foldScriptReads(a, asg, ok)
	}
	return &nt
}
