package main

// ACC: byte accounting of the stream decoders. A ghost counter G is advanced
// by the count result of every consuming call (io.ReadFull and the module's
// own readers); a forward dataflow over the SSA CFG keeps G as a linear form
// over SSA values. At every return the reported count must be provably equal
// to G. Merges re-express G through the block's phis; loop headers assume the
// header phi and check the back edges.

import (
	"fmt"
	"go/token"
	"go/types"
	"os"
	"sort"
	"strings"

	"golang.org/x/tools/go/ssa"
)

// consuming calls: callee name suffix -> index of the result carrying the byte count
var consumeCalls = map[string]int{
	"io.ReadFull":                  0,
	"io.ReadAtLeast":               0,
	"(*bt.VarInt).ReadFrom":        0,
	"(*bt.Input).readFrom":         0,
	"(*bt.Input).ReadFrom":         0,
	"(*bt.Input).ReadFromExtended": 0,
	"(*bt.Output).ReadFrom":        0,
	"(*bt.Tx).ReadFrom":            0,
	"(*bt.Txs).ReadFrom":           0,
	"bt.readBytes":                 1,
}

type accReader struct {
	pkg, recv, name string
	countResult     int
}

var accReaders = []accReader{
	{"", "*VarInt", "ReadFrom", 0}, {"", "*Input", "readFrom", 0}, {"", "*Input", "ReadFrom", 0}, {"", "*Input", "ReadFromExtended", 0},
	{"", "*Output", "ReadFrom", 0}, {"", "*Tx", "ReadFrom", 0}, {"", "*Txs", "ReadFrom", 0}, {"", "", "readBytes", 1},
}

func consumeIndex(c *ssa.Call) (int, bool) {
	sc := c.Call.StaticCallee()
	if sc == nil {
		return 0, false
	}
	n := funcName(sc)
	if sc.Pkg != nil && !strings.HasPrefix(sc.Pkg.Pkg.Path(), modPath) {
		n = sc.String()
	}
	i, ok := consumeCalls[n]
	return i, ok
}

func discoverConsumers(c *Ctx) {
	// readers are discovered: every function of package bt that takes an io.Reader and
	// returns a byte count together with an error
	for _, fn := range pkgFunctions(c.P, modPath) {
		hasReader := false
		for _, p := range fn.Params {
			if isIOReader(p.Type()) {
				hasReader = true
			}
		}
		res := fn.Signature.Results()
		if !hasReader || res.Len() < 2 || !isErrorType(res.At(res.Len()-1).Type()) {
			continue
		}
		cr := -1
		for i := 0; i < res.Len()-1; i++ {
			if isIntType(res.At(i).Type()) {
				cr = i
			}
		}
		if cr < 0 {
			continue
		}
		consumeCalls[funcName(fn)] = cr
	}
}

func ruleACC(c *Ctx) {
	pe := pEngine(c)
	nCalls := 0
	discoverConsumers(c)
	nReaders := 0
	for _, fn := range pkgFunctions(c.P, modPath) {
		cr, ok := consumeCalls[funcName(fn)]
		if !ok {
			continue
		}
		nReaders++
		nCalls += accCheckFunc(c, pe, fn, cr, strings.TrimPrefix(funcName(fn), "bt."))
	}
	c.MinInstances("ACC/readers", nReaders, 6)
	c.Covered["ACC:consuming_calls"] = nCalls
	c.MinInstances("ACC", nCalls, 24)
	// ACC-3: NewTxFromBytes succeeds only if the whole slice was consumed
	if fn := c.P.Func("", "", "NewTxFromBytes"); fn != nil {
		pf := pe.pf(fn)
		found := false
		for _, b := range fn.Blocks {
			ret, ok := b.Instrs[len(b.Instrs)-1].(*ssa.Return)
			if !ok || returnKinds(ret.Results[1]) != 1 {
				continue
			}
			found = true
			// find used = extract#1 of NewTxFromStream and len(b)
			var used *vn
			for _, bb := range fn.Blocks {
				for _, ins := range bb.Instrs {
					if ex, ok := ins.(*ssa.Extract); ok && ex.Index == 1 {
						if call, ok := ex.Tuple.(*ssa.Call); ok && call.Call.StaticCallee() != nil && call.Call.StaticCallee().Name() == "NewTxFromStream" {
							used = pf.get(ex)
						}
					}
				}
			}
			if used == nil {
				c.Undecided("ACC", "ACC-3/NewTxFromBytes", fn.Pos(), "NewTxFromBytes no longer obtains the consumed count from NewTxFromStream")
				continue
			}
			g := pf.linOf(used).sub(pf.linOf(pf.mkLen(pf.get(fn.Params[0]))))
			ok1 := pf.proveAt(b, pgoal{l: g}, nil, 0) && pf.proveAt(b, pgoal{l: g.neg()}, nil, 0)
			c.Check(ok1, "ACC", "ACC-3/NewTxFromBytes", ret.Pos(), "the success return is dominated by used == len(b)",
				"NewTxFromBytes can succeed without having consumed exactly len(b) bytes (trailing bytes accepted)")
		}
		if !found {
			c.Undecided("ACC", "ACC-3/NewTxFromBytes", fn.Pos(), "no success return found")
		}
	} else {
		c.Undecided("ACC", "ACC-3/NewTxFromBytes", token.NoPos, "NewTxFromBytes not found")
	}
	// ACC-4: NewTxFromStream reports the reader's count unchanged
	if fn := c.P.Func("", "", "NewTxFromStream"); fn != nil {
		pf := pe.pf(fn)
		for _, b := range fn.Blocks {
			ret, ok := b.Instrs[len(b.Instrs)-1].(*ssa.Return)
			if !ok {
				continue
			}
			v := pf.get(ret.Results[1])
			good := false
			if v.op == "conv" && v.args[0].op == "extract" && v.args[0].name == "0" && v.args[0].args[0].op == "call" &&
				strings.HasPrefix(v.args[0].args[0].name, "(*bt.Tx).ReadFrom") {
				good = true
			}
			c.Check(good, "ACC", "ACC-4/NewTxFromStream", ret.Pos(), "returns int(count of Tx.ReadFrom)", "NewTxFromStream does not return the count reported by Tx.ReadFrom unchanged: "+descVN(v, 0))
		}
	} else {
		c.Undecided("ACC", "ACC-4/NewTxFromStream", token.NoPos, "NewTxFromStream not found")
	}
	// ACC-5: the byte-string helper the readers rely on ("reads exactly n bytes"): at every success
	// return the consumed count and the length of the returned data both equal the requested n, so it
	// never takes bytes of the field that follows
	if fn := c.P.Func("", "", "readBytes"); fn != nil && len(fn.Params) == 2 && fn.Signature.Results().Len() == 3 {
		pf := pe.pf(fn)
		found := 0
		for _, b := range fn.Blocks {
			ret, ok := b.Instrs[len(b.Instrs)-1].(*ssa.Return)
			if !ok || returnKinds(ret.Results[2])&1 == 0 || errorFromNonNil(pf, ret.Results[2], b) {
				continue
			}
			found++
			// a return that hands on an error variable: success is the case in which it is nil
			var hyp []fact
			if returnKinds(ret.Results[2]) != 1 {
				hyp = []fact{{isnil: pf.get(ret.Results[2]).key, why: "success: the returned error is nil"}}
			}
			n := pf.linOf(pf.get(fn.Params[1]))
			dataLen := pf.linOf(pf.mkLen(pf.get(ret.Results[0])))
			for _, q := range []struct {
				what, bad string
				l, r      *lin
			}{{"the length of the data equals the requested n (loop invariant: never ahead of n)", "data whose length differs from the n its caller read as the length prefix", dataLen, n},
				{"the consumed count equals the length of the data (loop invariant: both advance by what was read)", "a consumed count different from the length of the data it returns", pf.linOf(pf.get(ret.Results[1])), dataLen}} {
				g := q.l.sub(q.r)
				// "not ahead" first: once shown it is a fact at this return and may carry the other direction
				// (n - read cannot wrap)
				ok1 := pf.proveAt(b, pgoal{l: g.neg()}, hyp, 0) &&
					(pf.proveAt(b, pgoal{l: g}, hyp, 0) || pf.proveAt(b, pgoal{l: g}, append([]fact{{l: g.neg(), why: "shown before: " + descLin(g.neg()) + " >= 0"}}, hyp...), 0))
				c.Check(ok1, "ACC", "ACC-5/readBytes/"+strings.Fields(q.what)[1], ret.Pos(), "at the success return "+q.what,
					"readBytes can succeed with "+q.bad+": bytes of the following field are taken or left")
			}
		}
		if found == 0 {
			c.Undecided("ACC", "ACC-5/readBytes", fn.Pos(), "no success return found")
		}
	} else {
		c.Undecided("ACC", "ACC-5/readBytes", token.NoPos, "readBytes(r, n) ([]byte, int, error) not found")
	}
}

// accCheckFunc runs the ghost-counter dataflow on one reader; returns the number of consuming calls.
func accCheckFunc(c *Ctx, pe *PEngine, fn *ssa.Function, countResult int, label string) int {
	pf := pe.pf(fn)
	// who-may-read: every use of an io.Reader parameter is an argument of a consuming call
	for _, p := range fn.Params {
		if !isIOReader(p.Type()) || p.Referrers() == nil {
			continue
		}
		for _, r := range *p.Referrers() {
			switch x := r.(type) {
			case *ssa.Call:
				if _, ok := consumeIndex(x); ok {
					continue
				}
				c.Fail("ACC", "reader-use/"+label+"/"+calleeLabel(&x.Call), x.Pos(), "the reader is passed to or used by a call that is not a known counting reader: bytes consumed there are not accounted for")
			case *ssa.DebugRef:
			default:
				c.Fail("ACC", "reader-use/"+label, r.Pos(), "the reader escapes the accounting scheme (used by a non-call instruction)")
			}
		}
	}
	type state struct {
		l  *lin
		ok bool
	}
	nb := len(fn.Blocks)
	in := make([]*state, nb)
	out := make([]*state, nb)
	ncalls := 0
	counted := map[*ssa.Call]bool{}
	zero := newLin()
	transfer := func(b *ssa.BasicBlock, s *state) *state {
		if s == nil || !s.ok {
			return s
		}
		l := s.l
		for _, ins := range b.Instrs {
			call, ok := ins.(*ssa.Call)
			if !ok {
				continue
			}
			idx, ok := consumeIndex(call)
			if !ok {
				continue
			}
			if !counted[call] {
				counted[call] = true
				ncalls++
			}
			var cnt *vn
			if call.Call.Signature().Results().Len() == 1 {
				cnt = pf.get(call)
			} else {
				cnt = pf.mk("extract", call.Call.Signature().Results().At(idx).Type(), fmt.Sprint(idx), token.ILLEGAL, pf.get(call))
			}
			l = l.add(pf.linOf(cnt))
		}
		return &state{l: l, ok: true}
	}
	equalAt := func(b *ssa.BasicBlock, a, bb *lin) bool {
		d := a.sub(bb)
		if d.isConst() && d.c.Sign() == 0 {
			return true
		}
		return pf.proveAt(b, pgoal{l: d}, nil, 1) && pf.proveAt(b, pgoal{l: d.neg()}, nil, 1)
	}
	headerPhi := map[*ssa.BasicBlock]bool{}
	in[0] = &state{l: zero, ok: true}
	// iterate in reverse postorder until stable (few iterations; header phis assumed)
	order := fn.DomPreorder()
	for iter := 0; iter < 6; iter++ {
		changed := false
		for _, b := range order {
			if b.Index != 0 {
				// merge predecessors
				var res *state
				isHeader := false
				for _, p := range b.Preds {
					if b.Dominates(p) {
						isHeader = true
					}
				}
				// candidate: express G through a phi of b
				var phis []*ssa.Phi
				for _, ins := range b.Instrs {
					if ph, ok := ins.(*ssa.Phi); ok {
						phis = append(phis, ph)
					}
				}
				allSame := true
				var first *lin
				known := 0
				for _, p := range b.Preds {
					s := out[p.Index]
					if s == nil || b.Dominates(p) {
						continue // not yet computed, or a back edge (checked after the fixpoint)
					}
					known++
					if !s.ok {
						allSame = false
						continue
					}
					if first == nil {
						first = s.l
					} else if d := first.sub(s.l); !(d.isConst() && d.c.Sign() == 0) {
						allSame = false
					}
				}
				if known == 0 {
					continue
				}
				if allSame && first != nil && !isHeader {
					res = &state{l: first, ok: true}
				} else {
					// find phi whose every (known) edge equals that predecessor's G
					// integer accumulators first, then slices whose length accumulates
					sort.SliceStable(phis, func(i, j int) bool { return isIntType(phis[i].Type()) && !isIntType(phis[j].Type()) })
					for _, ph := range phis {
						if !isIntType(ph.Type()) && !isByteSlice(ph.Type()) {
							continue
						}
						good := true
						for i, p := range b.Preds {
							s := out[p.Index]
							if s == nil || b.Dominates(p) {
								continue
							}
							if !s.ok || !equalAt(p, s.l, accValue(pf, ph.Edges[i])) {
								if os.Getenv("VERIF_DEBUG") == "acc" && s.ok {
									fmt.Fprintf(os.Stderr, "%s b%d phi %s edge %d: G=%s edge=%s\n", label, b.Index, ph.Name(), i, s.l.String(), accValue(pf, ph.Edges[i]).String())
								}
								good = false
								break
							}
						}
						if good {
							res = &state{l: accValue(pf, ph), ok: true}
							break
						}
					}
					if res == nil && allSame && first != nil && !isHeader {
						res = &state{l: first, ok: true}
					}
					if res != nil && res.ok && isHeader {
						headerPhi[b] = true
					}
					if res == nil {
						res = &state{ok: false}
					}
				}
				if in[b.Index] == nil || in[b.Index].ok != res.ok || (res.ok && in[b.Index].l.String() != res.l.String()) {
					in[b.Index] = res
					changed = true
				}
			}
			o := transfer(b, in[b.Index])
			if out[b.Index] == nil || o == nil || out[b.Index].ok != o.ok || (o.ok && out[b.Index].l.String() != o.l.String()) {
				out[b.Index] = o
				changed = true
			}
		}
		if !changed {
			break
		}
	}
	if os.Getenv("VERIF_DEBUG") == "acc" {
		for _, b := range fn.Blocks {
			si, so := "nil", "nil"
			if in[b.Index] != nil {
				si = fmt.Sprint(in[b.Index].ok)
				if in[b.Index].ok {
					si = descLin(in[b.Index].l)
				}
			}
			if out[b.Index] != nil {
				so = fmt.Sprint(out[b.Index].ok)
				if out[b.Index].ok {
					so = descLin(out[b.Index].l)
				}
			}
			fmt.Fprintf(os.Stderr, "%s b%d preds=%d in=%s out=%s\n", label, b.Index, len(b.Preds), si, so)
		}
	}
	// back edges: the value flowing into the header phi must equal G at the latch
	for _, b := range fn.Blocks {
		if !headerPhi[b] || in[b.Index] == nil || !in[b.Index].ok {
			continue
		}
		var hp *ssa.Phi
		for _, ins := range b.Instrs {
			if ph, ok := ins.(*ssa.Phi); ok && pf.get(ph).key != "" {
				if d := in[b.Index].l.sub(accValue(pf, ph)); d.isConst() && d.c.Sign() == 0 {
					hp = ph
				}
			}
		}
		if hp == nil {
			continue
		}
		for i, p := range b.Preds {
			if !b.Dominates(p) {
				continue
			}
			key := fmt.Sprintf("loop/%s/b%d", label, b.Index)
			s := out[p.Index]
			if s != nil && s.ok && equalAt(p, s.l, accValue(pf, hp.Edges[i])) {
				c.OK("ACC", key, posOfBlock(b), "every iteration adds exactly the bytes it consumed to the accumulator")
			} else {
				c.Fail("ACC", key, posOfBlock(b), "on a loop back edge the accumulator differs from the bytes consumed during the iteration")
				in[b.Index] = &state{ok: false}
			}
		}
	}
	// returns
	nret := 0
	for _, b := range fn.Blocks {
		ret, ok := b.Instrs[len(b.Instrs)-1].(*ssa.Return)
		if !ok {
			continue
		}
		nret++
		key := fmt.Sprintf("return/%s#%d", label, nret)
		s := out[b.Index]
		if s == nil || !s.ok {
			c.Fail("ACC", key, ret.Pos(), "the bytes consumed on the paths reaching this return cannot be expressed by one value (accumulator not updated consistently on all paths)")
			continue
		}
		rv := pf.linOf(pf.get(ret.Results[countResult]))
		if equalAt(b, rv, s.l) {
			c.OK("ACC", key, ret.Pos(), "reported count "+descLin(rv)+" equals the sum of the counts of all consuming calls on every path")
		} else {
			c.Fail("ACC", key, ret.Pos(), fmt.Sprintf("reported count %s differs from the bytes consumed on the paths to this return, %s", descLin(rv), descLin(s.l)))
		}
	}
	return ncalls
}

// accValue: the number an accumulator candidate stands for: the integer itself, or the length
// of a byte slice that grows by exactly the bytes read (buf = append(buf, tmp[:k]...)).
func accValue(pf *pfunc, v ssa.Value) *lin {
	if isByteSlice(v.Type()) {
		return pf.linOf(pf.mkLen(pf.get(v)))
	}
	return pf.linOf(pf.get(v))
}

func isIOReader(t types.Type) bool {
	n, ok := t.(*types.Named)
	return ok && n.Obj().Pkg() != nil && n.Obj().Pkg().Path() == "io" && n.Obj().Name() == "Reader"
}

// errorFromNonNil: the returned error is the result of a module helper every return of which hands back
// either a package-level error that is never nil or one of its parameters, and the arguments for those
// parameters are known non-nil at the call (if err != nil { return ..., wrap(err) }): an error return.
func errorFromNonNil(pf *pfunc, v ssa.Value, at *ssa.BasicBlock) bool {
	call, ok := v.(*ssa.Call)
	if !ok {
		return false
	}
	sc := call.Call.StaticCallee()
	if sc == nil || len(sc.Blocks) == 0 || sc.Signature.Results().Len() != 1 {
		return false
	}
	fs := pf.factsAt(at)
	for _, b := range sc.Blocks {
		ret, ok := b.Instrs[len(b.Instrs)-1].(*ssa.Return)
		if !ok {
			continue
		}
		r := ret.Results[0]
		if returnKinds(r) == 2 {
			continue
		}
		p, isParam := r.(*ssa.Parameter)
		if !isParam {
			return false
		}
		idx := -1
		for i, q := range sc.Params {
			if q == p {
				idx = i
			}
		}
		if idx < 0 || idx >= len(call.Call.Args) || !pf.knownNonNil(call.Call.Args[idx], fs) {
			return false
		}
	}
	return true
}
