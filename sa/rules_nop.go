package main

// T-nop: the prologue of OP_CHECKLOCKTIMEVERIFY / OP_CHECKSEQUENCEVERIFY as a decision table over the
// three inputs it reads (the opcode's own verify flag, the after-genesis era, DISCOURAGE_UPGRADABLE_NOPS):
// the opcode is live only with its flag before genesis; otherwise it is the upgradable NOP it replaced,
// which fails under the discourage flag and does nothing without it.

import (
	"fmt"
	"go/constant"
	"go/token"
	"sort"
	"strings"

	"golang.org/x/tools/go/ssa"
)

func ruleTNop(c *Ctx) {
	discourage := pkgConst(c, "bscript/interpreter/scriptflag", "DiscourageUpgradableNops")
	errCode := pkgConst(c, "bscript/interpreter/errs", "ErrDiscourageUpgradableNOPs")
	n := 0
	for _, h := range []struct{ fn, flag string }{
		{"opcodeCheckLockTimeVerify", "VerifyCheckLockTimeVerify"},
		{"opcodeCheckSequenceVerify", "VerifyCheckSequenceVerify"},
	} {
		fn := c.P.Func("bscript/interpreter", "", h.fn)
		own := pkgConst(c, "bscript/interpreter/scriptflag", h.flag)
		if fn == nil || own < 0 || discourage < 0 || errCode < 0 {
			c.Undecided("T-nop", h.fn, token.NoPos, "handler, flag or error code not found")
			continue
		}
		paths, err := feasiblePaths(fn, 20000)
		if err != nil {
			c.Undecided("T-nop", h.fn, fn.Pos(), "cannot enumerate paths: "+err.Error())
			continue
		}
		// atom of a branch condition: "own", "disc", "gen" or "" (anything else: the opcode's own logic)
		atomOf := func(t *T) string {
			switch {
			case t.K == "call" && strings.HasSuffix(t.Name, ".hasFlag") || t.K == "call" && strings.Contains(t.Name, ".hasFlag@"):
				if len(t.Args) == 2 && t.Args[1].K == "const" && t.Args[1].C != nil {
					v, _ := constant.Int64Val(constant.ToInt(t.Args[1].C))
					switch v {
					case own:
						return "own"
					case discourage:
						return "disc"
					}
				}
			case t.K == "field" && t.Name == "afterGenesis":
				return "gen"
			}
			return ""
		}
		type row struct {
			asg     map[string]bool
			outcome string
		}
		var rows []row
		for _, p := range paths {
			asg := map[string]bool{}
			outcome := ""
			for _, cd := range p.Conds {
				t, truth := cd.Cond, cd.Truth
				for t.K == "un" && t.Op == token.NOT {
					t, truth = t.Args[0], !truth
				}
				a := atomOf(t)
				if a == "" {
					outcome = "live"
					break
				}
				asg[a] = truth
			}
			if outcome == "" {
				switch {
				case p.EndKind != "return" || p.Ret == nil || len(p.Ret.Results) != 1:
					outcome = "other: " + p.EndKind
				default:
					rt := p.Env.Term(p.Ret.Results[0])
					switch {
					case rt.K == "const" && rt.C == nil:
						outcome = "nop"
					case rt.K == "call" && strings.Contains(rt.Name, "errs.NewError") && len(rt.Args) > 0 && rt.Args[0].K == "const" && rt.Args[0].C != nil:
						if v, _ := constant.Int64Val(constant.ToInt(rt.Args[0].C)); v == errCode {
							outcome = "discouraged"
						} else {
							outcome = "other: error code " + rt.Args[0].String()
						}
					default:
						// the prologue fell through to the opcode's own logic without a further branch
						outcome = "live"
					}
				}
			}
			rows = append(rows, row{asg, outcome})
		}
		var bad []string
		cells := 0
		for m := 0; m < 8; m++ {
			full := map[string]bool{"own": m&1 != 0, "gen": m&2 != 0, "disc": m&4 != 0}
			want := "live"
			if !(full["own"] && !full["gen"]) {
				want = "nop"
				if full["disc"] {
					want = "discouraged"
				}
			}
			got := map[string]bool{}
			for _, r := range rows {
				ok := true
				for a, v := range r.asg {
					if full[a] != v {
						ok = false
					}
				}
				if ok {
					got[r.outcome] = true
				}
			}
			var gs []string
			for g := range got {
				gs = append(gs, g)
			}
			sort.Strings(gs)
			cells++
			if len(gs) != 1 || gs[0] != want {
				bad = append(bad, fmt.Sprintf("%s=%v after-genesis=%v discourage-nops=%v: code %v, rule %s", h.flag, full["own"], full["gen"], full["disc"], gs, want))
			}
		}
		n++
		c.Covered["T-nop:cells:"+h.fn] = cells
		c.Check(len(bad) == 0, "T-nop", h.fn, fn.Pos(),
			"live only with "+h.flag+" before genesis; otherwise a NOP that fails with ErrDiscourageUpgradableNOPs under DISCOURAGE_UPGRADABLE_NOPS (8 cells)",
			h.fn+"'s flag prologue differs from the rule: "+strings.Join(bad, "; "))
	}
	c.MinInstances("T-nop", n, 2)
}

var _ = ssa.Value(nil)
