package main

// T-nop: the prologue of OP_CHECKLOCKTIMEVERIFY / OP_CHECKSEQUENCEVERIFY as a decision table over the
// three inputs it reads (the opcode's own verify flag, the after-genesis era, DISCOURAGE_UPGRADABLE_NOPS):
// the opcode is live only with its flag before genesis; otherwise it is the upgradable NOP it replaced,
// which fails under the discourage flag and does nothing without it.

import (
	"fmt"
	"go/constant"
	"go/token"
	"math/big"
	"sort"
	"strings"

	"golang.org/x/tools/go/ssa"
)

func ruleTNop(c *Ctx) {
	discourage := pkgConst(c, "bscript/interpreter/scriptflag", "DiscourageUpgradableNops")
	errCode := pkgConst(c, "bscript/interpreter/errs", "ErrDiscourageUpgradableNOPs")
	n := 0
	for _, h := range []struct{ fn, flag string }{
		{"opcodeCheckLockTimeVerify", "VerifyCheckLockTimeVerify"},
		{"opcodeCheckSequenceVerify", "VerifyCheckSequenceVerify"},
	} {
		fn := c.P.Func("bscript/interpreter", "", h.fn)
		own := pkgConst(c, "bscript/interpreter/scriptflag", h.flag)
		if fn == nil || own < 0 || discourage < 0 || errCode < 0 {
			c.Undecided("T-nop", h.fn, token.NoPos, "handler, flag or error code not found")
			continue
		}
		paths, err := feasiblePaths(fn, 20000)
		if err != nil {
			c.Undecided("T-nop", h.fn, fn.Pos(), "cannot enumerate paths: "+err.Error())
			continue
		}
		// atom of a branch condition: "own", "disc", "gen" or "" (anything else: the opcode's own logic)
		atomOf := func(t *T) string {
			switch {
			case t.K == "call" && strings.HasSuffix(t.Name, ".hasFlag") || t.K == "call" && strings.Contains(t.Name, ".hasFlag@"):
				if len(t.Args) == 2 && t.Args[1].K == "const" && t.Args[1].C != nil {
					v, _ := constant.Int64Val(constant.ToInt(t.Args[1].C))
					switch v {
					case own:
						return "own"
					case discourage:
						return "disc"
					}
				}
			case t.K == "field" && t.Name == "afterGenesis":
				return "gen"
			}
			return ""
		}
		type row struct {
			asg     map[string]bool
			outcome string
		}
		var rows []row
		for _, p := range paths {
			asg := map[string]bool{}
			outcome := ""
			for _, cd := range p.Conds {
				t, truth := cd.Cond, cd.Truth
				for t.K == "un" && t.Op == token.NOT {
					t, truth = t.Args[0], !truth
				}
				a := atomOf(t)
				if a == "" {
					outcome = "live"
					break
				}
				asg[a] = truth
			}
			if outcome == "" {
				switch {
				case p.EndKind != "return" || p.Ret == nil || len(p.Ret.Results) != 1:
					outcome = "other: " + p.EndKind
				default:
					rt := p.Env.Term(p.Ret.Results[0])
					switch {
					case rt.K == "const" && rt.C == nil:
						outcome = "nop"
					case rt.K == "call" && strings.Contains(rt.Name, "errs.NewError") && len(rt.Args) > 0 && rt.Args[0].K == "const" && rt.Args[0].C != nil:
						if v, _ := constant.Int64Val(constant.ToInt(rt.Args[0].C)); v == errCode {
							outcome = "discouraged"
						} else {
							outcome = "other: error code " + rt.Args[0].String()
						}
					default:
						// the prologue fell through to the opcode's own logic without a further branch
						outcome = "live"
					}
				}
			}
			rows = append(rows, row{asg, outcome})
		}
		var bad []string
		cells := 0
		for m := 0; m < 8; m++ {
			full := map[string]bool{"own": m&1 != 0, "gen": m&2 != 0, "disc": m&4 != 0}
			want := "live"
			if !(full["own"] && !full["gen"]) {
				want = "nop"
				if full["disc"] {
					want = "discouraged"
				}
			}
			got := map[string]bool{}
			for _, r := range rows {
				ok := true
				for a, v := range r.asg {
					if full[a] != v {
						ok = false
					}
				}
				if ok {
					got[r.outcome] = true
				}
			}
			var gs []string
			for g := range got {
				gs = append(gs, g)
			}
			sort.Strings(gs)
			cells++
			if len(gs) != 1 || gs[0] != want {
				bad = append(bad, fmt.Sprintf("%s=%v after-genesis=%v discourage-nops=%v: code %v, rule %s", h.flag, full["own"], full["gen"], full["disc"], gs, want))
			}
		}
		n++
		c.Covered["T-nop:cells:"+h.fn] = cells
		c.Check(len(bad) == 0, "T-nop", h.fn, fn.Pos(),
			"live only with "+h.flag+" before genesis; otherwise a NOP that fails with ErrDiscourageUpgradableNOPs under DISCOURAGE_UPGRADABLE_NOPS (8 cells)",
			h.fn+"'s flag prologue differs from the rule: "+strings.Join(bad, "; "))
	}
	c.MinInstances("T-nop", n, 2)
}

var _ = ssa.Value(nil)

// T-end: how a script's end is judged (thread.CheckErrorCondition), as a prefix decision table over the
// three things it reads before it pops the verdict: the depth of the data stack, whether this is the final
// script, and the CLEANSTACK flag: an empty stack is ErrEmptyStack; on the final script under CLEANSTACK
// anything but exactly one item is ErrCleanStack; otherwise the top item is popped as the verdict.
func ruleTEnd(c *Ctx) {
	fn := c.P.Func("bscript/interpreter", "*thread", "CheckErrorCondition")
	clean := pkgConst(c, "bscript/interpreter/scriptflag", "VerifyCleanStack")
	eEmpty := pkgConst(c, "bscript/interpreter/errs", "ErrEmptyStack")
	eClean := pkgConst(c, "bscript/interpreter/errs", "ErrCleanStack")
	if fn == nil || clean < 0 || eEmpty < 0 || eClean < 0 {
		c.Undecided("T-end", "CheckErrorCondition", token.NoPos, "function, flag or error codes not found")
		return
	}
	paths, err := feasiblePaths(fn, 20000)
	if err != nil {
		c.Undecided("T-end", "CheckErrorCondition", fn.Pos(), "cannot enumerate paths: "+err.Error())
		return
	}
	// the atoms of the prologue
	kind := func(k string, t *T) string {
		switch {
		case t.K == "call" && strings.Contains(t.Name, ").Depth") && strings.Contains(k, "dstack"):
			return "depth"
		case k == "p1":
			return "final"
		case t.K == "call" && strings.Contains(t.Name, ".hasFlag") && len(t.Args) == 2 && t.Args[1].K == "const" && t.Args[1].C != nil:
			if v, _ := constant.Int64Val(constant.ToInt(t.Args[1].C)); v == clean {
				return "clean"
			}
		}
		return ""
	}
	cells := 0
	var bad []string
	for _, depth := range []int64{0, 1, 2, 3, 1000} {
		for m := 0; m < 4; m++ {
			final, cl := m&1 != 0, m&2 != 0
			want := "verdict popped"
			switch {
			case depth < 1:
				want = "ErrEmptyStack"
			case final && cl && depth != 1:
				want = "ErrCleanStack"
			}
			got := map[string]bool{}
			for _, p := range paths {
				asgOK, outcome := true, ""
				for _, cd := range p.Conds {
					bt := map[string]*T{}
					baseTerms(cd.Cond, bt)
					asg := map[string]*big.Int{}
					known := len(bt) > 0
					for k, t := range bt {
						switch kind(k, t) {
						case "depth":
							asg[k] = big.NewInt(depth)
						case "final":
							asg[k] = big.NewInt(b2i(final))
						case "clean":
							asg[k] = big.NewInt(b2i(cl))
						default:
							known = false
						}
					}
					if !known {
						outcome = "verdict popped" // the prologue is over: the path goes on to the popped verdict
						break
					}
					v, ok := evalTerm(cd.Cond, asg)
					if !ok {
						outcome = "a condition that does not fold: " + cd.Cond.String()
						break
					}
					if (v.Sign() != 0) != cd.Truth {
						asgOK = false
						break
					}
				}
				if !asgOK {
					continue
				}
				if outcome == "" {
					code, k := errCodeOfReturn(p)
					switch {
					case k == "error" && code == eEmpty:
						outcome = "ErrEmptyStack"
					case k == "error" && code == eClean:
						outcome = "ErrCleanStack"
					default:
						outcome = fmt.Sprintf("%s %d without popping the verdict", k, code)
					}
				}
				got[outcome] = true
			}
			cells++
			if len(got) != 1 || !got[want] {
				bad = append(bad, fmt.Sprintf("depth %d, final script %v, CLEANSTACK %v: code %v, rule %s", depth, final, cl, sortedKeys(got), want))
			}
		}
	}
	c.Covered["T-end:cells"] = cells
	c.Check(len(bad) == 0, "T-end", "CheckErrorCondition", fn.Pos(), "empty stack: ErrEmptyStack; final script under CLEANSTACK with other than one item: ErrCleanStack; otherwise the verdict is popped (20 cells)",
		"the end-of-script judgement differs from the rule: "+strings.Join(bad, "; "))
}

func b2i(b bool) int64 {
	if b {
		return 1
	}
	return 0
}
