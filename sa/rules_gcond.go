package main

// G-cond (C05): the gate in thread.executeOpcode that decides, for every opcode of every script,
// between {error, skip, run the handler}. The extracted decision structure is evaluated on all
// assignments of its atoms and compared with the node's EvalScript prologue. T-flagdead: every
// script flag is read by some function reachable from Execute.

import (
	"fmt"
	"go/token"
	"sort"
	"strings"

	"golang.org/x/tools/go/ssa"
)

func gcondAtom(s string) string {
	switch {
	case strings.Contains(s, "len(") && strings.Contains(s, ".Data) > ") && strings.Contains(s, "MaxScriptElementSize"):
		return "E"
	case strings.Contains(s, ").IsDisabled("):
		return "D"
	case strings.Contains(s, ").AlwaysIllegal("):
		return "I"
	case strings.HasSuffix(s, ".afterGenesis"):
		return "G"
	case strings.Contains(s, ").shouldExec("):
		return "X"
	case strings.Contains(s, ").isBranchExecuting("):
		return "B"
	case strings.Contains(s, ").IsConditional("):
		return "C"
	case strings.HasSuffix(s, ".verifyMinimalData"):
		return "V"
	case strings.HasSuffix(s, ".op.val > 96)"):
		return "P"
	case strings.HasSuffix(s, ".op.val <= 78)"):
		return "H"
	case strings.Contains(s, ".numOps > ") && strings.Contains(s, "MaxOps"):
		return "M"
	case strings.Contains(s, "enforceMinimumDataPush") && strings.HasSuffix(s, "!= nil)"):
		return "Q"
	}
	return ""
}

func ruleGCond(c *Ctx) {
	fn := c.P.Func("bscript/interpreter", "*thread", "executeOpcode")
	if fn == nil {
		c.Undecided("G-cond", "thread.executeOpcode", token.NoPos, "not found")
		return
	}
	paths, err := feasiblePaths(fn, 200000)
	if err != nil {
		c.Undecided("G-cond", "thread.executeOpcode", fn.Pos(), err.Error())
		return
	}
	type ppath struct {
		val  map[string]bool
		leaf string
	}
	var pps []ppath
	atomSet := map[string]bool{}
	for _, d := range paths {
		pp := ppath{val: map[string]bool{}}
		ok := true
		for _, pc := range d.Conds {
			a := gcondAtom(atomName(pc.Cond))
			if a == "" {
				c.Undecided("G-cond", "thread.executeOpcode", fn.Pos(), "the gate decides on a condition outside its specification: "+shorten(atomName(pc.Cond), 200))
				return
			}
			if prev, dup := pp.val[a]; dup && prev != pc.Truth {
				ok = false // the same atom evaluated twice (isBranchExecuting, element size): both reads agree
			}
			pp.val[a] = pc.Truth
			atomSet[a] = true
		}
		if !ok {
			continue
		}
		// leaf
		rd := errLeaf(c, d)
		switch {
		case rd == "nil":
			pp.leaf = "skip"
		case strings.HasPrefix(rd, "Err"):
			pp.leaf = rd
		default:
			pp.leaf = "?"
			if d.Ret != nil {
				switch r := d.Ret.Results[0].(type) {
				case *ssa.Call:
					if r.Call.StaticCallee() == nil && !r.Call.IsInvoke() {
						pp.leaf = "run"
					} else if sc := r.Call.StaticCallee(); sc != nil && sc.Name() == "enforceMinimumDataPush" {
						pp.leaf = "minpush-error"
					}
				}
			}
		}
		pps = append(pps, pp)
	}
	atoms := keysSorted(atomSet)
	if len(atoms) > 14 {
		c.Undecided("G-cond", "thread.executeOpcode", fn.Pos(), "too many atoms")
		return
	}
	spec := func(v map[string]bool) string {
		switch {
		case v["E"]:
			return "ErrElementTooBig"
		case v["D"] && (!v["G"] || v["X"]):
			return "ErrDisabledOpcode"
		case v["I"] && !v["G"]:
			return "ErrReservedOpcode"
		case v["P"] && v["M"]:
			return "ErrTooManyOperations"
		case !v["B"] && !v["C"]:
			return "skip"
		case v["V"] && v["B"] && v["H"] && v["X"] && v["Q"]:
			return "minpush-error"
		case !v["X"] && !v["C"]:
			return "skip"
		}
		return "run"
	}
	cells, bad := 0, ""
	for m := 0; m < 1<<len(atoms); m++ {
		v := map[string]bool{}
		for i, a := range atoms {
			v[a] = m&(1<<i) != 0
		}
		// shouldExec is true before genesis and implies an executing branch after it (checked below)
		if (!v["G"] && !v["X"]) || (v["G"] && v["X"] && !v["B"]) {
			continue
		}
		leaf, n := "", 0
		for _, pp := range pps {
			match := true
			for a, t := range pp.val {
				if v[a] != t {
					match = false
					break
				}
			}
			if match {
				if n > 0 && pp.leaf != leaf {
					bad = fmt.Sprintf("ambiguous outcome under %v: %s vs %s", v, leaf, pp.leaf)
				}
				leaf = pp.leaf
				n++
			}
		}
		if n == 0 {
			bad = fmt.Sprintf("no path for %v", v)
		}
		cells++
		if w := spec(v); leaf != w && bad == "" {
			var ks []string
			for _, a := range atoms {
				if v[a] {
					ks = append(ks, a)
				} else {
					ks = append(ks, "!"+a)
				}
			}
			bad = fmt.Sprintf("under %s the gate gives %s, the node's EvalScript prologue gives %s", strings.Join(ks, " "), leaf, w)
		}
	}
	c.Covered["G-cond:cells"] = cells
	legend := "E element too big, D disabled, I always illegal, G after genesis, X shouldExec, B branch executing, C conditional opcode, V minimal-data flag, P opcode > OP_16, H opcode <= PUSHDATA4, M op count exceeded, Q minimal push violated"
	c.Check(bad == "" && len(atoms) == 12, "G-cond", "thread.executeOpcode", fn.Pos(), fmt.Sprintf("gate equals the specified table on all %d assignments of its %d atoms (%s)", cells, len(atoms), legend),
		"the opcode gate differs from the specification: "+bad+" ("+legend+")")
	// numOps is incremented exactly under P
	for _, b := range fn.Blocks {
		for _, ins := range b.Instrs {
			if st, ok := threadFieldStore(ins, "numOps"); ok {
				okP := false
				for _, dc := range dominatingConds(b) {
					if gcondAtom(atomName(newTermEnv().Term(dc.cond))) == "P" && dc.truth {
						okP = true
					}
				}
				c.Check(okP, "G-cond", "thread.executeOpcode/numOps", st.Pos(), "the operation count grows exactly for opcodes above OP_16", "the operation count is incremented outside the 'opcode > OP_16' branch")
			}
		}
	}
	// shouldExec implies isBranchExecuting: its result is false whenever the branch is not executing
	if se := c.P.Func("bscript/interpreter", "*thread", "shouldExec"); se != nil {
		ps, err := feasiblePaths(se, 5000)
		ok := err == nil
		sawPre := false
		for _, d := range ps {
			if d.Ret == nil {
				continue
			}
			// a path that returns a non-false value must not have seen a false condition-stack entry
			rt := d.Env.Term(d.Ret.Results[0])
			for _, pc := range d.Conds {
				if strings.HasSuffix(atomName(pc.Cond), ".afterGenesis") && !pc.Truth {
					sawPre = true
					if rt.String() != "true" {
						ok = false
					}
				}
			}
			if rt.String() == "false" {
				continue
			}
			for _, pc := range d.Conds {
				s := atomName(pc.Cond)
				if strings.Contains(s, "== 0)") && pc.Truth && strings.Contains(s, "condStack") {
					ok = false
				}
			}
		}
		c.Check(ok && sawPre, "G-cond", "thread.shouldExec", se.Pos(), "shouldExec is true before genesis and false after genesis as soon as a condition-stack entry is false", "shouldExec no longer is 'true before genesis / false in a non-executing branch after genesis'")
	}
}

// ruleTFlagDead: a script flag that nothing reachable from Execute reads cannot have its specified effect.
func ruleTFlagDead(c *Ctx) {
	pk := c.P.Pkgs[modPath+"/bscript/interpreter/scriptflag"]
	if pk == nil {
		c.Undecided("T-flagdead", "scriptflag", token.NoPos, "package not found")
		return
	}
	flags := map[int64]string{}
	for _, n := range pk.Types.Scope().Names() {
		v := pkgConst(c, "bscript/interpreter/scriptflag", n)
		if v > 0 {
			flags[v] = n
		}
	}
	used := map[int64]int{}
	reach := reachableFrom(c, c.P.Func("bscript/interpreter", "*engine", "Execute"))
	for fn := range reach {
		for _, b := range fn.Blocks {
			for _, ins := range b.Instrs {
				call, ok := ins.(*ssa.Call)
				if !ok {
					continue
				}
				sc := call.Call.StaticCallee()
				if sc == nil || (sc.Name() != "hasFlag" && sc.Name() != "hasAny" && sc.Name() != "addFlag") {
					continue
				}
				vals := call.Call.Args[1:]
				if sc.Name() == "hasAny" {
					vals = appendedValues2(call)
				}
				for _, v := range vals {
					if k, isK := v.(*ssa.Const); isK {
						if x, ok := constInt(k); ok && sc.Name() != "addFlag" {
							used[x.Int64()]++
						}
					}
				}
			}
		}
	}
	// flags read through the options (WithForkID etc.) do not count: only reads during execution
	var names []string
	for v, n := range flags {
		names = append(names, fmt.Sprintf("%s=%d", n, v))
		_ = v
	}
	sort.Strings(names)
	// flags that the BSV interpreter consults during script evaluation
	mustRead := []string{"Bip16", "StrictMultiSig", "DiscourageUpgradableNops", "VerifyCheckLockTimeVerify", "VerifyCheckSequenceVerify", "VerifyCleanStack", "VerifyDERSignatures", "VerifyLowS", "VerifyMinimalData", "VerifyNullFail", "VerifySigPushOnly", "VerifyStrictEncoding", "EnableSighashForkID", "UTXOAfterGenesis", "VerifyMinimalIf"}
	n := 0
	for _, name := range mustRead {
		v := pkgConst(c, "bscript/interpreter/scriptflag", name)
		if v < 0 {
			c.Undecided("T-flagdead", "flag/"+name, token.NoPos, "constant not found")
			continue
		}
		n++
		c.Check(used[v] > 0, "T-flagdead", "flag/"+name, token.NoPos, fmt.Sprintf("%s is tested at %d site(s) reachable from Execute", name, used[v]), "no function reachable from Engine.Execute tests the flag "+name+": setting it has no effect")
	}
	c.MinInstances("T-flagdead", n, 14)
}

func reachableFrom(c *Ctx, root *ssa.Function) map[*ssa.Function]bool {
	out := map[*ssa.Function]bool{}
	if root == nil {
		return out
	}
	cg := c.P.CG()
	var walk func(f *ssa.Function)
	walk = func(f *ssa.Function) {
		if f == nil || out[f] {
			return
		}
		out[f] = true
		if n := cg.Nodes[f]; n != nil {
			for _, e := range n.Out {
				walk(e.Callee.Func)
			}
		}
	}
	walk(root)
	return out
}
