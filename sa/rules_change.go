package main

// C10 rules on Tx.change and its wrappers.
//   G-chg   the decision structure of change: insufficient inputs -> error; available = IN - OUT;
//           fee = floor((std + new-output bytes) * std rate) + floor(data * data rate), where the
//           new-output bytes are 8 + len-prefix + script + growth of the output-count prefix when an
//           output is added and 0 otherwise; no change iff available <= fee or available - fee <= dust;
//           change = available - fee; an output is appended only in new-output mode, with that amount
//   S-chg   wrappers: ChangeToExistingOutput checks the index first and adds the amount to exactly
//           that output only when change is due; Change/ChangeToAddress request a new output
//   O-pure  change writes nothing but the appended output

import (
	"fmt"
	"go/token"
	"math/big"
	"regexp"
	"sort"
	"strings"

	"golang.org/x/tools/go/ssa"
)

func binOf(t *T, op token.Token) (*T, *T, bool) {
	if t != nil && t.K == "bin" && t.Op == op {
		return t.Args[0], t.Args[1], true
	}
	return nil, nil, false
}

func stripConv(t *T) *T {
	for t != nil && t.K == "conv" && len(t.Args) == 1 {
		t = t.Args[0]
	}
	return t
}

// feeProduct matches (bytes * uint64(F.MiningFee.Satoshis)) / uint64(F.MiningFee.Bytes) for the quote
// entry named kind and returns the bytes term.
func feeProduct(t *T, kind string) (*T, bool) {
	num, den, ok := binOf(t, token.QUO)
	if !ok {
		return nil, false
	}
	fee := `(*bt.FeeQuote).Fee(p1, "` + kind + `")#0.MiningFee`
	if atomName(stripConv(den)) != fee+".Bytes" {
		return nil, false
	}
	a, b, ok := binOf(num, token.MUL)
	if !ok {
		return nil, false
	}
	if atomName(stripConv(b)) == fee+".Satoshis" {
		return a, true
	}
	if atomName(stripConv(a)) == fee+".Satoshis" {
		return b, true
	}
	return nil, false
}

// feesPaidTotal: t is feesPaid(_, size, p1)#0.TotalFeePaid: the call and the size argument's term.
func feesPaidTotal(t *T) (*ssa.Call, *T) {
	if t == nil || t.K != "field" || t.Name != "TotalFeePaid" || len(t.Args) != 1 {
		return nil, nil
	}
	ex := t.Args[0]
	if ex.K != "extract" || ex.Name != "0" || len(ex.Args) != 1 || ex.Args[0].K != "call" || !strings.Contains(ex.Args[0].Name, "(*bt.Tx).feesPaid") || len(ex.Args[0].Args) != 3 {
		return nil, nil
	}
	if atomName(ex.Args[0].Args[2]) != "p1" {
		return nil, nil
	}
	call, _ := ex.Args[0].V.(*ssa.Call)
	if call == nil {
		return nil, nil
	}
	return call, ex.Args[0].Args[1]
}

// feesPaidFloorFormula: "" when feesPaid computes floor(std bytes * rate) + floor(data bytes * rate) from its
// size argument and nothing else (what rule G-fee reports on in full).
func feesPaidFloorFormula(c *Ctx) string {
	fn := c.P.Func("", "*Tx", "feesPaid")
	if fn == nil {
		return "which was not found"
	}
	got, _ := allocFieldStores(fn, "TxFees", newTermEnv())
	std := `(*bt.FeeQuote).Fee(p2, "standard")#0.MiningFee`
	data := `(*bt.FeeQuote).Fee(p2, "data")#0.MiningFee`
	want := map[string]string{
		"StdFeePaid":   "((p1.TotalStdBytes * uint64(" + std + ".Satoshis)) / uint64(" + std + ".Bytes))",
		"DataFeePaid":  "((p1.TotalDataBytes * uint64(" + data + ".Satoshis)) / uint64(" + data + ".Bytes))",
		"TotalFeePaid": "(alloc#0.DataFeePaid + alloc#0.StdFeePaid)",
	}
	full := "(" + want["DataFeePaid"] + " + " + want["StdFeePaid"] + ")"
	for f, w := range want {
		if got[f] != w && !(f == "TotalFeePaid" && got[f] == full) {
			return "which does not compute " + f + " by the floor formula"
		}
	}
	if len(got) != len(want) {
		return "which sets further fields"
	}
	return ""
}

var growthTabRe = regexp.MustCompile(`^\*g:bt\.(\w+)\[uint64\(\(\*bt\.Tx\)\.OutputCount\(p0\)\)\]$`)

func ruleGChg(c *Ctx) {
	fn := c.P.Func("", "*Tx", "change")
	if fn == nil {
		c.Undecided("G-chg", "Tx.change", token.NoPos, "not found")
		return
	}
	paths, err := feasiblePaths(fn, 20000)
	if err != nil {
		c.Undecided("G-chg", "Tx.change", fn.Pos(), err.Error())
		return
	}
	const IN, OUT = "(*bt.Tx).TotalInputSatoshis(p0)", "(*bt.Tx).TotalOutputSatoshis(p0)"
	const SIZE = "(*bt.Tx).EstimateSizeWithTypes(p0)#0"
	renameCB := func(s string) string {
		switch s {
		case "uint64((bt.VarInt).Length(uint64(len(*p2.lockingScript))))":
			return "PREFIX(L)"
		case "uint64(len(*p2.lockingScript))":
			return "L"
		case "uint64((bt.VarInt).Length(0))":
			return "PREFIX(0)"
		case "uint64((bt.VarInt).UpperLimitInc(VarInt((*bt.Tx).OutputCount(p0))))":
			return "GROWTH"
		}
		// the growth of the count prefix read from a constant table keyed by the output count: the same
		// function while the table lists exactly the three counts at which the prefix widens
		if m := growthTabRe.FindStringSubmatch(s); m != nil {
			if pkg := c.P.SSAPkg(modPath); pkg != nil {
				if g, ok := pkg.Members[m[1]].(*ssa.Global); ok {
					if tab := constTableOf(c.P, g); tab != nil && tab.isMap && len(tab.vals) == 3 &&
						tab.at(big.NewInt(0xfc)).Int64() == 2 && tab.at(big.NewInt(0xffff)).Int64() == 2 && tab.at(big.NewInt(0xffffffff)).Int64() == 4 &&
						tab.has(big.NewInt(0xfc)) && tab.has(big.NewInt(0xffff)) && tab.has(big.NewInt(0xffffffff)) {
						return "GROWTH"
					}
				}
			}
		}
		return s
	}
	isAvail := func(t *T) bool {
		a, b, ok := binOf(t, token.SUB)
		return ok && atomName(a) == IN && atomName(b) == OUT
	}
	shapes := map[string]int{}
	nSucc := 0
	for _, d := range paths {
		rd := returnDesc(d)
		if d.EndKind != "return" {
			c.Fail("G-chg", "Tx.change/loop-or-panic", fn.Pos(), "change has a path that does not return")
			continue
		}
		amount := d.Env.Term(d.Ret.Results[0])
		has := d.Env.Term(d.Ret.Results[1]).String()
		// calls that modify the transaction on this path
		var adds []*ssa.Call
		for _, ins := range pathInstrs(d) {
			if call, ok := ins.(*ssa.Call); ok {
				if sc := call.Call.StaticCallee(); sc != nil && sc.Name() == "AddOutput" {
					adds = append(adds, call)
				}
			}
		}
		if rd != "return nil" {
			// error paths: nothing added, (0,false)
			ok := len(adds) == 0 && amount.String() == "0" && has == "false"
			if !ok {
				c.Fail("G-chg", "Tx.change/error-path", d.Ret.Pos(), "an error return of change modifies the transaction or reports change")
			}
			shapes["error"]++
			continue
		}
		nSucc++
		// classify the path by its conditions
		var insufficient, mode, scriptNil string
		mode = "existing"
		hasOut, newOut := false, false
		var fees *T
		leFees, leDust, limit := "", "", false
		for _, pc := range d.Conds {
			s := atomName(pc.Cond)
			// comparisons in canonical form ("==" / "<"), so that x != nil and !(x == nil) read alike
			ca, flip := canonAtom(s)
			ct := pc.Truth != flip
			switch {
			case ca == "("+IN+" < "+OUT+")":
				insufficient = fmt.Sprint(ct)
			case ca == "(p2 == nil)":
				hasOut = !ct
			case s == "p2.newOutput":
				newOut = pc.Truth
			case ca == "(p2.lockingScript == nil)":
				scriptNil = fmt.Sprint(ct)
			case strings.Contains(ca, "UpperLimitInc") && strings.HasSuffix(ca, "== -1)"):
				limit = ct
			case ca == "(uint64((*bt.Tx).OutputCount(p0)) == 18446744073709551615)":
				// the same limit tested on the count itself (UpperLimitInc gives -1 exactly there: rule T-lim)
				limit = ct
			default:
				// every inequality is read as  a <= b  (or a < b) with the available-side operand on the left:
				// a > b is !(a <= b), a >= b is !(a < b), and with the operands swapped b >= a is a <= b
				// (available < fee guards the subtraction as well as <=: with the dust test that follows the
				// verdict at available == fee is the same, 0 <= dust)
				var a, b *T
				ok := false
				truth := pc.Truth
				strict := false
				if pc.Cond.K == "bin" {
					a, b = pc.Cond.Args[0], pc.Cond.Args[1]
					switch pc.Cond.Op {
					case token.LEQ:
						ok = true
					case token.LSS:
						ok, strict = true, true
					case token.GTR:
						ok, truth = true, !truth
					case token.GEQ:
						ok, strict, truth = true, true, !truth
					}
					availSide := func(t *T) bool {
						if isAvail(t) {
							return true
						}
						x, _, ok2 := binOf(t, token.SUB)
						return ok2 && isAvail(x)
					}
					if ok && !availSide(a) && availSide(b) {
						a, b = b, a
						strict, truth = !strict, !truth
					}
				}
				if ok {
					_ = strict
					if isAvail(a) {
						fees = b
						leFees = fmt.Sprint(truth)
					} else if x, y, ok2 := binOf(a, token.SUB); ok2 && isAvail(x) && b.String() == "1" && !strict {
						if fees != nil && canonTerm(y) == canonTerm(fees) {
							leDust = fmt.Sprint(truth)
						} else {
							leDust = "other-fee-term"
						}
					} else {
						c.Fail("G-chg", "Tx.change/unknown-condition", fn.Pos(), "change decides on a comparison outside its specification: "+shorten(s, 200))
					}
				} else if !strings.Contains(s, "!= nil") {
					c.Fail("G-chg", "Tx.change/unknown-condition", fn.Pos(), "change decides on a condition outside its specification: "+shorten(s, 200))
				}
			}
		}
		if hasOut && newOut {
			mode = "new"
		}
		if insufficient != "false" {
			c.Fail("G-chg", "Tx.change/available-guard", fn.Pos(), "a successful path of change is not guarded by IN >= OUT: available = IN - OUT could wrap")
			continue
		}
		if limit {
			// output count at the VarInt maximum: nothing to add
			ok := amount.String() == "0" && has == "false" && len(adds) == 0 && mode == "new"
			c.Check(ok, "G-chg", "Tx.change/count-limit", d.Ret.Pos(), "at the maximal output count no change is added", "the output-count limit branch modifies the transaction")
			shapes["limit"]++
			continue
		}
		if fees == nil {
			c.Fail("G-chg", "Tx.change/fee-term", fn.Pos(), "a successful path of change never compares available with the fee")
			continue
		}
		// fee structure
		s1, s2, ok := binOf(fees, token.ADD)
		var stdBytes, dataBytes *T
		if call, sizeArg := feesPaidTotal(fees); call != nil {
			// the fee priced by feesPaid (whose floor formula is rule G-fee) on the size object as it stands at
			// the call: the estimated sizes, with whatever this path added to them before
			if why := feesPaidFloorFormula(c); why != "" {
				c.Fail("G-chg", "Tx.change/fee-term/"+mode, fn.Pos(), "the fee is taken from feesPaid, "+why)
				continue
			}
			eff := map[string]*T{}
			for _, ins := range pathInstrs(d) {
				if ins == ssa.Instruction(call) {
					break
				}
				if st, isSt := ins.(*ssa.Store); isSt {
					if fa, isFa := st.Addr.(*ssa.FieldAddr); isFa && d.Env.Term(fa.X).String() == sizeArg.String() {
						eff[fieldName(fa.X.Type(), fa.Field)] = d.Env.Term(st.Val)
					}
				}
			}
			field := func(f string) *T {
				if t, ok := eff[f]; ok {
					return t
				}
				return &T{K: "field", Name: f, Args: []*T{sizeArg}}
			}
			stdBytes, dataBytes, ok = field("TotalStdBytes"), field("TotalDataBytes"), true
			s1, s2 = nil, nil
		} else if ok {
			var okS, okD bool
			if stdBytes, okS = feeProduct(s1, "standard"); okS {
				dataBytes, okD = feeProduct(s2, "data")
			} else if stdBytes, okS = feeProduct(s2, "standard"); okS {
				dataBytes, okD = feeProduct(s1, "data")
			}
			ok = okS && okD
		}
		if !ok {
			c.Fail("G-chg", "Tx.change/fee-term/"+mode, fn.Pos(), "the fee is not floor(bytes*sat/bytes) on the standard quote plus the same on the data quote: "+shorten(canonTerm(fees), 400))
			continue
		}
		cb := linOf(stdBytes, renameCB)
		stdAtom := SIZE + ".TotalStdBytes"
		if cb.Coef[stdAtom] == nil || cb.Coef[stdAtom].Int64() != 1 {
			c.Fail("G-chg", "Tx.change/std-bytes/"+mode, fn.Pos(), "the standard fee is not charged on the estimated standard bytes")
			continue
		}
		delete(cb.Coef, stdAtom)
		wantCB := "0"
		if mode == "new" {
			wantCB = "GROWTH +L +PREFIX(L) +8"
			if scriptNil == "true" {
				wantCB = "GROWTH +PREFIX(0) +8"
			}
		}
		okCB := cb.String() == wantCB
		okData := atomName(dataBytes) == SIZE+".TotalDataBytes"
		// decision and result
		var verdict string
		switch {
		case leFees == "true":
			verdict = "no-change (available <= fee)"
		case leFees == "false" && leDust == "true":
			verdict = "no-change (dust)"
		case leFees == "false" && leDust == "false":
			verdict = "change"
		default:
			verdict = "?" + leFees + "/" + leDust
		}
		okRes := false
		switch verdict {
		case "change":
			a, b, isSub := binOf(amount, token.SUB)
			okRes = isSub && isAvail(a) && canonTerm(b) == canonTerm(fees) && has == "true"
			if mode == "new" {
				okRes = okRes && len(adds) == 1 && addOutputMatches(d, adds[0], amount)
			} else {
				okRes = okRes && len(adds) == 0
			}
		case "no-change (available <= fee)", "no-change (dust)":
			okRes = amount.String() == "0" && has == "false" && len(adds) == 0
		}
		key := mode + "/" + verdict
		if scriptNil == "true" {
			key += "/nil-script"
		}
		shapes[key]++
		c.Check(okCB, "G-chg", "Tx.change/"+key+"/new-output-bytes", fn.Pos(), "bytes charged beyond the estimate: "+wantCB, fmt.Sprintf("in %s mode the fee is charged on estimated standard bytes + (%s); the bytes a change output really adds are %s", mode, cb.String(), wantCB))
		c.Check(okData, "G-chg", "Tx.change/"+key+"/data-bytes", fn.Pos(), "data fee charged on the estimated data bytes", "the data fee is not charged on the estimated data bytes")
		c.Check(okRes, "G-chg", "Tx.change/"+key+"/result", fn.Pos(), "result and effect: "+verdict, fmt.Sprintf("on the %s path change returns (%s, %s) with %d output(s) added: not what the verdict requires", key, shorten(canonTerm(amount), 120), has, len(adds)))
	}
	var ks []string
	for k, n := range shapes {
		ks = append(ks, fmt.Sprintf("%s x%d", k, n))
	}
	sort.Strings(ks)
	c.Covered["G-chg:success_paths"] = nSucc
	want := []string{"existing/change", "existing/no-change (available <= fee)", "existing/no-change (dust)", "new/change", "new/no-change (available <= fee)", "new/no-change (dust)", "limit", "error"}
	for _, w := range want {
		c.Check(shapes[w] > 0, "G-chg", "Tx.change/has/"+w, fn.Pos(), "path class present: "+w, "change no longer has the path class "+w+" (present: "+strings.Join(ks, ", ")+")")
	}
}

// addOutputMatches: AddOutput(&Output{Satoshis: amount, LockingScript: p2.lockingScript}).
func addOutputMatches(d *DPath, call *ssa.Call, amount *T) bool {
	if len(call.Call.Args) != 2 {
		return false
	}
	al, ok := call.Call.Args[1].(*ssa.Alloc)
	if !ok {
		return false
	}
	got := map[string]string{}
	for _, ins := range pathInstrs(d) {
		if st, ok := ins.(*ssa.Store); ok {
			if fa, ok := st.Addr.(*ssa.FieldAddr); ok && fa.X == ssa.Value(al) {
				got[fieldName(fa.X.Type(), fa.Field)] = canonTerm(d.Env.Term(st.Val))
			}
		}
	}
	return len(got) == 2 && got["Satoshis"] == canonTerm(amount) && got["LockingScript"] == "p2.lockingScript"
}

func ruleSChgWrappers(c *Ctx) {
	// ChangeToExistingOutput
	if fn := c.P.Func("", "*Tx", "ChangeToExistingOutput"); fn != nil {
		paths, err := feasiblePaths(fn, 500)
		if err != nil {
			c.Undecided("S-chg", "Tx.ChangeToExistingOutput", fn.Pos(), err.Error())
		} else {
			got := map[string]bool{}
			for _, d := range paths {
				var ev []string
				for _, pc := range d.Conds {
					s := atomName(pc.Cond)
					if strings.Contains(s, "OutputCount") {
						if n, ok := cmpNorm(pc.Cond, pc.Truth, func(a string) string {
							a = strings.ReplaceAll(a, "(*bt.Tx).OutputCount(p0)", "N")
							return strings.ReplaceAll(a, "int(p1)", "IDX")
						}); ok {
							ev = append(ev, "["+n+"]")
						}
					}
				}
				for _, ins := range pathInstrs(d) {
					switch x := ins.(type) {
					case *ssa.Call:
						if sc := x.Call.StaticCallee(); sc != nil && sc.Name() == "change" {
							ev = append(ev, "change("+atomName(d.Env.Term(x.Call.Args[1]))+", "+atomName(d.Env.Term(x.Call.Args[2]))+")")
						}
					case *ssa.Store:
						ev = append(ev, canonTerm(d.Env.Term(x.Addr))+" := "+canonTerm(d.Env.Term(x.Val)))
					}
				}
				for _, pc := range d.Conds {
					if strings.HasSuffix(atomName(pc.Cond), "#1") {
						ev = append(ev, fmt.Sprintf("hasChange=%v", pc.Truth))
					}
				}
				ev = append(ev, returnDesc(d))
				got[strings.Join(ev, "; ")] = true
			}
			chg := "(*bt.Tx).change(p0, p2, nil)"
			want := setOf(
				"[IDX -N >= 0]; return ErrOutputNoExist",
				"[-IDX +N -1 >= 0]; change(p2, nil); return err",
				"[-IDX +N -1 >= 0]; change(p2, nil); hasChange=false; return nil",
				"[-IDX +N -1 >= 0]; change(p2, nil); &p0.Outputs[p1].Satoshis := ("+chg+"#0 + p0.Outputs[p1].Satoshis); hasChange=true; return nil",
			)
			same := len(got) == len(want)
			for k := range got {
				if !want[k] {
					same = false
				}
			}
			c.Check(same, "S-chg", "Tx.ChangeToExistingOutput", fn.Pos(), "index checked first; the amount is added to exactly Outputs[index] and only when change is due",
				fmt.Sprintf("ChangeToExistingOutput changed: {%s}, specified {%s}", strings.Join(keysSorted(got), " | "), strings.Join(keysSorted(want), " | ")))
		}
	} else {
		c.Undecided("S-chg", "Tx.ChangeToExistingOutput", token.NoPos, "not found")
	}
	// Change: new output with the given script
	if fn := c.P.Func("", "*Tx", "Change"); fn != nil {
		ok := false
		for _, b := range fn.Blocks {
			for _, ins := range b.Instrs {
				if call, isC := ins.(*ssa.Call); isC {
					if sc := call.Call.StaticCallee(); sc != nil && sc.Name() == "change" && call.Call.Args[0] == ssa.Value(fn.Params[0]) && call.Call.Args[1] == ssa.Value(fn.Params[2]) {
						if al, isA := call.Call.Args[2].(*ssa.Alloc); isA {
							got := map[string]string{}
							for _, b2 := range fn.Blocks {
								for _, i2 := range b2.Instrs {
									if st, isS := i2.(*ssa.Store); isS {
										if fa, isF := st.Addr.(*ssa.FieldAddr); isF && fa.X == ssa.Value(al) {
											got[fieldName(fa.X.Type(), fa.Field)] = newTermEnv().Term(st.Val).String()
										}
									}
								}
							}
							ok = len(got) == 2 && got["lockingScript"] == "p1" && got["newOutput"] == "true"
						}
					}
				}
			}
		}
		c.Check(ok, "S-chg", "Tx.Change", fn.Pos(), "requests a new output carrying the given script, with the given quote", "Change no longer requests a new output with the caller's script and quote")
	}
	if fn := c.P.Func("", "*Tx", "ChangeToAddress"); fn != nil {
		paths, err := feasiblePaths(fn, 100)
		ok := err == nil
		got := map[string]bool{}
		for _, d := range paths {
			var ev []string
			for _, ins := range pathInstrs(d) {
				if call, isC := ins.(*ssa.Call); isC {
					if sc := call.Call.StaticCallee(); sc != nil {
						var as []string
						for _, a := range call.Call.Args {
							as = append(as, atomName(d.Env.Term(a)))
						}
						ev = append(ev, sc.Name()+"("+strings.Join(as, ", ")+")")
					}
				}
			}
			got[strings.Join(ev, "; ")+"; "+returnDesc(d)] = true
		}
		want := setOf("NewP2PKHFromAddress(p1); return err", "NewP2PKHFromAddress(p1); Change(p0, bscript.NewP2PKHFromAddress(p1)#0, p2); return err")
		for k := range got {
			if !want[k] {
				ok = false
			}
		}
		c.Check(ok && len(got) == 2, "S-chg", "Tx.ChangeToAddress", fn.Pos(), "builds the P2PKH script of the address (error returned) and delegates to Change", "ChangeToAddress changed: "+strings.Join(keysSorted(got), " | "))
	}
	// O-pure
	oCommon(c, oEngine(c), "O-pure")
	rulePureParam(c, "O-pure", "", "*Tx", "change", 0, func(w *OWrite) (bool, string) {
		if (w.Path == ".Outputs" || w.Path == ".Outputs[*]") && strings.Contains(w.Via+w.Site, "AddOutput") {
			return true, "the new change output is appended"
		}
		return false, ""
	})
	rulePureParam(c, "O-pure", "", "*Tx", "ChangeToExistingOutput", 0, func(w *OWrite) (bool, string) {
		if (w.Path == ".Outputs" || w.Path == ".Outputs[*]") && strings.Contains(w.Via+w.Site, "AddOutput") {
			return true, "unreachable in this mode (output == nil), summarised through change"
		}
		if w.Path == ".Outputs[*].Satoshis" && strings.Contains(w.Site, "ChangeToExistingOutput") {
			return true, "the designated output's amount"
		}
		return false, ""
	})
}
