package main

// Engine T-lit: constant tables evaluated from the type-checked syntax.

import (
	"fmt"
	"go/ast"
	"go/constant"
	"go/token"
	"go/types"
	"math/big"
	"sort"
	"strings"

	"golang.org/x/tools/go/packages"
	"golang.org/x/tools/go/ssa"
)

type opEntry struct {
	key    int64
	val    int64
	name   string
	length int64
	exec   types.Object
	pos    token.Pos
}

func findVarLit(pk *packages.Package, name string) (*ast.CompositeLit, token.Pos) {
	for _, f := range pk.Syntax {
		for _, d := range f.Decls {
			gd, ok := d.(*ast.GenDecl)
			if !ok || gd.Tok != token.VAR {
				continue
			}
			for _, s := range gd.Specs {
				vs := s.(*ast.ValueSpec)
				for i, n := range vs.Names {
					if n.Name == name && i < len(vs.Values) {
						if cl, ok := vs.Values[i].(*ast.CompositeLit); ok {
							return cl, n.Pos()
						}
					}
				}
			}
		}
	}
	return nil, token.NoPos
}

func constOf(pk *packages.Package, e ast.Expr) (constant.Value, bool) {
	tv, ok := pk.TypesInfo.Types[e]
	if !ok || tv.Value == nil {
		return nil, false
	}
	return tv.Value, true
}

func constInt64(pk *packages.Package, e ast.Expr) (int64, bool) {
	v, ok := constOf(pk, e)
	if !ok {
		return 0, false
	}
	i, ok := constant.Int64Val(constant.ToInt(v))
	return i, ok
}

func funcObjOf(pk *packages.Package, e ast.Expr) types.Object {
	switch x := e.(type) {
	case *ast.Ident:
		return pk.TypesInfo.Uses[x]
	case *ast.SelectorExpr:
		return pk.TypesInfo.Uses[x.Sel]
	}
	return nil
}

// readOpcodeArray evaluates interpreter.opcodeArray.
func readOpcodeArray(c *Ctx, rule string) ([]opEntry, bool) {
	pk := c.P.Pkgs[modPath+"/bscript/interpreter"]
	cl, pos := findVarLit(pk, "opcodeArray")
	if cl == nil {
		c.Undecided(rule, "opcodeArray", token.NoPos, "package-level composite literal opcodeArray not found")
		return nil, false
	}
	st, _ := pk.Types.Scope().Lookup("opcode").Type().Underlying().(*types.Struct)
	fidx := map[string]int{}
	for i := 0; st != nil && i < st.NumFields(); i++ {
		fidx[st.Field(i).Name()] = i
	}
	for _, need := range []string{"val", "name", "length", "exec"} {
		if _, ok := fidx[need]; !ok {
			c.Undecided(rule, "opcode-struct", pos, "struct opcode lacks field "+need)
			return nil, false
		}
	}
	var out []opEntry
	next := int64(0)
	for _, el := range cl.Elts {
		var e opEntry
		val := el
		if kv, ok := el.(*ast.KeyValueExpr); ok {
			k, ok := constInt64(pk, kv.Key)
			if !ok {
				c.Undecided(rule, "opcodeArray/key", kv.Pos(), "non-constant key")
				return nil, false
			}
			next = k
			val = kv.Value
		}
		e.key = next
		next++
		e.pos = val.Pos()
		lit, ok := val.(*ast.CompositeLit)
		if !ok {
			c.Undecided(rule, fmt.Sprintf("opcodeArray[%d]", e.key), val.Pos(), "entry is not a composite literal")
			return nil, false
		}
		fields := map[string]ast.Expr{}
		for i, fe := range lit.Elts {
			if kv, ok := fe.(*ast.KeyValueExpr); ok {
				fields[kv.Key.(*ast.Ident).Name] = kv.Value
			} else if st != nil && i < st.NumFields() {
				fields[st.Field(i).Name()] = fe
			}
		}
		e.val, e.length = -1, 0
		if x, ok := fields["val"]; ok {
			if v, ok := constInt64(pk, x); ok {
				e.val = v
			}
		} else {
			e.val = 0
		}
		if x, ok := fields["length"]; ok {
			if v, ok := constInt64(pk, x); ok {
				e.length = v
			} else {
				e.length = -999
			}
		}
		if x, ok := fields["name"]; ok {
			if v, ok := constOf(pk, x); ok && v.Kind() == constant.String {
				e.name = constant.StringVal(v)
			}
		}
		if x, ok := fields["exec"]; ok {
			if o := funcObjOf(pk, x); o != nil {
				if _, isf := o.(*types.Func); isf {
					e.exec = o
				}
			}
		}
		out = append(out, e)
	}
	return out, true
}

// T-op1..3
func ruleTOp(c *Ctx) {
	ents, ok := readOpcodeArray(c, "T-op1")
	if !ok {
		return
	}
	c.MinInstances("T-op1", len(ents), 256)
	seen := map[int64]bool{}
	names := map[string]int64{}
	for _, e := range ents {
		k := fmt.Sprintf("opcodeArray[0x%02x]", e.key)
		good := true
		if seen[e.key] || e.key < 0 || e.key > 255 {
			c.Fail("T-op1", k+"/key", e.pos, "duplicate or out-of-range key")
			good = false
		}
		seen[e.key] = true
		if e.val != e.key {
			c.Fail("T-op1", k+"/val", e.pos, fmt.Sprintf("val %d differs from index %d: dispatch by index would run a handler that believes it is another opcode", e.val, e.key))
			good = false
		}
		if e.exec == nil {
			c.Fail("T-op1", k+"/exec", e.pos, "exec is not a resolved function (nil handler would be called by executeOpcode)")
			good = false
		}
		if e.name == "" {
			c.Fail("T-op1", k+"/name", e.pos, "empty name")
			good = false
		} else if prev, dup := names[e.name]; dup {
			c.Fail("T-op1", k+"/name-unique", e.pos, fmt.Sprintf("name %s also used by 0x%02x", e.name, prev))
			good = false
		}
		names[e.name] = e.key
		if good {
			c.OK("T-op1", k, e.pos, fmt.Sprintf("val=index, exec=%s, name=%s", e.exec.Name(), e.name))
		}
		// T-op2/3: length classes (protocol table)
		want := int64(1)
		switch {
		case e.key >= 1 && e.key <= 75:
			want = e.key + 1
		case e.key == 0x4c:
			want = -1
		case e.key == 0x4d:
			want = -2
		case e.key == 0x4e:
			want = -4
		}
		c.Check(e.length == want, "T-op2", k+"/length", e.pos, fmt.Sprintf("length=%d", e.length),
			fmt.Sprintf("length %d, protocol push table requires %d", e.length, want))
		c.Check(e.length != 0, "T-op3", k+"/length-nonzero", e.pos, "non-zero", "length 0: Parse would not advance (termination premise)")
	}
	for i := int64(0); i < 256; i++ {
		if !seen[i] {
			c.Fail("T-op1", fmt.Sprintf("opcodeArray[0x%02x]/missing", i), token.NoPos, "no table entry: zero opcode{} with nil exec")
		}
	}
	// handler classes by protocol: push opcodes bound to push handlers
	byName := func(lo, hi int64, handler string, rule string) {
		for _, e := range ents {
			if e.key >= lo && e.key <= hi {
				got := ""
				if e.exec != nil {
					got = e.exec.Name()
				}
				c.Check(got == handler, rule, fmt.Sprintf("opcodeArray[0x%02x]/handler", e.key), e.pos, "handler "+got,
					fmt.Sprintf("handler %s, expected %s for this opcode class", got, handler))
			}
		}
	}
	byName(1, 75, "opcodePushData", "T-op2")
	byName(0x4c, 0x4e, "opcodePushData", "T-op2")
	byName(0x51, 0x60, "opcodeN", "T-op2")
	byName(0, 0, "opcodeFalse", "T-op2")
	byName(0x4f, 0x4f, "opcode1Negate", "T-op2")
}

// handler-name agreement: each named opcode is bound to its own handler.
// The expected binding is derived from the opcode's constant name in bscript
// (OpADD -> opcodeAdd): sibling agreement between the two packages' tables.
func ruleTOpHandlers(c *Ctx) {
	ents, ok := readOpcodeArray(c, "T-op5")
	if !ok {
		return
	}
	// shared handlers confirmed by reading: name -> handler
	shared := map[string]string{
		"OP_RESERVED": "opcodeReserved", "OP_VER": "opcodeReserved", "OP_RESERVED1": "opcodeReserved", "OP_RESERVED2": "opcodeReserved",
		"OP_VERIF": "opcodeVerConditional", "OP_VERNOTIF": "opcodeVerConditional",
		"OP_2MUL": "opcodeDisabled", "OP_2DIV": "opcodeDisabled",
		"OP_NOP": "opcodeNop", "OP_TRUE": "opcodeN", "OP_1": "opcodeN", "OP_0": "opcodeFalse", "OP_1NEGATE": "opcode1Negate",
		"OP_CHECKLOCKTIMEVERIFY": "opcodeCheckLockTimeVerify", "OP_CHECKSEQUENCEVERIFY": "opcodeCheckSequenceVerify",
	}
	norm := func(s string) string { return strings.ToLower(strings.ReplaceAll(s, "_", "")) }
	n := 0
	for _, e := range ents {
		if e.exec == nil || e.key <= 0x60 && e.key != 0x50 {
			continue
		}
		k := fmt.Sprintf("opcodeArray[0x%02x]/own-handler", e.key)
		h := e.exec.Name()
		if w, ok := shared[e.name]; ok {
			n++
			c.Check(h == w, "T-op5", k, e.pos, e.name+" -> "+h, fmt.Sprintf("%s is bound to %s, expected %s", e.name, h, w))
			continue
		}
		if strings.HasPrefix(e.name, "OP_NOP") {
			n++
			c.Check(h == "opcodeNop", "T-op5", k, e.pos, e.name+" -> "+h, fmt.Sprintf("%s is bound to %s, expected opcodeNop", e.name, h))
			continue
		}
		if strings.HasPrefix(e.name, "OP_UNKNOWN") || h == "opcodeInvalid" {
			n++
			c.Check(h == "opcodeInvalid" && e.key >= 0xba, "T-op5", k, e.pos, e.name+" -> "+h, fmt.Sprintf("%s (0x%02x) is bound to %s; only opcodes above OP_NOP10 are invalid", e.name, e.key, h))
			continue
		}
		// generic: OP_FOO_BAR -> opcodeFooBar (case-insensitive, underscores dropped)
		n++
		want := "opcode" + norm(strings.TrimPrefix(e.name, "OP_"))
		c.Check(strings.ToLower(h) == want, "T-op5", k, e.pos, e.name+" -> "+h,
			fmt.Sprintf("%s (0x%02x) is bound to handler %s; every other opcode is bound to the handler named after it (expected %s)", e.name, e.key, h, want))
	}
	c.MinInstances("T-op5", n, 150)
}

func readByteMapLit(c *Ctx, rule, varName string, keyIsString bool) (map[string]int64, map[int64]string, token.Pos, bool) {
	pk := c.P.Pkgs[modPath+"/bscript"]
	cl, pos := findVarLit(pk, varName)
	if cl == nil {
		c.Undecided(rule, varName, token.NoPos, "table not found")
		return nil, nil, pos, false
	}
	s2b := map[string]int64{}
	b2s := map[int64]string{}
	for _, el := range cl.Elts {
		kv, ok := el.(*ast.KeyValueExpr)
		if !ok {
			c.Undecided(rule, varName, el.Pos(), "non key-value element")
			return nil, nil, pos, false
		}
		ks, vs := kv.Key, kv.Value
		if !keyIsString {
			ks, vs = vs, ks
		}
		sv, ok1 := constOf(pk, ks)
		bv, ok2 := constInt64(pk, vs)
		if !ok1 || !ok2 || sv.Kind() != constant.String {
			c.Undecided(rule, varName, el.Pos(), "non-constant element")
			return nil, nil, pos, false
		}
		s2b[constant.StringVal(sv)] = bv
		b2s[bv] = constant.StringVal(sv)
	}
	return s2b, b2s, pos, true
}

// T-nm: name tables are mutually inverse and total.
func ruleTNm(c *Ctx) {
	s2b, _, pos1, ok1 := readByteMapLit(c, "T-nm", "opCodeStrings", true)
	_, b2s, pos2, ok2 := readByteMapLit(c, "T-nm", "opCodeValues", false)
	if !ok1 || !ok2 {
		return
	}
	n := 0
	for b := int64(0); b < 256; b++ {
		k := fmt.Sprintf("opCodeValues[0x%02x]", b)
		name, ok := b2s[b]
		if !ok {
			c.Fail("T-nm", k, pos2, "no name for this opcode byte: ToASM would render an empty token")
			continue
		}
		back, ok := s2b[name]
		n++
		c.Check(ok && back == b, "T-nm", k, pos1, fmt.Sprintf("%s <-> 0x%02x", name, b),
			fmt.Sprintf("opCodeValues gives %q but opCodeStrings[%q] = %v (present=%v): ASM round trip changes the byte", name, name, back, ok))
	}
	// every string maps to a byte whose canonical name maps back to the same byte (aliases allowed)
	var names []string
	for s := range s2b {
		names = append(names, s)
	}
	sort.Strings(names)
	for _, s := range names {
		b := s2b[s]
		canon := b2s[b]
		c.Check(s2b[canon] == b, "T-nm", "opCodeStrings/"+s, pos1, "alias consistent", "alias maps to byte whose canonical name maps elsewhere")
	}
	c.MinInstances("T-nm", n, 256)
	// the interpreter's own names agree with bscript's on the byte they denote
	ents, ok := readOpcodeArray(c, "T-nm")
	if ok {
		for _, e := range ents {
			if b, found := s2b[e.name]; found {
				c.Check(b == e.key, "T-nm", fmt.Sprintf("interp-name/0x%02x", e.key), e.pos, "interpreter name agrees with bscript name table",
					fmt.Sprintf("interpreter calls 0x%02x %s but bscript maps %s to 0x%02x", e.key, e.name, e.name, b))
			}
		}
	}
}

// T-cfg: era limits equal the protocol table.
func ruleTCfg(c *Ctx) {
	want := map[string]map[string]string{
		"beforeGenesisConfig": {"AfterGenesis": "false", "MaxOps": "500", "MaxStackSize": "1000", "MaxScriptSize": "10000",
			"MaxScriptElementSize": "520", "MaxScriptNumberLength": "4", "MaxPubKeysPerMultiSig": "20"},
		"afterGenesisConfig": {"AfterGenesis": "true", "MaxOps": "2147483647", "MaxStackSize": "2147483647", "MaxScriptSize": "2147483647",
			"MaxScriptElementSize": "2147483647", "MaxScriptNumberLength": "750000", "MaxPubKeysPerMultiSig": "2147483647"},
	}
	n := 0
	for _, tn := range []string{"beforeGenesisConfig", "afterGenesisConfig"} {
		var ms []string
		for m := range want[tn] {
			ms = append(ms, m)
		}
		sort.Strings(ms)
		for _, m := range ms {
			fn := c.P.Func("bscript/interpreter", "*"+tn, m)
			k := tn + "." + m
			if fn == nil {
				c.Undecided("T-cfg", k, token.NoPos, "method not found")
				continue
			}
			got, ok := singleConstReturn(fn)
			if !ok {
				c.Undecided("T-cfg", k, fn.Pos(), "method is not a single constant return")
				continue
			}
			n++
			c.Check(got == want[tn][m], "T-cfg", k, fn.Pos(), "returns "+got, fmt.Sprintf("returns %s, BSV era table says %s", got, want[tn][m]))
		}
	}
	c.MinInstances("T-cfg", n, 14)
	// createThread picks the config by the UTXOAfterGenesis flag: checked in ruleGCond
}

func singleConstReturn(fn *ssa.Function) (string, bool) {
	if len(fn.Blocks) != 1 {
		return "", false
	}
	for _, in := range fn.Blocks[0].Instrs {
		switch x := in.(type) {
		case *ssa.Return:
			if len(x.Results) != 1 {
				return "", false
			}
			cst, ok := x.Results[0].(*ssa.Const)
			if !ok || cst.Value == nil {
				return "", false
			}
			return cst.Value.ExactString(), true
		case *ssa.DebugRef:
		default:
			return "", false
		}
	}
	return "", false
}

// switchCaseSet: for a method of shape "switch <tag> { case A,B: return true; default: return false }"
// (or any if/switch equivalent) over ONE scalar term, return the set of byte
// values for which it returns true. Done through T-dec so that if- and switch-
// forms are the same thing.
func byteSetOf(c *Ctx, rule string, fn *ssa.Function) (map[int64]bool, bool) {
	if fn == nil {
		c.Undecided(rule, "function", token.NoPos, "predicate not found")
		return nil, false
	}
	paths, err := enumPaths(fn.Blocks[0], nil, nil, 4096)
	if err != nil {
		c.Undecided(rule, funcName(fn), fn.Pos(), "cannot enumerate paths: "+err.Error())
		return nil, false
	}
	bases := map[string]*T{}
	for _, p := range paths {
		for _, cd := range p.Conds {
			baseTerms(cd.Cond, bases)
		}
		// a result read from a constant table depends on the table's key
		if p.Ret != nil && len(p.Ret.Results) == 1 {
			if rt := p.Env.Term(p.Ret.Results[0]); rt.K != "const" {
				baseTerms(rt, bases)
			}
		}
	}
	if len(bases) != 1 {
		var bs []string
		for b := range bases {
			bs = append(bs, b)
		}
		c.Undecided(rule, funcName(fn), fn.Pos(), fmt.Sprintf("predicate depends on %d terms %v, expected one byte", len(bases), bs))
		return nil, false
	}
	var base string
	for b := range bases {
		base = b
	}
	out := map[int64]bool{}
	for v := int64(0); v < 256; v++ {
		asg := map[string]*big.Int{base: big.NewInt(v)}
		hits := 0
		for _, p := range paths {
			ok, err := pathHolds(p, asg)
			if err != nil {
				c.Undecided(rule, funcName(fn), fn.Pos(), err.Error())
				return nil, false
			}
			if !ok {
				continue
			}
			hits++
			if p.Ret == nil || len(p.Ret.Results) != 1 {
				c.Undecided(rule, funcName(fn), fn.Pos(), "path does not return one value")
				return nil, false
			}
			rt := p.Env.Term(p.Ret.Results[0])
			if rt.K == "const" && rt.C != nil && rt.C.Kind() == constant.Bool {
				if constant.BoolVal(rt.C) {
					out[v] = true
				}
				continue
			}
			rv, okv := evalTerm(rt, asg)
			if !okv {
				c.Undecided(rule, funcName(fn), fn.Pos(), "non-constant boolean result "+rt.String())
				return nil, false
			}
			if rv.Sign() != 0 {
				out[v] = true
			}
		}
		if hits != 1 {
			c.Undecided(rule, funcName(fn), fn.Pos(), fmt.Sprintf("%d paths for value %d", hits, v))
			return nil, false
		}
	}
	return out, true
}

func setStr(m map[int64]bool) string {
	var ks []int
	for k, v := range m {
		if v {
			ks = append(ks, int(k))
		}
	}
	sort.Ints(ks)
	var s []string
	for _, k := range ks {
		s = append(s, fmt.Sprintf("0x%02x", k))
	}
	return "{" + strings.Join(s, ",") + "}"
}

// T-op4: sibling predicate sets agree with the table.
func ruleTOp4(c *Ctx) {
	ents, ok := readOpcodeArray(c, "T-op4")
	if !ok {
		return
	}
	handlerSet := func(names ...string) map[int64]bool {
		out := map[int64]bool{}
		for _, e := range ents {
			if e.exec == nil {
				continue
			}
			for _, n := range names {
				if e.exec.Name() == n {
					out[e.key] = true
				}
			}
		}
		return out
	}
	pred := func(name string) (map[int64]bool, *ssa.Function, bool) {
		fn := c.P.Func("bscript/interpreter", "*ParsedOpcode", name)
		s, ok := byteSetOf(c, "T-op4", fn)
		return s, fn, ok
	}
	if s, fn, ok := pred("IsDisabled"); ok {
		w := handlerSet("opcodeDisabled")
		c.Check(setStr(s) == setStr(w), "T-op4", "IsDisabled==table", fn.Pos(), "IsDisabled "+setStr(s)+" = opcodes bound to opcodeDisabled",
			fmt.Sprintf("IsDisabled is true for %s but the table binds %s to opcodeDisabled: a disabled opcode would be skipped in a non-executing branch or an enabled one rejected", setStr(s), setStr(w)))
	}
	if s, fn, ok := pred("AlwaysIllegal"); ok {
		w := handlerSet("opcodeVerConditional")
		c.Check(setStr(s) == setStr(w), "T-op4", "AlwaysIllegal==table", fn.Pos(), "AlwaysIllegal "+setStr(s)+" = opcodes bound to opcodeVerConditional",
			fmt.Sprintf("AlwaysIllegal %s vs table %s", setStr(s), setStr(w)))
	}
	if s, fn, ok := pred("IsConditional"); ok {
		w := handlerSet("opcodeIf", "opcodeNotIf", "opcodeElse", "opcodeEndif", "opcodeVerConditional")
		c.Check(setStr(s) == setStr(w), "T-op4", "IsConditional==table", fn.Pos(), "IsConditional "+setStr(s)+" = conditional handlers",
			fmt.Sprintf("IsConditional %s vs handlers %s: a conditional opcode skipped while not executing (or a normal opcode run in a dead branch)", setStr(s), setStr(w)))
		// spec: exactly IF NOTIF VERIF VERNOTIF ELSE ENDIF
		spec := map[int64]bool{0x63: true, 0x64: true, 0x65: true, 0x66: true, 0x67: true, 0x68: true}
		c.Check(setStr(s) == setStr(spec), "T-op4", "IsConditional==spec", fn.Pos(), "equals protocol set", "IsConditional "+setStr(s)+" differs from protocol set "+setStr(spec))
	}
}

// T-op4/RequiresTx: handlers that read the transaction context are gated by the parser.
func ruleTRequiresTx(c *Ctx) {
	ents, ok := readOpcodeArray(c, "T-op4")
	if !ok {
		return
	}
	pred := func(name string) (map[int64]bool, *ssa.Function, bool) {
		fn := c.P.Func("bscript/interpreter", "*ParsedOpcode", name)
		s, ok := byteSetOf(c, "T-op4", fn)
		return s, fn, ok
	}
	// RequiresTx ⊇ opcodes whose handler transitively touches thread.tx / thread.prevOutput
	if s, fn, ok := pred("RequiresTx"); ok {
		touch := handlersTouchingTx(c)
		for _, e := range ents {
			if e.exec == nil {
				continue
			}
			if touch[e.exec.Name()] {
				c.Check(s[e.key], "T-op4", fmt.Sprintf("RequiresTx/0x%02x/%s", e.key, e.exec.Name()), fn.Pos(),
					"handler reads the transaction context and the opcode is gated by RequiresTx",
					fmt.Sprintf("handler %s (opcode 0x%02x %s) reads thread.tx/thread.prevOutput but RequiresTx() is false for it: executing scripts without a transaction reaches a nil dereference", e.exec.Name(), e.key, e.name))
			}
		}
		c.Covered["handlers_touching_tx"] = len(touch)
		if len(touch) < 4 {
			c.Undecided("T-op4", "RequiresTx/min-instances", fn.Pos(), "fewer than 4 handlers found that read the transaction context")
		}
	}
}

// handlersTouchingTx: names of functions in package interpreter that, transitively
// through static calls inside the package, load thread.tx or thread.prevOutput.
func handlersTouchingTx(c *Ctx) map[string]bool {
	sp := c.P.SSAPkg(modPath + "/bscript/interpreter")
	direct := map[*ssa.Function]bool{}
	calls := map[*ssa.Function][]*ssa.Function{}
	var fns []*ssa.Function
	for _, m := range sp.Members {
		if f, ok := m.(*ssa.Function); ok {
			fns = append(fns, f)
		}
	}
	// methods
	for _, m := range sp.Members {
		if t, ok := m.(*ssa.Type); ok {
			for _, typ := range []types.Type{t.Type(), types.NewPointer(t.Type())} {
				ms := c.P.SSA.MethodSets.MethodSet(typ)
				for i := 0; i < ms.Len(); i++ {
					if f := c.P.SSA.MethodValue(ms.At(i)); f != nil && f.Pkg == sp {
						fns = append(fns, f)
					}
				}
			}
		}
	}
	for _, f := range fns {
		for _, b := range f.Blocks {
			for _, in := range b.Instrs {
				if fa, ok := in.(*ssa.FieldAddr); ok {
					if isNamedPtr(fa.X.Type(), "thread") {
						n := fieldName(fa.X.Type(), fa.Field)
						if n == "tx" || n == "prevOutput" {
							// only loads that are dereferenced matter, but any read is conservative
							direct[f] = true
						}
					}
				}
				if ci, ok := in.(ssa.CallInstruction); ok {
					if sc := ci.Common().StaticCallee(); sc != nil && sc.Pkg == sp {
						calls[f] = append(calls[f], sc)
					}
				}
			}
		}
	}
	// exclude the set-up functions that legitimately handle nil (apply/createThread are not handlers)
	reach := map[*ssa.Function]bool{}
	var visit func(f *ssa.Function, seen map[*ssa.Function]bool) bool
	visit = func(f *ssa.Function, seen map[*ssa.Function]bool) bool {
		if direct[f] {
			return true
		}
		if seen[f] {
			return false
		}
		seen[f] = true
		for _, g := range calls[f] {
			if visit(g, seen) {
				return true
			}
		}
		return false
	}
	out := map[string]bool{}
	for _, f := range fns {
		if f.Signature.Recv() == nil && strings.HasPrefix(f.Name(), "opcode") {
			if visit(f, map[*ssa.Function]bool{}) {
				reach[f] = true
				out[f.Name()] = true
			}
		}
	}
	return out
}

func isNamedPtr(t types.Type, name string) bool {
	if p, ok := t.Underlying().(*types.Pointer); ok {
		if n, ok := p.Elem().(*types.Named); ok {
			return n.Obj().Name() == name
		}
	}
	return false
}
