package main

// P-nilsrc: discovery pass for the nilable-sources table. Every composite
// literal (and new(T)) of a struct type in analysed packages that leaves a
// reference-typed field unset makes that field nilable for values built by the
// library. Each such (type, field) must either be in the nilable table (engine P
// then demands a guard before every dereference) or be covered by a confirmed
// reason why it is assigned before use. A new construction site that omits a
// field known to neither list fails the check instead of being silently assumed
// non-nil.

import (
	"fmt"
	"go/ast"
	"go/token"
	"go/types"
	"sort"
)

// fields that are omitted in some literal but assigned before any use, with the reason.
var initialisedLater = map[string]string{
	"thread.debug":           "assigned in apply before execute()",
	"thread.state":           "assigned in apply before execute()",
	"thread.elseStack":       "assigned in apply before execute()",
	"thread.scripts":         "slice; nil is a valid empty slice",
	"thread.condStack":       "slice",
	"thread.savedFirstStack": "slice",
	"thread.dstack":          "struct value",
	"stack.stk":              "slice",
	"stack.debug":            "newStack and the elseStack literals set it",
	"stack.sh":               "newStack and the elseStack literals set it",
	"Tx.Inputs":              "slice",
	"Tx.Outputs":             "slice",
	"Output.LockingScript":   "Tx.Clone sets it right after the literal unless the source output has none; outputs built by the library API always carry a script",
	"Input.previousTxID":     "slice",
	"State.DataStack":        "slice", "State.AltStack": "slice", "State.ElseStack": "slice", "State.CondStack": "slice",
	"State.SavedFirstStack": "slice", "State.Scripts": "slice",
	"ParsedOpcode.Data": "slice", "ParsedOpcode.op": "struct value",
	"opcode.exec":            "only the two 'Unformatted Data' literals in Parse omit exec; they follow a top-level OP_RETURN and are never executed (executeOpcode returns before pop.op.exec when !exec && !IsConditional)",
	"scriptNumber.val":       "every literal sets val",
	"execOpts.lockingScript": "nilable table", "execOpts.unlockingScript": "nilable table",
}

// dynamicNilable: fields added to the nilable table during a run (not stale entries of the written table).
var dynamicNilable = map[string]bool{}

func ruleNilSrc(c *Ctx) {
	watch := map[string]bool{"Input": true, "Output": true, "UTXO": true, "Tx": true, "thread": true, "execOpts": true, "stack": true,
		"ParsedOpcode": true, "opcode": true, "State": true, "InscriptionArgs": true, "scriptNumber": true, "FeeQuote": true, "Fee": true, "TxSize": true, "TxFees": true}
	n := 0
	seen := map[string]bool{}
	for _, pk := range c.P.ScopePkgs() {
		for _, f := range pk.Syntax {
			ast.Inspect(f, func(nd ast.Node) bool {
				cl, ok := nd.(*ast.CompositeLit)
				if !ok {
					return true
				}
				tv, ok := pk.TypesInfo.Types[cl]
				if !ok {
					return true
				}
				named, ok := tv.Type.(*types.Named)
				if !ok || !watch[named.Obj().Name()] {
					return true
				}
				st, ok := named.Underlying().(*types.Struct)
				if !ok {
					return true
				}
				set := map[string]bool{}
				positional := false
				for i, e := range cl.Elts {
					if kv, ok := e.(*ast.KeyValueExpr); ok {
						if id, ok := kv.Key.(*ast.Ident); ok {
							set[id.Name] = true
						}
					} else {
						positional = true
						if i < st.NumFields() {
							set[st.Field(i).Name()] = true
						}
					}
				}
				_ = positional
				n++
				for i := 0; i < st.NumFields(); i++ {
					fl := st.Field(i)
					if set[fl.Name()] || !pointerLikeNilable(fl.Type()) && !isSliceType(fl.Type()) {
						continue
					}
					k := named.Obj().Name() + "." + fl.Name()
					if seen[k] {
						continue
					}
					seen[k] = true
					switch {
					case nilableFields[k]:
						c.OK("P-nilsrc", "omitted/"+k, cl.Pos(), "field may be left nil by a library literal and is in the nilable table: every dereference needs a guard (engine P)")
					case initialisedLater[k] != "":
						c.OK("P-nilsrc", "omitted/"+k, cl.Pos(), "field omitted in a literal; confirmed harmless: "+initialisedLater[k])
					default:
						// a field the tables do not know (added by a later change): it joins the nilable table for this
						// run, so engine P demands a guard (or an assignment it can see) before every dereference
						nilableFields[k] = true
						dynamicNilable[k] = true
						c.OK("P-nilsrc", "omitted/"+k, cl.Pos(), fmt.Sprintf("a composite literal of %s leaves reference field %s unset and no table knows the field: treated as nilable, every dereference needs a guard (engine P)", named.Obj().Name(), fl.Name()))
					}
				}
				return true
			})
		}
	}
	// every table entry must still name an existing field (stale table = undecided)
	var ks []string
	for k := range nilableFields {
		ks = append(ks, k)
	}
	sort.Strings(ks)
	for _, k := range ks {
		if k[0] == '[' {
			continue
		}
		if !fieldExists(c, k) {
			c.Undecided("P-nilsrc", "table/"+k, token.NoPos, "nilable table names a field that no longer exists")
		}
	}
	c.MinInstances("P-nilsrc", n, 25)
}

func isSliceType(t types.Type) bool {
	_, ok := t.Underlying().(*types.Slice)
	return ok
}

func fieldExists(c *Ctx, k string) bool {
	var tn, fn string
	for i := 0; i < len(k); i++ {
		if k[i] == '.' {
			tn, fn = k[:i], k[i+1:]
		}
	}
	for _, pk := range c.P.ScopePkgs() {
		if obj := pk.Types.Scope().Lookup(tn); obj != nil {
			if st, ok := obj.Type().Underlying().(*types.Struct); ok {
				for i := 0; i < st.NumFields(); i++ {
					if st.Field(i).Name() == fn {
						return true
					}
				}
			}
		}
	}
	return false
}
