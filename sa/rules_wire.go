package main

// W rules: serialisers against the protocol layouts (C01, C02, C03).

import (
	"fmt"
	"go/constant"
	"go/token"
	"go/types"
	"regexp"
	"strings"

	"golang.org/x/tools/go/ssa"
)

func lit(atom string, truth bool) condLit { return condLit{atom, truth} }

func sel(cases ...selCase) *Lay { return &Lay{K: "sel", Cases: cases} }
func when(l *Lay, conj ...condLit) selCase {
	return selCase{Conds: [][]condLit{conj}, L: l}
}
func le(w int, t string) *Lay         { return &Lay{K: "le", W: w, S: t} }
func raw(t string) *Lay               { return &Lay{K: "raw", S: t} }
func rev(t string) *Lay               { return &Lay{K: "rev", S: t} }
func vi(t string) *Lay                { return &Lay{K: "varint", S: t} }
func cst(hex string) *Lay             { return &Lay{K: "const", S: hex} }
func zero(n int) *Lay                 { return &Lay{K: "zero", W: n} }
func hashOf(kind string, l *Lay) *Lay { return &Lay{K: "hash", S: kind, Items: []*Lay{l}} }
func loopOf(coll string, l *Lay) *Lay { return &Lay{K: "loop", S: coll, Items: []*Lay{l}} }

// optional script behind a pointer: absent = zero length
func specScript(ptr string) *Lay {
	a := "(" + ptr + " == nil)"
	return sel(when(cst("00"), lit(a, true)), when(seqOf(vi("len(*"+ptr+")"), raw("*"+ptr)), lit(a, false)))
}

func specOutput(o string) *Lay {
	return seqOf(le(8, o+".Satoshis"), vi("len(*"+o+".LockingScript)"), raw("*"+o+".LockingScript"))
}

func specInput(x string, extended bool) *Lay {
	l := seqOf(rev(x+".previousTxID"), le(4, x+".PreviousTxOutIndex"), specScript(x+".UnlockingScript"), le(4, x+".SequenceNumber"))
	if extended {
		l = seqOf(l, le(8, x+".PreviousTxSatoshis"), specScript(x+".PreviousTxScript"))
	}
	return l
}

func specTx(t string, extended bool) *Lay {
	marker := seqOf()
	if extended {
		marker = cst("0000000000ef")
	}
	return seqOf(le(4, t+".Version"), marker, vi("len("+t+".Inputs)"), loopOf(t+".Inputs", specInput(t+".Inputs[i]", extended)),
		vi("len("+t+".Outputs)"), loopOf(t+".Outputs", specOutput(t+".Outputs[i]")), le(4, t+".LockTime"))
}

func compareLayout(c *Ctx, rule, key string, fn *ssa.Function, got, want *Lay, extra func(map[string]bool) bool) {
	if u, why := got.hasUnknown(); u {
		c.Undecided(rule, key, fn.Pos(), "the serialiser uses an idiom outside the layout vocabulary: "+why+"; extracted so far: "+shorten(got.String(), 300))
		return
	}
	ok, why, n := layEqual(got, want, extra)
	c.Covered[rule+":valuations:"+key] = n
	if ok {
		c.OK(rule, key, fn.Pos(), fmt.Sprintf("layout equals the protocol layout under all %d feasible valuations of its conditions: %s", n, shorten(got.String(), 400)))
	} else {
		c.Fail(rule, key, fn.Pos(), "serialisation layout differs from the protocol layout: "+why)
	}
}

func shorten(s string, n int) string {
	if len(s) > n {
		return s[:n] + "…"
	}
	return s
}

func evalWith(c *Ctx, fn *ssa.Function, boolParams map[int]bool, nilParams map[int]bool) *Lay {
	w := newWEval(c.P, fn)
	for i, v := range boolParams {
		w.consts[fn.Params[i]] = constant.MakeBool(v)
	}
	for i, isNil := range nilParams {
		if isNil {
			w.nilArg[fn.Params[i]] = true
		} else {
			w.nonNil[fn.Params[i]] = true
		}
	}
	return w.evalFunc()
}

func ruleWTx(c *Ctx) {
	pEngine(c) // initialises global non-nil knowledge used to classify error returns
	get := func(recv, name string) *ssa.Function {
		fn := c.P.Func("", recv, name)
		if fn == nil {
			c.Undecided("W-tx", recv+"."+name, token.NoPos, "serialiser not found")
		}
		return fn
	}
	if fn := get("*Output", "Bytes"); fn != nil {
		compareLayout(c, "W-tx", "Output.Bytes", fn, evalWith(c, fn, nil, nil), specOutput("p0"), nil)
	}
	if fn := get("*Output", "BytesForSigHash"); fn != nil {
		compareLayout(c, "W-tx", "Output.BytesForSigHash", fn, evalWith(c, fn, nil, nil), specOutput("p0"), nil)
	}
	if fn := get("*Input", "Bytes"); fn != nil {
		compareLayout(c, "W-tx", "Input.Bytes(clear=false)", fn, evalWith(c, fn, map[int]bool{1: false}, nil), specInput("p0", false), nil)
		cleared := seqOf(rev("p0.previousTxID"), le(4, "p0.PreviousTxOutIndex"), cst("00"), le(4, "p0.SequenceNumber"))
		compareLayout(c, "W-tx", "Input.Bytes(clear=true)", fn, evalWith(c, fn, map[int]bool{1: true}, nil), cleared, nil)
	}
	if fn := get("*Tx", "Bytes"); fn != nil {
		compareLayout(c, "W-tx", "Tx.Bytes", fn, evalWith(c, fn, nil, nil), specTx("p0", false), nil)
	}
	// the transaction id: reversed double SHA-256 of the standard serialisation
	if fn := get("*Tx", "TxIDBytes"); fn != nil {
		compareLayout(c, "W-tx", "Tx.TxIDBytes", fn, evalWith(c, fn, nil, nil), &Lay{K: "revl", Items: []*Lay{hashOf("sha256d", specTx("p0", false))}}, nil)
	}
	if fn := get("*Tx", "TxID"); fn != nil {
		compareLayout(c, "W-tx", "Tx.TxID", fn, evalWith(c, fn, nil, nil), hashOf("hex", &Lay{K: "revl", Items: []*Lay{hashOf("sha256d", specTx("p0", false))}}), nil)
	}
	if fn := get("*Tx", "ExtendedBytes"); fn != nil {
		compareLayout(c, "W-tx", "Tx.ExtendedBytes", fn, evalWith(c, fn, nil, nil), specTx("p0", true), nil)
	}
	// transaction id = reverse(sha256d(standard serialisation)), as bytes and as hex
	idSpec := &Lay{K: "revl", Items: []*Lay{hashOf("sha256d", specTx("p0", false))}}
	if fn := get("*Tx", "TxIDBytes"); fn != nil {
		compareLayout(c, "W-tx", "Tx.TxIDBytes", fn, evalWith(c, fn, nil, nil), idSpec, nil)
	}
	if fn := get("*Tx", "TxID"); fn != nil {
		compareLayout(c, "W-tx", "Tx.TxID", fn, evalWith(c, fn, nil, nil), hashOf("hex", idSpec), nil)
	}
	// String() is the hex of the standard serialisation
	if fn := get("*Tx", "String"); fn != nil {
		compareLayout(c, "W-tx", "Tx.String", fn, evalWith(c, fn, nil, nil), hashOf("hex", specTx("p0", false)), nil)
	}
}

// W-sig: the FORKID preimage (C02).
func ruleWSig(c *Ctx) {
	pEngine(c)
	fn := c.P.Func("", "*Tx", "CalcInputPreimage")
	if fn == nil {
		c.Undecided("W-sig", "CalcInputPreimage", token.NoPos, "not found")
		return
	}
	in := "p0.Inputs[p1]"
	A := "((p2 & 128) == 0)"
	S := "((p2 & 31) == 3)"
	N := "((p2 & 31) == 2)"
	R := "(p1 < len(p0.Outputs))"
	prevouts := hashOf("sha256d", loopOf("p0.Inputs", seqOf(rev("p0.Inputs[i].previousTxID"), le(4, "p0.Inputs[i].PreviousTxOutIndex"))))
	seqs := hashOf("sha256d", loopOf("p0.Inputs", le(4, "p0.Inputs[i].SequenceNumber")))
	allOuts := hashOf("sha256d", loopOf("p0.Outputs", specOutput("p0.Outputs[i]")))
	oneOut := hashOf("sha256d", specOutput("p0.Outputs[p1]"))
	h1 := sel(when(prevouts, lit(A, true)), when(zero(32), lit(A, false)))
	h2 := sel(when(seqs, lit(A, true), lit(S, false), lit(N, false)),
		when(zero(32), lit(A, false)), when(zero(32), lit(S, true)), when(zero(32), lit(N, true)))
	h3 := sel(when(allOuts, lit(S, false), lit(N, false)),
		when(oneOut, lit(S, true), lit(R, true)),
		when(zero(32), lit(S, true), lit(R, false)), when(zero(32), lit(N, true)))
	want := seqOf(le(4, "p0.Version"), h1, h2, rev(in+".previousTxID"), le(4, in+".PreviousTxOutIndex"),
		vi("len(*"+in+".PreviousTxScript)"), raw("*"+in+".PreviousTxScript"), le(8, in+".PreviousTxSatoshis"), le(4, in+".SequenceNumber"),
		h3, le(4, "p0.LockTime"), le(4, "p2"))
	// the specification's atoms as terms over the hash type, so that they and the code's own tests of it
	// (masks, lookups in a constant table) are evaluated together on its values
	if len(fn.Params) > 2 {
		p2 := &T{K: "param", Name: "p2", Typ: fn.Params[2].Type()}
		k := func(v int64) *T { return &T{K: "const", C: constant.MakeInt64(v), Typ: fn.Params[2].Type()} }
		mk := func(mask, cmp int64) *T {
			return &T{K: "bin", Op: token.EQL, Typ: types.Typ[types.Bool], Args: []*T{{K: "bin", Op: token.AND, Typ: fn.Params[2].Type(), Args: []*T{p2, k(mask)}}, k(cmp)}}
		}
		registerAtom(A, mk(128, 0))
		registerAtom(S, mk(31, 3))
		registerAtom(N, mk(31, 2))
	}
	got := evalWith(c, fn, nil, nil)
	extra := func(val map[string]bool) bool {
		// the argument passed to OutputsHash is a valid index, not the "all outputs" marker -1
		for a, v := range val {
			if !strings.Contains(a, "p1") {
				continue // a closed test (-1 == -1: the marker passed as a constant) has its own value
			}
			if v && strings.Contains(a, "== -1)") {
				return false
			}
			if !v && strings.Contains(a, "!= -1)") {
				return false
			}
		}
		return true
	}
	compareLayout(c, "W-sig", "CalcInputPreimage", fn, got, want, extra)
	// the flag is used only through the four atoms and the trailing LE4
	atoms := map[string]bool{}
	layAtoms(got, atoms)
	for a := range atoms {
		if strings.Contains(a, "p2") {
			// a function of the hash type alone (evaluated with the specification's atoms on its values)
			_, driven, _ := drivenAtoms([]string{a})
			c.Check(driven[a], "W-sig", "flag-atom/"+a, fn.Pos(), "the hash type is tested through a function of its own value only", "hash type is tested by a condition that is not a function of its value alone: "+a)
		}
	}
	// S-dig: CalcInputSignatureHash = sha256d(preimage chosen by the FORKID bit)
	if sh := c.P.Func("", "*Tx", "CalcInputSignatureHash"); sh != nil {
		digestRule(c, sh)
	} else {
		c.Undecided("S-dig", "CalcInputSignatureHash", token.NoPos, "not found")
	}
}

// digestRule: CalcInputSignatureHash returns Sha256d(buf) where buf is the result of the
// function value chosen by sigStrat; sigStrat returns CalcInputPreimage iff flag has ForkID.
var dynCallRe = regexp.MustCompile(`call#\d+\(`)
var staticPreRe = regexp.MustCompile(`\(\*bt\.Tx\)\.CalcInputPreimage(Legacy)?\(p0, `)

func digestRule(c *Ctx, sh *ssa.Function) {
	// which preimage builder runs under which value of the FORKID bit: read from the paths of
	// CalcInputSignatureHash (a direct if/else) or, when the choice is delegated, from sigStrat
	builderOn := map[bool]map[string]bool{true: {}, false: {}}
	builderName := func(v ssa.Value) string {
		switch x := v.(type) {
		case *ssa.MakeClosure:
			return strings.TrimSuffix(x.Fn.Name(), "$bound")
		case *ssa.ChangeType:
			if mc, ok := x.X.(*ssa.MakeClosure); ok {
				return strings.TrimSuffix(mc.Fn.Name(), "$bound")
			}
		}
		return ""
	}
	forkTruth := func(d *DPath) (bool, bool) {
		for _, pc := range d.Conds {
			if pc.Cond.K == "call" && strings.Contains(pc.Cond.Name, "sighash.Flag).Has") && len(pc.Cond.Args) == 2 && pc.Cond.Args[1].String() == "64" {
				return pc.Truth, true
			}
		}
		return false, false
	}
	shaOfPre := true
	if paths, err := feasiblePaths(sh, 500); err == nil {
		for _, d := range paths {
			for _, ins := range pathInstrs(d) {
				call, ok := ins.(*ssa.Call)
				if !ok {
					continue
				}
				if sc := call.Call.StaticCallee(); sc != nil {
					switch sc.Name() {
					case "CalcInputPreimage", "CalcInputPreimageLegacy":
						if t, ok := forkTruth(d); ok {
							builderOn[t][sc.Name()] = true
						} else {
							builderOn[true][sc.Name()], builderOn[false][sc.Name()] = true, true
						}
					case "Sha256d":
						// hashes result #0 of the builder call of this path
						at := atomName(d.Env.Term(call.Call.Args[0]))
						if !(strings.HasSuffix(at, "#0") && (strings.Contains(at, "CalcInputPreimage") || dynCallRe.MatchString(at))) {
							shaOfPre = false
						}
					}
				}
			}
		}
	}
	if st := c.P.Func("", "*Tx", "sigStrat"); st != nil {
		if paths, err := feasiblePaths(st, 100); err == nil {
			for _, d := range paths {
				if d.Ret == nil {
					continue
				}
				n := builderName(d.Env.Val(d.Ret.Results[0]))
				if t, ok := forkTruth(d); ok {
					builderOn[t][n] = true
				} else {
					builderOn[true][n], builderOn[false][n] = true, true
				}
			}
		}
	}
	okSel := len(builderOn[true]) == 1 && builderOn[true]["CalcInputPreimage"] && len(builderOn[false]) == 1 && builderOn[false]["CalcInputPreimageLegacy"]
	c.Check(okSel, "S-dig", "sigStrat/selection", sh.Pos(), "FORKID bit (0x40) selects CalcInputPreimage, otherwise the legacy algorithm",
		fmt.Sprintf("the preimage builder is not CalcInputPreimage exactly when the hash type has bit 0x40: with the bit %v, without it %v", keysSorted(builderOn[true]), keysSorted(builderOn[false])))
	c.Check(shaOfPre, "S-dig", "CalcInputSignatureHash/sha256d(preimage)", sh.Pos(), "the digest is Sha256d of the preimage produced by the selected builder",
		"CalcInputSignatureHash no longer returns Sha256d of the preimage of the selected builder")
	// every return: the preimage function's error; the preimage itself iff it equals the SINGLE-bug
	// constant (which only the legacy builder returns); otherwise Sha256d(preimage). No other shortcut.
	if paths, err := feasiblePaths(sh, 500); err == nil {
		got := map[string]bool{}
		for _, d := range paths {
			if d.Ret == nil {
				continue
			}
			var cs []string
			for _, pc := range d.Conds {
				s := atomName(pc.Cond)
				if pc.Cond.K == "call" && strings.Contains(pc.Cond.Name, "sighash.Flag).Has") {
					continue // the builder choice, decided above
				}
				if !pc.Truth {
					s = "!" + s
				}
				cs = append(cs, s)
			}
			k := strings.Join(cs, " && ") + " => " + atomName(d.Env.Term(d.Ret.Results[0])) + ", " + strings.TrimPrefix(returnDesc(d), "return ")
			k = dynCallRe.ReplaceAllString(k, "PRE(")
			k = staticPreRe.ReplaceAllString(k, "PRE(")
			got[k] = true
		}
		pre := "PRE(p1, p2)"
		want := setOf(
			"("+pre+"#1 != nil) => nil, err",
			"!("+pre+"#1 != nil) && bytes.Equal(*g:bt.defaultHex, "+pre+"#0) => "+pre+"#0, nil",
			"!("+pre+"#1 != nil) && !bytes.Equal(*g:bt.defaultHex, "+pre+"#0) => github.com/libsv/go-bk/crypto.Sha256d("+pre+"#0), nil",
		)
		same := len(got) == len(want)
		for k := range got {
			if !want[k] {
				same = false
			}
		}
		c.Check(same, "S-dig", "CalcInputSignatureHash/returns", sh.Pos(), "returns the builder's error, the SINGLE-bug constant when the builder produced it, else Sha256d(preimage); no other path",
			"CalcInputSignatureHash has a return outside {builder error, builder's SINGLE-bug constant, Sha256d(preimage)}: "+strings.Join(keysSorted(got), " | "))
	}
}

// W-leg: final serialisation of the legacy preimage over the working copy (C03).
func ruleWLeg(c *Ctx) {
	pEngine(c)
	fn := c.P.Func("", "*Tx", "CalcInputPreimageLegacy")
	if fn == nil {
		c.Undecided("W-leg", "CalcInputPreimageLegacy", token.NoPos, "not found")
		return
	}
	C := "(*bt.Tx).Clone(p0)"
	single := "((p2 & 31) == 3)"
	oor := "(p1 > (len(p0.Outputs) - 1))"
	ser := seqOf(le(4, "p0.Version"), vi("len("+C+".Inputs)"),
		loopOf(C+".Inputs", seqOf(rev(C+".Inputs[i].previousTxID"), le(4, C+".Inputs[i].PreviousTxOutIndex"),
			vi("len(*"+C+".Inputs[i].PreviousTxScript)"), raw("*"+C+".Inputs[i].PreviousTxScript"), le(4, C+".Inputs[i].SequenceNumber"))),
		vi("len("+C+".Outputs)"), loopOf(C+".Outputs", specOutput(C+".Outputs[i]")), le(4, "p0.LockTime"), le(4, "p2"))
	one := cst("0100000000000000000000000000000000000000000000000000000000000000")
	want := sel(when(one, lit(single, true), lit(oor, true)), when(ser, lit(single, false)), when(ser, lit(oor, false)))
	// valuations on which the function returns an error (missing input / txid / script) are out of scope here
	noErr := func(val map[string]bool) bool {
		for a, v := range val {
			if v && (a == "(p0.Inputs[p1] == nil)" || a == "(len(p0.Inputs[p1].previousTxID) == 0)" || a == "(p0.Inputs[p1].PreviousTxScript == nil)") {
				return false
			}
		}
		return true
	}
	compareLayout(c, "W-leg", "CalcInputPreimageLegacy", fn, evalWith(c, fn, nil, nil), want, noErr)
	// the constant is returned unhashed by CalcInputSignatureHash
	if sh := c.P.Func("", "*Tx", "CalcInputSignatureHash"); sh != nil {
		okEq := false
		if paths, err := feasiblePaths(sh, 500); err == nil {
			for _, d := range paths {
				if d.Ret == nil || returnDesc(d) != "return nil" {
					continue
				}
				rt := d.Env.Term(d.Ret.Results[0]).String()
				for _, pc := range d.Conds {
					if pc.Truth && pc.Cond.K == "call" && strings.HasPrefix(pc.Cond.Name, "bytes.Equal") && len(pc.Cond.Args) == 2 {
						a0, a1 := pc.Cond.Args[0].String(), pc.Cond.Args[1].String()
						if (strings.Contains(a0, "defaultHex") && a1 == rt) || (strings.Contains(a1, "defaultHex") && a0 == rt) {
							okEq = true
						}
					}
				}
			}
		}
		c.Check(okEq, "W-leg", "CalcInputSignatureHash/single-bug-unhashed", sh.Pos(), "a preimage equal to the constant 1 is returned as the signature hash without hashing",
			"CalcInputSignatureHash no longer returns the SIGHASH_SINGLE constant unhashed")
	}
}
