package main

// S-err (C02, C03): "a missing input, previous txid or previous script is reported as an
// error". Every return of a preimage function that carries a nil error is dominated by
// the three guards: the selected input is not nil, its previous txid is not empty, its
// previous script is not nil. Guards are recognised on the values, not on text: the input
// is the result of (*Tx).InputIdx on the receiver and the index parameter; the txid
// guard is any comparison of len(txid) with a constant that is false for length 0 on the
// success side.

import (
	"go/constant"
	"go/token"

	"golang.org/x/tools/go/ssa"
)

type domCond struct {
	cond  ssa.Value
	truth bool
	bind  map[ssa.Value]ssa.Value // parameters of an inlined predicate -> the caller's arguments
}

// dominatingConds: branch outcomes that hold whenever control reaches b.
func dominatingConds(b *ssa.BasicBlock) []domCond {
	var out []domCond
	for x := b; x != nil; x = x.Idom() {
		if len(x.Preds) != 1 {
			continue
		}
		pr := x.Preds[0]
		if iff, ok := pr.Instrs[len(pr.Instrs)-1].(*ssa.If); ok && pr.Succs[0] != pr.Succs[1] {
			out = append(out, domCond{cond: iff.Cond, truth: pr.Succs[0] == x})
		}
	}
	return out
}

func ruleSErrPreimage(c *Ctx, names ...string) {
	n := 0
	for _, name := range names {
		fn := c.P.Func("", "*Tx", name)
		if fn == nil {
			c.Undecided("S-err", name, token.NoPos, "not found")
			continue
		}
		isSelectedInput := func(v ssa.Value) bool {
			call, ok := v.(*ssa.Call)
			if !ok {
				return false
			}
			sc := call.Call.StaticCallee()
			if sc == nil || funcName(sc) != "(*bt.Tx).InputIdx" || len(call.Call.Args) != 2 || call.Call.Args[0] != ssa.Value(fn.Params[0]) {
				return false
			}
			idx := call.Call.Args[1]
			if cv, ok := idx.(*ssa.Convert); ok {
				idx = cv.X
			}
			// the parameter itself, or its copy in the cell a function literal captures it through
			if ld, ok := idx.(*ssa.UnOp); ok && ld.Op == token.MUL {
				if al, ok := ld.X.(*ssa.Alloc); ok {
					if v, ok := cellValue(al); ok {
						idx = v
					}
				}
			}
			return idx == ssa.Value(fn.Params[1])
		}
		isNil := func(v ssa.Value) bool {
			k, ok := v.(*ssa.Const)
			return ok && k.Value == nil
		}
		// txid of the selected input: PreviousTxID() getter or the field itself
		isTxid := func(v ssa.Value) bool {
			switch x := v.(type) {
			case *ssa.Call:
				sc := x.Call.StaticCallee()
				return sc != nil && funcName(sc) == "(*bt.Input).PreviousTxID" && isSelectedInput(x.Call.Args[0])
			case *ssa.UnOp:
				if fa, ok := x.X.(*ssa.FieldAddr); ok && x.Op == token.MUL {
					return fieldName(fa.X.Type(), fa.Field) == "previousTxID" && isSelectedInput(fa.X)
				}
			}
			return false
		}
		isPrevScript := func(v ssa.Value) bool {
			if x, ok := v.(*ssa.UnOp); ok && x.Op == token.MUL {
				if fa, ok := x.X.(*ssa.FieldAddr); ok {
					return fieldName(fa.X.Type(), fa.Field) == "PreviousTxScript" && isSelectedInput(fa.X)
				}
			}
			return false
		}
		for _, b := range fn.Blocks {
			r, ok := b.Instrs[len(b.Instrs)-1].(*ssa.Return)
			if !ok || len(r.Results) < 2 {
				continue
			}
			if k, isK := r.Results[len(r.Results)-1].(*ssa.Const); !isK || k.Value != nil {
				continue // error return
			}
			n++
			var gIn, gTxid, gScript bool
			for _, dc := range dominatingConds(b) {
				bo, ok := dc.cond.(*ssa.BinOp)
				if !ok {
					continue
				}
				nonNilOn := func(test func(ssa.Value) bool) bool {
					if !(test(bo.X) && isNil(bo.Y) || test(bo.Y) && isNil(bo.X)) {
						return false
					}
					return bo.Op == token.EQL && !dc.truth || bo.Op == token.NEQ && dc.truth
				}
				if nonNilOn(isSelectedInput) {
					gIn = true
				}
				if nonNilOn(isPrevScript) {
					gScript = true
				}
				// len(txid) <op> K with the success side excluding length 0
				if call, ok := bo.X.(*ssa.Call); ok {
					if bi, ok := call.Call.Value.(*ssa.Builtin); ok && bi.Name() == "len" && isTxid(call.Call.Args[0]) {
						if k, ok := bo.Y.(*ssa.Const); ok && k.Value != nil && k.Value.Kind() == constant.Int {
							atZero := constant.Compare(constant.MakeInt64(0), bo.Op, k.Value)
							if atZero != dc.truth {
								gTxid = true
							}
						}
					}
				}
			}
			key := name + "/success-return"
			c.Check(gIn, "S-err", key+"/input-exists", r.Pos(), "a nil error is returned only after InputIdx(inputNumber) != nil", name+" can return a preimage without having checked that the input exists")
			c.Check(gTxid, "S-err", key+"/txid-present", r.Pos(), "a nil error is returned only after a length test that excludes an empty previous txid", name+" can return a preimage for an input whose previous txid is empty (no dominating test of its length): the preimage is short and no error is reported")
			c.Check(gScript, "S-err", key+"/script-present", r.Pos(), "a nil error is returned only after PreviousTxScript != nil", name+" can return a preimage without having checked the previous script")
		}
	}
	c.MinInstances("S-err", n, len(names))
}
