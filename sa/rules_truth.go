package main

// T-truth (C05): one definition of the truth value of a stack item. asBool's decision structure is
// "false iff every byte is zero, except that a final 0x80 (negative zero) also counts as zero";
// every consumer of a truth value (PopBool, PeekBool, popIfBool, OP_IFDUP) decides through asBool
// on the item itself.

import (
	"fmt"
	"go/token"
	"sort"
	"strings"

	"golang.org/x/tools/go/ssa"
)

func ruleTTruth(c *Ctx) {
	fn := c.P.Func("bscript/interpreter", "", "asBool")
	if fn == nil {
		c.Undecided("T-truth", "asBool", token.NoPos, "not found")
		return
	}
	var header *ssa.BasicBlock
	for _, b := range fn.Blocks {
		if isLoopHeader(b) {
			header = b
		}
	}
	if header == nil {
		c.Undecided("T-truth", "asBool", fn.Pos(), "no loop over the bytes found")
		return
	}
	paths, err := enumPaths(header, nil, nil, 200)
	if err != nil {
		c.Undecided("T-truth", "asBool", fn.Pos(), err.Error())
		return
	}
	// one iteration: atoms in[i < len], nz[t[i] != 0], last[i == len-1], neg[t[i] == 0x80]
	atom := func(s string) string {
		switch {
		case strings.Contains(s, "< len(p0)"):
			return "in"
		case strings.HasSuffix(s, "] != 0)"):
			return "nz"
		case strings.Contains(s, "== (len(p0) - 1))"):
			return "last"
		case strings.HasSuffix(s, "] == 128)"):
			return "neg"
		}
		return "?" + s
	}
	got := map[string]bool{}
	for _, d := range paths {
		var cs []string
		for _, pc := range d.Conds {
			a := atom(atomName(pc.Cond))
			if !pc.Truth {
				a = "!" + a
			}
			cs = append(cs, a)
		}
		leaf := d.EndKind
		if d.Ret != nil {
			leaf = "return " + d.Env.Term(d.Ret.Results[0]).String()
		}
		got[strings.Join(cs, " ")+" => "+leaf] = true
	}
	want := setOf(
		"!in => return false",
		"in !nz => loop",
		"in nz last neg => return false",
		"in nz last !neg => return true",
		"in nz !last => return true",
	)
	same := len(got) == len(want)
	for k := range got {
		if !want[k] {
			same = false
		}
	}
	c.Check(same, "T-truth", "asBool", fn.Pos(), "false iff all bytes are zero, a final 0x80 counting as zero: "+strings.Join(keysSorted(got), " | "),
		fmt.Sprintf("asBool's decision structure changed: {%s}, specified {%s}", strings.Join(keysSorted(got), " | "), strings.Join(keysSorted(want), " | ")))
	// consumers
	env := newTermEnv()
	for _, cs := range []struct{ recv, name, want string }{
		{"*stack", "PopBool", "bscript/interpreter.asBool((*bscript/interpreter.stack).PopByteArray(p0)#0)"},
		{"*stack", "PeekBool", "bscript/interpreter.asBool((*bscript/interpreter.stack).PeekByteArray(p0, p1)#0)"},
	} {
		f := c.P.Func("bscript/interpreter", cs.recv, cs.name)
		if f == nil {
			c.Undecided("T-truth", cs.name, token.NoPos, "not found")
			continue
		}
		okRet := false
		for _, b := range f.Blocks {
			if r, ok := b.Instrs[len(b.Instrs)-1].(*ssa.Return); ok {
				if k, isK := r.Results[1].(*ssa.Const); isK && k.Value == nil {
					okRet = atomName(env.Term(r.Results[0])) == cs.want
				}
			}
		}
		c.Check(okRet, "T-truth", "stack."+cs.name, f.Pos(), "returns asBool of the item", "stack."+cs.name+" no longer returns asBool of the popped/peeked item")
	}
	if f := c.P.Func("bscript/interpreter", "", "opcodeIfDup"); f != nil {
		// the push is guarded by asBool(PeekByteArray(0)) and pushes that same item
		ok := false
		var conds []string
		for _, b := range f.Blocks {
			for _, ins := range b.Instrs {
				call, isC := ins.(*ssa.Call)
				if !isC {
					continue
				}
				sc := call.Call.StaticCallee()
				if sc == nil || (sc.Name() != "PushByteArray" && sc.Name() != "DupN") {
					continue
				}
				for _, dc := range dominatingConds(b) {
					t := atomName(env.Term(dc.cond))
					if strings.Contains(t, "!= nil") {
						continue
					}
					if !dc.truth {
						t = "!" + t
					}
					conds = append(conds, t)
				}
				item := "(*bscript/interpreter.stack).PeekByteArray(&p1.dstack, 0)#0"
				sort.Strings(conds)
				ok = len(conds) == 1 && conds[0] == "bscript/interpreter.asBool("+item+")" &&
					(sc.Name() == "DupN" || atomName(env.Term(call.Call.Args[1])) == item)
			}
		}
		c.Check(ok, "T-truth", "opcodeIfDup", f.Pos(), "duplicates the top item exactly when asBool(top) holds", "OP_IFDUP decides on something other than asBool of the top item: "+strings.Join(conds, " && "))
	}
	if f := c.P.Func("bscript/interpreter", "", "popIfBool"); f != nil {
		paths, err := feasiblePaths(f, 500)
		ok := err == nil
		var rets []string
		for _, d := range paths {
			if d.Ret == nil || returnDesc(d) != "return nil" {
				continue
			}
			rets = append(rets, atomName(d.Env.Term(d.Ret.Results[0])))
		}
		sort.Strings(rets)
		for _, r := range rets {
			if r != "bscript/interpreter.asBool((*bscript/interpreter.stack).PopByteArray(&p0.dstack)#0)" && r != "(*bscript/interpreter.stack).PopBool(&p0.dstack)#0" {
				ok = false
			}
		}
		c.Check(ok && len(rets) >= 2, "T-truth", "popIfBool", f.Pos(), "the condition of IF/NOTIF is asBool of the popped item (directly or through PopBool)", "popIfBool returns something other than asBool of the popped item: "+strings.Join(rets, " | "))
	}
}
