package main

// T-truth (C05): one definition of the truth value of a stack item. asBool's decision structure is
// "false iff every byte is zero, except that a final 0x80 (negative zero) also counts as zero";
// every consumer of a truth value (PopBool, PeekBool, popIfBool, OP_IFDUP) decides through asBool
// on the item itself.

import (
	"fmt"
	"go/token"
	"math/big"
	"sort"
	"strings"

	"golang.org/x/tools/go/ssa"
)

func ruleTTruth(c *Ctx) {
	fn := c.P.Func("bscript/interpreter", "", "asBool")
	if fn == nil {
		c.Undecided("T-truth", "asBool", token.NoPos, "not found")
		return
	}
	var header *ssa.BasicBlock
	for _, b := range fn.Blocks {
		if isLoopHeader(b) {
			header = b
		}
	}
	if header == nil {
		c.Undecided("T-truth", "asBool", fn.Pos(), "no loop over the bytes found")
		return
	}
	paths, err := enumPaths(header, nil, nil, 200)
	if err != nil {
		c.Undecided("T-truth", "asBool", fn.Pos(), err.Error())
		return
	}
	// one iteration, decided on a grid over (length, loop position, byte value): past the end -> false;
	// zero byte -> next iteration; 0x80 in the last position -> false; anything else -> true
	bases := condBaseTerms(paths)
	for _, d := range paths {
		if d.Ret != nil {
			baseTerms(d.Env.Term(d.Ret.Results[0]), bases)
		}
	}
	var lenK, elemK, posK string
	var elemT *T
	for k, t := range bases {
		switch {
		case k == "len(p0)":
			lenK = k
		case strings.HasPrefix(k, "p0["):
			elemK, elemT = k, t
		case t.K == "phi":
			posK = k
		default:
			c.Undecided("T-truth", "asBool", fn.Pos(), "asBool decides on "+k+", which is neither the length, the position nor a byte of the item")
			return
		}
	}
	if lenK == "" || elemT == nil || len(elemT.Args) != 2 {
		c.Undecided("T-truth", "asBool", fn.Pos(), "asBool's loop does not test a byte of the item against its length")
		return
	}
	bad := ""
	cells := 0
	for _, L := range []int64{1, 3} {
		for _, pos := range []int64{-1, 0, L - 2, L - 1, L} {
			for _, bv := range []int64{0, 1, 0x7f, 0x80, 0x81} {
				asg := map[string]*big.Int{lenK: big.NewInt(L), elemK: big.NewInt(bv)}
				if posK != "" {
					asg[posK] = big.NewInt(pos)
				}
				iv, ok := evalTerm(elemT.Args[1], asg)
				if !ok {
					c.Undecided("T-truth", "asBool", fn.Pos(), "the position of the byte tested is not a function of the loop variable")
					return
				}
				i := iv.Int64()
				if i < 0 {
					continue
				}
				got := map[string]bool{}
				for _, d := range paths {
					holds := true
					for _, pc := range d.Conds {
						v, ok := evalTerm(pc.Cond, asg)
						if !ok {
							c.Undecided("T-truth", "asBool", fn.Pos(), "condition outside the table: "+atomName(pc.Cond))
							return
						}
						if (v.Sign() != 0) != pc.Truth {
							holds = false
						}
					}
					if !holds {
						continue
					}
					leaf := d.EndKind
					if d.Ret != nil {
						rv, ok := evalTerm(d.Env.Term(d.Ret.Results[0]), asg)
						if !ok {
							leaf = "return ?"
						} else if rv.Sign() != 0 {
							leaf = "return true"
						} else {
							leaf = "return false"
						}
					}
					got[leaf] = true
				}
				want := "return true"
				switch {
				case i >= L:
					want = "return false"
				case bv == 0:
					want = "loop"
				case i == L-1 && bv == 0x80:
					want = "return false"
				}
				cells++
				if (len(got) != 1 || !got[want]) && bad == "" {
					bad = fmt.Sprintf("item of %d byte(s), position %d, byte 0x%02x: %v, specified %s", L, i, bv, keysSorted(got), want)
				}
			}
		}
	}
	c.Covered["T-truth:asBool_cells"] = cells
	c.Check(bad == "", "T-truth", "asBool", fn.Pos(), fmt.Sprintf("false iff all bytes are zero, a final 0x80 counting as zero (%d cells over length, position, byte)", cells),
		"asBool's decision structure changed: "+bad)
	// consumers
	env := newTermEnv()
	for _, cs := range []struct{ recv, name, want string }{
		{"*stack", "PopBool", "bscript/interpreter.asBool((*bscript/interpreter.stack).PopByteArray(p0)#0)"},
		{"*stack", "PeekBool", "bscript/interpreter.asBool((*bscript/interpreter.stack).PeekByteArray(p0, p1)#0)"},
	} {
		f := c.P.Func("bscript/interpreter", cs.recv, cs.name)
		if f == nil {
			c.Undecided("T-truth", cs.name, token.NoPos, "not found")
			continue
		}
		okRet := false
		for _, b := range f.Blocks {
			if r, ok := b.Instrs[len(b.Instrs)-1].(*ssa.Return); ok {
				if k, isK := r.Results[1].(*ssa.Const); isK && k.Value == nil {
					okRet = atomName(env.Term(r.Results[0])) == cs.want
				}
			}
		}
		c.Check(okRet, "T-truth", "stack."+cs.name, f.Pos(), "returns asBool of the item", "stack."+cs.name+" no longer returns asBool of the popped/peeked item")
	}
	if f := c.P.Func("bscript/interpreter", "", "opcodeIfDup"); f != nil {
		// the push is guarded by asBool(PeekByteArray(0)) and pushes that same item
		ok := false
		var conds []string
		for _, b := range f.Blocks {
			for _, ins := range b.Instrs {
				call, isC := ins.(*ssa.Call)
				if !isC {
					continue
				}
				sc := call.Call.StaticCallee()
				if sc == nil || (sc.Name() != "PushByteArray" && sc.Name() != "DupN") {
					continue
				}
				for _, dc := range dominatingConds(b) {
					t := atomName(env.Term(dc.cond))
					if strings.Contains(t, "!= nil") {
						continue
					}
					if !dc.truth {
						t = "!" + t
					}
					conds = append(conds, t)
				}
				item := "(*bscript/interpreter.stack).PeekByteArray(&p1.dstack, 0)#0"
				sort.Strings(conds)
				ok = len(conds) == 1 && conds[0] == "bscript/interpreter.asBool("+item+")" &&
					(sc.Name() == "DupN" || atomName(env.Term(call.Call.Args[1])) == item)
			}
		}
		c.Check(ok, "T-truth", "opcodeIfDup", f.Pos(), "duplicates the top item exactly when asBool(top) holds", "OP_IFDUP decides on something other than asBool of the top item: "+strings.Join(conds, " && "))
	}
	if f := c.P.Func("bscript/interpreter", "", "popIfBool"); f != nil {
		paths, err := feasiblePaths(f, 500)
		ok := err == nil
		var rets []string
		for _, d := range paths {
			if d.Ret == nil || returnDesc(d) != "return nil" {
				continue
			}
			rets = append(rets, atomName(d.Env.Term(d.Ret.Results[0])))
		}
		sort.Strings(rets)
		for _, r := range rets {
			if r != "bscript/interpreter.asBool((*bscript/interpreter.stack).PopByteArray(&p0.dstack)#0)" && r != "(*bscript/interpreter.stack).PopBool(&p0.dstack)#0" {
				ok = false
			}
		}
		c.Check(ok && len(rets) >= 2, "T-truth", "popIfBool", f.Pos(), "the condition of IF/NOTIF is asBool of the popped item (directly or through PopBool)", "popIfBool returns something other than asBool of the popped item: "+strings.Join(rets, " | "))
	}
}
