package main

// T-cond (C05, flow control): the conditional opcodes keep two stacks in step - the condition stack (true /
// false / skip per open block) and the else stack (has this block's OP_ELSE been seen: after genesis a second
// OP_ELSE is an error).
//   OP_IF / OP_NOTIF push exactly one condition value - false when the opcode is not to be executed, skip inside a
//     branch that is not executing, otherwise the popped boolean (negated for NOTIF) - and push "no else seen yet";
//   OP_ELSE fails on an empty condition stack and when the else stack says an else was seen, otherwise flips
//     true <-> false (skip stays) and records "else seen";
//   OP_ENDIF fails on an empty condition stack, otherwise drops one entry of each stack.
// Read from the handlers' paths; the condition value is folded over the three booleans it depends on.

import (
	"fmt"
	"go/constant"
	"go/token"
	"sort"
	"strings"

	"golang.org/x/tools/go/ssa"
)

func ruleTCond(c *Ctx) {
	cFalse, cTrue, cSkip := pkgConst(c, "bscript/interpreter", "opCondFalse"), pkgConst(c, "bscript/interpreter", "opCondTrue"), pkgConst(c, "bscript/interpreter", "opCondSkip")
	eUnbal := pkgConst(c, "bscript/interpreter/errs", "ErrUnbalancedConditional")
	if cFalse < 0 || cTrue < 0 || cSkip < 0 || eUnbal < 0 {
		c.Undecided("T-cond", "constants", token.NoPos, "condition constants or error code not found")
		return
	}
	name := map[int64]string{cFalse: "false", cTrue: "true", cSkip: "skip"}
	n := 0
	// else-stack pushes of a handler: the constant pushed, and whether every nil return is behind one
	elsePushes := func(fn *ssa.Function) (vals []string, covers bool) {
		var blocks []*ssa.BasicBlock
		for _, b := range fn.Blocks {
			for _, ins := range b.Instrs {
				call, ok := ins.(*ssa.Call)
				if !ok || !call.Call.IsInvoke() || call.Call.Method.Name() != "PushBool" {
					continue
				}
				if !strings.Contains(atomName(newTermEnv().Term(call.Call.Value)), "elseStack") {
					continue
				}
				v := "?"
				if k, isK := call.Call.Args[0].(*ssa.Const); isK && k.Value != nil && k.Value.Kind() == constant.Bool {
					v = fmt.Sprint(constant.BoolVal(k.Value))
				}
				vals = append(vals, v)
				blocks = append(blocks, b)
			}
		}
		covers = len(blocks) > 0
		for _, b := range fn.Blocks {
			r, ok := b.Instrs[len(b.Instrs)-1].(*ssa.Return)
			if !ok || len(r.Results) != 1 {
				continue
			}
			if k, isK := r.Results[0].(*ssa.Const); !isK || k.Value != nil {
				continue
			}
			dom := false
			for _, pb := range blocks {
				if pb.Dominates(b) {
					dom = true
				}
			}
			if !dom {
				covers = false
			}
		}
		return vals, covers
	}
	for _, h := range []struct {
		fn     string
		negate bool
	}{{"opcodeIf", false}, {"opcodeNotIf", true}} {
		fn := c.P.Func("bscript/interpreter", "", h.fn)
		if fn == nil {
			c.Undecided("T-cond", h.fn, token.NoPos, "not found")
			continue
		}
		// a handler that only hands on to a helper shared by IF and NOTIF (beginConditional(op, t, true)): the
		// helper is read with its boolean parameter bound to what this handler passes
		bound := map[string]bool{}
		if hf, args := soleDelegate(fn); hf != nil {
			for k := range hf.Params {
				if k < len(args) {
					if kc, isK := args[k].(*ssa.Const); isK && kc.Value != nil && kc.Value.Kind() == constant.Bool {
						bound[fmt.Sprintf("p%d", k)] = constant.BoolVal(kc.Value)
					}
				}
			}
			fn = hf
		}
		n++
		vals, covers := elsePushes(fn)
		c.Check(len(vals) == 1 && vals[0] == "false" && covers, "T-cond", h.fn+"/else-stack", fn.Pos(), "pushes 'no else seen yet' on every successful way out",
			fmt.Sprintf("%s does not push exactly one false onto the else stack on every successful path (pushes %v, every nil return behind one: %v): after genesis the block's first OP_ELSE is then refused, or a second one accepted", h.fn, vals, covers))
		paths, err := feasiblePaths(fn, 5000)
		if err != nil {
			c.Undecided("T-cond", h.fn+"/condition", fn.Pos(), err.Error())
			continue
		}
		// the appended condition value per path, with the three booleans it is decided by
		var bad []string
		cells := 0
		for m := 0; m < 8; m++ {
			exec, branch, popped := m&1 != 0, m&2 != 0, m&4 != 0
			want := "false"
			switch {
			case exec && !branch:
				want = "skip"
			case exec && branch && (popped != h.negate):
				want = "true"
			}
			got := map[string]bool{}
			for _, d := range paths {
				if d.EndKind != "return" || d.Ret == nil {
					continue
				}
				if k, isK := d.Ret.Results[0].(*ssa.Const); !isK || k.Value != nil {
					continue
				}
				holds := true
				for _, pc := range d.Conds {
					t, truth := stripNot(pc.Cond, pc.Truth)
					an := atomName(t)
					var val, known bool
					// popped == flag / popped != flag, the flag being the helper's bound parameter
					if t.K == "bin" && (t.Op == token.EQL || t.Op == token.NEQ) && len(t.Args) == 2 {
						for k := 0; k < 2; k++ {
							if t.Args[k].K == "param" && strings.Contains(atomName(t.Args[1-k]), "popIfBool(") {
								if bv, okb := bound[t.Args[k].Name]; okb {
									val, known = (popped == bv) == (t.Op == token.EQL), true
								}
							}
						}
					}
					switch {
					case known:
					case strings.Contains(an, ".shouldExec("):
						val, known = exec, true
					case strings.Contains(an, ".isBranchExecuting("):
						val, known = branch, true
					case strings.Contains(an, "popIfBool(") && !strings.Contains(an, "== nil") && !strings.Contains(an, "!= nil"):
						val, known = popped, true
					case strings.Contains(an, "== nil") || strings.Contains(an, "!= nil"):
						// the pop's error: absent on the successful paths
						val, known = strings.Contains(an, "== nil"), true
					}
					if !known {
						got["a condition the rule does not know: "+shorten(an, 60)] = true
						continue
					}
					if val != truth {
						holds = false
						break
					}
				}
				if !holds {
					continue
				}
				// the value appended to condStack on this path
				v := "nothing appended"
				for _, ins := range pathInstrs(d) {
					call, ok := ins.(*ssa.Call)
					if !ok {
						continue
					}
					bi, ok := call.Call.Value.(*ssa.Builtin)
					if !ok || bi.Name() != "append" || len(call.Call.Args) != 2 || !strings.Contains(atomName(d.Env.Term(call.Call.Args[0])), "condStack") {
						continue
					}
					if sl, ok := call.Call.Args[1].(*ssa.Slice); ok {
						if al, ok := sl.X.(*ssa.Alloc); ok && al.Referrers() != nil {
							for _, r := range *al.Referrers() {
								if ia, ok := r.(*ssa.IndexAddr); ok && ia.Referrers() != nil {
									for _, r2 := range *ia.Referrers() {
										if st, ok := r2.(*ssa.Store); ok {
											tv := d.Env.Term(st.Val)
											if tv.K == "const" && tv.C != nil {
												if iv, ok := constValInt(tv.C); ok {
													if nm, ok := name[iv.Int64()]; ok {
														v = nm
													} else {
														v = iv.String()
													}
												}
											} else {
												v = "not a constant: " + atomName(tv)
											}
										}
									}
								}
							}
						}
					}
				}
				got[v] = true
			}
			cells++
			if g := strings.Join(keysSorted(got), " | "); g != want {
				bad = append(bad, fmt.Sprintf("to-be-executed=%v, branch executing=%v, popped=%v: pushes [%s], the rule says [%s]", exec, branch, popped, g, want))
			}
		}
		sort.Strings(bad)
		c.Covered["T-cond:"+h.fn+":cells"] = cells
		c.Check(len(bad) == 0, "T-cond", h.fn+"/condition", fn.Pos(), "the condition value pushed is false / skip / the popped boolean"+map[bool]string{true: " negated", false: ""}[h.negate]+" on all 8 cells",
			h.fn+": "+strings.Join(bad, "; "))
	}
	// OP_ELSE
	if fn := c.P.Func("bscript/interpreter", "", "opcodeElse"); fn != nil {
		n++
		vals, covers := elsePushes(fn)
		c.Check(len(vals) == 1 && vals[0] == "true" && covers, "T-cond", "opcodeElse/else-stack", fn.Pos(), "records 'else seen' on every successful way out",
			fmt.Sprintf("opcodeElse does not push exactly one true onto the else stack on every successful path (pushes %v, covers %v)", vals, covers))
		// an else already seen is refused: the popped flag, when true, leads to ErrUnbalancedConditional
		paths, err := feasiblePaths(fn, 5000)
		okSeen, okFlip := false, ""
		if err == nil {
			for _, d := range paths {
				seenTrue := false
				for _, pc := range d.Conds {
					t, truth := stripNot(pc.Cond, pc.Truth)
					if an := atomName(t); strings.Contains(an, "PopBool") && !strings.Contains(an, "nil") && truth {
						seenTrue = true
					}
				}
				if seenTrue {
					code, kind := errCodeOfReturn(d)
					if kind == "error" && code == eUnbal {
						okSeen = true
					} else {
						okSeen = false
						okFlip = "a path on which the else flag is set ends in " + kind
						break
					}
				}
			}
		}
		c.Check(okSeen && okFlip == "", "T-cond", "opcodeElse/second-else", fn.Pos(), "an OP_ELSE in a block whose else was seen is ErrUnbalancedConditional", "opcodeElse no longer refuses a second OP_ELSE of the same block "+okFlip)
		// the flip: stores into condStack[len-1]: true -> false, false -> true, nothing else
		flips := map[string]bool{}
		for _, b := range fn.Blocks {
			for _, ins := range b.Instrs {
				st, ok := ins.(*ssa.Store)
				if !ok {
					continue
				}
				ia, ok := st.Addr.(*ssa.IndexAddr)
				if !ok || !strings.Contains(atomName(newTermEnv().Term(ia.X)), "condStack") {
					continue
				}
				k, isK := constInt(st.Val)
				if !isK {
					flips["a value that is not a constant"] = true
					continue
				}
				// the case that guards it: a comparison of the current top with a constant
				from := "?"
				for _, dc := range dominatingConds(b) {
					if bo, ok := dc.cond.(*ssa.BinOp); ok && bo.Op == token.EQL && dc.truth {
						if kk, ok := constInt(bo.Y); ok {
							from = name[kk.Int64()]
						}
					}
				}
				flips[from+"->"+name[k.Int64()]] = true
			}
		}
		got := strings.Join(keysSorted(flips), ",")
		c.Check(got == "false->true,true->false", "T-cond", "opcodeElse/flip", fn.Pos(), "flips true <-> false, leaves skip", "opcodeElse changes the open block's condition as {"+got+"}, the rule is {false->true,true->false}")
	} else {
		c.Undecided("T-cond", "opcodeElse", token.NoPos, "not found")
	}
	c.MinInstances("T-cond", n, 3)
}

// S-ops (C05, pre-genesis operation limit): the operation count only grows - by one per counted opcode, by the
// number of public keys in OP_CHECKMULTISIG - and every growth is followed by the test against the era's limit:
// count > MaxOps is ErrTooManyOperations. Resets to zero belong to a script change (rule S-perscript).
func ruleSOps(c *Ctx) {
	eOps := pkgConst(c, "bscript/interpreter/errs", "ErrTooManyOperations")
	n := 0
	for _, fn := range pkgFunctions(c.P, interpPkg) {
		if fn.Name() == "SetState" || fn.Name() == "apply" {
			continue
		}
		for _, b := range fn.Blocks {
			for i, ins := range b.Instrs {
				st, ok := threadFieldStore(ins, "numOps")
				if !ok || isFalseOrZero(st.Val) {
					continue
				}
				n++
				key := "numOps-store/" + funcName(fn) + "#" + fmt.Sprint(n)
				bo, isBo := st.Val.(*ssa.BinOp)
				grows := false
				if isBo && bo.Op == token.ADD {
					for k, o := range []ssa.Value{bo.X, bo.Y} {
						other := []ssa.Value{bo.Y, bo.X}[k]
						if ld, isLd := o.(*ssa.UnOp); isLd && ld.Op == token.MUL {
							if fa, isFa := ld.X.(*ssa.FieldAddr); isFa && fieldName(fa.X.Type(), fa.Field) == "numOps" {
								if kk, isK := constInt(other); isK {
									grows = kk.Sign() > 0
								} else {
									grows = true // a run-time amount: the popped key count (range-checked by its own guards)
								}
							}
						}
					}
				}
				if !grows {
					c.Fail("S-ops", key, st.Pos(), funcName(fn)+" changes the operation count other than by adding to it: the per-script operation limit no longer counts what was executed")
					continue
				}
				// followed, in the same block or the blocks it leads to before any other store, by numOps > MaxOps -> error
				tested := false
				for _, x := range b.Instrs[i+1:] {
					iff, isIf := x.(*ssa.If)
					if !isIf {
						continue
					}
					cmp, isCmp := iff.Cond.(*ssa.BinOp)
					if !isCmp || cmp.Op != token.GTR {
						continue
					}
					l := atomName(newTermEnv().Term(cmp.X))
					r := atomName(newTermEnv().Term(cmp.Y))
					if strings.Contains(l, "numOps") && strings.Contains(r, "MaxOps") {
						succ := b.Succs[0]
						if ret, isRet := succ.Instrs[len(succ.Instrs)-1].(*ssa.Return); isRet {
							rt := newTermEnv().Term(ret.Results[len(ret.Results)-1])
							if rt.K == "call" && strings.Contains(rt.Name, "errs.NewError") && len(rt.Args) > 0 && rt.Args[0].K == "const" && rt.Args[0].C != nil {
								if v, _ := constant.Int64Val(constant.ToInt(rt.Args[0].C)); v == eOps {
									tested = true
								}
							}
						}
					}
				}
				c.Check(tested, "S-ops", key, st.Pos(), "the count grows and is then held against MaxOps (ErrTooManyOperations when greater)", funcName(fn)+" adds to the operation count without testing it against the limit straight away (count > MaxOps must be ErrTooManyOperations)")
			}
		}
	}
	c.MinInstances("S-ops", n, 2)
}

// S-forkstrict (C06): enabling SIGHASH_FORKID implies strict signature encoding - thread.apply adds
// VerifyStrictEncoding exactly under hasFlag(EnableSighashForkID) (the node's STRICTENC-with-FORKID rule; the
// hash-type and public-key checks of checkHashTypeEncoding / checkPubKeyEncoding hang on that flag).
func ruleSForkStrict(c *Ctx) {
	fn := c.P.Func("bscript/interpreter", "*thread", "apply")
	forkid := pkgConst(c, "bscript/interpreter/scriptflag", "EnableSighashForkID")
	strict := pkgConst(c, "bscript/interpreter/scriptflag", "VerifyStrictEncoding")
	if fn == nil || forkid < 0 || strict < 0 {
		c.Undecided("S-forkstrict", "thread.apply", token.NoPos, "function or flags not found")
		return
	}
	v := viewOf(fn)
	found, guarded := false, false
	for _, ins := range v.Instrs {
		call, ok := ins.(*ssa.Call)
		if !ok {
			continue
		}
		sc := call.Call.StaticCallee()
		if sc == nil || sc.Name() != "addFlag" || len(call.Call.Args) != 2 {
			continue
		}
		if k, isK := constInt(call.Call.Args[1]); !isK || k.Int64() != strict {
			continue
		}
		found = true
		for _, dc := range dominatingConds(call.Block()) {
			hc, isCall := dc.cond.(*ssa.Call)
			if !isCall || hc.Call.StaticCallee() == nil || hc.Call.StaticCallee().Name() != "hasFlag" || len(hc.Call.Args) != 2 {
				continue
			}
			if k, isK := constInt(hc.Call.Args[1]); isK && k.Int64() == forkid && dc.truth {
				guarded = true
			}
		}
	}
	c.Check(found && guarded, "S-forkstrict", "thread.apply", fn.Pos(), "VerifyStrictEncoding is added under EnableSighashForkID", fmt.Sprintf("thread.apply no longer turns strict signature encoding on when SIGHASH_FORKID is enabled (addFlag found: %v, under the FORKID test: %v): undefined hash types and malformed keys are let through in the FORKID era", found, guarded))
}

// S-p2sh (C05, P2SH policy): the pay-to-script-hash hand-over in thread.Step. Under BIP16 before genesis, when
// the first script ends the data stack is saved; when the second ends the final-stack check runs (not as the
// last script), the top item of the saved stack is parsed as the redeem script and appended to the scripts,
// and the data stack becomes the saved stack without that item. Read from the dominating conditions and the
// operands of the five calls; no go-bt code runs.
func ruleSP2SH(c *Ctx) {
	fn := c.P.Func("bscript/interpreter", "*thread", "Step")
	if fn == nil {
		c.Undecided("S-p2sh", "thread.Step", token.NoPos, "not found")
		return
	}
	v := viewOf(fn)
	env := v.Env
	condsOf := func(b *ssa.BasicBlock) (bip16, preGenesis bool, idx int64) {
		idx = -1
		for _, dc := range dominatingConds(b) {
			t := atomName(env.Term(dc.cond))
			switch {
			case strings.HasSuffix(t, ".bip16") && dc.truth:
				bip16 = true
			case strings.HasSuffix(t, ".afterGenesis") && !dc.truth:
				preGenesis = true
			default:
				if bo, ok := dc.cond.(*ssa.BinOp); ok && bo.Op == token.EQL && dc.truth && strings.HasSuffix(atomName(env.Term(bo.X)), ".scriptIdx") {
					if k, isK := constInt(bo.Y); isK {
						idx = k.Int64()
					}
				}
			}
		}
		return
	}
	var problems []string
	found := map[string]bool{}
	var checkBlock, parseBlock *ssa.BasicBlock
	for _, ins := range v.Instrs {
		switch x := ins.(type) {
		case *ssa.Store:
			fa, ok := x.Addr.(*ssa.FieldAddr)
			if !ok || namedOf(fa.X.Type()) != "thread" {
				continue
			}
			switch fieldName(fa.X.Type(), fa.Field) {
			case "savedFirstStack":
				found["save"] = true
				call, isCall := x.Val.(*ssa.Call)
				b16, pre, idx := condsOf(x.Block())
				if !isCall || call.Call.StaticCallee() == nil || call.Call.StaticCallee().Name() != "GetStack" {
					problems = append(problems, "the saved stack is not the data stack (GetStack)")
				}
				if !b16 || !pre || idx != 1 {
					problems = append(problems, fmt.Sprintf("the data stack is saved under bip16=%v pre-genesis=%v scriptIdx==%d (rule: BIP16, before genesis, after the first script)", b16, pre, idx))
				}
			}
		case *ssa.Call:
			sc := x.Call.StaticCallee()
			if sc == nil {
				if x.Call.IsInvoke() && x.Call.Method.Name() == "Parse" {
					found["parse"] = true
					parseBlock = x.Block()
					b16, pre, idx := condsOf(x.Block())
					if !b16 || !pre || idx != 2 {
						problems = append(problems, fmt.Sprintf("the redeem script is parsed under bip16=%v pre-genesis=%v scriptIdx==%d", b16, pre, idx))
					}
					a := atomName(env.Term(x.Call.Args[0]))
					if !strings.Contains(a, "NewFromBytes") || !strings.Contains(a, "savedFirstStack") || !strings.Contains(a, "- 1") {
						problems = append(problems, "what is parsed as the redeem script is not the top item of the saved stack: "+shorten(a, 90))
					}
				}
				continue
			}
			switch sc.Name() {
			case "CheckErrorCondition":
				b16, pre, idx := condsOf(x.Block())
				if b16 && pre && idx == 2 {
					found["check"] = true
					checkBlock = x.Block()
					if k, isK := x.Call.Args[1].(*ssa.Const); !isK || k.Value == nil || constant.BoolVal(k.Value) {
						problems = append(problems, "the stack check before the redeem script runs as if it were the final script")
					}
				}
			case "SetStack":
				found["set"] = true
				b16, pre, idx := condsOf(x.Block())
				if !b16 || !pre || idx != 2 {
					problems = append(problems, fmt.Sprintf("the data stack is replaced under bip16=%v pre-genesis=%v scriptIdx==%d", b16, pre, idx))
				}
				sl, isSl := x.Call.Args[1].(*ssa.Slice)
				okArg := false
				if isSl && sl.Low == nil && sl.High != nil && strings.HasSuffix(atomName(env.Term(sl.X)), ".savedFirstStack") {
					h := atomName(env.Term(sl.High))
					okArg = strings.Contains(h, "len(") && strings.Contains(h, "savedFirstStack") && strings.Contains(h, "- 1")
				}
				if !okArg {
					problems = append(problems, "the data stack for the redeem script is not the saved stack without its top item")
				}
			}
		}
	}
	// the parsed script is appended to the scripts
	for _, ins := range v.Instrs {
		if st, ok := ins.(*ssa.Store); ok {
			if fa, ok := st.Addr.(*ssa.FieldAddr); ok && namedOf(fa.X.Type()) == "thread" && fieldName(fa.X.Type(), fa.Field) == "scripts" {
				if call, ok := st.Val.(*ssa.Call); ok {
					if bi, ok := call.Call.Value.(*ssa.Builtin); ok && bi.Name() == "append" {
						found["append"] = true
					}
				}
			}
		}
	}
	for _, k := range []string{"save", "check", "parse", "append", "set"} {
		if !found[k] {
			problems = append(problems, "missing step: "+map[string]string{"save": "saving the data stack after the first script", "check": "the non-final stack check after the second script", "parse": "parsing the redeem script", "append": "appending the redeem script to the scripts", "set": "handing the saved stack (without the script) to the redeem script"}[k])
		}
	}
	if checkBlock != nil && parseBlock != nil && !checkBlock.Dominates(parseBlock) {
		problems = append(problems, "the redeem script is parsed without the stack check having passed")
	}
	sort.Strings(problems)
	c.Check(len(problems) == 0, "S-p2sh", "thread.Step", fn.Pos(), "BIP16 hand-over: save after script 1; after script 2 check (non-final), parse the saved top item, append it, continue on the saved stack without it",
		"thread.Step: "+strings.Join(problems, "; "))
}

// T-tmpl/multisig-keys (C14): the key scan of IsMultiSigOut. Between the leading small integer and the trailing
// small integer + OP_CHECKMULTISIG every part (indices 1 .. len-3) must be non-empty: the loop's counter starts at
// 1, goes up by one, runs while i < len(parts)-2, and an empty parts[i] answers false.
func ruleTMultisigScan(c *Ctx) {
	fn := c.P.Func("bscript", "*Script", "IsMultiSigOut")
	if fn == nil {
		c.Undecided("T-tmpl", "IsMultiSigOut/key-scan", token.NoPos, "not found")
		return
	}
	env := newTermEnv()
	why := "no loop over the key parts found"
	for _, h := range fn.Blocks {
		if !isLoopHeader(h) {
			continue
		}
		iff, ok := h.Instrs[len(h.Instrs)-1].(*ssa.If)
		if !ok {
			continue
		}
		bo, ok := iff.Cond.(*ssa.BinOp)
		if !ok || bo.Op != token.LSS {
			why = "the scan's test is not i < bound"
			continue
		}
		ph, isPh := bo.X.(*ssa.Phi)
		bound := canonTerm(env.Term(bo.Y))
		switch {
		case isPh && ph.Block() == h && phiStartsAt(ph, 1) && phiStepsByOne(ph, h):
			// for i := 1; i < len(parts)-2; i++
			if !strings.Contains(bound, "len(") || !strings.HasSuffix(strings.TrimSuffix(bound, ")"), "- 2") {
				why = "the scan does not stop before the trailing small integer and OP_CHECKMULTISIG (bound " + bound + ", expected len(parts) - 2)"
				continue
			}
		case countsFromZero(bo.X, h):
			// for _, key := range parts[1:len(parts)-2]
			okWin := false
			if ln, isCall := bo.Y.(*ssa.Call); isCall && isLenCall(ln) {
				if sl, isSl := ln.Call.Args[0].(*ssa.Slice); isSl && sl.Low != nil && sl.High != nil {
					lo, isK := constInt(sl.Low)
					hi := canonTerm(env.Term(sl.High))
					okWin = isK && lo.Int64() == 1 && strings.Contains(hi, "len(") && strings.HasSuffix(strings.TrimSuffix(hi, ")"), "- 2")
				}
			}
			if !okWin {
				why = "the scan does not run over the parts from index 1 to len(parts)-3 (it ranges over " + bound + ")"
				continue
			}
		default:
			why = "the scan does not start at the part after the leading small integer (index 1) and visit every part in turn"
			continue
		}
		// the body: len(parts[i]) < 1 (or == 0) -> return false
		body := h.Succs[0]
		biff, ok := body.Instrs[len(body.Instrs)-1].(*ssa.If)
		if !ok {
			why = "the scan's body does not test the part"
			continue
		}
		a, flip := canonAtom(canonTerm(env.Term(biff.Cond)))
		emptyOnTrue := false
		switch {
		case strings.HasPrefix(a, "(len(") && strings.HasSuffix(a, " == 0)"):
			emptyOnTrue = !flip
		case strings.HasPrefix(a, "(len(") && strings.HasSuffix(a, " < 1)"):
			emptyOnTrue = !flip
		default:
			why = "the scan's body tests " + shorten(a, 60) + ", expected an empty part"
			continue
		}
		if !strings.Contains(a, "[") {
			why = "the length tested is not that of parts[i]"
			continue
		}
		rej := body.Succs[0]
		if !emptyOnTrue {
			rej = body.Succs[1]
		}
		r, isRet := rej.Instrs[len(rej.Instrs)-1].(*ssa.Return)
		if !isRet || len(r.Results) != 1 {
			why = "an empty key part does not end the scan with an answer"
			continue
		}
		if k, isK := r.Results[0].(*ssa.Const); !isK || k.Value == nil || constant.BoolVal(k.Value) {
			why = "an empty key part is not answered with false"
			continue
		}
		why = ""
		break
	}
	c.Check(why == "", "T-tmpl", "IsMultiSigOut/key-scan", fn.Pos(), "every part from index 1 to len-3 must be non-empty", "IsMultiSigOut: "+why)
}
