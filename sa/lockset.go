package main

// Engine L: lockset analysis for structs that embed a sync.(RW)Mutex field.
// Forward dataflow over the SSA CFG of each function tracking, per mutex
// term, whether it is held for reading or writing; every access to a guarded
// field must happen with the mutex of the same base object held in a
// sufficient mode. This is the classic lockset argument: it covers every
// interleaving because it is a per-access invariant, not a schedule sample.

import (
	"fmt"
	"go/token"
	"go/types"
	"sort"
	"strings"

	"golang.org/x/tools/go/ssa"
)

type lockMode int

const (
	lkNone lockMode = iota
	lkR
	lkW
)

func (m lockMode) String() string { return [...]string{"none", "R", "W"}[m] }

type lockState map[string]lockMode

func (s lockState) clone() lockState {
	n := lockState{}
	for k, v := range s {
		n[k] = v
	}
	return n
}

func meet(a, b lockState) lockState {
	n := lockState{}
	for k, v := range a {
		if w, ok := b[k]; ok {
			if w < v {
				v = w
			}
			if v != lkNone {
				n[k] = v
			}
		}
	}
	return n
}

func eqState(a, b lockState) bool {
	if len(a) != len(b) {
		return false
	}
	for k, v := range a {
		if b[k] != v {
			return false
		}
	}
	return true
}

// mutexStructs: named struct types in scope with a sync mutex field -> mutex field name
func mutexStructs(c *Ctx) map[*types.Named]string {
	out := map[*types.Named]string{}
	for _, pk := range c.P.ScopePkgs() {
		sc := pk.Types.Scope()
		for _, n := range sc.Names() {
			tn, ok := sc.Lookup(n).(*types.TypeName)
			if !ok {
				continue
			}
			named, ok := tn.Type().(*types.Named)
			if !ok {
				continue
			}
			st, ok := named.Underlying().(*types.Struct)
			if !ok {
				continue
			}
			for i := 0; i < st.NumFields(); i++ {
				if isSyncMutex(st.Field(i).Type()) {
					out[named] = st.Field(i).Name()
				}
			}
		}
	}
	return out
}

func isSyncMutex(t types.Type) bool {
	n, ok := t.(*types.Named)
	if !ok || n.Obj().Pkg() == nil {
		return false
	}
	return n.Obj().Pkg().Path() == "sync" && (n.Obj().Name() == "Mutex" || n.Obj().Name() == "RWMutex")
}

func namedOfPtr(t types.Type) *types.Named {
	if p, ok := t.Underlying().(*types.Pointer); ok {
		t = p.Elem()
	}
	n, _ := t.(*types.Named)
	return n
}

// lockCall classifies a call instruction as a mutex operation.
func lockCall(env *TermEnv, ci ssa.CallInstruction) (mutexTerm string, op string, ok bool) {
	cm := ci.Common()
	sc := cm.StaticCallee()
	if sc == nil || sc.Pkg == nil || sc.Pkg.Pkg.Path() != "sync" || len(cm.Args) == 0 {
		return "", "", false
	}
	switch sc.Name() {
	case "Lock", "Unlock", "RLock", "RUnlock":
		return env.Term(cm.Args[0]).String(), sc.Name(), true
	}
	return "", "", false
}

type lockFinding struct {
	key, detail string
	pos         token.Pos
}

func ruleLockset(c *Ctx) {
	ms := mutexStructs(c)
	var names []string
	for n, f := range ms {
		names = append(names, n.Obj().Name()+"."+f)
	}
	sort.Strings(names)
	c.MinInstances("L-fee/mutex-structs", len(ms), 2)
	guardedSeen := map[string]int{} // Type.field -> accesses under lock
	accesses := 0
	acquisitions := 0
	// lock-order edges between mutex fields
	holdsWhenCalling := map[string]map[*ssa.Function]token.Pos{}
	acquires := map[*ssa.Function]map[string]bool{}

	var fns []*ssa.Function
	for _, pk := range c.P.ScopePkgs() {
		fns = append(fns, pkgFunctions(c.P, pk.PkgPath)...)
	}
	for _, fn := range fns {
		if len(fn.Blocks) == 0 {
			continue
		}
		env := newTermEnv()
		// dataflow
		in := make([]lockState, len(fn.Blocks))
		out := make([]lockState, len(fn.Blocks))
		visited := make([]bool, len(fn.Blocks))
		deferred := map[string]string{} // mutexTerm -> Unlock|RUnlock
		typedOf := map[string]string{}  // mutexTerm -> Type.field
		work := []*ssa.BasicBlock{fn.Blocks[0]}
		in[0] = lockState{}
		visited[0] = true
		// values loaded from guarded map/slice fields: they still refer to the guarded storage, so
		// every later use must also happen with the mutex held
		guardedRef := map[ssa.Value]string{} // value -> "mutexTerm|Type.field"
		for _, b := range fn.Blocks {
			for _, ins := range b.Instrs {
				fa, ok := ins.(*ssa.FieldAddr)
				if !ok || fa.Referrers() == nil {
					continue
				}
				named := namedOfPtr(fa.X.Type())
				mf, isM := ms[named]
				if !isM || fieldName(fa.X.Type(), fa.Field) == mf {
					continue
				}
				if _, fresh := fa.X.(*ssa.Alloc); fresh {
					continue
				}
				for _, r := range *fa.Referrers() {
					if ld, ok := r.(*ssa.UnOp); ok && ld.Op == token.MUL && isRefType(ld.Type()) {
						guardedRef[ld] = "&" + env.Term(fa.X).String() + "." + mf + "|" + named.Obj().Name() + "." + fieldName(fa.X.Type(), fa.Field)
					}
				}
			}
		}
		for changed := true; changed; {
			changed = false
			for v, g := range guardedRef {
				if v.Referrers() == nil {
					continue
				}
				for _, r := range *v.Referrers() {
					switch x := r.(type) {
					case *ssa.Phi, *ssa.ChangeType, *ssa.MakeInterface, *ssa.Slice:
						// a reference merged in only where it was just tested nil is no shared map
						if ph, isPh := r.(*ssa.Phi); isPh && nilOnEveryEdge(ph, v) {
							continue
						}
						if _, ok := guardedRef[x.(ssa.Value)]; !ok {
							guardedRef[x.(ssa.Value)] = g
							changed = true
						}
					}
				}
			}
		}
		checkRefUse := func(ins ssa.Instruction, st lockState) {
			var ops []*ssa.Value
			for _, op := range ins.Operands(ops) {
				if op == nil || *op == nil {
					continue
				}
				g, ok := guardedRef[*op]
				if !ok {
					continue
				}
				if _, isDef := ins.(*ssa.Phi); isDef {
					continue
				}
				if _, isDbg := ins.(*ssa.DebugRef); isDbg {
					continue
				}
				parts := strings.SplitN(g, "|", 2)
				need := lkR
				kind := "read"
				if mu, ok := ins.(*ssa.MapUpdate); ok && mu.Map == *op {
					need, kind = lkW, "write"
				}
				if _, isRet := ins.(*ssa.Return); isRet {
					continue // handled by L-escape
				}
				if _, same := ins.(*ssa.UnOp); same && ins.(*ssa.UnOp) == (*op).(ssa.Instruction) {
					continue
				}
				key := fmt.Sprintf("%s/use-of-guarded %s#%s", funcName(fn), parts[1], instrOrdinalOf2(ins))
				if st[parts[0]] >= need {
					c.OK("L-fee", key, ins.Pos(), fmt.Sprintf("%s of the guarded %s through a local copy of the reference, with %s held", kind, parts[1], parts[0]))
				} else {
					c.Fail("L-fee", key, ins.Pos(), fmt.Sprintf("%s of the guarded %s through a reference that was read under the lock but is used here with %s held in mode %s: the map/slice itself is still shared, so this races with writers", kind, parts[1], parts[0], st[parts[0]]))
				}
			}
		}
		transfer := func(b *ssa.BasicBlock, st lockState, report bool) lockState {
			st = st.clone()
			for _, ins := range b.Instrs {
				if report && len(guardedRef) > 0 {
					checkRefUse(ins, st)
				}
				switch x := ins.(type) {
				case *ssa.Defer:
					if mt, op, ok := lockCall(env, x); ok && (op == "Unlock" || op == "RUnlock") {
						deferred[mt] = op
						if report {
							held := st[mt]
							if (op == "Unlock" && held != lkW) || (op == "RUnlock" && held != lkR) {
								c.Fail("L-pair", funcName(fn)+"/defer "+op+" "+mt, x.Pos(), fmt.Sprintf("deferred %s while %s is held in mode %s: acquire and release kinds do not pair", op, mt, held))
							} else {
								c.OK("L-pair", funcName(fn)+"/defer "+op+" "+mt, x.Pos(), "deferred release pairs with the acquisition")
							}
						}
					}
				case *ssa.Call:
					if mt, op, ok := lockCall(env, x); ok {
						typedOf[mt] = mutexFieldTyped(x.Call.Args[0])
						switch op {
						case "Lock":
							if report {
								acquisitions++
								if st[mt] != lkNone {
									c.Fail("L-pair", funcName(fn)+"/relock "+mt, x.Pos(), "mutex acquired while already held on this path (self-deadlock)")
								}
							}
							st[mt] = lkW
						case "RLock":
							if report {
								acquisitions++
								if st[mt] == lkW {
									c.Fail("L-pair", funcName(fn)+"/relock "+mt, x.Pos(), "RLock while write-locked on this path (self-deadlock)")
								}
							}
							st[mt] = lkR
						case "Unlock", "RUnlock":
							if report {
								held := st[mt]
								if (op == "Unlock" && held != lkW) || (op == "RUnlock" && held != lkR) {
									c.Fail("L-pair", funcName(fn)+"/"+op+" "+mt, x.Pos(), fmt.Sprintf("%s while held mode is %s", op, held))
								}
							}
							delete(st, mt)
						}
						continue
					}
					if report {
						if sc := x.Call.StaticCallee(); sc != nil && sc.Pkg != nil && inScope(sc.Pkg.Pkg.Path()) {
							for mt := range st {
								fld := typedOf[mt]
								if holdsWhenCalling[fld] == nil {
									holdsWhenCalling[fld] = map[*ssa.Function]token.Pos{}
								}
								holdsWhenCalling[fld][sc] = x.Pos()
							}
						}
					}
				case *ssa.Return:
					if report {
						for mt, mode := range st {
							want := "Unlock"
							if mode == lkR {
								want = "RUnlock"
							}
							if deferred[mt] != want {
								c.Fail("L-pair", funcName(fn)+"/return-holding "+mt, x.Pos(), fmt.Sprintf("returns with %s held in mode %s and no matching deferred %s", mt, mode, want))
							}
						}
					}
				case *ssa.FieldAddr:
					if !report {
						continue
					}
					named := namedOfPtr(x.X.Type())
					mf, isM := ms[named]
					if !isM {
						continue
					}
					fname := fieldName(x.X.Type(), x.Field)
					if fname == mf {
						continue
					}
					base := env.Term(x.X).String()
					mt := "&" + base + "." + mf
					kinds := classifyFieldUse(x)
					for _, k := range kinds {
						accesses++
						key := fmt.Sprintf("%s/%s %s.%s", funcName(fn), k.kind, named.Obj().Name(), fname)
						if _, fresh := x.X.(*ssa.Alloc); fresh {
							c.OK("L-fee", key, x.Pos(), "access through a freshly allocated object that has not escaped (constructor)")
							continue
						}
						held := st[mt]
						need := lkR
						if k.write {
							need = lkW
						}
						if held >= need {
							guardedSeen[named.Obj().Name()+"."+fname]++
							c.OK("L-fee", key, x.Pos(), fmt.Sprintf("%s held in mode %s", mt, held))
						} else {
							c.Fail("L-fee", key, x.Pos(), fmt.Sprintf("%s of guarded field %s.%s with %s held in mode %s (needs %s): data race with any concurrent method of the documented thread-safe type", k.kind, named.Obj().Name(), fname, mt, held, need))
						}
						if k.escapes != "" {
							c.Fail("L-escape", key+"/"+k.escapes, x.Pos(), "guarded map/slice handed out by reference ("+k.escapes+"): callers can access it without the mutex")
						}
					}
				}
			}
			return st
		}
		for len(work) > 0 {
			b := work[0]
			work = work[1:]
			o := transfer(b, in[b.Index], false)
			if out[b.Index] != nil && eqState(out[b.Index], o) {
				continue
			}
			out[b.Index] = o
			for _, s := range b.Succs {
				var ni lockState
				if !visited[s.Index] {
					ni = o.clone()
					visited[s.Index] = true
				} else {
					ni = meet(in[s.Index], o)
					if eqState(ni, in[s.Index]) && out[s.Index] != nil {
						continue
					}
				}
				in[s.Index] = ni
				work = append(work, s)
			}
		}
		for _, b := range fn.Blocks {
			if visited[b.Index] {
				transfer(b, in[b.Index], true)
			}
		}
		// record which mutex fields fn acquires directly
		for _, b := range fn.Blocks {
			for _, ins := range b.Instrs {
				if ci, ok := ins.(ssa.CallInstruction); ok {
					if mt, op, ok := lockCall(env, ci); ok && (op == "Lock" || op == "RLock") {
						if acquires[fn] == nil {
							acquires[fn] = map[string]bool{}
						}
						acquires[fn][mutexFieldTyped(ci.Common().Args[0])+"|"+mt] = true
					}
				}
			}
		}
	}
	c.Covered["lock_acquisitions"] = acquisitions
	c.Covered["guarded_field_accesses"] = accesses
	c.MinInstances("L-fee/acquisitions", acquisitions, 10)
	c.MinInstances("L-fee/accesses", accesses, 12)
	// the confirmed guarded-field table
	for _, g := range []string{"FeeQuotes.quotes", "FeeQuote.fees", "FeeQuote.expiryTime"} {
		c.Check(guardedSeen[g] > 0, "L-fee", "guarded-field/"+g, token.NoPos, fmt.Sprintf("%d accesses under lock", guardedSeen[g]), "confirmed guarded field is never accessed under its mutex any more (table out of date: undecided)")
	}
	// lock order: edge A -> B if some function called while holding A (transitively) acquires B
	trans := map[*ssa.Function]map[string]bool{}
	var acq func(f *ssa.Function, seen map[*ssa.Function]bool) map[string]bool
	acq = func(f *ssa.Function, seen map[*ssa.Function]bool) map[string]bool {
		if r, ok := trans[f]; ok {
			return r
		}
		if seen[f] {
			return nil
		}
		seen[f] = true
		r := map[string]bool{}
		for k := range acquires[f] {
			r[strings.SplitN(k, "|", 2)[0]] = true
		}
		for _, b := range f.Blocks {
			for _, ins := range b.Instrs {
				if ci, ok := ins.(ssa.CallInstruction); ok {
					if sc := ci.Common().StaticCallee(); sc != nil && sc.Pkg != nil && inScope(sc.Pkg.Pkg.Path()) {
						for k := range acq(sc, seen) {
							r[k] = true
						}
					}
				}
			}
		}
		trans[f] = r
		return r
	}
	edges := map[string]map[string]token.Pos{}
	for a, callees := range holdsWhenCalling {
		for f, pos := range callees {
			for b := range acq(f, map[*ssa.Function]bool{}) {
				if edges[a] == nil {
					edges[a] = map[string]token.Pos{}
				}
				edges[a][b] = pos
			}
		}
	}
	var es []string
	for a, m := range edges {
		for b, pos := range m {
			es = append(es, a+" -> "+b)
			if a == b {
				c.Fail("L-order", "self/"+a, pos, "a method is called with "+a+" held that acquires "+a+" again (RWMutex is not re-entrant)")
			}
		}
	}
	sort.Strings(es)
	// cycle check (tiny graph)
	cyc := false
	for a := range edges {
		for b := range edges[a] {
			if a != b && edges[b] != nil {
				if _, back := edges[b][a]; back {
					cyc = true
					c.Fail("L-order", "cycle/"+a+"<->"+b, edges[a][b], "lock-order cycle between "+a+" and "+b)
				}
			}
		}
	}
	if !cyc {
		c.OK("L-order", "acyclic", token.NoPos, "lock acquisition order is acyclic: "+strings.Join(es, "; "))
	}
}

func mutexFieldTyped(v ssa.Value) string {
	if fa, ok := v.(*ssa.FieldAddr); ok {
		if n := namedOfPtr(fa.X.Type()); n != nil {
			return n.Obj().Name() + "." + fieldName(fa.X.Type(), fa.Field)
		}
	}
	return v.Name()
}

type fieldUse struct {
	kind    string
	write   bool
	escapes string
}

// classifyFieldUse: how the address of a guarded field is used.
func classifyFieldUse(fa *ssa.FieldAddr) []fieldUse {
	var out []fieldUse
	refs := fa.Referrers()
	if refs == nil {
		return []fieldUse{{kind: "address-taken", write: true}}
	}
	for _, r := range *refs {
		switch x := r.(type) {
		case *ssa.Store:
			if x.Addr == fa {
				out = append(out, fieldUse{kind: "write", write: true})
			} else {
				out = append(out, fieldUse{kind: "address-stored", write: true, escapes: "address stored"})
			}
		case *ssa.UnOp:
			// load; look at what happens with the loaded value
			u := fieldUse{kind: "read"}
			if vr := x.Referrers(); vr != nil {
				for _, rr := range *vr {
					switch y := rr.(type) {
					case *ssa.MapUpdate:
						if y.Map == x {
							u = fieldUse{kind: "map-write", write: true}
						}
					case *ssa.Return:
						if isRefType(x.Type()) {
							u.escapes = "returned"
						}
					case *ssa.Store, *ssa.Phi, *ssa.MakeInterface, *ssa.ChangeType:
						// through a result slot (defer spills results), a merge or an interface value
						if isRefType(x.Type()) && u.escapes == "" {
							u.escapes = refEscape(x, 0, map[ssa.Value]bool{})
						}
					case *ssa.Call:
						if b, ok := y.Call.Value.(*ssa.Builtin); ok && b.Name() == "delete" {
							u = fieldUse{kind: "map-delete", write: true}
						}
					}
				}
			}
			out = append(out, u)
		case *ssa.DebugRef:
		default:
			// address passed to a call etc.
			out = append(out, fieldUse{kind: "address-used", write: true})
		}
	}
	return out
}

// refEscape follows a reference loaded from a guarded field through local slots, merges and
// interface conversions: "returned" when it reaches a return, "stored" when it is stored into
// memory other than a local variable.
func refEscape(v ssa.Value, depth int, seen map[ssa.Value]bool) string {
	if depth > 6 || seen[v] || v.Referrers() == nil {
		return ""
	}
	seen[v] = true
	for _, r := range *v.Referrers() {
		switch y := r.(type) {
		case *ssa.Return:
			return "returned"
		case *ssa.Store:
			if y.Val != v {
				continue
			}
			al, isLocal := y.Addr.(*ssa.Alloc)
			if !isLocal {
				if fa, ok := y.Addr.(*ssa.FieldAddr); ok {
					if _, fresh := fa.X.(*ssa.Alloc); fresh {
						continue // a field of an object built here (e.g. a copy being assembled)
					}
				}
				return "stored"
			}
			if al.Referrers() != nil {
				for _, rr := range *al.Referrers() {
					if ld, ok := rr.(*ssa.UnOp); ok && ld.Op == token.MUL {
						if e := refEscape(ld, depth+1, seen); e != "" {
							return e
						}
					}
				}
			}
		case *ssa.Phi:
			if e := refEscape(y, depth+1, seen); e != "" {
				return e
			}
		case *ssa.MakeInterface:
			if e := refEscape(y, depth+1, seen); e != "" {
				return e
			}
		case *ssa.ChangeType:
			if e := refEscape(y, depth+1, seen); e != "" {
				return e
			}
		}
	}
	return ""
}

func isRefType(t types.Type) bool {
	switch t.Underlying().(type) {
	case *types.Map, *types.Slice:
		return true
	}
	return false
}

// pkgFunctions lists all source functions (incl. methods and anonymous functions) of a package.
func pkgFunctions(p *Prog, path string) []*ssa.Function {
	sp := p.SSAPkg(path)
	if sp == nil {
		return nil
	}
	seen := map[*ssa.Function]bool{}
	var out []*ssa.Function
	var add func(f *ssa.Function)
	add = func(f *ssa.Function) {
		if f == nil || seen[f] || f.Synthetic != "" && !strings.HasPrefix(f.Synthetic, "package init") && f.Syntax() == nil {
			return
		}
		seen[f] = true
		out = append(out, f)
		for _, a := range f.AnonFuncs {
			add(a)
		}
	}
	var names []string
	for n := range sp.Members {
		names = append(names, n)
	}
	sort.Strings(names)
	for _, n := range names {
		switch m := sp.Members[n].(type) {
		case *ssa.Function:
			add(m)
		case *ssa.Type:
			for _, typ := range []types.Type{m.Type(), types.NewPointer(m.Type())} {
				mset := p.SSA.MethodSets.MethodSet(typ)
				for i := 0; i < mset.Len(); i++ {
					f := p.SSA.MethodValue(mset.At(i))
					if f != nil && f.Pkg == sp && f.Synthetic == "" {
						add(f)
					}
				}
			}
		}
	}
	sort.SliceStable(out, func(i, j int) bool { return out[i].Pos() < out[j].Pos() })
	return out
}

func instrOrdinalOf2(ins ssa.Instruction) string {
	if v, ok := ins.(ssa.Value); ok {
		return fmt.Sprintf("%T", ins)[5:] + instrOrdinal(v)
	}
	b := ins.Block()
	for i, x := range b.Instrs {
		if x == ins {
			return fmt.Sprintf("b%d.%d", b.Index, i)
		}
	}
	return "?"
}

// nilOnEveryEdge: on every incoming edge of ph that carries v, v was just tested and found nil (the edge is the
// nil side of a branch on v, or its source block is reached only where v == nil).
func nilOnEveryEdge(ph *ssa.Phi, v ssa.Value) bool {
	isNilTest := func(cond ssa.Value) (eq bool, ok bool) {
		bo, isBo := cond.(*ssa.BinOp)
		if !isBo || (bo.Op != token.EQL && bo.Op != token.NEQ) {
			return false, false
		}
		k, isK := bo.Y.(*ssa.Const)
		if !isK || k.Value != nil || bo.X != v {
			return false, false
		}
		return bo.Op == token.EQL, true
	}
	found := false
	for i, e := range ph.Edges {
		if e != v {
			continue
		}
		found = true
		pred := ph.Block().Preds[i]
		okEdge := false
		if iff, isIf := pred.Instrs[len(pred.Instrs)-1].(*ssa.If); isIf && pred.Succs[0] != pred.Succs[1] {
			if eq, ok := isNilTest(iff.Cond); ok {
				nilSucc := pred.Succs[1]
				if eq {
					nilSucc = pred.Succs[0]
				}
				okEdge = nilSucc == ph.Block()
			}
		}
		for _, dc := range dominatingConds(pred) {
			if eq, ok := isNilTest(dc.cond); ok && eq == dc.truth {
				okEdge = true
			}
		}
		if !okEdge {
			return false
		}
	}
	return found
}
