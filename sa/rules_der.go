package main

// T-der: the parts of checkSignatureEncoding whose truth is in the shape of its decision structure:
//   window     the length window: < 8 bytes ErrSigTooShort, > 72 bytes ErrSigTooLong, 8..72 go on to the DER walk
//   low-s      under LOW_S the S integer (the slice the walk delimited) is compared NUMERICALLY with half the
//              group order and only a larger S is ErrSigHighS: decided over the order cells of two unsigned
//              big-endian numbers (numeric <,=,> for big.Int; length <,=,> x lexicographic <,=,> for byte strings)
//   half-order the constant compared with is N >> 1 of the secp256k1 group order (and its byte form is its Bytes())
// The DER walk between the two is value-level and is not decided here.

import (
	"fmt"
	"go/constant"
	"go/token"
	"math/big"
	"sort"
	"strings"

	"golang.org/x/tools/go/ssa"
)

func errCodeOfReturn(p *DPath) (int64, string) {
	if p.EndKind != "return" || p.Ret == nil || len(p.Ret.Results) != 1 {
		return -1, "other"
	}
	rt := p.Env.Term(p.Ret.Results[0])
	if rt.K == "const" && rt.C == nil {
		return -1, "nil"
	}
	if rt.K == "call" && strings.Contains(rt.Name, "errs.NewError") && len(rt.Args) > 0 && rt.Args[0].K == "const" && rt.Args[0].C != nil {
		v, _ := constant.Int64Val(constant.ToInt(rt.Args[0].C))
		return v, "error"
	}
	return -1, "other"
}

func stripNot(t *T, truth bool) (*T, bool) {
	for t.K == "un" && t.Op == token.NOT {
		t, truth = t.Args[0], !truth
	}
	return t, truth
}

func ruleTDer(c *Ctx) {
	fn := c.P.Func("bscript/interpreter", "*thread", "checkSignatureEncoding")
	if fn == nil {
		c.Undecided("T-der", "checkSignatureEncoding", token.NoPos, "not found")
		return
	}
	paths, err := feasiblePaths(fn, 200000)
	if err != nil {
		c.Undecided("T-der", "checkSignatureEncoding", fn.Pos(), "cannot enumerate paths: "+err.Error())
		return
	}
	tooShort := pkgConst(c, "bscript/interpreter/errs", "ErrSigTooShort")
	tooLong := pkgConst(c, "bscript/interpreter/errs", "ErrSigTooLong")
	highS := pkgConst(c, "bscript/interpreter/errs", "ErrSigHighS")
	lows := pkgConst(c, "bscript/interpreter/scriptflag", "VerifyLowS")
	isGate := func(t *T) bool {
		return t.K == "call" && (strings.Contains(t.Name, ".hasAny"))
	}
	// ---- window
	{
		outcomes := func(n int64) []string {
			asg := map[string]*big.Int{"len(p1)": big.NewInt(n)}
			got := map[string]bool{}
			for _, p := range paths {
				outcome := ""
				consistent := true
				for i, cd := range p.Conds {
					t, truth := stripNot(cd.Cond, cd.Truth)
					if i == 0 && isGate(t) {
						if !truth {
							consistent = false
						}
						continue
					}
					bt := map[string]*T{}
					baseTerms(t, bt)
					onlyLen := len(bt) > 0
					for k := range bt {
						if k != "len(p1)" {
							onlyLen = false
						}
					}
					if !onlyLen {
						outcome = "walk"
						break
					}
					v, ok := evalTerm(t, asg)
					if !ok {
						outcome = "walk"
						break
					}
					if (v.Sign() != 0) != truth {
						consistent = false
						break
					}
				}
				if !consistent {
					continue
				}
				if outcome == "" {
					code, kind := errCodeOfReturn(p)
					switch {
					case kind == "error" && code == tooShort:
						outcome = "too-short"
					case kind == "error" && code == tooLong:
						outcome = "too-long"
					case kind == "nil":
						outcome = "accepted without a walk"
					default:
						outcome = fmt.Sprintf("%s %d", kind, code)
					}
				}
				got[outcome] = true
			}
			var gs []string
			for g := range got {
				gs = append(gs, g)
			}
			sort.Strings(gs)
			return gs
		}
		var bad []string
		cells := 0
		for n := int64(0); n <= 80; n++ {
			want := "walk"
			if n < 8 {
				want = "too-short"
			} else if n > 72 {
				want = "too-long"
			}
			gs := outcomes(n)
			cells++
			if len(gs) != 1 || gs[0] != want {
				bad = append(bad, fmt.Sprintf("length %d: code %v, rule %s", n, gs, want))
			}
		}
		if len(bad) > 4 {
			bad = append(bad[:4], fmt.Sprintf("... %d more", len(bad)-4))
		}
		c.Covered["T-der:cells:window"] = cells
		c.Check(len(bad) == 0, "T-der", "window", fn.Pos(), "signatures shorter than 8 bytes are ErrSigTooShort, longer than 72 ErrSigTooLong, 8..72 reach the DER walk (lengths 0..80)",
			"checkSignatureEncoding's length window differs from the rule: "+strings.Join(bad, "; "))
	}
	// ---- low-s
	{
		type cell struct{ num, ln, lex int } // signs; for the big.Int form only num is used
		var cells []cell
		for _, ln := range []int{-1, 0, 1} {
			for _, lex := range []int{-1, 0, 1} {
				if ln != 0 && lex == 0 {
					continue // strings of different length are not equal
				}
				num := ln
				if ln == 0 {
					num = lex
				}
				cells = append(cells, cell{num, ln, lex})
			}
		}
		n, seen := 0, 0
		var bad []string
		sOperand := ""
		for _, p := range paths {
			// conditions after hasFlag(LOW_S) taken true
			at := -1
			for i, cd := range p.Conds {
				t, truth := stripNot(cd.Cond, cd.Truth)
				if t.K == "call" && strings.Contains(t.Name, ".hasFlag") && len(t.Args) == 2 && t.Args[1].K == "const" && t.Args[1].C != nil {
					if v, _ := constant.Int64Val(constant.ToInt(t.Args[1].C)); v == lows && truth {
						at = i
					}
				}
			}
			if at < 0 {
				if code, kind := errCodeOfReturn(p); kind == "error" && code == highS {
					bad = append(bad, "ErrSigHighS is returned on a path that does not test LOW_S")
				}
				continue
			}
			seen++
			_ = n
		}
		// evaluate per cell over the paths that share the longest common prefix up to the flag: group by prefix string
		groups := map[string][]*DPath{}
		for _, p := range paths {
			at := -1
			for i, cd := range p.Conds {
				t, truth := stripNot(cd.Cond, cd.Truth)
				if t.K == "call" && strings.Contains(t.Name, ".hasFlag") && len(t.Args) == 2 && t.Args[1].K == "const" && t.Args[1].C != nil {
					if v, _ := constant.Int64Val(constant.ToInt(t.Args[1].C)); v == lows && truth {
						at = i
					}
				}
			}
			if at < 0 {
				continue
			}
			q := *p
			q.Conds = p.Conds[at+1:]
			var pre []string
			for _, cd := range p.Conds[:at+1] {
				pre = append(pre, fmt.Sprint(cd.Truth)+":"+atomName(cd.Cond))
			}
			k := strings.Join(pre, "&")
			groups[k] = append(groups[k], &q)
		}
		var gkeys []string
		for k := range groups {
			gkeys = append(gkeys, k)
		}
		sort.Strings(gkeys)
		for _, gk := range gkeys {
			ps := groups[gk]
			// classify the base terms of the group's conditions
			bases := map[string]*T{}
			for _, p := range ps {
				for _, cd := range p.Conds {
					baseTerms(cd.Cond, bases)
				}
			}
			kind := map[string]string{}
			okTerms := true
			for k, t := range bases {
				switch {
				case t.K == "call" && strings.Contains(t.Name, "math/big.Int).Cmp") && len(t.Args) == 2:
					x, y := t.Args[0], t.Args[1]
					if x.K == "call" && strings.Contains(x.Name, "math/big.Int).SetBytes") && len(x.Args) == 2 && strings.HasSuffix(y.String(), "interpreter.halfOrder") {
						kind[k] = "num"
						sOperand = x.Args[1].String()
					} else {
						okTerms = false
						bad = append(bad, "S is compared through "+shorten(atomName(t), 120)+", not SetBytes(S).Cmp(halfOrder)")
					}
				case t.K == "call" && strings.Contains(t.Name, "bytes.Compare") && len(t.Args) == 2:
					if s, ok := trimmedOperand(t.Args[0]); ok && strings.HasSuffix(t.Args[1].String(), "interpreter.halfOrderBytes") {
						kind[k] = "lex"
						sOperand = s
					} else {
						okTerms = false
						bad = append(bad, "S is compared through "+shorten(atomName(t), 120)+", not bytes.Compare(S without leading zeros, halfOrderBytes)")
					}
				case t.K == "len" && len(t.Args) == 1:
					if s, ok := trimmedOperand(t.Args[0]); ok {
						kind[k] = "lenx"
						sOperand = s
					} else if strings.HasSuffix(t.Args[0].String(), "interpreter.halfOrderBytes") {
						kind[k] = "leny"
					} else {
						okTerms = false
						bad = append(bad, "the LOW_S branch depends on "+shorten(k, 100))
					}
				default:
					okTerms = false
					bad = append(bad, "the LOW_S branch depends on "+shorten(k, 100))
				}
			}
			if !okTerms {
				continue
			}
			for _, cl := range cells {
				asg := map[string]*big.Int{}
				for k, kd := range kind {
					switch kd {
					case "num":
						asg[k] = big.NewInt(int64(cl.num))
					case "lex":
						asg[k] = big.NewInt(int64(cl.lex))
					case "lenx":
						asg[k] = big.NewInt(int64(32 + cl.ln))
					case "leny":
						asg[k] = big.NewInt(32)
					}
				}
				got := map[string]bool{}
				for _, p := range ps {
					holds := true
					for _, cd := range p.Conds {
						v, ok := evalTerm(cd.Cond, asg)
						if !ok {
							holds = false
							got["undecidable condition "+shorten(atomName(cd.Cond), 80)] = true
							break
						}
						if (v.Sign() != 0) != cd.Truth {
							holds = false
							break
						}
					}
					if holds {
						code, kd := errCodeOfReturn(p)
						switch {
						case kd == "nil":
							got["accept"] = true
						case kd == "error" && code == highS:
							got["high-S"] = true
						default:
							got[fmt.Sprintf("%s %d", kd, code)] = true
						}
					}
				}
				var gs []string
				for g := range got {
					gs = append(gs, g)
				}
				sort.Strings(gs)
				want := "accept"
				if cl.num > 0 {
					want = "high-S"
				}
				n++
				if len(gs) != 1 || gs[0] != want {
					rel := map[int]string{-1: "<", 0: "=", 1: ">"}
					bad = append(bad, fmt.Sprintf("S %s half order (length %s, bytes %s): code %v, rule %s", rel[cl.num], rel[cl.ln], rel[cl.lex], gs, want))
				}
			}
		}
		// the operand compared is the S integer the walk delimited: sig[sOffset : sOffset+sLen] with
		// sLen = sig[sOffset-1] and sOffset+sLen == len(sig) tested by the walk
		if sOperand != "" && len(bad) == 0 {
			if why := sSliceOfWalk(paths, sOperand); why != "" {
				bad = append(bad, why)
			}
		}
		sort.Strings(bad)
		bad = dedupeStrings(bad)
		if len(bad) > 4 {
			bad = append(bad[:4], fmt.Sprintf("... %d more", len(bad)-4))
		}
		c.Covered["T-der:cells:low-s"] = n
		if seen == 0 || n == 0 {
			if len(bad) == 0 {
				c.Undecided("T-der", "low-s", fn.Pos(), "no path tests LOW_S")
			} else {
				c.Fail("T-der", "low-s", fn.Pos(), "the LOW_S comparison is not a numeric comparison of S with half the order: "+strings.Join(bad, "; "))
			}
		} else {
			c.Check(len(bad) == 0, "T-der", "low-s", fn.Pos(), fmt.Sprintf("under LOW_S exactly an S numerically above half the order is ErrSigHighS (%d order cells); the operand is the S integer the walk delimited", n),
				"the LOW_S comparison is not a numeric comparison of S with half the order: "+strings.Join(bad, "; "))
		}
	}
	// ---- half-order: the globals' initialisers
	{
		pkg := c.P.SSAPkg(modPath + "/bscript/interpreter")
		why := ""
		if pkg == nil {
			why = "package not found"
		} else {
			initFn := pkg.Func("init")
			env := newTermEnv()
			found := map[string]string{}
			for _, b := range initFn.Blocks {
				for _, ins := range b.Instrs {
					if st, ok := ins.(*ssa.Store); ok {
						if g, ok := st.Addr.(*ssa.Global); ok && (g.Name() == "halfOrder" || g.Name() == "halfOrderBytes") {
							found[g.Name()] = atomName(env.Term(st.Val))
						}
					}
				}
			}
			ho := found["halfOrder"]
			switch {
			case ho == "":
				why = "halfOrder is not initialised by the package initialiser"
			case !(strings.Contains(ho, "math/big.Int).Rsh(") && strings.Contains(ho, "bec.S256()") && strings.Contains(ho, ".N") && strings.HasSuffix(ho, ", 1)")):
				why = "halfOrder is " + shorten(ho, 140) + ", not the curve order shifted right by one"
			}
			if hb, ok := found["halfOrderBytes"]; ok && why == "" {
				if !(strings.Contains(hb, "math/big.Int).Bytes(") && strings.Contains(hb, "interpreter.halfOrder")) {
					why = "halfOrderBytes is " + shorten(hb, 140) + ", not halfOrder.Bytes()"
				}
			}
			for _, name := range []string{"halfOrder", "halfOrderBytes"} {
				if _, ok := found[name]; ok && why == "" {
					if g, ok := pkg.Members[name].(*ssa.Global); ok && !globalWrittenOnlyByInit(c.P, g) {
						why = name + " is written outside the package initialiser"
					}
				}
			}
		}
		c.Check(why == "", "T-der", "half-order", fn.Pos(), "halfOrder = secp256k1 N >> 1, set once by the package initialiser", why)
	}
}

// trimmedOperand: bytes.TrimLeft(X, "\x00") — the operand without leading zero bytes; returns X's name.
func trimmedOperand(t *T) (string, bool) {
	if t.K == "call" && strings.Contains(t.Name, "bytes.TrimLeft") && len(t.Args) == 2 && t.Args[1].K == "const" && t.Args[1].C != nil && t.Args[1].C.Kind() == constant.String {
		if constant.StringVal(t.Args[1].C) == "\x00" {
			return t.Args[0].String(), true
		}
	}
	return "", false
}

func dedupeStrings(in []string) []string {
	var out []string
	for i, s := range in {
		if i == 0 || s != in[i-1] {
			out = append(out, s)
		}
	}
	return out
}

// sSliceOfWalk: the operand "p1[L:H]" is the S integer: the walk tested H == len(p1) and H - L = int(p1[L-1]).
func sSliceOfWalk(paths []*DPath, operand string) string {
	for _, p := range paths {
		var sl *T
		var find func(t *T)
		find = func(t *T) {
			if t == nil || sl != nil {
				return
			}
			if t.K == "slice" && t.String() == operand {
				sl = t
				return
			}
			for _, a := range t.Args {
				find(a)
			}
		}
		for _, cd := range p.Conds {
			find(cd.Cond)
		}
		if sl == nil {
			continue
		}
		if len(sl.Args) != 3 || sl.Args[0].String() != "p1" {
			return "the value compared with half the order is " + shorten(operand, 100) + ", not a slice of the signature"
		}
		lo, hi := linOf(sl.Args[1], nil), linOf(sl.Args[2], nil)
		// H == len(p1) tested on this path
		tested := false
		for _, cd := range p.Conds {
			t, truth := stripNot(cd.Cond, cd.Truth)
			if t.K == "bin" && (t.Op == token.NEQ && !truth || t.Op == token.EQL && truth) {
				a, b := linOf(t.Args[0], nil), linOf(t.Args[1], nil)
				ln := newTLin()
				ln.addAtom("len(p1)", big.NewInt(1))
				if a.equal(hi) && b.equal(ln) || b.equal(hi) && a.equal(ln) {
					tested = true
				}
			}
		}
		if !tested {
			return "the slice compared with half the order does not end at the end of the signature (its end is not the quantity the walk tested against len(sig))"
		}
		d := hi.add(lo, -1)
		if len(d.Coef) != 1 || d.Const.Sign() != 0 {
			return "the slice compared with half the order is not sLen bytes long: " + d.String()
		}
		for a, k := range d.Coef {
			// a is int(p1[IDX]) with IDX = L-1
			if k.Cmp(big.NewInt(1)) != 0 || !strings.HasPrefix(a, "int(p1[") {
				return "the slice compared with half the order is not sLen bytes long: " + d.String()
			}
			idxStr := strings.TrimSuffix(strings.TrimPrefix(a, "int(p1["), "])")
			// compare lin(IDX)+1 with lo by rendering: find the index term inside the path's conditions
			var idxT *T
			var f2 func(t *T)
			f2 = func(t *T) {
				if t == nil || idxT != nil {
					return
				}
				if t.K == "index" && len(t.Args) == 2 && t.Args[0].String() == "p1" && atomName(t.Args[1]) == idxStr {
					idxT = t.Args[1]
					return
				}
				for _, x := range t.Args {
					f2(x)
				}
			}
			for _, cd := range p.Conds {
				f2(cd.Cond)
			}
			if idxT == nil {
				return "cannot relate the S slice's length byte to its start"
			}
			one := newTLin()
			one.Const.SetInt64(1)
			if !linOf(idxT, nil).add(one, 1).equal(lo) {
				return "the slice compared with half the order does not start right after its length byte"
			}
		}
		return ""
	}
	return "the S operand " + shorten(operand, 80) + " does not appear in the walk"
}

func globalWrittenOnlyByInit(p *Prog, g *ssa.Global) bool {
	for _, pk := range p.ScopePkgs() {
		for _, fn := range pkgFunctions(p, pk.PkgPath) {
			for _, b := range fn.Blocks {
				for _, ins := range b.Instrs {
					if st, ok := ins.(*ssa.Store); ok && st.Addr == ssa.Value(g) && fn.Name() != "init" {
						return false
					}
				}
			}
		}
	}
	return true
}
