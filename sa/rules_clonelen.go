package main

// S-clonelen: Tx.Clone returns a transaction with exactly as many inputs and outputs as its receiver.
// Decided on the shape of Clone: the clone's Inputs (Outputs) start as a slice of length 0 and receive
// exactly one unconditional append per iteration of one range loop over the receiver's Inputs
// (Outputs), and nothing else stores to them. When the rule is discharged, engine P uses
// len(Clone(x).Inputs) == len(x.Inputs) (and Outputs) as a fact; when it is not, the fact is withheld
// and the sites that rest on it are reported.

import (
	"fmt"
	"go/token"

	"golang.org/x/tools/go/ssa"
)

var cloneLenVerified = map[*Prog]map[string]bool{}

func ruleSCloneLen(c *Ctx) {
	fn := c.P.Func("", "*Tx", "Clone")
	if fn == nil {
		c.Undecided("S-clonelen", "Tx.Clone", token.NoPos, "not found")
		return
	}
	cloneLenVerified[c.P] = map[string]bool{}
	var clone *ssa.Alloc
	for _, b := range fn.Blocks {
		for _, ins := range b.Instrs {
			if al, ok := ins.(*ssa.Alloc); ok && al.Heap && namedOf(al.Type()) == "Tx" {
				if clone != nil {
					c.Fail("S-clonelen", "Tx.Clone/one-object", al.Pos(), "Clone allocates more than one Tx")
					return
				}
				clone = al
			}
		}
	}
	okRet := clone != nil
	for _, b := range fn.Blocks {
		if r, ok := b.Instrs[len(b.Instrs)-1].(*ssa.Return); ok && (len(r.Results) != 1 || r.Results[0] != ssa.Value(clone)) {
			okRet = false
		}
	}
	if !okRet {
		c.Fail("S-clonelen", "Tx.Clone/result", fn.Pos(), "Clone does not return the one Tx it allocates on every path")
		return
	}
	env := newTermEnv()
	for _, field := range []string{"Inputs", "Outputs"} {
		var stores []*ssa.Store
		for _, b := range fn.Blocks {
			for _, ins := range b.Instrs {
				if st, ok := ins.(*ssa.Store); ok {
					if fa, ok := st.Addr.(*ssa.FieldAddr); ok && fa.X == ssa.Value(clone) && fieldName(fa.X.Type(), fa.Field) == field {
						stores = append(stores, st)
					}
				}
			}
		}
		why := ""
		inits, appends := 0, 0
		for _, st := range stores {
			switch v := st.Val.(type) {
			case *ssa.MakeSlice:
				if k, ok := constInt(v.Len); ok && k.Sign() == 0 && !isLoopHeader(st.Block()) && len(dominatingLoopHeaders(st.Block())) == 0 {
					inits++
				} else {
					why = "the list is created with a non-zero length or inside a loop"
				}
			case *ssa.Slice: // make([]T, 0, n) with constant n compiles to new [n]T sliced [:0]
				if hi, ok := constInt(v.High); v.High != nil && ok && hi.Sign() == 0 && len(dominatingLoopHeaders(st.Block())) == 0 {
					inits++
				} else {
					why = "the list is created as a non-empty slice"
				}
			case *ssa.Call:
				bi, isB := v.Call.Value.(*ssa.Builtin)
				if !isB || bi.Name() != "append" {
					why = "the list is assigned the result of " + calleeLabel(&v.Call)
					continue
				}
				vals := appendedValues(v)
				base := atomName(env.Term(v.Call.Args[0]))
				hs := dominatingLoopHeaders(st.Block())
				okLoop := len(hs) == 1 && rangeOver(hs[0], env) == "p0."+field
				okUncond := len(hs) == 1 && unconditionalInLoop(hs[0], st.Block())
				if len(vals) == 1 && base == "alloc#"+instrOrdinal(clone)+"."+field && okLoop && okUncond {
					appends++
				} else {
					why = fmt.Sprintf("an append to the list is not exactly one element per iteration of a range over the receiver's %s (elements %d, base %s, loop ok %v, unconditional %v)", field, len(vals), base, okLoop, okUncond)
				}
			default:
				why = "the list is assigned something other than an empty slice or an append"
			}
		}
		ok := why == "" && inits <= 1 && appends == 1
		if ok {
			cloneLenVerified[c.P][field] = true
		}
		c.Check(ok, "S-clonelen", "Tx.Clone/"+field, fn.Pos(), "the clone's "+field+" start empty and receive exactly one element per element of the receiver's "+field,
			"Tx.Clone no longer returns as many "+field+" as its receiver has: "+why+fmt.Sprintf(" (initialisations %d, appends %d)", inits, appends))
	}
}

// dominatingLoopHeaders: the loop headers whose loop contains b.
func dominatingLoopHeaders(b *ssa.BasicBlock) []*ssa.BasicBlock {
	var out []*ssa.BasicBlock
	for _, h := range b.Parent().Blocks {
		if !isLoopHeader(h) {
			continue
		}
		var latches []*ssa.BasicBlock
		for _, p := range h.Preds {
			if h.Dominates(p) {
				latches = append(latches, p)
			}
		}
		if loopBlocks(h, latches)[b] && b != h {
			out = append(out, h)
		}
	}
	return out
}

// rangeOver: the collection a range loop (hidden index from -1, tested against len) iterates over.
func rangeOver(h *ssa.BasicBlock, env *TermEnv) string {
	iff, ok := h.Instrs[len(h.Instrs)-1].(*ssa.If)
	if !ok || !isRangeHeaderCond(iff) {
		return ""
	}
	ln := iff.Cond.(*ssa.BinOp).Y.(*ssa.Call)
	return atomName(env.Term(ln.Call.Args[0]))
}

// unconditionalInLoop: block b is executed on every iteration of the loop headed by h (it dominates
// every latch).
func unconditionalInLoop(h, b *ssa.BasicBlock) bool {
	n := 0
	for _, p := range h.Preds {
		if h.Dominates(p) {
			n++
			if !b.Dominates(p) {
				return false
			}
		}
	}
	return n > 0
}
