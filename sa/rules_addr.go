package main

// W-addr (C15): Base58Check layout agreement between the address encoder, the decoder and the
// validator: payload = version(1) . hash(20) . first four bytes of SHA256d(version . hash).

import (
	"fmt"
	"go/token"
	"strings"

	"golang.org/x/tools/go/ssa"
)

func termsOfCalls(fn *ssa.Function) (calls []string, stores []string, rets []string) {
	env := newTermEnv()
	for _, b := range fn.Blocks {
		for _, ins := range b.Instrs {
			switch x := ins.(type) {
			case *ssa.Call:
				var as []string
				for _, a := range x.Call.Args {
					as = append(as, canonTerm(env.Term(a)))
				}
				name := x.Call.Value.Name()
				if sc := x.Call.StaticCallee(); sc != nil {
					name = sc.Name()
				}
				calls = append(calls, name+"("+strings.Join(as, ", ")+")")
			case *ssa.Store:
				stores = append(stores, canonTerm(env.Term(x.Addr))+" := "+canonTerm(env.Term(x.Val)))
			case *ssa.Return:
				for _, r := range x.Results {
					rets = append(rets, canonTerm(env.Term(r)))
				}
			}
		}
	}
	return
}

func ruleWAddr(c *Ctx) {
	get := func(recv, name string) *ssa.Function {
		fn := c.P.Func("bscript", recv, name)
		if fn == nil {
			c.Undecided("W-addr", recv+name, token.NoPos, "not found")
		}
		return fn
	}
	// checksum = first 4 bytes of Sha256d(input), copied into the 4-byte result
	if fn := get("", "checksum"); fn != nil {
		calls, _, rets := termsOfCalls(fn)
		ok := len(calls) == 2 && calls[0] == "Sha256d(p0)" && calls[1] == "copy(alloc#0[0:len(alloc#0)], github.com/libsv/go-bk/crypto.Sha256d(p0)[0:4])" && len(rets) == 1 && rets[0] == "*alloc#0"
		c.Check(ok, "W-addr", "checksum", fn.Pos(), "checksum(x) = SHA256d(x)[0:4]", "checksum is no longer the first four bytes of SHA256d of its input: "+strings.Join(calls, "; "))
	}
	// encoder: base58(input . checksum(input))
	if fn := get("", "Base58EncodeMissingChecksum"); fn != nil {
		calls, _, _ := termsOfCalls(fn)
		var seq []string
		for _, cl := range calls {
			if !strings.HasPrefix(cl, "len(") {
				seq = append(seq, dynCallRe.ReplaceAllString(cl, "APP("))
			}
		}
		got := strings.Join(seq, " ; ")
		cp := "APP(%*ssa.MakeSlice#0, p0[0:len(p0)])"
		want := "append(%*ssa.MakeSlice#0, p0[0:len(p0)]) ; checksum(" + cp + ") ; append(" + cp + ", alloc#0[0:len(alloc#0)]) ; Encode(APP(" + cp + ", alloc#0[0:len(alloc#0)]))"
		c.Check(got == want, "W-addr", "Base58EncodeMissingChecksum", fn.Pos(), "encodes input . checksum(input) (the checksum taken over a private copy of the whole input)", "Base58EncodeMissingChecksum no longer encodes input . checksum(input): "+got)
	}
	// address builder: version byte (0 or 111) then the hash
	if fn := get("", "NewAddressFromPublicKeyHash"); fn != nil {
		calls, stores, _ := termsOfCalls(fn)
		okV := false
		for _, s := range stores {
			if s == "&alloc#0[0:1][0] := 111" {
				okV = true
			}
		}
		okA := false
		for _, cl := range calls {
			if dynCallRe.ReplaceAllString(cl, "APP(") == "Base58EncodeMissingChecksum(APP(alloc#0[0:1], p0))" {
				okA = true
			}
		}
		c.Check(okV && okA, "W-addr", "NewAddressFromPublicKeyHash", fn.Pos(), "payload = one version byte followed by the hash", "the address payload is no longer version byte . hash")
	}
	// validator: checksum over bytes 0..21, embedded checksum = bytes 21..25, both compared
	if fn := get("*a25", "computeChecksum"); fn != nil {
		calls, _, _ := termsOfCalls(fn)
		ok := len(calls) == 2 && calls[0] == "Sha256d(p0[0:21])" && strings.HasPrefix(calls[1], "copy(alloc#0[0:len(alloc#0)], github.com/libsv/go-bk/crypto.Sha256d(p0[0:21])")
		c.Check(ok, "W-addr", "a25.computeChecksum", fn.Pos(), "SHA256d over version . hash (bytes 0..21), first four bytes (the result array holds four)", "the validator no longer computes the checksum over bytes 0..21: "+strings.Join(calls, "; "))
	}
	if fn := get("*a25", "embeddedChecksum"); fn != nil {
		calls, _, _ := termsOfCalls(fn)
		ok := len(calls) == 1 && calls[0] == "copy(alloc#0[0:len(alloc#0)], p0[21:len(p0)])"
		c.Check(ok, "W-addr", "a25.embeddedChecksum", fn.Pos(), "the embedded checksum is bytes 21..25", "the validator no longer reads the embedded checksum from bytes 21..25: "+strings.Join(calls, "; "))
	}
	// the string is validated as given
	if fn := get("", "ValidateAddress"); fn != nil {
		calls, _, _ := termsOfCalls(fn)
		okV, okD := false, false
		for _, cl := range calls {
			if cl == "validA58([]byte(p0))" {
				okV = true
			}
			if cl == "DecodeBIP276(p0)" {
				okD = true
			}
		}
		c.Check(okV && okD, "W-addr", "ValidateAddress/as-given", fn.Pos(), "the caller's string itself is handed to validA58 / DecodeBIP276", "ValidateAddress transforms the string before validating it (trimmed, lower-cased ...): it accepts strings that the address constructors reject")
	}
	// decoder: 25 bytes, hash = bytes 1..21
	if fn := get("", "addressToPubKeyHashStr"); fn != nil {
		_, _, rets := termsOfCalls(fn)
		n, okSlices := 0, true
		for _, r := range rets {
			if strings.HasPrefix(r, "encoding/hex.EncodeToString(") {
				n++
				if !strings.Contains(r, "[1:(len(") || !strings.HasSuffix(r, " - 4)])") {
					okSlices = false
				}
			}
		}
		okLen := false
		for _, b := range fn.Blocks {
			if iff, ok := b.Instrs[len(b.Instrs)-1].(*ssa.If); ok {
				t := canonTerm(newTermEnv().Term(iff.Cond))
				if strings.HasPrefix(t, "(len(") && strings.HasSuffix(t, " != 25)") {
					okLen = true
				}
			}
		}
		c.Check(n == 2 && okSlices && okLen, "W-addr", "addressToPubKeyHashStr", fn.Pos(), "decoded payload must be 25 bytes; the hash is bytes 1..len-4", fmt.Sprintf("the decoder no longer takes bytes 1..21 of a 25-byte payload as the hash (%d hash returns, slices ok %v, length test %v)", n, okSlices, okLen))
	}
}
